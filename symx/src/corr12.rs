//! Engine B driver for C12: run the real integer `Lerp` impls of vek on inputs for which float arithmetic
//! is exact, one case per line: `ty lo hi from to num sh result` (factor = num / 2^sh).
use vek::ops::Lerp;
use crate::Rng;
use std::io::Write;

fn emit<W: Write>(w: &mut W, ty: &str, lo: i128, hi: i128, from: i128, to: i128, num: i64, sh: u32, r: Option<i128>) {
    match r { Some(v) => writeln!(w, "{} {} {} {} {} {} {} {}", ty, lo, hi, from, to, num, sh, v).unwrap(),
              None => writeln!(w, "{} {} {} {} {} {} {} PANIC", ty, lo, hi, from, to, num, sh).unwrap() }
}

macro_rules! run_ty {
    ($w:expr, $T:ty, $F:ty, $pairs:expr, $grid:expr) => {{
        let lo = <$T>::MIN as i128; let hi = <$T>::MAX as i128;
        for &(from, to) in $pairs.iter() {
            for &(num, sh) in $grid.iter() {
                let f: $F = (num as $F) / ((1u64 << sh) as $F);
                let (a, b) = (from as $T, to as $T);
                let p = std::panic::catch_unwind(|| <$T as Lerp<$F>>::lerp_unclamped_precise(a, b, f)).ok().map(|v| v as i128);
                let q = std::panic::catch_unwind(|| <$T as Lerp<$F>>::lerp_unclamped(a, b, f)).ok().map(|v| v as i128);
                emit($w, concat!(stringify!($T), "/", stringify!($F), "/precise"), lo, hi, from, to, num, sh, p);
                emit($w, concat!(stringify!($T), "/", stringify!($F), "/fast"), lo, hi, from, to, num, sh, q);
                // by-reference impls
                let q2 = std::panic::catch_unwind(|| <&$T as Lerp<$F>>::lerp_unclamped(&a, &b, f)).ok().map(|v| v as i128);
                if q2 != q { emit($w, concat!(stringify!($T), "/", stringify!($F), "/ref-differs"), lo, hi, from, to, num, sh, q2); }
                let p2 = std::panic::catch_unwind(|| <&$T as Lerp<$F>>::lerp_unclamped_precise(&a, &b, f)).ok().map(|v| v as i128);
                if p2 != p { emit($w, concat!(stringify!($T), "/", stringify!($F), "/ref-precise-differs"), lo, hi, from, to, num, sh, p2); }
            }
        }
    }};
}

pub fn run(tier: &str, seed: u64) {
    let out = std::io::stdout(); let mut w = std::io::BufWriter::new(out.lock());
    let thorough = tier == "thorough";
    let grid_full: Vec<(i64, u32)> = vec![(-16, 4), (-8, 4), (0, 4), (1, 4), (4, 4), (8, 4), (12, 4), (15, 4), (16, 4), (24, 4), (1, 1), (3, 2), (5, 3)];
    let grid_quick: Vec<(i64, u32)> = vec![(0, 4), (8, 4), (16, 4), (5, 3), (24, 4), (-8, 4)];
    let grid = if thorough { &grid_full } else { &grid_quick };
    // all 65536 pairs of the 8-bit types (quick: every pair for 2 factors, a stride-3 sub-lattice for the others)
    let mut u8p = vec![]; let mut i8p = vec![];
    for a in 0..256i128 { for b in 0..256i128 { u8p.push((a, b)); i8p.push((a - 128, b - 128)); } }
    if thorough {
        run_ty!(&mut w, u8, f32, u8p, grid); run_ty!(&mut w, u8, f64, u8p, grid); run_ty!(&mut w, i8, f32, i8p, grid); run_ty!(&mut w, i8, f64, i8p, grid);
    } else {
        let g2: Vec<(i64, u32)> = vec![(8, 4), (5, 3)];
        run_ty!(&mut w, u8, f32, u8p, &g2); run_ty!(&mut w, i8, f32, i8p, &g2);
        let sub_u: Vec<(i128, i128)> = u8p.iter().cloned().filter(|(a, b)| (a + 7 * b) % 3 == 0).collect();
        let sub_i: Vec<(i128, i128)> = i8p.iter().cloned().filter(|(a, b)| (a + 7 * b).rem_euclid(3) == 0).collect();
        run_ty!(&mut w, u8, f32, sub_u, grid); run_ty!(&mut w, u8, f64, sub_u, grid); run_ty!(&mut w, i8, f32, sub_i, grid); run_ty!(&mut w, i8, f64, sub_i, grid);
    }
    // wider types: sampled endpoints small enough for exact float arithmetic, plus representable range limits
    let mut rng = Rng(0x9E3779B97F4A7C15 ^ seed.wrapping_mul(0xD1342543DE82EF95));
    let n = if thorough { 20000 } else { 1500 };
    let mut sample = |bits: u32, signed: bool, lim: &[i128]| -> Vec<(i128, i128)> {
        let mut v = vec![];
        for _ in 0..n {
            let mut pick = |r: u64| -> i128 { let m = (r % (1u64 << bits)) as i128; if signed && (r >> 60) & 1 == 1 { -m } else { m } };
            let a = pick(rng.next()); let b = pick(rng.next()); v.push((a, b));
        }
        for &x in lim { for &y in lim { v.push((x, y)); } v.push((x, 0)); v.push((0, x)); v.push((x, 1)); }
        v
    };
    let s16u = sample(16, false, &[0, 65535, 32768]); let s16i = sample(15, true, &[-32768, 32767, 0]);
    run_ty!(&mut w, u16, f32, s16u, grid); run_ty!(&mut w, i16, f32, s16i, grid); run_ty!(&mut w, u16, f64, s16u, grid); run_ty!(&mut w, i16, f64, s16i, grid);
    let s32u_f32 = sample(18, false, &[0]); let s32i_f32 = sample(18, true, &[0]);
    run_ty!(&mut w, u32, f32, s32u_f32, grid); run_ty!(&mut w, i32, f32, s32i_f32, grid);
    let s32u = sample(32, false, &[0, 4294967295]); let s32i = sample(31, true, &[-2147483648, 2147483647]);
    run_ty!(&mut w, u32, f64, s32u, grid); run_ty!(&mut w, i32, f64, s32i, grid);
    let s64u = sample(47, false, &[0]); let s64i = sample(47, true, &[0]);
    run_ty!(&mut w, u64, f64, s64u, grid); run_ty!(&mut w, i64, f64, s64i, grid);
    run_ty!(&mut w, usize, f64, s64u, grid); run_ty!(&mut w, isize, f64, s64i, grid);
    let s64u_f32 = sample(18, false, &[0]); let s64i_f32 = sample(18, true, &[0]);
    run_ty!(&mut w, u64, f32, s64u_f32, grid); run_ty!(&mut w, i64, f32, s64i_f32, grid);
    // endpoints at the top of the float's exact-integer range (odd values just below 2^24 / 2^53): factors 0 and 1 are
    // exact there, and 1/2 when the endpoints have the same parity; a rounding shortcut such as `x + 0.5` is not
    let mut edge = |mant: u32, signed: bool, same_parity: bool| -> Vec<(i128, i128)> {
        let mut v = vec![];
        let lo = 1i128 << (mant - 1); let span = (1u64 << (mant - 1)) as u64;
        for k in 0..(n / 2) {
            let mut a = lo + (rng.next() % span) as i128; let mut b = lo + (rng.next() % span) as i128;
            if k % 2 == 0 { a |= 1; }
            if same_parity { b = (b & !1) | (a & 1); }
            if signed && k % 3 == 0 { a = -a; b = -b; }
            v.push((a, b));
        }
        let top = (1i128 << mant) - 1;
        v.push((lo + 1, top)); v.push((top, lo + 1)); v.push((top, top)); v.push((top - 2, top));
        v
    };
    let g01: Vec<(i64, u32)> = vec![(0, 4), (16, 4)]; let g_half: Vec<(i64, u32)> = vec![(8, 4)];
    let e24u = edge(24, false, false); let e24i = edge(24, true, false); let e24up = edge(24, false, true); let e24ip = edge(24, true, true);
    run_ty!(&mut w, u32, f32, e24u, &g01); run_ty!(&mut w, i32, f32, e24i, &g01); run_ty!(&mut w, u64, f32, e24u, &g01); run_ty!(&mut w, i64, f32, e24i, &g01);
    run_ty!(&mut w, u32, f32, e24up, &g_half); run_ty!(&mut w, i32, f32, e24ip, &g_half); run_ty!(&mut w, usize, f32, e24up, &g_half); run_ty!(&mut w, isize, f32, e24ip, &g_half);
    let e53u = edge(53, false, false); let e53i = edge(53, true, false); let e53up = edge(53, false, true); let e53ip = edge(53, true, true);
    run_ty!(&mut w, u64, f64, e53u, &g01); run_ty!(&mut w, i64, f64, e53i, &g01); run_ty!(&mut w, usize, f64, e53u, &g01); run_ty!(&mut w, isize, f64, e53i, &g01);
    run_ty!(&mut w, u64, f64, e53up, &g_half); run_ty!(&mut w, i64, f64, e53ip, &g_half);
}
