//! C04 — rotation builders (matrices, quaternions, Vec2).
use crate::reg::*;
use crate::explore::Out;
use crate::io::*;
use vek::vec::repr_c::{Vec2, Vec3};
use vek::quaternion::repr_c::Quaternion;
use vek::mat::repr_c::row_major as rm;
use vek::mat::repr_c::column_major as cm;

macro_rules! rot34 { ($reg:expr, $n:expr, $l:expr, $M:ty) => {{
    let p = format!("mat{}{}", $n, $l); let nn = $n * $n;
    ep!($reg, format!("{}_rotation_x", p), 1, |a| { Out::of(<$M>::rotation_x(a[0]).flat()) });
    ep!($reg, format!("{}_rotation_y", p), 1, |a| { Out::of(<$M>::rotation_y(a[0]).flat()) });
    ep!($reg, format!("{}_rotation_z", p), 1, |a| { Out::of(<$M>::rotation_z(a[0]).flat()) });
    ep!($reg, format!("{}_rotation_3d", p), 4, |a| { let v: Vec3<T> = Flat::rd(&a[1..]); Out::of(<$M>::rotation_3d(a[0], v).flat()) });
    ep!($reg, format!("{}_rotated_x", p), nn + 1, |a| { let m: $M = Flat::rd(&a[..nn]); Out::of(m.rotated_x(a[nn]).flat()) });
    ep!($reg, format!("{}_rotated_y", p), nn + 1, |a| { let m: $M = Flat::rd(&a[..nn]); Out::of(m.rotated_y(a[nn]).flat()) });
    ep!($reg, format!("{}_rotated_z", p), nn + 1, |a| { let m: $M = Flat::rd(&a[..nn]); Out::of(m.rotated_z(a[nn]).flat()) });
    ep!($reg, format!("{}_rotated_3d", p), nn + 4, |a| { let m: $M = Flat::rd(&a[..nn]); let v: Vec3<T> = Flat::rd(&a[nn + 1..]); Out::of(m.rotated_3d(a[nn], v).flat()) });
    ep!($reg, format!("{}_rotate_x", p), nn + 1, |a| { let mut m: $M = Flat::rd(&a[..nn]); m.rotate_x(a[nn]); Out::of(m.flat()) });
    ep!($reg, format!("{}_rotate_y", p), nn + 1, |a| { let mut m: $M = Flat::rd(&a[..nn]); m.rotate_y(a[nn]); Out::of(m.flat()) });
    ep!($reg, format!("{}_rotate_z", p), nn + 1, |a| { let mut m: $M = Flat::rd(&a[..nn]); m.rotate_z(a[nn]); Out::of(m.flat()) });
    ep!($reg, format!("{}_rotate_3d", p), nn + 4, |a| { let mut m: $M = Flat::rd(&a[..nn]); let v: Vec3<T> = Flat::rd(&a[nn + 1..]); m.rotate_3d(a[nn], v); Out::of(m.flat()) });
    ep!($reg, format!("{}_from_quaternion", p), 4, |a| { let q: Quaternion<T> = Flat::rd(a); Out::of(<$M>::from(q).flat()) });
    // matrix from the quaternion built for (angle, axis)
    ep!($reg, format!("{}_from_quat_rotation_3d", p), 4, |a| { let v: Vec3<T> = Flat::rd(&a[1..]); Out::of(<$M>::from(Quaternion::rotation_3d(a[0], v)).flat()) });
}}; }
macro_rules! rot2 { ($reg:expr, $l:expr, $M:ty) => {{
    let p = format!("mat2{}", $l);
    ep!($reg, format!("{}_rotation_z", p), 1, |a| { Out::of(<$M>::rotation_z(a[0]).flat()) });
    ep!($reg, format!("{}_rotated_z", p), 5, |a| { let m: $M = Flat::rd(&a[..4]); Out::of(m.rotated_z(a[4]).flat()) });
    ep!($reg, format!("{}_rotate_z", p), 5, |a| { let mut m: $M = Flat::rd(&a[..4]); m.rotate_z(a[4]); Out::of(m.flat()) });
}}; }

pub fn register(reg: &mut Reg) {
    rot34!(reg, 4, "r", rm::Mat4<T>); rot34!(reg, 4, "c", cm::Mat4<T>);
    rot34!(reg, 3, "r", rm::Mat3<T>); rot34!(reg, 3, "c", cm::Mat3<T>);
    rot2!(reg, "r", rm::Mat2<T>); rot2!(reg, "c", cm::Mat2<T>);
    ep!(reg, "mat3r_from_mat4r".to_string(), 16, |a| { let m: rm::Mat4<T> = Flat::rd(a); Out::of(rm::Mat3::<T>::from(m).flat()) });
    ep!(reg, "mat3c_from_mat4c".to_string(), 16, |a| { let m: cm::Mat4<T> = Flat::rd(a); Out::of(cm::Mat3::<T>::from(m).flat()) });
    // quaternions
    ep!(reg, "quat_rotation_x".to_string(), 1, |a| { Out::of(Quaternion::<T>::rotation_x(a[0]).flat()) });
    ep!(reg, "quat_rotation_y".to_string(), 1, |a| { Out::of(Quaternion::<T>::rotation_y(a[0]).flat()) });
    ep!(reg, "quat_rotation_z".to_string(), 1, |a| { Out::of(Quaternion::<T>::rotation_z(a[0]).flat()) });
    ep!(reg, "quat_rotation_3d".to_string(), 4, |a| { let v: Vec3<T> = Flat::rd(&a[1..]); Out::of(Quaternion::<T>::rotation_3d(a[0], v).flat()) });
    ep!(reg, "quat_rotated_x".to_string(), 5, |a| { let q: Quaternion<T> = Flat::rd(&a[..4]); Out::of(q.rotated_x(a[4]).flat()) });
    ep!(reg, "quat_rotated_y".to_string(), 5, |a| { let q: Quaternion<T> = Flat::rd(&a[..4]); Out::of(q.rotated_y(a[4]).flat()) });
    ep!(reg, "quat_rotated_z".to_string(), 5, |a| { let q: Quaternion<T> = Flat::rd(&a[..4]); Out::of(q.rotated_z(a[4]).flat()) });
    ep!(reg, "quat_rotated_3d".to_string(), 8, |a| { let q: Quaternion<T> = Flat::rd(&a[..4]); let v: Vec3<T> = Flat::rd(&a[5..]); Out::of(q.rotated_3d(a[4], v).flat()) });
    ep!(reg, "quat_rotate_x".to_string(), 5, |a| { let mut q: Quaternion<T> = Flat::rd(&a[..4]); q.rotate_x(a[4]); Out::of(q.flat()) });
    ep!(reg, "quat_rotate_y".to_string(), 5, |a| { let mut q: Quaternion<T> = Flat::rd(&a[..4]); q.rotate_y(a[4]); Out::of(q.flat()) });
    ep!(reg, "quat_rotate_z".to_string(), 5, |a| { let mut q: Quaternion<T> = Flat::rd(&a[..4]); q.rotate_z(a[4]); Out::of(q.flat()) });
    ep!(reg, "quat_rotate_3d".to_string(), 8, |a| { let mut q: Quaternion<T> = Flat::rd(&a[..4]); let v: Vec3<T> = Flat::rd(&a[5..]); q.rotate_3d(a[4], v); Out::of(q.flat()) });
    ep!(reg, "quat_mul".to_string(), 8, |a| { let p: Quaternion<T> = Flat::rd(&a[..4]); let q: Quaternion<T> = Flat::rd(&a[4..]); Out::of((p * q).flat()) });
    // Vec2 rotation
    ep!(reg, "vec2_rotated_z".to_string(), 3, |a| { let v: Vec2<T> = Flat::rd(&a[..2]); Out::of(v.rotated_z(a[2]).flat()) });
    ep!(reg, "vec2_rotate_z".to_string(), 3, |a| { let mut v: Vec2<T> = Flat::rd(&a[..2]); v.rotate_z(a[2]); Out::of(v.flat()) });
}
