//! C13 — axis-aligned boxes (Aabr/Aabb) and rectangles (Rect/Rect3).
use crate::reg::*;
use crate::explore::Out;
use crate::io::*;
use vek::vec::repr_c::{Vec2, Vec3};
use vek::geom::repr_c::{Aabr, Aabb, Rect, Rect3};
use crate::symint::{SymS, SymU};

macro_rules! aab { ($reg:expr, $p:expr, $A:ty, $V:ty, $R:ty, $d:expr, $into_rect:ident, $contains_aab:ident, $collides:ident, $colvec:ident) => {{
    let d = $d; let n = 2 * d; let p = $p;
    ep!($reg, format!("{}_is_valid", p), n, |a| { let b: $A = Flat::rd(a); Out::flag(b.is_valid()) });
    ep!($reg, format!("{}_made_valid", p), n, |a| { let b: $A = Flat::rd(a); Out::of(b.made_valid().flat()) });
    ep!($reg, format!("{}_make_valid", p), n, |a| { let mut b: $A = Flat::rd(a); b.make_valid(); Out::of(b.flat()) });
    ep!($reg, format!("{}_new_empty", p), d, |a| { let v: $V = Flat::rd(a); Out::of(<$A>::new_empty(v).flat()) });
    ep!($reg, format!("{}_into_rect", p), n, |a| { let b: $A = Flat::rd(a); Out::of(b.$into_rect().flat()) });
    ep!($reg, format!("{}_center", p), n, |a| { let b: $A = Flat::rd(a); Out::of(b.center().flat()) });
    ep!($reg, format!("{}_size", p), n, |a| { let b: $A = Flat::rd(a); Out::of(b.size().flat()) });
    ep!($reg, format!("{}_half_size", p), n, |a| { let b: $A = Flat::rd(a); Out::of(b.half_size().flat()) });
    ep!($reg, format!("{}_union", p), 2 * n, |a| { let b: $A = Flat::rd(&a[..n]); let c: $A = Flat::rd(&a[n..]); Out::of(b.union(c).flat()) });
    ep!($reg, format!("{}_intersection", p), 2 * n, |a| { let b: $A = Flat::rd(&a[..n]); let c: $A = Flat::rd(&a[n..]); Out::of(b.intersection(c).flat()) });
    ep!($reg, format!("{}_expand_to_contain", p), 2 * n, |a| { let mut b: $A = Flat::rd(&a[..n]); let c: $A = Flat::rd(&a[n..]); b.expand_to_contain(c); Out::of(b.flat()) });
    ep!($reg, format!("{}_intersect", p), 2 * n, |a| { let mut b: $A = Flat::rd(&a[..n]); let c: $A = Flat::rd(&a[n..]); b.intersect(c); Out::of(b.flat()) });
    ep!($reg, format!("{}_expanded_to_contain_point", p), n + d, |a| { let b: $A = Flat::rd(&a[..n]); let v: $V = Flat::rd(&a[n..]); Out::of(b.expanded_to_contain_point(v).flat()) });
    ep!($reg, format!("{}_expand_to_contain_point", p), n + d, |a| { let mut b: $A = Flat::rd(&a[..n]); let v: $V = Flat::rd(&a[n..]); b.expand_to_contain_point(v); Out::of(b.flat()) });
    ep!($reg, format!("{}_contains_point", p), n + d, |a| { let b: $A = Flat::rd(&a[..n]); let v: $V = Flat::rd(&a[n..]); Out::flag(b.contains_point(v)) });
    ep!($reg, format!("{}_contains_aab", p), 2 * n, |a| { let b: $A = Flat::rd(&a[..n]); let c: $A = Flat::rd(&a[n..]); Out::flag(b.$contains_aab(c)) });
    ep!($reg, format!("{}_collides_with_aab", p), 2 * n, |a| { let b: $A = Flat::rd(&a[..n]); let c: $A = Flat::rd(&a[n..]); Out::flag(b.$collides(c)) });
    ep!($reg, format!("{}_collision_vector_with_aab", p), 2 * n, |a| { let b: $A = Flat::rd(&a[..n]); let c: $A = Flat::rd(&a[n..]); Out::of(b.$colvec(c).flat()) });
    ep!($reg, format!("{}_projected_point", p), n + d, |a| { let b: $A = Flat::rd(&a[..n]); let v: $V = Flat::rd(&a[n..]); Out::of(b.projected_point(v).flat()) });
    ep!($reg, format!("{}_distance_to_point", p), n + d, |a| { let b: $A = Flat::rd(&a[..n]); let v: $V = Flat::rd(&a[n..]); Out::of(vec![b.distance_to_point(v)]) });
    ep!($reg, format!("{}_map", p), n, |a| { let b: $A = Flat::rd(a); Out::of(b.map(|x| <T as Uf>::uf(0, &[x])).flat()) });
}}; }
macro_rules! split { ($reg:expr, $p:expr, $A:ty, $n:expr, $f:ident) => {
    ep!($reg, format!("{}_{}", $p, stringify!($f)), $n + 1, |a| { let b: $A = Flat::rd(&a[..$n]); let s = b.$f(a[$n]); let mut o = s[0].flat(); o.extend(s[1].flat()); Out::of(o) });
} }
macro_rules! rect { ($reg:expr, $p:expr, $R:ty, $A:ty, $V:ty, $d:expr, $into_aab:ident, $contains_rect:ident, $collides:ident, $colvec:ident) => {{
    let d = $d; let n = 2 * d; let p = $p;
    ep!($reg, format!("{}_into_aab", p), n, |a| { let r: $R = Flat::rd(a); Out::of(r.$into_aab().flat()) });
    ep!($reg, format!("{}_from_aab", p), n, |a| { let b: $A = Flat::rd(a); Out::of(<$R>::from(b).flat()) });
    ep!($reg, format!("{}_aab_from_rect", p), n, |a| { let r: $R = Flat::rd(a); Out::of(<$A>::from(r).flat()) });
    ep!($reg, format!("{}_position", p), n, |a| { let r: $R = Flat::rd(a); Out::of(r.position().flat()) });
    ep!($reg, format!("{}_extent", p), n, |a| { let r: $R = Flat::rd(a); Out::of(r.extent().flat()) });
    ep!($reg, format!("{}_set_position", p), n + d, |a| { let mut r: $R = Flat::rd(&a[..n]); let v: $V = Flat::rd(&a[n..]); r.set_position(v); Out::of(r.flat()) });
    ep!($reg, format!("{}_set_extent", p), n + d, |a| { let mut r: $R = Flat::rd(&a[..n]); let v: $V = Flat::rd(&a[n..]); r.set_extent(v.into()); Out::of(r.flat()) });
    ep!($reg, format!("{}_position_extent", p), n, |a| { let r: $R = Flat::rd(a); let (q, e) = r.position_extent(); let mut o = q.flat(); o.extend(e.flat()); Out::of(o) });
    ep!($reg, format!("{}_contains_point", p), n + d, |a| { let r: $R = Flat::rd(&a[..n]); let v: $V = Flat::rd(&a[n..]); Out::flag(r.contains_point(v)) });
    ep!($reg, format!("{}_contains_rect", p), 2 * n, |a| { let r: $R = Flat::rd(&a[..n]); let s: $R = Flat::rd(&a[n..]); Out::flag(r.$contains_rect(s)) });
    ep!($reg, format!("{}_collides_with_rect", p), 2 * n, |a| { let r: $R = Flat::rd(&a[..n]); let s: $R = Flat::rd(&a[n..]); Out::flag(r.$collides(s)) });
    ep!($reg, format!("{}_center", p), n, |a| { let r: $R = Flat::rd(a); Out::of(r.center().flat()) });
    ep!($reg, format!("{}_expanded_to_contain_point", p), n + d, |a| { let r: $R = Flat::rd(&a[..n]); let v: $V = Flat::rd(&a[n..]); Out::of(r.expanded_to_contain_point(v).flat()) });
    ep!($reg, format!("{}_expand_to_contain_point", p), n + d, |a| { let mut r: $R = Flat::rd(&a[..n]); let v: $V = Flat::rd(&a[n..]); r.expand_to_contain_point(v); Out::of(r.flat()) });
    ep!($reg, format!("{}_union", p), 2 * n, |a| { let r: $R = Flat::rd(&a[..n]); let s: $R = Flat::rd(&a[n..]); Out::of(r.union(s).flat()) });
    ep!($reg, format!("{}_intersection", p), 2 * n, |a| { let r: $R = Flat::rd(&a[..n]); let s: $R = Flat::rd(&a[n..]); Out::of(r.intersection(s).flat()) });
    ep!($reg, format!("{}_expand_to_contain", p), 2 * n, |a| { let mut r: $R = Flat::rd(&a[..n]); let s: $R = Flat::rd(&a[n..]); r.expand_to_contain(s); Out::of(r.flat()) });
    ep!($reg, format!("{}_intersect", p), 2 * n, |a| { let mut r: $R = Flat::rd(&a[..n]); let s: $R = Flat::rd(&a[n..]); r.intersect(s); Out::of(r.flat()) });
    ep!($reg, format!("{}_collision_vector_with_rect", p), 2 * n, |a| { let r: $R = Flat::rd(&a[..n]); let s: $R = Flat::rd(&a[n..]); Out::of(r.$colvec(s).flat()) });
}}; }

pub fn register(reg: &mut Reg) {
    aab!(reg, "aabr", Aabr<T>, Vec2<T>, Rect<T, T>, 2, into_rect, contains_aabr, collides_with_aabr, collision_vector_with_aabr);
    aab!(reg, "aabb", Aabb<T>, Vec3<T>, Rect3<T, T>, 3, into_rect3, contains_aabb, collides_with_aabb, collision_vector_with_aabb);
    split!(reg, "aabr", Aabr<T>, 4, split_at_x); split!(reg, "aabr", Aabr<T>, 4, split_at_y);
    split!(reg, "aabb", Aabb<T>, 6, split_at_x); split!(reg, "aabb", Aabb<T>, 6, split_at_y); split!(reg, "aabb", Aabb<T>, 6, split_at_z);
    rect!(reg, "rect", Rect<T, T>, Aabr<T>, Vec2<T>, 2, into_aabr, contains_rect, collides_with_rect, collision_vector_with_rect);
    rect!(reg, "rect3", Rect3<T, T>, Aabb<T>, Vec3<T>, 3, into_aabb, contains_rect3, collides_with_rect3, collision_vector_with_rect3);
    split!(reg, "rect", Rect<T, T>, 4, split_at_x); split!(reg, "rect", Rect<T, T>, 4, split_at_y);
    split!(reg, "rect3", Rect3<T, T>, 6, split_at_x); split!(reg, "rect3", Rect3<T, T>, 6, split_at_y); split!(reg, "rect3", Rect3<T, T>, 6, split_at_z);
    ep!(reg, "aabr_from_aabb".to_string(), 6, |a| { let b: Aabb<T> = Flat::rd(a); Out::of(Aabr::<T>::from(b).flat()) });
    reg_int(reg);
}
/// integer element types: the methods that divide (centre, half size) under machine-integer semantics
fn reg_int(reg: &mut Reg) {
    ep_int!(reg, "s_aabr_center".to_string(), 4, true, SymS, i8, |a| { let b: Aabr<T> = Flat::rd(&a); b.center().flat() });
    ep_int!(reg, "u_aabr_center".to_string(), 4, false, SymU, u8, |a| { let b: Aabr<T> = Flat::rd(&a); b.center().flat() });
    ep_int!(reg, "s_aabr_half_size".to_string(), 4, true, SymS, i8, |a| { let b: Aabr<T> = Flat::rd(&a); b.half_size().flat() });
    ep_int!(reg, "u_aabr_half_size".to_string(), 4, false, SymU, u8, |a| { let b: Aabr<T> = Flat::rd(&a); b.half_size().flat() });
    ep_int!(reg, "s_aabb_center".to_string(), 6, true, SymS, i8, |a| { let b: Aabb<T> = Flat::rd(&a); b.center().flat() });
    ep_int!(reg, "u_aabb_center".to_string(), 6, false, SymU, u8, |a| { let b: Aabb<T> = Flat::rd(&a); b.center().flat() });
    ep_int!(reg, "s_aabb_half_size".to_string(), 6, true, SymS, i8, |a| { let b: Aabb<T> = Flat::rd(&a); b.half_size().flat() });
    ep_int!(reg, "u_aabb_half_size".to_string(), 6, false, SymU, u8, |a| { let b: Aabb<T> = Flat::rd(&a); b.half_size().flat() });
    ep_int!(reg, "s_rect_center".to_string(), 4, true, SymS, i8, |a| { let b: Rect<T, T> = Flat::rd(&a); b.center().flat() });
    ep_int!(reg, "s_rect3_center".to_string(), 6, true, SymS, i8, |a| { let b: Rect3<T, T> = Flat::rd(&a); b.center().flat() });
    // rectangle predicates on machine integers: both rectangles are converted to boxes first (position + extent may
    // overflow even when an early comparison decides the answer: the translator's eager-evaluation wrappers record that)
    fn fl<T: num_traits::Zero + num_traits::One>(x: bool) -> T { if x { T::one() } else { T::zero() } }
    ep_int!(reg, "s_rect_contains_point".to_string(), 6, true, SymS, i8, |a| { let r: Rect<T, T> = Flat::rd(&a[..4]); let v: Vec2<T> = Flat::rd(&a[4..]); vec![fl::<T>(r.contains_point(v))] });
    ep_int!(reg, "s_rect_contains_rect".to_string(), 8, true, SymS, i8, |a| { let r: Rect<T, T> = Flat::rd(&a[..4]); let q: Rect<T, T> = Flat::rd(&a[4..]); vec![fl::<T>(r.contains_rect(q))] });
    ep_int!(reg, "s_rect_collides_with_rect".to_string(), 8, true, SymS, i8, |a| { let r: Rect<T, T> = Flat::rd(&a[..4]); let q: Rect<T, T> = Flat::rd(&a[4..]); vec![fl::<T>(r.collides_with_rect(q))] });
}
