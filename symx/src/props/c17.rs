//! C17 — clamp, range test, wrap, ping-pong, angle difference (floats via `Sym`, integers via `SymS`/`SymU`;
//! the scalar impls are the macro bodies lifted from src/ops.rs).
use crate::reg::*;
use crate::explore::Out;
use crate::io::*;
use crate::symint::{SymS, SymU};
use vek::ops::*;
use vek::vec::repr_c::*;
use num_traits::{Zero, One};

fn b<T: Zero + One>(x: bool) -> T { if x { T::one() } else { T::zero() } }

macro_rules! vlift { ($reg:expr, $p:expr, $V:ty, $n:expr) => {{
    let n = $n; let p = $p;
    ep!($reg, format!("{}_clamped_v", p), 3 * n, |a| { let x: $V = Flat::rd(&a[..n]); let lo: $V = Flat::rd(&a[n..2 * n]); let hi: $V = Flat::rd(&a[2 * n..]); Out::of(x.clamped(lo, hi).flat()) });
    ep!($reg, format!("{}_clamped_s", p), n + 2, |a| { let x: $V = Flat::rd(&a[..n]); Out::of(x.clamped(a[n], a[n + 1]).flat()) });
    ep!($reg, format!("{}_is_between_v", p), 3 * n, |a| { let x: $V = Flat::rd(&a[..n]); let lo: $V = Flat::rd(&a[n..2 * n]); let hi: $V = Flat::rd(&a[2 * n..]); Out { flags: x.is_between(lo, hi).into_iter().map(|v| v as i64).collect(), vals: vec![] } });
    ep!($reg, format!("{}_is_between_s", p), n + 2, |a| { let x: $V = Flat::rd(&a[..n]); Out { flags: x.is_between(a[n], a[n + 1]).into_iter().map(|v| v as i64).collect(), vals: vec![] } });
    ep!($reg, format!("{}_wrapped_v", p), 2 * n, |a| { let x: $V = Flat::rd(&a[..n]); let u: $V = Flat::rd(&a[n..]); Out::of(x.wrapped(u).flat()) });
    ep!($reg, format!("{}_wrapped_s", p), n + 1, |a| { let x: $V = Flat::rd(&a[..n]); Out::of(x.wrapped(a[n]).flat()) });
    ep!($reg, format!("{}_wrapped_between_v", p), 3 * n, |a| { let x: $V = Flat::rd(&a[..n]); let lo: $V = Flat::rd(&a[n..2 * n]); let hi: $V = Flat::rd(&a[2 * n..]); Out::of(x.wrapped_between(lo, hi).flat()) });
    ep!($reg, format!("{}_wrapped_between_s", p), n + 2, |a| { let x: $V = Flat::rd(&a[..n]); Out::of(x.wrapped_between(a[n], a[n + 1]).flat()) });
    ep!($reg, format!("{}_pingpong_v", p), 2 * n, |a| { let x: $V = Flat::rd(&a[..n]); let u: $V = Flat::rd(&a[n..]); Out::of(x.pingpong(u).flat()) });
    ep!($reg, format!("{}_pingpong_s", p), n + 1, |a| { let x: $V = Flat::rd(&a[..n]); Out::of(x.pingpong(a[n]).flat()) });
}}; }

pub fn register(reg: &mut Reg) {
    // scalar (real) forms
    ep!(reg, "f_clamped".to_string(), 3, |a| { Out::of(vec![a[0].clamped(a[1], a[2])]) });
    ep!(reg, "f_clamp".to_string(), 3, |a| { Out::of(vec![<T as Clamp>::clamp(a[0], a[1], a[2])]) });
    ep!(reg, "f_clamped_range".to_string(), 3, |a| { Out::of(vec![a[0].clamped_to_inclusive_range(a[1]..=a[2])]) });
    ep!(reg, "f_clamp_range".to_string(), 3, |a| { Out::of(vec![<T as Clamp>::clamp_to_inclusive_range(a[0], a[1]..=a[2])]) });
    ep!(reg, "f_clamp_minus1_1".to_string(), 1, |a| { Out::of(vec![<T as Clamp>::clamp_minus1_1(a[0])]) });
    ep!(reg, "f_clamped01".to_string(), 1, |a| { Out::of(vec![a[0].clamped01()]) });
    ep!(reg, "f_clamp01".to_string(), 1, |a| { Out::of(vec![<T as Clamp>::clamp01(a[0])]) });
    ep!(reg, "f_clamped_minus1_1".to_string(), 1, |a| { Out::of(vec![a[0].clamped_minus1_1()]) });
    ep!(reg, "f_is_between".to_string(), 3, |a| { Out::flag(a[0].is_between(a[1], a[2])) });
    ep!(reg, "f_is_between01".to_string(), 1, |a| { Out::flag(a[0].is_between01()) });
    ep!(reg, "f_is_between_range".to_string(), 3, |a| { Out::flag(a[0].is_between_inclusive_range_bounds(a[1]..=a[2])) });
    ep!(reg, "f_partial_min".to_string(), 2, |a| { Out::of(vec![partial_min(a[0], a[1])]) });
    ep!(reg, "f_partial_max".to_string(), 2, |a| { Out::of(vec![partial_max(a[0], a[1])]) });
    ep!(reg, "f_wrapped".to_string(), 2, |a| { Out::of(vec![a[0].wrapped(a[1])]) });
    ep!(reg, "f_wrap".to_string(), 2, |a| { Out::of(vec![<T as Wrap>::wrap(a[0], a[1])]) });
    ep!(reg, "f_wrapped_between".to_string(), 3, |a| { Out::of(vec![a[0].wrapped_between(a[1], a[2])]) });
    ep!(reg, "f_wrap_between".to_string(), 3, |a| { Out::of(vec![<T as Wrap>::wrap_between(a[0], a[1], a[2])]) });
    ep!(reg, "f_pingpong".to_string(), 2, |a| { Out::of(vec![a[0].pingpong(a[1])]) });
    ep!(reg, "f_wrapped_2pi".to_string(), 1, |a| { Out::of(vec![a[0].wrapped_2pi()]) });
    ep!(reg, "f_wrap_2pi".to_string(), 1, |a| { Out::of(vec![<T as Wrap>::wrap_2pi(a[0])]) });
    ep!(reg, "f_delta_angle".to_string(), 2, |a| { Out::of(vec![a[0].delta_angle(a[1])]) });
    ep!(reg, "f_delta_angle_degrees".to_string(), 2, |a| { Out::of(vec![a[0].delta_angle_degrees(a[1])]) });
    // vector lifts
    vlift!(reg, "vec2", Vec2<T>, 2); vlift!(reg, "vec3", Vec3<T>, 3); vlift!(reg, "vec4", Vec4<T>, 4);
    vlift!(reg, "extent2", Extent2<T>, 2); vlift!(reg, "extent3", Extent3<T>, 3); vlift!(reg, "rgb", Rgb<T>, 3); vlift!(reg, "rgba", Rgba<T>, 4);
    vlift!(reg, "uv", Uv<T>, 2); vlift!(reg, "uvw", Uvw<T>, 3);
    // machine integers (signed and unsigned macro families)
    ep_int!(reg, "s_clamped".to_string(), 3, true, SymS, i8, |a| { vec![a[0].clamped(a[1], a[2])] });
    ep_int!(reg, "s_is_between".to_string(), 3, true, SymS, i8, |a| { vec![b::<T>(a[0].is_between(a[1], a[2]))] });
    ep_int!(reg, "s_wrapped".to_string(), 2, true, SymS, i8, |a| { vec![a[0].wrapped(a[1])] });
    ep_int!(reg, "s_wrapped_between".to_string(), 3, true, SymS, i8, |a| { vec![a[0].wrapped_between(a[1], a[2])] });
    ep_int!(reg, "s_pingpong".to_string(), 2, true, SymS, i8, |a| { vec![a[0].pingpong(a[1])] });
    ep_int!(reg, "u_clamped".to_string(), 3, false, SymU, u8, |a| { vec![a[0].clamped(a[1], a[2])] });
    ep_int!(reg, "u_is_between".to_string(), 3, false, SymU, u8, |a| { vec![b::<T>(a[0].is_between(a[1], a[2]))] });
    ep_int!(reg, "u_wrapped".to_string(), 2, false, SymU, u8, |a| { vec![a[0].wrapped(a[1])] });
    ep_int!(reg, "u_wrapped_between".to_string(), 3, false, SymU, u8, |a| { vec![a[0].wrapped_between(a[1], a[2])] });
    ep_int!(reg, "u_pingpong".to_string(), 2, false, SymU, u8, |a| { vec![a[0].pingpong(a[1])] });
}
