//! C16 — disks, spheres, line segments, ray/triangle intersection.
use crate::reg::*;
use crate::explore::Out;
use crate::io::*;
use vek::vec::repr_c::{Vec2, Vec3};
use vek::geom::repr_c::{Disk, Sphere, LineSegment2, LineSegment3, Ray};

macro_rules! ball { ($reg:expr, $p:expr, $S:ty, $V:ty, $d:expr, $rect:ident, $aab:ident, $collides:ident, $colvec:ident) => {{
    let d = $d; let n = d + 1; let p = $p;
    ep!($reg, format!("{}_new", p), n, |a| { let c: $V = Flat::rd(&a[..d]); Out::of(<$S>::new(c, a[d]).flat()) });
    ep!($reg, format!("{}_unit", p), d, |a| { let c: $V = Flat::rd(&a[..d]); Out::of(<$S>::unit(c).flat()) });
    ep!($reg, format!("{}_point", p), d, |a| { let c: $V = Flat::rd(&a[..d]); Out::of(<$S>::point(c).flat()) });
    ep!($reg, format!("{}_diameter", p), n, |a| { let s: $S = Flat::rd(a); Out::of(vec![s.diameter()]) });
    ep!($reg, format!("{}_rect", p), n, |a| { let s: $S = Flat::rd(a); Out::of(s.$rect().flat()) });
    ep!($reg, format!("{}_aab", p), n, |a| { let s: $S = Flat::rd(a); Out::of(s.$aab().flat()) });
    ep!($reg, format!("{}_contains_point", p), n + d, |a| { let s: $S = Flat::rd(&a[..n]); let v: $V = Flat::rd(&a[n..]); Out::flag(s.contains_point(v)) });
    ep!($reg, format!("{}_collides", p), 2 * n, |a| { let s: $S = Flat::rd(&a[..n]); let t: $S = Flat::rd(&a[n..]); Out::flag(s.$collides(t)) });
    ep!($reg, format!("{}_collision_vector", p), 2 * n, |a| { let s: $S = Flat::rd(&a[..n]); let t: $S = Flat::rd(&a[n..]); Out::of(s.$colvec(t).flat()) });
}}; }
macro_rules! seg { ($reg:expr, $p:expr, $L:ty, $V:ty, $d:expr) => {{
    let d = $d; let n = 2 * d; let p = $p;
    ep!($reg, format!("{}_projected_point", p), n + d, |a| { let s: $L = Flat::rd(&a[..n]); let v: $V = Flat::rd(&a[n..]); Out::of(s.projected_point(v).flat()) });
    ep!($reg, format!("{}_distance_to_point", p), n + d, |a| { let s: $L = Flat::rd(&a[..n]); let v: $V = Flat::rd(&a[n..]); Out::of(vec![s.distance_to_point(v)]) });
    ep!($reg, format!("{}_into_range", p), n, |a| { let s: $L = Flat::rd(a); let r = s.into_range(); let mut o = r.start.flat(); o.extend(r.end.flat()); Out::of(o) });
    ep!($reg, format!("{}_from_range", p), n, |a| { let s: $V = Flat::rd(&a[..d]); let e: $V = Flat::rd(&a[d..]); Out::of(<$L>::from(s..e).flat()) });
}}; }

pub fn register(reg: &mut Reg) {
    ball!(reg, "disk", Disk<T, T>, Vec2<T>, 2, rect, aabr, collides_with_disk, collision_vector_with_disk);
    ball!(reg, "sphere", Sphere<T, T>, Vec3<T>, 3, rect3, aabb, collides_with_sphere, collision_vector_with_sphere);
    ep!(reg, "disk_circumference".to_string(), 3, |a| { let s: Disk<T, T> = Flat::rd(a); Out::of(vec![s.circumference()]) });
    ep!(reg, "disk_area".to_string(), 3, |a| { let s: Disk<T, T> = Flat::rd(a); Out::of(vec![s.area()]) });
    ep!(reg, "sphere_surface_area".to_string(), 4, |a| { let s: Sphere<T, T> = Flat::rd(a); Out::of(vec![s.surface_area()]) });
    ep!(reg, "sphere_volume".to_string(), 4, |a| { let s: Sphere<T, T> = Flat::rd(a); Out::of(vec![s.volume()]) });
    seg!(reg, "seg2", LineSegment2<T>, Vec2<T>, 2);
    seg!(reg, "seg3", LineSegment3<T>, Vec3<T>, 3);
    // ray: origin(3) direction(3), triangle v0 v1 v2 (9)
    ep!(reg, "ray_triangle_intersection".to_string(), 15, |a| {
        let r: Ray<T> = Flat::rd(&a[..6]);
        let tri: [Vec3<T>; 3] = [Flat::rd(&a[6..9]), Flat::rd(&a[9..12]), Flat::rd(&a[12..15])];
        match r.triangle_intersection(tri) { Some(d) => Out { flags: vec![1], vals: vec![d] }, None => Out { flags: vec![0], vals: vec![] } } });
    ep!(reg, "ray_new".to_string(), 6, |a| { let o: Vec3<T> = Flat::rd(&a[..3]); let d: Vec3<T> = Flat::rd(&a[3..]); Out::of(Ray::new(o, d).flat()) });
}
