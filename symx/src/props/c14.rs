//! C14 — Bezier evaluate / derivative / split / conversions.
use crate::reg::*;
use crate::explore::Out;
use crate::io::*;
use vek::vec::repr_c::{Vec2, Vec3, Vec4};
use vek::bezier::repr_c::{QuadraticBezier2, QuadraticBezier3, CubicBezier2, CubicBezier3};
use vek::geom::repr_c::{LineSegment2, LineSegment3};
use vek::mat::repr_c::row_major as rm;
use vek::mat::repr_c::column_major as cm;

macro_rules! common { ($reg:expr, $p:expr, $B:ty, $V:ty, $L:ty, $d:expr, $np:expr) => {{
    let d = $d; let n = d * $np; let p = $p;
    ep!($reg, format!("{}_evaluate", p), n + 1, |a| { let c: $B = Flat::rd(&a[..n]); Out::of(c.evaluate(a[n]).flat()) });
    ep!($reg, format!("{}_evaluate_derivative", p), n + 1, |a| { let c: $B = Flat::rd(&a[..n]); Out::of(c.evaluate_derivative(a[n]).flat()) });
    ep!($reg, format!("{}_normalized_tangent", p), n + 1, |a| { let c: $B = Flat::rd(&a[..n]); Out::of(c.normalized_tangent(a[n]).flat()) });
    ep!($reg, format!("{}_split", p), n + 1, |a| { let c: $B = Flat::rd(&a[..n]); let s = c.split(a[n]); let mut o = s[0].flat(); o.extend(s[1].flat()); Out::of(o) });
    ep!($reg, format!("{}_reversed", p), n, |a| { let c: $B = Flat::rd(a); Out::of(c.reversed().flat()) });
    ep!($reg, format!("{}_reverse", p), n, |a| { let mut c: $B = Flat::rd(a); c.reverse(); Out::of(c.flat()) });
    ep!($reg, format!("{}_flipped_x", p), n, |a| { let c: $B = Flat::rd(a); Out::of(c.flipped_x().flat()) });
    ep!($reg, format!("{}_flipped_y", p), n, |a| { let c: $B = Flat::rd(a); Out::of(c.flipped_y().flat()) });
    ep!($reg, format!("{}_flip_x", p), n, |a| { let mut c: $B = Flat::rd(a); c.flip_x(); Out::of(c.flat()) });
    ep!($reg, format!("{}_flip_y", p), n, |a| { let mut c: $B = Flat::rd(a); c.flip_y(); Out::of(c.flat()) });
    ep!($reg, format!("{}_from_line_segment", p), 2 * d, |a| { let l: $L = Flat::rd(a); Out::of(<$B>::from(l).flat()) });
    ep!($reg, format!("{}_from_range", p), 2 * d, |a| { let s: $V = Flat::rd(&a[..d]); let e: $V = Flat::rd(&a[d..]); Out::of(<$B>::from(s..e).flat()) });
    ep!($reg, format!("{}_into_array", p), n, |a| { let c: $B = Flat::rd(a); let mut o = vec![]; for q in c.into_array().iter() { q.wr(&mut o); } Out::of(o) });
}}; }

pub fn register(reg: &mut Reg) {
    common!(reg, "quad2", QuadraticBezier2<T>, Vec2<T>, LineSegment2<T>, 2, 3);
    common!(reg, "quad3", QuadraticBezier3<T>, Vec3<T>, LineSegment3<T>, 3, 3);
    common!(reg, "cubic2", CubicBezier2<T>, Vec2<T>, LineSegment2<T>, 2, 4);
    common!(reg, "cubic3", CubicBezier3<T>, Vec3<T>, LineSegment3<T>, 3, 4);
    // 3D only
    ep!(reg, "quad3_flipped_z".to_string(), 9, |a| { let c: QuadraticBezier3<T> = Flat::rd(a); Out::of(c.flipped_z().flat()) });
    ep!(reg, "cubic3_flipped_z".to_string(), 12, |a| { let c: CubicBezier3<T> = Flat::rd(a); Out::of(c.flipped_z().flat()) });
    ep!(reg, "quad3_flip_z".to_string(), 9, |a| { let mut c: QuadraticBezier3<T> = Flat::rd(a); c.flip_z(); Out::of(c.flat()) });
    ep!(reg, "cubic3_flip_z".to_string(), 12, |a| { let mut c: CubicBezier3<T> = Flat::rd(a); c.flip_z(); Out::of(c.flat()) });
    // coefficient matrices (row-major Mat3 / Mat4 by definition)
    ep!(reg, "quad2_matrix".to_string(), 0, |a| { let _ = a; Out::of(QuadraticBezier2::<T>::matrix().flat()) });
    ep!(reg, "quad3_matrix".to_string(), 0, |a| { let _ = a; Out::of(QuadraticBezier3::<T>::matrix().flat()) });
    ep!(reg, "cubic2_matrix".to_string(), 0, |a| { let _ = a; Out::of(CubicBezier2::<T>::matrix().flat()) });
    ep!(reg, "cubic3_matrix".to_string(), 0, |a| { let _ = a; Out::of(CubicBezier3::<T>::matrix().flat()) });
    // degree elevation, vector conversions, 2D <-> 3D
    ep!(reg, "quad2_into_cubic".to_string(), 6, |a| { let c: QuadraticBezier2<T> = Flat::rd(a); Out::of(c.into_cubic().flat()) });
    ep!(reg, "quad3_into_cubic".to_string(), 9, |a| { let c: QuadraticBezier3<T> = Flat::rd(a); Out::of(c.into_cubic().flat()) });
    ep!(reg, "cubic2_from_quadratic".to_string(), 6, |a| { let c: QuadraticBezier2<T> = Flat::rd(a); Out::of(CubicBezier2::<T>::from(c).flat()) });
    ep!(reg, "cubic3_from_quadratic".to_string(), 9, |a| { let c: QuadraticBezier3<T> = Flat::rd(a); Out::of(CubicBezier3::<T>::from(c).flat()) });
    ep!(reg, "quad2_from_vec3".to_string(), 6, |a| { let v: Vec3<Vec2<T>> = Vec3::new(Flat::rd(&a[0..2]), Flat::rd(&a[2..4]), Flat::rd(&a[4..6])); Out::of(QuadraticBezier2::<T>::from(v).flat()) });
    ep!(reg, "cubic3_from_vec4".to_string(), 12, |a| { let v: Vec4<Vec3<T>> = Vec4::new(Flat::rd(&a[0..3]), Flat::rd(&a[3..6]), Flat::rd(&a[6..9]), Flat::rd(&a[9..12])); Out::of(CubicBezier3::<T>::from(v).flat()) });
    ep!(reg, "quad2_into_3d".to_string(), 6, |a| { let c: QuadraticBezier2<T> = Flat::rd(a); Out::of(c.into_3d().flat()) });
    ep!(reg, "cubic2_into_3d".to_string(), 8, |a| { let c: CubicBezier2<T> = Flat::rd(a); Out::of(c.into_3d().flat()) });
    ep!(reg, "quad3_into_2d".to_string(), 9, |a| { let c: QuadraticBezier3<T> = Flat::rd(a); Out::of(c.into_2d().flat()) });
    ep!(reg, "cubic3_into_2d".to_string(), 12, |a| { let c: CubicBezier3<T> = Flat::rd(a); Out::of(c.into_2d().flat()) });
    // circles
    ep!(reg, "cubic2_unit_quarter_circle".to_string(), 0, |a| { let _ = a; Out::of(CubicBezier2::<T>::unit_quarter_circle().flat()) });
    ep!(reg, "cubic3_unit_quarter_circle".to_string(), 0, |a| { let _ = a; Out::of(CubicBezier3::<T>::unit_quarter_circle().flat()) });
    ep!(reg, "cubic2_unit_circle".to_string(), 0, |a| { let _ = a; let c = CubicBezier2::<T>::unit_circle(); let mut o = vec![]; for q in c.iter() { q.wr(&mut o); } Out::of(o) });
    // matrix * curve
    macro_rules! mulb { ($name:expr, $M:ty, $mn:expr, $B:ty, $bn:expr) => {
        ep!(reg, $name.to_string(), $mn + $bn, |a| { let m: $M = Flat::rd(&a[..$mn]); let c: $B = Flat::rd(&a[$mn..]); Out::of((m * c).flat()) });
    } }
    mulb!("mat2r_mul_quad2", rm::Mat2<T>, 4, QuadraticBezier2<T>, 6); mulb!("mat2c_mul_quad2", cm::Mat2<T>, 4, QuadraticBezier2<T>, 6);
    mulb!("mat3r_mul_quad2", rm::Mat3<T>, 9, QuadraticBezier2<T>, 6); mulb!("mat3c_mul_quad2", cm::Mat3<T>, 9, QuadraticBezier2<T>, 6);
    mulb!("mat2r_mul_cubic2", rm::Mat2<T>, 4, CubicBezier2<T>, 8); mulb!("mat2c_mul_cubic2", cm::Mat2<T>, 4, CubicBezier2<T>, 8);
    mulb!("mat3r_mul_cubic2", rm::Mat3<T>, 9, CubicBezier2<T>, 8); mulb!("mat3c_mul_cubic2", cm::Mat3<T>, 9, CubicBezier2<T>, 8);
    mulb!("mat3r_mul_quad3", rm::Mat3<T>, 9, QuadraticBezier3<T>, 9); mulb!("mat3c_mul_quad3", cm::Mat3<T>, 9, QuadraticBezier3<T>, 9);
    mulb!("mat4r_mul_quad3", rm::Mat4<T>, 16, QuadraticBezier3<T>, 9); mulb!("mat4c_mul_quad3", cm::Mat4<T>, 16, QuadraticBezier3<T>, 9);
    mulb!("mat3r_mul_cubic3", rm::Mat3<T>, 9, CubicBezier3<T>, 12); mulb!("mat3c_mul_cubic3", cm::Mat3<T>, 9, CubicBezier3<T>, 12);
    mulb!("mat4r_mul_cubic3", rm::Mat4<T>, 16, CubicBezier3<T>, 12); mulb!("mat4c_mul_cubic3", cm::Mat4<T>, 16, CubicBezier3<T>, 12);
}
