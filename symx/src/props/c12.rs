//! C12 — Lerp / nlerp / slerp / Transform lerp / Transition (real-valued part; the integer Lerp impls are
//! non-generic code and are handled by the hand-written model + correspondence leg, see corr_c12).
use crate::reg::*;
use crate::explore::Out;
use crate::io::*;
use vek::ops::*;
use vek::vec::repr_c::*;
use vek::quaternion::repr_c::Quaternion;
use vek::transform::repr_c::Transform;
use vek::transition::*;

fn g<T: Uf>(x: T) -> T { T::uf(7, &[x]) }

macro_rules! vlerp { ($reg:expr, $p:expr, $V:ty, $n:expr) => {{
    let n = $n; let p = $p;
    ep!($reg, format!("{}_lerp_unclamped_s", p), 2 * n + 1, |a| { let x: $V = Flat::rd(&a[..n]); let y: $V = Flat::rd(&a[n..2 * n]); Out::of(<$V>::lerp_unclamped(x, y, a[2 * n]).flat()) });
    ep!($reg, format!("{}_lerp_unclamped_precise_s", p), 2 * n + 1, |a| { let x: $V = Flat::rd(&a[..n]); let y: $V = Flat::rd(&a[n..2 * n]); Out::of(<$V>::lerp_unclamped_precise(x, y, a[2 * n]).flat()) });
    ep!($reg, format!("{}_lerp_s", p), 2 * n + 1, |a| { let x: $V = Flat::rd(&a[..n]); let y: $V = Flat::rd(&a[n..2 * n]); Out::of(<$V>::lerp(x, y, a[2 * n]).flat()) });
    ep!($reg, format!("{}_lerp_precise_s", p), 2 * n + 1, |a| { let x: $V = Flat::rd(&a[..n]); let y: $V = Flat::rd(&a[n..2 * n]); Out::of(<$V>::lerp_precise(x, y, a[2 * n]).flat()) });
    ep!($reg, format!("{}_lerp_unclamped_v", p), 3 * n, |a| { let x: $V = Flat::rd(&a[..n]); let y: $V = Flat::rd(&a[n..2 * n]); let f: $V = Flat::rd(&a[2 * n..]); Out::of(<$V>::lerp_unclamped(x, y, f).flat()) });
    ep!($reg, format!("{}_lerp_unclamped_precise_v", p), 3 * n, |a| { let x: $V = Flat::rd(&a[..n]); let y: $V = Flat::rd(&a[n..2 * n]); let f: $V = Flat::rd(&a[2 * n..]); Out::of(<$V>::lerp_unclamped_precise(x, y, f).flat()) });
    // trait forms, by value and by reference
    ep!($reg, format!("{}_trait_unclamped", p), 2 * n + 1, |a| { let x: $V = Flat::rd(&a[..n]); let y: $V = Flat::rd(&a[n..2 * n]); Out::of(<$V as Lerp<T>>::lerp_unclamped(x, y, a[2 * n]).flat()) });
    ep!($reg, format!("{}_trait_unclamped_precise", p), 2 * n + 1, |a| { let x: $V = Flat::rd(&a[..n]); let y: $V = Flat::rd(&a[n..2 * n]); Out::of(<$V as Lerp<T>>::lerp_unclamped_precise(x, y, a[2 * n]).flat()) });
    ep!($reg, format!("{}_trait_clamped", p), 2 * n + 1, |a| { let x: $V = Flat::rd(&a[..n]); let y: $V = Flat::rd(&a[n..2 * n]); Out::of(<$V as Lerp<T>>::lerp(x, y, a[2 * n]).flat()) });
    ep!($reg, format!("{}_trait_ref_unclamped", p), 2 * n + 1, |a| { let x: $V = Flat::rd(&a[..n]); let y: $V = Flat::rd(&a[n..2 * n]); Out::of(<&$V as Lerp<T>>::lerp_unclamped(&x, &y, a[2 * n]).flat()) });
    ep!($reg, format!("{}_trait_ref_precise", p), 2 * n + 1, |a| { let x: $V = Flat::rd(&a[..n]); let y: $V = Flat::rd(&a[n..2 * n]); Out::of(<&$V as Lerp<T>>::lerp_unclamped_precise(&x, &y, a[2 * n]).flat()) });
}}; }

pub fn register(reg: &mut Reg) {
    // scalar Lerp (the float impl lifted from ops.rs) with all trait defaults; inputs from, to, factor
    ep!(reg, "s_lerp_unclamped".to_string(), 3, |a| { Out::of(vec![<T as Lerp<T>>::lerp_unclamped(a[0], a[1], a[2])]) });
    ep!(reg, "s_lerp_unclamped_precise".to_string(), 3, |a| { Out::of(vec![<T as Lerp<T>>::lerp_unclamped_precise(a[0], a[1], a[2])]) });
    ep!(reg, "s_lerp".to_string(), 3, |a| { Out::of(vec![<T as Lerp<T>>::lerp(a[0], a[1], a[2])]) });
    ep!(reg, "s_lerp_precise".to_string(), 3, |a| { Out::of(vec![<T as Lerp<T>>::lerp_precise(a[0], a[1], a[2])]) });
    ep!(reg, "s_lerp_unclamped_range".to_string(), 3, |a| { Out::of(vec![<T as Lerp<T>>::lerp_unclamped_inclusive_range(a[0]..=a[1], a[2])]) });
    ep!(reg, "s_lerp_unclamped_precise_range".to_string(), 3, |a| { Out::of(vec![<T as Lerp<T>>::lerp_unclamped_precise_inclusive_range(a[0]..=a[1], a[2])]) });
    ep!(reg, "s_lerp_range".to_string(), 3, |a| { Out::of(vec![<T as Lerp<T>>::lerp_inclusive_range(a[0]..=a[1], a[2])]) });
    ep!(reg, "s_lerp_precise_range".to_string(), 3, |a| { Out::of(vec![<T as Lerp<T>>::lerp_precise_inclusive_range(a[0]..=a[1], a[2])]) });
    ep!(reg, "s_ref_lerp_unclamped".to_string(), 3, |a| { Out::of(vec![<&T as Lerp<T>>::lerp_unclamped(&a[0], &a[1], a[2])]) });
    ep!(reg, "s_ref_lerp_unclamped_precise".to_string(), 3, |a| { Out::of(vec![<&T as Lerp<T>>::lerp_unclamped_precise(&a[0], &a[1], a[2])]) });
    ep!(reg, "s_ref_lerp".to_string(), 3, |a| { Out::of(vec![<&T as Lerp<T>>::lerp(&a[0], &a[1], a[2])]) });
    vlerp!(reg, "vec2", Vec2<T>, 2); vlerp!(reg, "vec3", Vec3<T>, 3); vlerp!(reg, "vec4", Vec4<T>, 4);
    vlerp!(reg, "extent3", Extent3<T>, 3); vlerp!(reg, "rgba", Rgba<T>, 4); vlerp!(reg, "uv", Uv<T>, 2);
    // quaternions: p (4), q (4), factor
    type Q<T> = Quaternion<T>;
    ep!(reg, "quat_nlerp_unclamped".to_string(), 9, |a| { let p: Q<T> = Flat::rd(&a[..4]); let q: Q<T> = Flat::rd(&a[4..8]); Out::of(<Q<T> as Lerp<T>>::lerp_unclamped(p, q, a[8]).flat()) });
    ep!(reg, "quat_nlerp_unclamped_precise".to_string(), 9, |a| { let p: Q<T> = Flat::rd(&a[..4]); let q: Q<T> = Flat::rd(&a[4..8]); Out::of(<Q<T> as Lerp<T>>::lerp_unclamped_precise(p, q, a[8]).flat()) });
    ep!(reg, "quat_nlerp".to_string(), 9, |a| { let p: Q<T> = Flat::rd(&a[..4]); let q: Q<T> = Flat::rd(&a[4..8]); Out::of(<Q<T> as Lerp<T>>::lerp(p, q, a[8]).flat()) });
    ep!(reg, "quat_ref_nlerp_unclamped".to_string(), 9, |a| { let p: Q<T> = Flat::rd(&a[..4]); let q: Q<T> = Flat::rd(&a[4..8]); Out::of(<&Q<T> as Lerp<T>>::lerp_unclamped(&p, &q, a[8]).flat()) });
    ep!(reg, "quat_lerp_unclamped_unnormalized".to_string(), 9, |a| { let p: Q<T> = Flat::rd(&a[..4]); let q: Q<T> = Flat::rd(&a[4..8]); Out::of(Q::<T>::lerp_unclamped_unnormalized(p, q, a[8]).flat()) });
    ep!(reg, "quat_lerp_unclamped_precise_unnormalized".to_string(), 9, |a| { let p: Q<T> = Flat::rd(&a[..4]); let q: Q<T> = Flat::rd(&a[4..8]); Out::of(Q::<T>::lerp_unclamped_precise_unnormalized(p, q, a[8]).flat()) });
    ep!(reg, "quat_lerp_unnormalized".to_string(), 9, |a| { let p: Q<T> = Flat::rd(&a[..4]); let q: Q<T> = Flat::rd(&a[4..8]); Out::of(Q::<T>::lerp_unnormalized(p, q, a[8]).flat()) });
    ep!(reg, "quat_lerp_precise_unnormalized".to_string(), 9, |a| { let p: Q<T> = Flat::rd(&a[..4]); let q: Q<T> = Flat::rd(&a[4..8]); Out::of(Q::<T>::lerp_precise_unnormalized(p, q, a[8]).flat()) });
    ep!(reg, "quat_slerp_unclamped".to_string(), 9, |a| { let p: Q<T> = Flat::rd(&a[..4]); let q: Q<T> = Flat::rd(&a[4..8]); Out::of(Q::<T>::slerp_unclamped(p, q, a[8]).flat()) });
    ep!(reg, "quat_slerp".to_string(), 9, |a| { let p: Q<T> = Flat::rd(&a[..4]); let q: Q<T> = Flat::rd(&a[4..8]); Out::of(Q::<T>::slerp(p, q, a[8]).flat()) });
    ep!(reg, "quat_trait_slerp_unclamped".to_string(), 9, |a| { let p: Q<T> = Flat::rd(&a[..4]); let q: Q<T> = Flat::rd(&a[4..8]); Out::of(<Q<T> as Slerp<T>>::slerp_unclamped(p, q, a[8]).flat()) });
    ep!(reg, "quat_trait_ref_slerp_unclamped".to_string(), 9, |a| { let p: Q<T> = Flat::rd(&a[..4]); let q: Q<T> = Flat::rd(&a[4..8]); Out::of(<&Q<T> as Slerp<T>>::slerp_unclamped(&p, &q, a[8]).flat()) });
    // Transform lerp: (position 3, orientation 4, scale 3) x 2, factor
    macro_rules! tr { ($name:expr, $call:expr) => {
        ep!(reg, $name.to_string(), 21, |a| {
            let t1 = Transform { position: <Vec3<T> as Flat<T>>::rd(&a[0..3]), orientation: <Q<T> as Flat<T>>::rd(&a[3..7]), scale: <Vec3<T> as Flat<T>>::rd(&a[7..10]) };
            let t2 = Transform { position: <Vec3<T> as Flat<T>>::rd(&a[10..13]), orientation: <Q<T> as Flat<T>>::rd(&a[13..17]), scale: <Vec3<T> as Flat<T>>::rd(&a[17..20]) };
            let r: Transform<T, T, T> = $call(t1, t2, a[20]);
            let mut o = r.position.flat(); o.extend(r.orientation.flat()); o.extend(r.scale.flat()); Out::of(o) });
    } }
    tr!("transform_lerp_unclamped", |x, y, f| <Transform<T, T, T> as Lerp<T>>::lerp_unclamped(x, y, f));
    tr!("transform_lerp_unclamped_precise", |x, y, f| <Transform<T, T, T> as Lerp<T>>::lerp_unclamped_precise(x, y, f));
    tr!("transform_ref_lerp_unclamped", |x: Transform<T, T, T>, y: Transform<T, T, T>, f| <&Transform<T, T, T> as Lerp<T>>::lerp_unclamped(&x, &y, f));
    tr!("transform_ref_lerp_unclamped_precise", |x: Transform<T, T, T>, y: Transform<T, T, T>, f| <&Transform<T, T, T> as Lerp<T>>::lerp_unclamped_precise(&x, &y, f));
    // Transition accessors with an abstract progress mapper g (inputs: start, end, progress)
    macro_rules! trn { ($name:expr, $m:ident) => {
        ep!(reg, format!("transition_fn_{}", $name), 3, |a| { let t: Transition<T, ProgressMapperFn<T>, T> = Transition::with_mapper_and_progress(a[0], a[1], ProgressMapperFn(g::<T> as fn(T) -> T), a[2]); Out::of(vec![t.$m()]) });
        ep!(reg, format!("transition_id_{}", $name), 3, |a| { let t: LinearTransition<T, T> = LinearTransition::with_progress(a[0], a[1], a[2]); Out::of(vec![t.$m()]) });
    } }
    trn!("into_current", into_current); trn!("into_current_unclamped", into_current_unclamped);
    trn!("into_current_precise", into_current_precise); trn!("into_current_unclamped_precise", into_current_unclamped_precise);
    trn!("current", current); trn!("current_unclamped", current_unclamped);
    trn!("current_precise", current_precise); trn!("current_unclamped_precise", current_unclamped_precise);
}
