//! C19 — vector kind/size conversions, swizzles, shuffles, colour helpers keep elements.
use crate::reg::*;
use crate::explore::Out;
use crate::io::*;
use crate::symint::{SymS, SymU};
use vek::vec::repr_c::*;
use vek::vec::ShuffleMask4;
use vek::mat::repr_c::row_major as rm;
use vek::mat::repr_c::column_major as cm;
use vek::ops::ColorComponent;

macro_rules! conv { ($reg:expr, $name:expr, $From:ident, $nf:expr, $To:ident) => {
    ep!($reg, $name.to_string(), $nf, |a| { let v: $From<T> = Flat::rd(a); Out::of($To::<T>::from(v).flat()) });
} }
macro_rules! conv_tuple { ($reg:expr, $name:expr, $Small:ident, $ns:expr, $To:ident) => {
    ep!($reg, $name.to_string(), $ns + 1, |a| { let v: $Small<T> = Flat::rd(&a[..$ns]); Out::of($To::<T>::from((v, a[$ns])).flat()) });
} }
macro_rules! un { ($reg:expr, $name:expr, $V:ident, $n:expr, $m:ident) => {
    ep!($reg, $name.to_string(), $n, |a| { let v: $V<T> = Flat::rd(a); Out::of(v.$m().flat()) });
} }
macro_rules! with { ($reg:expr, $name:expr, $V:ident, $n:expr, $m:ident) => {
    ep!($reg, $name.to_string(), $n + 1, |a| { let v: $V<T> = Flat::rd(&a[..$n]); Out::of(v.$m(a[$n]).flat()) });
} }
macro_rules! cst { ($reg:expr, $name:expr, $V:ident, $m:ident) => {
    ep!($reg, $name.to_string(), 0, |a| { let _ = a; #[allow(deprecated)] let v = $V::<T>::$m(); Out::of(v.flat()) });
} }

fn reg_conv(reg: &mut Reg) {
    conv!(reg, "vec2_from_vec3", Vec3, 3, Vec2); conv!(reg, "vec2_from_vec4", Vec4, 4, Vec2); conv!(reg, "vec2_from_extent2", Extent2, 2, Vec2);
    conv!(reg, "vec3_from_vec2", Vec2, 2, Vec3); conv!(reg, "vec3_from_vec4", Vec4, 4, Vec3); conv!(reg, "vec3_from_extent3", Extent3, 3, Vec3);
    conv!(reg, "vec3_from_rgb", Rgb, 3, Vec3); conv!(reg, "vec3_from_uvw", Uvw, 3, Vec3);
    conv!(reg, "vec4_from_vec3", Vec3, 3, Vec4); conv!(reg, "vec4_from_vec2", Vec2, 2, Vec4); conv!(reg, "vec4_from_rgba", Rgba, 4, Vec4);
    conv!(reg, "extent3_from_vec3", Vec3, 3, Extent3); conv!(reg, "extent2_from_vec2", Vec2, 2, Extent2);
    conv!(reg, "rgba_from_vec4", Vec4, 4, Rgba); conv!(reg, "rgba_from_rgb", Rgb, 3, Rgba);
    conv!(reg, "rgb_from_vec3", Vec3, 3, Rgb); conv!(reg, "rgb_from_rgba", Rgba, 4, Rgb);
    conv!(reg, "uvw_from_vec3", Vec3, 3, Uvw); conv!(reg, "uv_from_vec2", Vec2, 2, Uv);
    conv_tuple!(reg, "vec3_from_vec2_and_scalar", Vec2, 2, Vec3); conv_tuple!(reg, "vec4_from_vec3_and_scalar", Vec3, 3, Vec4);
    conv_tuple!(reg, "extent3_from_extent2_and_scalar", Extent2, 2, Extent3); conv_tuple!(reg, "rgba_from_rgb_and_scalar", Rgb, 3, Rgba);
    conv_tuple!(reg, "uvw_from_uv_and_scalar", Uv, 2, Uvw);
    // homogeneous coordinates
    ep!(reg, "vec3_new_point_2d".to_string(), 2, |a| { Out::of(Vec3::<T>::new_point_2d(a[0], a[1]).flat()) });
    ep!(reg, "vec3_new_direction_2d".to_string(), 2, |a| { Out::of(Vec3::<T>::new_direction_2d(a[0], a[1]).flat()) });
    ep!(reg, "vec3_from_point_2d".to_string(), 2, |a| { let v: Vec2<T> = Flat::rd(a); Out::of(Vec3::<T>::from_point_2d(v).flat()) });
    ep!(reg, "vec3_from_direction_2d".to_string(), 2, |a| { let v: Vec2<T> = Flat::rd(a); Out::of(Vec3::<T>::from_direction_2d(v).flat()) });
    ep!(reg, "vec4_new_point".to_string(), 3, |a| { Out::of(Vec4::<T>::new_point(a[0], a[1], a[2]).flat()) });
    ep!(reg, "vec4_new_direction".to_string(), 3, |a| { Out::of(Vec4::<T>::new_direction(a[0], a[1], a[2]).flat()) });
    ep!(reg, "vec4_from_point".to_string(), 3, |a| { let v: Vec3<T> = Flat::rd(a); Out::of(Vec4::<T>::from_point(v).flat()) });
    ep!(reg, "vec4_from_direction".to_string(), 3, |a| { let v: Vec3<T> = Flat::rd(a); Out::of(Vec4::<T>::from_direction(v).flat()) });
    ep!(reg, "vec4_from_point_of_vec2".to_string(), 2, |a| { let v: Vec2<T> = Flat::rd(a); Out::of(Vec4::<T>::from_point(v).flat()) });
    ep!(reg, "vec4_from_direction_of_vec4".to_string(), 4, |a| { let v: Vec4<T> = Flat::rd(a); Out::of(Vec4::<T>::from_direction(v).flat()) });
}

fn reg_swizzle(reg: &mut Reg) {
    un!(reg, "vec2_yx", Vec2, 2, yx); with!(reg, "vec2_with_x", Vec2, 2, with_x); with!(reg, "vec2_with_y", Vec2, 2, with_y);
    with!(reg, "vec2_with_z", Vec2, 2, with_z); with!(reg, "vec2_with_w", Vec2, 2, with_w);
    un!(reg, "vec3_zyx", Vec3, 3, zyx); un!(reg, "vec3_xy", Vec3, 3, xy);
    with!(reg, "vec3_with_x", Vec3, 3, with_x); with!(reg, "vec3_with_y", Vec3, 3, with_y); with!(reg, "vec3_with_z", Vec3, 3, with_z); with!(reg, "vec3_with_w", Vec3, 3, with_w);
    un!(reg, "vec4_wxyz", Vec4, 4, wxyz); un!(reg, "vec4_wzyx", Vec4, 4, wzyx); un!(reg, "vec4_zyxw", Vec4, 4, zyxw); un!(reg, "vec4_xyz", Vec4, 4, xyz); un!(reg, "vec4_xy", Vec4, 4, xy);
    with!(reg, "vec4_with_x", Vec4, 4, with_x); with!(reg, "vec4_with_y", Vec4, 4, with_y); with!(reg, "vec4_with_z", Vec4, 4, with_z); with!(reg, "vec4_with_w", Vec4, 4, with_w);
    un!(reg, "rgba_rgb", Rgba, 4, rgb);
    // unit vectors and the deprecated direction names
    cst!(reg, "vec2_unit_x", Vec2, unit_x); cst!(reg, "vec2_unit_y", Vec2, unit_y);
    cst!(reg, "vec2_left", Vec2, left); cst!(reg, "vec2_right", Vec2, right); cst!(reg, "vec2_up", Vec2, up); cst!(reg, "vec2_down", Vec2, down);
    cst!(reg, "vec3_unit_x", Vec3, unit_x); cst!(reg, "vec3_unit_y", Vec3, unit_y); cst!(reg, "vec3_unit_z", Vec3, unit_z);
    cst!(reg, "vec3_left", Vec3, left); cst!(reg, "vec3_right", Vec3, right); cst!(reg, "vec3_up", Vec3, up); cst!(reg, "vec3_down", Vec3, down);
    cst!(reg, "vec3_forward_lh", Vec3, forward_lh); cst!(reg, "vec3_forward_rh", Vec3, forward_rh); cst!(reg, "vec3_back_lh", Vec3, back_lh); cst!(reg, "vec3_back_rh", Vec3, back_rh);
    cst!(reg, "vec4_unit_x", Vec4, unit_x); cst!(reg, "vec4_unit_y", Vec4, unit_y); cst!(reg, "vec4_unit_z", Vec4, unit_z); cst!(reg, "vec4_unit_w", Vec4, unit_w);
    cst!(reg, "vec4_left", Vec4, left); cst!(reg, "vec4_right", Vec4, right); cst!(reg, "vec4_up", Vec4, up); cst!(reg, "vec4_down", Vec4, down);
    cst!(reg, "vec4_forward_lh", Vec4, forward_lh); cst!(reg, "vec4_forward_rh", Vec4, forward_rh); cst!(reg, "vec4_back_lh", Vec4, back_lh); cst!(reg, "vec4_back_rh", Vec4, back_rh);
    cst!(reg, "vec4_unit_x_point", Vec4, unit_x_point); cst!(reg, "vec4_unit_y_point", Vec4, unit_y_point); cst!(reg, "vec4_unit_z_point", Vec4, unit_z_point);
    cst!(reg, "vec4_left_point", Vec4, left_point); cst!(reg, "vec4_right_point", Vec4, right_point); cst!(reg, "vec4_up_point", Vec4, up_point); cst!(reg, "vec4_down_point", Vec4, down_point);
    cst!(reg, "vec4_forward_point_lh", Vec4, forward_point_lh); cst!(reg, "vec4_forward_point_rh", Vec4, forward_point_rh); cst!(reg, "vec4_back_point_lh", Vec4, back_point_lh); cst!(reg, "vec4_back_point_rh", Vec4, back_point_rh);
}

macro_rules! shuffles { ($reg:expr, $p:expr, $V:ident) => {{
    let p: &str = $p;
    for k in 0..256usize {
        let (i0, i1, i2, i3) = (k & 3, (k >> 2) & 3, (k >> 4) & 3, (k >> 6) & 3);
        ep!($reg, format!("{}_shuffle_lo_hi_m{}", p, k), 8, |a| { let lo: $V<T> = Flat::rd(&a[..4]); let hi: $V<T> = Flat::rd(&a[4..]); Out::of($V::<T>::shuffle_lo_hi(lo, hi, ShuffleMask4::new(i0, i1, i2, i3)).flat()) });
        ep!($reg, format!("{}_shuffled_m{}", p, k), 4, |a| { let v: $V<T> = Flat::rd(a); Out::of(v.shuffled((i0, i1, i2, i3)).flat()) });
        // indices outside 0..4 are taken modulo 4
        ep!($reg, format!("{}_shuffle_lo_hi_oor{}", p, k), 8, |a| { let lo: $V<T> = Flat::rd(&a[..4]); let hi: $V<T> = Flat::rd(&a[4..]); Out::of($V::<T>::shuffle_lo_hi(lo, hi, [i0 + 4, i1 + 8 * (k % 7), i2 + 4000, i3 + (usize::MAX - 3)]).flat()) });
    }
    for m in 0..9usize { ep!($reg, format!("{}_shuffled_bcast{}", p, m), 4, |a| { let v: $V<T> = Flat::rd(a); Out::of(v.shuffled(m).flat()) }); }
    ep!($reg, format!("{}_shuffled_0101", p), 4, |a| { let v: $V<T> = Flat::rd(a); Out::of(v.shuffled_0101().flat()) });
    ep!($reg, format!("{}_shuffled_2323", p), 4, |a| { let v: $V<T> = Flat::rd(a); Out::of(v.shuffled_2323().flat()) });
    ep!($reg, format!("{}_shuffled_0022", p), 4, |a| { let v: $V<T> = Flat::rd(a); Out::of(v.shuffled_0022().flat()) });
    ep!($reg, format!("{}_shuffled_1133", p), 4, |a| { let v: $V<T> = Flat::rd(a); Out::of(v.shuffled_1133().flat()) });
    ep!($reg, format!("{}_interleave_0011", p), 8, |a| { let x: $V<T> = Flat::rd(&a[..4]); let y: $V<T> = Flat::rd(&a[4..]); Out::of($V::<T>::interleave_0011(x, y).flat()) });
    ep!($reg, format!("{}_interleave_2233", p), 8, |a| { let x: $V<T> = Flat::rd(&a[..4]); let y: $V<T> = Flat::rd(&a[4..]); Out::of($V::<T>::interleave_2233(x, y).flat()) });
    ep!($reg, format!("{}_shuffle_lo_hi_0101", p), 8, |a| { let x: $V<T> = Flat::rd(&a[..4]); let y: $V<T> = Flat::rd(&a[4..]); Out::of($V::<T>::shuffle_lo_hi_0101(x, y).flat()) });
    ep!($reg, format!("{}_shuffle_hi_lo_2323", p), 8, |a| { let x: $V<T> = Flat::rd(&a[..4]); let y: $V<T> = Flat::rd(&a[4..]); Out::of($V::<T>::shuffle_hi_lo_2323(x, y).flat()) });
}}; }
fn reg_shuffle_vec4(reg: &mut Reg) { shuffles!(reg, "vec4", Vec4); }
fn reg_shuffle_rgba(reg: &mut Reg) { shuffles!(reg, "rgba", Rgba); }
fn reg_mask(reg: &mut Reg) {
    for k in 0..256usize {
        let (i0, i1, i2, i3) = (k & 3, (k >> 2) & 3, (k >> 4) & 3, (k >> 6) & 3);
        ep!(reg, format!("mask_indices_m{}", k), 0, |a| { let _ = a; let t = ShuffleMask4::new(i0, i1, i2, i3).to_indices(); let u = ShuffleMask4::from((i0 + 4, i1 + 64, i2 + 1024, i3 + 4096)).to_indices();
            let w = ShuffleMask4::from([i0, i1, i2, i3]).to_indices();
            Out { flags: vec![t.0 as i64, t.1 as i64, t.2 as i64, t.3 as i64, u.0 as i64, u.1 as i64, u.2 as i64, u.3 as i64, w.0 as i64, w.1 as i64, w.2 as i64, w.3 as i64,
                              (ShuffleMask4::new(i0, i1, i2, i3) == ShuffleMask4::from((i0 + 4, i1 + 64, i2 + 1024, i3 + 4096))) as i64], vals: vec![] } });
    }
}

macro_rules! named_colors { ($reg:expr, $p:expr, $V:ident; $($m:ident)+) => { $( cst!($reg, format!("{}_{}", $p, stringify!($m)), $V, $m); )+ } }
fn reg_color(reg: &mut Reg) {
    ep!(reg, "rgba_new_opaque".to_string(), 3, |a| { Out::of(Rgba::<T>::new_opaque(a[0], a[1], a[2]).flat()) });
    ep!(reg, "rgba_new_transparent".to_string(), 3, |a| { Out::of(Rgba::<T>::new_transparent(a[0], a[1], a[2]).flat()) });
    ep!(reg, "rgba_from_opaque".to_string(), 3, |a| { let c: Rgb<T> = Flat::rd(a); Out::of(Rgba::<T>::from_opaque(c).flat()) });
    ep!(reg, "rgba_from_transparent".to_string(), 3, |a| { let c: Rgb<T> = Flat::rd(a); Out::of(Rgba::<T>::from_transparent(c).flat()) });
    ep!(reg, "rgba_from_translucent".to_string(), 4, |a| { let c: Rgb<T> = Flat::rd(&a[..3]); Out::of(Rgba::<T>::from_translucent(c, a[3]).flat()) });
    named_colors!(reg, "rgba", Rgba; black white red green blue cyan magenta yellow);
    named_colors!(reg, "rgb", Rgb; black white red green blue cyan magenta yellow);
    ep!(reg, "rgba_gray".to_string(), 1, |a| { Out::of(Rgba::<T>::gray(a[0]).flat()) });
    ep!(reg, "rgba_grey".to_string(), 1, |a| { Out::of(Rgba::<T>::grey(a[0]).flat()) });
    ep!(reg, "rgb_gray".to_string(), 1, |a| { Out::of(Rgb::<T>::gray(a[0]).flat()) });
    ep!(reg, "rgb_grey".to_string(), 1, |a| { Out::of(Rgb::<T>::grey(a[0]).flat()) });
    un!(reg, "rgba_inverted_rgb", Rgba, 4, inverted_rgb); un!(reg, "rgb_inverted_rgb", Rgb, 3, inverted_rgb);
    ep!(reg, "rgba_inverted_twice".to_string(), 4, |a| { let v: Rgba<T> = Flat::rd(a); Out::of(v.inverted_rgb().inverted_rgb().flat()) });
    ep!(reg, "rgb_inverted_twice".to_string(), 3, |a| { let v: Rgb<T> = Flat::rd(a); Out::of(v.inverted_rgb().inverted_rgb().flat()) });
    ep!(reg, "rgba_average_rgb".to_string(), 4, |a| { let v: Rgba<T> = Flat::rd(a); Out::of(vec![v.average_rgb()]) });
    ep!(reg, "rgb_average_rgb".to_string(), 3, |a| { let v: Rgb<T> = Flat::rd(a); Out::of(vec![v.average_rgb()]) });
    un!(reg, "rgba_shuffled_argb", Rgba, 4, shuffled_argb); un!(reg, "rgba_shuffled_bgra", Rgba, 4, shuffled_bgra); un!(reg, "rgb_shuffled_bgr", Rgb, 3, shuffled_bgr);
    // ColorComponent::full for the concrete component types (integers: MAX, reals: 1), as (high 32 bits, low 32 bits)
    ep!(reg, "color_full_constants".to_string(), 0, |a| { let _ = a;
        fn hl(x: u64) -> [i64; 2] { [(x >> 32) as i64, (x & 0xffff_ffff) as i64] }
        use std::num::Wrapping as W;
        let mut f = vec![];
        f.extend(hl(<u8 as ColorComponent>::full() as u64)); f.extend(hl(<u16 as ColorComponent>::full() as u64)); f.extend(hl(<u32 as ColorComponent>::full() as u64)); f.extend(hl(<u64 as ColorComponent>::full()));
        f.extend(hl(<i8 as ColorComponent>::full() as u64)); f.extend(hl(<i16 as ColorComponent>::full() as u64)); f.extend(hl(<i32 as ColorComponent>::full() as u64)); f.extend(hl(<i64 as ColorComponent>::full() as u64));
        f.extend(hl(<W<u8> as ColorComponent>::full().0 as u64)); f.extend(hl(<W<u16> as ColorComponent>::full().0 as u64)); f.extend(hl(<W<u32> as ColorComponent>::full().0 as u64)); f.extend(hl(<W<u64> as ColorComponent>::full().0));
        f.extend(hl(<W<i8> as ColorComponent>::full().0 as u64)); f.extend(hl(<W<i16> as ColorComponent>::full().0 as u64)); f.extend(hl(<W<i32> as ColorComponent>::full().0 as u64)); f.extend(hl(<W<i64> as ColorComponent>::full().0 as u64));
        f.push((<f32 as ColorComponent>::full() == 1.0f32) as i64); f.push((<f64 as ColorComponent>::full() == 1.0f64) as i64);
        Out { flags: f, vals: vec![] } });
    // machine-integer component types: 8-bit instances are run exhaustively against the same body on i8/u8
    ep_int!(reg, "s_rgb_inverted_rgb".to_string(), 3, true, SymS, i8, |a| { let v: Rgb<T> = Flat::rd(&a); v.inverted_rgb().flat() });
    ep_int!(reg, "u_rgb_inverted_rgb".to_string(), 3, false, SymU, u8, |a| { let v: Rgb<T> = Flat::rd(&a); v.inverted_rgb().flat() });
    ep_int!(reg, "s_rgb_inverted_twice".to_string(), 3, true, SymS, i8, |a| { let v: Rgb<T> = Flat::rd(&a); v.inverted_rgb().inverted_rgb().flat() });
    ep_int!(reg, "u_rgb_inverted_twice".to_string(), 3, false, SymU, u8, |a| { let v: Rgb<T> = Flat::rd(&a); v.inverted_rgb().inverted_rgb().flat() });
    ep_int!(reg, "s_rgba_inverted_rgb".to_string(), 4, true, SymS, i8, |a| { let v: Rgba<T> = Flat::rd(&a); v.inverted_rgb().flat() });
    ep_int!(reg, "u_rgba_inverted_rgb".to_string(), 4, false, SymU, u8, |a| { let v: Rgba<T> = Flat::rd(&a); v.inverted_rgb().flat() });
}

/// embedding a smaller matrix and vector commutes with multiplication
macro_rules! embed { ($reg:expr, $l:expr, $mo:ident) => {{
    let l: &str = $l;
    ep!($reg, format!("embed23{}_lhs", l), 6, |a| { let m: $mo::Mat2<T> = Flat::rd(&a[..4]); let v: Vec2<T> = Flat::rd(&a[4..]); Out::of(($mo::Mat3::<T>::from(m) * Vec3::<T>::from(v)).flat()) });
    ep!($reg, format!("embed23{}_rhs", l), 6, |a| { let m: $mo::Mat2<T> = Flat::rd(&a[..4]); let v: Vec2<T> = Flat::rd(&a[4..]); Out::of(Vec3::<T>::from(m * v).flat()) });
    ep!($reg, format!("embed34{}_lhs", l), 12, |a| { let m: $mo::Mat3<T> = Flat::rd(&a[..9]); let v: Vec3<T> = Flat::rd(&a[9..]); Out::of(($mo::Mat4::<T>::from(m) * Vec4::<T>::from(v)).flat()) });
    ep!($reg, format!("embed34{}_rhs", l), 12, |a| { let m: $mo::Mat3<T> = Flat::rd(&a[..9]); let v: Vec3<T> = Flat::rd(&a[9..]); Out::of(Vec4::<T>::from(m * v).flat()) });
    ep!($reg, format!("embed24{}_lhs", l), 6, |a| { let m: $mo::Mat2<T> = Flat::rd(&a[..4]); let v: Vec2<T> = Flat::rd(&a[4..]); Out::of(($mo::Mat4::<T>::from(m) * Vec4::<T>::from(v)).flat()) });
    ep!($reg, format!("embed24{}_rhs", l), 6, |a| { let m: $mo::Mat2<T> = Flat::rd(&a[..4]); let v: Vec2<T> = Flat::rd(&a[4..]); Out::of(Vec4::<T>::from(m * v).flat()) });
    ep!($reg, format!("embed34{}_point_lhs", l), 12, |a| { let m: $mo::Mat3<T> = Flat::rd(&a[..9]); let v: Vec3<T> = Flat::rd(&a[9..]); Out::of(($mo::Mat4::<T>::from(m) * Vec4::<T>::from_point(v)).flat()) });
    ep!($reg, format!("embed34{}_point_rhs", l), 12, |a| { let m: $mo::Mat3<T> = Flat::rd(&a[..9]); let v: Vec3<T> = Flat::rd(&a[9..]); Out::of(Vec4::<T>::from_point(m * v).flat()) });
    ep!($reg, format!("embed23{}_point_lhs", l), 6, |a| { let m: $mo::Mat2<T> = Flat::rd(&a[..4]); let v: Vec2<T> = Flat::rd(&a[4..]); Out::of(($mo::Mat3::<T>::from(m) * Vec3::<T>::from_point_2d(v)).flat()) });
    ep!($reg, format!("embed24{}_point_lhs", l), 6, |a| { let m: $mo::Mat2<T> = Flat::rd(&a[..4]); let v: Vec2<T> = Flat::rd(&a[4..]); Out::of(($mo::Mat4::<T>::from(m) * Vec4::<T>::from_point(v)).flat()) });
    ep!($reg, format!("embed24{}_point_rhs", l), 6, |a| { let m: $mo::Mat2<T> = Flat::rd(&a[..4]); let v: Vec2<T> = Flat::rd(&a[4..]); Out::of(Vec4::<T>::from_point(m * v).flat()) });
    // growing a matrix directly or through the intermediate size gives the same matrix, and it acts on a general vector block-wise
    ep!($reg, format!("grow24{}_lhs", l), 4, |a| { let m: $mo::Mat2<T> = Flat::rd(a); Out::of($mo::Mat4::<T>::from(m).flat()) });
    ep!($reg, format!("grow24{}_rhs", l), 4, |a| { let m: $mo::Mat2<T> = Flat::rd(a); Out::of($mo::Mat4::<T>::from($mo::Mat3::<T>::from(m)).flat()) });
    ep!($reg, format!("embed24{}_general_lhs", l), 8, |a| { let m: $mo::Mat2<T> = Flat::rd(&a[..4]); let v: Vec4<T> = Flat::rd(&a[4..]); Out::of(($mo::Mat4::<T>::from(m) * v).flat()) });
    ep!($reg, format!("embed24{}_general_rhs", l), 8, |a| { let m: $mo::Mat2<T> = Flat::rd(&a[..4]); let v: Vec4<T> = Flat::rd(&a[4..]); let r = m * Vec2::<T>::from(v); Out::of(vec![r.x, r.y, v.z, v.w]) });
    ep!($reg, format!("embed34{}_general_lhs", l), 13, |a| { let m: $mo::Mat3<T> = Flat::rd(&a[..9]); let v: Vec4<T> = Flat::rd(&a[9..]); Out::of(($mo::Mat4::<T>::from(m) * v).flat()) });
    ep!($reg, format!("embed34{}_general_rhs", l), 13, |a| { let m: $mo::Mat3<T> = Flat::rd(&a[..9]); let v: Vec4<T> = Flat::rd(&a[9..]); let r = m * Vec3::<T>::from(v); Out::of(vec![r.x, r.y, r.z, v.w]) });
    ep!($reg, format!("embed23{}_general_lhs", l), 7, |a| { let m: $mo::Mat2<T> = Flat::rd(&a[..4]); let v: Vec3<T> = Flat::rd(&a[4..]); Out::of(($mo::Mat3::<T>::from(m) * v).flat()) });
    ep!($reg, format!("embed23{}_general_rhs", l), 7, |a| { let m: $mo::Mat2<T> = Flat::rd(&a[..4]); let v: Vec3<T> = Flat::rd(&a[4..]); let r = m * Vec2::<T>::from(v); Out::of(vec![r.x, r.y, v.z]) });
    ep!($reg, format!("embed23{}_point_rhs", l), 6, |a| { let m: $mo::Mat2<T> = Flat::rd(&a[..4]); let v: Vec2<T> = Flat::rd(&a[4..]); Out::of(Vec3::<T>::from_point_2d(m * v).flat()) });
}}; }
fn reg_embed(reg: &mut Reg) { embed!(reg, "r", rm); embed!(reg, "c", cm); }

pub fn register(reg: &mut Reg) {
    reg_conv(reg); reg_swizzle(reg); reg_shuffle_vec4(reg); reg_shuffle_rgba(reg); reg_mask(reg); reg_color(reg); reg_embed(reg);
}
