//! C01 — matrix products, identity, scalar and element-wise operators, Vec4-as-2x2 helpers.
use crate::reg::*;
use crate::explore::Out;
use crate::io::*;
use vek::vec::repr_c::{Vec2, Vec3, Vec4};
use vek::mat::repr_c::row_major as rm;
use vek::mat::repr_c::column_major as cm;
use num_traits::{Zero, One};

macro_rules! mat_common {
    ($reg:expr, $n:expr, $l:expr, $M:ty, $V:ty) => {{
        let nn = $n * $n;
        let p = format!("mat{}{}", $n, $l);
        ep!($reg, format!("{}_mul", p), 2 * nn, |a| { let x: $M = Flat::rd(&a[..nn]); let y: $M = Flat::rd(&a[nn..]); Out::of((x * y).flat()) });
        ep!($reg, format!("{}_mulv", p), nn + $n, |a| { let x: $M = Flat::rd(&a[..nn]); let v: $V = Flat::rd(&a[nn..]); Out::of((x * v).flat()) });
        ep!($reg, format!("{}_vmul", p), nn + $n, |a| { let x: $M = Flat::rd(&a[..nn]); let v: $V = Flat::rd(&a[nn..]); Out::of((v * x).flat()) });
        ep!($reg, format!("{}_muls", p), nn + 1, |a| { let x: $M = Flat::rd(&a[..nn]); Out::of((x * a[nn]).flat()) });
        ep!($reg, format!("{}_mul_memberwise", p), 2 * nn, |a| { let x: $M = Flat::rd(&a[..nn]); let y: $M = Flat::rd(&a[nn..]); Out::of(x.mul_memberwise(y).flat()) });
        ep!($reg, format!("{}_add", p), 2 * nn, |a| { let x: $M = Flat::rd(&a[..nn]); let y: $M = Flat::rd(&a[nn..]); Out::of((x + y).flat()) });
        ep!($reg, format!("{}_sub", p), 2 * nn, |a| { let x: $M = Flat::rd(&a[..nn]); let y: $M = Flat::rd(&a[nn..]); Out::of((x - y).flat()) });
        ep!($reg, format!("{}_div", p), 2 * nn, |a| { let x: $M = Flat::rd(&a[..nn]); let y: $M = Flat::rd(&a[nn..]); Out::of((x / y).flat()) });
        ep!($reg, format!("{}_rem", p), 2 * nn, |a| { let x: $M = Flat::rd(&a[..nn]); let y: $M = Flat::rd(&a[nn..]); Out::of((x % y).flat()) });
        ep!($reg, format!("{}_neg", p), nn, |a| { let x: $M = Flat::rd(&a[..nn]); Out::of((-x).flat()) });
        ep!($reg, format!("{}_adds", p), nn + 1, |a| { let x: $M = Flat::rd(&a[..nn]); Out::of((x + a[nn]).flat()) });
        ep!($reg, format!("{}_subs", p), nn + 1, |a| { let x: $M = Flat::rd(&a[..nn]); Out::of((x - a[nn]).flat()) });
        ep!($reg, format!("{}_divs", p), nn + 1, |a| { let x: $M = Flat::rd(&a[..nn]); Out::of((x / a[nn]).flat()) });
        ep!($reg, format!("{}_rems", p), nn + 1, |a| { let x: $M = Flat::rd(&a[..nn]); Out::of((x % a[nn]).flat()) });
        // compound assignment forms
        ep!($reg, format!("{}_mul_assign", p), 2 * nn, |a| { let mut x: $M = Flat::rd(&a[..nn]); let y: $M = Flat::rd(&a[nn..]); x *= y; Out::of(x.flat()) });
        ep!($reg, format!("{}_muls_assign", p), nn + 1, |a| { let mut x: $M = Flat::rd(&a[..nn]); x *= a[nn]; Out::of(x.flat()) });
        ep!($reg, format!("{}_add_assign", p), 2 * nn, |a| { let mut x: $M = Flat::rd(&a[..nn]); let y: $M = Flat::rd(&a[nn..]); x += y; Out::of(x.flat()) });
        ep!($reg, format!("{}_sub_assign", p), 2 * nn, |a| { let mut x: $M = Flat::rd(&a[..nn]); let y: $M = Flat::rd(&a[nn..]); x -= y; Out::of(x.flat()) });
        ep!($reg, format!("{}_div_assign", p), 2 * nn, |a| { let mut x: $M = Flat::rd(&a[..nn]); let y: $M = Flat::rd(&a[nn..]); x /= y; Out::of(x.flat()) });
        ep!($reg, format!("{}_rem_assign", p), 2 * nn, |a| { let mut x: $M = Flat::rd(&a[..nn]); let y: $M = Flat::rd(&a[nn..]); x %= y; Out::of(x.flat()) });
        ep!($reg, format!("{}_adds_assign", p), nn + 1, |a| { let mut x: $M = Flat::rd(&a[..nn]); x += a[nn]; Out::of(x.flat()) });
        ep!($reg, format!("{}_subs_assign", p), nn + 1, |a| { let mut x: $M = Flat::rd(&a[..nn]); x -= a[nn]; Out::of(x.flat()) });
        ep!($reg, format!("{}_divs_assign", p), nn + 1, |a| { let mut x: $M = Flat::rd(&a[..nn]); x /= a[nn]; Out::of(x.flat()) });
        ep!($reg, format!("{}_rems_assign", p), nn + 1, |a| { let mut x: $M = Flat::rd(&a[..nn]); x %= a[nn]; Out::of(x.flat()) });
        // constants
        ep!($reg, format!("{}_identity", p), 0, |a| { let _ = a; Out::of(<$M>::identity().flat()) });
        ep!($reg, format!("{}_zero", p), 0, |a| { let _ = a; Out::of(<$M>::zero().flat()) });
        ep!($reg, format!("{}_default", p), 0, |a| { let _ = a; Out::of(<$M as Default>::default().flat()) });
        ep!($reg, format!("{}_one_trait", p), 0, |a| { let _ = a; Out::of(<$M as One>::one().flat()) });
        ep!($reg, format!("{}_zero_trait", p), 0, |a| { let _ = a; Out::of(<$M as Zero>::zero().flat()) });
    }};
}
macro_rules! mat_mixed {
    ($reg:expr, $n:expr, $l:expr, $M:ty, $Tr:ty) => {{
        let nn = $n * $n;
        ep!($reg, format!("mat{}{}_mul_mixed", $n, $l), 2 * nn, |a| { let x: $M = Flat::rd(&a[..nn]); let y: $Tr = Flat::rd(&a[nn..]); let r: $Tr = x * y; Out::of(r.flat()) });
    }};
}

pub fn register(reg: &mut Reg) {
    mat_common!(reg, 2, "r", rm::Mat2<T>, Vec2<T>);
    mat_common!(reg, 3, "r", rm::Mat3<T>, Vec3<T>);
    mat_common!(reg, 4, "r", rm::Mat4<T>, Vec4<T>);
    mat_common!(reg, 2, "c", cm::Mat2<T>, Vec2<T>);
    mat_common!(reg, 3, "c", cm::Mat3<T>, Vec3<T>);
    mat_common!(reg, 4, "c", cm::Mat4<T>, Vec4<T>);
    mat_mixed!(reg, 2, "r", rm::Mat2<T>, cm::Mat2<T>);
    mat_mixed!(reg, 3, "r", rm::Mat3<T>, cm::Mat3<T>);
    mat_mixed!(reg, 4, "r", rm::Mat4<T>, cm::Mat4<T>);
    mat_mixed!(reg, 2, "c", cm::Mat2<T>, rm::Mat2<T>);
    mat_mixed!(reg, 3, "c", cm::Mat3<T>, rm::Mat3<T>);
    mat_mixed!(reg, 4, "c", cm::Mat4<T>, rm::Mat4<T>);
    // Vec4-as-2x2 helpers
    macro_rules! m2 { ($name:ident) => {
        ep!(reg, format!("vec4_{}", stringify!($name)), 8, |a| { let x: Vec4<T> = Flat::rd(&a[..4]); let y: Vec4<T> = Flat::rd(&a[4..]); Out::of(x.$name(y).flat()) });
    } }
    m2!(mat2_rows_mul); m2!(mat2_rows_adj_mul); m2!(mat2_rows_mul_adj);
    m2!(mat2_cols_mul); m2!(mat2_cols_adj_mul); m2!(mat2_cols_mul_adj);
}
