//! C09 — view (look-at) and change-of-basis matrices.
use crate::reg::*;
use crate::explore::Out;
use crate::io::*;
use vek::vec::repr_c::Vec3;
use vek::mat::repr_c::row_major as rm;
use vek::mat::repr_c::column_major as cm;

macro_rules! views { ($reg:expr, $l:expr, $M:ty) => {{
    let p = format!("mat4{}", $l);
    macro_rules! v3 { ($name:ident) => {
        ep!($reg, format!("{}_{}", p, stringify!($name)), 9, |a| { let e: Vec3<T> = Flat::rd(&a[0..3]); let t: Vec3<T> = Flat::rd(&a[3..6]); let u: Vec3<T> = Flat::rd(&a[6..9]); Out::of(<$M>::$name(e, t, u).flat()) });
    } }
    v3!(look_at_lh); v3!(look_at_rh); v3!(model_look_at_lh); v3!(model_look_at_rh);
    #[allow(deprecated)] { v3!(look_at); v3!(model_look_at); }
    ep!($reg, format!("{}_basis_to_local", p), 12, |a| { let o: Vec3<T> = Flat::rd(&a[0..3]); let i: Vec3<T> = Flat::rd(&a[3..6]); let j: Vec3<T> = Flat::rd(&a[6..9]); let k: Vec3<T> = Flat::rd(&a[9..12]); Out::of(<$M>::basis_to_local(o, i, j, k).flat()) });
    ep!($reg, format!("{}_local_to_basis", p), 12, |a| { let o: Vec3<T> = Flat::rd(&a[0..3]); let i: Vec3<T> = Flat::rd(&a[3..6]); let j: Vec3<T> = Flat::rd(&a[6..9]); let k: Vec3<T> = Flat::rd(&a[9..12]); Out::of(<$M>::local_to_basis(o, i, j, k).flat()) });
}}; }

pub fn register(reg: &mut Reg) {
    views!(reg, "r", rm::Mat4<T>); views!(reg, "c", cm::Mat4<T>);
}
