//! One module per property: which entry points, which instantiations.
use crate::reg::Reg;

#[cfg(feature = "c01")] pub mod c01;
#[cfg(feature = "c06")] pub mod c06;

pub fn register(prop: &str, reg: &mut Reg) {
    match prop {
        #[cfg(feature = "c01")] "C01" => c01::register(reg),
        #[cfg(feature = "c06")] "C06" => c06::register(reg),
        _ => { eprintln!("symx: property {} not available in this build", prop); std::process::exit(2); }
    }
}
