//! One module per property: which entry points, which instantiations.
use crate::reg::Reg;

#[cfg(feature = "c01")] pub mod c01;
#[cfg(feature = "c06")] pub mod c06;
#[cfg(feature = "c04")] pub mod c04;
#[cfg(feature = "c07")] pub mod c07;
#[cfg(feature = "c09")] pub mod c09;
#[cfg(feature = "c08")] pub mod c08;
#[cfg(feature = "c10")] pub mod c10;
#[cfg(feature = "c05")] pub mod c05;
#[cfg(feature = "c13")] pub mod c13;
#[cfg(feature = "c16")] pub mod c16;
#[cfg(feature = "c14")] pub mod c14;
#[cfg(feature = "c17")] pub mod c17;
#[cfg(feature = "c12")] pub mod c12;
#[cfg(feature = "c11")] pub mod c11;
#[cfg(feature = "c03")] pub mod c03;
#[cfg(feature = "c02")] pub mod c02;
#[cfg(feature = "c19")] pub mod c19;
#[cfg(feature = "c20")] pub mod c20;
#[cfg(feature = "c15")] pub mod c15;

pub fn register(prop: &str, reg: &mut Reg) {
    match prop {
        #[cfg(feature = "c01")] "C01" => c01::register(reg),
        #[cfg(feature = "c06")] "C06" => c06::register(reg),
        #[cfg(feature = "c04")] "C04" => c04::register(reg),
        #[cfg(feature = "c07")] "C07" => c07::register(reg),
        #[cfg(feature = "c09")] "C09" => c09::register(reg),
        #[cfg(feature = "c08")] "C08" => c08::register(reg),
        #[cfg(feature = "c10")] "C10" => c10::register(reg),
        #[cfg(feature = "c05")] "C05" => c05::register(reg),
        #[cfg(feature = "c13")] "C13" => c13::register(reg),
        #[cfg(feature = "c16")] "C16" => c16::register(reg),
        #[cfg(feature = "c14")] "C14" => c14::register(reg),
        #[cfg(feature = "c17")] "C17" => c17::register(reg),
        #[cfg(feature = "c12")] "C12" => c12::register(reg),
        #[cfg(feature = "c11")] "C11" => c11::register(reg),
        #[cfg(feature = "c03")] "C03" => c03::register(reg),
        #[cfg(feature = "c02")] "C02" => c02::register(reg),
        #[cfg(feature = "c19")] "C19" => c19::register(reg),
        #[cfg(feature = "c20")] "C20" => c20::register(reg),
        #[cfg(feature = "c15")] "C15" => c15::register(reg),
        _ => { eprintln!("symx: property {} not available in this build", prop); std::process::exit(2); }
    }
}
