//! C02 — vector operators and reductions act element-wise on every vector type.
//! Every entry reads/writes vectors through their public fields only (crate::io::Flat).
use crate::reg::*;
use crate::explore::Out;
use crate::io::*;
use crate::sym::Sym;
use std::iter::FromIterator;
use vek::vec::repr_c::*;
use vek::ops::MulAdd;

fn bools<V: Flat<bool>>(v: V) -> Vec<i64> { v.flat().iter().map(|b| *b as i64).collect() }
/// background constants for the lane-isolated comparison entries: a_j = j+1, b_j = j + j%3
fn bg_a(j: usize) -> u8 { (j + 1) as u8 }
fn bg_b(j: usize) -> u8 { (j + j % 3) as u8 }

macro_rules! binforms { ($reg:expr, $ep:ident, $p:expr, $V:ident, $n:expr, $name:expr, $op:tt, $opa:tt) => {{
    let n: usize = $n; let p = $p; let o = $name;
    $ep!($reg, format!("{}_{}_vv", p, o), 2 * n, |a| { let x: $V<T> = Flat::rd(&a[..n]); let y: $V<T> = Flat::rd(&a[n..]); Out::of((x $op y).flat()) });
    $ep!($reg, format!("{}_{}_vr", p, o), 2 * n, |a| { let x: $V<T> = Flat::rd(&a[..n]); let y: $V<T> = Flat::rd(&a[n..]); Out::of((x $op &y).flat()) });
    $ep!($reg, format!("{}_{}_rv", p, o), 2 * n, |a| { let x: $V<T> = Flat::rd(&a[..n]); let y: $V<T> = Flat::rd(&a[n..]); Out::of((&x $op y).flat()) });
    $ep!($reg, format!("{}_{}_rr", p, o), 2 * n, |a| { let x: $V<T> = Flat::rd(&a[..n]); let y: $V<T> = Flat::rd(&a[n..]); Out::of((&x $op &y).flat()) });
    $ep!($reg, format!("{}_{}_vs", p, o), n + 1, |a| { let x: $V<T> = Flat::rd(&a[..n]); Out::of((x $op a[n]).flat()) });
    $ep!($reg, format!("{}_{}_rs", p, o), n + 1, |a| { let x: $V<T> = Flat::rd(&a[..n]); Out::of((&x $op a[n]).flat()) });
    $ep!($reg, format!("{}_{}_rrs", p, o), n + 1, |a| { let x: $V<T> = Flat::rd(&a[..n]); Out::of((&x $op &a[n]).flat()) });
    $ep!($reg, format!("{}_{}_av", p, o), 2 * n, |a| { let mut x: $V<T> = Flat::rd(&a[..n]); let y: $V<T> = Flat::rd(&a[n..]); x $opa y; Out::of(x.flat()) });
    $ep!($reg, format!("{}_{}_as", p, o), n + 1, |a| { let mut x: $V<T> = Flat::rd(&a[..n]); x $opa a[n]; Out::of(x.flat()) });
}}; }

macro_rules! cmps { ($reg:expr, $ep:ident, $p:expr, $V:ident, $n:expr; $($m:ident)+) => {{
    let n: usize = $n; let p = $p;
    $(
    if n <= 8 {
        $ep!($reg, format!("{}_{}", p, stringify!($m)), 2 * n, |a| { let x: $V<T> = Flat::rd(&a[..n]); let y: $V<T> = Flat::rd(&a[n..]); Out { flags: bools(x.$m(&y)), vals: vec![] } });
    } else {
        for k in 0..n {
            $ep!($reg, format!("{}_{}_lane{}", p, stringify!($m), k), 2, |a| {
                let xs: Vec<T> = (0..n).map(|j| if j == k { a[0] } else { <T as From<u8>>::from(bg_a(j)) }).collect();
                let ys: Vec<T> = (0..n).map(|j| if j == k { a[1] } else { <T as From<u8>>::from(bg_b(j)) }).collect();
                let x: $V<T> = Flat::rd(&xs); let y: $V<T> = Flat::rd(&ys); Out { flags: bools(x.$m(&y)), vals: vec![] } });
        }
    }
    )+
}}; }

/// the `_simd` comparison forms (by value; without platform intrinsics they fall back to the scalar code)
macro_rules! cmps_simd { ($reg:expr, $ep:ident, $p:expr, $V:ident, $n:expr; $($m:ident)+) => {{
    let n: usize = $n; let p = $p;
    $( if n <= 8 {
        $ep!($reg, format!("{}_{}", p, stringify!($m)), 2 * n, |a| { let x: $V<T> = Flat::rd(&a[..n]); let y: $V<T> = Flat::rd(&a[n..]); Out { flags: bools(x.$m(y)), vals: vec![] } });
    } )+
}}; }

macro_rules! vops { ($reg:expr, $p:expr, $V:ident, $n:expr, [$($i:tt)+]) => {{
    let n: usize = $n; let p: &str = $p;
    // ---- constructors and element order ----
    ep!($reg, format!("{}_new", p), n, |a| { Out::of($V::<T>::new($(a[$i]),+).flat()) });
    ep!($reg, format!("{}_broadcast", p), 1, |a| { Out::of($V::<T>::broadcast(a[0]).flat()) });
    ep!($reg, format!("{}_from_scalar", p), 1, |a| { Out::of($V::<T>::from(a[0]).flat()) });
    ep!($reg, format!("{}_zero", p), 0, |a| { let _ = a; Out::of($V::<T>::zero().flat()) });
    ep!($reg, format!("{}_one", p), 0, |a| { let _ = a; Out::of($V::<T>::one().flat()) });
    ep!($reg, format!("{}_iota", p), 0, |a| { let _ = a; Out::of($V::<T>::iota().flat()) });
    ep!($reg, format!("{}_default", p), 0, |a| { let _ = a; Out::of(<$V<T> as Default>::default().flat()) });
    ep!($reg, format!("{}_from_tuple", p), n, |a| { Out::of($V::<T>::from(($(a[$i]),+)).flat()) });
    ep!($reg, format!("{}_into_tuple", p), n, |a| { let x: $V<T> = Flat::rd(a); let t = x.into_tuple(); Out::of(vec![$(t.$i),+]) });
    ep!($reg, format!("{}_from_array", p), n, |a| { Out::of($V::<T>::from([$(a[$i]),+]).flat()) });
    ep!($reg, format!("{}_into_array", p), n, |a| { let x: $V<T> = Flat::rd(a); Out::of(x.into_array().to_vec()) });
    ep!($reg, format!("{}_as_slice", p), n, |a| { let x: $V<T> = Flat::rd(a); Out { flags: vec![x.as_slice().len() as i64, x.elem_count() as i64, $V::<T>::ELEM_COUNT as i64], vals: x.as_slice().to_vec() } });
    ep!($reg, format!("{}_as_mut_slice", p), 2 * n, |a| { let mut x: $V<T> = Flat::rd(&a[..n]); { let s = x.as_mut_slice(); for k in 0..s.len() { s[k] = a[n + k]; } } Out::of(x.flat()) });
    ep!($reg, format!("{}_from_slice", p), n, |a| { Out::of($V::<T>::from_slice(a).flat()) });
    ep!($reg, format!("{}_from_slice_short", p), n - 1, |a| { Out::of($V::<T>::from_slice(a).flat()) });
    ep!($reg, format!("{}_from_slice_long", p), n + 2, |a| { Out::of($V::<T>::from_slice(a).flat()) });
    ep!($reg, format!("{}_from_iter", p), n, |a| { Out::of($V::<T>::from_iter(a.iter().cloned()).flat()) });
    ep!($reg, format!("{}_from_iter_short", p), n - 1, |a| { Out::of($V::<T>::from_iter(a.iter().cloned()).flat()) });
    ep!($reg, format!("{}_from_iter_long", p), n + 2, |a| { Out::of($V::<T>::from_iter(a.iter().cloned()).flat()) });
    ep!($reg, format!("{}_into_iter", p), n, |a| { let x: $V<T> = Flat::rd(a); Out::of(x.into_iter().collect()) });
    ep!($reg, format!("{}_iter", p), n, |a| { let x: $V<T> = Flat::rd(a); Out::of(x.iter().cloned().collect()) });
    // ---- operators ----
    binforms!($reg, ep, p, $V, n, "add", +, +=);
    binforms!($reg, ep, p, $V, n, "sub", -, -=);
    binforms!($reg, ep, p, $V, n, "mul", *, *=);
    binforms!($reg, ep, p, $V, n, "div", /, /=);
    binforms!($reg, ep, p, $V, n, "rem", %, %=);
    binforms!($reg, ep_symi, p, $V, n, "shl", <<, <<=);
    binforms!($reg, ep_symi, p, $V, n, "shr", >>, >>=);
    binforms!($reg, ep_symi, p, $V, n, "bitand", &, &=);
    binforms!($reg, ep_symi, p, $V, n, "bitor", |, |=);
    binforms!($reg, ep_symi, p, $V, n, "bitxor", ^, ^=);
    ep!($reg, format!("{}_add_sv", p), n + 1, |a| { let x: $V<T> = Flat::rd(&a[..n]); Out::of((a[n] + x).flat()) });
    ep!($reg, format!("{}_mul_sv", p), n + 1, |a| { let x: $V<T> = Flat::rd(&a[..n]); Out::of((a[n] * x).flat()) });
    ep!($reg, format!("{}_neg", p), n, |a| { let x: $V<T> = Flat::rd(a); Out::of((-x).flat()) });
    ep_symi!($reg, format!("{}_not", p), n, |a| { let x: $V<T> = Flat::rd(a); Out::of((!x).flat()) });
    // fused multiply-add: inherent method (with broadcast) and the 8 trait forms
    ep!($reg, format!("{}_mul_add_free", p), 3 * n, |a| { let x: $V<T> = Flat::rd(&a[..n]); let y: $V<T> = Flat::rd(&a[n..2 * n]); let z: $V<T> = Flat::rd(&a[2 * n..]); #[allow(deprecated)] let r: $V<T> = vek::ops::mul_add(x, y, z); Out::of(r.flat()) });
    ep!($reg, format!("{}_mul_add", p), 3 * n, |a| { let x: $V<T> = Flat::rd(&a[..n]); let y: $V<T> = Flat::rd(&a[n..2 * n]); let z: $V<T> = Flat::rd(&a[2 * n..]); Out::of(x.mul_add(y, z).flat()) });
    ep!($reg, format!("{}_mul_add_ss", p), n + 2, |a| { let x: $V<T> = Flat::rd(&a[..n]); Out::of(x.mul_add(a[n], a[n + 1]).flat()) });
    ep!($reg, format!("{}_mul_add_vs", p), 2 * n + 1, |a| { let x: $V<T> = Flat::rd(&a[..n]); let y: $V<T> = Flat::rd(&a[n..2 * n]); Out::of(x.mul_add(y, a[2 * n]).flat()) });
    ep!($reg, format!("{}_muladd_vvv", p), 3 * n, |a| { let x: $V<T> = Flat::rd(&a[..n]); let y: $V<T> = Flat::rd(&a[n..2 * n]); let z: $V<T> = Flat::rd(&a[2 * n..]); Out::of(MulAdd::mul_add(x, y, z).flat()) });
    ep_sym!($reg, format!("{}_muladd_rvv", p), 3 * n, |a| { let x: $V<T> = Flat::rd(&a[..n]); let y: $V<T> = Flat::rd(&a[n..2 * n]); let z: $V<T> = Flat::rd(&a[2 * n..]); Out::of(MulAdd::mul_add(&x, y, z).flat()) });
    ep_sym!($reg, format!("{}_muladd_vvr", p), 3 * n, |a| { let x: $V<T> = Flat::rd(&a[..n]); let y: $V<T> = Flat::rd(&a[n..2 * n]); let z: $V<T> = Flat::rd(&a[2 * n..]); Out::of(MulAdd::mul_add(x, y, &z).flat()) });
    ep_sym!($reg, format!("{}_muladd_rvr", p), 3 * n, |a| { let x: $V<T> = Flat::rd(&a[..n]); let y: $V<T> = Flat::rd(&a[n..2 * n]); let z: $V<T> = Flat::rd(&a[2 * n..]); Out::of(MulAdd::mul_add(&x, y, &z).flat()) });
    ep_sym!($reg, format!("{}_muladd_vrv", p), 3 * n, |a| { let x: $V<T> = Flat::rd(&a[..n]); let y: $V<T> = Flat::rd(&a[n..2 * n]); let z: $V<T> = Flat::rd(&a[2 * n..]); Out::of(MulAdd::mul_add(x, &y, z).flat()) });
    ep_sym!($reg, format!("{}_muladd_rrv", p), 3 * n, |a| { let x: $V<T> = Flat::rd(&a[..n]); let y: $V<T> = Flat::rd(&a[n..2 * n]); let z: $V<T> = Flat::rd(&a[2 * n..]); Out::of(MulAdd::mul_add(&x, &y, z).flat()) });
    ep_sym!($reg, format!("{}_muladd_vrr", p), 3 * n, |a| { let x: $V<T> = Flat::rd(&a[..n]); let y: $V<T> = Flat::rd(&a[n..2 * n]); let z: $V<T> = Flat::rd(&a[2 * n..]); Out::of(MulAdd::mul_add(x, &y, &z).flat()) });
    ep_sym!($reg, format!("{}_muladd_rrr", p), 3 * n, |a| { let x: $V<T> = Flat::rd(&a[..n]); let y: $V<T> = Flat::rd(&a[n..2 * n]); let z: $V<T> = Flat::rd(&a[2 * n..]); Out::of(MulAdd::mul_add(&x, &y, &z).flat()) });
    // ---- reductions ----
    ep!($reg, format!("{}_sum", p), n, |a| { let x: $V<T> = Flat::rd(a); Out::of(vec![x.sum()]) });
    ep!($reg, format!("{}_product", p), n, |a| { let x: $V<T> = Flat::rd(a); Out::of(vec![x.product()]) });
    ep!($reg, format!("{}_average", p), n, |a| { let x: $V<T> = Flat::rd(a); Out::of(vec![x.average()]) });
    ep!($reg, format!("{}_reduce", p), n, |a| { let x: $V<T> = Flat::rd(a); Out::of(vec![x.reduce(|u, v| <T as Uf>::uf(2, &[u, v]))]) });
    ep_symi!($reg, format!("{}_reduce_min", p), n, |a| { let x: $V<T> = Flat::rd(a); Out::of(vec![x.reduce_min()]) });
    ep_symi!($reg, format!("{}_reduce_max", p), n, |a| { let x: $V<T> = Flat::rd(a); Out::of(vec![x.reduce_max()]) });
    ep_symi!($reg, format!("{}_reduce_bitand", p), n, |a| { let x: $V<T> = Flat::rd(a); Out::of(vec![x.reduce_bitand()]) });
    ep_symi!($reg, format!("{}_reduce_bitor", p), n, |a| { let x: $V<T> = Flat::rd(a); Out::of(vec![x.reduce_bitor()]) });
    ep_symi!($reg, format!("{}_reduce_bitxor", p), n, |a| { let x: $V<T> = Flat::rd(a); Out::of(vec![x.reduce_bitxor()]) });
    if n <= 8 {
        ep!($reg, format!("{}_reduce_partial_min", p), n, |a| { let x: $V<T> = Flat::rd(a); Out::of(vec![x.reduce_partial_min()]) });
        ep!($reg, format!("{}_reduce_partial_max", p), n, |a| { let x: $V<T> = Flat::rd(a); Out::of(vec![x.reduce_partial_max()]) });
    }
    if n > 8 {
        // wide vectors: lane k holds the free operand, the other lanes the constants a_j (all 2^(n-1) joint outcomes are out of reach)
        for k in 0..n {
            ep!($reg, format!("{}_reduce_partial_min_lane{}", p, k), 1, |a| {
                let xs: Vec<T> = (0..n).map(|j| if j == k { a[0] } else { <T as From<u8>>::from(bg_a(j)) }).collect();
                Out::of(vec![<$V<T> as Flat<T>>::rd(&xs).reduce_partial_min()]) });
            ep!($reg, format!("{}_reduce_partial_max_lane{}", p, k), 1, |a| {
                let xs: Vec<T> = (0..n).map(|j| if j == k { a[0] } else { <T as From<u8>>::from(bg_a(j)) }).collect();
                Out::of(vec![<$V<T> as Flat<T>>::rd(&xs).reduce_partial_max()]) });
        }
    }
    ep!($reg, format!("{}_iter_sum", p), 3 * n, |a| { let v: Vec<$V<T>> = (0..3).map(|k| Flat::rd(&a[k * n..(k + 1) * n])).collect(); Out::of(v.into_iter().sum::<$V<T>>().flat()) });
    ep!($reg, format!("{}_iter_product", p), 3 * n, |a| { let v: Vec<$V<T>> = (0..3).map(|k| Flat::rd(&a[k * n..(k + 1) * n])).collect(); Out::of(v.into_iter().product::<$V<T>>().flat()) });
    ep!($reg, format!("{}_is_any_negative", p), n, |a| { let x: $V<T> = Flat::rd(a); Out::flag(x.is_any_negative()) }).dom = Dom::NonZero;
    ep!($reg, format!("{}_are_all_positive", p), n, |a| { let x: $V<T> = Flat::rd(a); Out::flag(x.are_all_positive()) }).dom = Dom::NonZero;
    // ---- element-wise ----
    ep_symi!($reg, format!("{}_min", p), 2 * n, |a| { let x: $V<T> = Flat::rd(&a[..n]); let y: $V<T> = Flat::rd(&a[n..]); Out::of($V::<T>::min(x, y).flat()) });
    ep_symi!($reg, format!("{}_max", p), 2 * n, |a| { let x: $V<T> = Flat::rd(&a[..n]); let y: $V<T> = Flat::rd(&a[n..]); Out::of($V::<T>::max(x, y).flat()) });
    ep_symi!($reg, format!("{}_min_s", p), n + 1, |a| { let x: $V<T> = Flat::rd(&a[..n]); Out::of($V::<T>::min(x, a[n]).flat()) });
    ep_symi!($reg, format!("{}_max_s", p), n + 1, |a| { let x: $V<T> = Flat::rd(&a[..n]); Out::of($V::<T>::max(a[n], x).flat()) });
    if n <= 8 {
        ep!($reg, format!("{}_partial_min", p), 2 * n, |a| { let x: $V<T> = Flat::rd(&a[..n]); let y: $V<T> = Flat::rd(&a[n..]); Out::of($V::<T>::partial_min(x, y).flat()) });
        ep!($reg, format!("{}_partial_max", p), 2 * n, |a| { let x: $V<T> = Flat::rd(&a[..n]); let y: $V<T> = Flat::rd(&a[n..]); Out::of($V::<T>::partial_max(x, y).flat()) });
    } else {
        for k in 0..n {
            ep!($reg, format!("{}_partial_min_lane{}", p, k), 2, |a| {
                let xs: Vec<T> = (0..n).map(|j| if j == k { a[0] } else { <T as From<u8>>::from(bg_a(j)) }).collect();
                let ys: Vec<T> = (0..n).map(|j| if j == k { a[1] } else { <T as From<u8>>::from(bg_b(j)) }).collect();
                Out::of($V::<T>::partial_min(<$V<T> as Flat<T>>::rd(&xs), <$V<T> as Flat<T>>::rd(&ys)).flat()) });
            ep!($reg, format!("{}_partial_max_lane{}", p, k), 2, |a| {
                let xs: Vec<T> = (0..n).map(|j| if j == k { a[0] } else { <T as From<u8>>::from(bg_a(j)) }).collect();
                let ys: Vec<T> = (0..n).map(|j| if j == k { a[1] } else { <T as From<u8>>::from(bg_b(j)) }).collect();
                Out::of($V::<T>::partial_max(<$V<T> as Flat<T>>::rd(&xs), <$V<T> as Flat<T>>::rd(&ys)).flat()) });
        }
    }
    cmps!($reg, ep, p, $V, n; partial_cmpeq partial_cmpne partial_cmpge partial_cmpgt partial_cmple partial_cmplt);
    cmps!($reg, ep_symi, p, $V, n; cmpeq cmpne cmpge cmpgt cmple cmplt);
    cmps_simd!($reg, ep, p, $V, n; partial_cmpeq_simd partial_cmpne_simd partial_cmpge_simd partial_cmpgt_simd partial_cmple_simd partial_cmplt_simd);
    cmps_simd!($reg, ep_symi, p, $V, n; cmpeq_simd cmpne_simd cmpge_simd cmpgt_simd cmple_simd cmplt_simd);
    ep!($reg, format!("{}_map", p), n, |a| { let x: $V<T> = Flat::rd(a); Out::of(x.map(|u| <T as Uf>::uf(1, &[u])).flat()) });
    ep!($reg, format!("{}_map2", p), 2 * n, |a| { let x: $V<T> = Flat::rd(&a[..n]); let y: $V<T> = Flat::rd(&a[n..]); Out::of(x.map2(y, |u, v| <T as Uf>::uf(2, &[u, v])).flat()) });
    ep!($reg, format!("{}_map3", p), 3 * n, |a| { let x: $V<T> = Flat::rd(&a[..n]); let y: $V<T> = Flat::rd(&a[n..2 * n]); let z: $V<T> = Flat::rd(&a[2 * n..]); Out::of(x.map3(y, z, |u, v, w| <T as Uf>::uf(3, &[u, v, w])).flat()) });
    ep!($reg, format!("{}_apply", p), n, |a| { let mut x: $V<T> = Flat::rd(a); x.apply(|u| <T as Uf>::uf(1, &[u])); Out::of(x.flat()) });
    ep!($reg, format!("{}_apply2", p), 2 * n, |a| { let mut x: $V<T> = Flat::rd(&a[..n]); let y: $V<T> = Flat::rd(&a[n..]); x.apply2(y, |u, v| <T as Uf>::uf(2, &[u, v])); Out::of(x.flat()) });
    ep!($reg, format!("{}_apply3", p), 3 * n, |a| { let mut x: $V<T> = Flat::rd(&a[..n]); let y: $V<T> = Flat::rd(&a[n..2 * n]); let z: $V<T> = Flat::rd(&a[2 * n..]); x.apply3(y, z, |u, v, w| <T as Uf>::uf(3, &[u, v, w])); Out::of(x.flat()) });
    ep!($reg, format!("{}_zip", p), 2 * n, |a| { let x: $V<T> = Flat::rd(&a[..n]); let y: $V<T> = Flat::rd(&a[n..]); let z = x.zip(y); let mut o = vec![]; for (u, v) in z.into_iter() { o.push(u); o.push(v); } Out::of(o) });
    ep!($reg, format!("{}_hadd", p), 2 * n, |a| { let x: $V<T> = Flat::rd(&a[..n]); let y: $V<T> = Flat::rd(&a[n..]); Out::of(x.hadd(y).flat()) });
    ep!($reg, format!("{}_sqrt", p), n, |a| { let x: $V<T> = Flat::rd(a); Out::of(x.sqrt().flat()) }).dom = Dom::Positive;
    ep!($reg, format!("{}_rsqrt", p), n, |a| { let x: $V<T> = Flat::rd(a); Out::of(x.rsqrt().flat()) }).dom = Dom::Positive;
    ep!($reg, format!("{}_recip", p), n, |a| { let x: $V<T> = Flat::rd(a); Out::of(x.recip().flat()) }).dom = Dom::Positive;
    ep!($reg, format!("{}_ceil", p), n, |a| { let x: $V<T> = Flat::rd(a); Out::of(x.ceil().flat()) });
    ep!($reg, format!("{}_floor", p), n, |a| { let x: $V<T> = Flat::rd(a); Out::of(x.floor().flat()) });
    ep!($reg, format!("{}_round", p), n, |a| { let x: $V<T> = Flat::rd(a); Out::of(x.round().flat()) });
}}; }

macro_rules! vdot { ($reg:expr, $p:expr, $V:ident, $n:expr) => {{
    let n: usize = $n; let p: &str = $p;
    ep!($reg, format!("{}_dot", p), 2 * n, |a| { let x: $V<T> = Flat::rd(&a[..n]); let y: $V<T> = Flat::rd(&a[n..]); Out::of(vec![x.dot(y)]) });
    ep!($reg, format!("{}_magnitude_squared", p), n, |a| { let x: $V<T> = Flat::rd(a); Out::of(vec![x.magnitude_squared()]) });
}}; }

fn reg_vec2(reg: &mut Reg) { vops!(reg, "vec2", Vec2, 2, [0 1]); vdot!(reg, "vec2", Vec2, 2); }
fn reg_vec3(reg: &mut Reg) { vops!(reg, "vec3", Vec3, 3, [0 1 2]); vdot!(reg, "vec3", Vec3, 3); }
fn reg_vec4(reg: &mut Reg) { vops!(reg, "vec4", Vec4, 4, [0 1 2 3]); vdot!(reg, "vec4", Vec4, 4); }
fn reg_vec8(reg: &mut Reg) { vops!(reg, "vec8", Vec8, 8, [0 1 2 3 4 5 6 7]); vdot!(reg, "vec8", Vec8, 8); }
fn reg_vec16(reg: &mut Reg) { vops!(reg, "vec16", Vec16, 16, [0 1 2 3 4 5 6 7 8 9 10 11 12 13 14 15]); vdot!(reg, "vec16", Vec16, 16); }
fn reg_vec32(reg: &mut Reg) { vops!(reg, "vec32", Vec32, 32, [0 1 2 3 4 5 6 7 8 9 10 11 12 13 14 15 16 17 18 19 20 21 22 23 24 25 26 27 28 29 30 31]); vdot!(reg, "vec32", Vec32, 32); }
fn reg_vec64(reg: &mut Reg) { vops!(reg, "vec64", Vec64, 64, [0 1 2 3 4 5 6 7 8 9 10 11 12 13 14 15 16 17 18 19 20 21 22 23 24 25 26 27 28 29 30 31 32 33 34 35 36 37 38 39 40 41 42 43 44 45 46 47 48 49 50 51 52 53 54 55 56 57 58 59 60 61 62 63]); vdot!(reg, "vec64", Vec64, 64); }
fn reg_extent2(reg: &mut Reg) { vops!(reg, "extent2", Extent2, 2, [0 1]); vdot!(reg, "extent2", Extent2, 2); }
fn reg_extent3(reg: &mut Reg) { vops!(reg, "extent3", Extent3, 3, [0 1 2]); vdot!(reg, "extent3", Extent3, 3); }
fn reg_rgb(reg: &mut Reg) { vops!(reg, "rgb", Rgb, 3, [0 1 2]); }
fn reg_rgba(reg: &mut Reg) { vops!(reg, "rgba", Rgba, 4, [0 1 2 3]); }
fn reg_uv(reg: &mut Reg) { vops!(reg, "uv", Uv, 2, [0 1]); }
fn reg_uvw(reg: &mut Reg) { vops!(reg, "uvw", Uvw, 3, [0 1 2]); }
pub fn register(reg: &mut Reg) {
    reg_vec2(reg);
    reg_vec3(reg);
    reg_vec4(reg);
    reg_vec8(reg);
    reg_vec16(reg);
    reg_vec32(reg);
    reg_vec64(reg);
    reg_extent2(reg);
    reg_extent3(reg);
    reg_rgb(reg);
    reg_rgba(reg);
    reg_uv(reg);
    reg_uvw(reg);
}
