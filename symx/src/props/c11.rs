//! C11 — spatial vector functions.
use crate::reg::*;
use crate::explore::Out;
use crate::io::*;
use vek::vec::repr_c::*;
use vek::ops::Slerp;

macro_rules! spatial { ($reg:expr, $p:expr, $V:ty, $n:expr, $heavy:expr) => {{
    let n = $n; let p = $p;
    ep!($reg, format!("{}_dot", p), 2 * n, |a| { let u: $V = Flat::rd(&a[..n]); let v: $V = Flat::rd(&a[n..]); Out::of(vec![u.dot(v)]) });
    ep!($reg, format!("{}_magnitude_squared", p), n, |a| { let u: $V = Flat::rd(a); Out::of(vec![u.magnitude_squared()]) });
    ep!($reg, format!("{}_magnitude", p), n, |a| { let u: $V = Flat::rd(a); Out::of(vec![u.magnitude()]) });
    ep!($reg, format!("{}_distance_squared", p), 2 * n, |a| { let u: $V = Flat::rd(&a[..n]); let v: $V = Flat::rd(&a[n..]); Out::of(vec![u.distance_squared(v)]) });
    ep!($reg, format!("{}_distance", p), 2 * n, |a| { let u: $V = Flat::rd(&a[..n]); let v: $V = Flat::rd(&a[n..]); Out::of(vec![u.distance(v)]) });
    ep!($reg, format!("{}_normalized", p), n, |a| { let u: $V = Flat::rd(a); Out::of(u.normalized().flat()) });
    ep!($reg, format!("{}_normalize", p), n, |a| { let mut u: $V = Flat::rd(a); u.normalize(); Out::of(u.flat()) });
    ep!($reg, format!("{}_normalized_and_get_magnitude", p), n, |a| { let u: $V = Flat::rd(a); let (r, m) = u.normalized_and_get_magnitude(); let mut o = r.flat(); o.push(m); Out::of(o) });
    ep!($reg, format!("{}_normalize_and_get_magnitude", p), n, |a| { let mut u: $V = Flat::rd(a); let m = u.normalize_and_get_magnitude(); let mut o = u.flat(); o.push(m); Out::of(o) });
    ep!($reg, format!("{}_reflected", p), 2 * n, |a| { let u: $V = Flat::rd(&a[..n]); let v: $V = Flat::rd(&a[n..]); Out::of(u.reflected(v).flat()) });
    ep!($reg, format!("{}_face_forward", p), 3 * n, |a| { let u: $V = Flat::rd(&a[..n]); let i: $V = Flat::rd(&a[n..2 * n]); let r: $V = Flat::rd(&a[2 * n..]); Out::of(u.face_forward(i, r).flat()) });
    if $heavy {
        ep!($reg, format!("{}_try_normalized", p), n, |a| { let u: $V = Flat::rd(a); match u.try_normalized() { Some(r) => Out { flags: vec![1], vals: r.flat() }, None => Out { flags: vec![0], vals: vec![] } } });
        ep!($reg, format!("{}_is_normalized", p), n, |a| { let u: $V = Flat::rd(a); Out::flag(u.is_normalized()) });
        ep!($reg, format!("{}_is_approx_zero", p), n, |a| { let u: $V = Flat::rd(a); Out::flag(u.is_approx_zero()) });
        ep!($reg, format!("{}_is_magnitude_close_to", p), n + 1, |a| { let u: $V = Flat::rd(&a[..n]); Out::flag(u.is_magnitude_close_to(a[n])) });
        ep!($reg, format!("{}_angle_between", p), 2 * n, |a| { let u: $V = Flat::rd(&a[..n]); let v: $V = Flat::rd(&a[n..]); Out::of(vec![u.angle_between(v)]) });
        ep!($reg, format!("{}_angle_between_degrees", p), 2 * n, |a| { let u: $V = Flat::rd(&a[..n]); let v: $V = Flat::rd(&a[n..]); #[allow(deprecated)] let d = u.angle_between_degrees(v); Out::of(vec![d]) });
        ep!($reg, format!("{}_refracted", p), 2 * n + 1, |a| { let u: $V = Flat::rd(&a[..n]); let v: $V = Flat::rd(&a[n..2 * n]); Out::of(u.refracted(v, a[2 * n]).flat()) });
    }
}}; }

pub fn register(reg: &mut Reg) {
    spatial!(reg, "vec2", Vec2<T>, 2, true); spatial!(reg, "vec3", Vec3<T>, 3, true); spatial!(reg, "vec4", Vec4<T>, 4, true);
    spatial!(reg, "extent2", Extent2<T>, 2, true); spatial!(reg, "extent3", Extent3<T>, 3, true);
    spatial!(reg, "vec8", Vec8<T>, 8, true); spatial!(reg, "vec16", Vec16<T>, 16, false);
    spatial!(reg, "vec32", Vec32<T>, 32, false); spatial!(reg, "vec64", Vec64<T>, 64, false);
    // 2D
    ep!(reg, "vec2_determine_side".to_string(), 6, |a| { let c: Vec2<T> = Flat::rd(&a[..2]); let x: Vec2<T> = Flat::rd(&a[2..4]); let y: Vec2<T> = Flat::rd(&a[4..]); Out::of(vec![c.determine_side(x, y)]) });
    ep!(reg, "vec2_signed_triangle_area".to_string(), 6, |a| { let x: Vec2<T> = Flat::rd(&a[..2]); let y: Vec2<T> = Flat::rd(&a[2..4]); let z: Vec2<T> = Flat::rd(&a[4..]); Out::of(vec![Vec2::signed_triangle_area(x, y, z)]) });
    ep!(reg, "vec2_triangle_area".to_string(), 6, |a| { let x: Vec2<T> = Flat::rd(&a[..2]); let y: Vec2<T> = Flat::rd(&a[2..4]); let z: Vec2<T> = Flat::rd(&a[4..]); Out::of(vec![Vec2::triangle_area(x, y, z)]) });
    // 3D
    ep!(reg, "vec3_cross".to_string(), 6, |a| { let u: Vec3<T> = Flat::rd(&a[..3]); let v: Vec3<T> = Flat::rd(&a[3..]); Out::of(u.cross(v).flat()) });
    ep!(reg, "vec3_slerp_unclamped".to_string(), 7, |a| { let u: Vec3<T> = Flat::rd(&a[..3]); let v: Vec3<T> = Flat::rd(&a[3..6]); Out::of(Vec3::slerp_unclamped(u, v, a[6]).flat()) });
    ep!(reg, "vec3_slerp".to_string(), 7, |a| { let u: Vec3<T> = Flat::rd(&a[..3]); let v: Vec3<T> = Flat::rd(&a[3..6]); Out::of(Vec3::slerp(u, v, a[6]).flat()) });
    ep!(reg, "vec3_trait_slerp_unclamped".to_string(), 7, |a| { let u: Vec3<T> = Flat::rd(&a[..3]); let v: Vec3<T> = Flat::rd(&a[3..6]); Out::of(<Vec3<T> as Slerp<T>>::slerp_unclamped(u, v, a[6]).flat()) });
    // 4D
    ep!(reg, "vec4_homogenized".to_string(), 4, |a| { let u: Vec4<T> = Flat::rd(a); Out::of(u.homogenized().flat()) });
    ep!(reg, "vec4_homogenize".to_string(), 4, |a| { let mut u: Vec4<T> = Flat::rd(a); u.homogenize(); Out::of(u.flat()) });
    ep!(reg, "vec4_is_point".to_string(), 4, |a| { let u: Vec4<T> = Flat::rd(a); Out::flag(u.is_point()) });
    ep!(reg, "vec4_is_direction".to_string(), 4, |a| { let u: Vec4<T> = Flat::rd(a); Out::flag(u.is_direction()) });
    ep!(reg, "vec4_is_homogeneous".to_string(), 4, |a| { let u: Vec4<T> = Flat::rd(a); Out::flag(u.is_homogeneous()) });
}
