//! C07 — affine builders (translation, scaling, shear), point/direction multiply, chained builders, Transform.
use crate::reg::*;
use crate::explore::Out;
use crate::io::*;
use vek::vec::repr_c::{Vec2, Vec3};
use vek::quaternion::repr_c::Quaternion;
use vek::transform::repr_c::Transform;
use vek::mat::repr_c::row_major as rm;
use vek::mat::repr_c::column_major as cm;

macro_rules! mat4 { ($reg:expr, $l:expr, $M:ty) => {{
    let p = format!("mat4{}", $l);
    ep!($reg, format!("{}_mul_point", p), 19, |a| { let m: $M = Flat::rd(&a[..16]); let v: Vec3<T> = Flat::rd(&a[16..]); Out::of(m.mul_point(v).flat()) });
    ep!($reg, format!("{}_mul_direction", p), 19, |a| { let m: $M = Flat::rd(&a[..16]); let v: Vec3<T> = Flat::rd(&a[16..]); Out::of(m.mul_direction(v).flat()) });
    ep!($reg, format!("{}_translation_2d", p), 2, |a| { let v: Vec2<T> = Flat::rd(a); Out::of(<$M>::translation_2d(v).flat()) });
    ep!($reg, format!("{}_translation_3d", p), 3, |a| { let v: Vec3<T> = Flat::rd(a); Out::of(<$M>::translation_3d(v).flat()) });
    ep!($reg, format!("{}_scaling_3d", p), 3, |a| { let v: Vec3<T> = Flat::rd(a); Out::of(<$M>::scaling_3d(v).flat()) });
    ep!($reg, format!("{}_translated_2d", p), 18, |a| { let m: $M = Flat::rd(&a[..16]); let v: Vec2<T> = Flat::rd(&a[16..]); Out::of(m.translated_2d(v).flat()) });
    ep!($reg, format!("{}_translated_3d", p), 19, |a| { let m: $M = Flat::rd(&a[..16]); let v: Vec3<T> = Flat::rd(&a[16..]); Out::of(m.translated_3d(v).flat()) });
    ep!($reg, format!("{}_scaled_3d", p), 19, |a| { let m: $M = Flat::rd(&a[..16]); let v: Vec3<T> = Flat::rd(&a[16..]); Out::of(m.scaled_3d(v).flat()) });
    ep!($reg, format!("{}_translate_2d", p), 18, |a| { let mut m: $M = Flat::rd(&a[..16]); let v: Vec2<T> = Flat::rd(&a[16..]); m.translate_2d(v); Out::of(m.flat()) });
    ep!($reg, format!("{}_translate_3d", p), 19, |a| { let mut m: $M = Flat::rd(&a[..16]); let v: Vec3<T> = Flat::rd(&a[16..]); m.translate_3d(v); Out::of(m.flat()) });
    ep!($reg, format!("{}_scale_3d", p), 19, |a| { let mut m: $M = Flat::rd(&a[..16]); let v: Vec3<T> = Flat::rd(&a[16..]); m.scale_3d(v); Out::of(m.flat()) });
    // Transform {position, orientation (x,y,z,w), scale} -> matrix, and the default Transform
    ep!($reg, format!("{}_from_transform", p), 10, |a| {
        let t = Transform { position: <Vec3<T> as Flat<T>>::rd(&a[0..3]), orientation: <Quaternion<T> as Flat<T>>::rd(&a[3..7]), scale: <Vec3<T> as Flat<T>>::rd(&a[7..10]) };
        Out::of(<$M>::from(t).flat()) });
    ep!($reg, format!("{}_from_default_transform", p), 0, |a| { let _ = a; let t: Transform<T, T, T> = Transform::default(); Out::of(<$M>::from(t).flat()) });
    // a representative chain: scaling_3d(s).rotated_z(rz).translated_3d(p) applied through the real code
    ep!($reg, format!("{}_chain_srt", p), 7, |a| { let s: Vec3<T> = Flat::rd(&a[0..3]); let t: Vec3<T> = Flat::rd(&a[4..7]); Out::of(<$M>::scaling_3d(s).rotated_z(a[3]).translated_3d(t).flat()) });
}}; }
macro_rules! mat3 { ($reg:expr, $l:expr, $M:ty) => {{
    let p = format!("mat3{}", $l);
    ep!($reg, format!("{}_mul_point_2d", p), 11, |a| { let m: $M = Flat::rd(&a[..9]); let v: Vec2<T> = Flat::rd(&a[9..]); Out::of(m.mul_point_2d(v).flat()) });
    ep!($reg, format!("{}_mul_direction_2d", p), 11, |a| { let m: $M = Flat::rd(&a[..9]); let v: Vec2<T> = Flat::rd(&a[9..]); Out::of(m.mul_direction_2d(v).flat()) });
    ep!($reg, format!("{}_translation_2d", p), 2, |a| { let v: Vec2<T> = Flat::rd(a); Out::of(<$M>::translation_2d(v).flat()) });
    ep!($reg, format!("{}_scaling_3d", p), 3, |a| { let v: Vec3<T> = Flat::rd(a); Out::of(<$M>::scaling_3d(v).flat()) });
    ep!($reg, format!("{}_translated_2d", p), 11, |a| { let m: $M = Flat::rd(&a[..9]); let v: Vec2<T> = Flat::rd(&a[9..]); Out::of(m.translated_2d(v).flat()) });
    ep!($reg, format!("{}_scaled_3d", p), 12, |a| { let m: $M = Flat::rd(&a[..9]); let v: Vec3<T> = Flat::rd(&a[9..]); Out::of(m.scaled_3d(v).flat()) });
    ep!($reg, format!("{}_translate_2d", p), 11, |a| { let mut m: $M = Flat::rd(&a[..9]); let v: Vec2<T> = Flat::rd(&a[9..]); m.translate_2d(v); Out::of(m.flat()) });
    ep!($reg, format!("{}_scale_3d", p), 12, |a| { let mut m: $M = Flat::rd(&a[..9]); let v: Vec3<T> = Flat::rd(&a[9..]); m.scale_3d(v); Out::of(m.flat()) });
}}; }
macro_rules! mat2 { ($reg:expr, $l:expr, $M:ty) => {{
    let p = format!("mat2{}", $l);
    ep!($reg, format!("{}_scaling_2d", p), 2, |a| { let v: Vec2<T> = Flat::rd(a); Out::of(<$M>::scaling_2d(v).flat()) });
    ep!($reg, format!("{}_shearing_x", p), 1, |a| { Out::of(<$M>::shearing_x(a[0]).flat()) });
    ep!($reg, format!("{}_shearing_y", p), 1, |a| { Out::of(<$M>::shearing_y(a[0]).flat()) });
    ep!($reg, format!("{}_scaled_2d", p), 6, |a| { let m: $M = Flat::rd(&a[..4]); let v: Vec2<T> = Flat::rd(&a[4..]); Out::of(m.scaled_2d(v).flat()) });
    ep!($reg, format!("{}_sheared_x", p), 5, |a| { let m: $M = Flat::rd(&a[..4]); Out::of(m.sheared_x(a[4]).flat()) });
    ep!($reg, format!("{}_sheared_y", p), 5, |a| { let m: $M = Flat::rd(&a[..4]); Out::of(m.sheared_y(a[4]).flat()) });
    ep!($reg, format!("{}_scale_2d", p), 6, |a| { let mut m: $M = Flat::rd(&a[..4]); let v: Vec2<T> = Flat::rd(&a[4..]); m.scale_2d(v); Out::of(m.flat()) });
    ep!($reg, format!("{}_shear_x", p), 5, |a| { let mut m: $M = Flat::rd(&a[..4]); m.shear_x(a[4]); Out::of(m.flat()) });
    ep!($reg, format!("{}_shear_y", p), 5, |a| { let mut m: $M = Flat::rd(&a[..4]); m.shear_y(a[4]); Out::of(m.flat()) });
    // matrix * vector, to state how constructors act on 2D vectors
    ep!($reg, format!("{}_mulv", p), 6, |a| { let m: $M = Flat::rd(&a[..4]); let v: Vec2<T> = Flat::rd(&a[4..]); Out::of((m * v).flat()) });
}}; }

pub fn register(reg: &mut Reg) {
    mat4!(reg, "r", rm::Mat4<T>); mat4!(reg, "c", cm::Mat4<T>);
    mat3!(reg, "r", rm::Mat3<T>); mat3!(reg, "c", cm::Mat3<T>);
    mat2!(reg, "r", rm::Mat2<T>); mat2!(reg, "c", cm::Mat2<T>);
}
