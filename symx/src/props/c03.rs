//! C03 — element (i,j) means row i, column j in every matrix API, whatever the layout.
//! Inputs are free symbols; storage is read/written through public fields only.
use crate::reg::*;
use crate::explore::Out;
use crate::io::*;
use crate::sym::Sym;
use vek::vec::repr_c::{Vec2, Vec3, Vec4};
use vek::mat::repr_c::row_major as rm;
use vek::mat::repr_c::column_major as cm;

/// Display output: element order (symbols print as n<id>) and the separator skeleton
fn display_sym<M: std::fmt::Display>(m: &M) -> Out<Sym> { display_str(format!("{}", m)) }
/// the same with formatting parameters, which the matrix must hand down to every element
fn display_sym_fmt<M: std::fmt::Display>(m: &M) -> Out<Sym> { display_str(format!("{:+9.2}", m)) }
fn display_str(s: String) -> Out<Sym> {
    let mut vals = vec![]; let mut skel = String::new(); let mut i = 0; let b = s.as_bytes();
    while i < b.len() {
        if b[i] == b'n' && i + 1 < b.len() && b[i + 1].is_ascii_digit() {
            let mut j = i + 1; while j < b.len() && b[j].is_ascii_digit() { j += 1; }
            vals.push(Sym(s[i + 1..j].parse().unwrap())); skel.push('#'); i = j;
        } else { skel.push(b[i] as char); i += 1; }
    }
    let lines = skel.matches('\n').count() as i64 + 1;
    let per_line: Vec<i64> = skel.split('\n').map(|l| l.matches('#').count() as i64).collect();
    let mut flags = vec![lines]; flags.extend(per_line); flags.push(skel.len() as i64);
    Out { flags, vals }
}
fn display_f64<M: std::fmt::Display>(_m: &M) -> Out<f64> { Out { flags: vec![], vals: vec![] } }

macro_rules! mat { ($reg:expr, $n:expr, $l:expr, $M:ident, $modl:ident, $tr:ident, $V:ident, $lines:ident; [$($i:tt)+] [$($ij:tt)+]) => {{
    let n: usize = $n; let nn = n * n; let p = format!("mat{}{}", n, $l);
    type MT<T> = $modl::$M<T>; type TR<T> = $tr::$M<T>;
    ep!($reg, format!("{}_new", p), nn, |a| { Out::of(MT::<T>::new($(a[$ij]),+).flat()) });
    ep!($reg, format!("{}_index_all", p), nn, |a| { let m: MT<T> = Flat::rd(a); let mut o = vec![]; for i in 0..n { for j in 0..n { o.push(m[(i, j)]); } } Out::of(o) });
    ep!($reg, format!("{}_index_mut_all", p), 2 * nn, |a| { let mut m: MT<T> = Flat::rd(&a[..nn]); for i in 0..n { for j in 0..n { m[(i, j)] = a[nn + i * n + j]; } } Out::of(m.flat()) });
    ep!($reg, format!("{}_transposed", p), nn, |a| { let m: MT<T> = Flat::rd(a); Out::of(m.transposed().flat()) });
    ep!($reg, format!("{}_transpose", p), nn, |a| { let mut m: MT<T> = Flat::rd(a); m.transpose(); Out::of(m.flat()) });
    ep!($reg, format!("{}_diagonal", p), nn, |a| { let m: MT<T> = Flat::rd(a); Out::of(m.diagonal().flat()) });
    ep!($reg, format!("{}_with_diagonal", p), n, |a| { let v: $V<T> = Flat::rd(a); Out::of(MT::<T>::with_diagonal(v).flat()) });
    ep!($reg, format!("{}_broadcast_diagonal", p), 1, |a| { Out::of(MT::<T>::broadcast_diagonal(a[0]).flat()) });
    ep!($reg, format!("{}_trace", p), nn, |a| { let m: MT<T> = Flat::rd(a); Out::of(vec![m.trace()]) });
    ep!($reg, format!("{}_map", p), nn, |a| { let m: MT<T> = Flat::rd(a); Out::of(m.map(|x| <T as Uf>::uf(1, &[x])).flat()) });
    ep!($reg, format!("{}_apply", p), nn, |a| { let mut m: MT<T> = Flat::rd(a); m.apply(|x| <T as Uf>::uf(1, &[x])); Out::of(m.flat()) });
    ep!($reg, format!("{}_map2", p), 2 * nn, |a| { let m: MT<T> = Flat::rd(&a[..nn]); let o: MT<T> = Flat::rd(&a[nn..]); Out::of(m.map2(o, |x, y| <T as Uf>::uf(2, &[x, y])).flat()) });
    ep!($reg, format!("{}_apply2", p), 2 * nn, |a| { let mut m: MT<T> = Flat::rd(&a[..nn]); let o: MT<T> = Flat::rd(&a[nn..]); m.apply2(o, |x, y| <T as Uf>::uf(2, &[x, y])); Out::of(m.flat()) });
    ep!($reg, format!("{}_as", p), nn, |a| { let m: MT<T> = Flat::rd(a); let r: MT<T> = m.as_(); Out::of(r.flat()) });
    ep!($reg, format!("{}_map_lines", p), nn, |a| { let m: MT<T> = Flat::rd(a); Out::of(m.$lines(|v| v.map(|x| <T as Uf>::uf(3, &[x]))).flat()) });
    ep!($reg, format!("{}_from_transpose", p), nn, |a| { let m: TR<T> = Flat::rd(a); Out::of(MT::<T>::from(m).flat()) });
    ep!($reg, format!("{}_into_row_array", p), nn, |a| { let m: MT<T> = Flat::rd(a); Out::of(m.into_row_array().to_vec()) });
    ep!($reg, format!("{}_into_col_array", p), nn, |a| { let m: MT<T> = Flat::rd(a); Out::of(m.into_col_array().to_vec()) });
    ep!($reg, format!("{}_into_row_arrays", p), nn, |a| { let m: MT<T> = Flat::rd(a); Out::of(m.into_row_arrays().iter().flat_map(|r| r.iter().cloned()).collect()) });
    ep!($reg, format!("{}_into_col_arrays", p), nn, |a| { let m: MT<T> = Flat::rd(a); Out::of(m.into_col_arrays().iter().flat_map(|r| r.iter().cloned()).collect()) });
    ep!($reg, format!("{}_from_row_array", p), nn, |a| { Out::of(MT::<T>::from_row_array([$(a[$ij]),+]).flat()) });
    ep!($reg, format!("{}_from_col_array", p), nn, |a| { Out::of(MT::<T>::from_col_array([$(a[$ij]),+]).flat()) });
    ep!($reg, format!("{}_from_row_arrays", p), nn, |a| { let mut rows = [[a[0]; $n]; $n]; for i in 0..n { for j in 0..n { rows[i][j] = a[i * n + j]; } } Out::of(MT::<T>::from_row_arrays(rows).flat()) });
    ep!($reg, format!("{}_from_col_arrays", p), nn, |a| { let mut cols = [[a[0]; $n]; $n]; for i in 0..n { for j in 0..n { cols[i][j] = a[i * n + j]; } } Out::of(MT::<T>::from_col_arrays(cols).flat()) });
    ep!($reg, format!("{}_default", p), 0, |a| { let _ = a; Out::of(<MT<T> as Default>::default().flat()) });
    ep!($reg, format!("{}_counts", p), nn, |a| { let m: MT<T> = Flat::rd(a); Out { flags: vec![m.row_count() as i64, m.col_count() as i64, MT::<T>::ROW_COUNT as i64, MT::<T>::COL_COUNT as i64, m.gl_should_transpose() as i64, MT::<T>::GL_SHOULD_TRANSPOSE as i64], vals: vec![] } });
    $reg.add(&format!("{}_display", p), nn, Box::new(move |a: &[Sym]| { let m: MT<Sym> = Flat::rd(a); display_sym(&m) }), None);
    $reg.add(&format!("{}_display_fmt", p), nn, Box::new(move |a: &[Sym]| { let m: MT<Sym> = Flat::rd(a); display_sym_fmt(&m) }), None);
    let _ = display_f64::<MT<f64>>;
}}; }

pub fn register(reg: &mut Reg) {
    mat!(reg, 2, "r", Mat2, rm, cm, Vec2, map_rows; [0 1] [0 1 2 3]);
    mat!(reg, 3, "r", Mat3, rm, cm, Vec3, map_rows; [0 1 2] [0 1 2 3 4 5 6 7 8]);
    mat!(reg, 4, "r", Mat4, rm, cm, Vec4, map_rows; [0 1 2 3] [0 1 2 3 4 5 6 7 8 9 10 11 12 13 14 15]);
    mat!(reg, 2, "c", Mat2, cm, rm, Vec2, map_cols; [0 1] [0 1 2 3]);
    mat!(reg, 3, "c", Mat3, cm, rm, Vec3, map_cols; [0 1 2] [0 1 2 3 4 5 6 7 8]);
    mat!(reg, 4, "c", Mat4, cm, rm, Vec4, map_cols; [0 1 2 3] [0 1 2 3 4 5 6 7 8 9 10 11 12 13 14 15]);
    // flat slice views (named after the layout) 
    ep!(reg, "mat2r_as_row_slice".to_string(), 4, |a| { let m: rm::Mat2<T> = Flat::rd(a); Out::of(m.as_row_slice().to_vec()) });
    ep!(reg, "mat3r_as_row_slice".to_string(), 9, |a| { let m: rm::Mat3<T> = Flat::rd(a); Out::of(m.as_row_slice().to_vec()) });
    ep!(reg, "mat4r_as_row_slice".to_string(), 16, |a| { let m: rm::Mat4<T> = Flat::rd(a); Out::of(m.as_row_slice().to_vec()) });
    ep!(reg, "mat2c_as_col_slice".to_string(), 4, |a| { let m: cm::Mat2<T> = Flat::rd(a); Out::of(m.as_col_slice().to_vec()) });
    ep!(reg, "mat3c_as_col_slice".to_string(), 9, |a| { let m: cm::Mat3<T> = Flat::rd(a); Out::of(m.as_col_slice().to_vec()) });
    ep!(reg, "mat4c_as_col_slice".to_string(), 16, |a| { let m: cm::Mat4<T> = Flat::rd(a); Out::of(m.as_col_slice().to_vec()) });
    ep!(reg, "mat4r_as_mut_row_slice".to_string(), 16, |a| { let mut m: rm::Mat4<T> = Flat::rd(a); Out::of(m.as_mut_row_slice().to_vec()) });
    ep!(reg, "mat4c_as_mut_col_slice".to_string(), 16, |a| { let mut m: cm::Mat4<T> = Flat::rd(a); Out::of(m.as_mut_col_slice().to_vec()) });
    // size conversions
    macro_rules! conv { ($name:expr, $From:ty, $nf:expr, $To:ty) => {
        ep!(reg, $name.to_string(), $nf, |a| { let m: $From = Flat::rd(a); Out::of(<$To>::from(m).flat()) });
    } }
    conv!("mat3r_from_mat2r", rm::Mat2<T>, 4, rm::Mat3<T>); conv!("mat4r_from_mat2r", rm::Mat2<T>, 4, rm::Mat4<T>); conv!("mat4r_from_mat3r", rm::Mat3<T>, 9, rm::Mat4<T>);
    conv!("mat3r_from_mat4r", rm::Mat4<T>, 16, rm::Mat3<T>); conv!("mat2r_from_mat3r", rm::Mat3<T>, 9, rm::Mat2<T>); conv!("mat2r_from_mat4r", rm::Mat4<T>, 16, rm::Mat2<T>);
    conv!("mat3c_from_mat2c", cm::Mat2<T>, 4, cm::Mat3<T>); conv!("mat4c_from_mat2c", cm::Mat2<T>, 4, cm::Mat4<T>); conv!("mat4c_from_mat3c", cm::Mat3<T>, 9, cm::Mat4<T>);
    conv!("mat3c_from_mat4c", cm::Mat4<T>, 16, cm::Mat3<T>); conv!("mat2c_from_mat3c", cm::Mat3<T>, 9, cm::Mat2<T>); conv!("mat2c_from_mat4c", cm::Mat4<T>, 16, cm::Mat2<T>);
}
