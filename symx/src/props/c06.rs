//! C06 — determinants and inverses.
use crate::reg::*;
use crate::explore::Out;
use crate::io::*;
use vek::mat::repr_c::row_major as rm;
use vek::mat::repr_c::column_major as cm;

pub fn register(reg: &mut Reg) {
    macro_rules! det { ($name:expr, $M:ty, $nn:expr) => {
        ep!(reg, $name, $nn, |a| { let m: $M = Flat::rd(a); Out::of(vec![m.determinant()]) });
    } }
    det!("mat2r_det", rm::Mat2<T>, 4); det!("mat3r_det", rm::Mat3<T>, 9); det!("mat4r_det", rm::Mat4<T>, 16);
    det!("mat2c_det", cm::Mat2<T>, 4); det!("mat3c_det", cm::Mat3<T>, 9); det!("mat4c_det", cm::Mat4<T>, 16);
    macro_rules! inv { ($l:expr, $M:ty) => {
        ep!(reg, format!("mat4{}_inverted", $l), 16, |a| { let m: $M = Flat::rd(a); Out::of(m.inverted().flat()) });
        ep!(reg, format!("mat4{}_invert", $l), 16, |a| { let mut m: $M = Flat::rd(a); m.invert(); Out::of(m.flat()) });
        ep!(reg, format!("mat4{}_inverted_rigid", $l), 16, |a| { let m: $M = Flat::rd(a); Out::of(m.inverted_affine_transform_no_scale().flat()) });
        ep!(reg, format!("mat4{}_invert_rigid", $l), 16, |a| { let mut m: $M = Flat::rd(a); m.invert_affine_transform_no_scale(); Out::of(m.flat()) });
        ep!(reg, format!("mat4{}_inverted_affine", $l), 16, |a| { let m: $M = Flat::rd(a); Out::of(m.inverted_affine_transform().flat()) });
        ep!(reg, format!("mat4{}_invert_affine", $l), 16, |a| { let mut m: $M = Flat::rd(a); m.invert_affine_transform(); Out::of(m.flat()) });
    } }
    inv!("r", rm::Mat4<T>); inv!("c", cm::Mat4<T>);
}
