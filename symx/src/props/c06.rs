//! C06 — determinants and inverses.
use crate::reg::*;
use crate::explore::Out;
use crate::io::*;
use vek::mat::repr_c::row_major as rm;
use vek::mat::repr_c::column_major as cm;

/// a matrix T * R * S (R an exact rational rotation from an integer quaternion), in the given storage order
fn trs(seed: u64, col_major: bool, scale: bool) -> Vec<f64> {
    let mut r = seed.wrapping_mul(0x9E3779B97F4A7C15) | 1;
    let mut nx = || { r ^= r << 13; r ^= r >> 7; r ^= r << 17; r };
    let q: Vec<f64> = loop { let q: Vec<f64> = (0..4).map(|_| (nx() % 7) as f64 - 3.0).collect(); if q.iter().any(|x| *x != 0.0) { break q; } };
    let (w, x, y, z) = (q[0], q[1], q[2], q[3]); let n = w * w + x * x + y * y + z * z;
    let rot = [[(w * w + x * x - y * y - z * z) / n, 2.0 * (x * y - w * z) / n, 2.0 * (x * z + w * y) / n],
               [2.0 * (x * y + w * z) / n, (w * w - x * x + y * y - z * z) / n, 2.0 * (y * z - w * x) / n],
               [2.0 * (x * z - w * y) / n, 2.0 * (y * z + w * x) / n, (w * w - x * x - y * y + z * z) / n]];
    // one case in four mixes very large scales with ordinary ones (none negligibly small): a threshold made relative to
    // the largest axis would then wrongly treat the ordinary axes as negligible
    let wide = scale && nx() % 4 == 0;
    let sc: Vec<f64> = (0..3).map(|_| if wide { [134217728.0, 2.0, 0.5, 3.0, 16384.0, -134217728.0][(nx() % 6) as usize] } else if scale { [0.5, 1.0, 2.0, 3.0, -2.0][(nx() % 5) as usize] } else { 1.0 }).collect();
    let tr: Vec<f64> = (0..3).map(|_| (nx() % 9) as f64 - 4.0).collect();
    let mut m = [[0.0f64; 4]; 4];
    for i in 0..3 { for j in 0..3 { m[i][j] = rot[i][j] * sc[j]; } m[i][3] = tr[i]; }
    m[3][3] = 1.0;
    let mut out = vec![];
    for a in 0..4 { for b in 0..4 { out.push(if col_major { m[b][a] } else { m[a][b] }); } }
    out
}

pub fn register(reg: &mut Reg) {
    macro_rules! det { ($name:expr, $M:ty, $nn:expr) => {
        ep!(reg, $name, $nn, |a| { let m: $M = Flat::rd(a); Out::of(vec![m.determinant()]) });
    } }
    det!("mat2r_det", rm::Mat2<T>, 4); det!("mat3r_det", rm::Mat3<T>, 9); det!("mat4r_det", rm::Mat4<T>, 16);
    det!("mat2c_det", cm::Mat2<T>, 4); det!("mat3c_det", cm::Mat3<T>, 9); det!("mat4c_det", cm::Mat4<T>, 16);
    macro_rules! inv { ($l:expr, $M:ty) => {
        ep!(reg, format!("mat4{}_inverted", $l), 16, |a| { let m: $M = Flat::rd(a); Out::of(m.inverted().flat()) });
        ep!(reg, format!("mat4{}_invert", $l), 16, |a| { let mut m: $M = Flat::rd(a); m.invert(); Out::of(m.flat()) });
        ep!(reg, format!("mat4{}_inverted_rigid", $l), 16, |a| { let m: $M = Flat::rd(a); Out::of(m.inverted_affine_transform_no_scale().flat()) }).pre = Some(Box::new(|s| trs(s, $l == "c", false)));
        ep!(reg, format!("mat4{}_invert_rigid", $l), 16, |a| { let mut m: $M = Flat::rd(a); m.invert_affine_transform_no_scale(); Out::of(m.flat()) }).pre = Some(Box::new(|s| trs(s, $l == "c", false)));
        ep!(reg, format!("mat4{}_inverted_affine", $l), 16, |a| { let m: $M = Flat::rd(a); Out::of(m.inverted_affine_transform().flat()) }).pre = Some(Box::new(|s| trs(s, $l == "c", true)));
        ep!(reg, format!("mat4{}_invert_affine", $l), 16, |a| { let mut m: $M = Flat::rd(a); m.invert_affine_transform(); Out::of(m.flat()) }).pre = Some(Box::new(|s| trs(s, $l == "c", true)));
    } }
    inv!("r", rm::Mat4<T>); inv!("c", cm::Mat4<T>);
}
