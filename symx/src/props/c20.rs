//! C20 — numeric lifts, casts and approximate equality are per-element (abstract scalar operations).
use crate::reg::*;
use crate::explore::Out;
use crate::io::*;
use crate::sym::Sym;
use crate::syma::{SymA, SymB};
use vek::vec::repr_c::*;
use vek::mat::repr_c::row_major as rm;
use vek::mat::repr_c::column_major as cm;
use vek::quaternion::repr_c::Quaternion;
use vek::geom::repr_c::{Aabr, Aabb, Rect, Rect3, LineSegment2, LineSegment3};
use num_traits::{Zero, One};
use num_traits::ops::checked::*;
use num_traits::ops::wrapping::*;
use num_traits::ops::saturating::*;
use num_traits::ops::overflowing::*;
use num_traits::ops::inv::Inv;
use num_traits::ops::euclid::{Euclid, CheckedEuclid};
use approx::{AbsDiffEq, RelativeEq, UlpsEq};

/// the literal 0 is created first so that every flag test is recorded as `0 == F(..)` (one orientation)
fn a_of(inp: &[Sym]) -> Vec<SymA> { let _ = Sym::c(0.0); inp.iter().map(|s| SymA(*s)).collect() }
fn out_a(v: Vec<SymA>) -> Out<Sym> { Out::of(v.iter().map(|x| x.0).collect()) }
fn out_b(v: Vec<SymB>) -> Out<Sym> { Out::of(v.iter().map(|x| x.0).collect()) }
fn opt_a(v: Option<Vec<SymA>>) -> Out<Sym> { match v { Some(v) => Out { flags: vec![1], vals: v.iter().map(|x| x.0).collect() }, None => Out { flags: vec![0], vals: vec![] } } }
fn opt_b(v: Option<Vec<SymB>>) -> Out<Sym> { match v { Some(v) => Out { flags: vec![1], vals: v.iter().map(|x| x.0).collect() }, None => Out { flags: vec![0], vals: vec![] } } }
/// lane k free (inputs 0 and 1), the other lanes literal constants
fn lane_a(n: usize, k: usize, inp: &[Sym]) -> (Vec<SymA>, Vec<SymA>) {
    let _ = Sym::c(0.0);
    ((0..n).map(|j| if j == k { SymA(inp[0]) } else { SymA(Sym::c((j + 1) as f64)) }).collect(),
     (0..n).map(|j| if j == k { SymA(inp[1]) } else { SymA(Sym::c((j + 2) as f64)) }).collect())
}
macro_rules! sa { ($reg:expr, $name:expr, $nin:expr, |$a:ident| $body:block) => { $reg.add(&$name, $nin, Box::new(move |inp: &[Sym]| -> Out<Sym> { let $a = a_of(inp); $body }), None) } }

macro_rules! lifts { ($reg:expr, $p:expr, $V:ident, $n:expr) => {{
    let n: usize = $n; let p: &str = $p;
    macro_rules! c2 { ($m:ident) => { sa!($reg, format!("{}_{}", p, stringify!($m)), 2 * n, |a| { let x: $V<SymA> = Flat::rd(&a[..n]); let y: $V<SymA> = Flat::rd(&a[n..]); opt_a(x.$m(&y).map(|v| v.flat())) }); } }
    c2!(checked_add); c2!(checked_sub); c2!(checked_mul); c2!(checked_div); c2!(checked_rem); c2!(checked_div_euclid); c2!(checked_rem_euclid);
    sa!($reg, format!("{}_checked_neg", p), n, |a| { let x: $V<SymA> = Flat::rd(&a); opt_a(x.checked_neg().map(|v| v.flat())) });
    macro_rules! p2 { ($m:ident) => { sa!($reg, format!("{}_{}", p, stringify!($m)), 2 * n, |a| { let x: $V<SymA> = Flat::rd(&a[..n]); let y: $V<SymA> = Flat::rd(&a[n..]); out_a(x.$m(&y).flat()) }); } }
    p2!(wrapping_add); p2!(wrapping_sub); p2!(wrapping_mul); p2!(saturating_add); p2!(saturating_sub); p2!(saturating_mul); p2!(div_euclid); p2!(rem_euclid);
    sa!($reg, format!("{}_wrapping_neg", p), n, |a| { let x: $V<SymA> = Flat::rd(&a); out_a(x.wrapping_neg().flat()) });
    sa!($reg, format!("{}_inv", p), n, |a| { let x: $V<SymA> = Flat::rd(&a); out_a(x.inv().flat()) });
    macro_rules! o2 { ($m:ident) => {
        if n <= 4 { sa!($reg, format!("{}_{}", p, stringify!($m)), 2 * n, |a| { let x: $V<SymA> = Flat::rd(&a[..n]); let y: $V<SymA> = Flat::rd(&a[n..]); let (v, f) = x.$m(&y); Out { flags: vec![f as i64], vals: v.flat().iter().map(|s| s.0).collect() } }); }
        else { for k in 0..n { $reg.add(&format!("{}_{}_lane{}", p, stringify!($m), k), 2, Box::new(move |inp: &[Sym]| -> Out<Sym> { let (xs, ys) = lane_a(n, k, inp); let x: $V<SymA> = Flat::rd(&xs); let y: $V<SymA> = Flat::rd(&ys); let (v, f) = x.$m(&y); Out { flags: vec![f as i64], vals: v.flat().iter().map(|s| s.0).collect() } }), None); } }
    } }
    o2!(overflowing_add); o2!(overflowing_sub); o2!(overflowing_mul);
    // Zero / One / is_zero
    sa!($reg, format!("{}_zero_trait", p), 0, |a| { let _ = a; out_a(<$V<SymA> as Zero>::zero().flat()) });
    sa!($reg, format!("{}_one_trait", p), 0, |a| { let _ = a; out_a(<$V<SymA> as One>::one().flat()) });
    sa!($reg, format!("{}_is_zero", p), n, |a| { let x: $V<SymA> = Flat::rd(&a); Out::flag(<$V<SymA> as Zero>::is_zero(&x)) });
    // approximate equality
    sa!($reg, format!("{}_abs_diff_eq", p), 2 * n + 1, |a| { let x: $V<SymA> = Flat::rd(&a[..n]); let y: $V<SymA> = Flat::rd(&a[n..2 * n]); Out::flag(x.abs_diff_eq(&y, a[2 * n])) });
    sa!($reg, format!("{}_relative_eq", p), 2 * n + 2, |a| { let x: $V<SymA> = Flat::rd(&a[..n]); let y: $V<SymA> = Flat::rd(&a[n..2 * n]); Out::flag(x.relative_eq(&y, a[2 * n], a[2 * n + 1])) });
    sa!($reg, format!("{}_ulps_eq", p), 2 * n + 1, |a| { let x: $V<SymA> = Flat::rd(&a[..n]); let y: $V<SymA> = Flat::rd(&a[n..2 * n]); Out::flag(x.ulps_eq(&y, a[2 * n], 7)) });
    // casts
    sa!($reg, format!("{}_as", p), n, |a| { let x: $V<SymA> = Flat::rd(&a); let y: $V<SymB> = x.as_(); out_b(y.flat()) });
    sa!($reg, format!("{}_numcast", p), n, |a| { let x: $V<SymA> = Flat::rd(&a); let y: Option<$V<SymB>> = x.numcast(); opt_b(y.map(|v| v.flat())) });
    sa!($reg, format!("{}_az", p), n, |a| { let x: $V<SymA> = Flat::rd(&a); let y: $V<SymB> = x.az(); out_b(y.flat()) });
    sa!($reg, format!("{}_checked_as", p), n, |a| { let x: $V<SymA> = Flat::rd(&a); let y: Option<$V<SymB>> = x.checked_as(); opt_b(y.map(|v| v.flat())) });
    sa!($reg, format!("{}_saturating_as", p), n, |a| { let x: $V<SymA> = Flat::rd(&a); let y: $V<SymB> = x.saturating_as(); out_b(y.flat()) });
    sa!($reg, format!("{}_wrapping_as", p), n, |a| { let x: $V<SymA> = Flat::rd(&a); let y: $V<SymB> = x.wrapping_as(); out_b(y.flat()) });
    sa!($reg, format!("{}_unwrapped_as", p), n, |a| { let x: $V<SymA> = Flat::rd(&a); let y: $V<SymB> = x.unwrapped_as(); out_b(y.flat()) });
    if n <= 4 { sa!($reg, format!("{}_overflowing_as", p), n, |a| { let x: $V<SymA> = Flat::rd(&a); let (y, f): ($V<SymB>, bool) = x.overflowing_as(); Out { flags: vec![f as i64], vals: y.flat().iter().map(|s| s.0).collect() } }); }
    else { for k in 0..n { $reg.add(&format!("{}_overflowing_as_lane{}", p, k), 1, Box::new(move |inp: &[Sym]| -> Out<Sym> { let _ = Sym::c(0.0); let xs: Vec<SymA> = (0..n).map(|j| if j == k { SymA(inp[0]) } else { SymA(Sym::c((j + 1) as f64)) }).collect(); let x: $V<SymA> = Flat::rd(&xs); let (y, f): ($V<SymB>, bool) = x.overflowing_as(); Out { flags: vec![f as i64], vals: y.flat().iter().map(|s| s.0).collect() } }), None); } }
}}; }

macro_rules! mats { ($reg:expr, $p:expr, $M:ty, $MB:ty, $nn:expr) => {{
    let nn: usize = $nn; let p: &str = $p;
    sa!($reg, format!("{}_zero_trait", p), 0, |a| { let _ = a; out_a(<$M as Zero>::zero().flat()) });
    sa!($reg, format!("{}_one_trait", p), 0, |a| { let _ = a; out_a(<$M as One>::one().flat()) });
    sa!($reg, format!("{}_is_zero", p), nn, |a| { let x: $M = Flat::rd(&a); Out::flag(<$M as Zero>::is_zero(&x)) });
    sa!($reg, format!("{}_abs_diff_eq", p), 2 * nn + 1, |a| { let x: $M = Flat::rd(&a[..nn]); let y: $M = Flat::rd(&a[nn..2 * nn]); Out::flag(x.abs_diff_eq(&y, a[2 * nn])) });
    sa!($reg, format!("{}_relative_eq", p), 2 * nn + 2, |a| { let x: $M = Flat::rd(&a[..nn]); let y: $M = Flat::rd(&a[nn..2 * nn]); Out::flag(x.relative_eq(&y, a[2 * nn], a[2 * nn + 1])) });
    sa!($reg, format!("{}_ulps_eq", p), 2 * nn + 1, |a| { let x: $M = Flat::rd(&a[..nn]); let y: $M = Flat::rd(&a[nn..2 * nn]); Out::flag(x.ulps_eq(&y, a[2 * nn], 7)) });
    sa!($reg, format!("{}_as", p), nn, |a| { let x: $M = Flat::rd(&a); let y: $MB = x.as_(); out_b(y.flat()) });
    sa!($reg, format!("{}_numcast", p), nn, |a| { let x: $M = Flat::rd(&a); let y: Option<$MB> = x.numcast(); opt_b(y.map(|v| v.flat())) });
}}; }

fn reg_small(reg: &mut Reg) { lifts!(reg, "vec2", Vec2, 2); lifts!(reg, "vec3", Vec3, 3); lifts!(reg, "vec4", Vec4, 4); }
fn reg_8(reg: &mut Reg) { lifts!(reg, "vec8", Vec8, 8); }
fn reg_16(reg: &mut Reg) { lifts!(reg, "vec16", Vec16, 16); }
fn reg_32(reg: &mut Reg) { lifts!(reg, "vec32", Vec32, 32); }
fn reg_64(reg: &mut Reg) { lifts!(reg, "vec64", Vec64, 64); }
fn reg_ext(reg: &mut Reg) { lifts!(reg, "extent2", Extent2, 2); lifts!(reg, "extent3", Extent3, 3); }
fn reg_col(reg: &mut Reg) { lifts!(reg, "rgb", Rgb, 3); lifts!(reg, "rgba", Rgba, 4); lifts!(reg, "uv", Uv, 2); lifts!(reg, "uvw", Uvw, 3); }
fn reg_mat(reg: &mut Reg) {
    mats!(reg, "mat2r", rm::Mat2<SymA>, rm::Mat2<SymB>, 4); mats!(reg, "mat3r", rm::Mat3<SymA>, rm::Mat3<SymB>, 9); mats!(reg, "mat4r", rm::Mat4<SymA>, rm::Mat4<SymB>, 16);
    mats!(reg, "mat2c", cm::Mat2<SymA>, cm::Mat2<SymB>, 4); mats!(reg, "mat3c", cm::Mat3<SymA>, cm::Mat3<SymB>, 9); mats!(reg, "mat4c", cm::Mat4<SymA>, cm::Mat4<SymB>, 16);
}
fn reg_misc(reg: &mut Reg) {
    sa!(reg, "quat_abs_diff_eq".to_string(), 9, |a| { let x: Quaternion<SymA> = Flat::rd(&a[..4]); let y: Quaternion<SymA> = Flat::rd(&a[4..8]); Out::flag(x.abs_diff_eq(&y, a[8])) });
    sa!(reg, "quat_relative_eq".to_string(), 10, |a| { let x: Quaternion<SymA> = Flat::rd(&a[..4]); let y: Quaternion<SymA> = Flat::rd(&a[4..8]); Out::flag(x.relative_eq(&y, a[8], a[9])) });
    sa!(reg, "quat_ulps_eq".to_string(), 9, |a| { let x: Quaternion<SymA> = Flat::rd(&a[..4]); let y: Quaternion<SymA> = Flat::rd(&a[4..8]); Out::flag(x.ulps_eq(&y, a[8], 7)) });
    sa!(reg, "lineseg2_as".to_string(), 4, |a| { let x: LineSegment2<SymA> = Flat::rd(&a); let y: LineSegment2<SymB> = x.as_(); out_b(y.flat()) });
    sa!(reg, "lineseg3_as".to_string(), 6, |a| { let x: LineSegment3<SymA> = Flat::rd(&a); let y: LineSegment3<SymB> = x.as_(); out_b(y.flat()) });
    sa!(reg, "aabr_as".to_string(), 4, |a| { let x: Aabr<SymA> = Flat::rd(&a); let y: Aabr<SymB> = x.as_(); out_b(y.flat()) });
    sa!(reg, "aabb_as".to_string(), 6, |a| { let x: Aabb<SymA> = Flat::rd(&a); let y: Aabb<SymB> = x.as_(); out_b(y.flat()) });
    sa!(reg, "rect_as".to_string(), 4, |a| { let x: Rect<SymA, SymA> = Flat::rd(&a); let y: Rect<SymB, SymB> = x.as_(); out_b(y.flat()) });
    sa!(reg, "rect3_as".to_string(), 6, |a| { let x: Rect3<SymA, SymA> = Flat::rd(&a); let y: Rect3<SymB, SymB> = x.as_(); out_b(y.flat()) });
}
pub fn register(reg: &mut Reg) {
    reg_small(reg); reg_8(reg); reg_16(reg); reg_32(reg); reg_64(reg); reg_ext(reg); reg_col(reg); reg_mat(reg); reg_misc(reg);
}
