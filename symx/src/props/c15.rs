//! C15 — Bezier extrema, bounding boxes, closest-point search (coarse phase) and discretized length.
use crate::reg::*;
use crate::explore::Out;
use crate::io::*;
use vek::vec::repr_c::{Vec2, Vec3};
use vek::bezier::repr_c::{QuadraticBezier2, QuadraticBezier3, CubicBezier2, CubicBezier3};

fn opt1<T: Copy>(o: Option<T>, zero: T) -> Out<T> { match o { Some(t) => Out { flags: vec![1], vals: vec![t] }, None => Out { flags: vec![0], vals: vec![zero] } } }
fn opt2<T: Copy>(o: Option<(T, Option<T>)>, zero: T) -> Out<T> { match o { Some((t, Some(u))) => Out { flags: vec![2], vals: vec![t, u] }, Some((t, None)) => Out { flags: vec![1], vals: vec![t, zero] }, None => Out { flags: vec![0], vals: vec![zero, zero] } } }

macro_rules! quad_axis { ($reg:expr, $p:expr, $B:ty, $n:expr, $ax:expr, $infl:ident, $min:ident, $max:ident, $bounds:ident) => {{
    let n: usize = $n; let p = $p; let ax = $ax;
    ep!($reg, format!("{}_{}_inflection", p, ax), n, |a| { let c: $B = Flat::rd(a); opt1(c.$infl(), <T as num_traits::Zero>::zero()) });
    ep!($reg, format!("{}_min_{}", p, ax), n, |a| { let c: $B = Flat::rd(a); Out::of(vec![c.$min()]) });
    ep!($reg, format!("{}_max_{}", p, ax), n, |a| { let c: $B = Flat::rd(a); Out::of(vec![c.$max()]) });
    ep!($reg, format!("{}_{}_bounds", p, ax), n, |a| { let c: $B = Flat::rd(a); let (lo, hi) = c.$bounds(); Out::of(vec![lo, hi]) });
}}; }
macro_rules! cubic_axis { ($reg:expr, $p:expr, $B:ty, $n:expr, $ax:expr, $infl:ident, $min:ident, $max:ident, $bounds:ident) => {{
    let n: usize = $n; let p = $p; let ax = $ax;
    ep!($reg, format!("{}_{}_inflections", p, ax), n, |a| { let c: $B = Flat::rd(a); opt2(c.$infl(), <T as num_traits::Zero>::zero()) });
    ep!($reg, format!("{}_min_{}", p, ax), n, |a| { let c: $B = Flat::rd(a); Out::of(vec![c.$min()]) });
    ep!($reg, format!("{}_max_{}", p, ax), n, |a| { let c: $B = Flat::rd(a); Out::of(vec![c.$max()]) });
    ep!($reg, format!("{}_{}_bounds", p, ax), n, |a| { let c: $B = Flat::rd(a); let (lo, hi) = c.$bounds(); Out::of(vec![lo, hi]) });
}}; }
macro_rules! any { ($reg:expr, $p:expr, $B:ty, $V:ty, $d:expr, $n:expr) => {{
    let n: usize = $n; let d: usize = $d; let p = $p;
    // bounding rectangle: one axis free at a time, the other axes pinned to the literals 0, 1, 2, ... (their bounds are then decided)
    for ax in 0..2usize {
        ep!($reg, format!("{}_aabr_axis{}", p, ax), n / d, |a| { <T as Lit>::fold_constants();
            let v: Vec<T> = (0..n).map(|k| if k % d == ax { a[k / d] } else { <T as Lit>::lit((k / d) as f64) }).collect();
            let c: $B = Flat::rd(&v); Out::of(c.aabr().flat()) });
    }
    for k in [0u16, 1, 2, 3].iter().cloned() {
        ep!($reg, format!("{}_length_{}", p, k), n, |a| { let c: $B = Flat::rd(a); Out::of(vec![c.length_by_discretization(k)]) });
    }
    // closest-point search, coarse phase only (half_interval 1/4 < epsilon 1/2 disables the refinement loop):
    // three caller-supplied samples (t_i, point_i)
    ep!($reg, format!("{}_search_coarse", p), n + d + 3 * (1 + d), |a| {
        let c: $B = Flat::rd(&a[..n]); let q: $V = Flat::rd(&a[n..n + d]); let mut k = n + d;
        let mut coarse = vec![]; for _ in 0..3 { let t = a[k]; let pt: $V = Flat::rd(&a[k + 1..k + 1 + d]); coarse.push((t, pt)); k += 1 + d; }
        let quarter = <T as Lit>::lit(0.25); let half = <T as Lit>::lit(0.5);
        let (t, pt) = c.binary_search_point(q, coarse, quarter, half); let mut o = vec![t]; o.extend(pt.flat()); Out::of(o) });
    ep!($reg, format!("{}_search_by_steps2", p), n + d, |a| { <T as Lit>::fold_constants();
        let c: $B = Flat::rd(&a[..n]); let q: $V = Flat::rd(&a[n..n + d]);
        let half = <T as Lit>::lit(0.5);
        let (t, pt) = c.binary_search_point_by_steps(q, 2, half); let mut o = vec![t]; o.extend(pt.flat()); Out::of(o) });
}}; }

fn reg_quad(reg: &mut Reg) {
    quad_axis!(reg, "quad2", QuadraticBezier2<T>, 6, "x", x_inflection, min_x, max_x, x_bounds);
    quad_axis!(reg, "quad2", QuadraticBezier2<T>, 6, "y", y_inflection, min_y, max_y, y_bounds);
    quad_axis!(reg, "quad3", QuadraticBezier3<T>, 9, "x", x_inflection, min_x, max_x, x_bounds);
    quad_axis!(reg, "quad3", QuadraticBezier3<T>, 9, "y", y_inflection, min_y, max_y, y_bounds);
    quad_axis!(reg, "quad3", QuadraticBezier3<T>, 9, "z", z_inflection, min_z, max_z, z_bounds);
    any!(reg, "quad2", QuadraticBezier2<T>, Vec2<T>, 2, 6); any!(reg, "quad3", QuadraticBezier3<T>, Vec3<T>, 3, 9);
    for ax in 0..3usize { ep!(reg, format!("quad3_aabb_axis{}", ax), 3, |a| { <T as Lit>::fold_constants();
        let v: Vec<T> = (0..9).map(|k| if k % 3 == ax { a[k / 3] } else { <T as Lit>::lit((k / 3) as f64) }).collect();
        let c: QuadraticBezier3<T> = Flat::rd(&v); Out::of(c.aabb().flat()) }); }
}
fn reg_cubic(reg: &mut Reg) {
    cubic_axis!(reg, "cubic2", CubicBezier2<T>, 8, "x", x_inflections, min_x, max_x, x_bounds);
    cubic_axis!(reg, "cubic2", CubicBezier2<T>, 8, "y", y_inflections, min_y, max_y, y_bounds);
    cubic_axis!(reg, "cubic3", CubicBezier3<T>, 12, "x", x_inflections, min_x, max_x, x_bounds);
    cubic_axis!(reg, "cubic3", CubicBezier3<T>, 12, "y", y_inflections, min_y, max_y, y_bounds);
    cubic_axis!(reg, "cubic3", CubicBezier3<T>, 12, "z", z_inflections, min_z, max_z, z_bounds);
    any!(reg, "cubic2", CubicBezier2<T>, Vec2<T>, 2, 8); any!(reg, "cubic3", CubicBezier3<T>, Vec3<T>, 3, 12);
    for ax in 0..3usize { ep!(reg, format!("cubic3_aabb_axis{}", ax), 4, |a| { <T as Lit>::fold_constants();
        let v: Vec<T> = (0..12).map(|k| if k % 3 == ax { a[k / 3] } else { <T as Lit>::lit((k / 3) as f64) }).collect();
        let c: CubicBezier3<T> = Flat::rd(&v); Out::of(c.aabb().flat()) }); }
}
pub fn register(reg: &mut Reg) { reg_quad(reg); reg_cubic(reg); }
