//! C08 — projection matrices.
use crate::reg::*;
use crate::explore::Out;
use crate::io::*;
use vek::geom::FrustumPlanes;
use vek::mat::repr_c::row_major as rm;
use vek::mat::repr_c::column_major as cm;

macro_rules! proj { ($reg:expr, $l:expr, $M:ty) => {{
    let p = format!("mat4{}", $l);
    macro_rules! fp { ($name:ident) => {
        ep!($reg, format!("{}_{}", p, stringify!($name)), 6, |a| {
            let o = FrustumPlanes { left: a[0], right: a[1], bottom: a[2], top: a[3], near: a[4], far: a[5] };
            Out::of(<$M>::$name(o).flat()) });
    } }
    fp!(orthographic_without_depth_planes); fp!(orthographic_lh_zo); fp!(orthographic_lh_no); fp!(orthographic_rh_zo); fp!(orthographic_rh_no);
    fp!(frustum_lh_zo); fp!(frustum_lh_no); fp!(frustum_rh_zo); fp!(frustum_rh_no);
    macro_rules! p4 { ($name:ident) => {
        ep!($reg, format!("{}_{}", p, stringify!($name)), 4, |a| { Out::of(<$M>::$name(a[0], a[1], a[2], a[3]).flat()) });
    } }
    p4!(perspective_rh_zo); p4!(perspective_lh_zo); p4!(perspective_rh_no); p4!(perspective_lh_no);
    p4!(tweaked_infinite_perspective_rh); p4!(tweaked_infinite_perspective_lh);
    macro_rules! p5 { ($name:ident) => {
        ep!($reg, format!("{}_{}", p, stringify!($name)), 5, |a| { Out::of(<$M>::$name(a[0], a[1], a[2], a[3], a[4]).flat()) });
    } }
    p5!(perspective_fov_rh_zo); p5!(perspective_fov_lh_zo); p5!(perspective_fov_rh_no); p5!(perspective_fov_lh_no);
    macro_rules! p3 { ($name:ident) => {
        ep!($reg, format!("{}_{}", p, stringify!($name)), 3, |a| { Out::of(<$M>::$name(a[0], a[1], a[2]).flat()) });
    } }
    p3!(infinite_perspective_rh); p3!(infinite_perspective_lh);
}}; }

pub fn register(reg: &mut Reg) {
    proj!(reg, "r", rm::Mat4<T>); proj!(reg, "c", cm::Mat4<T>);
}
