//! C10 — viewport projection, unprojection, picking matrix.
use crate::reg::*;
use crate::explore::Out;
use crate::io::*;
use vek::vec::repr_c::{Vec2, Vec3};
use vek::geom::repr_c::Rect;
use vek::mat::repr_c::row_major as rm;
use vek::mat::repr_c::column_major as cm;

macro_rules! vp { ($reg:expr, $l:expr, $M:ty) => {{
    let p = format!("mat4{}", $l);
    // inputs: obj(3), modelview(16), proj(16), viewport x,y,w,h (4)
    macro_rules! w2v { ($name:ident) => {
        ep!($reg, format!("{}_{}", p, stringify!($name)), 39, |a| {
            let o: Vec3<T> = Flat::rd(&a[0..3]); let mv: $M = Flat::rd(&a[3..19]); let pr: $M = Flat::rd(&a[19..35]);
            let r = Rect { x: a[35], y: a[36], w: a[37], h: a[38] };
            Out::of(<$M>::$name(o, mv, pr, r).flat()) });
    } }
    w2v!(world_to_viewport_no); w2v!(world_to_viewport_zo); w2v!(viewport_to_world_no); w2v!(viewport_to_world_zo);
    // inputs: center(2), delta(2), viewport(4)
    ep!($reg, format!("{}_picking_region", p), 8, |a| {
        let c: Vec2<T> = Flat::rd(&a[0..2]); let d: Vec2<T> = Flat::rd(&a[2..4]); let r = Rect { x: a[4], y: a[5], w: a[6], h: a[7] };
        Out::of(<$M>::picking_region(c, d, r).flat()) });
    // building blocks of the unprojection, for the compositional proof
    ep!($reg, format!("{}_mul", p), 32, |a| { let x: $M = Flat::rd(&a[..16]); let y: $M = Flat::rd(&a[16..]); Out::of((x * y).flat()) });
    ep!($reg, format!("{}_inverted", p), 16, |a| { let x: $M = Flat::rd(a); Out::of(x.inverted().flat()) });
}}; }

pub fn register(reg: &mut Reg) {
    vp!(reg, "r", rm::Mat4<T>); vp!(reg, "c", cm::Mat4<T>);
}
