//! C05 — quaternion algebra, application to vectors, rotation_from_to, angle-axis extraction.
use crate::reg::*;
use crate::explore::Out;
use crate::io::*;
use vek::vec::repr_c::{Vec3, Vec4};
use vek::quaternion::repr_c::Quaternion;
use vek::mat::repr_c::row_major as rm;
use vek::mat::repr_c::column_major as cm;

pub fn register(reg: &mut Reg) {
    type Q<T> = Quaternion<T>;
    ep!(reg, "quat_mul".to_string(), 8, |a| { let p: Q<T> = Flat::rd(&a[..4]); let q: Q<T> = Flat::rd(&a[4..]); Out::of((p * q).flat()) });
    ep!(reg, "quat_add".to_string(), 8, |a| { let p: Q<T> = Flat::rd(&a[..4]); let q: Q<T> = Flat::rd(&a[4..]); Out::of((p + q).flat()) });
    ep!(reg, "quat_sub".to_string(), 8, |a| { let p: Q<T> = Flat::rd(&a[..4]); let q: Q<T> = Flat::rd(&a[4..]); Out::of((p - q).flat()) });
    ep!(reg, "quat_neg".to_string(), 4, |a| { let p: Q<T> = Flat::rd(a); Out::of((-p).flat()) });
    ep!(reg, "quat_muls".to_string(), 5, |a| { let p: Q<T> = Flat::rd(&a[..4]); Out::of((p * a[4]).flat()) });
    ep!(reg, "quat_divs".to_string(), 5, |a| { let p: Q<T> = Flat::rd(&a[..4]); Out::of((p / a[4]).flat()) });
    ep!(reg, "quat_conjugate".to_string(), 4, |a| { let p: Q<T> = Flat::rd(a); Out::of(p.conjugate().flat()) });
    ep!(reg, "quat_inverse".to_string(), 4, |a| { let p: Q<T> = Flat::rd(a); Out::of(p.inverse().flat()) });
    ep!(reg, "quat_dot".to_string(), 8, |a| { let p: Q<T> = Flat::rd(&a[..4]); let q: Q<T> = Flat::rd(&a[4..]); Out::of(vec![p.dot(q)]) });
    ep!(reg, "quat_normalized".to_string(), 4, |a| { let p: Q<T> = Flat::rd(a); Out::of(p.normalized().flat()) });
    ep!(reg, "quat_magnitude".to_string(), 4, |a| { let p: Q<T> = Flat::rd(a); Out::of(vec![p.magnitude()]) });
    ep!(reg, "quat_magnitude_squared".to_string(), 4, |a| { let p: Q<T> = Flat::rd(a); Out::of(vec![p.magnitude_squared()]) });
    ep!(reg, "quat_identity".to_string(), 0, |a| { let _ = a; Out::of(Q::<T>::identity().flat()) });
    ep!(reg, "quat_default".to_string(), 0, |a| { let _ = a; Out::of(<Q<T> as Default>::default().flat()) });
    ep!(reg, "quat_zero".to_string(), 0, |a| { let _ = a; Out::of(Q::<T>::zero().flat()) });
    ep!(reg, "quat_mul_vec3".to_string(), 7, |a| { let q: Q<T> = Flat::rd(&a[..4]); let v: Vec3<T> = Flat::rd(&a[4..]); Out::of((q * v).flat()) });
    ep!(reg, "quat_mul_vec4".to_string(), 8, |a| { let q: Q<T> = Flat::rd(&a[..4]); let v: Vec4<T> = Flat::rd(&a[4..]); Out::of((q * v).flat()) });
    ep!(reg, "quat_rotation_from_to_3d".to_string(), 6, |a| { let u: Vec3<T> = Flat::rd(&a[..3]); let v: Vec3<T> = Flat::rd(&a[3..]); Out::of(Q::<T>::rotation_from_to_3d(u, v).flat()) });
    ep!(reg, "quat_into_angle_axis".to_string(), 4, |a| { let q: Q<T> = Flat::rd(a); let (ang, ax) = q.into_angle_axis(); let mut o = vec![ang]; ax.wr(&mut o); Out::of(o) });
    // conversions
    ep!(reg, "quat_from_xyzw".to_string(), 4, |a| { Out::of(Q::<T>::from_xyzw(a[0], a[1], a[2], a[3]).flat()) });
    ep!(reg, "quat_from_scalar_and_vec3".to_string(), 4, |a| { let v: Vec3<T> = Flat::rd(&a[1..]); Out::of(Q::<T>::from_scalar_and_vec3((a[0], v)).flat()) });
    ep!(reg, "quat_into_scalar_and_vec3".to_string(), 4, |a| { let q: Q<T> = Flat::rd(a); let (s, v) = q.into_scalar_and_vec3(); let mut o = vec![s]; v.wr(&mut o); Out::of(o) });
    ep!(reg, "quat_into_vec4".to_string(), 4, |a| { let q: Q<T> = Flat::rd(a); Out::of(q.into_vec4().flat()) });
    ep!(reg, "quat_from_vec4".to_string(), 4, |a| { let v: Vec4<T> = Flat::rd(a); Out::of(Q::<T>::from_vec4(v).flat()) });
    ep!(reg, "quat_into_vec3".to_string(), 4, |a| { let q: Q<T> = Flat::rd(a); Out::of(q.into_vec3().flat()) });
    ep!(reg, "vec4_from_quat".to_string(), 4, |a| { let q: Q<T> = Flat::rd(a); Out::of(Vec4::<T>::from(q).flat()) });
    ep!(reg, "quat_from_vec4_trait".to_string(), 4, |a| { let v: Vec4<T> = Flat::rd(a); Out::of(<Q<T> as From<Vec4<T>>>::from(v).flat()) });
    // matrices from quaternions / from direction pairs
    ep!(reg, "mat3r_from_quaternion".to_string(), 4, |a| { let q: Q<T> = Flat::rd(a); Out::of(rm::Mat3::<T>::from(q).flat()) });
    ep!(reg, "mat3c_from_quaternion".to_string(), 4, |a| { let q: Q<T> = Flat::rd(a); Out::of(cm::Mat3::<T>::from(q).flat()) });
    ep!(reg, "mat4r_from_quaternion".to_string(), 4, |a| { let q: Q<T> = Flat::rd(a); Out::of(rm::Mat4::<T>::from(q).flat()) });
    ep!(reg, "mat4c_from_quaternion".to_string(), 4, |a| { let q: Q<T> = Flat::rd(a); Out::of(cm::Mat4::<T>::from(q).flat()) });
    ep!(reg, "mat3r_rotation_from_to_3d".to_string(), 6, |a| { let u: Vec3<T> = Flat::rd(&a[..3]); let v: Vec3<T> = Flat::rd(&a[3..]); Out::of(rm::Mat3::<T>::rotation_from_to_3d(u, v).flat()) });
    ep!(reg, "mat3c_rotation_from_to_3d".to_string(), 6, |a| { let u: Vec3<T> = Flat::rd(&a[..3]); let v: Vec3<T> = Flat::rd(&a[3..]); Out::of(cm::Mat3::<T>::rotation_from_to_3d(u, v).flat()) });
    ep!(reg, "mat4r_rotation_from_to_3d".to_string(), 6, |a| { let u: Vec3<T> = Flat::rd(&a[..3]); let v: Vec3<T> = Flat::rd(&a[3..]); Out::of(rm::Mat4::<T>::rotation_from_to_3d(u, v).flat()) });
    ep!(reg, "mat4c_rotation_from_to_3d".to_string(), 6, |a| { let u: Vec3<T> = Flat::rd(&a[..3]); let v: Vec3<T> = Flat::rd(&a[3..]); Out::of(cm::Mat4::<T>::rotation_from_to_3d(u, v).flat()) });
}
