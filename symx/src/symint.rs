//! Symbolic machine integers: the same DAG as `Sym`, behind newtypes that implement exactly what the
//! integer macro bodies of ops.rs use. Signedness/width/overflow mode are chosen by the interpretation
//! (Coq: MachineInt.v; Rust self-check: `eval_int` below).
#![allow(dead_code)]
use crate::sym::*;
use crate::explore::*;
use std::ops::*;
use std::collections::HashMap;
use num_traits::{Zero, One};

macro_rules! symint {
    ($S:ident) => {
        #[derive(Clone, Copy)] pub struct $S(pub Sym);
        impl std::fmt::Debug for $S { fn fmt(&self, f: &mut std::fmt::Formatter) -> std::fmt::Result { write!(f, "{:?}", self.0) } }
        impl PartialEq for $S { fn eq(&self, o: &$S) -> bool { self.0 == o.0 } }
        impl Eq for $S {}
        impl PartialOrd for $S {
            fn partial_cmp(&self, o: &$S) -> Option<std::cmp::Ordering> { Some(self.cmp(o)) }
            fn lt(&self, o: &$S) -> bool { self.0 < o.0 }
            fn gt(&self, o: &$S) -> bool { self.0 > o.0 }
            fn le(&self, o: &$S) -> bool { self.0 <= o.0 }
            fn ge(&self, o: &$S) -> bool { self.0 >= o.0 }
        }
        impl Ord for $S {
            fn cmp(&self, o: &$S) -> std::cmp::Ordering { self.0.cmp(&o.0) }
            fn min(self, o: $S) -> $S { $S(Ord::min(self.0, o.0)) }
            fn max(self, o: $S) -> $S { $S(Ord::max(self.0, o.0)) }
        }
        impl Add for $S { type Output = $S; fn add(self, o: $S) -> $S { $S(self.0 + o.0) } }
        impl Sub for $S { type Output = $S; fn sub(self, o: $S) -> $S { $S(self.0 - o.0) } }
        impl Mul for $S { type Output = $S; fn mul(self, o: $S) -> $S { $S(self.0 * o.0) } }
        impl Div for $S { type Output = $S; fn div(self, o: $S) -> $S { $S(self.0 / o.0) } }
        impl Rem for $S { type Output = $S; fn rem(self, o: $S) -> $S { $S(self.0 % o.0) } }
        impl AddAssign for $S { fn add_assign(&mut self, o: $S) { *self = *self + o; } }
        impl SubAssign for $S { fn sub_assign(&mut self, o: $S) { *self = *self - o; } }
        impl Zero for $S { fn zero() -> $S { $S(Sym::c(0.0)) } fn is_zero(&self) -> bool { self.0 == Sym::c(0.0) } }
        impl One for $S { fn one() -> $S { $S(Sym::c(1.0)) } }
    }
}
symint!(SymS);
symint!(SymU);
impl Neg for SymS { type Output = SymS; fn neg(self) -> SymS { SymS(-self.0) } }

/// concrete evaluation of a recorded tree under machine-integer semantics
/// (`debug`: arithmetic overflow panics, as in a build with overflow checks; otherwise wraps)
pub struct IntSem { pub signed: bool, pub width: u32, pub debug: bool }
impl IntSem {
    pub fn min(&self) -> i128 { if self.signed { -(1i128 << (self.width - 1)) } else { 0 } }
    pub fn max(&self) -> i128 { if self.signed { (1i128 << (self.width - 1)) - 1 } else { (1i128 << self.width) - 1 } }
    fn norm(&self, x: i128) -> Option<i128> {
        if x >= self.min() && x <= self.max() { return Some(x); }
        if self.debug { return None; }
        let m = 1i128 << self.width; let mut y = x.rem_euclid(m); if self.signed && y > self.max() { y -= m; } Some(y)
    }
}
pub struct EvI<'a> { pub env: &'a [i64], pub memo: HashMap<u32, Option<i128>>, pub nodes: &'a [Node], pub sem: &'a IntSem }
impl<'a> EvI<'a> {
    pub fn val(&mut self, i: u32) -> Option<i128> {
        if let Some(v) = self.memo.get(&i) { return *v; }
        let n = self.nodes[i as usize].clone();
        let v = match n {
            Node::Var(k) => Some(self.env[k as usize] as i128),
            Node::Const(b) => Some(f64::from_bits(b) as i128),
            Node::Named("maxv") => Some(self.sem.max()),
            Node::Named("minv") => Some(self.sem.min()),
            Node::Un(Op1::Neg, a) => self.val(a).and_then(|x| self.sem.norm(-x)),
            Node::Bin(op, a, b) => { let x = self.val(a); let y = self.val(b); match (x, y) { (Some(x), Some(y)) => match op {
                Op2::Add => self.sem.norm(x + y), Op2::Sub => self.sem.norm(x - y), Op2::Mul => self.sem.norm(x * y),
                Op2::Div => if y == 0 || (self.sem.signed && x == self.sem.min() && y == -1) { None } else { Some(x / y) },
                Op2::Rem => if y == 0 || (self.sem.signed && x == self.sem.min() && y == -1) { None } else { Some(x % y) },
                Op2::Min => Some(x.min(y)), Op2::Max => Some(x.max(y)), _ => panic!("int op") }, _ => None } }
            _ => panic!("unsupported node in integer evaluation"),
        };
        self.memo.insert(i, v); v
    }
    /// None = panic
    pub fn tree(&mut self, t: &Tree) -> Option<Out<i64>> {
        match t {
            Tree::Panic(_) | Tree::Cut => None,
            Tree::Ret(o) => { let mut vals = vec![]; for v in &o.vals { vals.push(self.val(*v)? as i64); } Some(Out { flags: o.flags.clone(), vals }) }
            Tree::If(c, a, b) => { let x = self.val(c.a)?; let y = self.val(c.b)?;
                let r = match c.kind { CondKind::Lt => x < y, CondKind::Eq => x == y }; if r { self.tree(a) } else { self.tree(b) } }
        }
    }
}

// colour components: full() is the type's MAX
impl vek::ops::ColorComponent for SymS { fn full() -> SymS { SymS(Sym::named("maxv")) } }
impl vek::ops::ColorComponent for SymU { fn full() -> SymU { SymU(Sym::named("maxv")) } }
impl From<Sym> for SymS { fn from(s: Sym) -> SymS { SymS(s) } }
impl From<Sym> for SymU { fn from(s: Sym) -> SymU { SymU(s) } }
