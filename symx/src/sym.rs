//! Symbolic scalar: a `Copy` handle into a hash-consed expression DAG.
//! Running vek's generic code on `Sym` records the formula it computes.
#![allow(dead_code)]

use std::cell::RefCell;
use std::collections::HashMap;
use std::fmt;
use std::ops::*;

#[derive(Clone, Copy, PartialEq, Eq, Hash, Debug, PartialOrd, Ord)]
pub enum Op1 {
    Neg, Sqrt, Sin, Cos, Tan, Asin, Acos, Atan, Floor, Ceil, Round, Trunc, Abs, Signum, Exp, Ln, Not,
}
#[derive(Clone, Copy, PartialEq, Eq, Hash, Debug, PartialOrd, Ord)]
pub enum Op2 {
    Add, Sub, Mul, Div, Rem, Min, Max, Atan2, Powf, Shl, Shr, And, Or, Xor,
}

#[derive(Clone, PartialEq, Eq, Hash, Debug)]
pub enum Node {
    Var(u32),
    /// constant, stored as f64 bits (all constants in vek are small literals)
    Const(u64),
    Named(&'static str),
    Un(Op1, u32),
    Bin(Op2, u32, u32),
    Fma(u32, u32, u32),
    Powi(u32, i32),
    /// abstract (uninterpreted) function number `id` applied to arguments
    Fun(u32, Vec<u32>),
}

#[derive(Clone, Copy, PartialEq, Eq, Hash, Debug)]
pub enum CondKind { Lt, Eq }

#[derive(Clone, Copy, PartialEq, Eq, Hash, Debug)]
pub struct Cond { pub kind: CondKind, pub a: u32, pub b: u32 }

#[derive(Default)]
pub struct Ctx {
    pub nodes: Vec<Node>,
    pub intern: HashMap<Node, u32>,
    pub forced: Vec<bool>,
    pub path: Vec<(Cond, bool)>,
    pub decisions_budget_hit: bool,
    pub max_depth: usize,
    /// nodes created (or re-requested) on the current path, in order (used by integer mode)
    pub touched: Vec<u32>,
    pub fun_used: bool,
    /// fold arithmetic on literal constants (used by entries that pin some inputs to literals)
    pub fold: bool,
    /// integer mode: Rust evaluates eagerly, so every arithmetic node computed on a path must be defined on it even when
    /// no decision or result of that path uses it (set by the integer entry points, read by the explorer)
    pub eager: bool,
}

thread_local! {
    pub static CTX: RefCell<Ctx> = RefCell::new(Ctx { max_depth: 4096, ..Default::default() });
}

pub fn set_eager(b: bool) { CTX.with(|c| c.borrow_mut().eager = b); }

pub fn reset_arena() {
    CTX.with(|c| {
        let mut c = c.borrow_mut();
        c.nodes.clear();
        c.intern.clear();
        c.forced.clear();
        c.path.clear();
        c.touched.clear();
        c.fun_used = false;
        c.fold = false;
        c.decisions_budget_hit = false;
    });
}

pub fn set_fold(on: bool) { CTX.with(|c| c.borrow_mut().fold = on); }
fn folded(c: &Ctx, n: &Node) -> Option<f64> {
    if !c.fold { return None; }
    let k = |i: u32| -> Option<f64> { match c.nodes[i as usize] { Node::Const(b) => Some(f64::from_bits(b)), _ => None } };
    let v = match n {
        Node::Bin(op, a, b) => { let (x, y) = (k(*a)?, k(*b)?); match op { Op2::Add => x + y, Op2::Sub => x - y, Op2::Mul => x * y, Op2::Div => if y != 0.0 { x / y } else { return None }, _ => return None } }
        Node::Un(Op1::Neg, a) => -k(*a)?,
        Node::Un(Op1::Abs, a) => k(*a)?.abs(),
        _ => return None,
    };
    // only exact results (dyadic values of moderate size) are folded
    if v.is_finite() && (v * 1048576.0).fract() == 0.0 && v.abs() < 1e9 { Some(v) } else { None }
}
pub fn mk(n: Node) -> Sym {
    let n = { let f = CTX.with(|c| folded(&c.borrow(), &n)); match f { Some(v) => Node::Const((if v == 0.0 { 0.0 } else { v }).to_bits()), None => n } };
    CTX.with(|c| {
        let mut c = c.borrow_mut();
        if let Some(&i) = c.intern.get(&n) {
            c.touched.push(i);
            return Sym(i);
        }
        let i = c.nodes.len() as u32;
        if let Node::Fun(..) = n { c.fun_used = true; }
        c.nodes.push(n.clone());
        c.intern.insert(n, i);
        c.touched.push(i);
        Sym(i)
    })
}

pub fn node(i: u32) -> Node { CTX.with(|c| c.borrow().nodes[i as usize].clone()) }

pub fn const_of(i: u32) -> Option<f64> {
    match node(i) { Node::Const(b) => Some(f64::from_bits(b)), _ => None }
}

#[derive(Clone, Copy, Hash)]
pub struct Sym(pub u32);

impl Sym {
    pub fn var(i: u32) -> Sym { mk(Node::Var(i)) }
    pub fn c(x: f64) -> Sym {
        assert!(x.is_finite(), "symx: unsupported non-finite constant");
        let x = if x == 0.0 { 0.0 } else { x };
        mk(Node::Const(x.to_bits()))
    }
    pub fn named(s: &'static str) -> Sym { mk(Node::Named(s)) }
    pub fn is_const(&self) -> bool { const_of(self.0).is_some() }
    pub fn un(op: Op1, a: Sym) -> Sym { mk(Node::Un(op, a.0)) }
    pub fn bin(op: Op2, a: Sym, b: Sym) -> Sym { mk(Node::Bin(op, a.0, b.0)) }
    pub fn fun(id: u32, args: &[Sym]) -> Sym { mk(Node::Fun(id, args.iter().map(|s| s.0).collect())) }
}

/// Ask the explorer for the outcome of a comparison.
pub fn decide(kind: CondKind, a: Sym, b: Sym) -> bool {
    // trivial cases
    if a.0 == b.0 { return kind == CondKind::Eq; }
    if let (Some(x), Some(y)) = (const_of(a.0), const_of(b.0)) {
        return match kind { CondKind::Lt => x < y, CondKind::Eq => x == y };
    }
    let (a, b) = if kind == CondKind::Eq && a.0 > b.0 { (b, a) } else { (a, b) };
    let cond = Cond { kind, a: a.0, b: b.0 };
    CTX.with(|c| {
        let mut c = c.borrow_mut();
        // already decided or implied by total-order reasoning on the current path?
        let mut lt_ab = None; let mut lt_ba = None; let mut eq_ab = None;
        for (k, out) in c.path.iter() {
            if k.kind == CondKind::Lt && k.a == a.0 && k.b == b.0 { lt_ab = Some(*out); }
            if k.kind == CondKind::Lt && k.a == b.0 && k.b == a.0 { lt_ba = Some(*out); }
            if k.kind == CondKind::Eq && ((k.a == a.0 && k.b == b.0) || (k.a == b.0 && k.b == a.0)) { eq_ab = Some(*out); }
        }
        match kind {
            CondKind::Lt => {
                if let Some(o) = lt_ab { return o; }
                if lt_ba == Some(true) { return false; }
                if eq_ab == Some(true) { return false; }
                if lt_ba == Some(false) && eq_ab == Some(false) { return true; }
            }
            CondKind::Eq => {
                if let Some(o) = eq_ab { return o; }
                if lt_ab == Some(true) || lt_ba == Some(true) { return false; }
                if lt_ab == Some(false) && lt_ba == Some(false) { return true; }
            }
        }
        let pos = c.path.len();
        if pos >= c.max_depth { c.decisions_budget_hit = true; panic!("symx: decision depth budget exceeded"); }
        let out = if pos < c.forced.len() { c.forced[pos] } else { true };
        c.path.push((cond, out));
        out
    })
}

impl PartialEq for Sym { fn eq(&self, o: &Sym) -> bool { decide(CondKind::Eq, *self, *o) } }
impl Eq for Sym {}
impl PartialOrd for Sym {
    fn partial_cmp(&self, o: &Sym) -> Option<std::cmp::Ordering> { Some(self.cmp(o)) }
    fn lt(&self, o: &Sym) -> bool { decide(CondKind::Lt, *self, *o) }
    fn gt(&self, o: &Sym) -> bool { decide(CondKind::Lt, *o, *self) }
    fn le(&self, o: &Sym) -> bool { !decide(CondKind::Lt, *o, *self) }
    fn ge(&self, o: &Sym) -> bool { !decide(CondKind::Lt, *self, *o) }
}
impl Ord for Sym {
    fn cmp(&self, o: &Sym) -> std::cmp::Ordering {
        if decide(CondKind::Lt, *self, *o) { std::cmp::Ordering::Less }
        else if decide(CondKind::Eq, *self, *o) { std::cmp::Ordering::Equal }
        else { std::cmp::Ordering::Greater }
    }
    fn min(self, o: Sym) -> Sym { Sym::bin(Op2::Min, self, o) }
    fn max(self, o: Sym) -> Sym { Sym::bin(Op2::Max, self, o) }
}

impl Default for Sym { fn default() -> Sym { Sym::c(0.0) } }
impl fmt::Debug for Sym { fn fmt(&self, f: &mut fmt::Formatter) -> fmt::Result { write!(f, "n{}", self.0) } }
/// symbols print as `n<id>`; the formatting parameters the caller passed down (sign, width, precision, `#`) are made
/// visible as a suffix `[+#w<width>p<precision>]`, so that a container's `Display` that drops them is observable
impl fmt::Display for Sym { fn fmt(&self, f: &mut fmt::Formatter) -> fmt::Result {
    write!(f, "n{}", self.0)?;
    if f.sign_plus() || f.alternate() || f.width().is_some() || f.precision().is_some() {
        write!(f, "[")?;
        if f.sign_plus() { write!(f, "+")?; }
        if f.alternate() { write!(f, "#")?; }
        if let Some(w) = f.width() { write!(f, "w{}", w)?; }
        if let Some(p) = f.precision() { write!(f, "p{}", p)?; }
        write!(f, "]")?;
    }
    Ok(())
} }

macro_rules! binop {
    ($Tr:ident $m:ident $TrA:ident $ma:ident $op:expr) => {
        impl $Tr for Sym { type Output = Sym; fn $m(self, o: Sym) -> Sym { Sym::bin($op, self, o) } }
        impl<'a> $Tr<&'a Sym> for Sym { type Output = Sym; fn $m(self, o: &Sym) -> Sym { Sym::bin($op, self, *o) } }
        impl<'a> $Tr<Sym> for &'a Sym { type Output = Sym; fn $m(self, o: Sym) -> Sym { Sym::bin($op, *self, o) } }
        impl<'a, 'b> $Tr<&'b Sym> for &'a Sym { type Output = Sym; fn $m(self, o: &Sym) -> Sym { Sym::bin($op, *self, *o) } }
        impl $TrA for Sym { fn $ma(&mut self, o: Sym) { *self = Sym::bin($op, *self, o); } }
        impl<'a> $TrA<&'a Sym> for Sym { fn $ma(&mut self, o: &Sym) { *self = Sym::bin($op, *self, *o); } }
    }
}
binop!(Add add AddAssign add_assign Op2::Add);
binop!(Sub sub SubAssign sub_assign Op2::Sub);
binop!(Mul mul MulAssign mul_assign Op2::Mul);
binop!(Div div DivAssign div_assign Op2::Div);
binop!(Rem rem RemAssign rem_assign Op2::Rem);
binop!(Shl shl ShlAssign shl_assign Op2::Shl);
binop!(Shr shr ShrAssign shr_assign Op2::Shr);
binop!(BitAnd bitand BitAndAssign bitand_assign Op2::And);
binop!(BitOr bitor BitOrAssign bitor_assign Op2::Or);
binop!(BitXor bitxor BitXorAssign bitxor_assign Op2::Xor);

impl Neg for Sym { type Output = Sym; fn neg(self) -> Sym { Sym::un(Op1::Neg, self) } }
impl<'a> Neg for &'a Sym { type Output = Sym; fn neg(self) -> Sym { Sym::un(Op1::Neg, *self) } }
impl Not for Sym { type Output = Sym; fn not(self) -> Sym { Sym::un(Op1::Not, self) } }
impl<'a> Not for &'a Sym { type Output = Sym; fn not(self) -> Sym { Sym::un(Op1::Not, *self) } }

impl std::iter::Sum for Sym {
    fn sum<I: Iterator<Item = Sym>>(iter: I) -> Sym { iter.fold(Sym::c(0.0), |a, b| a + b) }
}
impl std::iter::Product for Sym {
    fn product<I: Iterator<Item = Sym>>(iter: I) -> Sym { iter.fold(Sym::c(1.0), |a, b| a * b) }
}

use num_traits::{Zero, One, Num, NumCast, ToPrimitive, Float, FloatConst, Signed, Bounded, AsPrimitive};

impl Zero for Sym {
    fn zero() -> Sym { Sym::c(0.0) }
    fn is_zero(&self) -> bool { *self == Sym::c(0.0) }
}
impl One for Sym { fn one() -> Sym { Sym::c(1.0) } }
impl Num for Sym {
    type FromStrRadixErr = ();
    fn from_str_radix(_: &str, _: u32) -> Result<Sym, ()> { panic!("symx: unsupported from_str_radix") }
}
impl ToPrimitive for Sym {
    fn to_i64(&self) -> Option<i64> { const_of(self.0).and_then(|x| x.to_i64()).or_else(|| panic!("symx: unsupported to_i64 on symbolic value")) }
    fn to_u64(&self) -> Option<u64> { const_of(self.0).and_then(|x| x.to_u64()).or_else(|| panic!("symx: unsupported to_u64 on symbolic value")) }
    fn to_f64(&self) -> Option<f64> { const_of(self.0).or_else(|| panic!("symx: unsupported to_f64 on symbolic value")) }
}
impl NumCast for Sym {
    fn from<N: ToPrimitive>(n: N) -> Option<Sym> { n.to_f64().map(Sym::c) }
}
macro_rules! as_prim { ($($t:ty)+) => { $(
    impl AsPrimitive<Sym> for $t { fn as_(self) -> Sym { Sym::c(self as f64) } }
)+ } }
as_prim!(u8 u16 u32 u64 usize i8 i16 i32 i64 isize f32 f64);
impl AsPrimitive<Sym> for Sym { fn as_(self) -> Sym { self } }
impl From<u8> for Sym { fn from(x: u8) -> Sym { Sym::c(x as f64) } }
impl From<u16> for Sym { fn from(x: u16) -> Sym { Sym::c(x as f64) } }
impl From<i16> for Sym { fn from(x: i16) -> Sym { Sym::c(x as f64) } }
impl From<f32> for Sym { fn from(x: f32) -> Sym { Sym::c(x as f64) } }

impl Signed for Sym {
    fn abs(&self) -> Sym { Sym::un(Op1::Abs, *self) }
    fn abs_sub(&self, _o: &Sym) -> Sym { panic!("symx: unsupported abs_sub") }
    fn signum(&self) -> Sym { Sym::un(Op1::Signum, *self) }
    fn is_positive(&self) -> bool { decide(CondKind::Lt, Sym::c(0.0), *self) }
    fn is_negative(&self) -> bool { decide(CondKind::Lt, *self, Sym::c(0.0)) }
}
impl Bounded for Sym {
    fn min_value() -> Sym { Sym::named("minv") }
    fn max_value() -> Sym { Sym::named("maxv") }
}

impl Float for Sym {
    fn nan() -> Sym { panic!("symx: unsupported nan") }
    fn infinity() -> Sym { Sym::named("inf") }
    fn neg_infinity() -> Sym { -Sym::named("inf") }
    fn neg_zero() -> Sym { Sym::c(0.0) }
    fn min_value() -> Sym { Sym::named("minv") }
    fn min_positive_value() -> Sym { Sym::named("minpos") }
    fn max_value() -> Sym { Sym::named("maxv") }
    fn epsilon() -> Sym { Sym::named("eps") }
    fn is_nan(self) -> bool { false }
    fn is_infinite(self) -> bool { false }
    fn is_finite(self) -> bool { true }
    fn is_normal(self) -> bool { panic!("symx: unsupported is_normal") }
    fn classify(self) -> std::num::FpCategory { panic!("symx: unsupported classify") }
    fn floor(self) -> Sym { Sym::un(Op1::Floor, self) }
    fn ceil(self) -> Sym { Sym::un(Op1::Ceil, self) }
    fn round(self) -> Sym { Sym::un(Op1::Round, self) }
    fn trunc(self) -> Sym { Sym::un(Op1::Trunc, self) }
    fn fract(self) -> Sym { self - Sym::un(Op1::Trunc, self) }
    fn abs(self) -> Sym { Sym::un(Op1::Abs, self) }
    fn signum(self) -> Sym { Sym::un(Op1::Signum, self) }
    fn is_sign_positive(self) -> bool { !decide(CondKind::Lt, self, Sym::c(0.0)) }
    fn is_sign_negative(self) -> bool { decide(CondKind::Lt, self, Sym::c(0.0)) }
    fn mul_add(self, a: Sym, b: Sym) -> Sym { mk(Node::Fma(self.0, a.0, b.0)) }
    fn recip(self) -> Sym { Sym::c(1.0) / self }
    fn powi(self, n: i32) -> Sym { mk(Node::Powi(self.0, n)) }
    fn powf(self, n: Sym) -> Sym { Sym::bin(Op2::Powf, self, n) }
    fn sqrt(self) -> Sym { Sym::un(Op1::Sqrt, self) }
    fn exp(self) -> Sym { Sym::un(Op1::Exp, self) }
    fn exp2(self) -> Sym { panic!("symx: unsupported exp2") }
    fn ln(self) -> Sym { Sym::un(Op1::Ln, self) }
    fn log(self, _b: Sym) -> Sym { panic!("symx: unsupported log") }
    fn log2(self) -> Sym { panic!("symx: unsupported log2") }
    fn log10(self) -> Sym { panic!("symx: unsupported log10") }
    fn max(self, o: Sym) -> Sym { Sym::bin(Op2::Max, self, o) }
    fn min(self, o: Sym) -> Sym { Sym::bin(Op2::Min, self, o) }
    fn abs_sub(self, _o: Sym) -> Sym { panic!("symx: unsupported abs_sub") }
    fn cbrt(self) -> Sym { panic!("symx: unsupported cbrt") }
    fn hypot(self, _o: Sym) -> Sym { panic!("symx: unsupported hypot") }
    fn sin(self) -> Sym { Sym::un(Op1::Sin, self) }
    fn cos(self) -> Sym { Sym::un(Op1::Cos, self) }
    fn tan(self) -> Sym { Sym::un(Op1::Tan, self) }
    fn asin(self) -> Sym { Sym::un(Op1::Asin, self) }
    fn acos(self) -> Sym { Sym::un(Op1::Acos, self) }
    fn atan(self) -> Sym { Sym::un(Op1::Atan, self) }
    fn atan2(self, o: Sym) -> Sym { Sym::bin(Op2::Atan2, self, o) }
    fn sin_cos(self) -> (Sym, Sym) { (Sym::un(Op1::Sin, self), Sym::un(Op1::Cos, self)) }
    fn exp_m1(self) -> Sym { panic!("symx: unsupported exp_m1") }
    fn ln_1p(self) -> Sym { panic!("symx: unsupported ln_1p") }
    fn sinh(self) -> Sym { panic!("symx: unsupported sinh") }
    fn cosh(self) -> Sym { panic!("symx: unsupported cosh") }
    fn tanh(self) -> Sym { panic!("symx: unsupported tanh") }
    fn asinh(self) -> Sym { panic!("symx: unsupported asinh") }
    fn acosh(self) -> Sym { panic!("symx: unsupported acosh") }
    fn atanh(self) -> Sym { panic!("symx: unsupported atanh") }
    fn integer_decode(self) -> (u64, i16, i8) { panic!("symx: unsupported integer_decode") }
    fn to_degrees(self) -> Sym { self * (Sym::c(180.0) / Sym::named("pi")) }
    fn to_radians(self) -> Sym { self * (Sym::named("pi") / Sym::c(180.0)) }
}

macro_rules! fc_unsupported { ($($n:ident)+) => { $( fn $n() -> Sym { panic!(concat!("symx: unsupported FloatConst ", stringify!($n))) } )+ } }
impl FloatConst for Sym {
    fn PI() -> Sym { Sym::named("pi") }
    fn FRAC_PI_2() -> Sym { Sym::named("pi") / Sym::c(2.0) }
    fn FRAC_PI_4() -> Sym { Sym::named("pi") / Sym::c(4.0) }
    fn TAU() -> Sym { Sym::c(2.0) * Sym::named("pi") }
    fc_unsupported!(E FRAC_1_PI FRAC_1_SQRT_2 FRAC_2_PI FRAC_2_SQRT_PI FRAC_PI_3 FRAC_PI_6 FRAC_PI_8 LN_10 LN_2 LOG10_E LOG2_E SQRT_2);
}

impl num_traits::MulAdd<Sym, Sym> for Sym {
    type Output = Sym;
    fn mul_add(self, a: Sym, b: Sym) -> Sym { mk(Node::Fma(self.0, a.0, b.0)) }
}
impl num_traits::MulAddAssign<Sym, Sym> for Sym {
    fn mul_add_assign(&mut self, a: Sym, b: Sym) { *self = mk(Node::Fma(self.0, a.0, b.0)); }
}

// approx: exact-arithmetic restatement of the float implementations
impl approx::AbsDiffEq for Sym {
    type Epsilon = Sym;
    fn default_epsilon() -> Sym { Sym::named("eps") }
    fn abs_diff_eq(&self, other: &Sym, epsilon: Sym) -> bool {
        // approx: (if self > other { self - other } else { other - self }) <= epsilon
        let d = if *self > *other { *self - *other } else { *other - *self };
        d <= epsilon
    }
}
impl approx::RelativeEq for Sym {
    fn default_max_relative() -> Sym { Sym::named("eps") }
    fn relative_eq(&self, other: &Sym, epsilon: Sym, max_relative: Sym) -> bool {
        // approx 0.5 float impl without the infinite/NaN handling (not expressible in exact arithmetic)
        if *self == *other { return true; }
        let abs_diff = Float::abs(*self - *other);
        if abs_diff <= epsilon { return true; }
        let abs_self = Float::abs(*self);
        let abs_other = Float::abs(*other);
        let largest = if abs_other > abs_self { abs_other } else { abs_self };
        abs_diff <= largest * max_relative
    }
}
impl approx::UlpsEq for Sym {
    fn default_max_ulps() -> u32 { 4 }
    fn ulps_eq(&self, other: &Sym, epsilon: Sym, _max_ulps: u32) -> bool {
        // exact-arithmetic stand-in: only the absolute-difference clause of the float implementation
        // is expressible; the ULP clause is represented by exact equality
        if approx::AbsDiffEq::abs_diff_eq(self, other, epsilon) { return true; }
        *self == *other
    }
}

impl vek::ops::ColorComponent for Sym { fn full() -> Sym { Sym::named("full") } }

// borrowed forms of MulAdd (vek's vector MulAdd impls are generic over them)
macro_rules! muladd_refs { ($(($S:ty, $A:ty, $B:ty))+) => { $(
    impl<'a> num_traits::MulAdd<$A, $B> for $S { type Output = Sym; fn mul_add(self, a: $A, b: $B) -> Sym { mk(Node::Fma(self.0, a.0, b.0)) } }
)+ } }
muladd_refs!((&'a Sym, Sym, Sym) (Sym, Sym, &'a Sym) (&'a Sym, Sym, &'a Sym) (Sym, &'a Sym, Sym) (&'a Sym, &'a Sym, Sym) (Sym, &'a Sym, &'a Sym) (&'a Sym, &'a Sym, &'a Sym));
