//! Exact dyadic rationals (num / 2^exp) implementing enough of `num_traits::real::Real` to run vek's generic
//! code without rounding. Operations that would leave the dyadics (division by a non-power of two, sqrt, ...)
//! panic.
#![allow(dead_code)]
use std::ops::*;
use num_traits::{Zero, One, Num, NumCast, ToPrimitive};
use num_traits::real::Real;

#[derive(Clone, Copy, Debug)]
pub struct Dy { pub num: i128, pub exp: u32 }
impl Dy {
    pub fn new(num: i128, exp: u32) -> Dy { let mut n = num; let mut e = exp; while e > 0 && n % 2 == 0 { n /= 2; e -= 1; } Dy { num: n, exp: e } }
    pub fn int(n: i128) -> Dy { Dy::new(n, 0) }
    fn align(a: Dy, b: Dy) -> (i128, i128, u32) { let e = a.exp.max(b.exp); (a.num.checked_shl(e - a.exp).unwrap(), b.num.checked_shl(e - b.exp).unwrap(), e) }
    pub fn frac(&self) -> String { format!("{}/{}", self.num, 1i128 << self.exp) }
}
impl PartialEq for Dy { fn eq(&self, o: &Dy) -> bool { let (x, y, _) = Dy::align(*self, *o); x == y } }
impl PartialOrd for Dy { fn partial_cmp(&self, o: &Dy) -> Option<std::cmp::Ordering> { let (x, y, _) = Dy::align(*self, *o); x.partial_cmp(&y) } }
impl Add for Dy { type Output = Dy; fn add(self, o: Dy) -> Dy { let (x, y, e) = Dy::align(self, o); Dy::new(x.checked_add(y).unwrap(), e) } }
impl Sub for Dy { type Output = Dy; fn sub(self, o: Dy) -> Dy { let (x, y, e) = Dy::align(self, o); Dy::new(x.checked_sub(y).unwrap(), e) } }
impl Mul for Dy { type Output = Dy; fn mul(self, o: Dy) -> Dy { Dy::new(self.num.checked_mul(o.num).unwrap(), self.exp + o.exp) } }
impl Div for Dy { type Output = Dy; fn div(self, o: Dy) -> Dy {
    // only division by +-2^m / 2^e is exact
    let a = o.num.abs(); assert!(a != 0 && a & (a - 1) == 0, "dyadic: inexact division by {:?}", o);
    let m = a.trailing_zeros(); let s = if o.num < 0 { -1 } else { 1 };
    // self / (s * 2^m / 2^e) = s * self * 2^e / 2^m
    let num = (self.num * s).checked_shl(o.exp).unwrap(); Dy::new(num, self.exp + m) } }
impl Rem for Dy { type Output = Dy; fn rem(self, _o: Dy) -> Dy { panic!("dyadic: rem") } }
impl Neg for Dy { type Output = Dy; fn neg(self) -> Dy { Dy { num: -self.num, exp: self.exp } } }
impl Zero for Dy { fn zero() -> Dy { Dy::int(0) } fn is_zero(&self) -> bool { self.num == 0 } }
impl One for Dy { fn one() -> Dy { Dy::int(1) } }
impl Num for Dy { type FromStrRadixErr = (); fn from_str_radix(_: &str, _: u32) -> Result<Dy, ()> { Err(()) } }
impl ToPrimitive for Dy { fn to_i64(&self) -> Option<i64> { None } fn to_u64(&self) -> Option<u64> { None } fn to_f64(&self) -> Option<f64> { Some(self.num as f64 / (1u128 << self.exp) as f64) } }
impl NumCast for Dy { fn from<N: ToPrimitive>(n: N) -> Option<Dy> { n.to_i64().map(|x| Dy::int(x as i128)) } }
impl From<u16> for Dy { fn from(x: u16) -> Dy { Dy::int(x as i128) } }
impl From<u8> for Dy { fn from(x: u8) -> Dy { Dy::int(x as i128) } }
macro_rules! no { ($($m:ident)+) => { $( fn $m(self) -> Dy { panic!(concat!("dyadic: ", stringify!($m))) } )+ } }
impl Real for Dy {
    fn min_value() -> Dy { Dy::int(-(1 << 40)) } fn max_value() -> Dy { Dy::int(1 << 40) }
    fn min_positive_value() -> Dy { Dy::new(1, 40) } fn epsilon() -> Dy { Dy::new(1, 40) }
    no!(floor ceil round trunc fract signum sqrt exp exp2 ln log2 log10 to_degrees to_radians cbrt sin cos tan asin acos atan exp_m1 ln_1p sinh cosh tanh asinh acosh atanh);
    fn abs(self) -> Dy { Dy { num: self.num.abs(), exp: self.exp } }
    fn is_sign_positive(self) -> bool { self.num >= 0 } fn is_sign_negative(self) -> bool { self.num < 0 }
    fn mul_add(self, a: Dy, b: Dy) -> Dy { self * a + b }
    fn recip(self) -> Dy { Dy::int(1) / self }
    fn powi(self, n: i32) -> Dy { let mut r = Dy::int(1); for _ in 0..n { r = r * self; } r }
    fn powf(self, _: Dy) -> Dy { panic!("dyadic: powf") } fn log(self, _: Dy) -> Dy { panic!("dyadic: log") }
    fn max(self, o: Dy) -> Dy { if self < o { o } else { self } } fn min(self, o: Dy) -> Dy { if o < self { o } else { self } }
    fn abs_sub(self, _: Dy) -> Dy { panic!("dyadic: abs_sub") } fn hypot(self, _: Dy) -> Dy { panic!("dyadic: hypot") }
    fn atan2(self, _: Dy) -> Dy { panic!("dyadic: atan2") } fn sin_cos(self) -> (Dy, Dy) { panic!("dyadic: sin_cos") }
}
