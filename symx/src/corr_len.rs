//! Engine B driver for C15: how many segments length_by_discretization(step_count) really sums, and where
//! the last one ends, observed by running the real code on the symbolic scalar and counting the distinct
//! square roots / reading the last parameter. One case per line: `len <type> <n> => <segments> <last numerator>`.
use crate::sym::{self, Sym, Node, Op1, Op2};
use crate::io::Flat;
use std::io::Write;
use vek::bezier::repr_c::{QuadraticBezier2, CubicBezier2};

fn observe(n: u16, cubic: bool) -> String {
    sym::reset_arena();
    let r = std::panic::catch_unwind(|| {
        if cubic { let pts: Vec<Sym> = (0..8).map(|k| Sym::var(k)).collect(); let c: CubicBezier2<Sym> = Flat::rd(&pts); c.length_by_discretization(n) }
        else { let pts: Vec<Sym> = (0..6).map(|k| Sym::var(k)).collect(); let c: QuadraticBezier2<Sym> = Flat::rd(&pts); c.length_by_discretization(n) }
    });
    match r {
        Err(_) => "panic".to_string(),
        Ok(_) => {
            let nodes = sym::CTX.with(|c| c.borrow().nodes.clone());
            let sq = nodes.iter().filter(|x| matches!(x, Node::Un(Op1::Sqrt, _))).count();
            // parameters are Div((i + 1), (n + 1)) with literal operands: report the largest numerator
            let cst = |i: u32| -> Option<f64> { match &nodes[i as usize] { Node::Const(b) => Some(f64::from_bits(*b)), Node::Bin(Op2::Add, a, b) => match (&nodes[*a as usize], &nodes[*b as usize]) { (Node::Const(x), Node::Const(y)) => Some(f64::from_bits(*x) + f64::from_bits(*y)), _ => None }, _ => None } };
            let mut last = 0.0f64;
            for x in nodes.iter() { if let Node::Bin(Op2::Div, a, b) = x { if let (Some(p), Some(q)) = (cst(*a), cst(*b)) { if q == n as f64 + 1.0 && p > last { last = p; } } } }
            format!("{} {}", sq, last as u64)
        }
    }
}
pub fn run(tier: &str, _seed: u64) {
    let out = std::io::stdout(); let mut w = std::io::BufWriter::new(out.lock());
    let mut ns: Vec<u16> = vec![0, 1, 2, 3, 7, 100, 255, 256, 1000, 65533, 65534, 65535];
    if tier == "thorough" { ns.extend([4u16, 5, 6, 15, 16, 31, 32767, 32768, 40000, 65532].iter()); }
    for n in ns { writeln!(w, "len quad2 {} => {}", n, observe(n, false)).unwrap(); if n <= 1000 || tier == "thorough" { writeln!(w, "len cubic2 {} => {}", n, observe(n, true)).unwrap(); } }
}
