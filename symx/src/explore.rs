//! DFS over decision paths of a closure run on symbolic scalars; builds a decision tree.
#![allow(dead_code)]
use crate::sym::*;
use std::panic::{catch_unwind, AssertUnwindSafe};

/// Result of one run: integer-valued flags (bools, discriminants, lengths) and scalar values.
#[derive(Clone, Debug, PartialEq)]
pub struct Out<T> { pub flags: Vec<i64>, pub vals: Vec<T> }
impl<T> Out<T> {
    pub fn new() -> Self { Out { flags: vec![], vals: vec![] } }
    pub fn of(vals: Vec<T>) -> Self { Out { flags: vec![], vals } }
    pub fn flag(b: bool) -> Self { Out { flags: vec![b as i64], vals: vec![] } }
}

#[derive(Clone, Debug)]
pub enum Tree {
    Panic(String),
    Cut,
    Ret(Out<u32>),
    If(Cond, Box<Tree>, Box<Tree>),
}

pub struct Explored {
    pub tree: Tree,
    pub paths: usize,
    pub panics: usize,
    pub max_depth_seen: usize,
}

thread_local! { pub static LAST_PANIC: std::cell::RefCell<String> = std::cell::RefCell::new(String::new()); }

pub fn install_quiet_hook() {
    std::panic::set_hook(Box::new(|info| {
        let msg = if let Some(s) = info.payload().downcast_ref::<&str>() { s.to_string() }
                  else if let Some(s) = info.payload().downcast_ref::<String>() { s.clone() }
                  else { "panic".to_string() };
        LAST_PANIC.with(|p| *p.borrow_mut() = msg);
    }));
}

/// Explore every decision path of `f`. `budget` bounds the number of paths.
/// Returns Err(msg) when the closure uses an unsupported operation or the budget is exceeded.
pub fn explore<F: Fn() -> Out<Sym>>(f: F, budget: usize) -> Result<Explored, String> {
    let mut leaves: Vec<(Vec<(Cond, bool)>, Tree)> = vec![];
    let mut forced: Vec<bool> = vec![];
    let mut panics = 0; let mut maxd = 0;
    loop {
        CTX.with(|c| { let mut c = c.borrow_mut(); c.path.clear(); c.forced = forced.clone(); c.touched.clear(); c.eager = false; });
        let r = catch_unwind(AssertUnwindSafe(|| f()));
        let path = CTX.with(|c| c.borrow().path.clone());
        maxd = maxd.max(path.len());
        let leaf = match r {
            Ok(o) => {
                let vals: Vec<u32> = o.vals.iter().map(|s| s.0).collect();
                let mut leaf = Tree::Ret(Out { flags: o.flags, vals: vals.clone() });
                // eager evaluation (integer entries): an arithmetic node computed on this path that neither the result nor a
                // decision of the path depends on must still be defined; `n == n` panics in the integer semantics when n overflowed
                let extra: Vec<u32> = CTX.with(|c| { let c = c.borrow(); if !c.eager { return vec![]; }
                    let mut needed = std::collections::HashSet::new();
                    let mut stack: Vec<u32> = vals.clone(); for (cd, _) in path.iter() { stack.push(cd.a); stack.push(cd.b); }
                    while let Some(i) = stack.pop() { if !needed.insert(i) { continue; } match &c.nodes[i as usize] {
                        Node::Un(_, a) => stack.push(*a), Node::Bin(_, a, b) => { stack.push(*a); stack.push(*b); }
                        Node::Fma(a, b, d) => { stack.push(*a); stack.push(*b); stack.push(*d); } Node::Powi(a, _) => stack.push(*a),
                        Node::Fun(_, args) => stack.extend(args.iter().cloned()), _ => {} } }
                    let mut out = vec![];
                    for &i in c.touched.iter() { if needed.contains(&i) || out.contains(&i) { continue; }
                        match &c.nodes[i as usize] { Node::Bin(Op2::Add, ..) | Node::Bin(Op2::Sub, ..) | Node::Bin(Op2::Mul, ..) | Node::Bin(Op2::Div, ..) | Node::Bin(Op2::Rem, ..) | Node::Un(Op1::Neg, _) => out.push(i), _ => {} } }
                    out });
                for &i in extra.iter().rev() { leaf = Tree::If(Cond { kind: CondKind::Eq, a: i, b: i }, Box::new(leaf), Box::new(Tree::Cut)); }
                leaf }
            Err(_) => {
                let msg = LAST_PANIC.with(|p| p.borrow().clone());
                if msg.starts_with("symx:") { return Err(msg); }
                panics += 1;
                Tree::Panic(msg)
            }
        };
        leaves.push((path.clone(), leaf));
        if leaves.len() > budget { return Err(format!("symx: path budget {} exceeded", budget)); }
        let mut outs: Vec<bool> = path.iter().map(|p| p.1).collect();
        while outs.last() == Some(&false) { outs.pop(); }
        if outs.is_empty() { break; }
        *outs.last_mut().unwrap() = false;
        forced = outs;
    }
    let n = leaves.len();
    let tree = build(&leaves, 0);
    Ok(Explored { tree, paths: n, panics, max_depth_seen: maxd })
}

fn build(leaves: &[(Vec<(Cond, bool)>, Tree)], depth: usize) -> Tree {
    if leaves.len() == 1 && leaves[0].0.len() == depth { return leaves[0].1.clone(); }
    let cond = leaves[0].0[depth].0;
    // DFS order: all `true` outcomes first, then `false`
    let split = leaves.iter().position(|l| !l.0[depth].1).unwrap_or(leaves.len());
    for l in leaves { assert!(l.0[depth].0 == cond, "symx: non-deterministic exploration"); }
    let t = if split > 0 { build(&leaves[..split], depth + 1) } else { Tree::Cut };
    let e = if split < leaves.len() { build(&leaves[split..], depth + 1) } else { Tree::Cut };
    Tree::If(cond, Box::new(t), Box::new(e))
}

pub fn count_leaves(t: &Tree) -> (usize, usize) {
    match t {
        Tree::Panic(_) => (0, 1), Tree::Cut => (0, 0), Tree::Ret(_) => (1, 0),
        Tree::If(_, a, b) => { let (x, y) = count_leaves(a); let (z, w) = count_leaves(b); (x + z, y + w) }
    }
}
