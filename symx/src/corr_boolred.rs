//! Engine B driver for C02: reduce_and / reduce_or (/ reduce_ne) on the concrete instantiations.
//! One case per line: `<type> <kind> <bits> => <and> <or> <ne|->`; bit i says "element i is not zero".
use crate::Rng;
use crate::io::Flat;
use std::io::Write;
use std::num::Wrapping;
use vek::vec::repr_c::*;

fn patterns(n: usize, tier: &str, rng: &mut Rng) -> Vec<Vec<bool>> {
    let mut out = vec![];
    let full = if tier == "thorough" { 16 } else { 10 };
    if n <= full { for m in 0..(1u32 << n) { out.push((0..n).map(|i| (m >> i) & 1 == 1).collect()); } return out; }
    for base in [false, true] {
        out.push(vec![base; n]);
        for i in 0..n { let mut v = vec![base; n]; v[i] = !base; out.push(v.clone()); for j in (i + 1)..n { let mut w = v.clone(); w[j] = !base; out.push(w); } }
    }
    let extra = if tier == "thorough" { 20000 } else { 1000 };
    for _ in 0..extra { let dens = rng.below(5); out.push((0..n).map(|_| match dens { 0 => rng.below(16) != 0, 1 => rng.below(16) == 0, _ => rng.below(2) == 0 }).collect()); }
    out
}
fn b(x: bool) -> char { if x { '1' } else { '0' } }

macro_rules! kind { ($w:expr, $ty:expr, $V:ident, $pat:expr, $bits:expr, $kind:expr, $T:ty, [$($nz:expr),+]) => {{
    let nz: Vec<$T> = vec![$($nz),+];
    let elems: Vec<$T> = $pat.iter().enumerate().map(|(i, t)| if *t { nz[i % nz.len()] } else { <$T>::default() }).collect();
    let v: $V<$T> = Flat::rd(&elems);
    writeln!($w, "{} {} {} => {} {} -", $ty, $kind, $bits, b(v.reduce_and()), b(v.reduce_or())).unwrap();
}}; }

macro_rules! ty { ($w:expr, $ty:expr, $V:ident, $n:expr, $tier:expr, $rng:expr) => {{
    for pat in patterns($n, $tier, $rng) {
        let bits: String = pat.iter().map(|t| b(*t)).collect();
        let v: $V<bool> = Flat::rd(&pat);
        #[allow(deprecated)]
        let ne = v.reduce_ne();
        writeln!($w, "{} bool {} => {} {} {}", $ty, bits, b(v.reduce_and()), b(v.reduce_or()), b(ne)).unwrap();
        kind!($w, $ty, $V, pat, bits, "i8", i8, [1, -1, i8::MIN, i8::MAX, 7]);
        kind!($w, $ty, $V, pat, bits, "u16", u16, [1, u16::MAX, 256, 0x8000]);
        kind!($w, $ty, $V, pat, bits, "i32", i32, [1, -1, i32::MIN, i32::MAX, 65536]);
        kind!($w, $ty, $V, pat, bits, "u64", u64, [1, u64::MAX, 1 << 32, 1 << 63]);
        kind!($w, $ty, $V, pat, bits, "wi16", Wrapping<i16>, [Wrapping(1), Wrapping(-1), Wrapping(i16::MIN), Wrapping(256)]);
        kind!($w, $ty, $V, pat, bits, "f32", f32, [1.0, -1.0, f32::MIN_POSITIVE, f32::INFINITY, f32::NAN, 1e-45]);
        kind!($w, $ty, $V, pat, bits, "f64", f64, [1.0, -1.0, f64::MIN_POSITIVE, f64::NEG_INFINITY, f64::NAN, 5e-324]);
    }
}}; }

pub fn run(tier: &str, seed: u64) {
    let out = std::io::stdout(); let mut w = std::io::BufWriter::new(out.lock());
    let mut rng = Rng(0x9E3779B97F4A7C15 ^ seed.wrapping_mul(0xD1342543DE82EF95));
    ty!(&mut w, "vec2", Vec2, 2, tier, &mut rng); ty!(&mut w, "vec3", Vec3, 3, tier, &mut rng); ty!(&mut w, "vec4", Vec4, 4, tier, &mut rng);
    ty!(&mut w, "vec8", Vec8, 8, tier, &mut rng); ty!(&mut w, "vec16", Vec16, 16, tier, &mut rng); ty!(&mut w, "vec32", Vec32, 32, tier, &mut rng);
    ty!(&mut w, "vec64", Vec64, 64, tier, &mut rng); ty!(&mut w, "extent2", Extent2, 2, tier, &mut rng); ty!(&mut w, "extent3", Extent3, 3, tier, &mut rng);
    ty!(&mut w, "rgb", Rgb, 3, tier, &mut rng); ty!(&mut w, "rgba", Rgba, 4, tier, &mut rng); ty!(&mut w, "uv", Uv, 2, tier, &mut rng); ty!(&mut w, "uvw", Uvw, 3, tier, &mut rng);
}
