//! Engine B driver for C18: the real containers of vek, run with an ownership-tracking element type.
//! One case per line, `<kind> <name> <n> <arg> => <observed>`:
//!   iter  <type> <n> <ops>      ops over N(ext) B(ack) L(en) G(debug) E(q) H(ash), then an implicit final X (drop);
//!                               observed = one event per op: Y<id>|Y-  L<k>  R<ids read>  D<ids dropped in order>
//!   conv  <name> <n> keep|transpose|<m>   observed = <ids in result order>|<ids dropped during the conversion>
//!   alias <name> <n> -          observed = for slice entry i, the index of the field stored at that address
use crate::Rng;
use std::cell::RefCell;
use std::hash::{Hash, Hasher};
use std::io::Write;
use std::iter::FromIterator;
use vek::vec::repr_c::*;
use vek::mat::repr_c::row_major as rm;
use vek::mat::repr_c::column_major as cm;

thread_local! {
    static READS: RefCell<Vec<u32>> = RefCell::new(vec![]);
    static DROPS: RefCell<Vec<u32>> = RefCell::new(vec![]);
    static NEXT_DEFAULT: RefCell<u32> = RefCell::new(1000);
}
/// not Copy, not Clone: every read through a trait and every drop is recorded
/// (it also owns a heap allocation, so that an interpreter that tracks pointer provenance sees every move of an element
/// as the move of a `Box`)
pub struct Tok { id: u32, _heap: Box<u32> }
impl Tok { fn new(id: u32) -> Tok { Tok { id, _heap: Box::new(id) } } }
impl Drop for Tok { fn drop(&mut self) { DROPS.with(|d| d.borrow_mut().push(self.id)); } }
impl Default for Tok { fn default() -> Tok { NEXT_DEFAULT.with(|n| { let mut n = n.borrow_mut(); *n += 1; Tok::new(*n) }) } }
impl std::fmt::Debug for Tok { fn fmt(&self, f: &mut std::fmt::Formatter) -> std::fmt::Result { READS.with(|r| r.borrow_mut().push(self.id)); write!(f, "t{}", self.id) } }
impl PartialEq for Tok { fn eq(&self, o: &Tok) -> bool { READS.with(|r| { let mut r = r.borrow_mut(); r.push(self.id); r.push(o.id); }); self.id == o.id } }
impl Eq for Tok {}
impl Hash for Tok { fn hash<H: Hasher>(&self, h: &mut H) { READS.with(|r| r.borrow_mut().push(self.id)); self.id.hash(h) } }
impl Clone for Tok { fn clone(&self) -> Tok { panic!("Tok must never be cloned") } }

fn take_reads() -> Vec<u32> { READS.with(|r| { let mut v = std::mem::replace(&mut *r.borrow_mut(), vec![]); v.sort(); v.dedup(); v }) }
fn take_drops() -> Vec<u32> { DROPS.with(|r| std::mem::replace(&mut *r.borrow_mut(), vec![])) }
fn ids(v: &[u32]) -> String { if v.is_empty() { "-".to_string() } else { v.iter().map(|x| if *x >= 1000 { "d".to_string() } else { x.to_string() }).collect::<Vec<_>>().join(".") } }
fn toks(n: usize) -> Vec<Tok> { (0..n as u32).map(Tok::new).collect() }
fn real_ids(v: &[u32]) -> Vec<u32> { v.iter().cloned().filter(|x| *x < 1000).collect() }


/// build containers by moving tokens into the public fields (never through the API under test)
trait Mk: Sized { fn mk(it: &mut dyn Iterator<Item = Tok>) -> Self; }
macro_rules! mk_struct1 { ($V:ident; $($f:ident)+) => { impl Mk for $V<Tok> { fn mk(it: &mut dyn Iterator<Item = Tok>) -> Self { $V { $($f: it.next().unwrap()),+ } } } } }
macro_rules! mk_tuple { ($V:ident; $($i:tt)+) => { impl Mk for $V<Tok> { fn mk(it: &mut dyn Iterator<Item = Tok>) -> Self { $V($({ let _ = $i; it.next().unwrap() }),+) } } } }
mk_struct1!(Vec2; x y); mk_struct1!(Vec3; x y z); mk_struct1!(Vec4; x y z w);
mk_struct1!(Extent2; w h); mk_struct1!(Extent3; w h d); mk_struct1!(Rgb; r g b); mk_struct1!(Rgba; r g b a); mk_struct1!(Uv; u v); mk_struct1!(Uvw; u v w);
mk_tuple!(Vec8; 0 1 2 3 4 5 6 7); mk_tuple!(Vec16; 0 1 2 3 4 5 6 7 8 9 10 11 12 13 14 15);
mk_tuple!(Vec32; 0 1 2 3 4 5 6 7 8 9 10 11 12 13 14 15 16 17 18 19 20 21 22 23 24 25 26 27 28 29 30 31);
mk_tuple!(Vec64; 0 1 2 3 4 5 6 7 8 9 10 11 12 13 14 15 16 17 18 19 20 21 22 23 24 25 26 27 28 29 30 31 32 33 34 35 36 37 38 39 40 41 42 43 44 45 46 47 48 49 50 51 52 53 54 55 56 57 58 59 60 61 62 63);
impl Mk for rm::Mat2<Tok> { fn mk(it: &mut dyn Iterator<Item = Tok>) -> Self { rm::Mat2 { rows: Vec2 { x: Mk::mk(it), y: Mk::mk(it) } } } }
impl Mk for rm::Mat3<Tok> { fn mk(it: &mut dyn Iterator<Item = Tok>) -> Self { rm::Mat3 { rows: Vec3 { x: Mk::mk(it), y: Mk::mk(it), z: Mk::mk(it) } } } }
impl Mk for rm::Mat4<Tok> { fn mk(it: &mut dyn Iterator<Item = Tok>) -> Self { rm::Mat4 { rows: Vec4 { x: Mk::mk(it), y: Mk::mk(it), z: Mk::mk(it), w: Mk::mk(it) } } } }
impl Mk for cm::Mat2<Tok> { fn mk(it: &mut dyn Iterator<Item = Tok>) -> Self { cm::Mat2 { cols: Vec2 { x: Mk::mk(it), y: Mk::mk(it) } } } }
impl Mk for cm::Mat3<Tok> { fn mk(it: &mut dyn Iterator<Item = Tok>) -> Self { cm::Mat3 { cols: Vec3 { x: Mk::mk(it), y: Mk::mk(it), z: Mk::mk(it) } } } }
impl Mk for cm::Mat4<Tok> { fn mk(it: &mut dyn Iterator<Item = Tok>) -> Self { cm::Mat4 { cols: Vec4 { x: Mk::mk(it), y: Mk::mk(it), z: Mk::mk(it), w: Mk::mk(it) } } } }
fn mkv<V: Mk>(n: usize) -> V { let mut it = toks(n).into_iter(); V::mk(&mut it) }

fn histories(n: usize, tier: &str, rng: &mut Rng) -> Vec<String> {
    let mut out = vec![];
    // every reachable (front, back) state by a canonical path and by an alternating path, then every operation
    for f in 0..=n { for b in 0..=(n - f) {
        let canon: String = "N".repeat(f) + &"B".repeat(b);
        let mut alt = String::new(); let (mut i, mut j) = (0, 0);
        while i < f || j < b { if i < f { alt.push('N'); i += 1; } if j < b { alt.push('B'); j += 1; } }
        for o in ["", "N", "B", "L", "G", "E", "H"].iter() { out.push(format!("{}{}", canon, o)); if alt != canon { out.push(format!("{}{}", alt, o)); } }
        if f + b == n { out.push(format!("{}NBNL", canon)); }   // pulls on an exhausted iterator
    } }
    // tier "miriq" (quick): a handful of histories per type, all conversions and views
    if tier == "miriq" { out.truncate(0); for h in ["", "N", "B", "NB", "BN", "NG", "BE", "NNH"].iter() { out.push(h.to_string()); } if n <= 3 { out.push("N".repeat(n)); out.push("B".repeat(n) + "NL"); } return out; }
    // tier "miri": the run is interpreted (undefined-behaviour detector), so keep the state sweep of the small types only
    if tier == "miri" && n > 8 { out.truncate(0); for f in [0usize, 1, n / 2, n].iter() { for b in [0usize, 1, n - *f].iter() { if f + b <= n { for o in ["", "N", "B", "G"].iter() { out.push(format!("{}{}{}", "N".repeat(*f), "B".repeat(*b), o)); } } } } }
    let extra = if tier == "thorough" { 3000 } else if tier == "miri" { 10 } else { 200 };
    for _ in 0..extra { let len = rng.below(2 * n as u64 + 6) as usize; out.push((0..len).map(|_| ['N', 'B', 'L', 'G', 'E', 'H', 'N', 'B'][rng.below(8) as usize]).collect()); }
    out
}

macro_rules! iter_ty { ($w:expr, $ty:expr, $V:ident, $n:expr, $tier:expr, $rng:expr) => {{
    for ops in histories($n, $tier, $rng) {
        take_reads(); take_drops();
        let v: $V<Tok> = mkv($n);
        let mut it = v.into_iter();
        let mut held: Vec<Tok> = vec![]; let mut evs: Vec<String> = vec![];
        for c in ops.chars() {
            match c {
                'N' | 'B' => { let r = if c == 'N' { it.next() } else { it.next_back() };
                    match r { Some(t) => { evs.push(format!("Y{}", t.id)); held.push(t); } None => evs.push("Y-".to_string()) } }
                'L' => { let k = it.len(); let sh = it.size_hint(); if sh == (k, Some(k)) { evs.push(format!("L{}", k)) } else { evs.push(format!("L{}/{:?}", k, sh)) } }
                'G' => { let _ = format!("{:?}", it); evs.push(format!("R{}", ids(&take_reads()))); }
                'E' => { let _ = it == it; evs.push(format!("R{}", ids(&take_reads()))); }
                'H' => { let mut h = std::collections::hash_map::DefaultHasher::new(); it.hash(&mut h); evs.push(format!("R{}", ids(&take_reads()))); }
                _ => unreachable!(),
            }
            let d = take_drops(); if !d.is_empty() { evs.push(format!("UNEXPECTED-DROP{}", ids(&d))); }
        }
        drop(it);
        evs.push(format!("D{}", ids(&take_drops())));
        // the yielded elements are still owned by the harness: dropping them now must drop each exactly once
        let mut want: Vec<u32> = held.iter().map(|t| t.id).collect(); drop(held); let mut got = take_drops(); want.sort(); got.sort();
        if want != got { evs.push(format!("YIELDED-DROP-MISMATCH{}", ids(&got))); }
        writeln!($w, "iter {} {} {}X => {}", $ty, $n, ops, evs.join(" ")).unwrap();
    }
}}; }

macro_rules! conv_ty { ($w:expr, $ty:expr, $V:ident, $n:expr, [$($i:tt)+]) => {{
    let n: usize = $n;
    let emit = |w: &mut dyn Write, name: &str, arg: &str, out: Vec<u32>, dropped: Vec<u32>| { writeln!(w, "conv {}_{} {} {} => {}|{}", $ty, name, n, arg, ids(&out), ids(&real_ids(&dropped))).unwrap(); };
    take_drops();
    { let mut t = toks(n).into_iter(); let arr = [$({ let _ = $i; t.next().unwrap() }),+]; let v = $V::<Tok>::from(arr); let d = take_drops(); emit($w, "from_array", "keep", v.flat_ids(), d); }
    take_drops();
    { let v: $V<Tok> = mkv(n); let arr = v.into_array(); let d = take_drops(); emit($w, "into_array", "keep", arr.iter().map(|t| t.id).collect(), d); }
    take_drops();
    { let v: $V<Tok> = mkv(n); let t = v.into_tuple(); let d = take_drops(); emit($w, "into_tuple", "keep", vec![$(t.$i.id),+], d); }
    take_drops();
    { let mut t = toks(n).into_iter(); let tup = ($({ let _ = $i; t.next().unwrap() }),+); let v = $V::<Tok>::from(tup); let d = take_drops(); emit($w, "from_tuple", "keep", v.flat_ids(), d); }
    take_drops();
    { let v: $V<Tok> = mkv(n); let w2 = v.map(|t| t); let d = take_drops(); emit($w, "map_move", "keep", w2.flat_ids(), d); }
    take_drops();
    { let v: $V<Tok> = mkv(n); let c: Vec<Tok> = v.into_iter().collect(); let d = take_drops(); emit($w, "into_iter_collect", "keep", c.iter().map(|t| t.id).collect(), d); }
    for m in [0usize, 1, n - 1, n, n + 1, n + 3].iter() {
        take_drops();
        let v = $V::<Tok>::from_iter(toks(*m)); let d = take_drops();
        writeln!($w, "conv {}_from_iter {} {} => {}|{}", $ty, n, m, ids(&v.flat_ids()), ids(&real_ids(&d))).unwrap();
    }
    take_drops();
}}; }
trait FlatIds { fn flat_ids(&self) -> Vec<u32>; }
macro_rules! flat_ids_struct { ($V:ident; $($f:tt)+) => { impl FlatIds for $V<Tok> { fn flat_ids(&self) -> Vec<u32> { vec![$(self.$f.id),+] } } } }
flat_ids_struct!(Vec2; x y); flat_ids_struct!(Vec3; x y z); flat_ids_struct!(Vec4; x y z w); flat_ids_struct!(Extent2; w h); flat_ids_struct!(Extent3; w h d);
flat_ids_struct!(Rgb; r g b); flat_ids_struct!(Rgba; r g b a); flat_ids_struct!(Uv; u v); flat_ids_struct!(Uvw; u v w);
flat_ids_struct!(Vec8; 0 1 2 3 4 5 6 7); flat_ids_struct!(Vec16; 0 1 2 3 4 5 6 7 8 9 10 11 12 13 14 15);
flat_ids_struct!(Vec32; 0 1 2 3 4 5 6 7 8 9 10 11 12 13 14 15 16 17 18 19 20 21 22 23 24 25 26 27 28 29 30 31);
flat_ids_struct!(Vec64; 0 1 2 3 4 5 6 7 8 9 10 11 12 13 14 15 16 17 18 19 20 21 22 23 24 25 26 27 28 29 30 31 32 33 34 35 36 37 38 39 40 41 42 43 44 45 46 47 48 49 50 51 52 53 54 55 56 57 58 59 60 61 62 63);

macro_rules! alias_ty { ($w:expr, $ty:expr, $V:ident, $n:expr; $($f:tt)+) => {{
    let mut v: $V<Tok> = mkv($n);
    let addrs: Vec<*const Tok> = vec![$(&v.$f as *const Tok),+];
    let find = |p: *const Tok| -> String { match addrs.iter().position(|a| *a == p) { Some(k) => k.to_string(), None => "?".to_string() } };
    let line = |s: &[Tok]| -> String { if s.len() != $n { format!("len{}", s.len()) } else { s.iter().map(|t| find(t as *const Tok)).collect::<Vec<_>>().join(".") } };
    writeln!($w, "alias {}_as_slice {} - => {}", $ty, $n, line(v.as_slice())).unwrap();
    writeln!($w, "alias {}_deref {} - => {}", $ty, $n, line(&*v)).unwrap();
    writeln!($w, "alias {}_as_ref {} - => {}", $ty, $n, line(AsRef::<[Tok]>::as_ref(&v))).unwrap();
    writeln!($w, "alias {}_borrow {} - => {}", $ty, $n, line(std::borrow::Borrow::<[Tok]>::borrow(&v))).unwrap();
    let ms: Vec<*const Tok> = v.as_mut_slice().iter().map(|t| t as *const Tok).collect();
    writeln!($w, "alias {}_as_mut_slice {} - => {}", $ty, $n, ms.iter().map(|p| find(*p)).collect::<Vec<_>>().join(".")).unwrap();
    drop(v); take_drops();
}}; }

macro_rules! mat_slice { (rows, $m:ident) => { $m.as_row_slice() }; (cols, $m:ident) => { $m.as_col_slice() } }
macro_rules! mat_slice_mut { (rows, $m:ident) => { $m.as_mut_row_slice() }; (cols, $m:ident) => { $m.as_mut_col_slice() } }
macro_rules! mat_ptr { (rows, $m:ident) => { $m.as_row_ptr() }; (cols, $m:ident) => { $m.as_col_ptr() } }
macro_rules! mat_ty { ($w:expr, $name:expr, $M:ty, $n:expr, $lines:ident, $major:expr, [$($ij:tt)+], [$($i:tt)+]) => {{
    let n: usize = $n; let nn = n * n;
    // storage order = the matrix's own lines; row-major: row arrays keep, col arrays transpose (and conversely)
    let (row_arg, col_arg) = if $major == "r" { ("keep", "transpose") } else { ("transpose", "keep") };
    let store = |m: &$M| -> Vec<u32> { let mut o = vec![]; for l in m.$lines.iter() { for t in l.iter() { o.push(t.id); } } o };
    take_drops();
    { let m: $M = mkv(nn); let a = m.into_row_array(); let d = take_drops(); writeln!($w, "conv {}_into_row_array {} {} => {}|{}", $name, nn, row_arg, ids(&a.iter().map(|t| t.id).collect::<Vec<_>>()), ids(&d)).unwrap(); }
    take_drops();
    { let m: $M = mkv(nn); let a = m.into_col_array(); let d = take_drops(); writeln!($w, "conv {}_into_col_array {} {} => {}|{}", $name, nn, col_arg, ids(&a.iter().map(|t| t.id).collect::<Vec<_>>()), ids(&d)).unwrap(); }
    take_drops();
    { let m: $M = mkv(nn); let a = m.into_row_arrays(); let d = take_drops(); writeln!($w, "conv {}_into_row_arrays {} {} => {}|{}", $name, nn, row_arg, ids(&a.iter().flat_map(|r| r.iter().map(|t| t.id)).collect::<Vec<_>>()), ids(&d)).unwrap(); }
    take_drops();
    { let m: $M = mkv(nn); let a = m.into_col_arrays(); let d = take_drops(); writeln!($w, "conv {}_into_col_arrays {} {} => {}|{}", $name, nn, col_arg, ids(&a.iter().flat_map(|r| r.iter().map(|t| t.id)).collect::<Vec<_>>()), ids(&d)).unwrap(); }
    take_drops();
    { let mut t = toks(nn).into_iter(); let arr = [$({ let _ = $ij; t.next().unwrap() }),+]; let m = <$M>::from_row_array(arr); let d = take_drops(); writeln!($w, "conv {}_from_row_array {} {} => {}|{}", $name, nn, row_arg, ids(&store(&m)), ids(&d)).unwrap(); }
    take_drops();
    { let mut t = toks(nn).into_iter(); let arr = [$({ let _ = $ij; t.next().unwrap() }),+]; let m = <$M>::from_col_array(arr); let d = take_drops(); writeln!($w, "conv {}_from_col_array {} {} => {}|{}", $name, nn, col_arg, ids(&store(&m)), ids(&d)).unwrap(); }
    take_drops();
    { let mut t = toks(nn).into_iter(); let arr: [[Tok; $n]; $n] = std::array::from_fn(|_| std::array::from_fn(|_| t.next().unwrap())); let m = <$M>::from_row_arrays(arr); let d = take_drops(); writeln!($w, "conv {}_from_row_arrays {} {} => {}|{}", $name, nn, row_arg, ids(&store(&m)), ids(&d)).unwrap(); }
    take_drops();
    { let mut t = toks(nn).into_iter(); let arr: [[Tok; $n]; $n] = std::array::from_fn(|_| std::array::from_fn(|_| t.next().unwrap())); let m = <$M>::from_col_arrays(arr); let d = take_drops(); writeln!($w, "conv {}_from_col_arrays {} {} => {}|{}", $name, nn, col_arg, ids(&store(&m)), ids(&d)).unwrap(); }
    take_drops();
    // slice / pointer views alias the matrix's own storage, one entry per element in storage order
    {
        let mut m: $M = mkv(nn);
        let addrs: Vec<*const Tok> = m.$lines.iter().flat_map(|l| l.iter().map(|t| t as *const Tok)).collect();
        let find = |p: *const Tok| -> String { match addrs.iter().position(|a| *a == p) { Some(k) => k.to_string(), None => "?".to_string() } };
        let line = |s: &[Tok]| -> String { if s.len() != nn { format!("len{}", s.len()) } else { s.iter().map(|t| find(t as *const Tok)).collect::<Vec<_>>().join(".") } };
        writeln!($w, "alias {}_as_slice {} - => {}", $name, nn, line(mat_slice!($lines, m))).unwrap();
        let ms: Vec<*const Tok> = mat_slice_mut!($lines, m).iter_mut().map(|t| { let q: *const Tok = t; q }).collect();
        writeln!($w, "alias {}_as_mut_slice {} - => {}", $name, nn, ms.iter().map(|q| find(*q)).collect::<Vec<_>>().join(".")).unwrap();
        let p0 = mat_ptr!($lines, m);
        writeln!($w, "alias {}_as_ptr {} - => {}", $name, nn, (0..nn).map(|k| find(unsafe { p0.add(k) })).collect::<Vec<_>>().join(".")).unwrap();
        // every element read through the view (an interpreter that tracks provenance checks these accesses)
        let sum: u32 = mat_slice!($lines, m).iter().map(|t| t.id).sum();
        let _ = sum;
        drop(m); take_drops();
    }
}}; }

pub fn run(tier: &str, seed: u64) {
    let out = std::io::stdout(); let mut w = std::io::BufWriter::new(out.lock());
    let mut rng = Rng(0x9E3779B97F4A7C15 ^ seed.wrapping_mul(0xD1342543DE82EF95));
    macro_rules! all { ($ty:expr, $V:ident, $n:expr, [$($i:tt)+]; $($f:tt)+) => {
        iter_ty!(&mut w, $ty, $V, $n, tier, &mut rng); conv_ty!(&mut w, $ty, $V, $n, [$($i)+]); alias_ty!(&mut w, $ty, $V, $n; $($f)+);
    } }
    all!("vec2", Vec2, 2, [0 1]; x y); all!("vec3", Vec3, 3, [0 1 2]; x y z); all!("vec4", Vec4, 4, [0 1 2 3]; x y z w);
    all!("extent2", Extent2, 2, [0 1]; w h); all!("extent3", Extent3, 3, [0 1 2]; w h d);
    all!("rgb", Rgb, 3, [0 1 2]; r g b); all!("rgba", Rgba, 4, [0 1 2 3]; r g b a); all!("uv", Uv, 2, [0 1]; u v); all!("uvw", Uvw, 3, [0 1 2]; u v w);
    all!("vec8", Vec8, 8, [0 1 2 3 4 5 6 7]; 0 1 2 3 4 5 6 7);
    if tier != "miriq" {   // the interpreted quick run leaves the 16/32/64-lane types to the other tiers
    all!("vec16", Vec16, 16, [0 1 2 3 4 5 6 7 8 9 10 11 12 13 14 15]; 0 1 2 3 4 5 6 7 8 9 10 11 12 13 14 15);
    all!("vec32", Vec32, 32, [0 1 2 3 4 5 6 7 8 9 10 11 12 13 14 15 16 17 18 19 20 21 22 23 24 25 26 27 28 29 30 31]; 0 1 2 3 4 5 6 7 8 9 10 11 12 13 14 15 16 17 18 19 20 21 22 23 24 25 26 27 28 29 30 31);
    all!("vec64", Vec64, 64, [0 1 2 3 4 5 6 7 8 9 10 11 12 13 14 15 16 17 18 19 20 21 22 23 24 25 26 27 28 29 30 31 32 33 34 35 36 37 38 39 40 41 42 43 44 45 46 47 48 49 50 51 52 53 54 55 56 57 58 59 60 61 62 63]; 0 1 2 3 4 5 6 7 8 9 10 11 12 13 14 15 16 17 18 19 20 21 22 23 24 25 26 27 28 29 30 31 32 33 34 35 36 37 38 39 40 41 42 43 44 45 46 47 48 49 50 51 52 53 54 55 56 57 58 59 60 61 62 63);
    }
    // remaining unsafe code of the matrices: Display reads elements with get_unchecked (executed for the interpreted run; prints nothing)
    { let a = format!("{}{}{}", rm::Mat2::<i32>::identity(), rm::Mat3::<i32>::identity(), rm::Mat4::<i32>::identity());
      let b = format!("{}{}{}", cm::Mat2::<i32>::identity(), cm::Mat3::<i32>::identity(), cm::Mat4::<i32>::identity());
      assert_eq!(a, b); }
    mat_ty!(&mut w, "mat2r", rm::Mat2<Tok>, 2, rows, "r", [0 1 2 3], [0 1]); mat_ty!(&mut w, "mat3r", rm::Mat3<Tok>, 3, rows, "r", [0 1 2 3 4 5 6 7 8], [0 1 2]);
    mat_ty!(&mut w, "mat4r", rm::Mat4<Tok>, 4, rows, "r", [0 1 2 3 4 5 6 7 8 9 10 11 12 13 14 15], [0 1 2 3]);
    mat_ty!(&mut w, "mat2c", cm::Mat2<Tok>, 2, cols, "c", [0 1 2 3], [0 1]); mat_ty!(&mut w, "mat3c", cm::Mat3<Tok>, 3, cols, "c", [0 1 2 3 4 5 6 7 8], [0 1 2]);
    mat_ty!(&mut w, "mat4c", cm::Mat4<Tok>, 4, cols, "c", [0 1 2 3 4 5 6 7 8 9 10 11 12 13 14 15], [0 1 2 3]);
}
