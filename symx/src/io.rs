//! Reading/writing vek values from/to flat scalar lists in *storage order*, through public fields only
//! (never through the API under test).
#![allow(dead_code)]
use vek::vec::repr_c::*;
use vek::mat::repr_c::row_major as rm;
use vek::mat::repr_c::column_major as cm;
use vek::quaternion::repr_c::Quaternion;

pub trait Flat<T>: Sized {
    const N: usize;
    fn rd(a: &[T]) -> Self;
    fn wr(&self, out: &mut Vec<T>);
    fn flat(&self) -> Vec<T> { let mut v = vec![]; self.wr(&mut v); v }
}

macro_rules! flat_struct {
    ($V:ident $n:expr; $($f:ident)+) => {
        impl<T: Clone> Flat<T> for $V<T> {
            const N: usize = $n;
            fn rd(a: &[T]) -> Self { let mut k = 0; $( let $f = a[k].clone(); k += 1; )+ let _ = k; $V { $($f),+ } }
            fn wr(&self, out: &mut Vec<T>) { $( out.push(self.$f.clone()); )+ }
        }
    }
}
flat_struct!(Vec2 2; x y);
flat_struct!(Vec3 3; x y z);
flat_struct!(Vec4 4; x y z w);
flat_struct!(Extent2 2; w h);
flat_struct!(Extent3 3; w h d);
flat_struct!(Rgb 3; r g b);
flat_struct!(Rgba 4; r g b a);
flat_struct!(Uv 2; u v);
flat_struct!(Uvw 3; u v w);
flat_struct!(Quaternion 4; x y z w);

macro_rules! flat_tuple {
    ($V:ident $n:expr; $($i:tt)+) => {
        impl<T: Clone> Flat<T> for $V<T> {
            const N: usize = $n;
            fn rd(a: &[T]) -> Self { $V($(a[$i].clone()),+) }
            fn wr(&self, out: &mut Vec<T>) { $( out.push(self.$i.clone()); )+ }
        }
    }
}
#[cfg(feature = "wide")] flat_tuple!(Vec8 8; 0 1 2 3 4 5 6 7);
#[cfg(feature = "wide")] flat_tuple!(Vec16 16; 0 1 2 3 4 5 6 7 8 9 10 11 12 13 14 15);
#[cfg(feature = "wide")] flat_tuple!(Vec32 32; 0 1 2 3 4 5 6 7 8 9 10 11 12 13 14 15 16 17 18 19 20 21 22 23 24 25 26 27 28 29 30 31);
#[cfg(feature = "wide")] flat_tuple!(Vec64 64; 0 1 2 3 4 5 6 7 8 9 10 11 12 13 14 15 16 17 18 19 20 21 22 23 24 25 26 27 28 29 30 31 32 33 34 35 36 37 38 39 40 41 42 43 44 45 46 47 48 49 50 51 52 53 54 55 56 57 58 59 60 61 62 63);

macro_rules! flat_mat {
    ($M:ident $lines:ident $V:ident $n:expr; $($f:ident)+) => {
        impl<T: Clone> Flat<T> for $M<T> {
            const N: usize = $n * $n;
            fn rd(a: &[T]) -> Self { let mut k = 0; $( let $f = <$V<T> as Flat<T>>::rd(&a[k..k + $n]); k += $n; )+ let _ = k; $M { $lines: $V { $($f),+ } } }
            fn wr(&self, out: &mut Vec<T>) { $( self.$lines.$f.wr(out); )+ }
        }
    }
}
use rm::Mat2 as RMat2; use rm::Mat3 as RMat3; use rm::Mat4 as RMat4;
use cm::Mat2 as CMat2; use cm::Mat3 as CMat3; use cm::Mat4 as CMat4;
flat_mat!(RMat2 rows Vec2 2; x y);
flat_mat!(RMat3 rows Vec3 3; x y z);
flat_mat!(RMat4 rows Vec4 4; x y z w);
flat_mat!(CMat2 cols Vec2 2; x y);
flat_mat!(CMat3 cols Vec3 3; x y z);
flat_mat!(CMat4 cols Vec4 4; x y z w);

/// read a value at offset `*k`, advancing it
pub fn take<T, V: Flat<T>>(a: &[T], k: &mut usize) -> V { let v = V::rd(&a[*k..*k + V::N]); *k += V::N; v }

// ---- geometry ----
use vek::geom::repr_c::{Aabr, Aabb, Rect, Rect3, Disk, Sphere, LineSegment2, LineSegment3, Ray};
impl<T: Clone> Flat<T> for Aabr<T> {
    const N: usize = 4;
    fn rd(a: &[T]) -> Self { Aabr { min: Flat::rd(&a[0..2]), max: Flat::rd(&a[2..4]) } }
    fn wr(&self, out: &mut Vec<T>) { self.min.wr(out); self.max.wr(out); }
}
impl<T: Clone> Flat<T> for Aabb<T> {
    const N: usize = 6;
    fn rd(a: &[T]) -> Self { Aabb { min: Flat::rd(&a[0..3]), max: Flat::rd(&a[3..6]) } }
    fn wr(&self, out: &mut Vec<T>) { self.min.wr(out); self.max.wr(out); }
}
impl<T: Clone> Flat<T> for Rect<T, T> {
    const N: usize = 4;
    fn rd(a: &[T]) -> Self { Rect { x: a[0].clone(), y: a[1].clone(), w: a[2].clone(), h: a[3].clone() } }
    fn wr(&self, out: &mut Vec<T>) { out.push(self.x.clone()); out.push(self.y.clone()); out.push(self.w.clone()); out.push(self.h.clone()); }
}
impl<T: Clone> Flat<T> for Rect3<T, T> {
    const N: usize = 6;
    fn rd(a: &[T]) -> Self { Rect3 { x: a[0].clone(), y: a[1].clone(), z: a[2].clone(), w: a[3].clone(), h: a[4].clone(), d: a[5].clone() } }
    fn wr(&self, out: &mut Vec<T>) { for v in [&self.x, &self.y, &self.z, &self.w, &self.h, &self.d] { out.push(v.clone()); } }
}
impl<T: Clone> Flat<T> for Disk<T, T> {
    const N: usize = 3;
    fn rd(a: &[T]) -> Self { Disk { center: Flat::rd(&a[0..2]), radius: a[2].clone() } }
    fn wr(&self, out: &mut Vec<T>) { self.center.wr(out); out.push(self.radius.clone()); }
}
impl<T: Clone> Flat<T> for Sphere<T, T> {
    const N: usize = 4;
    fn rd(a: &[T]) -> Self { Sphere { center: Flat::rd(&a[0..3]), radius: a[3].clone() } }
    fn wr(&self, out: &mut Vec<T>) { self.center.wr(out); out.push(self.radius.clone()); }
}
impl<T: Clone> Flat<T> for LineSegment2<T> {
    const N: usize = 4;
    fn rd(a: &[T]) -> Self { LineSegment2 { start: Flat::rd(&a[0..2]), end: Flat::rd(&a[2..4]) } }
    fn wr(&self, out: &mut Vec<T>) { self.start.wr(out); self.end.wr(out); }
}
impl<T: Clone> Flat<T> for LineSegment3<T> {
    const N: usize = 6;
    fn rd(a: &[T]) -> Self { LineSegment3 { start: Flat::rd(&a[0..3]), end: Flat::rd(&a[3..6]) } }
    fn wr(&self, out: &mut Vec<T>) { self.start.wr(out); self.end.wr(out); }
}
impl<T: Clone> Flat<T> for Ray<T> {
    const N: usize = 6;
    fn rd(a: &[T]) -> Self { Ray { origin: Flat::rd(&a[0..3]), direction: Flat::rd(&a[3..6]) } }
    fn wr(&self, out: &mut Vec<T>) { self.origin.wr(out); self.direction.wr(out); }
}

// ---- Bezier curves: control points in declaration order ----
use vek::bezier::repr_c::{QuadraticBezier2, QuadraticBezier3, CubicBezier2, CubicBezier3};
macro_rules! flat_bez {
    ($B:ident $V:ident $d:expr; $($f:ident)+) => {
        impl<T: Clone> Flat<T> for $B<T> {
            const N: usize = $d * [$(stringify!($f)),+].len();
            fn rd(a: &[T]) -> Self { let mut k = 0; $( let $f: $V<T> = Flat::rd(&a[k..k + $d]); k += $d; )+ let _ = k; $B { $($f),+ } }
            fn wr(&self, out: &mut Vec<T>) { $( self.$f.wr(out); )+ }
        }
    }
}
flat_bez!(QuadraticBezier2 Vec2 2; start ctrl end);
flat_bez!(QuadraticBezier3 Vec3 3; start ctrl end);
flat_bez!(CubicBezier2 Vec2 2; start ctrl0 ctrl1 end);
flat_bez!(CubicBezier3 Vec3 3; start ctrl0 ctrl1 end);
