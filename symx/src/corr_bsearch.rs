//! Engine B driver for C15: the real `binary_search_point` / `_by_steps` on exact dyadic rationals.
//! One case per line: `bs <name> <d> <deg> <k> <control points> <query> <h> <eps> <k samples (t, point)> => t | point`.
use crate::Rng;
use crate::dyadic::Dy;
use crate::io::Flat;
use std::io::Write;
use vek::vec::repr_c::{Vec2, Vec3};
use vek::bezier::repr_c::{QuadraticBezier2, QuadraticBezier3, CubicBezier2, CubicBezier3};

fn coord(rng: &mut Rng) -> Dy { Dy::new((rng.below(33) as i128) - 16, (rng.below(3)) as u32) }
fn fr(v: &[Dy]) -> String { v.iter().map(|x| x.frac()).collect::<Vec<_>>().join(" ") }

macro_rules! run_ty { ($w:expr, $name:expr, $B:ty, $V:ty, $d:expr, $deg:expr, $cases:expr, $rng:expr) => {{
    let d: usize = $d; let npt: usize = $deg + 1;
    for case in 0..$cases {
        let cps: Vec<Dy> = (0..d * npt).map(|_| coord($rng)).collect();
        let q: Vec<Dy> = (0..d).map(|_| coord($rng)).collect();
        let c: $B = Flat::rd(&cps); let qp: $V = Flat::rd(&q);
        let h = [Dy::new(1, 2), Dy::new(1, 3), Dy::new(3, 4), Dy::new(1, 1), Dy::new(1, 4)][$rng.below(5) as usize];
        let eps = [Dy::new(1, 2), Dy::new(1, 3), Dy::new(1, 4), Dy::new(1, 5), Dy::new(1, 6)][$rng.below(5) as usize];
        if case % 4 == 3 {
            // by_steps with a power-of-two step count: the samples are (i/steps, evaluate(i/steps)), h = 1/(2*steps)
            let steps = [1u16, 2, 4, 8][$rng.below(4) as usize];
            let r = std::panic::catch_unwind(|| c.binary_search_point_by_steps(qp, steps, eps));
            let mut samples = vec![]; for i in 0..steps { let t = Dy::int(i as i128) / Dy::int(steps as i128); samples.push(t); samples.extend(c.evaluate(t).flat()); }
            let hh = Dy::int(1) / Dy::int(2 * steps as i128);
            let line = format!("bs {}_by_steps {} {} {} {} {} {} {} {}", $name, d, $deg, steps, fr(&cps), fr(&q), hh.frac(), eps.frac(), fr(&samples));
            match r { Ok((t, pt)) => writeln!($w, "{} => {} | {}", line.trim_end(), t.frac(), fr(&pt.flat())).unwrap(), Err(_) => writeln!($w, "{} => panic", line.trim_end()).unwrap() }
        } else {
            let k = $rng.below(4) as usize;
            let mut coarse = vec![]; let mut samples = vec![];
            for _ in 0..k { let t = Dy::new(($rng.below(13) as i128) - 2, 3);
                let pt: $V = if $rng.below(6) == 0 { let v: Vec<Dy> = (0..d).map(|_| coord($rng)).collect(); Flat::rd(&v) } else { c.evaluate(t) };
                samples.push(t); samples.extend(pt.flat()); coarse.push((t, pt)); }
            let r = std::panic::catch_unwind(|| c.binary_search_point(qp, coarse.clone(), h, eps));
            let line = format!("bs {} {} {} {} {} {} {} {} {}", $name, d, $deg, k, fr(&cps), fr(&q), h.frac(), eps.frac(), fr(&samples));
            match r { Ok((t, pt)) => writeln!($w, "{} => {} | {}", line.trim_end(), t.frac(), fr(&pt.flat())).unwrap(), Err(_) => writeln!($w, "{} => panic", line.trim_end()).unwrap() }
        }
    }
}}; }

pub fn run(tier: &str, seed: u64) {
    let out = std::io::stdout(); let mut w = std::io::BufWriter::new(out.lock());
    let mut rng = Rng(0x9E3779B97F4A7C15 ^ seed.wrapping_mul(0xD1342543DE82EF95));
    let n = if tier == "thorough" { 20000 } else { 1500 };
    run_ty!(&mut w, "quad2", QuadraticBezier2<Dy>, Vec2<Dy>, 2, 2, n, &mut rng);
    run_ty!(&mut w, "quad3", QuadraticBezier3<Dy>, Vec3<Dy>, 3, 2, n, &mut rng);
    run_ty!(&mut w, "cubic2", CubicBezier2<Dy>, Vec2<Dy>, 2, 3, n, &mut rng);
    run_ty!(&mut w, "cubic3", CubicBezier3<Dy>, Vec3<Dy>, 3, 3, n, &mut rng);
}
