//! Gallina printer: one deep-embedded `prog` per entry point.
#![allow(dead_code)]
use crate::sym::*;
use crate::explore::*;
use std::collections::{BTreeSet, HashMap};
use std::fmt::Write;

/// shortest-decimal rational p/q of a finite f64
pub fn rational(x: f64) -> (i128, u128) {
    if x == x.trunc() && x.abs() < 1e18 { return (x as i128, 1); }
    // dyadic with small denominator?
    let mut q: u128 = 1; let mut y = x;
    for _ in 0..40 { if y == y.trunc() && y.abs() < 1e18 { return (y as i128, q); } y *= 2.0; q *= 2; }
    let s = format!("{}", x); // shortest round-trip decimal
    let neg = s.starts_with('-');
    let s = s.trim_start_matches('-');
    assert!(!s.contains('e') && !s.contains('E'), "symx: unsupported constant {}", x);
    let (ip, fp) = match s.find('.') { Some(k) => (&s[..k], &s[k + 1..]), None => (s, "") };
    let mut p: i128 = format!("{}{}", ip, fp).parse().unwrap();
    let mut q: u128 = 10u128.pow(fp.len() as u32);
    fn gcd(a: u128, b: u128) -> u128 { if b == 0 { a } else { gcd(b, a % b) } }
    let g = gcd(p as u128, q);
    p /= g as i128; q /= g;
    (if neg { -p } else { p }, q)
}

fn reach(nodes: &[Node], i: u32, set: &mut BTreeSet<u32>) {
    if set.contains(&i) { return; }
    set.insert(i);
    match &nodes[i as usize] {
        Node::Un(_, a) | Node::Powi(a, _) => reach(nodes, *a, set),
        Node::Bin(_, a, b) => { reach(nodes, *a, set); reach(nodes, *b, set); }
        Node::Fma(a, b, c) => { reach(nodes, *a, set); reach(nodes, *b, set); reach(nodes, *c, set); }
        Node::Fun(_, args) => for a in args { reach(nodes, *a, set); },
        _ => {}
    }
}
fn reach_tree(nodes: &[Node], t: &Tree, set: &mut BTreeSet<u32>) {
    match t {
        Tree::Ret(o) => for v in &o.vals { reach(nodes, *v, set); },
        Tree::If(c, a, b) => { reach(nodes, c.a, set); reach(nodes, c.b, set); reach_tree(nodes, a, set); reach_tree(nodes, b, set); }
        _ => {}
    }
}

fn is_atom(n: &Node) -> bool { matches!(n, Node::Var(_) | Node::Const(_) | Node::Named(_)) }

pub struct Emitted { pub text: String, pub n_nodes: usize }

pub fn emit_prog(name: &str, nin: usize, nodes: &[Node], tree: &Tree) -> Emitted {
    let mut set = BTreeSet::new();
    reach_tree(nodes, tree, &mut set);
    let mut idx: HashMap<u32, usize> = HashMap::new();
    let mut order = vec![];
    for i in &set { if !is_atom(&nodes[*i as usize]) { idx.insert(*i, order.len()); order.push(*i); } }
    let atom = |i: u32| -> String {
        match &nodes[i as usize] {
            Node::Var(k) => format!("(AVar {})", k),
            Node::Const(b) => { let (p, q) = rational(f64::from_bits(*b)); if p < 0 { format!("(ACst ({}) {})", p, q) } else { format!("(ACst {} {})", p, q) } }
            Node::Named(s) => format!("(ANamed N{})", s),
            _ => format!("(ARef {})", idx[&i]),
        }
    };
    let mut s = String::new();
    write!(s, "Definition p_{} : prog := {{| p_nin := {}; p_nodes := [", name, nin).unwrap();
    for (k, i) in order.iter().enumerate() {
        if k > 0 { s.push_str(";"); }
        s.push_str("\n  ");
        match &nodes[*i as usize] {
            Node::Un(op, a) => write!(s, "N1 O{:?} {}", op, atom(*a)).unwrap(),
            Node::Bin(op, a, b) => write!(s, "N2 O{:?} {} {}", op, atom(*a), atom(*b)).unwrap(),
            Node::Fma(a, b, c) => write!(s, "NFma {} {} {}", atom(*a), atom(*b), atom(*c)).unwrap(),
            Node::Powi(a, n) => write!(s, "NPowi {} ({})", atom(*a), n).unwrap(),
            Node::Fun(id, args) => { write!(s, "NFun {} [", id).unwrap(); for (j, a) in args.iter().enumerate() { if j > 0 { s.push_str("; "); } s.push_str(&atom(*a)); } s.push_str("]"); }
            _ => unreachable!(),
        }
    }
    s.push_str("];\n  p_tree := ");
    fn pt(t: &Tree, s: &mut String, atom: &dyn Fn(u32) -> String, ind: usize) {
        match t {
            Tree::Panic(_) => s.push_str("DPanic"),
            Tree::Cut => s.push_str("DCut"),
            Tree::Ret(o) => {
                s.push_str("DRet [");
                for (j, f) in o.flags.iter().enumerate() { if j > 0 { s.push_str("; "); } if *f < 0 { write!(s, "({})", f).unwrap() } else { write!(s, "{}", f).unwrap() } }
                s.push_str("]%Z [");
                for (j, v) in o.vals.iter().enumerate() { if j > 0 { s.push_str("; "); } s.push_str(&atom(*v)); }
                s.push_str("]");
            }
            Tree::If(c, a, b) => {
                let k = match c.kind { CondKind::Lt => "CLt", CondKind::Eq => "CEq" };
                write!(s, "DIf ({} {} {})\n{:ind$}(", k, atom(c.a), atom(c.b), "", ind = ind).unwrap();
                pt(a, s, atom, ind + 1);
                write!(s, ")\n{:ind$}(", "", ind = ind).unwrap();
                pt(b, s, atom, ind + 1);
                s.push_str(")");
            }
        }
    }
    pt(tree, &mut s, &atom, 2);
    s.push_str(" |}.\n");
    Emitted { text: s, n_nodes: order.len() }
}
