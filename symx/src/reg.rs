//! Entry-point registry: each entry is the same closure body compiled for `Sym` (translation) and for
//! `f64` (the real code on concrete inputs, used by the self-check and by replay).
#![allow(dead_code)]
use crate::sym::Sym;
use crate::explore::Out;

#[derive(Clone, Copy, Debug, PartialEq)]
pub enum Dom { Mixed, Positive, Unit01, SmallInt, NonZero }

pub struct Entry {
    pub name: String,
    pub nin: usize,
    pub sym: Box<dyn Fn(&[Sym]) -> Out<Sym>>,
    pub f64: Option<Box<dyn Fn(&[f64]) -> Out<f64>>>,
    pub budget: usize,
    pub dom: Dom,
    /// machine-integer entry: (signed, real 8-bit implementation run on the same inputs; None = panic)
    pub int: Option<(bool, Box<dyn Fn(&[i64]) -> Option<Out<i64>>>)>,
    /// inputs satisfying the precondition of this entry's theorems (used by the witness search so that a
    /// reported input is one on which the property actually speaks)
    pub pre: Option<Box<dyn Fn(u64) -> Vec<f64>>>,
    /// the same body compiled for `i64`, for entries whose traits f64 lacks (bit operations, shifts, `Ord`)
    pub i64f: Option<Box<dyn Fn(&[i64]) -> Out<i64>>>,
}

pub struct Reg { pub entries: Vec<Entry> }
impl Reg {
    pub fn new() -> Self { Reg { entries: vec![] } }
    pub fn add(&mut self, name: &str, nin: usize, sym: Box<dyn Fn(&[Sym]) -> Out<Sym>>, f: Option<Box<dyn Fn(&[f64]) -> Out<f64>>>) -> &mut Entry {
        assert!(!self.entries.iter().any(|e| e.name == name), "duplicate entry {}", name);
        self.entries.push(Entry { name: name.to_string(), nin, sym, f64: f, budget: 100_000, dom: Dom::Mixed, int: None, pre: None, i64f: None });
        self.entries.last_mut().unwrap()
    }
}

/// literal constants usable from both instantiations
pub trait Lit: Sized { fn lit(x: f64) -> Self; fn fold_constants() {} }
impl Lit for Sym { fn lit(x: f64) -> Sym { Sym::c(x) } fn fold_constants() { crate::sym::set_fold(true); } }
impl Lit for f64 { fn lit(x: f64) -> f64 { x } }

/// abstract function symbols usable from both instantiations
pub trait Uf: Sized + Copy { fn uf(id: u32, args: &[Self]) -> Self; }
impl Uf for Sym { fn uf(id: u32, args: &[Sym]) -> Sym { Sym::fun(id, args) } }
impl Uf for f64 { fn uf(id: u32, args: &[f64]) -> f64 { crate::eval::ufun_f64(id, args) } }

#[macro_export]
macro_rules! ep {
    ($reg:expr, $name:expr, $nin:expr, |$a:ident| $body:block) => {
        $reg.add(&$name, $nin,
            Box::new(move |$a: &[$crate::sym::Sym]| -> $crate::explore::Out<$crate::sym::Sym> { #[allow(dead_code)] type T = $crate::sym::Sym; $body }),
            Some(Box::new(move |$a: &[f64]| -> $crate::explore::Out<f64> { #[allow(dead_code)] type T = f64; $body })))
    };
}
/// symbolic only (no concrete counterpart, e.g. needs traits f64 lacks)
#[macro_export]
macro_rules! ep_sym {
    ($reg:expr, $name:expr, $nin:expr, |$a:ident| $body:block) => {
        $reg.add(&$name, $nin,
            Box::new(move |$a: &[$crate::sym::Sym]| -> $crate::explore::Out<$crate::sym::Sym> { #[allow(dead_code)] type T = $crate::sym::Sym; $body }),
            None)
    };
}

/// symbolic + the real code on `i64` (traits f64 lacks: bit operations, shifts, `Ord`)
#[macro_export]
macro_rules! ep_symi {
    ($reg:expr, $name:expr, $nin:expr, |$a:ident| $body:block) => {{
        let e = $reg.add(&$name, $nin,
            Box::new(move |$a: &[$crate::sym::Sym]| -> $crate::explore::Out<$crate::sym::Sym> { #[allow(dead_code)] type T = $crate::sym::Sym; $body }),
            None);
        e.i64f = Some(Box::new(move |$a: &[i64]| -> $crate::explore::Out<i64> { #[allow(dead_code)] type T = i64; $body }));
        e
    }};
}

/// integer entries: the body is compiled for the symbolic integer `$S` and for the real 8-bit type `$I`
#[macro_export]
macro_rules! ep_int {
    ($reg:expr, $name:expr, $nin:expr, $signed:expr, $S:ty, $I:ty, |$a:ident| $body:block) => {{
        let e = $reg.add(&$name, $nin,
            Box::new(move |inp: &[$crate::sym::Sym]| -> $crate::explore::Out<$crate::sym::Sym> {
                #[allow(dead_code)] type T = $S;
                $crate::sym::set_eager(true);
                let $a: Vec<T> = inp.iter().map(|s| <$S>::from(*s)).collect();
                let r: Vec<T> = $body;
                $crate::explore::Out::of(r.iter().map(|x| x.0).collect()) }),
            None);
        e.int = Some(($signed, Box::new(move |inp: &[i64]| -> Option<$crate::explore::Out<i64>> {
                #[allow(dead_code)] type T = $I;
                let $a: Vec<T> = inp.iter().map(|x| *x as $I).collect();
                std::panic::catch_unwind(std::panic::AssertUnwindSafe(|| { let r: Vec<T> = $body; $crate::explore::Out::of(r.iter().map(|x| *x as i64).collect()) })).ok() })));
    }};
}
