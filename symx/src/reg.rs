//! Entry-point registry: each entry is the same closure body compiled for `Sym` (translation) and for
//! `f64` (the real code on concrete inputs, used by the self-check and by replay).
#![allow(dead_code)]
use crate::sym::Sym;
use crate::explore::Out;

#[derive(Clone, Copy, Debug, PartialEq)]
pub enum Dom { Mixed, Positive, Unit01, SmallInt }

pub struct Entry {
    pub name: String,
    pub nin: usize,
    pub sym: Box<dyn Fn(&[Sym]) -> Out<Sym>>,
    pub f64: Option<Box<dyn Fn(&[f64]) -> Out<f64>>>,
    pub budget: usize,
    pub dom: Dom,
}

pub struct Reg { pub entries: Vec<Entry> }
impl Reg {
    pub fn new() -> Self { Reg { entries: vec![] } }
    pub fn add(&mut self, name: &str, nin: usize, sym: Box<dyn Fn(&[Sym]) -> Out<Sym>>, f: Option<Box<dyn Fn(&[f64]) -> Out<f64>>>) -> &mut Entry {
        assert!(!self.entries.iter().any(|e| e.name == name), "duplicate entry {}", name);
        self.entries.push(Entry { name: name.to_string(), nin, sym, f64: f, budget: 100_000, dom: Dom::Mixed });
        self.entries.last_mut().unwrap()
    }
}

/// abstract function symbols usable from both instantiations
pub trait Uf: Sized + Copy { fn uf(id: u32, args: &[Self]) -> Self; }
impl Uf for Sym { fn uf(id: u32, args: &[Sym]) -> Sym { Sym::fun(id, args) } }
impl Uf for f64 { fn uf(id: u32, args: &[f64]) -> f64 { crate::eval::ufun_f64(id, args) } }

#[macro_export]
macro_rules! ep {
    ($reg:expr, $name:expr, $nin:expr, |$a:ident| $body:block) => {
        $reg.add(&$name, $nin,
            Box::new(move |$a: &[$crate::sym::Sym]| -> $crate::explore::Out<$crate::sym::Sym> { #[allow(dead_code)] type T = $crate::sym::Sym; $body }),
            Some(Box::new(move |$a: &[f64]| -> $crate::explore::Out<f64> { #[allow(dead_code)] type T = f64; $body })))
    };
}
/// symbolic only (no concrete counterpart, e.g. needs traits f64 lacks)
#[macro_export]
macro_rules! ep_sym {
    ($reg:expr, $name:expr, $nin:expr, |$a:ident| $body:block) => {
        $reg.add(&$name, $nin,
            Box::new(move |$a: &[$crate::sym::Sym]| -> $crate::explore::Out<$crate::sym::Sym> { #[allow(dead_code)] type T = $crate::sym::Sym; $body }),
            None)
    };
}
