//! Interpreter of recorded DAGs / decision trees over f64 (translator self-check and replay).
#![allow(dead_code)]
use crate::sym::*;
use crate::explore::*;
use std::collections::HashMap;

pub fn ufun_f64(id: u32, args: &[f64]) -> f64 {
    // fixed concrete stand-in for the abstract function symbols (same on both sides of the self-check)
    let mut acc = 0.375 + id as f64;
    for (i, x) in args.iter().enumerate() { acc = acc * 0.5 + x * (i as f64 + 1.25); }
    // symbols that carry a scalar-level boolean (C20: is-Some / overflowed / approximately-equal): 0 or 1, so that
    // both outcomes occur when programs are compared on concrete inputs
    let is_flag = matches!(id, 100 | 102 | 104 | 106 | 108 | 110 | 112 | 114 | 221 | 223 | 225 | 240 | 241 | 242 | 251 | 261 | 266);
    if is_flag { let h = (acc * 64.0).floor() as i64; return if h.rem_euclid(3) == 0 { 0.0 } else { 1.0 }; }
    acc
}

pub struct Ev<'a> { pub env: &'a [f64], pub memo: HashMap<u32, f64>, pub nodes: &'a [Node], pub saw_nan: bool }

impl<'a> Ev<'a> {
    pub fn new(env: &'a [f64], nodes: &'a [Node]) -> Self { Ev { env, memo: HashMap::new(), nodes, saw_nan: false } }
    pub fn val(&mut self, i: u32) -> f64 {
        if let Some(v) = self.memo.get(&i) { return *v; }
        let n = self.nodes[i as usize].clone();
        let v = match n {
            Node::Var(k) => self.env[k as usize],
            Node::Const(b) => f64::from_bits(b),
            Node::Named(s) => match s {
                "eps" => f64::EPSILON, "pi" => std::f64::consts::PI, "full" => 1.0, "inf" => f64::INFINITY,
                "minv" => f64::MIN, "maxv" => f64::MAX, "minpos" => f64::MIN_POSITIVE, _ => panic!("named {}", s) },
            Node::Un(op, a) => { let x = self.val(a); match op {
                Op1::Neg => -x, Op1::Sqrt => x.sqrt(), Op1::Sin => x.sin(), Op1::Cos => x.cos(), Op1::Tan => x.tan(),
                Op1::Asin => x.asin(), Op1::Acos => x.acos(), Op1::Atan => x.atan(), Op1::Floor => x.floor(),
                Op1::Ceil => x.ceil(), Op1::Round => x.round(), Op1::Trunc => x.trunc(), Op1::Abs => x.abs(),
                Op1::Signum => x.signum(), Op1::Exp => x.exp(), Op1::Ln => x.ln(), Op1::Not => !(x as i64) as f64 } }
            Node::Bin(op, a, b) => { let x = self.val(a); let y = self.val(b); match op {
                Op2::Add => x + y, Op2::Sub => x - y, Op2::Mul => x * y, Op2::Div => x / y, Op2::Rem => x % y,
                Op2::Min => x.min(y), Op2::Max => x.max(y), Op2::Atan2 => x.atan2(y), Op2::Powf => x.powf(y),
                // bit operations: a fixed concrete stand-in on the integer parts (used only to exhibit model-level differences)
                Op2::And => ((x as i64) & (y as i64)) as f64, Op2::Or => ((x as i64) | (y as i64)) as f64, Op2::Xor => ((x as i64) ^ (y as i64)) as f64,
                Op2::Shl => (x as i64).wrapping_shl((y as i64 & 31) as u32) as f64, Op2::Shr => (x as i64).wrapping_shr((y as i64 & 31) as u32) as f64 } }
            Node::Fma(a, b, c) => { let x = self.val(a); let y = self.val(b); let z = self.val(c); x.mul_add(y, z) }
            Node::Powi(a, n) => self.val(a).powi(n),
            Node::Fun(id, args) => { let xs: Vec<f64> = args.iter().map(|a| self.val(*a)).collect(); ufun_f64(id, &xs) }
        };
        if v.is_nan() { self.saw_nan = true; }
        self.memo.insert(i, v);
        v
    }
    pub fn cond(&mut self, c: &Cond) -> bool {
        let x = self.val(c.a); let y = self.val(c.b);
        match c.kind { CondKind::Lt => x < y, CondKind::Eq => x == y }
    }
    /// None = Panic leaf; Err = Cut
    pub fn tree(&mut self, t: &Tree) -> Result<Option<Out<f64>>, ()> {
        match t {
            Tree::Panic(_) => Ok(None),
            Tree::Cut => Err(()),
            Tree::Ret(o) => Ok(Some(Out { flags: o.flags.clone(), vals: o.vals.iter().map(|v| self.val(*v)).collect() })),
            Tree::If(c, a, b) => if self.cond(c) { self.tree(a) } else { self.tree(b) },
        }
    }
}

/// Interpreter over i64 for the entries that have no f64 counterpart (bit operations, shifts, `Ord`): the recorded DAG is
/// evaluated with Rust's own integer operations; `None` = the evaluation left the domain where the real code is defined
/// without panicking (overflow, shift amount out of range, division by zero), such samples are skipped by the self-check.
pub struct EvZ<'a> { pub env: &'a [i64], pub memo: HashMap<u32, Option<i64>>, pub nodes: &'a [Node] }
impl<'a> EvZ<'a> {
    pub fn new(env: &'a [i64], nodes: &'a [Node]) -> Self { EvZ { env, memo: HashMap::new(), nodes } }
    pub fn val(&mut self, i: u32) -> Option<i64> {
        if let Some(v) = self.memo.get(&i) { return *v; }
        let n = self.nodes[i as usize].clone();
        let v = match n {
            Node::Var(k) => Some(self.env[k as usize]),
            Node::Const(b) => { let f = f64::from_bits(b); if f.fract() == 0.0 && f.abs() < 1e15 { Some(f as i64) } else { None } }
            Node::Un(op, a) => { let x = self.val(a)?; match op { Op1::Neg => x.checked_neg(), Op1::Not => Some(!x), Op1::Abs => x.checked_abs(), _ => None } }
            Node::Bin(op, a, b) => { let x = self.val(a)?; let y = self.val(b)?; match op {
                Op2::Add => x.checked_add(y), Op2::Sub => x.checked_sub(y), Op2::Mul => x.checked_mul(y),
                Op2::Div => x.checked_div(y), Op2::Rem => x.checked_rem(y), Op2::Min => Some(x.min(y)), Op2::Max => Some(x.max(y)),
                Op2::And => Some(x & y), Op2::Or => Some(x | y), Op2::Xor => Some(x ^ y),
                Op2::Shl => if (0..64).contains(&y) { Some(x << y) } else { None }, Op2::Shr => if (0..64).contains(&y) { Some(x >> y) } else { None },
                _ => None } }
            Node::Fma(a, b, c) => { let x = self.val(a)?; let y = self.val(b)?; let z = self.val(c)?; x.checked_mul(y)?.checked_add(z) }
            _ => None,
        };
        self.memo.insert(i, v);
        v
    }
    /// Ok(None) = Panic leaf, Err = Cut or undefined
    pub fn tree(&mut self, t: &Tree) -> Result<Option<Out<i64>>, ()> {
        match t {
            Tree::Panic(_) => Ok(None),
            Tree::Cut => Err(()),
            Tree::Ret(o) => { let mut vals = vec![]; for v in &o.vals { vals.push(self.val(*v).ok_or(())?); } Ok(Some(Out { flags: o.flags.clone(), vals })) }
            Tree::If(c, a, b) => { let x = self.val(c.a).ok_or(())?; let y = self.val(c.b).ok_or(())?;
                let r = match c.kind { CondKind::Lt => x < y, CondKind::Eq => x == y }; if r { self.tree(a) } else { self.tree(b) } }
        }
    }
}
