//! Line-based serialisation of translated entries ("golden" snapshots used by the counter-example search).
#![allow(dead_code)]
use crate::sym::*;
use crate::explore::*;
use std::collections::HashMap;

pub struct SerEntry { pub name: String, pub nin: usize, pub nodes: Vec<Node>, pub tree: Tree }

fn op1s(o: Op1) -> String { format!("{:?}", o) }
fn op2s(o: Op2) -> String { format!("{:?}", o) }
fn op1p(s: &str) -> Op1 { use Op1::*; for o in [Neg, Sqrt, Sin, Cos, Tan, Asin, Acos, Atan, Floor, Ceil, Round, Trunc, Abs, Signum, Exp, Ln, Not] { if op1s(o) == s { return o; } } panic!("op1 {}", s) }
fn op2p(s: &str) -> Op2 { use Op2::*; for o in [Add, Sub, Mul, Div, Rem, Min, Max, Atan2, Powf, Shl, Shr, And, Or, Xor] { if op2s(o) == s { return o; } } panic!("op2 {}", s) }
fn named_static(s: &str) -> &'static str { match s { "eps" => "eps", "pi" => "pi", "full" => "full", "inf" => "inf", "minv" => "minv", "maxv" => "maxv", "minpos" => "minpos", _ => panic!("named {}", s) } }

/// serialise only the nodes reachable from the tree, renumbered densely
pub fn ser(name: &str, nin: usize, nodes: &[Node], tree: &Tree) -> String {
    let mut map: HashMap<u32, usize> = HashMap::new();
    let mut out: Vec<String> = vec![];
    fn go(i: u32, nodes: &[Node], map: &mut HashMap<u32, usize>, out: &mut Vec<String>) -> usize {
        if let Some(k) = map.get(&i) { return *k; }
        let line = match &nodes[i as usize] {
            Node::Var(k) => format!("V {}", k),
            Node::Const(b) => format!("C {:x}", b),
            Node::Named(s) => format!("M {}", s),
            Node::Un(o, a) => { let a = go(*a, nodes, map, out); format!("U {} {}", op1s(*o), a) }
            Node::Bin(o, a, b) => { let a = go(*a, nodes, map, out); let b = go(*b, nodes, map, out); format!("B {} {} {}", op2s(*o), a, b) }
            Node::Fma(a, b, c) => { let a = go(*a, nodes, map, out); let b = go(*b, nodes, map, out); let c = go(*c, nodes, map, out); format!("F {} {} {}", a, b, c) }
            Node::Powi(a, n) => { let a = go(*a, nodes, map, out); format!("P {} {}", a, n) }
            Node::Fun(id, args) => { let xs: Vec<String> = args.iter().map(|a| go(*a, nodes, map, out).to_string()).collect(); format!("X {} {}", id, xs.join(" ")) }
        };
        let k = out.len(); out.push(line); map.insert(i, k); k
    }
    fn tr(t: &Tree, nodes: &[Node], map: &mut HashMap<u32, usize>, out: &mut Vec<String>, toks: &mut Vec<String>) {
        match t {
            Tree::Panic(_) => toks.push("!".into()),
            Tree::Cut => toks.push("~".into()),
            Tree::Ret(o) => {
                toks.push(format!("R{}", o.flags.len())); for f in &o.flags { toks.push(f.to_string()); }
                toks.push(format!("{}", o.vals.len())); for v in &o.vals { let k = go(*v, nodes, map, out); toks.push(k.to_string()); }
            }
            Tree::If(c, a, b) => {
                let x = go(c.a, nodes, map, out); let y = go(c.b, nodes, map, out);
                toks.push(format!("{}", match c.kind { CondKind::Lt => "L", CondKind::Eq => "E" })); toks.push(x.to_string()); toks.push(y.to_string());
                tr(a, nodes, map, out, toks); tr(b, nodes, map, out, toks);
            }
        }
    }
    let mut toks = vec![];
    tr(tree, nodes, &mut map, &mut out, &mut toks);
    let mut s = format!("ENTRY {} {}\n", name, nin);
    for l in out { s.push_str(&l); s.push('\n'); }
    s.push_str(&format!("T {}\nEND\n", toks.join(" ")));
    s
}

pub fn parse(text: &str) -> Vec<SerEntry> {
    let mut res = vec![];
    let mut cur: Option<SerEntry> = None;
    for line in text.lines() {
        let p: Vec<&str> = line.split_whitespace().collect();
        if p.is_empty() { continue; }
        match p[0] {
            "ENTRY" => cur = Some(SerEntry { name: p[1].to_string(), nin: p[2].parse().unwrap(), nodes: vec![], tree: Tree::Cut }),
            "END" => res.push(cur.take().unwrap()),
            "T" => { let mut pos = 1; let t = ptree(&p, &mut pos); cur.as_mut().unwrap().tree = t; }
            k => { let e = cur.as_mut().unwrap(); let u = |s: &str| s.parse::<u32>().unwrap();
                e.nodes.push(match k {
                    "V" => Node::Var(u(p[1])), "C" => Node::Const(u64::from_str_radix(p[1], 16).unwrap()), "M" => Node::Named(named_static(p[1])),
                    "U" => Node::Un(op1p(p[1]), u(p[2])), "B" => Node::Bin(op2p(p[1]), u(p[2]), u(p[3])), "F" => Node::Fma(u(p[1]), u(p[2]), u(p[3])),
                    "P" => Node::Powi(u(p[1]), p[2].parse().unwrap()), "X" => Node::Fun(u(p[1]), p[2..].iter().map(|s| u(s)).collect()),
                    _ => panic!("bad line {}", line) }); }
        }
    }
    res
}
fn ptree(p: &[&str], pos: &mut usize) -> Tree {
    let t = p[*pos]; *pos += 1;
    if t == "!" { return Tree::Panic(String::new()); }
    if t == "~" { return Tree::Cut; }
    if t.starts_with('R') {
        let nf: usize = t[1..].parse().unwrap();
        let flags = (0..nf).map(|_| { let v = p[*pos].parse().unwrap(); *pos += 1; v }).collect();
        let nv: usize = p[*pos].parse().unwrap(); *pos += 1;
        let vals = (0..nv).map(|_| { let v = p[*pos].parse().unwrap(); *pos += 1; v }).collect();
        return Tree::Ret(Out { flags, vals });
    }
    let kind = if t == "L" { CondKind::Lt } else { CondKind::Eq };
    let a = p[*pos].parse().unwrap(); let b = p[*pos + 1].parse().unwrap(); *pos += 2;
    let x = ptree(p, pos); let y = ptree(p, pos);
    Tree::If(Cond { kind, a, b }, Box::new(x), Box::new(y))
}
