//! Fully abstract symbolic scalars for C20: every lifted scalar operation (checked/wrapping/saturating/
//! overflowing arithmetic, Euclidean division, inverse, approximate equality, casts) is an uninterpreted
//! function symbol, and every scalar-level boolean outcome ("is Some", "overflowed", "approximately equal")
//! is the decision `F(flag_id, args) != 0`. `SymA` is the source element type, `SymB` the cast target.
//! When all arguments are literal constants the flags take their default (Some / no overflow / equal)
//! without a decision, so that the lane-isolated entries for wide vectors stay small.
#![allow(dead_code)]
use crate::sym::*;
use std::ops::*;
use num_traits::{Zero, One, NumCast, ToPrimitive, AsPrimitive};
use num_traits::ops::checked::*;
use num_traits::ops::wrapping::*;
use num_traits::ops::saturating::*;
use num_traits::ops::overflowing::*;
use num_traits::ops::inv::Inv;
use num_traits::ops::euclid::{Euclid, CheckedEuclid};

#[derive(Clone, Copy, Debug)] pub struct SymA(pub Sym);
#[derive(Clone, Copy, Debug)] pub struct SymB(pub Sym);

fn all_const(args: &[Sym]) -> bool { args.iter().all(|s| s.is_const()) }
/// the scalar-level boolean `F(id, args) != 0`
fn flag(id: u32, args: &[Sym], default: bool) -> bool {
    if all_const(args) { return default; }
    !(Sym::fun(id, args) == Sym::c(0.0))
}
fn val(id: u32, args: &[Sym]) -> Sym { Sym::fun(id, args) }

impl PartialEq for SymA { fn eq(&self, o: &SymA) -> bool { self.0 == o.0 } }
impl PartialEq for SymB { fn eq(&self, o: &SymB) -> bool { self.0 == o.0 } }
macro_rules! arith { ($($Tr:ident $m:ident)+) => { $( impl $Tr for SymA { type Output = SymA; fn $m(self, o: SymA) -> SymA { SymA($Tr::$m(self.0, o.0)) } } )+ } }
arith!(Add add Sub sub Mul mul Div div Rem rem);
impl Neg for SymA { type Output = SymA; fn neg(self) -> SymA { SymA(-self.0) } }
impl Zero for SymA { fn zero() -> SymA { SymA(Sym::c(0.0)) } fn is_zero(&self) -> bool { self.0 == Sym::c(0.0) } }
impl One for SymA { fn one() -> SymA { SymA(Sym::c(1.0)) } }
impl Default for SymA { fn default() -> SymA { SymA(Sym::c(0.0)) } }
impl Default for SymB { fn default() -> SymB { SymB(Sym::c(0.0)) } }

macro_rules! checked2 { ($($Tr:ident $m:ident $k:expr)+) => { $(
    impl $Tr for SymA { fn $m(&self, v: &SymA) -> Option<SymA> { let a = [self.0, v.0]; if flag(100 + 2 * $k, &a, true) { Some(SymA(val(101 + 2 * $k, &a))) } else { None } } }
)+ } }
checked2!(CheckedAdd checked_add 0 CheckedSub checked_sub 1 CheckedMul checked_mul 2 CheckedDiv checked_div 3 CheckedRem checked_rem 4);
impl CheckedNeg for SymA { fn checked_neg(&self) -> Option<SymA> { let a = [self.0]; if flag(110, &a, true) { Some(SymA(val(111, &a))) } else { None } } }
impl Euclid for SymA {
    fn div_euclid(&self, v: &SymA) -> SymA { SymA(val(231, &[self.0, v.0])) }
    fn rem_euclid(&self, v: &SymA) -> SymA { SymA(val(232, &[self.0, v.0])) }
}
impl CheckedEuclid for SymA {
    fn checked_div_euclid(&self, v: &SymA) -> Option<SymA> { let a = [self.0, v.0]; if flag(112, &a, true) { Some(SymA(val(113, &a))) } else { None } }
    fn checked_rem_euclid(&self, v: &SymA) -> Option<SymA> { let a = [self.0, v.0]; if flag(114, &a, true) { Some(SymA(val(115, &a))) } else { None } }
}
macro_rules! plain2 { ($($Tr:ident $m:ident $id:expr)+) => { $( impl $Tr for SymA { fn $m(&self, v: &SymA) -> SymA { SymA(val($id, &[self.0, v.0])) } } )+ } }
plain2!(WrappingAdd wrapping_add 200 WrappingSub wrapping_sub 201 WrappingMul wrapping_mul 202 SaturatingAdd saturating_add 210 SaturatingSub saturating_sub 211 SaturatingMul saturating_mul 212);
impl WrappingNeg for SymA { fn wrapping_neg(&self) -> SymA { SymA(val(203, &[self.0])) } }
macro_rules! over2 { ($($Tr:ident $m:ident $id:expr)+) => { $( impl $Tr for SymA { fn $m(&self, v: &SymA) -> (SymA, bool) { let a = [self.0, v.0]; (SymA(val($id, &a)), flag($id + 1, &a, false)) } } )+ } }
over2!(OverflowingAdd overflowing_add 220 OverflowingSub overflowing_sub 222 OverflowingMul overflowing_mul 224);
impl Inv for SymA { type Output = SymA; fn inv(self) -> SymA { SymA(val(230, &[self.0])) } }

// approximate equality: abstract predicates
impl approx::AbsDiffEq for SymA {
    type Epsilon = SymA;
    fn default_epsilon() -> SymA { SymA(Sym::named("eps")) }
    fn abs_diff_eq(&self, o: &SymA, e: SymA) -> bool { flag(240, &[self.0, o.0, e.0], true) }
}
impl approx::RelativeEq for SymA {
    fn default_max_relative() -> SymA { SymA(Sym::named("eps")) }
    fn relative_eq(&self, o: &SymA, e: SymA, m: SymA) -> bool { flag(241, &[self.0, o.0, e.0, m.0], true) }
}
impl approx::UlpsEq for SymA {
    fn default_max_ulps() -> u32 { 4 }
    fn ulps_eq(&self, o: &SymA, e: SymA, u: u32) -> bool { flag(242, &[self.0, o.0, e.0, Sym::c(u as f64)], true) }
}

// casts SymA -> SymB
impl AsPrimitive<SymB> for SymA { fn as_(self) -> SymB { SymB(val(250, &[self.0])) } }
/// ToPrimitive carries the node identity (the only channel NumCast::from has)
impl ToPrimitive for SymA { fn to_i64(&self) -> Option<i64> { Some((self.0).0 as i64) } fn to_u64(&self) -> Option<u64> { Some((self.0).0 as u64) } }
impl ToPrimitive for SymB { fn to_i64(&self) -> Option<i64> { Some((self.0).0 as i64) } fn to_u64(&self) -> Option<u64> { Some((self.0).0 as u64) } }
impl NumCast for SymA { fn from<N: ToPrimitive>(n: N) -> Option<SymA> { Some(SymA(Sym(n.to_u64()? as u32))) } }
impl NumCast for SymB { fn from<N: ToPrimitive>(n: N) -> Option<SymB> { let s = Sym(n.to_u64()? as u32); if flag(251, &[s], true) { Some(SymB(val(252, &[s]))) } else { None } } }
impl az::Cast<SymB> for SymA { fn cast(self) -> SymB { SymB(val(260, &[self.0])) } }
impl az::CheckedCast<SymB> for SymA { fn checked_cast(self) -> Option<SymB> { if flag(261, &[self.0], true) { Some(SymB(val(262, &[self.0]))) } else { None } } }
impl az::SaturatingCast<SymB> for SymA { fn saturating_cast(self) -> SymB { SymB(val(263, &[self.0])) } }
impl az::WrappingCast<SymB> for SymA { fn wrapping_cast(self) -> SymB { SymB(val(264, &[self.0])) } }
impl az::OverflowingCast<SymB> for SymA { fn overflowing_cast(self) -> (SymB, bool) { (SymB(val(265, &[self.0])), flag(266, &[self.0], false)) } }
impl az::UnwrappedCast<SymB> for SymA { fn unwrapped_cast(self) -> SymB { SymB(val(267, &[self.0])) } }
impl num_traits::MulAdd<SymA, SymA> for SymA { type Output = SymA; fn mul_add(self, a: SymA, b: SymA) -> SymA { SymA(num_traits::MulAdd::mul_add(self.0, a.0, b.0)) } }
