//! The scalar Clamp / IsBetween / Lerp / Wrap impls for the symbolic scalar: the macro bodies are the
//! verbatim source text of /repo/src/ops.rs (see build.rs), instantiated on `Sym`.
#![allow(unused_imports, unused_macros)]
use std::cmp;
use std::ops::*;
use num_traits::{Zero, One, FloatConst};
use vek::ops::*;
use vek::ops::MulAdd;
use crate::sym::Sym;

include!(concat!(env!("OUT_DIR"), "/ops_macros.rs"));

impl_clamp_float!{Sym}
lerp_impl_float!{Sym}
wrap_impl_float!{Sym}

use crate::symint::{SymS, SymU};
impl_clamp_integer!{SymS SymU}
wrap_impl_sint!{SymS}
wrap_impl_uint!{SymU}

// scalar-on-the-left `T op Vec<T>` impls (verbatim macro body of /repo/src/vec.rs) for the symbolic scalar
pub mod vecleft {
    #![allow(unused_imports)]
    use std::ops::*;
    use crate::sym::Sym;
    use vek::vec::repr_c::*;
    include!(concat!(env!("OUT_DIR"), "/vec_macros.rs"));
    macro_rules! left { ($($V:ident)+) => { $(
        vec_impl_binop_commutative!{c, impl Add<$V> for T { add, simd_add } where T = Sym}
        vec_impl_binop_commutative!{c, impl Mul<$V> for T { mul, simd_mul } where T = Sym}
    )+ } }
    left!(Vec2 Vec3 Vec4 Extent2 Extent3 Rgb Rgba Uv Uvw);
    #[cfg(feature = "wide")] left!(Vec8 Vec16 Vec32 Vec64);
}
