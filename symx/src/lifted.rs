//! The scalar Clamp / IsBetween / Lerp / Wrap impls for the symbolic scalar: the macro bodies are the
//! verbatim source text of /repo/src/ops.rs (see build.rs), instantiated on `Sym`.
#![allow(unused_imports, unused_macros)]
use std::cmp;
use std::ops::*;
use num_traits::{Zero, One, FloatConst};
use vek::ops::*;
use vek::ops::MulAdd;
use crate::sym::Sym;

include!(concat!(env!("OUT_DIR"), "/ops_macros.rs"));

impl_clamp_float!{Sym}
lerp_impl_float!{Sym}
wrap_impl_float!{Sym}

use crate::symint::{SymS, SymU};
impl_clamp_integer!{SymS SymU}
wrap_impl_sint!{SymS}
wrap_impl_uint!{SymU}
