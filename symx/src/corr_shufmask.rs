//! Engine B driver for C19: `ShuffleMask4` built from arbitrary machine words (`new`, `From<usize>`, `From<tuple>`,
//! `From<[usize; 4]>`), `to_indices`, `==`, and the lane selection of `shuffle_lo_hi` / `shuffled` on Vec4 and Rgba.
//! One case per line: `<kind> a b c d => i0 i1 i2 i3 | lo_hi lanes | shuffled lanes | bcast(a) indices | shuffled(hi, bcast a) | eq`
//! (words in hexadecimal, 16 digits).
use crate::Rng;
use std::io::Write;
use vek::vec::repr_c::{Vec4, Rgba};
use vek::vec::ShuffleMask4;

fn pool(tier: &str, rng: &mut Rng) -> Vec<usize> {
    let mut p: Vec<usize> = vec![0, 1, 2, 3, 4, 5, 7, 8, 255, 256, usize::MAX, usize::MAX - 1, usize::MAX - 3, 1 << 63, (1 << 63) + 2, 0x5555_5555_5555_5555, 0xAAAA_AAAA_AAAA_AAAA];
    let extra = if tier == "thorough" { 8 } else { 2 };
    for _ in 0..extra { p.push(rng.next() as usize); }
    p
}

fn line(w: &mut impl Write, kind: &str, a: usize, b: usize, c: usize, d: usize) {
    let m = match kind { "new" => ShuffleMask4::new(a, b, c, d), "tuple" => ShuffleMask4::from((a, b, c, d)), _ => ShuffleMask4::from([a, b, c, d]) };
    let (i0, i1, i2, i3) = m.to_indices();
    let bm = ShuffleMask4::from(a);
    let (b0, b1, b2, b3) = bm.to_indices();
    let a2 = a | (0xf << 60);   // same residue modulo 4, different high bits
    let eq = (m == ShuffleMask4::new(a2, b, c, d)) as u8;
    let (l, s, t) = if kind == "tuple" {
        let lo = Rgba::new(10, 11, 12, 13); let hi = Rgba::new(20, 21, 22, 23);
        let l = Rgba::shuffle_lo_hi(lo, hi, m); let s = lo.shuffled(m); let t = hi.shuffled(a);
        ([l.r, l.g, l.b, l.a], [s.r, s.g, s.b, s.a], [t.r, t.g, t.b, t.a])
    } else {
        let lo = Vec4::new(10, 11, 12, 13); let hi = Vec4::new(20, 21, 22, 23);
        let l = if kind == "new" { Vec4::shuffle_lo_hi(lo, hi, m) } else { Vec4::shuffle_lo_hi(lo, hi, [a, b, c, d]) };
        let s = if kind == "new" { lo.shuffled(m) } else { lo.shuffled((a, b, c, d)) };
        let t = hi.shuffled(a);
        ([l.x, l.y, l.z, l.w], [s.x, s.y, s.z, s.w], [t.x, t.y, t.z, t.w])
    };
    writeln!(w, "{} {:016x} {:016x} {:016x} {:016x} => {} {} {} {} | {} {} {} {} | {} {} {} {} | {} {} {} {} | {} {} {} {} | {}", kind, a, b, c, d,
        i0, i1, i2, i3, l[0], l[1], l[2], l[3], s[0], s[1], s[2], s[3], b0, b1, b2, b3, t[0], t[1], t[2], t[3], eq).unwrap();
}

pub fn run(tier: &str, seed: u64) {
    let out = std::io::stdout(); let mut w = std::io::BufWriter::new(out.lock());
    let mut rng = Rng(0x9E3779B97F4A7C15 ^ seed.wrapping_mul(0xD1342543DE82EF95));
    let p = pool(tier, &mut rng);
    let kinds = ["new", "tuple", "array"];
    let mut k = 0usize;
    for &a in &p { for &b in &p { for &c in &p { for &d in &p { line(&mut w, kinds[k % 3], a, b, c, d); k += 1; } } } }
    let n = if tier == "thorough" { 400_000 } else { 20_000 };
    for _ in 0..n {
        let mut v = [0usize; 4];
        for x in v.iter_mut() { *x = match rng.below(4) { 0 => rng.below(16) as usize, 1 => usize::MAX - rng.below(16) as usize, 2 => (1usize << rng.below(64)).wrapping_add(rng.below(8) as usize), _ => rng.next() as usize }; }
        line(&mut w, kinds[k % 3], v[0], v[1], v[2], v[3]); k += 1;
    }
}
