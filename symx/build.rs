//! Lift the private `macro_rules!` bodies of /repo/src/ops.rs (scalar Clamp / IsBetween / Lerp / Wrap impls)
//! textually, so that they can be instantiated on the symbolic scalars: the model of these impls is the
//! source text itself, not a re-typed copy.
use std::io::Write;
fn main() {
    let path = "/repo/src/ops.rs";
    println!("cargo:rerun-if-changed={}", path);
    let src = std::fs::read_to_string(path).expect("read ops.rs");
    // the macros the harness instantiates; they must exist. Every OTHER top-level `macro_rules!` of the file is lifted too,
    // in source order, so that a refactoring which moves part of a body into a helper macro still translates.
    let wanted = ["impl_clamp_float", "impl_clamp_integer", "lerp_impl_float", "lerp_impl_integer", "wrap_impl_float", "wrap_impl_uint", "wrap_impl_sint"];
    for name in wanted.iter() { if !src.contains(&format!("macro_rules! {} {{", name)) { panic!("symx build: macro {} not found in ops.rs", name); } }
    let mut out = String::new();
    let bytes = src.as_bytes();
    let mut pos = 0usize;
    while let Some(off) = src[pos..].find("macro_rules! ") {
        let start = pos + off;
        // top-level definitions only (column 0); nested helper macros of test modules are skipped
        let at_line_start = start == 0 || bytes[start - 1] == b'\n';
        let brace = match src[start..].find('{') { Some(b) => start + b, None => break };
        if !at_line_start { pos = brace; continue; }
        let mut i = brace; let mut depth = 0i32; let mut end = 0usize;
        while i < bytes.len() {
            match bytes[i] { b'{' => depth += 1, b'}' => { depth -= 1; if depth == 0 { end = i + 1; break; } } _ => {} }
            i += 1;
        }
        assert!(end > 0, "unbalanced braces in a macro of ops.rs");
        out.push_str(&src[start..end]);
        out.push_str("\n");
        pos = end;
    }
    let dir = std::env::var("OUT_DIR").unwrap();
    let mut f = std::fs::File::create(format!("{}/ops_macros.rs", dir)).unwrap();
    f.write_all(out.as_bytes()).unwrap();
    // scalar-on-the-left operator impls of /repo/src/vec.rs (declared there for the primitive types only)
    let path = "/repo/src/vec.rs";
    println!("cargo:rerun-if-changed={}", path);
    let src = std::fs::read_to_string(path).expect("read vec.rs");
    let mut out = String::new();
    for name in ["vec_impl_binop_commutative"].iter() {
        let key = format!("macro_rules! {} {{", name);
        let start = src.find(&key).unwrap_or_else(|| panic!("symx build: macro {} not found in vec.rs", name));
        let bytes = src.as_bytes();
        let mut i = start + key.len() - 1; let mut depth = 0i32; let mut end = 0usize;
        while i < bytes.len() {
            match bytes[i] { b'{' => depth += 1, b'}' => { depth -= 1; if depth == 0 { end = i + 1; break; } } _ => {} }
            i += 1;
        }
        assert!(end > 0, "unbalanced braces in macro {}", name);
        out.push_str(&src[start..end]);
        out.push_str("\n");
    }
    let mut f = std::fs::File::create(format!("{}/vec_macros.rs", dir)).unwrap();
    f.write_all(out.as_bytes()).unwrap();
}
