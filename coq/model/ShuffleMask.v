(** * ShuffleMask — hand-written model of [ShuffleMask4::new] / [to_indices] on arbitrary machine words. *)
Require Import NArith List Lia Bool.
Import ListNotations.
Local Open Scope N_scope.

Definition mk (a b c d : N) : N :=
  N.lor (N.lor (N.lor (N.land a 3) (N.shiftl (N.land b 3) 2)) (N.shiftl (N.land c 3) 4)) (N.shiftl (N.land d 3) 6).
Definition idx (m : N) : N * N * N * N :=
  (N.land m 3, N.land (N.shiftr m 2) 3, N.land (N.shiftr m 4) 3, N.land (N.shiftr m 6) 3).

(** the four 2-bit fields do not interfere: checked on all 256 field values, then lifted to all words *)
Definition field_ok (q : N * N * N * N) : bool :=
  let '(a, b, c, d) := q in
  let m := N.lor (N.lor (N.lor a (N.shiftl b 2)) (N.shiftl c 4)) (N.shiftl d 6) in
  let '(x, y, z, w) := idx m in N.eqb x a && N.eqb y b && N.eqb z c && N.eqb w d && N.ltb m 256.
Lemma lt4 a : a < 4 -> a = 0 \/ a = 1 \/ a = 2 \/ a = 3.
Proof. lia. Qed.
Lemma fields_all a b c d : a < 4 -> b < 4 -> c < 4 -> d < 4 -> field_ok (a, b, c, d) = true.
Proof.
  intros Ha Hb Hc Hd.
  destruct (lt4 a Ha) as [-> | [-> | [-> | ->]]]; destruct (lt4 b Hb) as [-> | [-> | [-> | ->]]];
    destruct (lt4 c Hc) as [-> | [-> | [-> | ->]]]; destruct (lt4 d Hd) as [-> | [-> | [-> | ->]]]; vm_compute; reflexivity.
Qed.
Lemma land3 a : N.land a 3 = a mod 4.
Proof. change 3 with (N.ones 2). rewrite N.land_ones. reflexivity. Qed.

Theorem idx_mk a b c d : idx (mk a b c d) = (a mod 4, b mod 4, c mod 4, d mod 4) /\ mk a b c d < 256.
Proof.
  unfold mk. rewrite !land3.
  assert (Ha : a mod 4 < 4) by (apply N.mod_lt; lia). assert (Hb : b mod 4 < 4) by (apply N.mod_lt; lia).
  assert (Hc : c mod 4 < 4) by (apply N.mod_lt; lia). assert (Hd : d mod 4 < 4) by (apply N.mod_lt; lia).
  pose proof (fields_all _ _ _ _ Ha Hb Hc Hd) as H.
  unfold field_ok in H. destruct (idx _) as [[[x y] z] w] eqn:E.
  repeat (apply andb_true_iff in H; destruct H as [H ?]).
  repeat match goal with H : N.eqb _ _ = true |- _ => apply N.eqb_eq in H | H : N.ltb _ _ = true |- _ => apply N.ltb_lt in H end.
  subst. split; [ reflexivity | assumption ].
Qed.

(** the constructor only looks at the indices modulo 4: every tuple builds the mask of its reduced tuple,
    which is one of the 256 in-range masks the translated shuffles are proved on (C19_shuffle) *)
Lemma mod4_idem a : (a mod 4) mod 4 = a mod 4.
Proof. apply N.mod_mod. lia. Qed.
Theorem mk_reduce a b c d : mk a b c d = mk (a mod 4) (b mod 4) (c mod 4) (d mod 4).
Proof. unfold mk. rewrite !land3, !mod4_idem. reflexivity. Qed.

(** [From<usize>]: the same index four times; [From<(usize,..)>], [From<[usize; 4]>]: [mk] *)
Definition bcast (m : N) : N := mk m m m m.
Theorem idx_bcast m : idx (bcast m) = (m mod 4, m mod 4, m mod 4, m mod 4).
Proof. apply idx_mk. Qed.

(** the lane selection of [shuffle_lo_hi] / [shuffled] driven by a mask *)
Definition sel {A} (v : A * A * A * A) (i : N) : A :=
  let '(x, y, z, w) := v in if N.eqb i 0 then x else if N.eqb i 1 then y else if N.eqb i 2 then z else w.
Definition shuffle_lo_hi {A} (lo hi : A * A * A * A) (m : N) : A * A * A * A :=
  let '(a, b, c, d) := idx m in (sel lo a, sel lo b, sel hi c, sel hi d).
Definition shuffled {A} (v : A * A * A * A) (m : N) := shuffle_lo_hi v v m.

Theorem shuffle_any_indices {A} (lo hi : A * A * A * A) a b c d :
  shuffle_lo_hi lo hi (mk a b c d) = (sel lo (a mod 4), sel lo (b mod 4), sel hi (c mod 4), sel hi (d mod 4)).
Proof. unfold shuffle_lo_hi. rewrite (proj1 (idx_mk a b c d)). reflexivity. Qed.

(** masks are equal exactly when the reduced indices are *)
Theorem mk_eq_iff a b c d a' b' c' d' :
  mk a b c d = mk a' b' c' d' <-> (a mod 4 = a' mod 4 /\ b mod 4 = b' mod 4 /\ c mod 4 = c' mod 4 /\ d mod 4 = d' mod 4).
Proof.
  split.
  - intros E. pose proof (proj1 (idx_mk a b c d)) as H1. pose proof (proj1 (idx_mk a' b' c' d')) as H2.
    rewrite E in H1. rewrite H1 in H2. inversion H2. auto.
  - intros (Ea & Eb & Ec & Ed). rewrite (mk_reduce a b c d), (mk_reduce a' b' c' d'). congruence.
Qed.

Example mk_example : idx (mk 7 18446744073709551615 4000 6) = (3, 3, 0, 2).
Proof. vm_compute. reflexivity. Qed.

(** binary reader used by the extracted driver (so that 64-bit words do not go through OCaml's 63-bit ints) *)
Definition of_bits (l : list bool) : N :=   (* most significant bit first *)
  fold_left (fun (acc : N) (b : bool) => N.add (N.double acc) (if b then 1 else 0)) l 0.
