(** * BoolReduce — hand-written model of the reduce_and / reduce_or / reduce_ne methods that vek
    defines on the concrete instantiations Vec<bool>, Vec<iN>, Vec<uN>, Vec<Wrapping<_>>, Vec<fN>
    (not generic code, so outside the translator). An element counts as [true] when it is not zero. *)
Require Import List Bool.
Import ListNotations.

Definition reduce_and (l : list bool) : bool := forallb (fun b => b) l.
Definition reduce_or (l : list bool) : bool := existsb (fun b => b) l.
(** [a != b != c ...], left-associated *)
Definition reduce_ne (l : list bool) : bool :=
  match l with [] => false | x :: r => fold_left xorb r x end.

Lemma reduce_and_spec l : reduce_and l = true <-> (forall b, In b l -> b = true).
Proof. unfold reduce_and. rewrite forallb_forall. reflexivity. Qed.
Lemma reduce_or_spec l : reduce_or l = true <-> (exists b, In b l /\ b = true).
Proof. unfold reduce_or. rewrite existsb_exists. reflexivity. Qed.
(** order does not matter, every element is taken into account *)
Lemma reduce_and_app l1 l2 : reduce_and (l1 ++ l2) = reduce_and l1 && reduce_and l2.
Proof. apply forallb_app. Qed.
Lemma reduce_or_app l1 l2 : reduce_or (l1 ++ l2) = reduce_or l1 || reduce_or l2.
Proof. apply existsb_app. Qed.
