(** * IntLerp — hand-written model of the integer [Lerp] impls of src/ops.rs (non-generic code:
    [round((from as F)*(1-f) + (to as F)*f) as Self], F = f32 / f64).
    The factor is the dyadic rational num / 2^sh; endpoints and factor are such that the float arithmetic is
    exact (the property's "endpoints that the factor's float type represents exactly"), so the float expression
    denotes the rational (from * 2^sh + num * (to - from)) / 2^sh. Rust's [round] rounds half away from zero and
    the [as] cast saturates to the integer type's range [lo, hi]. *)
Require Import ZArith Lia.
Local Open Scope Z_scope.

(** nearest integer to n / d (d > 0), ties away from zero *)
Definition round_half_away (n d : Z) : Z :=
  if 0 <=? n then (2 * n + d) / (2 * d) else - ((2 * (- n) + d) / (2 * d)).
Definition sat (lo hi x : Z) : Z := Z.max lo (Z.min hi x).
Definition ilerp (lo hi from to num : Z) (sh : Z) : Z :=
  let den := 2 ^ sh in
  sat lo hi (round_half_away (from * den + num * (to - from)) den).

(** ** theorems about the model (all endpoints, all factors, all ranges) *)
Lemma round_exact k d : 0 < d -> round_half_away (k * d) d = k.
Proof.
  intros Hd. unfold round_half_away. destruct (0 <=? k * d) eqn:E.
  - replace (2 * (k * d) + d) with (d + k * (2 * d)) by ring. rewrite Z.div_add by lia. rewrite Z.div_small by lia. lia.
  - apply Z.leb_gt in E. replace (2 * - (k * d) + d) with (d + (- k) * (2 * d)) by ring.
    rewrite Z.div_add by lia. rewrite Z.div_small by lia. lia.
Qed.

(** rounding to nearest: |d * round(n/d) - n| <= d / 2 *)
Lemma round_nearest n d : 0 < d -> 2 * Z.abs (d * round_half_away n d - n) <= d.
Proof.
  intros Hd. unfold round_half_away. destruct (0 <=? n) eqn:E.
  - apply Z.leb_le in E. pose proof (Z.div_mod (2 * n + d) (2 * d) ltac:(lia)). pose proof (Z.mod_pos_bound (2 * n + d) (2 * d) ltac:(lia)). lia.
  - apply Z.leb_gt in E. pose proof (Z.div_mod (2 * - n + d) (2 * d) ltac:(lia)). pose proof (Z.mod_pos_bound (2 * - n + d) (2 * d) ltac:(lia)). lia.
Qed.

Lemma round_mono n m d : 0 < d -> n <= m -> round_half_away n d <= round_half_away m d.
Proof.
  intros Hd H. unfold round_half_away.
  destruct (0 <=? n) eqn:E1; destruct (0 <=? m) eqn:E2;
    try apply Z.leb_le in E1; try apply Z.leb_le in E2; try apply Z.leb_gt in E1; try apply Z.leb_gt in E2; try lia.
  - apply Z.div_le_mono; lia.
  - assert (0 <= (2 * - n + d) / (2 * d)) by (apply Z.div_pos; lia).
    assert (0 <= (2 * m + d) / (2 * d)) by (apply Z.div_pos; lia). lia.
  - assert ((2 * - m + d) / (2 * d) <= (2 * - n + d) / (2 * d)) by (apply Z.div_le_mono; lia). lia.
Qed.

(** factor 0 gives [from], factor 1 gives [to] (endpoints of the type's range included) *)
Theorem ilerp_endpoints lo hi from to sh : 0 <= sh -> lo <= from <= hi -> lo <= to <= hi ->
  ilerp lo hi from to 0 sh = from /\ ilerp lo hi from to (2 ^ sh) sh = to.
Proof.
  intros Hs Hf Ht. assert (0 < 2 ^ sh) by (apply Z.pow_pos_nonneg; lia). unfold ilerp, sat. split.
  - replace (from * 2 ^ sh + 0 * (to - from)) with (from * 2 ^ sh) by ring. rewrite round_exact by lia. lia.
  - replace (from * 2 ^ sh + 2 ^ sh * (to - from)) with (to * 2 ^ sh) by ring. rewrite round_exact by lia. lia.
Qed.

(** for factors in [0,1] the result lies between the endpoints, whatever their order (to < from included) *)
Theorem ilerp_between lo hi from to num sh : 0 <= sh -> lo <= from <= hi -> lo <= to <= hi -> 0 <= num <= 2 ^ sh ->
  Z.min from to <= ilerp lo hi from to num sh <= Z.max from to.
Proof.
  intros Hs Hf Ht Hn. assert (Hd : 0 < 2 ^ sh) by (apply Z.pow_pos_nonneg; lia). unfold ilerp. set (d := 2 ^ sh) in *.
  assert (Hlow : Z.min from to * d <= from * d + num * (to - from)) by nia.
  assert (Hup : from * d + num * (to - from) <= Z.max from to * d) by nia.
  pose proof (round_mono _ _ d Hd Hlow) as R1. pose proof (round_mono _ _ d Hd Hup) as R2.
  rewrite round_exact in R1, R2 by lia. unfold sat. lia.
Qed.

(** the result is the real value rounded to nearest, unless the cast saturates *)
Theorem ilerp_nearest lo hi from to num sh : 0 <= sh ->
  let d := 2 ^ sh in let v := from * d + num * (to - from) in let r := round_half_away v d in
  lo <= r <= hi -> ilerp lo hi from to num sh = r /\ 2 * Z.abs (d * r - v) <= d.
Proof.
  intros Hs d v r Hr. assert (Hd : 0 < d) by (apply Z.pow_pos_nonneg; lia). split.
  - unfold ilerp, sat. fold d v r. lia.
  - apply round_nearest. exact Hd.
Qed.
