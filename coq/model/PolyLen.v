(** * PolyLen — the shape of length_by_discretization(step_count): one segment per parameter
    (i+1)/(step_count+1), i = 0..step_count. Hand-written model of the loop (the summands themselves are
    covered by C15_length_code / C15_length_model on the translated programs). *)
Require Import NArith List Lia.
Import ListNotations.
(** numerators of the segment end parameters, in order *)
Fixpoint ends_from (fuel : nat) (i : N) : list N :=
  match fuel with O => [] | S f => N.succ i :: ends_from f (N.succ i) end.
Definition seg_ends (step_count : N) : list N := ends_from (S (N.to_nat step_count)) 0.
Definition segments (step_count : N) : N := N.of_nat (length (seg_ends step_count)).
Lemma ends_length f i : length (ends_from f i) = f.
Proof. revert i; induction f as [|f IH]; intros i; cbn; [ reflexivity | rewrite IH; reflexivity ]. Qed.
Lemma ends_last f i : last (ends_from (S f) i) 0%N = (i + N.of_nat (S f))%N.
Proof.
  revert i; induction f as [|f IH]; intros i; [ cbn; lia | ].
  change (ends_from (S (S f)) i) with (N.succ i :: ends_from (S f) (N.succ i)).
  change (last (N.succ i :: ends_from (S f) (N.succ i)) 0%N) with (last (ends_from (S f) (N.succ i)) 0%N).
  rewrite IH. lia.
Qed.
Lemma segments_spec n : segments n = N.succ n.
Proof. unfold segments, seg_ends. rewrite ends_length. lia. Qed.
Lemma last_end n : last (seg_ends n) 0%N = N.succ n.
Proof. unfold seg_ends. rewrite ends_last. lia. Qed.
