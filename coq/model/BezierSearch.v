(** * BezierSearch — hand-written model of [binary_search_point] (coarse phase + refinement loop) over exact
    rationals. A curve is given per axis by its control values (3 for a quadratic, 4 for a cubic). *)
Require Import QArith List Bool.
Import ListNotations.
Local Open Scope Q_scope.

Definition qltb (x y : Q) : bool := negb (Qle_bool y x).
Definition ev_axis (cs : list Q) (t : Q) : Q :=
  match cs with
  | [a; b; c] => a * (1 - t) * (1 - t) + b * 2 * (1 - t) * t + c * t * t
  | [a; b; c; d] => a * (1 - t) * (1 - t) * (1 - t) + b * 3 * (1 - t) * (1 - t) * t + c * 3 * (1 - t) * t * t + d * t * t * t
  | _ => 0
  end.
Definition ev (curve : list (list Q)) (t : Q) : list Q := map (fun cs => ev_axis cs t) curve.
Definition dist2 (a b : list Q) : Q :=
  fold_right Qplus 0 (map (fun xy => (fst xy - snd xy) * (fst xy - snd xy)) (combine a b)).

Record st := mk_st { tt : Q; pp : list Q; dd : Q }.
(** coarse phase: start from the end point (t = 1), keep the nearest of the caller's samples *)
Definition better (p : list Q) (s : st) (tx : Q * list Q) : st :=
  let d := dist2 (snd tx) p in if qltb d (dd s) then mk_st (fst tx) (snd tx) d else s.
Definition coarse (curve : list (list Q)) (p : list Q) (samples : list (Q * list Q)) : st :=
  let e := ev curve 1 in fold_left (better p) samples (mk_st 1 e (dist2 e p)).
(** refinement: probe t-h and t+h; move to the nearer probe if one of them improves, else halve h *)
Fixpoint refine (fuel : nat) (curve : list (list Q)) (p : list Q) (eps h : Q) (s : st) : option st :=
  match fuel with
  | O => None
  | S f =>
      if qltb h eps then Some s else
      let p1 := ev curve (tt s - h) in let p2 := ev curve (tt s + h) in
      let d1 := dist2 p p1 in let d2 := dist2 p p2 in
      if qltb d1 (dd s) || qltb d2 (dd s)
      then (if qltb d1 d2 then refine f curve p eps h (mk_st (tt s - h) p1 d1) else refine f curve p eps h (mk_st (tt s + h) p2 d2))
      else refine f curve p eps (h / 2) s
  end.
Definition search (fuel : nat) (curve : list (list Q)) (p : list Q) (samples : list (Q * list Q)) (h eps : Q) : option st :=
  refine fuel curve p eps h (coarse curve p samples).

(** ** theorems *)
Lemma qltb_false_le x y : qltb x y = false -> y <= x.
Proof. unfold qltb. intros H. apply negb_false_iff in H. apply Qle_bool_iff. exact H. Qed.
Lemma qltb_true_lt x y : qltb x y = true -> x < y.
Proof. unfold qltb. intros H. apply negb_true_iff in H. apply Qnot_le_lt. intros Hc. apply Qle_bool_iff in Hc. congruence. Qed.

(** the state is "on the curve": its point is the curve point of its parameter *)
Definition on_curve (curve : list (list Q)) (s : st) : Prop := pp s = ev curve (tt s).

Lemma refine_on_curve fuel curve p eps : forall h s s', on_curve curve s -> refine fuel curve p eps h s = Some s' -> on_curve curve s'.
Proof.
  induction fuel as [|f IH]; intros h s s' Hs; cbn [refine]; [ discriminate | ].
  destruct (qltb h eps); [ intros E; injection E as <-; exact Hs | ].
  destruct (qltb _ (dd s) || qltb _ (dd s)).
  - destruct (qltb _ _); apply IH; reflexivity.
  - apply IH; exact Hs.
Qed.
Lemma refine_not_farther fuel curve p eps : forall h s s', refine fuel curve p eps h s = Some s' -> dd s' <= dd s.
Proof.
  induction fuel as [|f IH]; intros h s s'; cbn [refine]; [ discriminate | ].
  destruct (qltb h eps); [ intros E; injection E as <-; apply Qle_refl | ].
  destruct (qltb (dist2 p (ev curve (tt s - h))) (dd s)) eqn:E1; cbn [orb].
  - destruct (qltb (dist2 p (ev curve (tt s - h))) (dist2 p (ev curve (tt s + h)))) eqn:E12; intros H; apply IH in H; cbn [dd] in H.
    + apply Qle_trans with (1 := H). apply Qlt_le_weak, qltb_true_lt, E1.
    + apply Qle_trans with (1 := H). apply Qle_trans with (dist2 p (ev curve (tt s - h))); [ apply qltb_false_le, E12 | apply Qlt_le_weak, qltb_true_lt, E1 ].
  - destruct (qltb (dist2 p (ev curve (tt s + h))) (dd s)) eqn:E2.
    + destruct (qltb (dist2 p (ev curve (tt s - h))) (dist2 p (ev curve (tt s + h)))) eqn:E12; intros H; apply IH in H; cbn [dd] in H.
      * apply Qle_trans with (1 := H). apply Qle_trans with (dist2 p (ev curve (tt s + h))); [ apply Qlt_le_weak, qltb_true_lt, E12 | apply Qlt_le_weak, qltb_true_lt, E2 ].
      * apply Qle_trans with (1 := H). apply Qlt_le_weak, qltb_true_lt, E2.
    + apply IH.
Qed.
(** the distance field is the squared distance of the state's point (probes are measured from the query) *)
Definition dd_ok (p : list Q) (s : st) : Prop := dd s = dist2 (pp s) p \/ dd s = dist2 p (pp s).
Lemma refine_dd_ok fuel curve p eps : forall h s s', dd_ok p s -> refine fuel curve p eps h s = Some s' -> dd_ok p s'.
Proof.
  induction fuel as [|f IH]; intros h s s' Hs; cbn [refine]; [ discriminate | ].
  destruct (qltb h eps); [ intros E; injection E as <-; exact Hs | ].
  destruct (qltb _ (dd s) || qltb _ (dd s)).
  - destruct (qltb _ _); apply IH; right; reflexivity.
  - apply IH; exact Hs.
Qed.

Lemma better_le p s tx : dd (better p s tx) <= dd s /\ dd (better p s tx) <= dist2 (snd tx) p.
Proof.
  unfold better. destruct (qltb (dist2 (snd tx) p) (dd s)) eqn:E; cbn [dd].
  - split; [ apply Qlt_le_weak, qltb_true_lt, E | apply Qle_refl ].
  - split; [ apply Qle_refl | apply qltb_false_le, E ].
Qed.
Lemma fold_better_le p samples : forall s, dd (fold_left (better p) samples s) <= dd s /\
  forall tx, In tx samples -> dd (fold_left (better p) samples s) <= dist2 (snd tx) p.
Proof.
  induction samples as [|x r IH]; intros s; cbn [fold_left]; [ split; [ apply Qle_refl | intros tx [] ] | ].
  destruct (IH (better p s x)) as [H1 H2]. destruct (better_le p s x) as [B1 B2]. split.
  - apply Qle_trans with (1 := H1). exact B1.
  - intros tx [<- | Hin]; [ apply Qle_trans with (1 := H1); exact B2 | apply H2; exact Hin ].
Qed.

(** the whole search: the result is no farther from the query than the end point and every coarse sample;
    if every coarse sample lies on the curve, so does the result *)
Theorem search_spec fuel curve p samples h eps s' :
  search fuel curve p samples h eps = Some s' ->
  dd s' <= dist2 (ev curve 1) p /\ (forall tx, In tx samples -> dd s' <= dist2 (snd tx) p) /\
  dd_ok p s' /\
  ((forall tx, In tx samples -> snd tx = ev curve (fst tx)) -> on_curve curve s').
Proof.
  unfold search. intros H. pose proof (refine_not_farther _ _ _ _ _ _ _ H) as Hle.
  destruct (fold_better_le p samples (mk_st 1 (ev curve 1) (dist2 (ev curve 1) p))) as [F1 F2]. fold (coarse curve p samples) in F1, F2.
  split; [ apply Qle_trans with (1 := Hle); exact F1 | split; [ intros tx Hin; apply Qle_trans with (1 := Hle); apply F2; exact Hin | split ] ].
  - refine (refine_dd_ok _ _ _ _ _ _ _ _ H). unfold coarse.
    assert (G : forall l s, dd_ok p s -> dd_ok p (fold_left (better p) l s)).
    { induction l as [|x r IHl]; intros s Hs; cbn [fold_left]; [ exact Hs | ]. apply IHl. unfold better. destruct (qltb _ _); [ left; reflexivity | exact Hs ]. }
    apply G. left. reflexivity.
  - intros Hs. refine (refine_on_curve _ _ _ _ _ _ _ _ H). unfold coarse.
    assert (G : forall l s, (forall tx, In tx l -> snd tx = ev curve (fst tx)) -> on_curve curve s -> on_curve curve (fold_left (better p) l s)).
    { induction l as [|x r IHl]; intros s Hl Hc; cbn [fold_left]; [ exact Hc | ]. apply IHl; [ intros tx Hin; apply Hl; right; exact Hin | ].
      unfold better. destruct (qltb _ _); [ unfold on_curve; cbn [pp tt]; apply Hl; left; reflexivity | exact Hc ]. }
    apply G; [ exact Hs | reflexivity ].
Qed.
