(** * Containers — hand-written model of the ownership behaviour of vek's element containers (C18).

    Elements are identified by their initial position [0..n-1] (the harness uses an ownership-tracking
    element type carrying that identity). The consuming iterator is a state machine over the two cursors;
    every operation reports what it observably does: the element it yields, the elements it reads,
    the elements it drops, or the length it reports. *)
Require Import List Arith Lia Bool Permutation.
Import ListNotations.

(** ** consuming iterator *)
Record iter := { dim : nat; front : nat; back : nat; gone : bool }.   (* slots [front, back) are live *)
Definition init (n : nat) : iter := {| dim := n; front := 0; back := n; gone := false |}.

Inductive op := Next | NextBack | Len | Observe | DropIt.
Inductive ev :=
| Yield (x : option nat)       (* next / next_back returned this element (None = exhausted) *)
| Report (k : nat)             (* len() = size_hint() = k *)
| Reads (l : list nat)         (* formatting / comparing / hashing read exactly these elements *)
| Drops (l : list nat)         (* dropping the iterator dropped exactly these elements, in this order *)
| Dead.                        (* the iterator was already dropped: no operation is possible *)

Definition live (s : iter) : list nat := seq (front s) (back s - front s).

Definition step (s : iter) (o : op) : iter * ev :=
  if gone s then (s, Dead) else
  match o with
  | Next => if Nat.ltb (front s) (back s)
            then ({| dim := dim s; front := S (front s); back := back s; gone := false |}, Yield (Some (front s)))
            else (s, Yield None)
  | NextBack => if Nat.ltb (front s) (back s)
            then ({| dim := dim s; front := front s; back := back s - 1; gone := false |}, Yield (Some (back s - 1)))
            else (s, Yield None)
  | Len => (s, Report (back s - front s))
  | Observe => (s, Reads (live s))
  | DropIt => ({| dim := dim s; front := front s; back := back s; gone := true |}, Drops (live s))
  end.

Fixpoint run (s : iter) (ops : list op) : iter * list ev :=
  match ops with
  | [] => (s, [])
  | o :: r => let (s1, e) := step s o in let (s2, es) := run s1 r in (s2, e :: es)
  end.

(** what a history did to the elements *)
Fixpoint yielded (es : list ev) : list nat :=
  match es with [] => [] | Yield (Some x) :: r => x :: yielded r | _ :: r => yielded r end.
Fixpoint dropped (es : list ev) : list nat :=
  match es with [] => [] | Drops l :: r => l ++ dropped r | _ :: r => dropped r end.

(** ** conversions: the list of element identities in the order of the result *)
Definition keep (l : list nat) : list nat := l.
(** from an iterator of [m] items into a container of [n] slots: the first [n] are stored (in order),
    missing slots are filled with defaults, surplus items stay in the iterator *)
Definition from_iter_stored (n m : nat) : list nat := seq 0 (Nat.min n m).
Definition from_iter_surplus (n m : nat) : list nat := seq n (m - n).
(** storage order <-> row/column arrays of an n x n matrix stored line by line *)
Definition transpose_perm (n : nat) : list nat :=
  flat_map (fun i => map (fun j => n * j + i) (seq 0 n)) (seq 0 n).
