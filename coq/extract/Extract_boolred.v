(** Extraction of the BoolReduce model (ExtrOcamlBasic only: bool, list, option, pairs map to OCaml's). *)
Require Import List.
From VekModel Require Import BoolReduce.
Require Extraction.
Require Import ExtrOcamlBasic.
Extraction Language OCaml.
Set Extraction Output Directory ".".
Extraction "boolred_model.ml" reduce_and reduce_or reduce_ne.
