(** Extraction of the ShuffleMask model (ExtrOcamlBasic only; N stays Coq's binary N). *)
Require Import NArith List.
From VekModel Require Import ShuffleMask.
Require Extraction.
Require Import ExtrOcamlBasic.
Extraction Language OCaml.
Set Extraction Output Directory ".".
Extraction "shufmask_model.ml" mk idx bcast shuffle_lo_hi shuffled of_bits N.eqb.
