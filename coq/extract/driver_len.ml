(* reads "len <type> <n>" and prints "len <type> <n> => <segments> <last numerator>" from the Coq model *)
open Len_model
let rec pos_of_int n = if n = 1 then XH else if n land 1 = 0 then XO (pos_of_int (n lsr 1)) else XI (pos_of_int (n lsr 1))
let n_of_int n = if n = 0 then N0 else Npos (pos_of_int n)
let rec int_of_pos = function XH -> 1 | XO p -> 2 * int_of_pos p | XI p -> 2 * int_of_pos p + 1
let int_of_n = function N0 -> 0 | Npos p -> int_of_pos p
let () =
  try while true do
    let line = input_line stdin in
    match String.split_on_char ' ' line with
    | [ "len"; ty; n ] ->
      let k = n_of_int (int_of_string n) in
      let ends = seg_ends k in
      let last = List.fold_left (fun _ x -> int_of_n x) 0 ends in
      Printf.printf "len %s %s => %d %d\n" ty n (int_of_n (segments k)) last
    | _ -> ()
  done with End_of_file -> ()
