(* reads "<type> <kind> <bits>" per line, prints "<type> <kind> <bits> => <and> <or> <ne|->" from the Coq model *)
open Boolred_model
let () =
  try while true do
    let line = input_line stdin in
    match String.split_on_char ' ' line with
    | [ty; kind; bits] ->
      let l = List.init (String.length bits) (fun i -> bits.[i] = '1') in
      let b x = if x then "1" else "0" in
      Printf.printf "%s %s %s => %s %s %s\n" ty kind bits (b (reduce_and l)) (b (reduce_or l)) (if kind = "bool" then b (reduce_ne l) else "-")
    | _ -> ()
  done with End_of_file -> ()
