(** Extraction of the BezierSearch model (ExtrOcamlBasic only; Q = pairs of Coq Z / positive;
    decimal IO of Z through the two helpers below; results are normalised with Qred before printing). *)
Require Import ZArith QArith List.
From VekModel Require Import BezierSearch.
Require Extraction.
Require Import ExtrOcamlBasic.
Local Open Scope Z_scope.
Definition zpush (acc d : Z) : Z := acc * 10 + d.
Fixpoint zdigits (fuel : nat) (n : Z) : list Z :=
  match fuel with
  | O => nil
  | S f => if n <? 10 then n :: nil else (n mod 10) :: zdigits f (n / 10)
  end.
Definition qmake (n d : Z) : Q := match d with Zpos p => Qmake n p | _ => Qmake 0 1 end.
Extraction Language OCaml.
Set Extraction Output Directory ".".
Extraction "bsearch_model.ml" search tt pp dd Qred qmake zpush zdigits Z.opp Z.ltb.
