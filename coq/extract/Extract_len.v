(** Extraction of the PolyLen model (ExtrOcamlBasic only; N stays Coq's binary N). *)
Require Import NArith List.
From VekModel Require Import PolyLen.
Require Extraction.
Require Import ExtrOcamlBasic.
Extraction Language OCaml.
Set Extraction Output Directory ".".
Extraction "len_model.ml" segments seg_ends.
