(* reads "<kind> <a> <b> <c> <d>" (hexadecimal 64-bit words) and prints what the Coq model ShuffleMask says:
   "<kind> a b c d => <i0> <i1> <i2> <i3> | <lo_hi lanes> | <shuffled lanes> | <bcast(a) indices> | <eq>" *)
open Shufmask_model
let n_of_hex s =
  let bits = ref [] in
  String.iter (fun ch -> let v = int_of_string ("0x" ^ String.make 1 ch) in
    bits := !bits @ [v land 8 <> 0; v land 4 <> 0; v land 2 <> 0; v land 1 <> 0]) s;
  of_bits !bits
let rec int_of_pos = function XH -> 1 | XO p -> 2 * int_of_pos p | XI p -> 2 * int_of_pos p + 1
let int_of_n = function N0 -> 0 | Npos p -> int_of_pos p
let () =
  try while true do
    let line = input_line stdin in
    match String.split_on_char ' ' line with
    | [ kind; a; b; c; d ] ->
      let (na, nb, nc, nd) = (n_of_hex a, n_of_hex b, n_of_hex c, n_of_hex d) in
      let m = mk na nb nc nd in
      let (((i0, i1), i2), i3) = idx m in
      let lo = (((10, 11), 12), 13) and hi = (((20, 21), 22), 23) in
      let (((l0, l1), l2), l3) = shuffle_lo_hi lo hi m in
      let (((s0, s1), s2), s3) = shuffled lo m in
      let (((b0, b1), b2), b3) = idx (bcast na) in
      let (((t0, t1), t2), t3) = shuffled hi (bcast na) in
      (* second tuple for the equality test: same residues, different high bits *)
      let eq = if N.eqb m (mk (n_of_hex ("f" ^ String.sub a 1 15)) nb nc nd) then 1 else 0 in
      Printf.printf "%s %s %s %s %s => %d %d %d %d | %d %d %d %d | %d %d %d %d | %d %d %d %d | %d %d %d %d | %d\n" kind a b c d
        (int_of_n i0) (int_of_n i1) (int_of_n i2) (int_of_n i3) l0 l1 l2 l3 s0 s1 s2 s3
        (int_of_n b0) (int_of_n b1) (int_of_n b2) (int_of_n b3) t0 t1 t2 t3 eq
    | _ -> ()
  done with End_of_file -> ()
