(* reads "bs <name> <d> <deg> <k> r..." (rationals num/den: control points point-major, query, h, eps, then k samples
   (t, point)) and prints the same line followed by " => t | point" from the Coq model, as reduced fractions *)
open Bsearch_model
let rec pos_of_int n = if n = 1 then XH else if n land 1 = 0 then XO (pos_of_int (n lsr 1)) else XI (pos_of_int (n lsr 1))
let small n = if n = 0 then Z0 else Zpos (pos_of_int n)
let z_of_string s =
  let neg = String.length s > 0 && s.[0] = '-' in
  let acc = ref Z0 in
  String.iteri (fun i c -> if not (i = 0 && neg) then acc := zpush !acc (small (Char.code c - 48))) s;
  if neg then Z.opp !acc else !acc
let rec nat_of_int n = if n = 0 then O else S (nat_of_int (n - 1))
let rec int_of_pos = function XH -> 1 | XO p -> 2 * int_of_pos p | XI p -> 2 * int_of_pos p + 1
let digit = function Z0 -> 0 | Zpos p -> int_of_pos p | Zneg _ -> 0
let string_of_z z =
  let neg = Z.ltb z Z0 in
  let a = if neg then Z.opp z else z in
  let ds = zdigits (nat_of_int 60) a in
  let b = Buffer.create 24 in
  if neg then Buffer.add_char b '-';
  List.iter (fun d -> Buffer.add_char b (Char.chr (48 + digit d))) (List.rev ds);
  Buffer.contents b
let q_of_string s = match String.split_on_char '/' s with
  | [n; d] -> qmake (z_of_string n) (z_of_string d) | [n] -> qmake (z_of_string n) (small 1) | _ -> failwith s
let string_of_q q = let r = qred q in string_of_z r.qnum ^ "/" ^ string_of_z (Zpos r.qden)
let rec take n l = if n = 0 then [] else match l with [] -> [] | x :: r -> x :: take (n - 1) r
let rec drop n l = if n = 0 then l else match l with [] -> [] | _ :: r -> drop (n - 1) r
let () =
  try while true do
    let line = input_line stdin in
    match String.split_on_char ' ' line with
    | "bs" :: name :: d :: deg :: k :: rest ->
      let d = int_of_string d and deg = int_of_string deg and k = int_of_string k in
      let qs = List.map q_of_string rest in
      let npt = deg + 1 in
      let cps = take (d * npt) qs in
      (* per axis: coordinate j of each control point *)
      let curve = List.init d (fun j -> List.init npt (fun i -> List.nth cps (i * d + j))) in
      let rest1 = drop (d * npt) qs in
      let p = take d rest1 in
      let rest2 = drop d rest1 in
      let h = List.nth rest2 0 and eps = List.nth rest2 1 in
      let rest3 = drop 2 rest2 in
      let samples = List.init k (fun i -> let s = drop (i * (1 + d)) rest3 in (List.hd s, take d (List.tl s))) in
      let out = match search (nat_of_int 100000) curve p samples h eps with
        | None -> "nofuel"
        | Some s -> string_of_q (tt s) ^ " | " ^ String.concat " " (List.map string_of_q (pp s)) in
      Printf.printf "%s => %s\n" line out
    | _ -> ()
  done with End_of_file -> ()
