(** Extraction of the Containers model (ExtrOcamlBasic only; nat stays Peano). *)
Require Import List.
From VekModel Require Import Containers.
Require Extraction.
Require Import ExtrOcamlBasic.
Extraction Language OCaml.
Set Extraction Output Directory ".".
Extraction "c18_model.ml" init run live from_iter_stored from_iter_surplus transpose_perm keep.
