(* reads "<kind> <type> <n> <arg>" per line and prints "<kind> <type> <n> <arg> => <model output>" *)
open C18_model
let rec nat_of_int n = if n <= 0 then O else S (nat_of_int (n - 1))
let rec int_of_nat = function O -> 0 | S n -> 1 + int_of_nat n
let ids l = if l = [] then "-" else String.concat "." (List.map (fun x -> string_of_int (int_of_nat x)) l)
let op_of_char = function 'N' -> Next | 'B' -> NextBack | 'L' -> Len | 'G' | 'E' | 'H' -> Observe | 'X' -> DropIt | c -> failwith (String.make 1 c)
let ev_str = function
  | Yield None -> "Y-" | Yield (Some x) -> "Y" ^ string_of_int (int_of_nat x)
  | Report k -> "L" ^ string_of_int (int_of_nat k)
  | Reads l -> "R" ^ ids l | Drops l -> "D" ^ ids l | Dead -> "Z"
let seq a b = List.init (max 0 (b - a)) (fun i -> a + i)
let () =
  try while true do
    let line = input_line stdin in
    match String.split_on_char ' ' line with
    | [ "iter"; ty; n; ops ] ->
      let n' = int_of_string n in
      let opl = List.init (String.length ops) (fun i -> op_of_char ops.[i]) in
      let (_, es) = run (init (nat_of_int n')) opl in
      Printf.printf "iter %s %s %s => %s\n" ty n ops (String.concat " " (List.map ev_str es))
    | [ "conv"; name; n; arg ] ->
      let n' = int_of_string n in
      let out =
        if arg = "keep" then ids (keep (List.map nat_of_int (seq 0 n'))) ^ "|-"
        else if arg = "transpose" then
          (* n is the number of elements of a square matrix *)
          let m = int_of_float (sqrt (float_of_int n')) in ids (transpose_perm (nat_of_int m)) ^ "|-"
        else (* from_iter with m items *)
          let m = int_of_string arg in
          let stored = from_iter_stored (nat_of_int n') (nat_of_int m) in
          let fill = String.concat "" (List.init (max 0 (n' - m)) (fun _ -> ".d")) in
          let st = if stored = [] then (if fill = "" then "-" else String.sub fill 1 (String.length fill - 1)) else ids stored ^ fill in
          st ^ "|" ^ ids (from_iter_surplus (nat_of_int n') (nat_of_int m)) in
      Printf.printf "conv %s %s %s => %s\n" name n arg out
    | [ "alias"; name; n; arg ] ->
      Printf.printf "alias %s %s %s => %s\n" name n arg (ids (keep (List.map nat_of_int (seq 0 (int_of_string n)))))
    | _ -> ()
  done with End_of_file -> ()
