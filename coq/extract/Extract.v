(** Extraction of the hand-written models to OCaml (ExtrOcamlBasic only; Z stays Coq's binary Z;
    decimal input/output of Z is done with the two extracted helpers below, no OCaml arithmetic on values). *)
Require Import ZArith List.
From VekModel Require Import IntLerp.
Require Extraction.
Require Import ExtrOcamlBasic.
Local Open Scope Z_scope.
Definition zpush (acc d : Z) : Z := acc * 10 + d.
Fixpoint zdigits (fuel : nat) (n : Z) : list Z :=
  match fuel with
  | O => nil
  | S f => if n <? 10 then n :: nil else (n mod 10) :: zdigits f (n / 10)
  end.
Extraction Language OCaml.
Set Extraction Output Directory ".".
Extraction "intlerp.ml" ilerp zpush zdigits Z.opp Z.ltb.
