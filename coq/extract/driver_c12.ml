(* reads "ty lo hi from to num sh" per line, prints "ty lo hi from to num sh r" with r = the Coq model's value *)
open Intlerp
let rec pos_of_int n = if n = 1 then XH else if n land 1 = 0 then XO (pos_of_int (n lsr 1)) else XI (pos_of_int (n lsr 1))
let small n = if n = 0 then Z0 else Zpos (pos_of_int n)
let z_of_string s =
  let neg = String.length s > 0 && s.[0] = '-' in
  let acc = ref Z0 in
  String.iteri (fun i c -> if not (i = 0 && neg) then acc := zpush !acc (small (Char.code c - 48))) s;
  if neg then Z.opp !acc else !acc
let rec nat_of_int n = if n = 0 then O else S (nat_of_int (n - 1))
let fuel = nat_of_int 40
let rec int_of_pos = function XH -> 1 | XO p -> 2 * int_of_pos p | XI p -> 2 * int_of_pos p + 1
let digit = function Z0 -> 0 | Zpos p -> int_of_pos p | Zneg _ -> 0
let string_of_z z =
  let neg = Z.ltb z Z0 in
  let a = if neg then Z.opp z else z in
  let ds = zdigits fuel a in
  let b = Buffer.create 24 in
  if neg then Buffer.add_char b '-';
  List.iter (fun d -> Buffer.add_char b (Char.chr (48 + digit d))) (List.rev ds);
  Buffer.contents b
let () =
  try while true do
    let line = input_line stdin in
    match String.split_on_char ' ' line with
    | [ty; lo; hi; from; to_; num; sh] ->
      let z = z_of_string in
      let r = ilerp (z lo) (z hi) (z from) (z to_) (z num) (z sh) in
      Printf.printf "%s %s %s %s %s %s %s %s\n" ty lo hi from to_ num sh (string_of_z r)
    | _ -> ()
  done with End_of_file -> ()
