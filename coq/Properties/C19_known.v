(** C19 — known finding (not an obligation): a negative component of a signed colour type makes
    inverted_rgb overflow. Proved by computation on the regenerated model; the check replays it on the
    real i8 code. If the code is changed so that it no longer overflows this file stops compiling, the
    KNOWN-FINDING line disappears, and nothing else is affected. *)
From VekLib Require Import Ops MachineInt.
From VekProofs Require Import C19_spec C19_known.
Theorem C19_known_signed_invert : C19_known_signed_invert_stmt. Proof. exact C19_known.C19_known_signed_invert. Qed.
Print Assumptions C19_known_signed_invert.
