(** C07 — Affine builders and Transform act on points as defined and chain in call order.
    Statements are in VekProofs.C07_spec; programs are regenerated from /repo by symx. *)
From VekLib Require Import Ops RingOps LinAlg.
From VekProofs Require Import C07_spec C07_proofs.

Theorem C07_constructors : forall C : cring, C07_constructors_stmt C.   Proof. exact C07_proofs.C07_constructors. Qed.
Theorem C07_actions : forall C : cring, C07_actions_stmt C.             Proof. exact C07_proofs.C07_actions. Qed.
Theorem C07_mul_point : forall C : cring, C07_mul_point_stmt C.         Proof. exact C07_proofs.C07_mul_point. Qed.
Theorem C07_mulv2 : forall C : cring, C07_mulv2_stmt C.                 Proof. exact C07_proofs.C07_mulv2. Qed.
Theorem C07_builders : forall C : cring, C07_builders_stmt C.           Proof. exact C07_proofs.C07_builders. Qed.
Theorem C07_inplace : forall C : cring, C07_inplace_stmt C.             Proof. exact C07_proofs.C07_inplace. Qed.
Theorem C07_chain_order : forall C : cring, C07_chain_order_stmt C.     Proof. exact C07_proofs.C07_chain_order. Qed.
Theorem C07_chain_example : forall C : cring, C07_chain_example_stmt C. Proof. exact C07_proofs.C07_chain_example. Qed.
Theorem C07_transform : forall C : cring, C07_transform_stmt C.         Proof. exact C07_proofs.C07_transform. Qed.

Print Assumptions C07_constructors.
Print Assumptions C07_actions.
Print Assumptions C07_mul_point.
Print Assumptions C07_mulv2.
Print Assumptions C07_builders.
Print Assumptions C07_inplace.
Print Assumptions C07_chain_order.
Print Assumptions C07_chain_example.
Print Assumptions C07_transform.
