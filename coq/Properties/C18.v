(** C18 — Element containers never duplicate, leak or touch a moved-out element.
    Theorems about the hand-written model VekModel.Containers (statements in VekProofs.C18_spec); the
    model is tied to the code by running its extracted definitions against the real containers with an
    ownership-tracking element type on the same histories (bin/corr c18). *)
From VekModel Require Import Containers.
From VekProofs Require Import C18_spec C18_proofs.
Require Import List.
Import ListNotations.

Theorem C18_iter_histories : C18_iter_histories_stmt. Proof. exact C18_proofs.C18_iter_histories. Qed.
Theorem C18_iter_reports : C18_iter_reports_stmt.     Proof. exact C18_proofs.C18_iter_reports. Qed.
Theorem C18_conversions : C18_conversions_stmt.       Proof. exact C18_proofs.C18_conversions. Qed.

(** the hypotheses are satisfiable: a concrete history *)
Example C18_history_example :
  snd (run (init 3) [Next; NextBack; Observe; Len; DropIt]) = [Yield (Some 0); Yield (Some 2); Reads [1]; Report 1; Drops [1]].
Proof. reflexivity. Qed.

Print Assumptions C18_iter_histories.
Print Assumptions C18_iter_reports.
Print Assumptions C18_conversions.
