(** C09 — View and change-of-basis matrices are rigid and place eye, target, axes right.
    Statements are in VekProofs.C09_spec; programs are regenerated from /repo by symx. *)
From VekLib Require Import Ops ROps LinAlg RLin.
From VekProofs Require Import C09_spec C09_proofs C09_main.

Theorem C09_constructors : C09_constructors_stmt. Proof. exact C09_proofs.C09_constructors. Qed.
Theorem C09_look_at : C09_look_at_stmt.           Proof. exact C09_main.C09_look_at. Qed.
Theorem C09_basis : C09_basis_stmt.               Proof. exact C09_main.C09_basis. Qed.

Print Assumptions C09_constructors.
Print Assumptions C09_look_at.
Print Assumptions C09_basis.
