(** C14 — Bezier evaluate, derivative, split and conversions obey the Bernstein identities.
    Statements are in VekProofs.C14_spec; programs are regenerated from /repo by symx. *)
From VekLib Require Import Ops ROps LinAlg RLin.
From VekProofs Require Import C14_spec C14_pa C14_pb C14_pc C14_fl.

Theorem C14_evaluate : C14_evaluate_stmt.       Proof. exact C14_pa.C14_evaluate. Qed.
Theorem C14_split : C14_split_stmt.             Proof. exact C14_pa.C14_split. Qed.
Theorem C14_conversions : C14_conversions_stmt. Proof. exact C14_pb.C14_conversions. Qed.
Theorem C14_elevation : C14_elevation_stmt.     Proof. exact C14_pb.C14_elevation. Qed.
Theorem C14_matrix : C14_matrix_stmt.           Proof. exact C14_pb.C14_matrix. Qed.
Theorem C14_matrix_mul : C14_matrix_mul_stmt.   Proof. exact C14_pb.C14_matrix_mul. Qed.
Theorem C14_circle : C14_circle_stmt.           Proof. exact C14_pc.C14_circle. Qed.
(** float clause of evaluation under the rounded interpretation of lib/FlOps.v *)
Theorem C14_float_evaluate : C14_float_evaluate_stmt. Proof. exact C14_fl.C14_float_evaluate. Qed.

Print Assumptions C14_evaluate.
Print Assumptions C14_split.
Print Assumptions C14_conversions.
Print Assumptions C14_elevation.
Print Assumptions C14_matrix.
Print Assumptions C14_matrix_mul.
Print Assumptions C14_circle.
Print Assumptions C14_float_evaluate.
