(** C08 — Projection matrices map the view volume onto the canonical clip volume.
    Statements are in VekProofs.C08_spec; programs are regenerated from /repo by symx. *)
From VekLib Require Import Ops ROps LinAlg RLin.
From VekProofs Require Import C08_spec C08_pa C08_pb C08_pc.

Theorem C08_planes : C08_planes_stmt.                                 Proof. exact C08_pa.C08_planes. Qed.
Theorem C08_ortho_nodepth : C08_ortho_nodepth_stmt.                   Proof. exact C08_pb.C08_ortho_nodepth. Qed.
Theorem C08_perspective : C08_perspective_stmt.                       Proof. exact C08_pb.C08_perspective. Qed.
Theorem C08_perspective_is_frustum : C08_perspective_is_frustum_stmt. Proof. exact C08_pb.C08_perspective_is_frustum. Qed.
Theorem C08_perspective_fov : C08_perspective_fov_stmt.               Proof. exact C08_pb.C08_perspective_fov. Qed.
Theorem C08_handedness : C08_handedness_stmt.                         Proof. exact C08_pc.C08_handedness. Qed.
Theorem C08_infinite : C08_infinite_stmt.                             Proof. exact C08_pc.C08_infinite. Qed.

Print Assumptions C08_planes.
Print Assumptions C08_ortho_nodepth.
Print Assumptions C08_perspective.
Print Assumptions C08_perspective_is_frustum.
Print Assumptions C08_perspective_fov.
Print Assumptions C08_handedness.
Print Assumptions C08_infinite.
