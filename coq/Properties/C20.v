(** C20 — Numeric lifts, casts, approx equality are per-element.
    Statements are in VekProofs.C20_spec; programs are regenerated from /repo by symx. *)
From VekLib Require Import Ops RingOps LinAlg.
From VekProofs Require Import C20_spec C20_pa C20_pb C20_pc C20_pd.

Theorem C20_lifts : forall C : cring, C20_lifts_stmt C.                         Proof. exact C20_pa.C20_lifts. Qed.
Theorem C20_overflowing_small : forall C : cring, C20_overflowing_small_stmt C. Proof. exact C20_pb.C20_overflowing_small. Qed.
Theorem C20_overflowing_wide : forall C : cring, C20_overflowing_wide_stmt C.   Proof. exact C20_pb.C20_overflowing_wide. Qed.
Theorem C20_vec_block : forall C : cring, C20_vec_block_stmt C.                 Proof. exact C20_pc.C20_vec_block. Qed.
Theorem C20_mat_block : forall C : cring, C20_mat_block_stmt C.                 Proof. exact C20_pd.C20_mat_block. Qed.

Print Assumptions C20_lifts.
Print Assumptions C20_overflowing_small.
Print Assumptions C20_overflowing_wide.
Print Assumptions C20_vec_block.
Print Assumptions C20_mat_block.
