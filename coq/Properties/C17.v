(** C17 — Clamp, range test, wrap, ping-pong and angle difference obey their range laws.
    Statements are in VekProofs.C17_spec (reals) and VekProofs.C17_int_spec (machine integers);
    programs are regenerated from /repo by symx (the scalar impls are lifted textually from src/ops.rs). *)
From VekLib Require Import Ops ROps LinAlg RLin MachineInt.
From VekProofs Require Import C17_spec C17_int_spec C17_pa C17_pb C17_pc C17_int C17_fl.

Theorem C17_clamp : C17_clamp_stmt.                                 Proof. exact C17_pa.C17_clamp. Qed.
Theorem C17_wrap : C17_wrap_stmt.                                   Proof. exact C17_pb.C17_wrap. Qed.
Theorem C17_vector : C17_vector_stmt.                               Proof. exact C17_pc.C17_vector. Qed.
Theorem C17_int_clamp : C17_int_clamp_stmt.                         Proof. exact C17_int.C17_int_clamp. Qed.
Theorem C17_int_wrapped_between : C17_int_wrapped_between_stmt.     Proof. exact C17_int.C17_int_wrapped_between. Qed.
Theorem C17_int_wrap : C17_int_wrap_stmt.                           Proof. exact C17_int.C17_int_wrap. Qed.
(** the inputs of the three repaired overflow defects now give the demanded values, with and without overflow checks *)
(** float clause for wrapped, under the rounded interpretation of lib/FlOps.v: congruent and in range up to a few ulps of |x| *)
Theorem C17_float_wrapped : C17_float_wrapped_stmt.                 Proof. exact C17_fl.C17_float_wrapped. Qed.
Theorem C17_float_wrapped_between : C17_float_wrapped_between_stmt. Proof. exact C17_fl.C17_float_wrapped_between. Qed.
Theorem C17_float_pingpong : C17_float_pingpong_stmt.               Proof. exact C17_fl.C17_float_pingpong. Qed.
Theorem C17_repaired : C17_repaired_stmt.                           Proof. exact C17_int.C17_repaired. Qed.

Print Assumptions C17_clamp.
Print Assumptions C17_wrap.
Print Assumptions C17_vector.
Print Assumptions C17_int_clamp.
Print Assumptions C17_int_wrapped_between.
Print Assumptions C17_int_wrap.
Print Assumptions C17_repaired.
Print Assumptions C17_float_wrapped.
Print Assumptions C17_float_wrapped_between.
Print Assumptions C17_float_pingpong.

(** the hypotheses of the integer theorems are satisfiable (i8, overflow checks on), at the inputs that used to overflow *)
Require Import ZArith.
Local Open Scope Z_scope.
Example C17_int_example :
  let s := {| signed := true; width := 8; dbg := true |} in
  wf s /\ 2 <= imax s /\ in_range s (-100) /\ in_range s 100 /\ in_range s 120 /\ 0 <= 100 < 120.
Proof. cbv [wf in_range imin imax signed width]. repeat split; Lia.lia. Qed.
