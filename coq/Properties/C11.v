(** C11 — Spatial vector functions satisfy their geometric definitions.
    Statements are in VekProofs.C11_spec; programs are regenerated from /repo by symx. *)
From VekLib Require Import Ops ROps LinAlg RLin RSum.
From VekProofs Require Import C11_spec C11_pb C11_wide C11_pd C11_pe C11_pf C11_pg C11_fl.

Theorem C11_basic : C11_basic_stmt. Proof. exact C11_pb.C11_basic. Qed.
Theorem C11_wide : C11_wide_stmt.   Proof. exact C11_wide.C11_wide. Qed.
Theorem C11_heavy : C11_heavy_stmt. Proof. exact C11_pd.C11_heavy. Qed.
Theorem C11_2d : C11_2d_stmt.       Proof. exact C11_pe.C11_2d. Qed.
Theorem C11_cross : C11_cross_stmt. Proof. exact C11_pe.C11_cross. Qed.
Theorem C11_4d : C11_4d_stmt.       Proof. exact C11_pe.C11_4d. Qed.
Theorem C11_slerp : C11_slerp_stmt. Proof. exact C11_pf.C11_slerp. Qed.
Theorem C11_degrees : C11_degrees_stmt. Proof. exact C11_pd.C11_degrees. Qed.
Theorem C11_slerp_clamped : C11_slerp_clamped_stmt. Proof. exact C11_pg.C11_slerp_clamped. Qed.
(** float clause of normalisation under the rounded interpretation of lib/FlOps.v *)
Theorem C11_float_normalized : C11_float_normalized_stmt. Proof. exact C11_fl.C11_float_normalized. Qed.
Theorem C11_float_normalized24 : C11_float_normalized24_stmt. Proof. exact C11_fl.C11_float_normalized24. Qed.

Print Assumptions C11_basic.
Print Assumptions C11_wide.
Print Assumptions C11_heavy.
Print Assumptions C11_2d.
Print Assumptions C11_cross.
Print Assumptions C11_4d.
Print Assumptions C11_slerp.
Print Assumptions C11_slerp_clamped.
Print Assumptions C11_degrees.
Print Assumptions C11_float_normalized.
Print Assumptions C11_float_normalized24.
