(** C19 — Vector kind/size conversions, swizzles, shuffles, colour helpers keep elements.
    Statements are in VekProofs.C19_spec; programs are regenerated from /repo by symx. *)
From VekLib Require Import Ops RingOps LinAlg MachineInt.
From VekProofs Require Import C19_spec C19_proofs.
Require Import ZArith NArith.
From VekModel Require Import ShuffleMask.

Theorem C19_conv : forall C : cring, C19_conv_stmt C.       Proof. exact C19_proofs.C19_conv. Qed.
Theorem C19_swizzle : forall C : cring, C19_swizzle_stmt C. Proof. exact C19_proofs.C19_swizzle. Qed.
Theorem C19_shuffle : forall C : cring, C19_shuffle_stmt C. Proof. exact C19_proofs.C19_shuffle. Qed.
Theorem C19_color : forall C : cring, C19_color_stmt C.     Proof. exact C19_proofs.C19_color. Qed.
Theorem C19_embed : forall C : cring, C19_embed_stmt C.     Proof. exact C19_proofs.C19_embed. Qed.
Theorem C19_int_invert : C19_int_invert_stmt.               Proof. exact C19_proofs.C19_int_invert. Qed.

(** ShuffleMask4 on arbitrary machine words (hand-written model VekModel.ShuffleMask, tied to the code by the
    extracted-model correspondence "shufmask"): indices are taken modulo 4 for EVERY word, not only the 256 sampled tuples *)
Theorem C19_mask_indices : forall a b c d : N,
  idx (mk a b c d) = (a mod 4, b mod 4, c mod 4, d mod 4)%N /\ (mk a b c d < 256)%N.       Proof. exact idx_mk. Qed.
Theorem C19_mask_reduce : forall a b c d : N, mk a b c d = mk (a mod 4) (b mod 4) (c mod 4) (d mod 4).  Proof. exact mk_reduce. Qed.
Theorem C19_mask_shuffle : forall (A : Type) (lo hi : A * A * A * A) (a b c d : N),
  shuffle_lo_hi lo hi (mk a b c d) = (sel lo (a mod 4), sel lo (b mod 4), sel hi (c mod 4), sel hi (d mod 4)).  Proof. exact @shuffle_any_indices. Qed.
Theorem C19_mask_eq : forall a b c d a' b' c' d' : N,
  mk a b c d = mk a' b' c' d' <-> (a mod 4 = a' mod 4 /\ b mod 4 = b' mod 4 /\ c mod 4 = c' mod 4 /\ d mod 4 = d' mod 4)%N.  Proof. exact mk_eq_iff. Qed.

Print Assumptions C19_conv.
Print Assumptions C19_swizzle.
Print Assumptions C19_shuffle.
Print Assumptions C19_color.
Print Assumptions C19_embed.
Print Assumptions C19_int_invert.
Print Assumptions C19_mask_indices.
Print Assumptions C19_mask_reduce.
Print Assumptions C19_mask_shuffle.
Print Assumptions C19_mask_eq.

(** the hypotheses of C19_int_invert are satisfiable: an 8-bit unsigned colour *)
Example C19_int_example :
  let s := {| signed := false; width := 8; dbg := true |} in
  (0 < width s)%Z /\ comp_ok s 3 (fun i => match i with O => 0%Z | S O => 200%Z | _ => 255%Z end).
Proof. split; [ reflexivity | ]. intros i Hi. cbv [imax signed width]. destruct i as [|[|[|i]]]; cbn; Lia.lia. Qed.
