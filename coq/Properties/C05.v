(** C05 — Quaternions form the Hamilton algebra and rotate vectors like their matrix.
    Statements are in VekProofs.C05_spec; programs are regenerated from /repo by symx. *)
From VekLib Require Import Ops ROps LinAlg RLin.
From VekProofs Require Import C05_spec C05_pa C05_pb.

Theorem C05_ops : C05_ops_stmt.               Proof. exact C05_pa.C05_ops. Qed.
Theorem C05_algebra : C05_algebra_stmt.       Proof. exact C05_pa.C05_algebra. Qed.
Theorem C05_apply : C05_apply_stmt.           Proof. exact C05_pa.C05_apply. Qed.
Theorem C05_from_to : C05_from_to_stmt.       Proof. exact C05_pb.C05_from_to. Qed.
Theorem C05_angle_axis : C05_angle_axis_stmt. Proof. exact C05_pb.C05_angle_axis. Qed.

Print Assumptions C05_ops.
Print Assumptions C05_algebra.
Print Assumptions C05_apply.
Print Assumptions C05_from_to.
Print Assumptions C05_angle_axis.
