(** C11 — thorough tier only: the full normalisation / reflection / face_forward statement [basic_ok] for the
    32-lane vector type (the per-lane proofs are slow, so they are not part of the quick tier). *)
From VekLib Require Import Ops ROps LinAlg RLin RSum.
From VekGen Require Import C11_gen.
From VekProofs Require Import C11_spec C11_b_vec32.
Require Import List.
Import ListNotations.
Theorem C11_basic_vec32 : basic_ok 32 [p_vec32_dot; p_vec32_magnitude_squared; p_vec32_magnitude; p_vec32_distance_squared; p_vec32_distance; p_vec32_normalized; p_vec32_normalize; p_vec32_normalized_and_get_magnitude; p_vec32_normalize_and_get_magnitude; p_vec32_reflected; p_vec32_face_forward].
Proof. exact C11_b_vec32.basic_vec32. Qed.
Print Assumptions C11_basic_vec32.
