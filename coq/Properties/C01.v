(** C01 — Matrix products are the linear-algebra product in both storage layouts.
    Statements are in VekProofs.C01_spec; programs are regenerated from /repo by symx. *)
From VekLib Require Import Ops RingOps LinAlg.
From VekProofs Require Import C01_spec C01_proofs.

Theorem C01_mul : forall C : cring, C01_mul_stmt C.                   Proof. exact C01_proofs.C01_mul. Qed.
Theorem C01_mulv : forall C : cring, C01_mulv_stmt C.                 Proof. exact C01_proofs.C01_mulv. Qed.
Theorem C01_vmul : forall C : cring, C01_vmul_stmt C.                 Proof. exact C01_proofs.C01_vmul. Qed.
Theorem C01_identity : forall C : cring, C01_identity_stmt C.         Proof. exact C01_proofs.C01_identity. Qed.
Theorem C01_neutral : forall C : cring, C01_neutral_stmt C.           Proof. exact C01_proofs.C01_neutral. Qed.
Theorem C01_elementwise : forall C : cring, C01_elementwise_stmt C.   Proof. exact C01_proofs.C01_elementwise. Qed.
Theorem C01_forms : forall C : cring, C01_forms_stmt C.               Proof. exact C01_proofs.C01_forms. Qed.
Theorem C01_mat2_helpers : forall C : cring, C01_mat2_helpers_stmt C. Proof. exact C01_proofs.C01_mat2_helpers. Qed.

Print Assumptions C01_mul.
Print Assumptions C01_mulv.
Print Assumptions C01_vmul.
Print Assumptions C01_identity.
Print Assumptions C01_neutral.
Print Assumptions C01_elementwise.
Print Assumptions C01_forms.
Print Assumptions C01_mat2_helpers.
