(** C17 — known findings (not obligations): concrete 8-bit inputs on which the integer wrap/ping-pong code
    overflows although the result demanded by the property is representable. Proved by computation on the
    regenerated model; the check replays them on the real i8/u8 code. If the code is repaired this file stops
    compiling, the KNOWN-FINDING lines disappear, and nothing else is affected. *)
From VekLib Require Import Ops MachineInt.
From VekProofs Require Import C17_int_spec C17_known.
Theorem C17_known_overflows : C17_known_overflows_stmt. Proof. exact C17_known.C17_known_overflows. Qed.
Print Assumptions C17_known_overflows.
