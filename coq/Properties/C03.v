(** C03 — Element (i,j) means row i, column j in every matrix API, whatever the layout.
    Statements are in VekProofs.C03_spec; programs are regenerated from /repo by symx. *)
From VekLib Require Import Ops RingOps LinAlg.
From VekProofs Require Import C03_spec C03_proofs.

Theorem C03_construct : forall C : cring, C03_construct_stmt C. Proof. exact C03_proofs.C03_construct. Qed.
Theorem C03_access : forall C : cring, C03_access_stmt C.       Proof. exact C03_proofs.C03_access. Qed.
Theorem C03_transform : forall C : cring, C03_transform_stmt C. Proof. exact C03_proofs.C03_transform. Qed.
Theorem C03_sequence : forall C : cring, C03_sequence_stmt C.   Proof. exact C03_proofs.C03_sequence. Qed.

Print Assumptions C03_construct.
Print Assumptions C03_access.
Print Assumptions C03_transform.
Print Assumptions C03_sequence.
