(** C13 — Axis-aligned boxes and rectangles behave as the point sets they denote.
    Statements are in VekProofs.C13_spec; programs are regenerated from /repo by symx. *)
From VekLib Require Import Ops ROps LinAlg RLin.
From VekLib Require Import MachineInt.
Require Import ZArith.
From VekProofs Require Import C13_spec C13_proofs C13_rect C13_int C13_misc C13_intrect.

Theorem C13_aabr : C13_aabr_stmt. Proof. exact C13_proofs.C13_aabr. Qed.
Theorem C13_aabb : C13_aabb_stmt. Proof. exact C13_proofs.C13_aabb. Qed.
Theorem C13_rect : C13_rect_stmt. Proof. exact C13_rect.C13_rect. Qed.
Theorem C13_int : C13_int_stmt. Proof. exact C13_int.C13_int. Qed.
Theorem C13_misc : C13_misc_stmt. Proof. exact C13_misc.C13_misc. Qed.
(** rectangle predicates on machine integers of every width: the interval predicates when the corner sums are representable,
    a panic (overflow checks on) as soon as one is not — even when an earlier comparison decides the answer *)
Theorem C13_int_rect : C13_int_rect_stmt. Proof. exact C13_intrect.C13_int_rect. Qed.

Print Assumptions C13_aabr.
Print Assumptions C13_aabb.
Print Assumptions C13_rect.
Print Assumptions C13_int.
Print Assumptions C13_misc.
Print Assumptions C13_int_rect.

(** the hypotheses of C13_int are satisfiable: an 8-bit signed box *)
Example C13_int_example :
  let s := {| signed := true; width := 8; dbg := true |} in
  C13_int.ok2 s /\ in_range s (10 + 100)%Z /\ in_range s (100 - 10)%Z.
Proof. cbv [C13_int.ok2 in_range imin imax signed width]. cbn. repeat split; Lia.lia. Qed.

(** the hypotheses of C13_int_rect are satisfiable: 8-bit signed rectangles (3,4,10,20) and (5,6,2,3), overflow checks on *)
Require Import List. Import ListNotations.
Local Open Scope Z_scope.
Example C13_int_rect_example :
  let s := {| signed := true; width := 8; dbg := true |} in
  in_range s 0 /\ in_range s 1 /\ in_range s (3 + 10) /\ in_range s (4 + 20) /\ in_range s (5 + 2) /\ in_range s (6 + 3) /\
  irun s (C13_intrect.env8 (3 :: 4 :: 10 :: 20 :: 5 :: 6 :: 2 :: 3 :: nil)) C13_gen.p_s_rect_contains_rect = Ops.Ret (nil, (1 :: nil)) /\
  (* and an unrepresentable corner (100 + 100 > 127) panics although x' < x already decides "not contained" *)
  irun s (C13_intrect.env8 (100 :: 0 :: 100 :: 1 :: 0 :: 0 :: 1 :: 1 :: nil)) C13_gen.p_s_rect_contains_rect = Ops.Panic.
Proof. cbv [in_range imin imax signed width]. repeat split; try Lia.lia; vm_compute; reflexivity. Qed.
