(** C10 — Viewport projection, unprojection and the picking matrix are consistent.
    Statements are in VekProofs.C10_spec; programs are regenerated from /repo by symx. *)
From VekLib Require Import Ops ROps LinAlg RLin.
From VekProofs Require Import C10_spec C10_pa C10_pb.

Theorem C10_project : C10_project_stmt.     Proof. exact C10_pa.C10_project. Qed.
Theorem C10_roundtrip : C10_roundtrip_stmt. Proof. exact C10_pb.C10_roundtrip. Qed.
Theorem C10_picking : C10_picking_stmt.     Proof. exact C10_pa.C10_picking. Qed.

Print Assumptions C10_project.
Print Assumptions C10_roundtrip.
Print Assumptions C10_picking.
