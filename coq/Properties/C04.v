(** C04 — Rotation builders yield proper right-handed rotations, consistent across types.
    Statements are in VekProofs.C04_spec; programs are regenerated from /repo by symx. *)
From VekLib Require Import Ops ROps LinAlg RLin.
From VekProofs Require Import C04_spec C04_pa C04_pb C04_pc C04_pd C04_pe.

Theorem C04_axis_constructors : C04_axis_constructors_stmt.         Proof. exact C04_pa.C04_axis_constructors. Qed.
Theorem C04_axis_rotations_proper : C04_axis_rotations_proper_stmt. Proof. exact C04_pa.C04_axis_rotations_proper. Qed.
Theorem C04_rotation_3d : C04_rotation_3d_stmt.                     Proof. exact C04_pb.C04_rotation_3d. Qed.
Theorem C04_rodrigues_proper : C04_rodrigues_proper_stmt.           Proof. exact C04_pc.C04_rodrigues_proper. Qed.
Theorem C04_chained : C04_chained_stmt.                             Proof. exact C04_pd.C04_chained. Qed.
Theorem C04_block : C04_block_stmt.                                 Proof. exact C04_pe.C04_block. Qed.
Theorem C04_quaternion : C04_quaternion_stmt.                       Proof. exact C04_pe.C04_quaternion. Qed.
Theorem C04_vec2 : C04_vec2_stmt.                                   Proof. exact C04_pe.C04_vec2. Qed.

Print Assumptions C04_axis_constructors.
Print Assumptions C04_axis_rotations_proper.
Print Assumptions C04_rotation_3d.
Print Assumptions C04_rodrigues_proper.
Print Assumptions C04_chained.
Print Assumptions C04_block.
Print Assumptions C04_quaternion.
Print Assumptions C04_vec2.
