(** C12 — Lerp is affine with exact endpoints; nlerp and slerp stay on the unit sphere (real-valued part).
    The integer Lerp impls are covered by the hand-written model coq/model/IntLerp.v and its correspondence leg. *)
From VekLib Require Import Ops ROps LinAlg RLin.
From VekProofs Require Import C12_spec C12_pa C12_pb C12_pc C12_pd C12_fl.

Theorem C12_scalar : C12_scalar_stmt.         Proof. exact C12_pa.C12_scalar. Qed.
Theorem C12_vector : C12_vector_stmt.         Proof. exact C12_pa.C12_vector. Qed.
Theorem C12_nlerp : C12_nlerp_stmt.           Proof. exact C12_pb.C12_nlerp. Qed.
Theorem C12_slerp : C12_slerp_stmt.           Proof. exact C12_pc.C12_slerp. Qed.
Theorem C12_transform : C12_transform_stmt.   Proof. exact C12_pd.C12_transform. Qed.
Theorem C12_transition : C12_transition_stmt. Proof. exact C12_pa.C12_transition. Qed.

Print Assumptions C12_scalar.
Print Assumptions C12_vector.
Print Assumptions C12_nlerp.
Print Assumptions C12_slerp.
Print Assumptions C12_transform.
Print Assumptions C12_transition.

(** integer Lerp impls: theorems about the hand-written model (tied to the code by the correspondence leg) *)
From VekModel Require Import IntLerp.
Require Import ZArith.
Local Open Scope Z_scope.
Theorem C12_int_endpoints : forall lo hi from to sh, 0 <= sh -> lo <= from <= hi -> lo <= to <= hi ->
  ilerp lo hi from to 0 sh = from /\ ilerp lo hi from to (2 ^ sh) sh = to.
Proof. exact ilerp_endpoints. Qed.
Theorem C12_int_between : forall lo hi from to num sh, 0 <= sh -> lo <= from <= hi -> lo <= to <= hi -> 0 <= num <= 2 ^ sh ->
  Z.min from to <= ilerp lo hi from to num sh <= Z.max from to.
Proof. exact ilerp_between. Qed.
Theorem C12_int_nearest : forall lo hi from to num sh, 0 <= sh ->
  let d := 2 ^ sh in let v := from * d + num * (to - from) in let r := round_half_away v d in
  lo <= r <= hi -> ilerp lo hi from to num sh = r /\ 2 * Z.abs (d * r - v) <= d.
Proof. exact ilerp_nearest. Qed.
(** floating-point clause, under the rounded interpretation of lib/FlOps.v (Flocq FLX, precision 53) *)
Theorem C12_float_lerp : C12_float_lerp_stmt. Proof. exact C12_fl.C12_float_lerp. Qed.
Print Assumptions C12_int_endpoints.
Print Assumptions C12_int_between.
Print Assumptions C12_int_nearest.
Print Assumptions C12_float_lerp.
