(** C02 — Vector operators and reductions act element-wise on every vector type.
    Statements are in VekProofs.C02_spec; programs are regenerated from /repo by symx. *)
From VekLib Require Import Ops RingOps LinAlg.
From VekModel Require Import BoolReduce.
Require Import List.
From VekProofs Require Import C02_spec C02_pa C02_pb C02_pc C02_pd C02_pe C02_pf C02_pg C02_ph C02_pi.

Theorem C02_construct : forall C : cring, C02_construct_stmt C.           Proof. exact C02_pa.C02_construct. Qed.
Theorem C02_arith : forall C : cring, C02_arith_stmt C.                   Proof. exact C02_pb.C02_arith. Qed.
Theorem C02_bits : forall C : cring, C02_bits_stmt C.                     Proof. exact C02_pc.C02_bits. Qed.
Theorem C02_unary_fma : forall C : cring, C02_unary_fma_stmt C.           Proof. exact C02_pd.C02_unary_fma. Qed.
Theorem C02_reduce : forall C : cring, C02_reduce_stmt C.                 Proof. exact C02_pe.C02_reduce. Qed.
Theorem C02_dot : forall C : cring, C02_dot_stmt C.                       Proof. exact C02_pe.C02_dot. Qed.
Theorem C02_elementwise : forall C : cring, C02_elementwise_stmt C.       Proof. exact C02_pf.C02_elementwise. Qed.
Theorem C02_reduce_partial : forall C : cring, C02_reduce_partial_stmt C. Proof. exact C02_pg.C02_reduce_partial. Qed.
Theorem C02_reduce_partial_wide : forall C : cring, C02_reduce_partial_wide_stmt C. Proof. exact C02_pi.C02_reduce_partial_wide. Qed.
Theorem C02_cmp_small : forall C : cring, C02_cmp_small_stmt C.           Proof. exact C02_pg.C02_cmp_small. Qed.
Theorem C02_cmp_wide : forall C : cring, C02_cmp_wide_stmt C.             Proof. exact C02_ph.C02_cmp_wide. Qed.

(** hand-written model of the concrete-type reductions (tied to the code by the correspondence run) *)
Theorem C02_bool_reduce_and : forall l, reduce_and l = true <-> (forall b, In b l -> b = true). Proof. exact reduce_and_spec. Qed.
Theorem C02_bool_reduce_or : forall l, reduce_or l = true <-> (exists b, In b l /\ b = true).  Proof. exact reduce_or_spec. Qed.

Print Assumptions C02_bool_reduce_and.
Print Assumptions C02_bool_reduce_or.
Print Assumptions C02_construct.
Print Assumptions C02_arith.
Print Assumptions C02_bits.
Print Assumptions C02_unary_fma.
Print Assumptions C02_reduce.
Print Assumptions C02_dot.
Print Assumptions C02_elementwise.
Print Assumptions C02_reduce_partial.
Print Assumptions C02_reduce_partial_wide.
Print Assumptions C02_cmp_small.
Print Assumptions C02_cmp_wide.
