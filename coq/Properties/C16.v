(** C16 — Disks, spheres, segments, rays: containment, distance and hit queries are exact.
    Statements are in VekProofs.C16_spec; programs are regenerated from /repo by symx. *)
From VekLib Require Import Ops ROps LinAlg RLin.
From VekProofs Require Import C16_spec C16_pb C16_pc C16_pd.

Theorem C16_disk_sphere : C16_disk_sphere_stmt. Proof. exact C16_pb.C16_disk_sphere. Qed.
Theorem C16_segment : C16_segment_stmt.         Proof. exact C16_pc.C16_segment. Qed.
Theorem C16_ray : C16_ray_stmt.                 Proof. exact C16_pd.C16_ray. Qed.
Theorem C16_ray_new : C16_ray_new_stmt.         Proof. intros k a; reflexivity. Qed.

Print Assumptions C16_disk_sphere.
Print Assumptions C16_segment.
Print Assumptions C16_ray.
Print Assumptions C16_ray_new.
