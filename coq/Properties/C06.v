(** C06 — Determinants are correct and the inverse functions really invert.
    Statements are in VekProofs.C06_spec; programs are regenerated from /repo by symx. *)
From VekLib Require Import Ops ROps LinAlg RLin.
From VekProofs Require Import C06_spec C06_pa C06_proofs.

Theorem C06_det_leibniz : C06_det_leibniz_stmt.                 Proof. exact C06_pa.C06_det_leibniz. Qed.
Theorem C06_det_transpose : C06_det_transpose_stmt.             Proof. exact C06_pa.C06_det_transpose. Qed.
Theorem C06_det_mul : C06_det_mul_stmt.                         Proof. exact C06_pa.C06_det_mul. Qed.
Theorem C06_inverse : C06_inverse_stmt.                         Proof. exact C06_proofs.C06_inverse. Qed.
Theorem C06_rigid_inverse : C06_rigid_inverse_stmt.             Proof. exact C06_proofs.C06_rigid_inverse. Qed.
Theorem C06_affine_inverse : C06_affine_inverse_stmt.           Proof. exact C06_proofs.C06_affine_inverse. Qed.
Theorem C06_inverse_unique : C06_inverse_unique_stmt.           Proof. exact C06_pa.C06_inverse_unique. Qed.
Theorem C06_invertible_det : C06_invertible_det_stmt.           Proof. exact C06_pa.C06_invertible_det. Qed.
Theorem C06_fast_agrees_general : C06_fast_agrees_general_stmt. Proof. exact C06_proofs.C06_fast_agrees_general. Qed.

Print Assumptions C06_det_leibniz.
Print Assumptions C06_det_transpose.
Print Assumptions C06_det_mul.
Print Assumptions C06_inverse.
Print Assumptions C06_rigid_inverse.
Print Assumptions C06_affine_inverse.
Print Assumptions C06_inverse_unique.
Print Assumptions C06_invertible_det.
Print Assumptions C06_fast_agrees_general.
