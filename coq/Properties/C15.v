(** C15 — Bezier extrema, bounding boxes, closest-point search and length bound the curve.
    Statements are in VekProofs.C15_spec; programs are regenerated from /repo by symx. *)
From VekLib Require Import Ops ROps LinAlg RLin.
From VekModel Require Import PolyLen BezierSearch.
Require Import QArith Reals Lra.
Require Import NArith List.
From VekProofs Require Import C15_spec C15_pa C15_pb C15_pd C15_pf C15_pg C15_ph C15_pi C15_pj.

Theorem C15_quad_inflection : C15_quad_inflection_stmt.     Proof. exact C15_pb.C15_quad_inflection. Qed.
Theorem C15_quad_extrema : C15_quad_extrema_stmt.           Proof. exact C15_pa.C15_quad_extrema. Qed.
Theorem C15_cubic_inflections : C15_cubic_inflections_stmt. Proof. exact C15_pd.C15_cubic_inflections. Qed.
Theorem C15_cubic_extrema : C15_cubic_extrema_stmt.         Proof. exact C15_pd.C15_cubic_extrema. Qed.
Theorem C15_bbox_quad : C15_bbox_quad_stmt.                 Proof. exact C15_pf.C15_bbox_quad. Qed.
Theorem C15_search : C15_search_stmt.                       Proof. exact C15_pg.C15_search. Qed.
Theorem C15_length_code : C15_length_code_stmt.             Proof. exact C15_pi.C15_length_code. Qed.
Theorem C15_length_model : C15_length_model_stmt.           Proof. exact C15_ph.C15_length_model. Qed.
Theorem C15_length_polygon : C15_length_polygon_stmt.       Proof. exact C15_pj.polylen_le_control_polygon. Qed.

(** loop shape of length_by_discretization (hand-written model, tied to the code by the correspondence run) *)
Theorem C15_loop_segments : forall n, segments n = N.succ n.            Proof. exact segments_spec. Qed.
Theorem C15_loop_last : forall n, last (seg_ends n) 0%N = N.succ n.     Proof. exact last_end. Qed.

(** closest-point search, coarse phase and refinement loop (hand-written model over exact rationals, tied to the
    code by the correspondence run on dyadic rationals): for every fuel, curve, query, samples, half interval and epsilon *)
Theorem C15_search_loop : forall fuel curve p samples h eps s',
  search fuel curve p samples h eps = Some s' ->
  (dd s' <= BezierSearch.dist2 (ev curve 1) p)%Q /\ (forall tx, In tx samples -> (dd s' <= BezierSearch.dist2 (snd tx) p)%Q) /\
  dd_ok p s' /\ ((forall tx, In tx samples -> snd tx = ev curve (fst tx)) -> on_curve curve s').
Proof. exact search_spec. Qed.

(** the optimality hypotheses are satisfiable: a cubic with a genuinely quadratic derivative and two distinct roots,
    coordinates 0, 3, -3, 0 and epsilon 1/1000 *)
Example C15_clean_example :
  let P := C15_spec.pts 1 (fun i => match i with O => 0%R | S O => 3%R | S (S O) => (-3)%R | _ => 0%R end) in
  cclean (1 / 1000)%R P 0 /\ ca P 0 <> 0%R /\ (0 < cdisc P 0)%R.
Proof.
  cbv [cclean clean ca cb cc cdisc C15_spec.pts Nat.mul Nat.add]. repeat split; try (right; unfold Rabs; destruct (Rcase_abs _); lra); lra.
Qed.

Print Assumptions C15_search_loop.
Print Assumptions C15_loop_segments.
Print Assumptions C15_loop_last.
Print Assumptions C15_quad_inflection.
Print Assumptions C15_quad_extrema.
Print Assumptions C15_cubic_inflections.
Print Assumptions C15_cubic_extrema.
Print Assumptions C15_bbox_quad.
Print Assumptions C15_search.
Print Assumptions C15_length_code.
Print Assumptions C15_length_model.
Print Assumptions C15_length_polygon.
