(** * Rename — running a program whose input variables are renamed = running it on re-indexed inputs. *)
Require Import ZArith List.
From VekLib Require Import Ops.
Import ListNotations.

Section Rename.
  Variable s : nat -> nat.
  Definition ren_atom (x : atom) : atom := match x with AVar i => AVar (s i) | _ => x end.
  Definition ren_node (n : node) : node :=
    match n with
    | N1 o x => N1 o (ren_atom x)
    | N2 o x y => N2 o (ren_atom x) (ren_atom y)
    | NFma x y z => NFma (ren_atom x) (ren_atom y) (ren_atom z)
    | NPowi x n => NPowi (ren_atom x) n
    | NFun id args => NFun id (map ren_atom args)
    end.
  Definition ren_cond (c : cond) : cond :=
    match c with CLt x y => CLt (ren_atom x) (ren_atom y) | CEq x y => CEq (ren_atom x) (ren_atom y) end.
  Fixpoint ren_tree (t : dtree) : dtree :=
    match t with
    | DPanic => DPanic | DCut => DCut
    | DRet f v => DRet f (map ren_atom v)
    | DIf c t e => DIf (ren_cond c) (ren_tree t) (ren_tree e)
    end.
  Definition ren_prog (p : prog) : prog :=
    {| p_nin := p_nin p; p_nodes := map ren_node (p_nodes p); p_tree := ren_tree (p_tree p) |}.

  Context {T : Type} (O : Ops T) (F : nat -> list T -> T) (a : nat -> T).
  Let a' : nat -> T := fun i => a (s i).

  Lemma ren_atom_ok env x : den_atom O a env (ren_atom x) = den_atom O a' env x.
  Proof. destruct x; reflexivity. Qed.
  Lemma ren_node_ok env n : den_node O F a env (ren_node n) = den_node O F a' env n.
  Proof.
    destruct n; cbn [ren_node den_node]; rewrite ?ren_atom_ok; try reflexivity.
    f_equal. rewrite map_map. apply map_ext. intros x. apply ren_atom_ok.
  Qed.
  Lemma ren_cond_ok env c : den_cond O a env (ren_cond c) = den_cond O a' env c.
  Proof. destruct c; cbn [ren_cond den_cond]; rewrite !ren_atom_ok; reflexivity. Qed.
  Lemma ren_tree_ok env t : den_tree O a env (ren_tree t) = den_tree O a' env t.
  Proof.
    induction t as [ | | f v | c t1 IH1 t2 IH2 ]; cbn [ren_tree den_tree]; try reflexivity.
    - f_equal. f_equal. rewrite map_map. apply map_ext. intros x. apply ren_atom_ok.
    - rewrite ren_cond_ok, IH1, IH2. reflexivity.
  Qed.
  Lemma ren_nodes_ok ns : forall env t, den_nodes O F a (map ren_node ns) env (ren_tree t) = den_nodes O F a' ns env t.
  Proof.
    induction ns as [|n ns IH]; intros env t; cbn [map den_nodes]; [ apply ren_tree_ok | ].
    rewrite ren_node_ok. apply IH.
  Qed.
  Lemma ren_prog_ok p : run O F a (ren_prog p) = run O F a' p.
  Proof. unfold run, ren_prog; cbn [p_nodes p_tree]. apply ren_nodes_ok. Qed.
End Rename.
