(** * RedChain — partial min/max reductions with one free lane among literal lanes.

    The translated program of [reduce_partial_min/max] on a wide vector whose lanes hold literals except one free
    input is a chain-shaped decision tree. [red_tree] generates that tree from the literals before and after the free
    lane; [red_prog_ok] proves, by induction over the literals (any number of lanes), that such a program computes the
    left-to-right reduction in which two literals are compared in Z (as the code does at translation time) and the free
    input is compared with a literal by the ring's own comparison. *)
Require Import List ZArith Bool.
From VekLib Require Import Ops RingOps.
Import ListNotations.

Section RC.
  Variable C : cring.
  Definition lit (z : Z) : C := cstq (cops C) z 1.

  (** partial_min(acc, next) = if next < acc { next } else { acc };  partial_max(acc, next) = if acc < next { next } else { acc } *)
  Definition zsel (mx : bool) (acc next : Z) : Z := if mx then (if Z.ltb acc next then next else acc) else (if Z.ltb next acc then next else acc).
  Definition tstL (mx : bool) (x : C) (c : Z) : bool := if mx then jlt C x (lit c) else jlt C (lit c) x.   (* acc = x, next = literal c: take c? *)
  Definition tstV (mx : bool) (m : Z) (x : C) : bool := if mx then jlt C (lit m) x else jlt C x (lit m).   (* acc = literal m, next = x: take x? *)
  Definition stepL (mx : bool) (acc : C + Z) (j : Z) : C + Z :=
    match acc with inr z => inr (zsel mx z j) | inl c => if tstL mx c j then inr j else inl c end.
  Definition toC (p : C + Z) : C := match p with inl c => c | inr z => lit z end.
  Definition spec_red (mx : bool) (pre post : list Z) (x : C) : C :=
    toC (fold_left (stepL mx) post
           (match pre with [] => inl x | p0 :: pr => let m := fold_left (zsel mx) pr p0 in if tstV mx m x then inl x else inr m end)).

  Definition cL (mx : bool) (c : Z) : cond := if mx then CLt (AVar 0) (ACst c 1) else CLt (ACst c 1) (AVar 0).
  Definition cV (mx : bool) (m : Z) : cond := if mx then CLt (ACst m 1) (AVar 0) else CLt (AVar 0) (ACst m 1).
  Fixpoint chain (mx : bool) (cs : list Z) : dtree :=
    match cs with
    | [] => DRet [] [AVar 0]
    | c :: r => DIf (cL mx c) (DRet [] [ACst (fold_left (zsel mx) r c) 1]) (chain mx r)
    end.
  Definition red_tree (mx : bool) (pre post : list Z) : dtree :=
    match pre with
    | [] => chain mx post
    | p0 :: pr => let m := fold_left (zsel mx) pr p0 in DIf (cV mx m) (chain mx post) (DRet [] [ACst (fold_left (zsel mx) post m) 1])
    end.

  Variable a : nat -> C.
  Notation den := (den_tree (cops C) a []).

  Lemma lit_fold mx r z : fold_left (stepL mx) r (inr z) = inr (fold_left (zsel mx) r z).
  Proof. revert z; induction r as [|c r IH]; intros z; [ reflexivity | cbn [fold_left stepL]; apply IH ]. Qed.

  Lemma den_cL mx c : den_cond (cops C) a [] (cL mx c) = tstL mx (a 0%nat) c.
  Proof. destruct mx; reflexivity. Qed.
  Lemma den_cV mx m : den_cond (cops C) a [] (cV mx m) = tstV mx m (a 0%nat).
  Proof. destruct mx; reflexivity. Qed.

  Lemma chain_ok mx cs : den (chain mx cs) = Ret ([], [toC (fold_left (stepL mx) cs (inl (a 0%nat)))]).
  Proof.
    induction cs as [|c r IH]; [ reflexivity | ].
    cbn [chain den_tree fold_left stepL]. rewrite den_cL.
    destruct (tstL mx (a 0%nat) c).
    - rewrite lit_fold. reflexivity.
    - exact IH.
  Qed.

  Lemma red_tree_ok mx pre post : den (red_tree mx pre post) = Ret ([], [spec_red mx pre post (a 0%nat)]).
  Proof.
    unfold red_tree, spec_red. destruct pre as [|p0 pr]; [ apply chain_ok | ].
    cbv zeta. cbn [den_tree]. rewrite den_cV.
    destruct (tstV mx (fold_left (zsel mx) pr p0) (a 0%nat)).
    - apply chain_ok.
    - rewrite lit_fold. reflexivity.
  Qed.

  Lemma red_prog_ok mx pre post (p : prog) :
    p_nodes p = [] -> p_tree p = red_tree mx pre post ->
    crun C a p = Ret ([], [spec_red mx pre post (a 0%nat)]).
  Proof. intros Hn Ht. unfold crun, run. rewrite Hn, Ht. cbn [den_nodes]. apply red_tree_ok. Qed.
End RC.
