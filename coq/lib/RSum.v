(** * RSum — finite sums over R as computed by vek (left-associated), with the algebra needed to reason
    about dot products in any dimension. *)
Require Import Reals List Lra Lia.
From VekLib Require Import LinAlg.
Local Open Scope R_scope.

Definition Rsum (n : nat) (f : nat -> R) : R := @sigma R 0 Rplus n f.
Definition dotn (n : nat) (u v : nat -> R) : R := Rsum n (fun i => u i * v i).

Lemma sum_from_last f : forall n k acc, @sum_from R Rplus f k (S n) acc = @sum_from R Rplus f k n acc + f (k + n)%nat.
Proof.
  induction n as [|n IH]; intros k acc.
  - simpl. rewrite Nat.add_0_r. reflexivity.
  - change (sum_from Rplus f k (S (S n)) acc) with (sum_from Rplus f (S k) (S n) (acc + f k)).
    rewrite IH. replace (S k + n)%nat with (k + S n)%nat by lia. reflexivity.
Qed.

Lemma Rsum_S n f : Rsum (S n) f = Rsum n f + f n.
Proof.
  unfold Rsum, sigma. destruct n as [|n].
  - simpl. lra.
  - rewrite sum_from_last. reflexivity.
Qed.
Lemma Rsum_0 f : Rsum 0 f = 0. Proof. reflexivity. Qed.

Lemma Rsum_ext n f g : (forall i, (i < n)%nat -> f i = g i) -> Rsum n f = Rsum n g.
Proof.
  induction n as [|n IH]; intros H; [ reflexivity | ].
  rewrite !Rsum_S. rewrite (H n) by lia. rewrite IH; [ reflexivity | intros; apply H; lia ].
Qed.
Lemma Rsum_scale n c f : Rsum n (fun i => c * f i) = c * Rsum n f.
Proof. induction n as [|n IH]; [ rewrite !Rsum_0; lra | rewrite !Rsum_S, IH; lra ]. Qed.
Lemma Rsum_plus n f g : Rsum n (fun i => f i + g i) = Rsum n f + Rsum n g.
Proof. induction n as [|n IH]; [ rewrite !Rsum_0; lra | rewrite !Rsum_S, IH; lra ]. Qed.
Lemma Rsum_nonneg n f : (forall i, 0 <= f i) -> 0 <= Rsum n f.
Proof. intros H. induction n as [|n IH]; [ rewrite Rsum_0; lra | rewrite Rsum_S; pose proof (H n); lra ]. Qed.

Lemma dotn_comm n u v : dotn n u v = dotn n v u.
Proof. unfold dotn. apply Rsum_ext. intros; ring. Qed.
Lemma dotn_lin_l n x y c z : dotn n (fun i => x i + c * y i) z = dotn n x z + c * dotn n y z.
Proof.
  unfold dotn. rewrite <- Rsum_scale, <- Rsum_plus. apply Rsum_ext. intros; ring.
Qed.
Lemma dotn_lin_r n x y c z : dotn n z (fun i => x i + c * y i) = dotn n z x + c * dotn n z y.
Proof. rewrite dotn_comm, dotn_lin_l, (dotn_comm n x z), (dotn_comm n y z). reflexivity. Qed.
Lemma dotn_scale_l n c x z : dotn n (fun i => c * x i) z = c * dotn n x z.
Proof. unfold dotn. rewrite <- Rsum_scale. apply Rsum_ext. intros; ring. Qed.
Lemma dotn_ext n u u' v v' : (forall i, (i < n)%nat -> u i = u' i) -> (forall i, (i < n)%nat -> v i = v' i) -> dotn n u v = dotn n u' v'.
Proof. intros H1 H2. unfold dotn. apply Rsum_ext. intros i Hi. rewrite H1, H2 by exact Hi. reflexivity. Qed.
Lemma dotn_self_nonneg n u : 0 <= dotn n u u.
Proof. unfold dotn. apply Rsum_nonneg. intros i. apply Rle_0_sqr. Qed.
