(** * LinAlg — what the words of the properties mean: abstract matrices, layouts, products. *)
Require Import List Arith Lia.
Import ListNotations.

Section LinAlg.
  Context {T : Type} (zero one : T) (add mul : T -> T -> T).

  (** Abstract matrix: entry (i,j) = row i, column j. *)
  Definition amat := nat -> nat -> T.
  (** Storage order -> abstract matrix. *)
  Definition abs_rows (n : nat) (s : list T) : amat := fun i j => nth (n * i + j) s zero.
  Definition abs_cols (n : nat) (s : list T) : amat := fun i j => nth (n * j + i) s zero.
  Definition avec := nat -> T.
  Definition abs_vec (s : list T) : avec := fun i => nth i s zero.

  (** Sum of f over k = 0..n-1, left-associated starting from the first term. *)
  Fixpoint sum_from (f : nat -> T) (k n : nat) (acc : T) : T :=
    match n with 0 => acc | S n' => sum_from f (S k) n' (add acc (f k)) end.
  Definition sigma (n : nat) (f : nat -> T) : T :=
    match n with 0 => zero | S n' => sum_from f 1 n' (f 0) end.

  (** The linear-algebra products. *)
  Definition mm (n : nat) (A B : amat) : amat := fun i j => sigma n (fun k => mul (A i k) (B k j)).
  Definition mv (n : nat) (A : amat) (v : avec) : avec := fun i => sigma n (fun k => mul (A i k) (v k)).
  Definition vm (n : nat) (v : avec) (A : amat) : avec := fun j => sigma n (fun k => mul (v k) (A k j)).
  Definition ident : amat := fun i j => if Nat.eqb i j then one else zero.
  Definition transp (A : amat) : amat := fun i j => A j i.

  Definition meq (n : nat) (X Y : amat) : Prop := forall i j, i < n -> j < n -> X i j = Y i j.
  Definition veq (n : nat) (X Y : avec) : Prop := forall i, i < n -> X i = Y i.
End LinAlg.

(** Reduce [meq n]/[veq n] for a concrete small [n] to one goal per entry. *)
Ltac small_cases :=
  repeat match goal with
  | H : ?i < ?n |- _ =>
      is_var i;
      first [ (exfalso; lia)
            | (destruct i as [|i]; [ clear H | apply Nat.succ_lt_mono in H ]) ]
  end.
Ltac meq_cases := unfold meq; intros i j Hi Hj; small_cases.
Ltac veq_cases := unfold veq; intros i Hi; small_cases.

(** ** Leibniz determinant: sum over all permutations of sign * product of A(i, sigma i). *)
Section Leibniz.
  Context {T : Type} (zero one : T) (add mul : T -> T -> T) (opp : T -> T).

  Fixpoint remove_nth {A} (k : nat) (l : list A) : list A :=
    match l, k with
    | [], _ => []
    | _ :: t, 0 => t
    | h :: t, S k' => h :: remove_nth k' t
    end.

  (** all permutations of [l] with the parity of their inversion count;
      picking the k-th remaining element contributes k inversions *)
  Fixpoint perms (fuel : nat) (l : list nat) : list (list nat * bool) :=
    match fuel with
    | 0 => [([], false)]
    | S f =>
      flat_map (fun k =>
        map (fun ps => (nth k l 0 :: fst ps, xorb (snd ps) (Nat.odd k))) (perms f (remove_nth k l)))
        (seq 0 (length l))
    end.

  Fixpoint prod_diag (A : nat -> nat -> T) (i : nat) (sigma : list nat) : T :=
    match sigma with
    | [] => one
    | j :: rest => mul (A i j) (prod_diag A (S i) rest)
    end.

  Definition det_leibniz (n : nat) (A : nat -> nat -> T) : T :=
    fold_left (fun (acc : T) (ps : list nat * bool) => add acc (if snd ps then opp (prod_diag A 0 (fst ps)) else prod_diag A 0 (fst ps)))
              (perms n (seq 0 n)) zero.
End Leibniz.

(** Storage layouts. *)
Inductive layout := Lr | Lc.
Definition absL {T} (zero : T) (l : layout) (n : nat) (s : list T) : nat -> nat -> T :=
  match l with Lr => abs_rows zero n s | Lc => abs_cols zero n s end.
