(** * RingOps — an [Ops] instance over an arbitrary commutative ring.
    Everything that is not a ring operation (division, remainder, comparisons, named constants,
    abstract function symbols) is an arbitrary component of the structure, so a theorem
    quantified over [C : cring] holds for every interpretation of those. *)
Require Import ZArith List Ring.
From VekLib Require Import Ops.

Record cring := {
  cT :> Type;
  c0 : cT; c1 : cT;
  cadd : cT -> cT -> cT; cmul : cT -> cT -> cT; csub : cT -> cT -> cT; copp : cT -> cT;
  cth : ring_theory c0 c1 cadd cmul csub copp (@eq cT);
  jc : Z -> positive -> cT; jn : named -> cT; j1 : op1 -> cT -> cT; j2 : op2 -> cT -> cT -> cT;
  jp : cT -> Z -> cT; jlt : cT -> cT -> bool; jeq : cT -> cT -> bool;
  cF : nat -> list cT -> cT }.

Definition cops (C : cring) : Ops C := {|
  cstq := fun p q => match p, q with 0%Z, xH => c0 C | 1%Z, xH => c1 C | _, _ => jc C p q end;
  named_of := jn C;
  op1_of := fun o => match o with ONeg => copp C | _ => j1 C o end;
  op2_of := fun o => match o with OAdd => cadd C | OSub => csub C | OMul => cmul C | _ => j2 C o end;
  fma := fun a b c => cadd C (cmul C a b) c;
  powi := jp C;
  ltb := jlt C;
  eqb := jeq C |}.

(** Run a program over the ring [C]. *)
Definition crun (C : cring) (a : nat -> C) (p : prog) : res (out C) := run (cops C) (cF C) a p.

Ltac unfold_cprogs :=
  repeat match goal with |- context [crun _ _ ?p] => is_const p; unfold p end.
Ltac crun_unfold :=
  unfold_cprogs;
  cbv beta iota zeta delta
    [crun run den_nodes den_tree den_node den_cond den_atom p_nodes p_tree p_nin nth app map
     cops cstq named_of op1_of op2_of fma powi ltb eqb].
