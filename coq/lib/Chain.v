(** * Chain — decision trees of "all-or-nothing" shape evaluate to a single [forallb].
    [?]-chains ([a?; b?; ...] in Rust: the first failing element returns early) translate to
    [DIf c1 (DRet [0] []) (DIf c2 (DRet [0] []) ... final)]; [&&]-chains translate to
    [DIf c1 (DIf c2 ... final (DRet [0] [])) (DRet [0] [])]. The two lemmas below hold for every tree
    (the decomposition functions are total), so they can be used as rewriting rules before computing. *)
Require Import ZArith List Bool.
From VekLib Require Import Ops.
Import ListNotations.

Definition is_ret0 (t : dtree) : bool :=
  match t with
  | DRet [z] [] => Z.eqb z 0
  | _ => false
  end.
Lemma is_ret0_spec t : is_ret0 t = true -> t = DRet [0%Z] [].
Proof.
  destruct t as [ | | f v | c t1 t2 ]; try discriminate.
  destruct f as [|z [|z' f']]; try discriminate. destruct v; try discriminate.
  cbn. intros H. apply Z.eqb_eq in H. subst. reflexivity.
Qed.

(** [DIf c (DRet [0] []) e]: a true condition fails *)
Fixpoint unchain_none (t : dtree) : list cond * dtree :=
  match t with
  | DIf c t1 e => if is_ret0 t1 then let r := unchain_none e in (c :: fst r, snd r) else ([], t)
  | _ => ([], t)
  end.
(** [DIf c t (DRet [0] [])]: a false condition fails *)
Fixpoint unchain_all (t : dtree) : list cond * dtree :=
  match t with
  | DIf c t1 e => if is_ret0 e then let r := unchain_all t1 in (c :: fst r, snd r) else ([], t)
  | _ => ([], t)
  end.

Section Chain.
  Context {T : Type} (O : Ops T) (F : nat -> list T -> T) (a : nat -> T).
  Notation dtree_den := (den_tree O a).
  Notation cond_den := (den_cond O a).

  Fixpoint env_after (ns : list node) (env : list T) : list T :=
    match ns with
    | [] => env
    | n :: ns' => env_after ns' (env ++ [den_node O F a env n])
    end.
  Lemma den_nodes_env ns : forall env t, den_nodes O F a ns env t = dtree_den (env_after ns env) t.
  Proof. induction ns as [|n ns IH]; intros env t; cbn; [ reflexivity | apply IH ]. Qed.

  Lemma den_unchain_none env t :
    dtree_den env t =
    if forallb (fun c => negb (cond_den env c)) (fst (unchain_none t))
    then dtree_den env (snd (unchain_none t)) else Ret ([0%Z], []).
  Proof.
    induction t as [ | | f v | c t1 IH1 t2 IH2 ]; try reflexivity.
    cbn [unchain_none]. destruct (is_ret0 t1) eqn:E; [ | reflexivity ].
    apply is_ret0_spec in E. subst t1. cbn [fst snd forallb den_tree].
    destruct (cond_den env c); cbn [negb andb map]; [ reflexivity | exact IH2 ].
  Qed.
  Lemma den_unchain_all env t :
    dtree_den env t =
    if forallb (cond_den env) (fst (unchain_all t))
    then dtree_den env (snd (unchain_all t)) else Ret ([0%Z], []).
  Proof.
    induction t as [ | | f v | c t1 IH1 t2 IH2 ]; try reflexivity.
    cbn [unchain_all]. destruct (is_ret0 t2) eqn:E; [ | reflexivity ].
    apply is_ret0_spec in E. subst t2. cbn [fst snd forallb den_tree].
    destruct (cond_den env c); cbn [andb map]; [ exact IH1 | reflexivity ].
  Qed.

  Lemma run_chain_none p :
    run O F a p =
    let env := env_after (p_nodes p) [] in
    if forallb (fun c => negb (cond_den env c)) (fst (unchain_none (p_tree p)))
    then dtree_den env (snd (unchain_none (p_tree p))) else Ret ([0%Z], []).
  Proof. unfold run. rewrite den_nodes_env. apply den_unchain_none. Qed.
  Lemma run_chain_all p :
    run O F a p =
    let env := env_after (p_nodes p) [] in
    if forallb (cond_den env) (fst (unchain_all (p_tree p)))
    then dtree_den env (snd (unchain_all (p_tree p))) else Ret ([0%Z], []).
  Proof. unfold run. rewrite den_nodes_env. apply den_unchain_all. Qed.
End Chain.

Lemma ret_b2z {T} (b : bool) :
  Ret ([if b then 1%Z else 0%Z], @nil T) = if b then Ret ([1%Z], []) else Ret ([0%Z], []).
Proof. destruct b; reflexivity. Qed.
