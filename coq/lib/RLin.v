(** * RLin — linear algebra over R, and helpers for statements about translated programs. *)
Require Import Reals List ZArith Lra Lia.
From VekLib Require Import Ops ROps LinAlg.
Import ListNotations.
Local Open Scope R_scope.

Definition Rrows := @abs_rows R 0.
Definition Rcols := @abs_cols R 0.
Definition Rvec := @abs_vec R 0.
Definition Rmm := @mm R 0 Rplus Rmult.
Definition Rmv := @mv R 0 Rplus Rmult.
Definition Rvm := @vm R 0 Rplus Rmult.
Definition Rident := @ident R 0 1.
Definition Rdet := @det_leibniz R 0 1 Rplus Rmult Ropp.

(** run a program over the reals; [k] interprets eps/full/... *)
Definition rrun (k : named -> R) (a : nat -> R) (p : prog) : res (out R) := run (R_ops k) (noF 0) a p.
Definition env_of (l : list R) : nat -> R := fun i => nth i l 0.

Ltac unfold_rprogs :=
  repeat match goal with |- context [rrun _ _ ?p] => is_const p; unfold p end.
Ltac rrun_unfold :=
  unfold_rprogs;
  cbv beta iota zeta delta
    [rrun run den_nodes den_tree den_node den_cond den_atom p_nodes p_tree p_nin nth app map noF
     R_ops cstq named_of op1_of op2_of fma powi ltb eqb].
Ltac rlin_unfold :=
  cbv [Rrows Rcols Rvec Rmm Rmv Rvm Rident Rdet abs_rows abs_cols abs_vec mm mv vm sigma sum_from ident transp
       det_leibniz perms prod_diag remove_nth flat_map fold_left xorb Nat.odd Nat.even negb length
       nth tab map seq Nat.add Nat.mul Nat.eqb env_of app fst snd].

(** Storage order of an abstract matrix. *)
Definition store_rows (n : nat) (A : nat -> nat -> R) : list R :=
  map (fun idx => A (idx / n)%nat (idx mod n)%nat) (seq 0 (n * n)).
Definition store_cols (n : nat) (A : nat -> nat -> R) : list R :=
  map (fun idx => A (idx mod n)%nat (idx / n)%nat) (seq 0 (n * n)).

(** Instantiate a [meq 3]/[meq 4] hypothesis at every index pair. *)
Ltac inst_meq3 H :=
  let t i j := (let Hn := fresh H "_" in pose proof (H i j ltac:(lia) ltac:(lia)) as Hn) in
  t 0%nat 0%nat; t 0%nat 1%nat; t 0%nat 2%nat; t 1%nat 0%nat; t 1%nat 1%nat; t 1%nat 2%nat;
  t 2%nat 0%nat; t 2%nat 1%nat; t 2%nat 2%nat.
Ltac inst_meq4 H :=
  let t i j := (let Hn := fresh H "_" in pose proof (H i j ltac:(lia) ltac:(lia)) as Hn) in
  t 0%nat 0%nat; t 0%nat 1%nat; t 0%nat 2%nat; t 0%nat 3%nat; t 1%nat 0%nat; t 1%nat 1%nat; t 1%nat 2%nat; t 1%nat 3%nat;
  t 2%nat 0%nat; t 2%nat 1%nat; t 2%nat 2%nat; t 2%nat 3%nat; t 3%nat 0%nat; t 3%nat 1%nat; t 3%nat 2%nat; t 3%nat 3%nat.
