(** * ROps — the carrier used by the theorems: Coq's real numbers (exact arithmetic). *)
Require Import Reals ZArith List Bool Lra.
From VekLib Require Import Ops.
Import ListNotations.
Local Open Scope R_scope.

Definition Rfloor (x : R) : R := IZR (Int_part x).
Definition Rceil (x : R) : R := - Rfloor (- x).
Definition Rtrunc (x : R) : R := if Rlt_dec x 0 then Rceil x else Rfloor x.
(* Rust's [round]: half away from zero *)
Definition Rround (x : R) : R := if Rlt_dec x 0 then Rceil (x - /2) else Rfloor (x + /2).
Definition Rsignum (x : R) : R := if Rlt_dec x 0 then -1 else 1.
(* Rust's [%] on floats: remainder of truncated division *)
Definition Rrem (x y : R) : R := x - Rtrunc (x / y) * y.

Definition Rltb (x y : R) : bool := if Rlt_dec x y then true else false.
Definition Reqb (x y : R) : bool := if Req_EM_T x y then true else false.

(** [k] interprets the named constants other than pi (eps, full, ...): theorems quantify over it
    and state what they need ([0 < k Neps], ...). *)
Definition R_ops (k : named -> R) : Ops R := {|
  cstq := fun p q => match q with xH => IZR p | _ => IZR p / IZR (Zpos q) end;
  named_of := fun n => match n with Npi => PI | _ => k n end;
  op1_of := fun o => match o with
    | ONeg => Ropp | OSqrt => sqrt | OSin => sin | OCos => cos | OTan => tan
    | OAsin => asin | OAcos => acos | OAtan => atan | OFloor => Rfloor | OCeil => Rceil
    | ORound => Rround | OTrunc => Rtrunc | OAbs => Rabs | OSignum => Rsignum
    | OExp => exp | OLn => ln | ONot => fun x => x end;
  op2_of := fun o => match o with
    | OAdd => Rplus | OSub => Rminus | OMul => Rmult | ODiv => Rdiv | ORem => Rrem
    | OMin => Rmin | OMax => Rmax | OPowf => Rpower
    | OAtan2 | OShl | OShr | OAnd | OOr | OXor => fun x _ => x end;
  fma := fun a b c => a * b + c;
  powi := powerRZ;
  ltb := Rltb;
  eqb := Reqb |}.

Definition k0 : named -> R := fun n => match n with Nfull => 1 | _ => 0 end.

Lemma Rltb_true x y : Rltb x y = true <-> x < y.
Proof. unfold Rltb; destruct (Rlt_dec x y); split; intros; auto; discriminate. Qed.
Lemma Rltb_false x y : Rltb x y = false <-> ~ x < y.
Proof. unfold Rltb; destruct (Rlt_dec x y); split; intros; auto; try discriminate; contradiction. Qed.
Lemma Reqb_true x y : Reqb x y = true <-> x = y.
Proof. unfold Reqb; destruct (Req_EM_T x y); split; intros; auto; discriminate. Qed.
Lemma Reqb_false x y : Reqb x y = false <-> x <> y.
Proof. unfold Reqb; destruct (Req_EM_T x y); split; intros; auto; try discriminate; contradiction. Qed.

(** Unfold the R instance after [run_unfold]. *)
Ltac r_unfold :=
  cbv beta iota delta [R_ops cstq named_of op1_of op2_of fma powi ltb eqb].

Ltac run_R := run_unfold; r_unfold.

(** Case-split on every comparison of a decision tree. *)
Ltac split_conds :=
  repeat match goal with
  | |- context [Rltb ?x ?y] =>
      let H := fresh "Hlt" in destruct (Rlt_dec x y) as [H|H];
      [ rewrite (proj2 (Rltb_true x y) H) | rewrite (proj2 (Rltb_false x y) H) ]
  | |- context [Reqb ?x ?y] =>
      let H := fresh "Heq" in destruct (Req_EM_T x y) as [H|H];
      [ rewrite (proj2 (Reqb_true x y) H) | rewrite (proj2 (Reqb_false x y) H) ]
  end.
