(** * FlOps — a rounded interpretation of the translated programs (the "standard model" of floating point).

    Every arithmetic node is followed by rounding to nearest-even in radix-2 precision-53 floating point with
    unbounded exponent (Flocq's FLX format): overflow, underflow, NaN and infinities are NOT modelled, rounding is.
    The only fact used about rounding is Flocq's relative error bound: rnd x = x (1 + d) with |d| <= 2^-53. *)
Require Import Reals ZArith List Bool Lra Psatz.
From Flocq Require Import Core Relative.
From VekLib Require Import Ops ROps.
Import ListNotations.
Local Open Scope R_scope.

Definition fprec : Z := 53.
#[local] Instance fprec_gt_0 : Prec_gt_0 fprec. Proof. unfold Prec_gt_0, fprec. lia. Qed.
Definition rnd (x : R) : R := round radix2 (FLX_exp fprec) ZnearestE x.
Definition uu : R := / 2 * bpow radix2 (- fprec + 1).     (* the unit roundoff 2^-53 *)

Lemma uu_small : 0 < uu <= / 1000.
Proof.
  unfold uu, fprec. simpl. unfold Z.pow_pos; simpl. split; [ | ].
  - apply Rmult_lt_0_compat; [ lra | apply Rinv_0_lt_compat; lra ].
  - apply Rmult_le_reg_l with 2; [ lra | ]. rewrite <- Rmult_assoc. replace (2 * / 2) with 1 by field. rewrite Rmult_1_l.
    apply Rle_trans with (/ 4503599627370496).
    + right. reflexivity.
    + apply Rmult_le_reg_l with 4503599627370496; [ lra | ]. rewrite Rinv_r by lra. lra.
Qed.

Lemma rnd_rel x : exists d, Rabs d <= uu /\ rnd x = x * (1 + d).
Proof. unfold rnd, uu. apply relative_error_N_FLX_ex. exact fprec_gt_0. Qed.

(** the operations of [R_ops], each followed by rounding (comparisons and constants are exact) *)
Definition Rfl_ops (k : named -> R) : Ops R := {|
  cstq := cstq (R_ops k);
  named_of := named_of (R_ops k);
  op1_of := fun o x => match o with ONeg | OAbs | OFloor | OCeil | ORound | OTrunc | OSignum | ONot => op1_of (R_ops k) o x | _ => rnd (op1_of (R_ops k) o x) end;
  op2_of := fun o x y => match o with OMin | OMax => op2_of (R_ops k) o x y | _ => rnd (op2_of (R_ops k) o x y) end;
  fma := fun a b c => rnd (a * b + c);
  powi := fun x n => rnd (powerRZ x n);
  ltb := Rltb;
  eqb := Reqb |}.

(** bounding products and sums of bounded quantities *)
Lemma Rabs_le_mul a b A B : Rabs a <= A -> Rabs b <= B -> Rabs (a * b) <= A * B.
Proof. intros Ha Hb. rewrite Rabs_mult. apply Rmult_le_compat; try apply Rabs_pos; assumption. Qed.
Lemma Rabs_le_add a b A B : Rabs a <= A -> Rabs b <= B -> Rabs (a + b) <= A + B.
Proof. intros Ha Hb. eapply Rle_trans; [ apply Rabs_triang | lra ]. Qed.
Lemma Rabs_le_sub a b A B : Rabs a <= A -> Rabs b <= B -> Rabs (a - b) <= A + B.
Proof. intros Ha Hb. unfold Rminus. apply Rabs_le_add; [ assumption | rewrite Rabs_Ropp; assumption ]. Qed.
Lemma Rabs_le_1p d : Rabs d <= uu -> Rabs (1 + d) <= 1 + uu.
Proof. intros H. apply Rabs_le_add; [ rewrite Rabs_R1; lra | assumption ]. Qed.
