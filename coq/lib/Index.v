(** * Index — looking translated programs up by entry name. *)
Require Import List String DecimalString.
From VekLib Require Import Ops.
Import ListNotations.
Open Scope string_scope.

Fixpoint lookup (name : string) (l : list (string * prog)) : option prog :=
  match l with
  | [] => None
  | (k, p) :: r => if String.eqb name k then Some p else lookup name r
  end.
(** entry [name] of index [idx] exists and satisfies [Q] *)
Definition has_in (idx : list (string * prog)) (name : string) (Q : prog -> Prop) : Prop :=
  exists p, lookup name idx = Some p /\ Q p.
Definition nat_str (k : nat) : string := NilEmpty.string_of_uint (Nat.to_uint k).
