(** * MachineInt — Rust's fixed-width integers as an interpretation of translated programs.
    [w] bits, signed or unsigned; [dbg = true]: arithmetic overflow panics (overflow checks on);
    [dbg = false]: it wraps. Division and remainder truncate toward zero (Z.quot / Z.rem), and panic on a
    zero divisor and on MIN / -1 in both modes, as in Rust. *)
Require Import ZArith List Bool Lia.
From VekLib Require Import Ops.
Import ListNotations.
Local Open Scope Z_scope.

Record isem := { signed : bool; width : Z; dbg : bool }.
Definition imin (s : isem) : Z := if signed s then - 2 ^ (width s - 1) else 0.
Definition imax (s : isem) : Z := if signed s then 2 ^ (width s - 1) - 1 else 2 ^ width s - 1.
Definition in_range (s : isem) (x : Z) : Prop := imin s <= x <= imax s.
Definition in_rangeb (s : isem) (x : Z) : bool := (imin s <=? x) && (x <=? imax s).
Definition wrap (s : isem) (x : Z) : Z :=
  let m := 2 ^ width s in let y := x mod m in if signed s && (imax s <? y) then y - m else y.
(** result of an arithmetic operation whose mathematical value is x *)
Definition norm (s : isem) (x : Z) : option Z :=
  if in_rangeb s x then Some x else if dbg s then None else Some (wrap s x).

Definition ibin (s : isem) (o : op2) (x y : Z) : option Z :=
  match o with
  | OAdd => norm s (x + y) | OSub => norm s (x - y) | OMul => norm s (x * y)
  | ODiv => if (y =? 0) || (signed s && (x =? imin s) && (y =? -1)) then None else Some (Z.quot x y)
  | ORem => if (y =? 0) || (signed s && (x =? imin s) && (y =? -1)) then None else Some (Z.rem x y)
  | OMin => Some (Z.min x y) | OMax => Some (Z.max x y)
  | _ => None
  end.

Section RunInt.
  Variables (s : isem) (a : nat -> Z).
  Definition iatom (env : list (option Z)) (x : atom) : option Z :=
    match x with
    | AVar i => Some (a i)
    | ACst p q => if (q =? 1)%positive then Some p else None
    | ANamed Nmaxv => Some (imax s)
    | ANamed Nminv => Some (imin s)
    | ANamed _ => None
    | ARef i => nth i env None
    end.
  Definition inode (env : list (option Z)) (n : node) : option Z :=
    match n with
    | N1 ONeg x => match iatom env x with Some v => norm s (- v) | None => None end
    | N2 o x y => match iatom env x, iatom env y with Some u, Some v => ibin s o u v | _, _ => None end
    | _ => None
    end.
  Fixpoint all_some (l : list (option Z)) : option (list Z) :=
    match l with
    | [] => Some []
    | Some v :: t => match all_some t with Some r => Some (v :: r) | None => None end
    | None :: _ => None
    end.
  (** a comparison on a value whose computation overflowed is a panic, so is returning one *)
  Fixpoint itree (env : list (option Z)) (t : dtree) : res (list Z * list Z) :=
    match t with
    | DPanic => Panic | DCut => Cut
    | DRet f v => match all_some (map (iatom env) v) with Some r => Ret (f, r) | None => Panic end
    | DIf c t e =>
        match c with
        | CLt x y => match iatom env x, iatom env y with
                     | Some u, Some v => if u <? v then itree env t else itree env e | _, _ => Panic end
        | CEq x y => match iatom env x, iatom env y with
                     | Some u, Some v => if u =? v then itree env t else itree env e | _, _ => Panic end
        end
    end.
  Fixpoint inodes (ns : list node) (env : list (option Z)) (t : dtree) : res (list Z * list Z) :=
    match ns with
    | [] => itree env t
    | n :: ns' => let v := inode env n in inodes ns' (env ++ [v]) t
    end.
  Definition irun (p : prog) : res (list Z * list Z) := inodes (p_nodes p) [] (p_tree p).
End RunInt.

Ltac unfold_iprogs := repeat match goal with |- context [irun _ _ ?p] => is_const p; unfold p end.
Ltac irun_unfold :=
  unfold_iprogs;
  cbv beta iota zeta delta [irun inodes inode iatom p_nodes p_tree p_nin nth app Pos.eqb].
