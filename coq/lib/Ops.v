(** * Ops — the deep-embedded language emitted by the translator [symx], and its denotation.

    A [prog] is a straight-line list of scalar operations (a let-bound DAG in arena order)
    followed by a decision tree over comparisons whose leaves are the returned scalars
    (in storage order) plus integer flags (booleans, discriminants, lengths), or [DPanic].
    [run O F a p] interprets [p] over any carrier [T] with operations [O : Ops T]. *)
Require Import ZArith List Bool String.
Import ListNotations.

Inductive named := Neps | Npi | Nfull | Ninf | Nminv | Nmaxv | Nminpos.
Inductive op1 := ONeg | OSqrt | OSin | OCos | OTan | OAsin | OAcos | OAtan | OFloor | OCeil
               | ORound | OTrunc | OAbs | OSignum | OExp | OLn | ONot.
Inductive op2 := OAdd | OSub | OMul | ODiv | ORem | OMin | OMax | OAtan2 | OPowf
               | OShl | OShr | OAnd | OOr | OXor.
Inductive atom := AVar (i : nat) | ACst (p : Z) (q : positive) | ANamed (k : named) | ARef (i : nat).
Inductive node :=
| N1 (o : op1) (a : atom)
| N2 (o : op2) (a b : atom)
| NFma (a b c : atom)
| NPowi (a : atom) (n : Z)
| NFun (id : nat) (args : list atom).
Inductive cond := CLt (a b : atom) | CEq (a b : atom).
Inductive dtree :=
| DPanic | DCut
| DRet (flags : list Z) (vals : list atom)
| DIf (c : cond) (t e : dtree).
Record prog := { p_nin : nat; p_nodes : list node; p_tree : dtree }.

Arguments AVar i%nat.
Arguments ARef i%nat.
Arguments ACst p%Z q%positive.
Arguments NPowi a n%Z.
Arguments NFun id%nat args%list.

Inductive res (A : Type) := Ret (a : A) | Panic | Cut.
Arguments Ret {A} a.
Arguments Panic {A}.
Arguments Cut {A}.

Record Ops (T : Type) := {
  cstq : Z -> positive -> T;          (* the rational constant p/q *)
  named_of : named -> T;
  op1_of : op1 -> T -> T;
  op2_of : op2 -> T -> T -> T;
  fma : T -> T -> T -> T;             (* fma a b c = a*b+c *)
  powi : T -> Z -> T;
  ltb : T -> T -> bool;
  eqb : T -> T -> bool }.
Arguments cstq {T} _ _ _.
Arguments named_of {T} _ _.
Arguments op1_of {T} _ _ _.
Arguments op2_of {T} _ _ _ _.
Arguments fma {T} _ _ _ _.
Arguments powi {T} _ _ _.
Arguments ltb {T} _ _ _.
Arguments eqb {T} _ _ _.

Definition out (T : Type) : Type := (list Z * list T)%type.

Section Run.
  Context {T : Type} (O : Ops T) (F : nat -> list T -> T) (a : nat -> T).

  Definition den_atom (env : list T) (x : atom) : T :=
    match x with
    | AVar i => a i
    | ACst p q => cstq O p q
    | ANamed k => named_of O k
    | ARef i => nth i env (cstq O 0 1)
    end.

  Definition den_node (env : list T) (n : node) : T :=
    match n with
    | N1 o x => op1_of O o (den_atom env x)
    | N2 o x y => op2_of O o (den_atom env x) (den_atom env y)
    | NFma x y z => fma O (den_atom env x) (den_atom env y) (den_atom env z)
    | NPowi x n => powi O (den_atom env x) n
    | NFun id args => F id (map (den_atom env) args)
    end.

  Definition den_cond (env : list T) (c : cond) : bool :=
    match c with
    | CLt x y => ltb O (den_atom env x) (den_atom env y)
    | CEq x y => eqb O (den_atom env x) (den_atom env y)
    end.

  Fixpoint den_tree (env : list T) (t : dtree) : res (out T) :=
    match t with
    | DPanic => Panic
    | DCut => Cut
    | DRet f v => Ret (f, map (den_atom env) v)
    | DIf c t e => if den_cond env c then den_tree env t else den_tree env e
    end.

  Fixpoint den_nodes (ns : list node) (env : list T) (t : dtree) : res (out T) :=
    match ns with
    | [] => den_tree env t
    | n :: ns' => let v := den_node env n in den_nodes ns' (env ++ [v]) t
    end.

  Definition run (p : prog) : res (out T) := den_nodes (p_nodes p) [] (p_tree p).
End Run.

(** No abstract function symbols. *)
Definition noF {T} (d : T) : nat -> list T -> T := fun _ _ => d.

(** Inputs as consecutive slices of the flat environment. *)
Definition tab {T} (n : nat) (a : nat -> T) (off : nat) : list T :=
  map (fun i => a (off + i)%nat) (seq 0 n).

(** Unfolding the interpreter on the closed programs occurring in the goal, keeping the carrier's
    operations folded. *)
Ltac unfold_progs :=
  repeat match goal with |- context [run _ _ _ ?p] => is_const p; unfold p end.
Ltac run_unfold :=
  unfold_progs;
  cbv beta iota zeta delta
    [run den_nodes den_tree den_node den_cond den_atom p_nodes p_tree p_nin nth app map].
