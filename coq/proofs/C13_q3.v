Require Import Reals List ZArith Lra Lia.
From VekLib Require Import Ops ROps LinAlg RLin.
From VekGen Require Import C13_gen.
From VekProofs Require Import C13_spec C13_tac.
Import ListNotations.
Local Open Scope R_scope.
Lemma union3 : S_union 3 p_aabb_union p_aabb_expand_to_contain. Proof. prove_union 3%nat p_aabb_union. Qed.
Lemma inter3 : S_intersection 3 p_aabb_intersection p_aabb_intersect. Proof. prove_intersection 3%nat p_aabb_intersection. Qed.
Lemma expt3 : S_expand_point 3 p_aabb_expanded_to_contain_point p_aabb_expand_to_contain_point. Proof. prove_expand_point 3%nat p_aabb_expanded_to_contain_point. Qed.
Lemma meas3 : S_measures 3 p_aabb_center p_aabb_size p_aabb_half_size p_aabb_made_valid p_aabb_make_valid p_aabb_new_empty.
Proof.
  intros k a; cbv zeta; split; [ | split; [ | split; [ | split; [ | split ] ] ] ].
  - ret_simple ltac:(cases_i; box_unfold; field).
  - ret_simple ltac:(cases_i; box_unfold; ring).
  - ret_simple ltac:(cases_i; box_unfold; field).
  - ret_simple ltac:(intros q; split; [ intros Hq; unf; inst_all; cases_i; box_unfold; lra | intros Hq; unf; inst_all; cases_i; box_unfold; lra ]).
  - ret_simple ltac:(split; [ unf; cases_i; box_unfold; lra | cases_i; box_unfold; rm; lra ]).
  - rrun_unfold; reflexivity.
Qed.
