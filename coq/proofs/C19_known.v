Require Import List ZArith String.
From VekLib Require Import Ops Index MachineInt.
From VekGen Require Import C19_gen.
From VekProofs Require Import C19_spec.
Lemma C19_known_signed_invert : C19_known_signed_invert_stmt.
Proof. eexists; split; [ vm_compute; reflexivity | vm_compute; reflexivity ]. Qed.
