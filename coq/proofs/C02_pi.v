Require Import List ZArith Lia String Bool Ring.
From VekLib Require Import Ops RingOps LinAlg RedChain.
From VekGen Require Import C02_gen.
From VekProofs Require Import C02_spec C02_tac.
Import ListNotations.

Section Proofs.
  Variable C : cring.

  (** each entry's tree IS the generated chain (syntactic check by computation); the meaning comes from the
      induction of lib/RedChain.v *)
  Ltac by_red := intros a; unfold lane_red; apply red_prog_ok; [ reflexivity | vm_compute; reflexivity ].

  Lemma C02_reduce_partial_wide : C02_reduce_partial_wide_stmt C.
  Proof.
    unfold C02_reduce_partial_wide_stmt, wide_types, types. cbn [filter snd Nat.leb negb seq]. ty_table; table;
    (split; all_has by_red).
  Qed.
End Proofs.
