Require Import Reals List ZArith Lra Lia.
From VekLib Require Import Ops ROps LinAlg RLin.
From VekGen Require Import C06_gen.
From VekProofs Require Import C06_spec C06_tac.
Import ListNotations.
Local Open Scope R_scope.
Lemma inverse_c k a : Rdet 4 (Rcols 4 (tab 16 a 0)) <> 0 -> inverts Lc p_mat4c_inverted k a.
Proof. intros Hd. solve_general_inverse Hd. Qed.
