Require Import Reals List ZArith Lra Lia Nsatz.
From VekLib Require Import Ops ROps LinAlg RLin.
From VekGen Require Import C09_gen.
From VekProofs Require Import C09_spec.
Import ListNotations.
Local Open Scope R_scope.

Ltac table := repeat (apply Forall_cons; [ | ]); try apply Forall_nil.
Ltac c09_defs :=
  cbv [aL absL off mat_of vec_of pt look_at_lh_mat look_at_rh_mat model_lh_mat model_rh_mat view_mat model_mat
       l2b_mat b2l_mat fwd side_lh side_rh neg3 add3 block3 rigid dist].
Ltac c09_vec := cbv [unit3 norm3 dot3 cross sub3 vec_of List.nth].
Ltac c09_unfold := c09_defs; c09_vec; rlin_unfold.
Ltac clear_noneq :=
  repeat match goal with H : ?P |- _ =>
    lazymatch P with _ = _ => fail | _ => lazymatch type of P with Prop => clear H end end end.

Lemma C09_constructors : C09_constructors_stmt.
Proof.
  unfold C09_constructors_stmt, view_table.
  table; intros k a; (eexists; split; [ rrun_unfold; reflexivity | split; [ reflexivity | ] ]);
    meq_cases; c09_unfold; first [ reflexivity | ring | field ].
Qed.
