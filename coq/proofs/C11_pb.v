Require Import Reals List ZArith Lra Lia.
From VekLib Require Import Ops ROps LinAlg RLin RSum.
From VekGen Require Import C11_gen.
From VekProofs Require Import C11_spec C11_pa C11_tac C11_b_vec2 C11_b_vec3 C11_b_vec4 C11_b_extent2 C11_b_extent3 C11_b_vec8 C11_b_vec16.
Import ListNotations.
Local Open Scope R_scope.

Lemma C11_basic : C11_basic_stmt.
Proof.
  unfold C11_basic_stmt, basic_table.
  repeat (apply Forall_cons; [ first [ exact basic_vec2 | exact basic_vec3 | exact basic_vec4 | exact basic_extent2 | exact basic_extent3 | exact basic_vec8 | exact basic_vec16 ] | ]).
  apply Forall_nil.
Qed.
