Require Import List ZArith Lia String Bool Ring.
From VekLib Require Import Ops RingOps LinAlg.
From VekGen Require Import C02_gen.
From VekProofs Require Import C02_spec C02_tac.
Import ListNotations.

Section Proofs.
  Variable C : cring.
  Add Ring Cring : (cth C).

  Lemma C02_reduce : C02_reduce_stmt C.
  Proof. unfold C02_reduce_stmt, red. ty_table; all_has ltac:(first [ by_compute | by_cases ]). Qed.
  Lemma C02_dot : C02_dot_stmt C.
  Proof. unfold C02_dot_stmt. ty_table; all_has by_compute. Qed.
End Proofs.
