Require Import Reals List ZArith Lra Lia Nsatz.
From VekLib Require Import Ops ROps LinAlg RLin RSum.
From VekGen Require Import C11_gen.
From VekProofs Require Import C11_spec C11_pa C11_tac C11_pc.
Import ListNotations.
Local Open Scope R_scope.

Lemma slerp3_core (p0 p1 p2 q0 q1 q2 A B : R) :
  p0 * p0 + p1 * p1 + p2 * p2 = 1 -> q0 * q0 + q1 * q1 + q2 * q2 = 1 ->
  p0 * q0 + p1 * q1 + p2 * q2 = cos (A + B) -> sin (A + B) <> 0 ->
  let r := fun p q => p * (sin A / sin (A + B)) + q * (sin B / sin (A + B)) in
  r p0 q0 * r p0 q0 + r p1 q1 * r p1 q1 + r p2 q2 * r p2 q2 = 1.
Proof.
  intros Hp Hq Hpq Hs r. unfold r. clear r.
  rewrite cos_plus in Hpq. rewrite sin_plus in *.
  pose proof (sin2_cos2 A) as HA. pose proof (sin2_cos2 B) as HB. unfold Rsqr in HA, HB.
  set (sA := sin A) in *; set (cA := cos A) in *; set (sB := sin B) in *; set (cB := cos B) in *. clearbody sA cA sB cB.
  field_simplify_eq; [ | exact Hs ]. cbv [Rpow_def.pow]. clear Hs. nsatz.
Qed.

Lemma C11_slerp : C11_slerp_stmt.
Proof.
  intros k a. cbv zeta. u11. intros Hu Hv Hnp.
  split; [ | rrun_unfold; reflexivity ].
  assert (Hmu := sqrt_lt_R0 _ Hu). assert (Hmv := sqrt_lt_R0 _ Hv).
  assert (Hmmu := sqrt_sqrt _ (Rlt_le _ _ Hu)). assert (Hmmv := sqrt_sqrt _ (Rlt_le _ _ Hv)).
  revert Hu Hv Hnp Hmu Hmv Hmmu Hmmv. s_unfold.
  set (mu := sqrt (a 0%nat * a 0%nat + a 1%nat * a 1%nat + a 2%nat * a 2%nat)).
  set (mv := sqrt (a 3%nat * a 3%nat + a 4%nat * a 4%nat + a 5%nat * a 5%nat)).
  intros Hu Hv Hnp Hmu Hmv Hmmu Hmmv.
  unfold returns. rrun_unfold. fold mu mv.
  set (c := a 0%nat / mu * (a 3%nat / mv) + a 1%nat / mu * (a 4%nat / mv) + a 2%nat / mu * (a 5%nat / mv)) in *.
  assert (Hc : c = (a 0%nat * a 3%nat + a 1%nat * a 4%nat + a 2%nat * a 5%nat) / (mu * mv)) by (unfold c; field; lra).
  assert (Hc1 : -1 < c < 1).
  { rewrite Hc. assert (0 < mu * mv) by nra. unfold Rabs in Hnp. destruct (Rcase_abs _);
      (split; [ apply Rmult_lt_reg_r with (r := mu * mv); [ lra | ]; unfold Rdiv; rewrite Rmult_assoc, Rinv_l by lra; lra
              | apply Rmult_lt_reg_r with (r := mu * mv); [ lra | ]; unfold Rdiv; rewrite Rmult_assoc, Rinv_l by lra; lra ]). }
  rewrite (proj2 (Rltb_false 1 (Ropp 1))) by lra.
  rewrite (proj2 (Rltb_false c (Ropp 1))) by lra. rewrite (proj2 (Rltb_false 1 c)) by lra.
  eexists. split; [ reflexivity | split; [ reflexivity | ] ].
  cbv [vecv List.nth].
  assert (Hcos : cos (acos c) = c) by (apply cos_acos; lra).
  assert (Hsin : 0 < sin (acos c)) by (rewrite sin_acos by lra; apply sqrt_lt_R0; unfold Rsqr; nra).
  set (th := acos c) in *.
  assert (Eth : th = (1 - a 6%nat) * th + a 6%nat * th) by ring.
  pose proof (slerp3_core (a 0%nat / mu) (a 1%nat / mu) (a 2%nat / mu) (a 3%nat / mv) (a 4%nat / mv) (a 5%nat / mv)
                ((1 - a 6%nat) * th) (a 6%nat * th)) as SC.
  rewrite <- Eth in SC. cbv zeta in SC.
  assert (S1 := SC ltac:(field_simplify_eq; [ cbv [Rpow_def.pow]; lra | lra ]) ltac:(field_simplify_eq; [ cbv [Rpow_def.pow]; lra | lra ])
                    ltac:(rewrite Hcos; reflexivity) ltac:(lra)). clear SC. cbv beta in S1.
  set (L := a 6%nat * (mv - mu) + mu) in *.
  split; [ | split ].
  - match goal with |- sqrt ?e = _ => replace e with (L * L) end.
    + replace (mu + a 6%nat * (mv - mu)) with L by (unfold L; ring). apply sqrt_Rsqr_abs.
    + match type of S1 with ?l = 1 => transitivity (l * (L * L)); [ rewrite S1; ring | ring ] end.
  - intros Ht. unfold L. rewrite Ht. cases_i; cbv [List.nth];
      replace ((1 - 0) * th) with th by ring; replace (0 * th) with 0 by ring; rewrite sin_0; field; lra.
  - intros Ht. unfold L. rewrite Ht. cases_i; cbv [List.nth];
      replace ((1 - 1) * th) with 0 by ring; replace (1 * th) with th by ring; rewrite sin_0; field; lra.
Qed.
