Require Import List ZArith Lia Ring.
From VekLib Require Import Ops RingOps LinAlg.
From VekGen Require Import C03_gen.
From VekProofs Require Import C03_spec.
Import ListNotations.

Ltac table := repeat (apply Forall_cons; [ | ]); try apply Forall_nil.
Ltac lin_unfold :=
  cbv [absL inM abs_rows abs_cols abs_vec sigma sum_from ident transp nth tab map seq other F1 F2
       Nat.add Nat.mul Nat.eqb Nat.ltb Nat.leb andb env_of app Nat.div Nat.modulo Nat.divmod fst snd Nat.sub].

Section Proofs.
  Variable C : cring.
  Add Ring Cring : (cth C).

  Ltac ymat := intros a; eexists; split; [ crun_unfold; reflexivity | split; [ reflexivity | ] ]; meq_cases; lin_unfold; reflexivity.
  Ltac ylist := intros a; eexists; split; [ crun_unfold; reflexivity | split; [ reflexivity | ] ]; veq_cases; lin_unfold; reflexivity.

  Lemma C03_construct : C03_construct_stmt C.
  Proof.
    unfold C03_construct_stmt, t_new, t_with_diagonal, t_broadcast_diagonal, t_default, t_from_row, t_from_col.
    repeat split; table; cbv [new_ok with_diagonal_ok broadcast_diagonal_ok default_ok from_row_ok from_col_ok yields_mat]; ymat.
  Qed.

  Lemma C03_access : C03_access_stmt C.
  Proof.
    unfold C03_access_stmt, t_index, t_index_mut, t_diagonal, t_trace, t_into_row, t_into_col, t_slice, t_counts, t_display.
    split; [ table; cbv [index_ok yields_list]; ylist | ].
    split; [ table; cbv [index_mut_ok yields_mat]; ymat | ].
    split; [ table; cbv [diagonal_ok yields_list]; ylist | ].
    split; [ table; cbv [trace_ok yields_list]; ylist | ].
    split; [ table; cbv [into_row_ok yields_list]; ylist | ].
    split; [ table; cbv [into_col_ok yields_list]; ylist | ].
    split; [ table; cbv [slice_ok yields_list]; ylist | ].
    split; [ table; cbv [counts_ok]; intros a; crun_unfold; reflexivity | ].
    split; [ table; cbv [display_ok]; intros a; do 2 eexists; (split; [ crun_unfold; reflexivity | split; [ reflexivity | split; [ reflexivity | ] ] ]);
      veq_cases; lin_unfold; reflexivity | ].
    split; [ unfold t_display_fmt; table; cbv [display_fmt_ok display_ok]; (split;
      [ intros a; do 2 eexists; (split; [ crun_unfold; reflexivity | split; [ reflexivity | split; [ reflexivity | ] ] ]); veq_cases; lin_unfold; reflexivity
      | intros a; do 4 eexists; (split; [ crun_unfold; reflexivity | split; [ crun_unfold; reflexivity | reflexivity ] ]) ]) | ].
    unfold t_display_layout; table; cbv [display_layout_ok]; intros a b; do 3 eexists; (split; crun_unfold; reflexivity).
  Qed.

  Lemma C03_transform : C03_transform_stmt C.
  Proof.
    unfold C03_transform_stmt, t_transposed, t_map1, t_map2, t_as, t_map_lines, t_from_transpose, t_conv.
    repeat split; table; cbv [transposed_ok map_ok map2_ok same_ok from_transpose_ok conv_ok yields_mat]; ymat.
  Qed.

  (** one step simulates the abstract operation, in either layout *)
  Ltac destruct_list s H :=
    simpl in H; do 17 (try (destruct s as [|? s]; simpl in H; try discriminate H)).
  Lemma step_sim n l o s : n = 2 \/ n = 3 \/ n = 4 -> length s = n * n ->
    exists s', step C n l (Some s) o = Some s' /\ length s' = n * n /\
      meq n (absL (c0 C) l n s') (aop C o (absL (c0 C) l n s)).
  Proof.
    intros [-> | [-> | ->]] Hs; destruct_list s Hs; destruct l, o;
      (eexists; split; [ cbv [step prog_of]; crun_unfold; cbv [env_of nth]; reflexivity | split; [ reflexivity | ] ];
       meq_cases; cbv [aop]; lin_unfold; reflexivity).
  Qed.
  Lemma aop_meq n o X Y : meq n X Y -> meq n (aop C o X) (aop C o Y).
  Proof.
    intros H; destruct o; cbv [aop transp]; intros i j Hi Hj; try (rewrite H by assumption); try reflexivity.
  Qed.
  Lemma meq_trans n (X Y Z : @amat C) : meq n X Y -> meq n Y Z -> meq n X Z.
  Proof. intros H1 H2 i j Hi Hj. rewrite H1 by assumption. apply H2; assumption. Qed.
  Lemma meq_sym n (X Y : @amat C) : meq n X Y -> meq n Y X.
  Proof. intros H i j Hi Hj. symmetry. apply H; assumption. Qed.

  Lemma C03_sequence : C03_sequence_stmt C.
  Proof.
    intros n Hn ops. induction ops as [|o ops IH]; intros sr sc Hr Hc Heq.
    - exists sr, sc. cbn [fold_left]. repeat split; try assumption.
    - destruct (step_sim n Lr o sr Hn Hr) as [sr1 [Er [Lr1 Mr]]].
      destruct (step_sim n Lc o sc Hn Hc) as [sc1 [Ec [Lc1 Mc]]].
      assert (H1 : meq n (absL (c0 C) Lr n sr1) (absL (c0 C) Lc n sc1)).
      { eapply meq_trans; [ exact Mr | ]. eapply meq_trans; [ apply aop_meq; exact Heq | ]. apply meq_sym; exact Mc. }
      destruct (IH sr1 sc1 Lr1 Lc1 H1) as [sr' [sc' [Fr [Fc [Lr' [Lc' [M1 M2]]]]]]].
      exists sr', sc'. cbn [fold_left]. rewrite Er, Ec.
      repeat split; try assumption.
      eapply meq_trans; [ exact M2 | ].
      clear - Mr. revert Mr. generalize (absL (c0 C) Lr n sr1) (aop C o (absL (c0 C) Lr n sr)).
      induction ops as [|o' ops IH2]; intros X Y HXY; cbn [fold_left]; [ exact HXY | ].
      apply IH2. apply aop_meq. exact HXY.
  Qed.
End Proofs.
