Require Import Reals List ZArith Lra Lia.
From VekLib Require Import Ops ROps LinAlg RLin.
From VekGen Require Import C13_gen.
From VekProofs Require Import C13_spec C13_tac.
Import ListNotations.
Local Open Scope R_scope.

Lemma conv2 : S_rect_conversions 2 p_rect_into_aab p_rect_aab_from_rect p_rect_from_aab p_rect_position p_rect_extent.
Proof.
  intros k a; cbv zeta; split; [ | split; [ | split; [ | split ] ] ].
  - ret_simple ltac:(cases_i; box_unfold; try reflexivity; ring).
  - rrun_unfold; reflexivity.
  - ret_simple ltac:(cases_i; box_unfold; split; try reflexivity; ring).
  - ret_simple ltac:(cases_i; box_unfold; reflexivity).
  - ret_simple ltac:(cases_i; box_unfold; reflexivity).
Qed.
Lemma conv3 : S_rect_conversions 3 p_rect3_into_aab p_rect3_aab_from_rect p_rect3_from_aab p_rect3_position p_rect3_extent.
Proof.
  intros k a; cbv zeta; split; [ | split; [ | split; [ | split ] ] ].
  - ret_simple ltac:(cases_i; box_unfold; try reflexivity; ring).
  - rrun_unfold; reflexivity.
  - ret_simple ltac:(cases_i; box_unfold; split; try reflexivity; ring).
  - ret_simple ltac:(cases_i; box_unfold; reflexivity).
  - ret_simple ltac:(cases_i; box_unfold; reflexivity).
Qed.

Lemma C13_rect : C13_rect_stmt.
Proof.
  unfold C13_rect_stmt.
  split; [ exact conv2 | split; [ exact conv3 | ] ].
  repeat match goal with
  | |- same_flag _ _ _ _ /\ _ => split; [ prove_same | ]
  | |- same_vec _ _ _ _ /\ _ => split; [ prove_same | ]
  | |- same_rect _ _ _ _ _ /\ _ => split; [ prove_same_rect | ]
  | |- (forall k a, rrun k a _ = rrun k a _) /\ _ => split; [ intros k a; rrun_unfold; reflexivity | ]
  end.
  intros k a. ret_simple ltac:(box_unfold; repeat split; reflexivity).
Qed.
