Require Import Reals List ZArith Lra Lia.
From VekLib Require Import Ops ROps LinAlg RLin RSum.
From VekGen Require Import C11_gen.
From VekProofs Require Import C11_spec C11_pa C11_tac.
Import ListNotations.
Local Open Scope R_scope.
Lemma basic_vec16 : basic_ok 16 [p_vec16_dot; p_vec16_magnitude_squared; p_vec16_magnitude; p_vec16_distance_squared; p_vec16_distance; p_vec16_normalized; p_vec16_normalize; p_vec16_normalized_and_get_magnitude; p_vec16_normalize_and_get_magnitude; p_vec16_reflected; p_vec16_face_forward].
Proof. prove_basic 16%nat. Qed.
