(** * C13 — statements: axis-aligned boxes and rectangles behave as the point sets they denote.
    Carrier: the real numbers. A d-dimensional box is stored (min_0..min_{d-1}, max_0..max_{d-1}),
    a rectangle (pos_0.., extent_0..). All boxes (valid and invalid) unless stated. *)
Require Import Reals List ZArith Lia.
From VekLib Require Import Ops ROps LinAlg RLin.
From VekGen Require Import C13_gen.
Import ListNotations.
Local Open Scope R_scope.

Definition off (a : nat -> R) (o : nat) : nat -> R := fun i => a (o + i)%nat.
Definition lo (d : nat) (b : nat -> R) (i : nat) : R := b i.
Definition hi (d : nat) (b : nat -> R) (i : nat) : R := b (d + i)%nat.
Definition inbox (d : nat) (b p : nat -> R) : Prop := forall i, (i < d)%nat -> lo d b i <= p i <= hi d b i.
Definition interior (d : nat) (b p : nat -> R) : Prop := forall i, (i < d)%nat -> lo d b i < p i < hi d b i.
Definition valid (d : nat) (b : nat -> R) : Prop := forall i, (i < d)%nat -> lo d b i <= hi d b i.
Definition pos_extent (d : nat) (b : nat -> R) : Prop := forall i, (i < d)%nat -> lo d b i < hi d b i.
Definition boxv (s : list R) : nat -> R := fun i => nth i s 0.

(** a boolean-valued program returns 1 exactly when P holds *)
Definition flag_iff (r : res (out R)) (P : Prop) : Prop :=
  (r = Ret ([1%Z], []) /\ P) \/ (r = Ret ([0%Z], []) /\ ~ P).
Definition returns (r : res (out R)) (n : nat) (Q : (nat -> R) -> Prop) : Prop :=
  exists s, r = Ret ([], s) /\ length s = n /\ Q (boxv s).

Section Dim.
  Variable d : nat.
  Variables (p_is_valid p_contains_point p_contains_aab p_collides : prog).
  Variables (p_union p_expand_to_contain p_intersection p_intersect p_expanded_point p_expand_point : prog).
  Variables (p_center p_size p_half_size p_made_valid p_make_valid p_new_empty p_colvec p_projected p_distance : prog).
  Let n := (2 * d)%nat.

  (** point containment is closed-interval membership; validity; box containment; collision *)
  Definition S_predicates : Prop :=
    forall k a, let A := off a 0 in let B := off a n in let p := off a n in
      flag_iff (rrun k a p_is_valid) (valid d A) /\
      flag_iff (rrun k a p_contains_point) (inbox d A p) /\
      (valid d B -> flag_iff (rrun k a p_contains_aab) (forall q, inbox d B q -> inbox d A q)) /\
      (pos_extent d A -> pos_extent d B ->
         flag_iff (rrun k a p_collides) (exists q, interior d A q /\ interior d B q)).

  (** union / intersection / expansion, as point sets *)
  Definition is_union_of (U A B : nat -> R) : Prop :=
    (forall q, inbox d A q \/ inbox d B q -> inbox d U q) /\
    (forall V : nat -> R, (forall q, inbox d A q -> inbox d V q) -> (forall q, inbox d B q -> inbox d V q) ->
                          forall q, inbox d U q -> inbox d V q).
  Definition S_union : Prop :=
    forall k a, let A := off a 0 in let B := off a n in
      (valid d A -> valid d B -> returns (rrun k a p_union) n (fun U => is_union_of U A B)) /\
      rrun k a p_expand_to_contain = rrun k a p_union.
  Definition S_intersection : Prop :=
    forall k a, let A := off a 0 in let B := off a n in
      returns (rrun k a p_intersection) n (fun I =>
        (forall q, inbox d I q <-> inbox d A q /\ inbox d B q) /\
        (valid d A -> valid d B -> (valid d I <-> exists q, inbox d A q /\ inbox d B q))) /\
      rrun k a p_intersect = rrun k a p_intersection.
  Definition S_expand_point : Prop :=
    forall k a, let A := off a 0 in let p := off a n in
      (valid d A -> returns (rrun k a p_expanded_point) n (fun U =>
         inbox d U p /\ (forall q, inbox d A q -> inbox d U q) /\
         (forall V : nat -> R, inbox d V p -> (forall q, inbox d A q -> inbox d V q) -> forall q, inbox d U q -> inbox d V q))) /\
      rrun k a p_expand_point = rrun k a p_expanded_point.

  (** centre, size, half-size, empty box at a point, validity repair *)
  Definition S_measures : Prop :=
    forall k a, let A := off a 0 in
      returns (rrun k a p_center) d (fun c => forall i, (i < d)%nat -> c i = (lo d A i + hi d A i) / 2) /\
      returns (rrun k a p_size) d (fun s => forall i, (i < d)%nat -> s i = hi d A i - lo d A i) /\
      returns (rrun k a p_half_size) d (fun s => forall i, (i < d)%nat -> s i = (hi d A i - lo d A i) / 2) /\
      returns (rrun k a p_new_empty) n (fun E => forall q, inbox d E q <-> (forall i, (i < d)%nat -> q i = a i)) /\
      returns (rrun k a p_made_valid) n (fun V => valid d V /\
         forall i, (i < d)%nat -> lo d V i = Rmin (lo d A i) (hi d A i) /\ hi d V i = Rmax (lo d A i) (hi d A i)) /\
      rrun k a p_make_valid = rrun k a p_made_valid.

  (** projecting a point into the box: the nearest point of the box; distance to it; panics exactly on invalid boxes *)
  Definition dist2 (p q : nat -> R) : R := fold_right Rplus 0 (map (fun i => (p i - q i) * (p i - q i)) (seq 0 d)).
  Definition S_projection : Prop :=
    forall k a, let A := off a 0 in let p := off a n in
      (valid d A -> returns (rrun k a p_projected) d (fun c =>
          inbox d A c /\ forall q, inbox d A q -> dist2 p c <= dist2 p q)) /\
      (~ valid d A -> rrun k a p_projected = Panic) /\
      (valid d A -> exists c dd, rrun k a p_projected = Ret ([], c) /\ rrun k a p_distance = Ret ([], [dd]) /\
                                 dd = sqrt (dist2 p (boxv c))).

  (** translating b1 by minus one component of the collision vector makes the boxes touch on that axis *)
  Definition S_collision_vector : Prop :=
    forall k a, let A := off a 0 in let B := off a n in
      returns (rrun k a p_colvec) d (fun v => forall i, (i < d)%nat ->
        hi d A i - v i = lo d B i \/ lo d A i - v i = hi d B i).
End Dim.

(** splitting at a coordinate: the halves cover the box and meet on the plane (panics outside the box) *)
Definition S_split (d axis : nat) (p : prog) : Prop :=
  forall k a, let A := off a 0 in let sp := a (2 * d)%nat in
    (lo d A axis <= sp <= hi d A axis ->
       exists s, rrun k a p = Ret ([], s) /\ length s = (4 * d)%nat /\
         let L := off (boxv s) 0 in let H := off (boxv s) (2 * d) in
         (forall q, inbox d A q <-> inbox d L q \/ inbox d H q) /\ hi d L axis = sp /\ lo d H axis = sp) /\
    (~ (lo d A axis <= sp <= hi d A axis) -> rrun k a p = Panic).

(** rectangles: conversions, and every rectangle method = the box method on the converted value *)
Definition rect_as_box (d : nat) (r : nat -> R) : nat -> R :=
  fun i => if Nat.ltb i d then r i else r (i - d)%nat + r i.
Definition S_rect_conversions (d : nat) (p_into_aab p_aab_from_rect p_from_aab p_position p_extent : prog) : Prop :=
  forall k a, let n := (2 * d)%nat in
    returns (rrun k a p_into_aab) n (fun b => forall i, (i < n)%nat -> b i = rect_as_box d a i) /\
    rrun k a p_aab_from_rect = rrun k a p_into_aab /\
    returns (rrun k a p_from_aab) n (fun r => forall i, (i < d)%nat -> r i = a i /\ r (d + i)%nat = a (d + i)%nat - a i) /\
    returns (rrun k a p_position) d (fun v => forall i, (i < d)%nat -> v i = a i) /\
    returns (rrun k a p_extent) d (fun v => forall i, (i < d)%nat -> v i = a (d + i)%nat).

(** [via d nargs prect paab back]: the rectangle method on rectangles = the box method on the converted boxes
    (first [nargs] arguments are rectangles, the rest is passed through), converted back when it returns a rectangle *)
Definition conv_args (d nargs : nat) (a : nat -> R) : nat -> R :=
  fun i => if Nat.ltb i (2 * d * nargs) then rect_as_box d (off a (2 * d * (i / (2 * d)))) (i mod (2 * d)) else a i.
Definition box_as_rect (d : nat) (b : nat -> R) : nat -> R :=
  fun i => if Nat.ltb i d then b i else b i - b (i - d)%nat.
Definition same_flag (d nargs : nat) (prect paab : prog) : Prop :=
  forall k a, rrun k a prect = rrun k (conv_args d nargs a) paab.
Definition same_vec (d nargs : nat) (prect paab : prog) : Prop :=
  forall k a, rrun k a prect = rrun k (conv_args d nargs a) paab.
Definition same_rect (d nargs nres : nat) (prect paab : prog) : Prop :=
  forall k a s, rrun k (conv_args d nargs a) paab = Ret ([], s) ->
    exists r, rrun k a prect = Ret ([], r) /\ length r = length s /\
      forall j i, (j < nres)%nat -> (i < 2 * d)%nat ->
        boxv r (2 * d * j + i) = box_as_rect d (off (boxv s) (2 * d * j)) i.

Definition C13_aabr_stmt : Prop :=
  S_predicates 2 p_aabr_is_valid p_aabr_contains_point p_aabr_contains_aab p_aabr_collides_with_aab /\
  S_union 2 p_aabr_union p_aabr_expand_to_contain /\ S_intersection 2 p_aabr_intersection p_aabr_intersect /\
  S_expand_point 2 p_aabr_expanded_to_contain_point p_aabr_expand_to_contain_point /\
  S_measures 2 p_aabr_center p_aabr_size p_aabr_half_size p_aabr_made_valid p_aabr_make_valid p_aabr_new_empty /\
  S_projection 2 p_aabr_projected_point p_aabr_distance_to_point /\
  S_collision_vector 2 p_aabr_collision_vector_with_aab /\
  S_split 2 0 p_aabr_split_at_x /\ S_split 2 1 p_aabr_split_at_y.
Definition C13_aabb_stmt : Prop :=
  S_predicates 3 p_aabb_is_valid p_aabb_contains_point p_aabb_contains_aab p_aabb_collides_with_aab /\
  S_union 3 p_aabb_union p_aabb_expand_to_contain /\ S_intersection 3 p_aabb_intersection p_aabb_intersect /\
  S_expand_point 3 p_aabb_expanded_to_contain_point p_aabb_expand_to_contain_point /\
  S_measures 3 p_aabb_center p_aabb_size p_aabb_half_size p_aabb_made_valid p_aabb_make_valid p_aabb_new_empty /\
  S_projection 3 p_aabb_projected_point p_aabb_distance_to_point /\
  S_collision_vector 3 p_aabb_collision_vector_with_aab /\
  S_split 3 0 p_aabb_split_at_x /\ S_split 3 1 p_aabb_split_at_y /\ S_split 3 2 p_aabb_split_at_z.
Definition C13_rect_stmt : Prop :=
  S_rect_conversions 2 p_rect_into_aab p_rect_aab_from_rect p_rect_from_aab p_rect_position p_rect_extent /\
  S_rect_conversions 3 p_rect3_into_aab p_rect3_aab_from_rect p_rect3_from_aab p_rect3_position p_rect3_extent /\
  same_flag 2 1 p_rect_contains_point p_aabr_contains_point /\ same_flag 2 2 p_rect_contains_rect p_aabr_contains_aab /\
  same_flag 2 2 p_rect_collides_with_rect p_aabr_collides_with_aab /\
  same_vec 2 1 p_rect_center p_aabr_center /\ same_vec 2 2 p_rect_collision_vector_with_rect p_aabr_collision_vector_with_aab /\
  same_rect 2 2 1 p_rect_union p_aabr_union /\ same_rect 2 2 1 p_rect_intersection p_aabr_intersection /\
  same_rect 2 1 1 p_rect_expanded_to_contain_point p_aabr_expanded_to_contain_point /\
  same_rect 2 1 2 p_rect_split_at_x p_aabr_split_at_x /\ same_rect 2 1 2 p_rect_split_at_y p_aabr_split_at_y /\
  same_flag 3 1 p_rect3_contains_point p_aabb_contains_point /\ same_flag 3 2 p_rect3_contains_rect p_aabb_contains_aab /\
  same_flag 3 2 p_rect3_collides_with_rect p_aabb_collides_with_aab /\
  same_vec 3 1 p_rect3_center p_aabb_center /\ same_vec 3 2 p_rect3_collision_vector_with_rect p_aabb_collision_vector_with_aab /\
  same_rect 3 2 1 p_rect3_union p_aabb_union /\ same_rect 3 2 1 p_rect3_intersection p_aabb_intersection /\
  same_rect 3 1 1 p_rect3_expanded_to_contain_point p_aabb_expanded_to_contain_point /\
  same_rect 3 1 2 p_rect3_split_at_x p_aabb_split_at_x /\ same_rect 3 1 2 p_rect3_split_at_y p_aabb_split_at_y /\
  same_rect 3 1 2 p_rect3_split_at_z p_aabb_split_at_z /\
  (forall k a, rrun k a p_rect_expand_to_contain_point = rrun k a p_rect_expanded_to_contain_point) /\
  (forall k a, rrun k a p_rect_expand_to_contain = rrun k a p_rect_union) /\
  (forall k a, rrun k a p_rect_intersect = rrun k a p_rect_intersection) /\
  (forall k a, rrun k a p_rect3_expand_to_contain_point = rrun k a p_rect3_expanded_to_contain_point) /\
  (forall k a, rrun k a p_rect3_expand_to_contain = rrun k a p_rect3_union) /\
  (forall k a, rrun k a p_rect3_intersect = rrun k a p_rect3_intersection) /\
  (* a 3D box drops its z range when converted to a 2D one *)
  (forall k a, returns (rrun k a p_aabr_from_aabb) 4 (fun b => b 0%nat = a 0%nat /\ b 1%nat = a 1%nat /\ b 2%nat = a 3%nat /\ b 3%nat = a 4%nat)).

(** box -> rectangle (position = min corner, extent = max - min) and element-wise map with an arbitrary closure *)
Definition C13_misc_stmt : Prop :=
  (* rectangle setters / combined getter: (x, y, w, h) ++ new value *)
  (forall k a, rrun k a p_rect_set_position = Ret ([], [a 4%nat; a 5%nat; a 2%nat; a 3%nat])) /\
  (forall k a, rrun k a p_rect_set_extent = Ret ([], [a 0%nat; a 1%nat; a 4%nat; a 5%nat])) /\
  (forall k a, rrun k a p_rect_position_extent = Ret ([], [a 0%nat; a 1%nat; a 2%nat; a 3%nat])) /\
  (forall k a, rrun k a p_rect3_set_position = Ret ([], [a 6%nat; a 7%nat; a 8%nat; a 3%nat; a 4%nat; a 5%nat])) /\
  (forall k a, rrun k a p_rect3_set_extent = Ret ([], [a 0%nat; a 1%nat; a 2%nat; a 6%nat; a 7%nat; a 8%nat])) /\
  (forall k a, rrun k a p_rect3_position_extent = Ret ([], [a 0%nat; a 1%nat; a 2%nat; a 3%nat; a 4%nat; a 5%nat])) /\
  (forall k a, rrun k a p_aabr_into_rect = Ret ([], [a 0%nat; a 1%nat; a 2%nat - a 0%nat; a 3%nat - a 1%nat])) /\
  (forall k a, rrun k a p_aabb_into_rect = Ret ([], [a 0%nat; a 1%nat; a 2%nat; a 3%nat - a 0%nat; a 4%nat - a 1%nat; a 5%nat - a 2%nat])) /\
  (forall k (F : nat -> list R -> R) a, run (R_ops k) F a p_aabr_map = Ret ([], map (fun x => F 0%nat [x]) (tab 4 a 0))) /\
  (forall k (F : nat -> list R -> R) a, run (R_ops k) F a p_aabb_map = Ret ([], map (fun x => F 0%nat [x]) (tab 6 a 0))).
