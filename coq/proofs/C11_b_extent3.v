Require Import Reals List ZArith Lra Lia.
From VekLib Require Import Ops ROps LinAlg RLin RSum.
From VekGen Require Import C11_gen.
From VekProofs Require Import C11_spec C11_pa C11_tac.
Import ListNotations.
Local Open Scope R_scope.
Lemma basic_extent3 : basic_ok 3 [p_extent3_dot; p_extent3_magnitude_squared; p_extent3_magnitude; p_extent3_distance_squared; p_extent3_distance; p_extent3_normalized; p_extent3_normalize; p_extent3_normalized_and_get_magnitude; p_extent3_normalize_and_get_magnitude; p_extent3_reflected; p_extent3_face_forward].
Proof. prove_basic 3%nat. Qed.
