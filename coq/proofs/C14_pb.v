Require Import Reals List ZArith Lra Lia.
From Coquelicot Require Import Coquelicot.
From VekLib Require Import Ops ROps LinAlg RLin.
From VekGen Require Import C14_gen.
From VekProofs Require Import C14_spec C14_pa.
Import ListNotations.
Local Open Scope R_scope.

Ltac cases_i :=
  match goal with
  | |- forall i : nat, (i < _)%nat -> _ =>
      let i := fresh "i" in let Hi := fresh "Hi" in intros i Hi;
      repeat (destruct i as [|i]; [ | try (exfalso; lia) ]); try (exfalso; lia)
  end.

Lemma C14_conversions : C14_conversions_stmt.
Proof.
  split.
  - table; intros k a; b_unfold; cbv zeta;
      (split; [ ret_with ltac:(intros t; cases_j; b_unfold; ring) | ]);
      (split; [ rrun_unfold; reflexivity | ]);
      (split; [ ret_with ltac:(intros t; cases_j; b_unfold; ring) | ]);
      (split; [ ret_with ltac:(intros t; cases_j; b_unfold; ring) | ]);
      (split; [ rrun_unfold; reflexivity | ]);
      (split; [ rrun_unfold; reflexivity | ]);
      (split; [ ret_with ltac:(intros t; cases_j; b_unfold; field) | ]);
      (split; [ rrun_unfold; reflexivity | ]);
      (split; [ ret_with ltac:(cases_i; b_unfold; reflexivity) | ]);
      (intros dv; rrun_unfold; intros Hd; injection Hd as <-; ret_with ltac:(cases_j; b_unfold; reflexivity)).
  - table; intros k a; cbv zeta; (split; [ ret_with ltac:(intros t; cases_j; b_unfold; ring) | rrun_unfold; reflexivity ]).
Qed.

Lemma C14_elevation : C14_elevation_stmt.
Proof.
  split; [ | split; [ | split; [ | split ] ] ].
  - table; intros k a; ret_with ltac:(intros t; cases_j; b_unfold; field).
  - intros k a; ret_with ltac:(cases_i; b_unfold; reflexivity).
  - intros k a; ret_with ltac:(cases_i; b_unfold; reflexivity).
  - table; intros k a; ret_with ltac:(cases_i; b_unfold; repeat split; reflexivity).
  - table; intros k a; ret_with ltac:(cases_i; b_unfold; repeat split; reflexivity).
Qed.

Lemma C14_matrix : C14_matrix_stmt.
Proof.
  table; intros k a; (eexists; split; [ rrun_unfold; reflexivity | split; [ reflexivity | ] ]);
    intros P t j; b_unfold; ring.
Qed.

Lemma C14_matrix_mul : C14_matrix_mul_stmt.
Proof.
  table; intros k a; cbv zeta; ret_with ltac:(intros t; cases_j; b_unfold; rlin_unfold; ring).
Qed.
