Require Import Reals List ZArith Lra Lia.
From VekLib Require Import Ops ROps LinAlg RLin RSum.
From VekGen Require Import C11_gen.
From VekProofs Require Import C11_spec C11_pa C11_tac.
Import ListNotations.
Local Open Scope R_scope.

Ltac prove_wide n :=
  intros k a; cbv zeta; u11;
  split; [ ret1_refl; s_unfold; congr_ring | ];
  split; [ ret1_refl; s_unfold; congr_ring | ];
  split; [ ret1_refl; s_unfold; congr_ring | ];
  split; [ ret1_refl; s_unfold; congr_ring | ];
  ret1_refl; s_unfold; congr_ring.
Lemma C11_wide : C11_wide_stmt.
Proof. split; [ prove_wide 32%nat | prove_wide 64%nat ]. Qed.
