Require Import Reals List ZArith Lra Lia.
From VekLib Require Import Ops ROps LinAlg RLin.
From VekGen Require Import C13_gen.
From VekProofs Require Import C13_spec.
Import ListNotations.
Local Open Scope R_scope.

Ltac box_unfold :=
  cbv [off lo hi boxv nth Nat.add Nat.mul Nat.sub Nat.ltb Nat.leb Nat.div Nat.modulo Nat.divmod fst snd
       rect_as_box box_as_rect conv_args dist2 fold_right map seq] in *.

(** instantiate every [forall i, i < d -> _] hypothesis at i = 0, 1, 2 *)
Ltac inst_all :=
  repeat match goal with
  | H : forall i : nat, (i < _)%nat -> _ |- _ =>
      try (let H0 := fresh "I" in pose proof (H 0%nat ltac:(lia)) as H0);
      try (let H1 := fresh "I" in pose proof (H 1%nat ltac:(lia)) as H1);
      try (let H2 := fresh "I" in pose proof (H 2%nat ltac:(lia)) as H2);
      clear H
  end.
Ltac cases_i :=
  match goal with
  | |- forall i : nat, (i < _)%nat -> _ =>
      let i := fresh "i" in let Hi := fresh "Hi" in intros i Hi;
      repeat (destruct i as [|i]; [ | try (exfalso; lia) ]); try (exfalso; lia)
  end.
Ltac unf := unfold inbox, interior, valid, pos_extent in *.

Lemma sq_le_cases (p c q : R) : c = p \/ (p <= c <= q) \/ (q <= c <= p) -> (p - c) * (p - c) <= (p - q) * (p - q).
Proof.
  intros [H|[H|H]].
  - subst. replace ((p - p) * (p - p)) with 0 by ring. apply Rle_0_sqr.
  - assert (0 <= (q - c) * ((q - p) + (c - p))) by (apply Rmult_le_pos; lra). lra.
  - assert (0 <= (c - q) * ((p - q) + (p - c))) by (apply Rmult_le_pos; lra). lra.
Qed.
Ltac axis_le := apply sq_le_cases; first [ left; lra | right; left; lra | right; right; lra ].

Ltac rm := unfold Rmin, Rmax in *; repeat match goal with |- context [Rle_dec ?x ?y] => destruct (Rle_dec x y) end.
Ltac rm_all := unfold Rmin, Rmax in *;
  repeat match goal with
  | |- context [Rle_dec ?x ?y] => destruct (Rle_dec x y)
  | H : context [Rle_dec ?x ?y] |- _ => destruct (Rle_dec x y)
  end.
Ltac pos := left; split; [ reflexivity | ].
Ltac neg := right; split; [ reflexivity | ].

Ltac prove_predicates d :=
  let nn := eval compute in (2 * d)%nat in
  intros k a; cbv zeta; split; [ | split; [ | split ] ];
  [ unfold flag_iff; rrun_unfold; split_conds;
    first [ pos; unf; cases_i; box_unfold; lra | neg; unf; intro Hc; inst_all; box_unfold; lra ]
  | unfold flag_iff; rrun_unfold; split_conds;
    first [ pos; unf; cases_i; box_unfold; lra | neg; unf; intro Hc; inst_all; box_unfold; lra ]
  | intros HvB; unfold flag_iff; rrun_unfold; split_conds;
    first [ pos; unf; intros q Hq; inst_all; cases_i; box_unfold; lra
          | neg; let Hc := fresh "Hc" in intro Hc;
            pose proof (Hc (fun i => off a nn i) ltac:(unf; inst_all; cases_i; box_unfold; lra));
            pose proof (Hc (fun i => off a nn (d + i)%nat) ltac:(unf; inst_all; cases_i; box_unfold; lra));
            clear Hc; unf; inst_all; box_unfold; lra ]
  | intros HpA HpB; unfold flag_iff; rrun_unfold; split_conds;
    first [ pos; exists (fun i => (Rmax (off a 0 i) (off a nn i) + Rmin (off a 0 (d + i)%nat) (off a nn (d + i)%nat)) / 2);
            unf; inst_all; split; cases_i; box_unfold; rm; lra
          | neg; intros (q & Hq1 & Hq2); unf; inst_all; box_unfold; lra ] ].

Definition minmax_box (d : nat) (A B : nat -> R) : list R :=
  map (fun i => Rmin (lo d A i) (lo d B i)) (seq 0 d) ++ map (fun i => Rmax (hi d A i) (hi d B i)) (seq 0 d).
Definition maxmin_box (d : nat) (A B : nat -> R) : list R :=
  map (fun i => Rmax (lo d A i) (lo d B i)) (seq 0 d) ++ map (fun i => Rmin (hi d A i) (hi d B i)) (seq 0 d).
Definition ptbox (d : nat) (p : nat -> R) : nat -> R := fun i => if Nat.ltb i d then p i else p (i - d)%nat.
Ltac mm_unfold := cbv [minmax_box maxmin_box ptbox map seq app lo hi off Nat.add Nat.mul Nat.sub Nat.ltb Nat.leb].
Ltac mm_unfold_all := cbv [minmax_box maxmin_box ptbox map seq app lo hi off Nat.add Nat.mul Nat.sub Nat.ltb Nat.leb] in *.

(** list equality entry by entry, each closed by unfolding min/max *)
Ltac list_rm := repeat (apply (f_equal2 (@cons R)); [ try reflexivity; rm; lra | ]); try reflexivity.
Ltac closed_form := rrun_unfold; mm_unfold; split_conds; apply f_equal; apply f_equal; list_rm.

Ltac prove_union d pu :=
  let nn := eval compute in (2 * d)%nat in
  intros k a; cbv zeta; split;
  [ intros HvA HvB;
    assert (E : rrun k a pu = Ret ([], minmax_box d (off a 0) (off a nn))) by closed_form;
    eexists; split; [ exact E | split; [ reflexivity | ] ]; split;
    [ intros q [Hq|Hq]; unf; inst_all; cases_i; mm_unfold; box_unfold; rm; lra
    | intros V HA HB q Hq;
      pose proof (HA (fun i => off a 0 i) ltac:(unf; inst_all; cases_i; box_unfold; lra));
      pose proof (HA (fun i => off a 0 (d + i)%nat) ltac:(unf; inst_all; cases_i; box_unfold; lra));
      pose proof (HB (fun i => off a nn i) ltac:(unf; inst_all; cases_i; box_unfold; lra));
      pose proof (HB (fun i => off a nn (d + i)%nat) ltac:(unf; inst_all; cases_i; box_unfold; lra));
      clear HA HB; unf; inst_all; cases_i; mm_unfold_all; box_unfold; rm_all; lra ]
  | rrun_unfold; reflexivity ].

Ltac prove_intersection d pi :=
  let nn := eval compute in (2 * d)%nat in
  intros k a; cbv zeta; split;
  [ assert (E : rrun k a pi = Ret ([], maxmin_box d (off a 0) (off a nn))) by closed_form;
    eexists; split; [ exact E | split; [ reflexivity | ] ]; split;
    [ intros q; split;
      [ intros Hq; split; unf; inst_all; cases_i; mm_unfold_all; box_unfold; rm_all; lra
      | intros [Hq1 Hq2]; unf; inst_all; cases_i; mm_unfold_all; box_unfold; rm_all; lra ]
    | intros HvA HvB; split;
      [ intros HvI; exists (fun i => Rmax (off a 0 i) (off a nn i));
        split; unf; inst_all; cases_i; mm_unfold_all; box_unfold; rm_all; lra
      | intros (q & Hq1 & Hq2); unf; inst_all; cases_i; mm_unfold_all; box_unfold; rm_all; lra ] ]
  | rrun_unfold; reflexivity ].

Ltac prove_expand_point d pe :=
  let nn := eval compute in (2 * d)%nat in
  intros k a; cbv zeta; split;
  [ intros HvA;
    assert (E : rrun k a pe = Ret ([], minmax_box d (off a 0) (ptbox d (off a nn)))) by closed_form;
    eexists; split; [ exact E | split; [ reflexivity | ] ]; split; [ | split ];
    [ unf; inst_all; cases_i; mm_unfold_all; box_unfold; rm_all; lra
    | intros q Hq; unf; inst_all; cases_i; mm_unfold_all; box_unfold; rm_all; lra
    | intros V Hp HA q Hq;
      pose proof (HA (fun i => off a 0 i) ltac:(unf; inst_all; cases_i; box_unfold; lra));
      pose proof (HA (fun i => off a 0 (d + i)%nat) ltac:(unf; inst_all; cases_i; box_unfold; lra));
      clear HA; unf; inst_all; cases_i; mm_unfold_all; box_unfold; rm_all; lra ]
  | rrun_unfold; reflexivity ].

Ltac ret_simple tac :=
  unfold returns; rrun_unfold; split_conds; eexists; (split; [ reflexivity | split; [ reflexivity | tac ] ]).

Ltac prove_measures d :=
  intros k a; cbv zeta; split; [ | split; [ | split; [ | split; [ | split ] ] ] ];
  [ ret_simple ltac:(cases_i; box_unfold; field)
  | ret_simple ltac:(cases_i; box_unfold; ring)
  | ret_simple ltac:(cases_i; box_unfold; field)
  | ret_simple ltac:(intros q; split; [ intros Hq; unf; inst_all; cases_i; box_unfold; lra | intros Hq; unf; inst_all; cases_i; box_unfold; lra ])
  | ret_simple ltac:(split; [ unf; cases_i; box_unfold; lra | cases_i; box_unfold; rm; lra ])
  | rrun_unfold; reflexivity ].

Ltac prove_projection d :=
  intros k a; cbv zeta; split; [ | split ];
  [ intros HvA; unfold returns; rrun_unfold; split_conds;
    try (exfalso; unf; inst_all; box_unfold; lra);
    eexists; (split; [ reflexivity | split; [ reflexivity | ] ]); split;
    [ unf; inst_all; cases_i; box_unfold; lra
    | intros q Hq; unf; inst_all; box_unfold; repeat (apply Rplus_le_compat; [ nra | ]); lra ]
  | intros Hnv; rrun_unfold; split_conds; try reflexivity; exfalso; apply Hnv; unf; cases_i; box_unfold; lra
  | intros HvA; rrun_unfold; split_conds; try (exfalso; unf; inst_all; box_unfold; lra);
    do 2 eexists; (split; [ reflexivity | split; [ reflexivity | box_unfold; f_equal; ring ] ]) ].

Ltac prove_colvec d :=
  intros k a; cbv zeta; unfold returns; rrun_unfold; split_conds;
  eexists; (split; [ reflexivity | split; [ reflexivity | ] ]); cases_i; box_unfold; first [ left; lra | right; lra ].

Ltac prove_split d axis :=
  intros k a; cbv zeta; split;
  [ intros Hr; revert Hr; unfold lo, hi, off; cbv [Nat.add Nat.mul]; intros [Hr1 Hr2];
    rrun_unfold; split_conds; try (exfalso; lra);
    eexists; (split; [ reflexivity | split; [ reflexivity | ] ]); cbv zeta; split; [ | split; box_unfold; reflexivity ];
    intros q; split;
    [ intros Hq; destruct (Rle_dec (q axis) (a (2 * d)%nat)); [ left | right ]; unf; inst_all; cases_i; box_unfold; lra
    | intros [Hq|Hq]; unf; inst_all; cases_i; box_unfold; lra ]
  | intros Hn; rrun_unfold; split_conds; try reflexivity; exfalso; apply Hn; unfold lo, hi, off; cbv [Nat.add Nat.mul]; lra ].

Ltac prove_rect_conv d :=
  intros k a; cbv zeta; split; [ | split; [ | split; [ | split ] ] ];
  [ ret_simple ltac:(cases_i; box_unfold; try reflexivity; ring)
  | rrun_unfold; reflexivity
  | ret_simple ltac:(cases_i; box_unfold; split; try reflexivity; ring)
  | ret_simple ltac:(cases_i; box_unfold; reflexivity)
  | ret_simple ltac:(cases_i; box_unfold; reflexivity) ].

Ltac prove_same := intros k a; rrun_unfold; box_unfold; reflexivity.
Ltac cases_ji :=
  let j := fresh "j" in let i := fresh "i" in let Hj := fresh "Hj" in let Hi := fresh "Hi" in
  intros j i Hj Hi;
  repeat (destruct j as [|j]; [ | try (exfalso; lia) ]); try (exfalso; lia);
  repeat (destruct i as [|i]; [ | try (exfalso; lia) ]); try (exfalso; lia).
Ltac prove_same_rect :=
  let Hs := fresh "Hs" in
  intros k a s Hs; revert Hs; rrun_unfold; box_unfold; split_conds; intros Hs; try discriminate Hs;
  injection Hs as <-; eexists; (split; [ reflexivity | split; [ reflexivity | cases_ji; box_unfold; try reflexivity; ring ] ]).
