(** * C12 — statements (real-valued part): Lerp is affine with exact endpoints; nlerp and slerp stay on the
    unit sphere; Transform and Transition interpolate as stated. The integer impls are in C12_int. *)
Require Import Reals List ZArith Lia.
From VekLib Require Import Ops ROps LinAlg RLin.
From VekGen Require Import C12_gen.
Import ListNotations.
Local Open Scope R_scope.

Definition off (a : nat -> R) (o : nat) : nat -> R := fun i => a (o + i)%nat.
Definition vecv (s : list R) : nat -> R := fun i => nth i s 0.
Definition ret1 (r : res (out R)) (Q : R -> Prop) : Prop := exists v, r = Ret ([], [v]) /\ Q v.
Definition returns (r : res (out R)) (n : nat) (Q : (nat -> R) -> Prop) : Prop :=
  exists s, r = Ret ([], s) /\ length s = n /\ Q (vecv s).
Definition env3 (x y z : R) : nat -> R := fun i => nth i [x; y; z] 0.
Definition clamp01 (t : R) : R := Rmin (Rmax t 0) 1.
Definition lerpR (x y t : R) : R := x + t * (y - x).

(** ** scalars: from at 0, to at 1, affine, fast = precise, clamped = unclamped o clamp01, range and reference forms *)
Definition C12_scalar_stmt : Prop :=
  forall k a, let x := a 0%nat in let y := a 1%nat in let t := a 2%nat in
    ret1 (rrun k a p_s_lerp_unclamped) (fun v => v = lerpR x y t) /\
    ret1 (rrun k a p_s_lerp_unclamped_precise) (fun v => v = lerpR x y t) /\
    ret1 (rrun k a p_s_lerp) (fun v => v = lerpR x y (clamp01 t)) /\
    ret1 (rrun k a p_s_lerp_precise) (fun v => v = lerpR x y (clamp01 t)) /\
    lerpR x y 0 = x /\ lerpR x y 1 = y /\
    (forall t1 t2 s, lerpR x y (t1 + s * (t2 - t1)) = lerpR x y t1 + s * (lerpR x y t2 - lerpR x y t1)) /\
    rrun k a p_s_lerp_unclamped_range = rrun k a p_s_lerp_unclamped /\
    rrun k a p_s_lerp_unclamped_precise_range = rrun k a p_s_lerp_unclamped_precise /\
    rrun k a p_s_lerp_range = rrun k a p_s_lerp /\ rrun k a p_s_lerp_precise_range = rrun k a p_s_lerp_precise /\
    rrun k a p_s_ref_lerp_unclamped = rrun k a p_s_lerp_unclamped /\
    rrun k a p_s_ref_lerp_unclamped_precise = rrun k a p_s_lerp_unclamped_precise /\
    rrun k a p_s_ref_lerp = rrun k a p_s_lerp.

(** ** vectors: the scalar law per element, with a scalar or a per-element factor, by value or by reference *)
Definition vlerp_ok (n : nat) (pus pups pls plps puv pupv ptu ptup ptc ptru ptrp : prog) : Prop :=
  forall k a,
    let sc := fun (f : R -> R) => fun v : nat -> R => forall i, (i < n)%nat -> v i = lerpR (a i) (a (n + i)%nat) (f (a (2 * n)%nat)) in
    let ve := fun v : nat -> R => forall i, (i < n)%nat -> v i = lerpR (a i) (a (n + i)%nat) (a (2 * n + i)%nat) in
    returns (rrun k a pus) n (sc (fun t => t)) /\ returns (rrun k a pups) n (sc (fun t => t)) /\
    returns (rrun k a pls) n (sc clamp01) /\ returns (rrun k a plps) n (sc clamp01) /\
    returns (rrun k a puv) n ve /\ returns (rrun k a pupv) n ve /\
    returns (rrun k a ptu) n (sc (fun t => t)) /\ returns (rrun k a ptup) n (sc (fun t => t)) /\
    returns (rrun k a ptc) n (sc clamp01) /\
    rrun k a ptru = rrun k a ptu /\ rrun k a ptrp = rrun k a ptup.
Definition C12_vector_stmt : Prop :=
  vlerp_ok 2 p_vec2_lerp_unclamped_s p_vec2_lerp_unclamped_precise_s p_vec2_lerp_s p_vec2_lerp_precise_s p_vec2_lerp_unclamped_v p_vec2_lerp_unclamped_precise_v p_vec2_trait_unclamped p_vec2_trait_unclamped_precise p_vec2_trait_clamped p_vec2_trait_ref_unclamped p_vec2_trait_ref_precise /\
  vlerp_ok 3 p_vec3_lerp_unclamped_s p_vec3_lerp_unclamped_precise_s p_vec3_lerp_s p_vec3_lerp_precise_s p_vec3_lerp_unclamped_v p_vec3_lerp_unclamped_precise_v p_vec3_trait_unclamped p_vec3_trait_unclamped_precise p_vec3_trait_clamped p_vec3_trait_ref_unclamped p_vec3_trait_ref_precise /\
  vlerp_ok 4 p_vec4_lerp_unclamped_s p_vec4_lerp_unclamped_precise_s p_vec4_lerp_s p_vec4_lerp_precise_s p_vec4_lerp_unclamped_v p_vec4_lerp_unclamped_precise_v p_vec4_trait_unclamped p_vec4_trait_unclamped_precise p_vec4_trait_clamped p_vec4_trait_ref_unclamped p_vec4_trait_ref_precise /\
  vlerp_ok 3 p_extent3_lerp_unclamped_s p_extent3_lerp_unclamped_precise_s p_extent3_lerp_s p_extent3_lerp_precise_s p_extent3_lerp_unclamped_v p_extent3_lerp_unclamped_precise_v p_extent3_trait_unclamped p_extent3_trait_unclamped_precise p_extent3_trait_clamped p_extent3_trait_ref_unclamped p_extent3_trait_ref_precise /\
  vlerp_ok 4 p_rgba_lerp_unclamped_s p_rgba_lerp_unclamped_precise_s p_rgba_lerp_s p_rgba_lerp_precise_s p_rgba_lerp_unclamped_v p_rgba_lerp_unclamped_precise_v p_rgba_trait_unclamped p_rgba_trait_unclamped_precise p_rgba_trait_clamped p_rgba_trait_ref_unclamped p_rgba_trait_ref_precise /\
  vlerp_ok 2 p_uv_lerp_unclamped_s p_uv_lerp_unclamped_precise_s p_uv_lerp_s p_uv_lerp_precise_s p_uv_lerp_unclamped_v p_uv_lerp_unclamped_precise_v p_uv_trait_unclamped p_uv_trait_unclamped_precise p_uv_trait_clamped p_uv_trait_ref_unclamped p_uv_trait_ref_precise.

(** ** quaternions. Inputs p (4), q (4), factor. *)
Definition dot4 (u v : nat -> R) : R := u 0%nat * v 0%nat + u 1%nat * v 1%nat + u 2%nat * v 2%nat + u 3%nat * v 3%nat.
Definition lerp4 (p q : nat -> R) (t : R) : nat -> R := fun i => lerpR (p i) (q i) t.
Definition C12_nlerp_stmt : Prop :=
  forall k a, let p := off a 0 in let q := off a 4 in let t := a 8%nat in
    (* the unnormalised forms are the component-wise lerp *)
    Forall (fun '(prog, f) => returns (rrun k a prog) 4 (fun v => forall i, (i < 4)%nat -> v i = lerp4 p q (f t) i))
      [ (p_quat_lerp_unclamped_unnormalized, fun t => t); (p_quat_lerp_unclamped_precise_unnormalized, fun t => t);
        (p_quat_lerp_unnormalized, clamp01); (p_quat_lerp_precise_unnormalized, clamp01) ] /\
    (* Lerp on quaternions normalises: a unit quaternion parallel to the lerp, whenever that is non-zero *)
    Forall (fun '(prog, f) => 0 < dot4 (lerp4 p q (f t)) (lerp4 p q (f t)) ->
         returns (rrun k a prog) 4 (fun v => dot4 v v = 1 /\
           forall i, (i < 4)%nat -> v i * sqrt (dot4 (lerp4 p q (f t)) (lerp4 p q (f t))) = lerp4 p q (f t) i))
      [ (p_quat_nlerp_unclamped, fun t => t); (p_quat_nlerp_unclamped_precise, fun t => t); (p_quat_nlerp, clamp01) ] /\
    rrun k a p_quat_ref_nlerp_unclamped = rrun k a p_quat_nlerp_unclamped.

Definition C12_slerp_stmt : Prop :=
  forall k a, let p := off a 0 in let q := off a 4 in let t := a 8%nat in
    0 < k Neps < 1 -> dot4 p p = 1 -> dot4 q q = 1 ->
    let c := Rabs (dot4 p q) in let theta := acos c in
    (* outside the near-parallel band (where the code falls back to nlerp) *)
    ~ (1 - k Neps < c) ->
    returns (rrun k a p_quat_slerp_unclamped) 4 (fun r =>
      dot4 r r = 1 /\                                  (* stays unit *)
      dot4 p r = cos (t * theta) /\                    (* shorter arc, constant angular speed *)
      (t = 0 -> forall i, (i < 4)%nat -> r i = p i) /\ (* reaches both ends, the far one up to sign *)
      (t = 1 -> forall i, (i < 4)%nat -> r i = (if Rlt_dec (dot4 p q) 0 then - q i else q i))) /\
    (* clamped / trait / reference forms *)
    rrun k a p_quat_trait_slerp_unclamped = rrun k a p_quat_slerp_unclamped /\
    rrun k a p_quat_trait_ref_slerp_unclamped = rrun k a p_quat_slerp_unclamped /\
    (* slerp = slerp_unclamped at the factor clamped to [0,1] *)
    (let at_t := fun c => fun i => if Nat.eqb i 8 then c else a i in
     (t < 0 -> rrun k a p_quat_slerp = rrun k (at_t 0) p_quat_slerp_unclamped) /\
     (0 <= t <= 1 -> rrun k a p_quat_slerp = rrun k a p_quat_slerp_unclamped) /\
     (1 < t -> rrun k a p_quat_slerp = rrun k (at_t 1) p_quat_slerp_unclamped)).

(** ** Transform: lerp of position and scale, slerp of orientation *)
Definition C12_transform_stmt : Prop :=
  forall k a, let t := a 20%nat in
    Forall (fun prog => forall so, rrun k (fun i => nth i [a 3; a 4; a 5; a 6; a 13; a 14; a 15; a 16; t]%nat 0) p_quat_slerp_unclamped = Ret ([], so) ->
        returns (rrun k a prog) 10 (fun r =>
          (forall i, (i < 3)%nat -> r i = lerpR (a i) (a (10 + i)%nat) t) /\
          (forall i, (i < 4)%nat -> r (3 + i)%nat = vecv so i) /\
          (forall i, (i < 3)%nat -> r (7 + i)%nat = lerpR (a (7 + i)%nat) (a (17 + i)%nat) t)))
      [ p_transform_lerp_unclamped; p_transform_lerp_unclamped_precise; p_transform_ref_lerp_unclamped; p_transform_ref_lerp_unclamped_precise ].

(** ** Transition: the current value is the interpolation at the mapped progress (g = any progress mapper) *)
Definition grun (k : named -> R) (F : nat -> list R -> R) (a : nat -> R) (p : prog) := run (R_ops k) F a p.
Definition C12_transition_stmt : Prop :=
  forall k F a, let gp := F 7%nat [a 2%nat] in
    Forall (fun '(pfn, pid, plerp) =>
        grun k F a pfn = grun k F (env3 (a 0%nat) (a 1%nat) gp) plerp /\
        grun k F a pid = grun k F a plerp)
      [ (p_transition_fn_into_current, p_transition_id_into_current, p_s_lerp);
        (p_transition_fn_into_current_unclamped, p_transition_id_into_current_unclamped, p_s_lerp_unclamped);
        (p_transition_fn_into_current_precise, p_transition_id_into_current_precise, p_s_lerp_precise);
        (p_transition_fn_into_current_unclamped_precise, p_transition_id_into_current_unclamped_precise, p_s_lerp_unclamped_precise);
        (p_transition_fn_current, p_transition_id_current, p_s_lerp);
        (p_transition_fn_current_unclamped, p_transition_id_current_unclamped, p_s_lerp_unclamped);
        (p_transition_fn_current_precise, p_transition_id_current_precise, p_s_lerp_precise);
        (p_transition_fn_current_unclamped_precise, p_transition_id_current_unclamped_precise, p_s_lerp_unclamped_precise) ].
