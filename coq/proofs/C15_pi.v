Require Import Reals List ZArith Lia Lra Psatz.
From VekLib Require Import Ops ROps LinAlg RLin.
From VekGen Require Import C15_gen.
From VekProofs Require Import C15_spec C15_pa.
Import ListNotations.
Local Open Scope R_scope.

Ltac l_unfold := cbv [polylen seglen bern pts fold_left fold_right map seq INR Nat.add Nat.mul ldeg ldim].
Ltac sum_eq :=
  apply (f_equal (fun x => Ret (@nil Z, [x])));
  repeat (apply f_equal2; [ | apply f_equal; field; lra ]); try reflexivity.

Lemma C15_length_code : C15_length_code_stmt.
Proof.
  unfold C15_length_code_stmt, lcurves. table; intros k a; cbv [ldeg ldim l_progs]; cbv zeta; intros n p Hn;
  (destruct n as [|[|[|[|n]]]]; cbn [nth_error] in Hn; try (destruct n; discriminate Hn); injection Hn as <-);
  rrun_unfold; l_unfold; sum_eq.
Qed.
