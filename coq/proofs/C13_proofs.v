Require Import Reals List ZArith Lra Lia.
From VekLib Require Import Ops ROps LinAlg RLin.
From VekGen Require Import C13_gen.
From VekProofs Require Import C13_spec C13_tac C13_p2 C13_p3 C13_q2 C13_q3 C13_r2 C13_r3 C13_rect.
Lemma C13_aabr : C13_aabr_stmt.
Proof. exact (conj pred2 (conj union2 (conj inter2 (conj expt2 (conj meas2 (conj proj2 (conj colv2 (conj splx2 sply2)))))))). Qed.
Lemma C13_aabb : C13_aabb_stmt.
Proof. exact (conj pred3 (conj union3 (conj inter3 (conj expt3 (conj meas3 (conj proj3 (conj colv3 (conj splx3 (conj sply3 splz3))))))))). Qed.
