(** * C11 — statements: spatial vector functions satisfy their geometric definitions.
    Carrier: the real numbers; every spatial vector type (Vec2/3/4/8/16/32/64, Extent2/3). *)
Require Import Reals List ZArith Lia.
From VekLib Require Import Ops ROps LinAlg RLin RSum.
From VekGen Require Import C11_gen.
Import ListNotations.
Local Open Scope R_scope.

Definition off (a : nat -> R) (o : nat) : nat -> R := fun i => a (o + i)%nat.
Definition vecv (s : list R) : nat -> R := fun i => nth i s 0.
Definition ret1 (r : res (out R)) (Q : R -> Prop) : Prop := exists v, r = Ret ([], [v]) /\ Q v.
Definition returns (r : res (out R)) (n : nat) (Q : (nat -> R) -> Prop) : Prop :=
  exists s, r = Ret ([], s) /\ length s = n /\ Q (vecv s).
Definition flag_iff (r : res (out R)) (P : Prop) : Prop :=
  (r = Ret ([1%Z], []) /\ P) \/ (r = Ret ([0%Z], []) /\ ~ P).
Definition prog_at (l : list prog) (i : nat) : prog := nth i l {| p_nin := 0; p_nodes := []; p_tree := DPanic |}.

(** programs per type: dot, magnitude_squared, magnitude, distance_squared, distance, normalized, normalize,
    normalized_and_get_magnitude, normalize_and_get_magnitude, reflected, face_forward *)
Definition basic_table : list (nat * list prog) :=
  [ (2%nat, [p_vec2_dot; p_vec2_magnitude_squared; p_vec2_magnitude; p_vec2_distance_squared; p_vec2_distance; p_vec2_normalized; p_vec2_normalize; p_vec2_normalized_and_get_magnitude; p_vec2_normalize_and_get_magnitude; p_vec2_reflected; p_vec2_face_forward]);
    (3%nat, [p_vec3_dot; p_vec3_magnitude_squared; p_vec3_magnitude; p_vec3_distance_squared; p_vec3_distance; p_vec3_normalized; p_vec3_normalize; p_vec3_normalized_and_get_magnitude; p_vec3_normalize_and_get_magnitude; p_vec3_reflected; p_vec3_face_forward]);
    (4%nat, [p_vec4_dot; p_vec4_magnitude_squared; p_vec4_magnitude; p_vec4_distance_squared; p_vec4_distance; p_vec4_normalized; p_vec4_normalize; p_vec4_normalized_and_get_magnitude; p_vec4_normalize_and_get_magnitude; p_vec4_reflected; p_vec4_face_forward]);
    (2%nat, [p_extent2_dot; p_extent2_magnitude_squared; p_extent2_magnitude; p_extent2_distance_squared; p_extent2_distance; p_extent2_normalized; p_extent2_normalize; p_extent2_normalized_and_get_magnitude; p_extent2_normalize_and_get_magnitude; p_extent2_reflected; p_extent2_face_forward]);
    (3%nat, [p_extent3_dot; p_extent3_magnitude_squared; p_extent3_magnitude; p_extent3_distance_squared; p_extent3_distance; p_extent3_normalized; p_extent3_normalize; p_extent3_normalized_and_get_magnitude; p_extent3_normalize_and_get_magnitude; p_extent3_reflected; p_extent3_face_forward]);
    (8%nat, [p_vec8_dot; p_vec8_magnitude_squared; p_vec8_magnitude; p_vec8_distance_squared; p_vec8_distance; p_vec8_normalized; p_vec8_normalize; p_vec8_normalized_and_get_magnitude; p_vec8_normalize_and_get_magnitude; p_vec8_reflected; p_vec8_face_forward]);
    (16%nat, [p_vec16_dot; p_vec16_magnitude_squared; p_vec16_magnitude; p_vec16_distance_squared; p_vec16_distance; p_vec16_normalized; p_vec16_normalize; p_vec16_normalized_and_get_magnitude; p_vec16_normalize_and_get_magnitude; p_vec16_reflected; p_vec16_face_forward]) ].
(** try_normalized, is_normalized, is_approx_zero, is_magnitude_close_to, angle_between, refracted *)
Definition heavy_table : list (nat * list prog) :=
  [ (2%nat, [p_vec2_try_normalized; p_vec2_is_normalized; p_vec2_is_approx_zero; p_vec2_is_magnitude_close_to; p_vec2_angle_between; p_vec2_refracted]);
    (3%nat, [p_vec3_try_normalized; p_vec3_is_normalized; p_vec3_is_approx_zero; p_vec3_is_magnitude_close_to; p_vec3_angle_between; p_vec3_refracted]);
    (4%nat, [p_vec4_try_normalized; p_vec4_is_normalized; p_vec4_is_approx_zero; p_vec4_is_magnitude_close_to; p_vec4_angle_between; p_vec4_refracted]);
    (2%nat, [p_extent2_try_normalized; p_extent2_is_normalized; p_extent2_is_approx_zero; p_extent2_is_magnitude_close_to; p_extent2_angle_between; p_extent2_refracted]);
    (3%nat, [p_extent3_try_normalized; p_extent3_is_normalized; p_extent3_is_approx_zero; p_extent3_is_magnitude_close_to; p_extent3_angle_between; p_extent3_refracted]);
    (8%nat, [p_vec8_try_normalized; p_vec8_is_normalized; p_vec8_is_approx_zero; p_vec8_is_magnitude_close_to; p_vec8_angle_between; p_vec8_refracted]) ].

(** ** dot, magnitudes, distances, normalisation, reflection, face_forward — every dimension *)
Definition basic_ok (n : nat) (l : list prog) : Prop :=
  forall k a, let u := off a 0 in let v := off a n in let w := off a (2 * n) in
    ret1 (rrun k a (prog_at l 0)) (fun d => d = dotn n u v) /\
    ret1 (rrun k a (prog_at l 1)) (fun d => d = dotn n u u) /\
    ret1 (rrun k a (prog_at l 2)) (fun d => d = sqrt (dotn n u u) /\ d * d = dotn n u u) /\
    ret1 (rrun k a (prog_at l 3)) (fun d => d = dotn n (fun i => u i - v i) (fun i => u i - v i)) /\
    ret1 (rrun k a (prog_at l 4)) (fun d => d = sqrt (dotn n (fun i => u i - v i) (fun i => u i - v i)) /\
                                             d * d = dotn n (fun i => u i - v i) (fun i => u i - v i)) /\
    (* normalisation: a parallel vector of unit length; the in-place and magnitude-returning forms agree *)
    (0 < dotn n u u ->
       returns (rrun k a (prog_at l 5)) n (fun r => dotn n r r = 1 /\ forall i, (i < n)%nat -> r i * sqrt (dotn n u u) = u i)) /\
    rrun k a (prog_at l 6) = rrun k a (prog_at l 5) /\
    (forall s, rrun k a (prog_at l 5) = Ret ([], s) -> rrun k a (prog_at l 7) = Ret ([], s ++ [sqrt (dotn n u u)])) /\
    rrun k a (prog_at l 8) = rrun k a (prog_at l 7) /\
    (* mirror formula r = v - 2 (v.n) n; for a unit normal it preserves length and flips the normal component *)
    returns (rrun k a (prog_at l 9)) n (fun r =>
       (forall i, (i < n)%nat -> r i = u i - 2 * dotn n u v * v i) /\
       (dotn n v v = 1 -> dotn n r r = dotn n u u /\ dotn n r v = - dotn n u v)) /\
    (* face_forward flips by the sign of reference . incident *)
    returns (rrun k a (prog_at l 10)) n (fun r =>
       (dotn n w v <= 0 -> forall i, (i < n)%nat -> r i = u i) /\ (0 < dotn n w v -> forall i, (i < n)%nat -> r i = - u i)).
Definition C11_basic_stmt : Prop := Forall (fun '(n, l) => basic_ok n l) basic_table.

(** Vec32 / Vec64: the polynomial functions (the remaining ones are produced by the same macro arm as Vec8/Vec16) *)
Definition wide_ok (n : nat) (pd pm pmag pds pdist : prog) : Prop :=
  forall k a, let u := off a 0 in let v := off a n in
    ret1 (rrun k a pd) (fun d => d = dotn n u v) /\ ret1 (rrun k a pm) (fun d => d = dotn n u u) /\
    ret1 (rrun k a pmag) (fun d => d = sqrt (dotn n u u)) /\
    ret1 (rrun k a pds) (fun d => d = dotn n (fun i => u i - v i) (fun i => u i - v i)) /\
    ret1 (rrun k a pdist) (fun d => d = sqrt (dotn n (fun i => u i - v i) (fun i => u i - v i))).
Definition C11_wide_stmt : Prop :=
  wide_ok 32 p_vec32_dot p_vec32_magnitude_squared p_vec32_magnitude p_vec32_distance_squared p_vec32_distance /\
  wide_ok 64 p_vec64_dot p_vec64_magnitude_squared p_vec64_magnitude p_vec64_distance_squared p_vec64_distance.

(** ** the fallible form refuses exactly the near-zero vectors; approximate predicates; angle; refraction *)
Definition heavy_ok (n : nat) (l : list prog) : Prop :=
  forall k a, let u := off a 0 in let v := off a n in
    0 < k Neps -> 4 * k Neps < 1 ->
    (* try_normalized: None iff |u|^2 <= 4 eps, otherwise Some(normalized) *)
    (dotn n u u <= 4 * k Neps -> rrun k a (prog_at l 0) = Ret ([0%Z], [])) /\
    (4 * k Neps < dotn n u u -> exists s, rrun k a (prog_at l 0) = Ret ([1%Z], s) /\ length s = n /\
        dotn n (vecv s) (vecv s) = 1 /\ forall i, (i < n)%nat -> vecv s i * sqrt (dotn n u u) = u i) /\
    flag_iff (rrun k a (prog_at l 2)) (dotn n u u <= 4 * k Neps) /\
    flag_iff (rrun k a (prog_at l 1)) (Rabs (dotn n u u - 1) <= Rmax (dotn n u u) 1 * (4 * k Neps)) /\
    (* is_magnitude_close_to(x), x = a n: |u|^2 and x^2 are equal up to 4 eps, absolutely or relatively *)
    flag_iff (rrun k a (prog_at l 3)) (let m := dotn n u u in let x2 := a n * a n in
        Rabs (m - x2) <= 4 * k Neps \/ Rabs (m - x2) <= Rmax m x2 * (4 * k Neps)) /\
    (* angle_between lies in [0, pi] and its cosine is the clamped dot product of the normalised vectors *)
    ret1 (rrun k a (prog_at l 4)) (fun ang => 0 <= ang <= PI /\
       cos ang = Rmin (Rmax (dotn n (fun i => u i / sqrt (dotn n u u)) (fun i => v i / sqrt (dotn n v v))) (-1)) 1) /\
    (* refraction of a unit incident i = u about a unit normal v with ratio eta = a (2n) *)
    (let eta := a (2 * n)%nat in let c := dotn n v u in let kk := 1 - eta * eta * (1 - c * c) in
     dotn n u u = 1 -> dotn n v v = 1 ->
     (kk < 0 -> returns (rrun k a (prog_at l 5)) n (fun t => forall i, (i < n)%nat -> t i = 0)) /\   (* total internal reflection *)
     (0 <= kk -> returns (rrun k a (prog_at l 5)) n (fun t =>
         dotn n t t = 1 /\                                                                  (* a unit vector *)
         (forall i, (i < n)%nat -> t i - dotn n t v * v i = eta * (u i - c * v i)) /\       (* Snell: tangential part scaled by eta *)
         dotn n t v = - sqrt kk))).                                                        (* pointing into the surface *)
Definition C11_heavy_stmt : Prop := Forall (fun '(n, l) => heavy_ok n l) heavy_table.

(** ** angle_between_degrees (deprecated alias): the angle of [angle_between] converted with 180/pi, on every path *)
Definition degrees_ok (p_rad p_deg : prog) : Prop :=
  forall k a, exists ang, rrun k a p_rad = Ret ([], [ang]) /\ rrun k a p_deg = Ret ([], [ang * (180 / PI)]).
Definition C11_degrees_stmt : Prop :=
  degrees_ok p_vec2_angle_between p_vec2_angle_between_degrees /\ degrees_ok p_vec3_angle_between p_vec3_angle_between_degrees /\
  degrees_ok p_vec4_angle_between p_vec4_angle_between_degrees /\ degrees_ok p_extent2_angle_between p_extent2_angle_between_degrees /\
  degrees_ok p_extent3_angle_between p_extent3_angle_between_degrees /\ degrees_ok p_vec8_angle_between p_vec8_angle_between_degrees.

(** ** 2D: side / areas are the 2D cross product (halved, absolute) *)
Definition cross2 (ax ay bx by_ : R) : R := ax * by_ - ay * bx.
Definition C11_2d_stmt : Prop :=
  forall k a,
    (* determine_side(c; a, b) with c = a[0..2], a = a[2..4], b = a[4..6] *)
    ret1 (rrun k a p_vec2_determine_side) (fun d => d = cross2 (a 4%nat - a 2%nat) (a 5%nat - a 3%nat) (a 0%nat - a 2%nat) (a 1%nat - a 3%nat)) /\
    (* areas of triangle (a, b, c) = a[0..2], a[2..4], a[4..6] *)
    ret1 (rrun k a p_vec2_signed_triangle_area) (fun d => d = cross2 (a 2%nat - a 0%nat) (a 3%nat - a 1%nat) (a 4%nat - a 0%nat) (a 5%nat - a 1%nat) / 2) /\
    ret1 (rrun k a p_vec2_triangle_area) (fun d => d = Rabs (cross2 (a 2%nat - a 0%nat) (a 3%nat - a 1%nat) (a 4%nat - a 0%nat) (a 5%nat - a 1%nat) / 2)).

(** ** 3D cross product: anticommutative, bilinear, orthogonal to both, |a x b|^2 = |a|^2 |b|^2 - (a.b)^2 *)
Definition crossv (u v : nat -> R) : nat -> R :=
  vecv [u 1%nat * v 2%nat - u 2%nat * v 1%nat; u 2%nat * v 0%nat - u 0%nat * v 2%nat; u 0%nat * v 1%nat - u 1%nat * v 0%nat].
Definition C11_cross_stmt : Prop :=
  (forall k a, returns (rrun k a p_vec3_cross) 3 (fun r => forall i, (i < 3)%nat -> r i = crossv (off a 0) (off a 3) i)) /\
  (forall (u v w : nat -> R) (s : R),
     veq 3 (crossv u v) (fun i => - crossv v u i) /\
     veq 3 (crossv (fun i => u i + s * w i) v) (fun i => crossv u v i + s * crossv w v i) /\
     veq 3 (crossv u (fun i => v i + s * w i)) (fun i => crossv u v i + s * crossv u w i) /\
     dotn 3 (crossv u v) u = 0 /\ dotn 3 (crossv u v) v = 0 /\
     dotn 3 (crossv u v) (crossv u v) = dotn 3 u u * dotn 3 v v - dotn 3 u v * dotn 3 u v).

(** ** 4D: homogenisation makes w = 1; point / direction tests *)
Definition near (k : named -> R) (x c : R) : Prop := Rabs (x - c) <= k Neps \/ Rabs (x - c) <= Rmax (Rabs x) (Rabs c) * k Neps.
Definition C11_4d_stmt : Prop :=
  forall k a, 0 < k Neps ->
    (a 3%nat <> 0 -> returns (rrun k a p_vec4_homogenized) 4 (fun r => r 3%nat = 1 /\ forall i, (i < 3)%nat -> r i = a i / a 3%nat)) /\
    rrun k a p_vec4_homogenize = rrun k a p_vec4_homogenized /\
    flag_iff (rrun k a p_vec4_is_point) (near k (a 3%nat) 1) /\
    flag_iff (rrun k a p_vec4_is_direction) (near k (a 3%nat) 0) /\
    flag_iff (rrun k a p_vec4_is_homogeneous) (near k (a 3%nat) 1 \/ near k (a 3%nat) 0).

(** ** spherical interpolation of 3D vectors: hits its endpoints and interpolates lengths linearly *)
Definition C11_slerp_stmt : Prop :=
  forall k a, let u := off a 0 in let v := off a 3 in let t := a 6%nat in
    0 < dotn 3 u u -> 0 < dotn 3 v v ->
    (* not parallel: the angle between them is neither 0 nor pi *)
    Rabs (dotn 3 u v) < sqrt (dotn 3 u u) * sqrt (dotn 3 v v) ->
    returns (rrun k a p_vec3_slerp_unclamped) 3 (fun r =>
      sqrt (dotn 3 r r) = Rabs (sqrt (dotn 3 u u) + t * (sqrt (dotn 3 v v) - sqrt (dotn 3 u u))) /\
      (t = 0 -> forall i, (i < 3)%nat -> r i = u i) /\ (t = 1 -> forall i, (i < 3)%nat -> r i = v i)) /\
    rrun k a p_vec3_trait_slerp_unclamped = rrun k a p_vec3_slerp_unclamped.

(** Vec3::slerp is slerp_unclamped at the factor clamped to [0,1] *)
Definition upd (a : nat -> R) (i : nat) (x : R) : nat -> R := fun j => if Nat.eqb j i then x else a j.
Definition C11_slerp_clamped_stmt : Prop :=
  forall k a, rrun k a p_vec3_slerp = rrun k (upd a 6 (Rmin (Rmax (a 6%nat) 0) 1)) p_vec3_slerp_unclamped.
