Require Import Reals List ZArith Lra Lia Nsatz.
From VekLib Require Import Ops ROps LinAlg RLin.
From VekGen Require Import C06_gen.
From VekProofs Require Import C06_spec C06_tac.
Import ListNotations.
Local Open Scope R_scope.

Lemma C06_det_leibniz : C06_det_leibniz_stmt.
Proof.
  unfold C06_det_leibniz_stmt, det_table. table; intros k a; rrun_unfold; c06_unfold; do 3 f_equal; ring.
Qed.

Lemma C06_det_transpose : C06_det_transpose_stmt.
Proof. intros A. repeat split; rlin_unfold; ring. Qed.

Lemma C06_det_mul : C06_det_mul_stmt.
Proof. intros A B. repeat split; rlin_unfold; ring. Qed.

(** X = (Y M) X = Y (M X) = Y, entry by entry *)
Lemma C06_inverse_unique : C06_inverse_unique_stmt.
Proof.
  intros M X Y [HMX _] [_ HYM].
  inst_meq4 HMX; inst_meq4 HYM; clear HMX HYM.
  repeat match goal with H : _ = _ |- _ => revert H end. rlin_unfold. intros.
  meq_cases; nsatz.
Qed.

Lemma Rdet4_ext A B : meq 4 A B -> Rdet 4 A = Rdet 4 B.
Proof. intros H. rlin_unfold. rewrite !H by lia. reflexivity. Qed.

Lemma C06_invertible_det : C06_invertible_det_stmt.
Proof.
  intros M X [HMX _] Hd.
  pose proof (C06_det_mul M X) as (_ & _ & Hm).
  rewrite (Rdet4_ext _ _ HMX), Hd in Hm.
  revert Hm. rlin_unfold. lra.
Qed.
