Require Import Reals List ZArith Lra Lia Nsatz.
From VekLib Require Import Ops ROps LinAlg RLin.
From VekGen Require Import C04_gen.
From VekProofs Require Import C04_spec C04_tac.
Import ListNotations.
Local Open Scope R_scope.

Ltac prep_axis Hnz :=
  let Hr0 := fresh "Hr0" in let Hrr := fresh "Hrr" in
  destruct (norm3_facts _ Hnz) as [Hr0 Hrr];
  revert Hr0 Hrr; cbv [unit3 norm3 off Nat.add]; intros Hr0 Hrr;
  let r := fresh "r" in match type of Hr0 with 0 < sqrt ?e => set (r := sqrt e) in * end; clearbody r.

(** cos t = 1 - 2 sin^2(t/2), sin t = 2 sin(t/2) cos(t/2), as polynomial facts on fresh variables *)
Ltac half_angle t :=
  let E := fresh "E" in assert (E : t = 2 * (t / (1 + 1))) by field;
  let H1 := fresh "Hc2" in let H2 := fresh "Hs2" in let H3 := fresh "Hh" in
  pose proof (cos_2a_sin (t / (1 + 1))) as H1; pose proof (sin_2a (t / (1 + 1))) as H2; pose proof (sin2_cos2 (t / (1 + 1))) as H3;
  rewrite <- E in H1, H2; unfold Rsqr in H3; clear E;
  let sh := fresh "sh" in let ch := fresh "ch" in let s := fresh "s" in let c := fresh "c" in
  set (sh := sin (t / (1 + 1))) in *; set (ch := cos (t / (1 + 1))) in *; set (s := sin t) in *; set (c := cos t) in *;
  clearbody sh ch s c.

Ltac solve_rot3d :=
  intros k a Hnz; eexists; split; [ rrun_unfold; reflexivity | split; [ reflexivity | ] ];
  meq_cases; c04_unfold;
  first [ reflexivity
        | prep_axis Hnz; half_angle (a 0%nat); (field_simplify_eq; [ | lra ]); cbv [Rpow_def.pow]; clear_noneq; nsatz ].

Lemma C04_rotation_3d : C04_rotation_3d_stmt.
Proof. unfold C04_rotation_3d_stmt, rot3d_table. table; solve_rot3d. Qed.
