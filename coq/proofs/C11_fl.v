(** * C11, floating-point clause for normalisation: "returns a parallel vector of unit length".
    [Vec3::normalized] run under the rounded interpretation of lib/FlOps.v (every operation, the square root included,
    rounded to nearest in precision 53; overflow/underflow not modelled): for every non-zero real vector the squared
    length of the computed result is within 8u of 1, u = 2^-53. *)
Require Import Reals List ZArith Lra Psatz.
From Flocq Require Import Raux.
From VekLib Require Import Ops ROps FlOps.
From VekGen Require Import C11_gen.
Import ListNotations.
Local Open Scope R_scope.

Definition C11_float_normalized_stmt : Prop :=
  forall k a, let x := a 0%nat in let y := a 1%nat in let z := a 2%nat in
    0 < x * x + y * y + z * z ->
    exists n0 n1 n2, run (Rfl_ops k) (noF 0) a p_vec3_normalized = Ret ([], [n0; n1; n2]) /\
      Rabs (n0 * n0 + n1 * n1 + n2 * n2 - 1) <= 8 * uu.

Lemma lo_mul L a l c : 0 <= L <= a -> 0 <= l <= c -> L * l <= a * c.
Proof. intros [H1 H2] [H3 H4]. apply Rmult_le_compat; lra. Qed.
Lemma d_bounds d : Rabs d <= uu -> 1 - uu <= 1 + d <= 1 + uu.
Proof. intros H. apply Rabs_le_inv in H. lra. Qed.

Lemma C11_float_normalized : C11_float_normalized_stmt.
Proof.
  intros k a x y z HS. pose proof uu_small as Hu.
  set (X := x * x). set (Y := y * y). set (Z := z * z).
  assert (HX : 0 <= X) by (unfold X; nra). assert (HY : 0 <= Y) by (unfold Y; nra). assert (HZ : 0 <= Z) by (unfold Z; nra).
  fold X Y Z in HS. set (S := X + Y + Z) in *.
  destruct (rnd_rel X) as (d0 & H0 & E0). destruct (rnd_rel Y) as (d1 & H1 & E1). destruct (rnd_rel Z) as (d2 & H2 & E2).
  destruct (rnd_rel (rnd X + rnd Y)) as (d3 & H3 & E3).
  destruct (rnd_rel (rnd (rnd X + rnd Y) + rnd Z)) as (d4 & H4 & E4).
  set (s2 := rnd (rnd (rnd X + rnd Y) + rnd Z)) in *.
  destruct (rnd_rel (sqrt s2)) as (d5 & H5 & E5).
  set (m := rnd (sqrt s2)) in *.
  destruct (rnd_rel (x / m)) as (e0 & G0 & F0). destruct (rnd_rel (y / m)) as (e1 & G1 & F1). destruct (rnd_rel (z / m)) as (e2 & G2 & F2).
  exists (rnd (x / m)), (rnd (y / m)), (rnd (z / m)).
  split; [ reflexivity | ].
  pose proof (d_bounds _ H0) as B0. pose proof (d_bounds _ H1) as B1. pose proof (d_bounds _ H2) as B2.
  pose proof (d_bounds _ H3) as B3. pose proof (d_bounds _ H4) as B4. pose proof (d_bounds _ H5) as B5.
  pose proof (d_bounds _ G0) as C0. pose proof (d_bounds _ G1) as C1. pose proof (d_bounds _ G2) as C2.
  set (lo := 1 - uu) in *. set (hi := 1 + uu) in *. assert (Hlo : 0 < lo) by (unfold lo; lra). assert (Hhi : 0 < hi) by (unfold hi; lra).
  assert (Llo : lo * lo <= lo) by (unfold lo; nra). assert (Lhi : hi <= hi * hi) by (unfold hi; nra). assert (L1 : lo <= 1 <= hi) by (unfold lo, hi; lra).
  (* the rounded sum of squares is S up to three relative errors *)
  assert (Es2 : s2 = ((X * (1 + d0) + Y * (1 + d1)) * (1 + d3) + Z * (1 + d2)) * (1 + d4)).
  { rewrite E4, E3, E0, E1, E2. reflexivity. }
  assert (A1 : (X + Y) * lo <= X * (1 + d0) + Y * (1 + d1) <= (X + Y) * hi).
  { assert (X * lo <= X * (1 + d0) <= X * hi) by (split; apply Rmult_le_compat_l; lra). assert (Y * lo <= Y * (1 + d1) <= Y * hi) by (split; apply Rmult_le_compat_l; lra). lra. }
  assert (A1p : 0 <= (X + Y) * lo) by (apply Rmult_le_pos; lra).
  assert (A2 : (X + Y) * lo * lo <= (X * (1 + d0) + Y * (1 + d1)) * (1 + d3) <= (X + Y) * hi * hi).
  { split; [ apply lo_mul; lra | apply Rmult_le_compat; lra ]. }
  assert (A3 : S * (lo * lo) <= (X * (1 + d0) + Y * (1 + d1)) * (1 + d3) + Z * (1 + d2) <= S * (hi * hi)).
  { unfold S. assert (Z * (lo * lo) <= Z * (1 + d2)) by (apply Rmult_le_compat_l; lra).
    assert (Z * (1 + d2) <= Z * (hi * hi)) by (apply Rmult_le_compat_l; lra). lra. }
  assert (LL0 : 0 < lo * lo) by (apply Rmult_lt_0_compat; lra). assert (HH0 : 0 < hi * hi) by (apply Rmult_lt_0_compat; lra).
  assert (A3p : 0 <= S * (lo * lo)) by (apply Rmult_le_pos; lra).
  assert (A4 : S * (lo * lo) * lo <= s2 <= S * (hi * hi) * hi).
  { rewrite Es2. split; [ apply lo_mul; lra | apply Rmult_le_compat; lra ]. }
  assert (Hs2 : 0 < s2) by (apply Rlt_le_trans with (S * (lo * lo) * lo); [ repeat apply Rmult_lt_0_compat; lra | lra ]).
  (* m^2 = s2 (1+d5)^2 *)
  assert (Em : m * m = s2 * ((1 + d5) * (1 + d5))).
  { rewrite E5. replace (sqrt s2 * (1 + d5) * (sqrt s2 * (1 + d5))) with (sqrt s2 * sqrt s2 * ((1 + d5) * (1 + d5))) by ring.
    rewrite sqrt_sqrt by lra. reflexivity. }
  assert (Hm : 0 < m) by (rewrite E5; apply Rmult_lt_0_compat; [ apply sqrt_lt_R0; exact Hs2 | lra ]).
  assert (M2 : S * (lo * lo) * lo * (lo * lo) <= m * m <= S * (hi * hi) * hi * (hi * hi)).
  { assert (Q5 : lo * lo <= (1 + d5) * (1 + d5) <= hi * hi) by (split; [ apply lo_mul; lra | apply Rmult_le_compat; lra ]).
    assert (0 <= S * (lo * lo) * lo) by (apply Rmult_le_pos; lra).
    rewrite Em. split; [ apply lo_mul; lra | apply Rmult_le_compat; lra ]. }
  (* the squared length of the result *)
  rewrite F0, F1, F2.
  set (N := X * ((1 + e0) * (1 + e0)) + Y * ((1 + e1) * (1 + e1)) + Z * ((1 + e2) * (1 + e2))).
  assert (EN : x / m * (1 + e0) * (x / m * (1 + e0)) + y / m * (1 + e1) * (y / m * (1 + e1)) + z / m * (1 + e2) * (z / m * (1 + e2)) = N / (m * m)).
  { unfold N, X, Y, Z. field. lra. }
  rewrite EN.
  assert (N1 : S * (lo * lo) <= N <= S * (hi * hi)).
  { unfold N, S.
    assert (Q0 : lo * lo <= (1 + e0) * (1 + e0) <= hi * hi) by (split; [ apply lo_mul; lra | apply Rmult_le_compat; lra ]).
    assert (Q1 : lo * lo <= (1 + e1) * (1 + e1) <= hi * hi) by (split; [ apply lo_mul; lra | apply Rmult_le_compat; lra ]).
    assert (Q2 : lo * lo <= (1 + e2) * (1 + e2) <= hi * hi) by (split; [ apply lo_mul; lra | apply Rmult_le_compat; lra ]).
    assert (X * (lo * lo) <= X * ((1 + e0) * (1 + e0)) <= X * (hi * hi)) by (split; apply Rmult_le_compat_l; lra).
    assert (Y * (lo * lo) <= Y * ((1 + e1) * (1 + e1)) <= Y * (hi * hi)) by (split; apply Rmult_le_compat_l; lra).
    assert (Z * (lo * lo) <= Z * ((1 + e2) * (1 + e2)) <= Z * (hi * hi)) by (split; apply Rmult_le_compat_l; lra).
    lra. }
  assert (Hmm : 0 < m * m) by (apply Rmult_lt_0_compat; exact Hm).
  apply Rabs_le. 
  (* numeric facts about lo, hi *)
  assert (P1 : hi * hi <= (1 + 8 * uu) * (lo * lo * lo * (lo * lo))).
  { unfold lo, hi. assert (Uu2 : 0 <= uu * uu <= uu / 1000) by nra.
    assert (Ll2 : 1 - 2 * uu <= (1 - uu) * (1 - uu)) by nra.
    assert (Ll3 : 1 - 3 * uu <= (1 - uu) * (1 - uu) * (1 - uu)) by nra.
    assert (Ll5 : 1 - 5 * uu <= (1 - uu) * (1 - uu) * (1 - uu) * ((1 - uu) * (1 - uu))) by nra.
    assert (Hh2 : (1 + uu) * (1 + uu) <= 1 + 2 * uu + uu / 1000) by nra.
    apply Rle_trans with (1 + 2 * uu + uu / 1000); [ exact Hh2 | ].
    apply Rle_trans with ((1 + 8 * uu) * (1 - 5 * uu)); [ nra | apply Rmult_le_compat_l; lra ]. }
  assert (P2 : (1 - 8 * uu) * (hi * hi * hi * (hi * hi)) <= lo * lo).
  { unfold lo, hi. assert (Uu2 : 0 <= uu * uu <= uu / 1000) by nra.
    assert (Hh2 : (1 + uu) * (1 + uu) <= 1 + 2 * uu + uu / 1000) by nra.
    assert (Hh2p : 1 <= (1 + uu) * (1 + uu)) by nra.
    assert (Hh3 : (1 + uu) * (1 + uu) * (1 + uu) <= 1 + 3 * uu + uu / 100).
    { apply Rle_trans with ((1 + 2 * uu + uu / 1000) * (1 + uu)); [ apply Rmult_le_compat_r; lra | nra ]. }
    assert (Hh3p : 1 <= (1 + uu) * (1 + uu) * (1 + uu)) by nra.
    assert (Hh5 : (1 + uu) * (1 + uu) * (1 + uu) * ((1 + uu) * (1 + uu)) <= 1 + 6 * uu).
    { apply Rle_trans with ((1 + 3 * uu + uu / 100) * (1 + 2 * uu + uu / 1000)); [ apply Rmult_le_compat; lra | nra ]. }
    apply Rle_trans with ((1 - 8 * uu) * (1 + 6 * uu)); [ apply Rmult_le_compat_l; lra | nra ]. }
  assert (K1 : (1 - 8 * uu) * (m * m) <= (1 - 8 * uu) * (S * (hi * hi) * hi * (hi * hi))) by (apply Rmult_le_compat_l; lra).
  assert (K2 : (1 + 8 * uu) * (S * (lo * lo) * lo * (lo * lo)) <= (1 + 8 * uu) * (m * m)) by (apply Rmult_le_compat_l; lra).
  assert (K3 : S * ((1 - 8 * uu) * (hi * hi * hi * (hi * hi))) <= S * (lo * lo)) by (apply Rmult_le_compat_l; lra).
  assert (K4 : S * (hi * hi) <= S * ((1 + 8 * uu) * (lo * lo * lo * (lo * lo)))) by (apply Rmult_le_compat_l; lra).
  split.
  - apply Rmult_le_reg_r with (m * m); [ exact Hmm | ].
    replace ((N / (m * m) - 1) * (m * m)) with (N - m * m) by (field; lra).
    lra.
  - apply Rmult_le_reg_r with (m * m); [ exact Hmm | ].
    replace ((N / (m * m) - 1) * (m * m)) with (N - m * m) by (field; lra).
    lra.
Qed.
