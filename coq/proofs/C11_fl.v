(** * C11, floating-point clause for normalisation: "returns a parallel vector of unit length".
    [Vec3::normalized] run under the rounded interpretation of lib/FlOps.v (every operation, the square root included,
    rounded to nearest in precision 53; overflow/underflow not modelled): for every non-zero real vector the squared
    length of the computed result is within 8u of 1, u = 2^-53. *)
Require Import Reals List ZArith Lra Psatz.
From Flocq Require Import Raux.
From VekLib Require Import Ops ROps FlOps.
From VekGen Require Import C11_gen.
Import ListNotations.
Local Open Scope R_scope.

Definition C11_float_normalized_stmt : Prop :=
  forall k a, let x := a 0%nat in let y := a 1%nat in let z := a 2%nat in
    0 < x * x + y * y + z * z ->
    exists n0 n1 n2, run (Rfl_ops k) (noF 0) a p_vec3_normalized = Ret ([], [n0; n1; n2]) /\
      Rabs (n0 * n0 + n1 * n1 + n2 * n2 - 1) <= 8 * uu.

Lemma lo_mul L a l c : 0 <= L <= a -> 0 <= l <= c -> L * l <= a * c.
Proof. intros [H1 H2] [H3 H4]. apply Rmult_le_compat; lra. Qed.
Lemma d_bounds d : Rabs d <= uu -> 1 - uu <= 1 + d <= 1 + uu.
Proof. intros H. apply Rabs_le_inv in H. lra. Qed.

Lemma C11_float_normalized : C11_float_normalized_stmt.
Proof.
  intros k a x y z HS. pose proof uu_small as Hu.
  set (X := x * x). set (Y := y * y). set (Z := z * z).
  assert (HX : 0 <= X) by (unfold X; nra). assert (HY : 0 <= Y) by (unfold Y; nra). assert (HZ : 0 <= Z) by (unfold Z; nra).
  fold X Y Z in HS. set (S := X + Y + Z) in *.
  destruct (rnd_rel X) as (d0 & H0 & E0). destruct (rnd_rel Y) as (d1 & H1 & E1). destruct (rnd_rel Z) as (d2 & H2 & E2).
  destruct (rnd_rel (rnd X + rnd Y)) as (d3 & H3 & E3).
  destruct (rnd_rel (rnd (rnd X + rnd Y) + rnd Z)) as (d4 & H4 & E4).
  set (s2 := rnd (rnd (rnd X + rnd Y) + rnd Z)) in *.
  destruct (rnd_rel (sqrt s2)) as (d5 & H5 & E5).
  set (m := rnd (sqrt s2)) in *.
  destruct (rnd_rel (x / m)) as (e0 & G0 & F0). destruct (rnd_rel (y / m)) as (e1 & G1 & F1). destruct (rnd_rel (z / m)) as (e2 & G2 & F2).
  exists (rnd (x / m)), (rnd (y / m)), (rnd (z / m)).
  split; [ reflexivity | ].
  pose proof (d_bounds _ H0) as B0. pose proof (d_bounds _ H1) as B1. pose proof (d_bounds _ H2) as B2.
  pose proof (d_bounds _ H3) as B3. pose proof (d_bounds _ H4) as B4. pose proof (d_bounds _ H5) as B5.
  pose proof (d_bounds _ G0) as C0. pose proof (d_bounds _ G1) as C1. pose proof (d_bounds _ G2) as C2.
  set (lo := 1 - uu) in *. set (hi := 1 + uu) in *. assert (Hlo : 0 < lo) by (unfold lo; lra). assert (Hhi : 0 < hi) by (unfold hi; lra).
  assert (Llo : lo * lo <= lo) by (unfold lo; nra). assert (Lhi : hi <= hi * hi) by (unfold hi; nra). assert (L1 : lo <= 1 <= hi) by (unfold lo, hi; lra).
  (* the rounded sum of squares is S up to three relative errors *)
  assert (Es2 : s2 = ((X * (1 + d0) + Y * (1 + d1)) * (1 + d3) + Z * (1 + d2)) * (1 + d4)).
  { rewrite E4, E3, E0, E1, E2. reflexivity. }
  assert (A1 : (X + Y) * lo <= X * (1 + d0) + Y * (1 + d1) <= (X + Y) * hi).
  { assert (X * lo <= X * (1 + d0) <= X * hi) by (split; apply Rmult_le_compat_l; lra). assert (Y * lo <= Y * (1 + d1) <= Y * hi) by (split; apply Rmult_le_compat_l; lra). lra. }
  assert (A1p : 0 <= (X + Y) * lo) by (apply Rmult_le_pos; lra).
  assert (A2 : (X + Y) * lo * lo <= (X * (1 + d0) + Y * (1 + d1)) * (1 + d3) <= (X + Y) * hi * hi).
  { split; [ apply lo_mul; lra | apply Rmult_le_compat; lra ]. }
  assert (A3 : S * (lo * lo) <= (X * (1 + d0) + Y * (1 + d1)) * (1 + d3) + Z * (1 + d2) <= S * (hi * hi)).
  { unfold S. assert (Z * (lo * lo) <= Z * (1 + d2)) by (apply Rmult_le_compat_l; lra).
    assert (Z * (1 + d2) <= Z * (hi * hi)) by (apply Rmult_le_compat_l; lra). lra. }
  assert (LL0 : 0 < lo * lo) by (apply Rmult_lt_0_compat; lra). assert (HH0 : 0 < hi * hi) by (apply Rmult_lt_0_compat; lra).
  assert (A3p : 0 <= S * (lo * lo)) by (apply Rmult_le_pos; lra).
  assert (A4 : S * (lo * lo) * lo <= s2 <= S * (hi * hi) * hi).
  { rewrite Es2. split; [ apply lo_mul; lra | apply Rmult_le_compat; lra ]. }
  assert (Hs2 : 0 < s2) by (apply Rlt_le_trans with (S * (lo * lo) * lo); [ repeat apply Rmult_lt_0_compat; lra | lra ]).
  (* m^2 = s2 (1+d5)^2 *)
  assert (Em : m * m = s2 * ((1 + d5) * (1 + d5))).
  { rewrite E5. replace (sqrt s2 * (1 + d5) * (sqrt s2 * (1 + d5))) with (sqrt s2 * sqrt s2 * ((1 + d5) * (1 + d5))) by ring.
    rewrite sqrt_sqrt by lra. reflexivity. }
  assert (Hm : 0 < m) by (rewrite E5; apply Rmult_lt_0_compat; [ apply sqrt_lt_R0; exact Hs2 | lra ]).
  assert (M2 : S * (lo * lo) * lo * (lo * lo) <= m * m <= S * (hi * hi) * hi * (hi * hi)).
  { assert (Q5 : lo * lo <= (1 + d5) * (1 + d5) <= hi * hi) by (split; [ apply lo_mul; lra | apply Rmult_le_compat; lra ]).
    assert (0 <= S * (lo * lo) * lo) by (apply Rmult_le_pos; lra).
    rewrite Em. split; [ apply lo_mul; lra | apply Rmult_le_compat; lra ]. }
  (* the squared length of the result *)
  rewrite F0, F1, F2.
  set (N := X * ((1 + e0) * (1 + e0)) + Y * ((1 + e1) * (1 + e1)) + Z * ((1 + e2) * (1 + e2))).
  assert (EN : x / m * (1 + e0) * (x / m * (1 + e0)) + y / m * (1 + e1) * (y / m * (1 + e1)) + z / m * (1 + e2) * (z / m * (1 + e2)) = N / (m * m)).
  { unfold N, X, Y, Z. field. lra. }
  rewrite EN.
  assert (N1 : S * (lo * lo) <= N <= S * (hi * hi)).
  { unfold N, S.
    assert (Q0 : lo * lo <= (1 + e0) * (1 + e0) <= hi * hi) by (split; [ apply lo_mul; lra | apply Rmult_le_compat; lra ]).
    assert (Q1 : lo * lo <= (1 + e1) * (1 + e1) <= hi * hi) by (split; [ apply lo_mul; lra | apply Rmult_le_compat; lra ]).
    assert (Q2 : lo * lo <= (1 + e2) * (1 + e2) <= hi * hi) by (split; [ apply lo_mul; lra | apply Rmult_le_compat; lra ]).
    assert (X * (lo * lo) <= X * ((1 + e0) * (1 + e0)) <= X * (hi * hi)) by (split; apply Rmult_le_compat_l; lra).
    assert (Y * (lo * lo) <= Y * ((1 + e1) * (1 + e1)) <= Y * (hi * hi)) by (split; apply Rmult_le_compat_l; lra).
    assert (Z * (lo * lo) <= Z * ((1 + e2) * (1 + e2)) <= Z * (hi * hi)) by (split; apply Rmult_le_compat_l; lra).
    lra. }
  assert (Hmm : 0 < m * m) by (apply Rmult_lt_0_compat; exact Hm).
  apply Rabs_le. 
  (* numeric facts about lo, hi *)
  assert (P1 : hi * hi <= (1 + 8 * uu) * (lo * lo * lo * (lo * lo))).
  { unfold lo, hi. assert (Uu2 : 0 <= uu * uu <= uu / 1000) by nra.
    assert (Ll2 : 1 - 2 * uu <= (1 - uu) * (1 - uu)) by nra.
    assert (Ll3 : 1 - 3 * uu <= (1 - uu) * (1 - uu) * (1 - uu)) by nra.
    assert (Ll5 : 1 - 5 * uu <= (1 - uu) * (1 - uu) * (1 - uu) * ((1 - uu) * (1 - uu))) by nra.
    assert (Hh2 : (1 + uu) * (1 + uu) <= 1 + 2 * uu + uu / 1000) by nra.
    apply Rle_trans with (1 + 2 * uu + uu / 1000); [ exact Hh2 | ].
    apply Rle_trans with ((1 + 8 * uu) * (1 - 5 * uu)); [ nra | apply Rmult_le_compat_l; lra ]. }
  assert (P2 : (1 - 8 * uu) * (hi * hi * hi * (hi * hi)) <= lo * lo).
  { unfold lo, hi. assert (Uu2 : 0 <= uu * uu <= uu / 1000) by nra.
    assert (Hh2 : (1 + uu) * (1 + uu) <= 1 + 2 * uu + uu / 1000) by nra.
    assert (Hh2p : 1 <= (1 + uu) * (1 + uu)) by nra.
    assert (Hh3 : (1 + uu) * (1 + uu) * (1 + uu) <= 1 + 3 * uu + uu / 100).
    { apply Rle_trans with ((1 + 2 * uu + uu / 1000) * (1 + uu)); [ apply Rmult_le_compat_r; lra | nra ]. }
    assert (Hh3p : 1 <= (1 + uu) * (1 + uu) * (1 + uu)) by nra.
    assert (Hh5 : (1 + uu) * (1 + uu) * (1 + uu) * ((1 + uu) * (1 + uu)) <= 1 + 6 * uu).
    { apply Rle_trans with ((1 + 3 * uu + uu / 100) * (1 + 2 * uu + uu / 1000)); [ apply Rmult_le_compat; lra | nra ]. }
    apply Rle_trans with ((1 - 8 * uu) * (1 + 6 * uu)); [ apply Rmult_le_compat_l; lra | nra ]. }
  assert (K1 : (1 - 8 * uu) * (m * m) <= (1 - 8 * uu) * (S * (hi * hi) * hi * (hi * hi))) by (apply Rmult_le_compat_l; lra).
  assert (K2 : (1 + 8 * uu) * (S * (lo * lo) * lo * (lo * lo)) <= (1 + 8 * uu) * (m * m)) by (apply Rmult_le_compat_l; lra).
  assert (K3 : S * ((1 - 8 * uu) * (hi * hi * hi * (hi * hi))) <= S * (lo * lo)) by (apply Rmult_le_compat_l; lra).
  assert (K4 : S * (hi * hi) <= S * ((1 + 8 * uu) * (lo * lo * lo * (lo * lo)))) by (apply Rmult_le_compat_l; lra).
  split.
  - apply Rmult_le_reg_r with (m * m); [ exact Hmm | ].
    replace ((N / (m * m) - 1) * (m * m)) with (N - m * m) by (field; lra).
    lra.
  - apply Rmult_le_reg_r with (m * m); [ exact Hmm | ].
    replace ((N / (m * m) - 1) * (m * m)) with (N - m * m) by (field; lra).
    lra.
Qed.

(** ** the same for Vec2 and Vec4 (bound 9u), through a common tail lemma *)
Lemma norm_tail S s2 N d5 : 0 < S ->
  let lo := 1 - uu in let hi := 1 + uu in
  S * (lo * lo * (lo * lo)) <= s2 <= S * (hi * hi * (hi * hi)) -> S * (lo * lo) <= N <= S * (hi * hi) -> Rabs d5 <= uu ->
  let m := sqrt s2 * (1 + d5) in 0 < m /\ Rabs (N / (m * m) - 1) <= 9 * uu.
Proof.
  intros HS lo hi A4 N1 H5 m. pose proof uu_small as Hu. pose proof (d_bounds _ H5) as B5. fold lo hi in B5.
  assert (Hlo : 0 < lo) by (unfold lo; lra). assert (Hhi : 0 < hi) by (unfold hi; lra).
  assert (LL0 : 0 < lo * lo) by (apply Rmult_lt_0_compat; lra). assert (HH0 : 0 < hi * hi) by (apply Rmult_lt_0_compat; lra).
  assert (L4 : 0 < lo * lo * (lo * lo)) by (apply Rmult_lt_0_compat; lra).
  assert (Hs2 : 0 < s2) by (apply Rlt_le_trans with (S * (lo * lo * (lo * lo))); [ apply Rmult_lt_0_compat; lra | lra ]).
  assert (Em : m * m = s2 * ((1 + d5) * (1 + d5))).
  { unfold m. replace (sqrt s2 * (1 + d5) * (sqrt s2 * (1 + d5))) with (sqrt s2 * sqrt s2 * ((1 + d5) * (1 + d5))) by ring.
    rewrite sqrt_sqrt by lra. reflexivity. }
  assert (Hm : 0 < m) by (unfold m; apply Rmult_lt_0_compat; [ apply sqrt_lt_R0; exact Hs2 | lra ]).
  assert (Q5 : lo * lo <= (1 + d5) * (1 + d5) <= hi * hi) by (split; [ apply lo_mul; lra | apply Rmult_le_compat; lra ]).
  assert (M2 : S * (lo * lo * (lo * lo)) * (lo * lo) <= m * m <= S * (hi * hi * (hi * hi)) * (hi * hi)).
  { assert (0 <= S * (lo * lo * (lo * lo))) by (apply Rmult_le_pos; lra).
    rewrite Em. split; [ apply lo_mul; lra | apply Rmult_le_compat; lra ]. }
  assert (Hmm : 0 < m * m) by (apply Rmult_lt_0_compat; exact Hm).
  split; [ exact Hm | ].
  assert (P1 : hi * hi <= (1 + 9 * uu) * (lo * lo * (lo * lo) * (lo * lo))).
  { unfold lo, hi. assert (Uu2 : 0 <= uu * uu <= uu / 1000) by nra.
    assert (Ll2 : 1 - 2 * uu <= (1 - uu) * (1 - uu) <= 1) by nra.
    assert (Ll4 : 1 - 4 * uu <= (1 - uu) * (1 - uu) * ((1 - uu) * (1 - uu)) <= 1) by nra.
    assert (Ll6 : 1 - 6 * uu <= (1 - uu) * (1 - uu) * ((1 - uu) * (1 - uu)) * ((1 - uu) * (1 - uu))) by nra.
    assert (Hh2 : (1 + uu) * (1 + uu) <= 1 + 2 * uu + uu / 1000) by nra.
    apply Rle_trans with (1 + 2 * uu + uu / 1000); [ exact Hh2 | ].
    apply Rle_trans with ((1 + 9 * uu) * (1 - 6 * uu)); [ nra | apply Rmult_le_compat_l; lra ]. }
  assert (P2 : (1 - 9 * uu) * (hi * hi * (hi * hi) * (hi * hi)) <= lo * lo).
  { unfold lo, hi. assert (Uu2 : 0 <= uu * uu <= uu / 1000) by nra.
    assert (Hh2 : 1 <= (1 + uu) * (1 + uu) <= 1 + 2 * uu + uu / 1000) by nra.
    assert (Hh4 : 1 <= (1 + uu) * (1 + uu) * ((1 + uu) * (1 + uu)) <= 1 + 4 * uu + uu / 100).
    { split; [ nra | apply Rle_trans with ((1 + 2 * uu + uu / 1000) * (1 + 2 * uu + uu / 1000)); [ apply Rmult_le_compat; lra | nra ] ]. }
    assert (Hh6 : (1 + uu) * (1 + uu) * ((1 + uu) * (1 + uu)) * ((1 + uu) * (1 + uu)) <= 1 + 6 * uu + uu / 10).
    { apply Rle_trans with ((1 + 4 * uu + uu / 100) * (1 + 2 * uu + uu / 1000)); [ apply Rmult_le_compat; lra | nra ]. }
    apply Rle_trans with ((1 - 9 * uu) * (1 + 6 * uu + uu / 10)); [ apply Rmult_le_compat_l; lra | nra ]. }
  assert (K1 : (1 - 9 * uu) * (m * m) <= (1 - 9 * uu) * (S * (hi * hi * (hi * hi)) * (hi * hi))) by (apply Rmult_le_compat_l; lra).
  assert (K2 : (1 + 9 * uu) * (S * (lo * lo * (lo * lo)) * (lo * lo)) <= (1 + 9 * uu) * (m * m)) by (apply Rmult_le_compat_l; lra).
  assert (K3 : S * ((1 - 9 * uu) * (hi * hi * (hi * hi) * (hi * hi))) <= S * (lo * lo)) by (apply Rmult_le_compat_l; lra).
  assert (K4 : S * (hi * hi) <= S * ((1 + 9 * uu) * (lo * lo * (lo * lo) * (lo * lo)))) by (apply Rmult_le_compat_l; lra).
  apply Rabs_le. split.
  - apply Rmult_le_reg_r with (m * m); [ exact Hmm | ].
    replace ((N / (m * m) - 1) * (m * m)) with (N - m * m) by (field; lra). lra.
  - apply Rmult_le_reg_r with (m * m); [ exact Hmm | ].
    replace ((N / (m * m) - 1) * (m * m)) with (N - m * m) by (field; lra). lra.
Qed.

Definition C11_float_normalized24_stmt : Prop :=
  (forall k a, let x := a 0%nat in let y := a 1%nat in 0 < x * x + y * y ->
     exists n0 n1, run (Rfl_ops k) (noF 0) a p_vec2_normalized = Ret ([], [n0; n1]) /\ Rabs (n0 * n0 + n1 * n1 - 1) <= 9 * uu) /\
  (forall k a, let x := a 0%nat in let y := a 1%nat in let z := a 2%nat in let w := a 3%nat in 0 < x * x + y * y + z * z + w * w ->
     exists n0 n1 n2 n3, run (Rfl_ops k) (noF 0) a p_vec4_normalized = Ret ([], [n0; n1; n2; n3]) /\
       Rabs (n0 * n0 + n1 * n1 + n2 * n2 + n3 * n3 - 1) <= 9 * uu).


Lemma C11_float_normalized24 : C11_float_normalized24_stmt.
Proof.
  pose proof uu_small as Hu. set (lo := 1 - uu). set (hi := 1 + uu).
  assert (Hlo : 0 < lo) by (unfold lo; lra). assert (Hhi : 0 < hi) by (unfold hi; lra).
  assert (Llo : lo * lo <= lo) by (unfold lo; nra). assert (Lhi : hi <= hi * hi) by (unfold hi; nra). assert (L1 : lo <= 1 <= hi) by (unfold lo, hi; lra).
  assert (LL0 : 0 < lo * lo) by (apply Rmult_lt_0_compat; lra). assert (HH0 : 0 < hi * hi) by (apply Rmult_lt_0_compat; lra).
  assert (LL4 : lo * lo * (lo * lo) <= lo * lo) by nra. assert (HH4 : hi * hi <= hi * hi * (hi * hi)) by nra.
  assert (Sq : forall e, Rabs e <= uu -> lo * lo <= (1 + e) * (1 + e) <= hi * hi).
  { intros e He. pose proof (d_bounds _ He) as B. fold lo hi in B. split; [ apply lo_mul; lra | apply Rmult_le_compat; lra ]. }
  split.
  - intros k a x y HS.
    set (X := x * x). set (Y := y * y). assert (HX : 0 <= X) by (unfold X; nra). assert (HY : 0 <= Y) by (unfold Y; nra).
    fold X Y in HS. set (S := X + Y) in *.
    destruct (rnd_rel X) as (d0 & H0 & E0). destruct (rnd_rel Y) as (d1 & H1 & E1).
    destruct (rnd_rel (rnd X + rnd Y)) as (d2 & H2 & E2). set (s2 := rnd (rnd X + rnd Y)) in *.
    destruct (rnd_rel (sqrt s2)) as (d5 & H5 & E5). set (m := rnd (sqrt s2)) in *.
    destruct (rnd_rel (x / m)) as (e0 & G0 & F0). destruct (rnd_rel (y / m)) as (e1 & G1 & F1).
    exists (rnd (x / m)), (rnd (y / m)). split; [ reflexivity | ].
    pose proof (d_bounds _ H0) as B0. pose proof (d_bounds _ H1) as B1. pose proof (d_bounds _ H2) as B2. fold lo hi in B0, B1, B2.
    assert (Es2 : s2 = (X * (1 + d0) + Y * (1 + d1)) * (1 + d2)) by (rewrite E2, E0, E1; reflexivity).
    assert (A1 : S * lo <= X * (1 + d0) + Y * (1 + d1) <= S * hi).
    { unfold S. assert (X * lo <= X * (1 + d0) <= X * hi) by (split; apply Rmult_le_compat_l; lra).
      assert (Y * lo <= Y * (1 + d1) <= Y * hi) by (split; apply Rmult_le_compat_l; lra). lra. }
    assert (A1p : 0 <= S * lo) by (apply Rmult_le_pos; lra).
    assert (A2 : S * lo * lo <= s2 <= S * hi * hi) by (rewrite Es2; split; [ apply lo_mul; lra | apply Rmult_le_compat; lra ]).
    assert (A4 : S * (lo * lo * (lo * lo)) <= s2 <= S * (hi * hi * (hi * hi))).
    { assert (S * (lo * lo * (lo * lo)) <= S * (lo * lo)) by (apply Rmult_le_compat_l; lra).
      assert (S * (hi * hi) <= S * (hi * hi * (hi * hi))) by (apply Rmult_le_compat_l; lra). lra. }
    set (N := X * ((1 + e0) * (1 + e0)) + Y * ((1 + e1) * (1 + e1))).
    assert (N1 : S * (lo * lo) <= N <= S * (hi * hi)).
    { unfold N, S. pose proof (Sq e0 G0) as Q0. pose proof (Sq e1 G1) as Q1.
      assert (X * (lo * lo) <= X * ((1 + e0) * (1 + e0)) <= X * (hi * hi)) by (split; apply Rmult_le_compat_l; lra).
      assert (Y * (lo * lo) <= Y * ((1 + e1) * (1 + e1)) <= Y * (hi * hi)) by (split; apply Rmult_le_compat_l; lra). lra. }
    destruct (norm_tail S s2 N d5 HS A4 N1 H5) as (Hm & Bd). fold lo hi in Bd.
    assert (Em : m = sqrt s2 * (1 + d5)) by exact E5. rewrite <- Em in Hm, Bd.
    rewrite F0, F1.
    replace (x / m * (1 + e0) * (x / m * (1 + e0)) + y / m * (1 + e1) * (y / m * (1 + e1))) with (N / (m * m)) by (unfold N, X, Y; field; lra).
    exact Bd.
  - intros k a x y z w HS.
    set (X := x * x). set (Y := y * y). set (Z := z * z). set (W := w * w).
    assert (HX : 0 <= X) by (unfold X; nra). assert (HY : 0 <= Y) by (unfold Y; nra). assert (HZ : 0 <= Z) by (unfold Z; nra). assert (HW : 0 <= W) by (unfold W; nra).
    fold X Y Z W in HS. set (S := X + Y + Z + W) in *.
    destruct (rnd_rel X) as (d0 & H0 & E0). destruct (rnd_rel Y) as (d1 & H1 & E1). destruct (rnd_rel Z) as (d2 & H2 & E2). destruct (rnd_rel W) as (d3 & H3 & E3).
    destruct (rnd_rel (rnd X + rnd Y)) as (d4 & H4 & E4).
    destruct (rnd_rel (rnd (rnd X + rnd Y) + rnd Z)) as (d6 & H6 & E6).
    destruct (rnd_rel (rnd (rnd (rnd X + rnd Y) + rnd Z) + rnd W)) as (d7 & H7 & E7).
    set (s2 := rnd (rnd (rnd (rnd X + rnd Y) + rnd Z) + rnd W)) in *.
    destruct (rnd_rel (sqrt s2)) as (d5 & H5 & E5). set (m := rnd (sqrt s2)) in *.
    destruct (rnd_rel (x / m)) as (e0 & G0 & F0). destruct (rnd_rel (y / m)) as (e1 & G1 & F1).
    destruct (rnd_rel (z / m)) as (e2 & G2 & F2). destruct (rnd_rel (w / m)) as (e3 & G3 & F3).
    exists (rnd (x / m)), (rnd (y / m)), (rnd (z / m)), (rnd (w / m)). split; [ reflexivity | ].
    pose proof (d_bounds _ H0) as B0. pose proof (d_bounds _ H1) as B1. pose proof (d_bounds _ H2) as B2. pose proof (d_bounds _ H3) as B3.
    pose proof (d_bounds _ H4) as B4. pose proof (d_bounds _ H6) as B6. pose proof (d_bounds _ H7) as B7. fold lo hi in B0, B1, B2, B3, B4, B6, B7.
    assert (Es2 : s2 = (((X * (1 + d0) + Y * (1 + d1)) * (1 + d4) + Z * (1 + d2)) * (1 + d6) + W * (1 + d3)) * (1 + d7)).
    { rewrite E7, E6, E4, E0, E1, E2, E3. reflexivity. }
    assert (A1 : (X + Y) * lo <= X * (1 + d0) + Y * (1 + d1) <= (X + Y) * hi).
    { assert (X * lo <= X * (1 + d0) <= X * hi) by (split; apply Rmult_le_compat_l; lra).
      assert (Y * lo <= Y * (1 + d1) <= Y * hi) by (split; apply Rmult_le_compat_l; lra). lra. }
    assert (A1p : 0 <= (X + Y) * lo) by (apply Rmult_le_pos; lra).
    assert (A2 : (X + Y) * lo * lo <= (X * (1 + d0) + Y * (1 + d1)) * (1 + d4) <= (X + Y) * hi * hi) by (split; [ apply lo_mul; lra | apply Rmult_le_compat; lra ]).
    assert (A3 : (X + Y + Z) * (lo * lo) <= (X * (1 + d0) + Y * (1 + d1)) * (1 + d4) + Z * (1 + d2) <= (X + Y + Z) * (hi * hi)).
    { assert (Z * (lo * lo) <= Z * (1 + d2)) by (apply Rmult_le_compat_l; lra).
      assert (Z * (1 + d2) <= Z * (hi * hi)) by (apply Rmult_le_compat_l; lra). lra. }
    assert (A3p : 0 <= (X + Y + Z) * (lo * lo)) by (apply Rmult_le_pos; lra).
    assert (A5 : (X + Y + Z) * (lo * lo) * lo <= ((X * (1 + d0) + Y * (1 + d1)) * (1 + d4) + Z * (1 + d2)) * (1 + d6) <= (X + Y + Z) * (hi * hi) * hi)
      by (split; [ apply lo_mul; lra | apply Rmult_le_compat; lra ]).
    assert (L3 : lo * lo * lo <= 1 + d3 <= hi * hi * hi) by (split; nra).
    assert (A6 : S * (lo * lo * lo) <= ((X * (1 + d0) + Y * (1 + d1)) * (1 + d4) + Z * (1 + d2)) * (1 + d6) + W * (1 + d3) <= S * (hi * hi * hi)).
    { unfold S. assert (W * (lo * lo * lo) <= W * (1 + d3) <= W * (hi * hi * hi)) by (split; apply Rmult_le_compat_l; lra). lra. }
    assert (L3p : 0 < lo * lo * lo) by (apply Rmult_lt_0_compat; lra).
    assert (A6p : 0 <= S * (lo * lo * lo)) by (apply Rmult_le_pos; lra).
    assert (H3p : 0 < hi * hi * hi) by (apply Rmult_lt_0_compat; lra).
    assert (A4 : S * (lo * lo * (lo * lo)) <= s2 <= S * (hi * hi * (hi * hi))).
    { rewrite Es2. replace (S * (lo * lo * (lo * lo))) with (S * (lo * lo * lo) * lo) by ring. replace (S * (hi * hi * (hi * hi))) with (S * (hi * hi * hi) * hi) by ring.
      split; [ apply lo_mul; lra | apply Rmult_le_compat; lra ]. }
    set (N := X * ((1 + e0) * (1 + e0)) + Y * ((1 + e1) * (1 + e1)) + Z * ((1 + e2) * (1 + e2)) + W * ((1 + e3) * (1 + e3))).
    assert (N1 : S * (lo * lo) <= N <= S * (hi * hi)).
    { unfold N, S. pose proof (Sq e0 G0) as Q0. pose proof (Sq e1 G1) as Q1. pose proof (Sq e2 G2) as Q2. pose proof (Sq e3 G3) as Q3.
      assert (X * (lo * lo) <= X * ((1 + e0) * (1 + e0)) <= X * (hi * hi)) by (split; apply Rmult_le_compat_l; lra).
      assert (Y * (lo * lo) <= Y * ((1 + e1) * (1 + e1)) <= Y * (hi * hi)) by (split; apply Rmult_le_compat_l; lra).
      assert (Z * (lo * lo) <= Z * ((1 + e2) * (1 + e2)) <= Z * (hi * hi)) by (split; apply Rmult_le_compat_l; lra).
      assert (W * (lo * lo) <= W * ((1 + e3) * (1 + e3)) <= W * (hi * hi)) by (split; apply Rmult_le_compat_l; lra). lra. }
    destruct (norm_tail S s2 N d5 HS A4 N1 H5) as (Hm & Bd). fold lo hi in Bd.
    assert (Em : m = sqrt s2 * (1 + d5)) by exact E5. rewrite <- Em in Hm, Bd.
    rewrite F0, F1, F2, F3.
    replace (x / m * (1 + e0) * (x / m * (1 + e0)) + y / m * (1 + e1) * (y / m * (1 + e1)) + z / m * (1 + e2) * (z / m * (1 + e2)) + w / m * (1 + e3) * (w / m * (1 + e3)))
      with (N / (m * m)) by (unfold N, X, Y, Z, W; field; lra).
    exact Bd.
Qed.
