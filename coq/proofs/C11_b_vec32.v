Require Import Reals List ZArith Lra Lia.
From VekLib Require Import Ops ROps LinAlg RLin RSum.
From VekGen Require Import C11_gen.
From VekProofs Require Import C11_spec C11_pa C11_tac.
Import ListNotations.
Local Open Scope R_scope.
Lemma basic_vec32 : basic_ok 32 [p_vec32_dot; p_vec32_magnitude_squared; p_vec32_magnitude; p_vec32_distance_squared; p_vec32_distance; p_vec32_normalized; p_vec32_normalize; p_vec32_normalized_and_get_magnitude; p_vec32_normalize_and_get_magnitude; p_vec32_reflected; p_vec32_face_forward].
Proof. prove_basic 32%nat. Qed.
