(** * C08 — statements: projection matrices map the view volume onto the canonical clip volume.
    Carrier: the real numbers. Planes are (left, right, bottom, top, near, far). *)
Require Import Reals List ZArith Lia.
From VekLib Require Import Ops ROps LinAlg RLin.
From VekGen Require Import C08_gen.
Import ListNotations.
Local Open Scope R_scope.

Definition aL := @absL R 0.
Definition vec_of (l : list R) : nat -> R := fun i => nth i l 0.
Definition mat_of (rows : list (list R)) : nat -> nat -> R := fun i j => nth j (nth i rows []) 0.

(** clip = M (x,y,z,1); after the homogeneous divide it is (X,Y,Z), and the point is in front (w > 0) *)
Definition maps_to (M : nat -> nat -> R) (x y z X Y Z : R) : Prop :=
  let c := Rmv 4 M (vec_of [x; y; z; 1]) in
  0 < c 3%nat /\ c 0%nat = X * c 3%nat /\ c 1%nat = Y * c 3%nat /\ c 2%nat = Z * c 3%nat.

(** the eight corners of the view volume go to the corners of the clip volume.
    [persp]: far-plane corners are the near-plane ones scaled by far/near; [zs] = +1 left-handed, -1 right-handed;
    [dn] = clip depth of the near plane (0 zero-to-one, -1 negative-one-to-one); far plane -> depth 1 *)
Definition corners_ok (persp : bool) (zs dn : R) (M : nat -> nat -> R) (l r b t n f : R) : Prop :=
  forall sx sy sd : bool,
    let d := if sd then f else n in
    let k := if persp then d / n else 1 in
    maps_to M ((if sx then r else l) * k) ((if sy then t else b) * k) (zs * d)
            (if sx then 1 else -1) (if sy then 1 else -1) (if sd then 1 else dn).

Definition planes_ok (a : nat -> R) : Prop :=
  a 0%nat <> a 1%nat /\ a 2%nat <> a 3%nat /\ 0 < a 4%nat /\ a 4%nat < a 5%nat.

Definition is_proj (l : layout) (persp : bool) (zs dn : R) (p : prog) : Prop :=
  forall k a, planes_ok a -> exists s, rrun k a p = Ret ([], s) /\ length s = 16%nat /\
    corners_ok persp zs dn (aL l 4 s) (a 0%nat) (a 1%nat) (a 2%nat) (a 3%nat) (a 4%nat) (a 5%nat).
Definition planes_table : list (layout * bool * R * R * prog) :=
  [ (Lr, false, 1, 0, p_mat4r_orthographic_lh_zo); (Lr, false, 1, -1, p_mat4r_orthographic_lh_no);
    (Lr, false, -1, 0, p_mat4r_orthographic_rh_zo); (Lr, false, -1, -1, p_mat4r_orthographic_rh_no);
    (Lr, true, 1, 0, p_mat4r_frustum_lh_zo); (Lr, true, 1, -1, p_mat4r_frustum_lh_no);
    (Lr, true, -1, 0, p_mat4r_frustum_rh_zo); (Lr, true, -1, -1, p_mat4r_frustum_rh_no);
    (Lc, false, 1, 0, p_mat4c_orthographic_lh_zo); (Lc, false, 1, -1, p_mat4c_orthographic_lh_no);
    (Lc, false, -1, 0, p_mat4c_orthographic_rh_zo); (Lc, false, -1, -1, p_mat4c_orthographic_rh_no);
    (Lc, true, 1, 0, p_mat4c_frustum_lh_zo); (Lc, true, 1, -1, p_mat4c_frustum_lh_no);
    (Lc, true, -1, 0, p_mat4c_frustum_rh_zo); (Lc, true, -1, -1, p_mat4c_frustum_rh_no) ].
Definition C08_planes_stmt : Prop := Forall (fun '(l, persp, zs, dn, p) => is_proj l persp zs dn p) planes_table.

(** orthographic_without_depth_planes: x,y as above, depth untouched *)
Definition C08_ortho_nodepth_stmt : Prop :=
  Forall (fun '(l, p) => forall k a, a 0%nat <> a 1%nat -> a 2%nat <> a 3%nat ->
      exists s, rrun k a p = Ret ([], s) /\
        forall (sx sy : bool) z, maps_to (aL l 4 s) (if sx then a 1%nat else a 0%nat) (if sy then a 3%nat else a 2%nat) z
                                  (if sx then 1 else -1) (if sy then 1 else -1) z)
    [ (Lr, p_mat4r_orthographic_without_depth_planes); (Lc, p_mat4c_orthographic_without_depth_planes) ].

(** ** perspective(fov, aspect, near, far): the view volume implied by the field of view *)
Definition fov_ok (fov : R) : Prop := 0 < fov /\ fov < PI.
Definition persp_args_ok (a : nat -> R) : Prop := fov_ok (a 0%nat) /\ 0 < a 1%nat /\ 0 < a 2%nat /\ a 2%nat < a 3%nat.
Definition implied_top (fov n : R) : R := n * tan (fov / 2).
Definition is_persp (l : layout) (zs dn : R) (p : prog) : Prop :=
  forall k a, persp_args_ok a -> exists s, rrun k a p = Ret ([], s) /\ length s = 16%nat /\
    let t := implied_top (a 0%nat) (a 2%nat) in let r := t * a 1%nat in
    corners_ok true zs dn (aL l 4 s) (- r) r (- t) t (a 2%nat) (a 3%nat).
Definition persp_table : list (layout * R * R * prog) :=
  [ (Lr, -1, 0, p_mat4r_perspective_rh_zo); (Lr, 1, 0, p_mat4r_perspective_lh_zo);
    (Lr, -1, -1, p_mat4r_perspective_rh_no); (Lr, 1, -1, p_mat4r_perspective_lh_no);
    (Lc, -1, 0, p_mat4c_perspective_rh_zo); (Lc, 1, 0, p_mat4c_perspective_lh_zo);
    (Lc, -1, -1, p_mat4c_perspective_rh_no); (Lc, 1, -1, p_mat4c_perspective_lh_no) ].
Definition C08_perspective_stmt : Prop := Forall (fun '(l, zs, dn, p) => is_persp l zs dn p) persp_table.

(** a perspective matrix equals the frustum matrix of the symmetric planes it implies *)
Definition persp_is_frustum (l : layout) (pp pf : prog) : Prop :=
  forall k a, persp_args_ok a ->
    let t := implied_top (a 0%nat) (a 2%nat) in let r := t * a 1%nat in
    exists s1 s2, rrun k a pp = Ret ([], s1) /\ rrun k (env_of [- r; r; - t; t; a 2%nat; a 3%nat]) pf = Ret ([], s2) /\
      meq 4 (aL l 4 s1) (aL l 4 s2).
Definition C08_perspective_is_frustum_stmt : Prop :=
  Forall (fun '(l, pp, pf) => persp_is_frustum l pp pf)
    [ (Lr, p_mat4r_perspective_rh_zo, p_mat4r_frustum_rh_zo); (Lr, p_mat4r_perspective_lh_zo, p_mat4r_frustum_lh_zo);
      (Lr, p_mat4r_perspective_rh_no, p_mat4r_frustum_rh_no); (Lr, p_mat4r_perspective_lh_no, p_mat4r_frustum_lh_no);
      (Lc, p_mat4c_perspective_rh_zo, p_mat4c_frustum_rh_zo); (Lc, p_mat4c_perspective_lh_zo, p_mat4c_frustum_lh_zo);
      (Lc, p_mat4c_perspective_rh_no, p_mat4c_frustum_rh_no); (Lc, p_mat4c_perspective_lh_no, p_mat4c_frustum_lh_no) ].

(** perspective_fov(fov, width, height, near, far) = perspective(fov, width/height, near, far) *)
Definition fov_is_persp (l : layout) (pfov pp : prog) : Prop :=
  forall k a, fov_ok (a 0%nat) -> 0 < a 1%nat -> 0 < a 2%nat -> 0 < a 3%nat -> a 3%nat < a 4%nat ->
    exists s1 s2, rrun k a pfov = Ret ([], s1) /\
      rrun k (env_of [a 0%nat; a 1%nat / a 2%nat; a 3%nat; a 4%nat]) pp = Ret ([], s2) /\ meq 4 (aL l 4 s1) (aL l 4 s2).
Definition C08_perspective_fov_stmt : Prop :=
  Forall (fun '(l, pfov, pp) => fov_is_persp l pfov pp)
    [ (Lr, p_mat4r_perspective_fov_rh_zo, p_mat4r_perspective_rh_zo); (Lr, p_mat4r_perspective_fov_lh_zo, p_mat4r_perspective_lh_zo);
      (Lr, p_mat4r_perspective_fov_rh_no, p_mat4r_perspective_rh_no); (Lr, p_mat4r_perspective_fov_lh_no, p_mat4r_perspective_lh_no);
      (Lc, p_mat4c_perspective_fov_rh_zo, p_mat4c_perspective_rh_zo); (Lc, p_mat4c_perspective_fov_lh_zo, p_mat4c_perspective_lh_zo);
      (Lc, p_mat4c_perspective_fov_rh_no, p_mat4c_perspective_rh_no); (Lc, p_mat4c_perspective_fov_lh_no, p_mat4c_perspective_lh_no) ].

(** ** a left-handed variant is the right-handed one composed with a z mirror (same arguments) *)
Definition zmirror : nat -> nat -> R := mat_of [[1; 0; 0; 0]; [0; 1; 0; 0]; [0; 0; -1; 0]; [0; 0; 0; 1]].
Definition lh_is_mirrored_rh (l : layout) (plh prh : prog) : Prop :=
  forall k a s1 s2, rrun k a plh = Ret ([], s1) -> rrun k a prh = Ret ([], s2) ->
    meq 4 (aL l 4 s1) (Rmm 4 (aL l 4 s2) zmirror).
Definition C08_handedness_stmt : Prop :=
  Forall (fun '(l, plh, prh) => lh_is_mirrored_rh l plh prh)
    [ (Lr, p_mat4r_orthographic_lh_zo, p_mat4r_orthographic_rh_zo); (Lr, p_mat4r_orthographic_lh_no, p_mat4r_orthographic_rh_no);
      (Lr, p_mat4r_frustum_lh_zo, p_mat4r_frustum_rh_zo); (Lr, p_mat4r_frustum_lh_no, p_mat4r_frustum_rh_no);
      (Lr, p_mat4r_perspective_lh_zo, p_mat4r_perspective_rh_zo); (Lr, p_mat4r_perspective_lh_no, p_mat4r_perspective_rh_no);
      (Lr, p_mat4r_perspective_fov_lh_zo, p_mat4r_perspective_fov_rh_zo); (Lr, p_mat4r_perspective_fov_lh_no, p_mat4r_perspective_fov_rh_no);
      (Lr, p_mat4r_tweaked_infinite_perspective_lh, p_mat4r_tweaked_infinite_perspective_rh); (Lr, p_mat4r_infinite_perspective_lh, p_mat4r_infinite_perspective_rh);
      (Lc, p_mat4c_orthographic_lh_zo, p_mat4c_orthographic_rh_zo); (Lc, p_mat4c_orthographic_lh_no, p_mat4c_orthographic_rh_no);
      (Lc, p_mat4c_frustum_lh_zo, p_mat4c_frustum_rh_zo); (Lc, p_mat4c_frustum_lh_no, p_mat4c_frustum_rh_no);
      (Lc, p_mat4c_perspective_lh_zo, p_mat4c_perspective_rh_zo); (Lc, p_mat4c_perspective_lh_no, p_mat4c_perspective_rh_no);
      (Lc, p_mat4c_perspective_fov_lh_zo, p_mat4c_perspective_fov_rh_zo); (Lc, p_mat4c_perspective_fov_lh_no, p_mat4c_perspective_fov_rh_no);
      (Lc, p_mat4c_tweaked_infinite_perspective_lh, p_mat4c_tweaked_infinite_perspective_rh); (Lc, p_mat4c_infinite_perspective_lh, p_mat4c_infinite_perspective_rh) ].

(** ** infinite perspective (tweaked by epsilon; the plain one is epsilon = 0):
    near-plane corners -> x,y = -1/+1 and depth -1; depth increases strictly with distance and stays below 1 - epsilon *)
Definition is_infinite (l : layout) (zs : R) (p : prog) (tweaked : bool) : Prop :=
  forall k a, fov_ok (a 0%nat) -> 0 < a 1%nat -> 0 < a 2%nat -> (tweaked = true -> 0 <= a 3%nat < 2) ->
    exists s, rrun k a p = Ret ([], s) /\ length s = 16%nat /\
      let M := aL l 4 s in let n := a 2%nat in let eps := if tweaked then a 3%nat else 0 in
      let t := implied_top (a 0%nat) n in let r := t * a 1%nat in
      (forall sx sy : bool, maps_to M (if sx then r else - r) (if sy then t else - t) (zs * n)
                                      (if sx then 1 else -1) (if sy then 1 else -1) (-1)) /\
      (forall x y d1 d2, n <= d1 -> d1 < d2 ->
         let c1 := Rmv 4 M (vec_of [x; y; zs * d1; 1]) in let c2 := Rmv 4 M (vec_of [x; y; zs * d2; 1]) in
         0 < c1 3%nat /\ 0 < c2 3%nat /\ c1 2%nat / c1 3%nat < c2 2%nat / c2 3%nat /\ c2 2%nat / c2 3%nat < 1 - eps).
Definition C08_infinite_stmt : Prop :=
  Forall (fun '(l, zs, p, tw) => is_infinite l zs p tw)
    [ (Lr, -1, p_mat4r_tweaked_infinite_perspective_rh, true); (Lr, 1, p_mat4r_tweaked_infinite_perspective_lh, true);
      (Lr, -1, p_mat4r_infinite_perspective_rh, false); (Lr, 1, p_mat4r_infinite_perspective_lh, false);
      (Lc, -1, p_mat4c_tweaked_infinite_perspective_rh, true); (Lc, 1, p_mat4c_tweaked_infinite_perspective_lh, true);
      (Lc, -1, p_mat4c_infinite_perspective_rh, false); (Lc, 1, p_mat4c_infinite_perspective_lh, false) ].
