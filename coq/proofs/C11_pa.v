Require Import Reals List ZArith Lra Lia.
From VekLib Require Import Ops ROps LinAlg RLin RSum.
From VekGen Require Import C11_gen.
From VekProofs Require Import C11_spec.
Import ListNotations.
Local Open Scope R_scope.

Ltac table := repeat (apply Forall_cons; [ | ]); try apply Forall_nil.
Ltac u11 := cbv [off vecv prog_at List.nth Nat.add Nat.mul] in *.
Ltac s_unfold := cbv [dotn Rsum sigma sum_from off vecv List.nth Nat.add Nat.mul] in *.
Ltac cases_i :=
  match goal with
  | |- forall i : nat, (i < _)%nat -> _ =>
      let i := fresh "i" in let Hi := fresh "Hi" in intros i Hi;
      repeat (destruct i as [|i]; [ | try (exfalso; lia) ]); try (exfalso; lia)
  end.
Ltac congr_ring := first [ reflexivity | ring | (f_equal; congr_ring) ].

(** generic consequences of a pointwise description of a result vector *)
Lemma unit_of_scaled n (r u : nat -> R) m : m * m = dotn n u u -> m <> 0 ->
  (forall i, (i < n)%nat -> r i = u i / m) -> dotn n r r = 1 /\ forall i, (i < n)%nat -> r i * m = u i.
Proof.
  intros Hm Hm0 Hr. split.
  - rewrite (dotn_ext n r (fun i => / m * u i) r (fun i => / m * u i)) by (intros i Hi; rewrite Hr by exact Hi; unfold Rdiv; ring).
    rewrite dotn_scale_l, dotn_comm, dotn_scale_l, <- Hm. field. exact Hm0.
  - intros i Hi. rewrite Hr by exact Hi. field. exact Hm0.
Qed.

Lemma reflect_facts n (r u v : nat -> R) : (forall i, (i < n)%nat -> r i = u i - 2 * dotn n u v * v i) -> dotn n v v = 1 ->
  dotn n r r = dotn n u u /\ dotn n r v = - dotn n u v.
Proof.
  intros Hr Hv. set (c := - (2 * dotn n u v)).
  assert (E : forall i, (i < n)%nat -> r i = u i + c * v i) by (intros i Hi; rewrite Hr by exact Hi; unfold c; ring).
  rewrite (dotn_ext n r (fun i => u i + c * v i) r (fun i => u i + c * v i) E E).
  rewrite (dotn_ext n r (fun i => u i + c * v i) v v E (fun _ _ => eq_refl)).
  rewrite !dotn_lin_l, !dotn_lin_r, Hv, (dotn_comm n v u). unfold c. split; ring.
Qed.

Lemma sqrt_facts x : 0 <= x -> sqrt x * sqrt x = x. Proof. apply sqrt_sqrt. Qed.
