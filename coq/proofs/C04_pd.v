Require Import Reals List ZArith Lra Lia Nsatz.
From VekLib Require Import Ops ROps LinAlg RLin.
From VekGen Require Import C04_gen.
From VekProofs Require Import C04_spec C04_tac.
Import ListNotations.
Local Open Scope R_scope.

Lemma C04_chained : C04_chained_stmt.
Proof.
  unfold C04_chained_stmt, rotated_table, inplace_table. split; [ | split ].
  - table; solve_exists; meq_cases; c04_unfold; ring.
  - table; intros k a Hnz; (eexists; split; [ rrun_unfold; reflexivity | split; [ reflexivity | ] ]);
      meq_cases; c04_unfold; cbv [unit3 norm3 off Nat.add]; ring.
  - table; intros k a; rrun_unfold; reflexivity.
Qed.
