Require Import Reals List ZArith Lra Lia Nsatz.
From VekLib Require Import Ops ROps LinAlg RLin.
From VekGen Require Import C06_gen.
From VekProofs Require Import C06_spec C06_tac.
Import ListNotations.
Local Open Scope R_scope.
Lemma affine_c k r s t : orthogonal3 r -> 0 < k Neps -> k Neps < s 0%nat * s 0%nat -> k Neps < s 1%nat * s 1%nat -> k Neps < s 2%nat * s 2%nat ->
  inverts Lc p_mat4c_inverted_affine k (env_of (storeL Lc 4 (affine_mat (fun i j => r i j * s j) t))).
Proof. intros [Ho1 Ho2] He Hs0 Hs1 Hs2. intro_orth Ho1 Ho2. solve_affine k s Hs0 Hs1 Hs2. Qed.
