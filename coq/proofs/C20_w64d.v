Require Import List ZArith Lia String Bool.
From VekLib Require Import Ops RingOps LinAlg Index Chain.
From VekGen Require Import C20_gen.
From VekProofs Require Import C20_spec C20_tac.
Import ListNotations.
Section Proofs.
  Variable C : cring.
  Lemma lanes_w64d : Forall (lane_ok C "vec64" 64) (seq 48 16).
  Proof. cbn [seq]. table; unfold lane_ok, over2_ops; splits; try (table; cbn [fst snd]); has_by by_compute. Qed.
End Proofs.
