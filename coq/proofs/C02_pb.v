Require Import List ZArith Lia String Bool Ring.
From VekLib Require Import Ops RingOps LinAlg.
From VekGen Require Import C02_gen.
From VekProofs Require Import C02_spec C02_tac.
Import ListNotations.

Section Proofs.
  Variable C : cring.
  Add Ring Cring : (cth C).

  Ltac by_ring := intros a; ccompute; apply (f_equal (fun l => Ret (@nil Z, l))); repeat (apply cons_eq; [ ring | ]); reflexivity.
  Lemma C02_arith : C02_arith_stmt C.
  Proof.
    unfold C02_arith_stmt, arith_ops, binop_forms. ty_table;
    (split; [ table; cbn [fst snd]; all_has by_compute | split; has_by by_ring ]).
  Qed.
End Proofs.
