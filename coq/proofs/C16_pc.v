Require Import Reals List ZArith Lra Lia Nsatz.
From VekLib Require Import Ops ROps LinAlg RLin.
From VekGen Require Import C16_gen.
From VekProofs Require Import C16_spec C16_pa.
Import ListNotations.
Local Open Scope R_scope.

Lemma clamp_min_quadratic (LL ts u : R) : 0 < LL -> 0 <= u <= 1 ->
  let T := Rmin (Rmax ts 0) 1 in (T - u) * (LL * (T + u) - 2 * (ts * LL)) <= 0.
Proof.
  intros HL Hu T. replace ((T - u) * (LL * (T + u) - 2 * (ts * LL))) with (LL * ((T - u) * (T + u - 2 * ts))) by ring.
  assert (H : (T - u) * (T + u - 2 * ts) <= 0).
  { unfold T, Rmin, Rmax. destruct (Rle_dec ts 0); destruct (Rle_dec _ 1); try lra.
    - replace ((0 - u) * (0 + u - 2 * ts)) with (- (u * (u - 2 * ts))) by ring.
      assert (0 <= u * (u - 2 * ts)) by (apply Rmult_le_pos; lra). lra.
    - replace ((ts - u) * (ts + u - 2 * ts)) with (- ((ts - u) * (ts - u))) by ring.
      pose proof (Rle_0_sqr (ts - u)) as Hs. unfold Rsqr in Hs. lra.
    - replace ((1 - u) * (1 + u - 2 * ts)) with (- ((1 - u) * (2 * ts - 1 - u))) by ring.
      assert (0 <= (1 - u) * (2 * ts - 1 - u)) by (apply Rmult_le_pos; lra). lra. }
  replace (LL * ((T - u) * (T + u - 2 * ts))) with (- (LL * - ((T - u) * (T + u - 2 * ts)))) by ring.
  assert (0 <= LL * - ((T - u) * (T + u - 2 * ts))) by (apply Rmult_le_pos; lra). lra.
Qed.

Lemma seg2 : S_segment 2 p_seg2_projected_point p_seg2_distance_to_point p_seg2_into_range p_seg2_from_range.
Proof.
  intros k a. cbv zeta. split; [ | split; [ | split; [ | split ] ] ].
  - intros [He0 He1] HL. unfold returns. rrun_unfold. revert HL. g_unfold. intros HL.
    match goal with |- context [Reqb ?L 0] => set (LL := L) in * end.
    assert (HLL : k Neps < LL) by (unfold LL; lra).
    replace (LL - 0) with LL by ring. rewrite (Rabs_pos_eq LL) by lra. rewrite Rabs_R0.
    rewrite (proj2 (Reqb_false LL 0)) by lra.
    rewrite (proj2 (Rltb_true (k Neps) LL)) by lra.
    rewrite (proj2 (Rltb_false LL 0)) by lra.
    rewrite (proj2 (Rltb_true (LL * k Neps) LL)) by nra.
    eexists. split; [ reflexivity | split; [ reflexivity | ] ].
    match goal with |- context [Rmin (Rmax (?D / LL) 0) 1] => set (DD := D) in *; set (T := Rmin (Rmax (DD / LL) 0) 1) in * end.
    split.
    + exists T. split; [ unfold T, Rmin, Rmax; destruct (Rle_dec _ 0); destruct (Rle_dec _ 1); lra | cases_i; g_unfold; reflexivity ].
    + intros u Hu. apply Rminus_le. g_unfold.
      match goal with |- ?e <= 0 => replace e with ((T - u) * (LL * (T + u) - 2 * (DD / LL * LL))) by (unfold LL, DD; field; fold LL; lra) end.
      apply clamp_min_quadratic; lra.
  - intros H0. unfold returns. rrun_unfold. revert H0. g_unfold. intros H0.
    match goal with |- context [Reqb ?L 0] => rewrite (proj2 (Reqb_true L 0)) by lra end.
    eexists. split; [ reflexivity | split; [ reflexivity | cases_i; g_unfold; reflexivity ] ].
  - intros c. unfold returns. rrun_unfold. split_conds; intros Hc; injection Hc as <-;
      (eexists; split; [ reflexivity | split; [ reflexivity | g_unfold; f_equal; ring ] ]).
  - ret_simple ltac:(cases_i; g_unfold; reflexivity).
  - ret_simple ltac:(cases_i; g_unfold; reflexivity).
Qed.

Lemma seg3 : S_segment 3 p_seg3_projected_point p_seg3_distance_to_point p_seg3_into_range p_seg3_from_range.
Proof.
  intros k a. cbv zeta. split; [ | split; [ | split; [ | split ] ] ].
  - intros [He0 He1] HL. unfold returns. rrun_unfold. revert HL. g_unfold. intros HL.
    match goal with |- context [Reqb ?L 0] => set (LL := L) in * end.
    assert (HLL : k Neps < LL) by (unfold LL; lra).
    replace (LL - 0) with LL by ring. rewrite (Rabs_pos_eq LL) by lra. rewrite Rabs_R0.
    rewrite (proj2 (Reqb_false LL 0)) by lra.
    rewrite (proj2 (Rltb_true (k Neps) LL)) by lra.
    rewrite (proj2 (Rltb_false LL 0)) by lra.
    rewrite (proj2 (Rltb_true (LL * k Neps) LL)) by nra.
    eexists. split; [ reflexivity | split; [ reflexivity | ] ].
    match goal with |- context [Rmin (Rmax (?D / LL) 0) 1] => set (DD := D) in *; set (T := Rmin (Rmax (DD / LL) 0) 1) in * end.
    split.
    + exists T. split; [ unfold T, Rmin, Rmax; destruct (Rle_dec _ 0); destruct (Rle_dec _ 1); lra | cases_i; g_unfold; reflexivity ].
    + intros u Hu. apply Rminus_le. g_unfold.
      match goal with |- ?e <= 0 => replace e with ((T - u) * (LL * (T + u) - 2 * (DD / LL * LL))) by (unfold LL, DD; field; fold LL; lra) end.
      apply clamp_min_quadratic; lra.
  - intros H0. unfold returns. rrun_unfold. revert H0. g_unfold. intros H0.
    match goal with |- context [Reqb ?L 0] => rewrite (proj2 (Reqb_true L 0)) by lra end.
    eexists. split; [ reflexivity | split; [ reflexivity | cases_i; g_unfold; reflexivity ] ].
  - intros c. unfold returns. rrun_unfold. split_conds; intros Hc; injection Hc as <-;
      (eexists; split; [ reflexivity | split; [ reflexivity | g_unfold; f_equal; ring ] ]).
  - ret_simple ltac:(cases_i; g_unfold; reflexivity).
  - ret_simple ltac:(cases_i; g_unfold; reflexivity).
Qed.

Lemma C16_segment : C16_segment_stmt.
Proof. exact (conj seg2 seg3). Qed.
