Require Import Reals List ZArith Lra Lia Nsatz.
From VekLib Require Import Ops ROps LinAlg RLin.
From VekGen Require Import C04_gen.
From VekProofs Require Import C04_spec C04_tac C04_pc.
Import ListNotations.
Local Open Scope R_scope.

Lemma C04_block : C04_block_stmt.
Proof.
  unfold C04_block_stmt. repeat split.
  - table; intros k a; do 2 eexists; (split; [ rrun_unfold; reflexivity | split; [ rrun_unfold; reflexivity | ] ]);
      meq_cases; c04_unfold; reflexivity.
  - intros k a; eexists; split; [ rrun_unfold; reflexivity | ]; meq_cases; c04_unfold; reflexivity.
  - intros k a; eexists; split; [ rrun_unfold; reflexivity | ]; meq_cases; c04_unfold; reflexivity.
Qed.

Lemma C04_quaternion : C04_quaternion_stmt.
Proof.
  unfold C04_quaternion_stmt. repeat split.
  - intros k a Hnz; eexists; split; [ rrun_unfold; reflexivity | split; [ reflexivity | ] ].
    veq_cases; c04_unfold; cbv [unit3 norm3 off Nat.add];
      replace (a 0%nat / (1 + 1)) with (a 0%nat / 2) by (f_equal; ring); reflexivity.
  - table; intros k a; (eexists; split; [ rrun_unfold; reflexivity | split; [ reflexivity | ] ]);
      veq_cases; c04_unfold; rewrite ?sqrt1, ?sqrt1b, ?sqrt1c;
      replace (a 0%nat / (1 + 1)) with (a 0%nat / 2) by (f_equal; ring); field.
  - table; intros k a; (eexists; split; [ rrun_unfold; reflexivity | ]); rrun_unfold; cbv [off env_of app tab map seq List.nth Nat.add]; reflexivity.
Qed.

Lemma C04_vec2 : C04_vec2_stmt.
Proof.
  intros k a; eexists; split; [ rrun_unfold; reflexivity | split; [ reflexivity | ] ].
  veq_cases; c04_unfold; ring.
Qed.
