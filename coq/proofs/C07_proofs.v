Require Import List ZArith Lia Ring.
From VekLib Require Import Ops RingOps LinAlg.
From VekGen Require Import C07_gen.
From VekProofs Require Import C07_spec.
Import ListNotations.

Ltac table := repeat (apply Forall_cons; [ | ]); try apply Forall_nil.
Ltac lin_unfold :=
  cbv [aL absL MM MV I4 vec abs_rows abs_cols abs_vec mm mv sigma sum_from ident transp nth tab map seq
       Nat.add Nat.mul Nat.sub Nat.eqb Nat.ltb Nat.leb ext off two
       Ttrans3 Ttrans2_4 Tscale3 Ttrans2_3 Tscale3_3 Tscale2 Tshearx Tsheary Trotz Qmat transform_mat
       build apply_all fold_left cops op1_of op2_of].

Section Proofs.
  Variable C : cring.
  Add Ring Cring : (cth C).

  Ltac solve_exists :=
    intros a; eexists; split; [ crun_unfold; reflexivity | split; [ reflexivity | ] ].

  Lemma C07_constructors : C07_constructors_stmt C.
  Proof. unfold C07_constructors_stmt, ctor_table. table; solve_exists; meq_cases; lin_unfold; ring. Qed.

  Lemma C07_actions : C07_actions_stmt C.
  Proof. intros v p k. repeat split; veq_cases; lin_unfold; ring. Qed.

  Lemma C07_mul_point : C07_mul_point_stmt C.
  Proof. unfold C07_mul_point_stmt, mulp_table. table; solve_exists; cbv [Nat.sub]; veq_cases; lin_unfold; ring. Qed.

  Lemma C07_mulv2 : C07_mulv2_stmt C.
  Proof. split; intros a; eexists; (split; [ crun_unfold; reflexivity | ]); veq_cases; lin_unfold; ring. Qed.

  Lemma C07_builders : C07_builders_stmt C.
  Proof. unfold C07_builders_stmt, builder_table. table; solve_exists; meq_cases; lin_unfold; ring. Qed.

  Lemma C07_inplace : C07_inplace_stmt C.
  Proof. unfold C07_inplace_stmt, inplace_table. table; intros a; crun_unfold; reflexivity. Qed.

  (** (A B) p = A (B p), and matrix-vector product only reads entries below n *)
  Lemma mv_mm4 A B p : veq 4 (MV C 4 (MM C 4 A B) p) (MV C 4 A (MV C 4 B p)).
  Proof. veq_cases; lin_unfold; ring. Qed.
  Lemma mv_mm3 A B p : veq 3 (MV C 3 (MM C 3 A B) p) (MV C 3 A (MV C 3 B p)).
  Proof. veq_cases; lin_unfold; ring. Qed.
  Lemma mv_mm2 A B p : veq 2 (MV C 2 (MM C 2 A B) p) (MV C 2 A (MV C 2 B p)).
  Proof. veq_cases; lin_unfold; ring. Qed.
  Lemma mv_ext4 A p q : veq 4 p q -> veq 4 (MV C 4 A p) (MV C 4 A q).
  Proof. intros H. veq_cases; lin_unfold; rewrite !H by lia; reflexivity. Qed.
  Lemma mv_ext3 A p q : veq 3 p q -> veq 3 (MV C 3 A p) (MV C 3 A q).
  Proof. intros H. veq_cases; lin_unfold; rewrite !H by lia; reflexivity. Qed.
  Lemma mv_ext2 A p q : veq 2 p q -> veq 2 (MV C 2 A p) (MV C 2 A q).
  Proof. intros H. veq_cases; lin_unfold; rewrite !H by lia; reflexivity. Qed.

  Lemma apply_all_ext4 steps : forall p q, veq 4 p q -> veq 4 (apply_all C 4 steps p) (apply_all C 4 steps q).
  Proof. induction steps as [|M steps IH]; intros p q H; simpl; [ exact H | apply IH, mv_ext4, H ]. Qed.
  Lemma apply_all_ext3 steps : forall p q, veq 3 p q -> veq 3 (apply_all C 3 steps p) (apply_all C 3 steps q).
  Proof. induction steps as [|M steps IH]; intros p q H; simpl; [ exact H | apply IH, mv_ext3, H ]. Qed.
  Lemma apply_all_ext2 steps : forall p q, veq 2 p q -> veq 2 (apply_all C 2 steps p) (apply_all C 2 steps q).
  Proof. induction steps as [|M steps IH]; intros p q H; simpl; [ exact H | apply IH, mv_ext2, H ]. Qed.

  Lemma veq_trans n (x y z : nat -> C) : veq n x y -> veq n y z -> veq n x z.
  Proof. intros H1 H2 i Hi. rewrite H1, H2 by exact Hi. reflexivity. Qed.

  Lemma C07_chain_order : C07_chain_order_stmt C.
  Proof.
    intros steps. induction steps as [|M steps IH]; intros M0 p.
    - repeat split; intros i Hi; reflexivity.
    - destruct (IH (MM C 4 M M0) p) as (IH4 & _ & _).
      destruct (IH (MM C 3 M M0) p) as (_ & IH3 & _).
      destruct (IH (MM C 2 M M0) p) as (_ & _ & IH2).
      cbn [build apply_all fold_left] in *. repeat split.
      + eapply veq_trans; [ exact IH4 | apply apply_all_ext4, mv_mm4 ].
      + eapply veq_trans; [ exact IH3 | apply apply_all_ext3, mv_mm3 ].
      + eapply veq_trans; [ exact IH2 | apply apply_all_ext2, mv_mm2 ].
  Qed.

  Lemma C07_chain_example : C07_chain_example_stmt C.
  Proof. split; intros a; eexists; (split; [ crun_unfold; reflexivity | ]); meq_cases; lin_unfold; ring. Qed.

  Lemma C07_transform : C07_transform_stmt C.
  Proof.
    repeat split.
    - intros a; eexists; split; [ crun_unfold; reflexivity | split; [ reflexivity | ] ]; meq_cases; lin_unfold; ring.
    - intros a; eexists; split; [ crun_unfold; reflexivity | split; [ reflexivity | ] ]; meq_cases; lin_unfold; ring.
    - intros pos q sc p. veq_cases; lin_unfold; ring.
    - intros a; eexists; split; [ crun_unfold; reflexivity | ]; meq_cases; lin_unfold; ring.
    - intros a; eexists; split; [ crun_unfold; reflexivity | ]; meq_cases; lin_unfold; ring.
  Qed.
End Proofs.
