Require Import ZArith List Lia Bool.
From VekLib Require Import Ops MachineInt.
From VekGen Require Import C17_gen.
From VekProofs Require Import C17_int_spec.
Import ListNotations.
Local Open Scope Z_scope.

Lemma norm_in s v : in_range s v -> norm s v = Some v.
Proof. unfold in_range, norm, in_rangeb. intros [H1 H2]. rewrite (proj2 (Z.leb_le _ _) H1), (proj2 (Z.leb_le _ _) H2). reflexivity. Qed.
Lemma ibin_add s x y : in_range s (x + y) -> ibin s OAdd x y = Some (x + y). Proof. apply norm_in. Qed.
Lemma ibin_sub s x y : in_range s (x - y) -> ibin s OSub x y = Some (x - y). Proof. apply norm_in. Qed.
Lemma ibin_mul s x y : in_range s (x * y) -> ibin s OMul x y = Some (x * y). Proof. apply norm_in. Qed.
Lemma ibin_div s x y : 0 <= x -> 0 < y -> ibin s ODiv x y = Some (x / y).
Proof.
  intros Hx Hy. unfold ibin. rewrite (proj2 (Z.eqb_neq y 0)) by lia. rewrite (proj2 (Z.eqb_neq y (-1))) by lia.
  rewrite andb_false_r. simpl. rewrite Z.quot_div_nonneg by lia. reflexivity.
Qed.
Lemma ibin_rem s x y : 0 <= x -> 0 < y -> ibin s ORem x y = Some (x mod y).
Proof.
  intros Hx Hy. unfold ibin. rewrite (proj2 (Z.eqb_neq y 0)) by lia. rewrite (proj2 (Z.eqb_neq y (-1))) by lia.
  rewrite andb_false_r. simpl. rewrite Z.rem_mod_nonneg by lia. reflexivity.
Qed.

Lemma range_facts s : wf s -> imin s <= 0 /\ 1 <= imax s /\ (signed s = false -> imin s = 0).
Proof.
  unfold wf, imin, imax. destruct (signed s); intros Hw.
  - assert (2 <= 2 ^ (width s - 1)) by (change 2 with (2 ^ 1) at 1; apply Z.pow_le_mono_r; lia).
    split; [ lia | split; [ lia | discriminate ] ].
  - assert (2 <= 2 ^ width s) by (change 2 with (2 ^ 1) at 1; apply Z.pow_le_mono_r; lia).
    split; [ lia | split; [ lia | reflexivity ] ].
Qed.

Ltac zdec :=
  repeat match goal with
  | |- context [?a <? ?b] => first [ rewrite (proj2 (Z.ltb_lt a b)) by lia | rewrite (proj2 (Z.ltb_ge a b)) by lia ]
  end.
Ltac isimp := irun_unfold; cbv [ienv nth itree all_some map iatom Pos.eqb].

Lemma C17_int_clamp : C17_int_clamp_stmt.
Proof.
  intros s x lo hi Hw Hx Hl Hh. repeat (apply Forall_cons; [ | ]); try apply Forall_nil.
  all: split; [ intros Hb; split | intros Hb; split ]; isimp; cbv [ibin]; zdec; try reflexivity.
  all: destruct (lo <=? x) eqn:E1; destruct (x <=? hi) eqn:E2; simpl;
       try (apply Z.leb_le in E1); try (apply Z.leb_le in E2); try (apply Z.leb_gt in E1); try (apply Z.leb_gt in E2); zdec; reflexivity.
Qed.

Lemma wb_core s x lo hi : wf s -> in_range s x -> in_range s lo -> in_range s hi -> 0 <= lo < hi -> wb_guard s x lo hi ->
  iret1 (irun s (ienv [x; lo; hi]) p_u_wrapped_between) (fun r => lo <= r < hi /\ (r - x) mod (hi - lo) = 0).
Proof.
  intros Hw Hx Hl Hh Hb Hg. destruct (range_facts s Hw) as (Hmin & Hmax & _).
  unfold in_range in *. unfold iret1. isimp. zdec.
  set (R := hi - lo) in *. assert (HR : 0 < R) by (unfold R; lia).
  destruct (Z_lt_ge_dec x lo) as [Hlt|Hge].
  - destruct Hg as [Hg|[Hg1 Hg2]]; [ lia | ]. fold R in Hg2.
    rewrite (proj2 (Z.ltb_lt x lo)) by lia.
    set (D := lo - x) in *. assert (HD : 0 < D) by (unfold D; lia).
    pose proof (Z.mul_div_le D R HR) as Q1. pose proof (Z.mul_succ_div_gt D R HR) as Q2.
    set (q := D / R) in *. assert (Hq : 0 <= q) by (apply Z.div_pos; lia).
    assert (Hq1 : q + 1 <= R * (q + 1)) by nia.
    rewrite (ibin_sub s hi lo) by (unfold in_range; fold R; lia). fold R.
    rewrite (ibin_sub s lo x) by (unfold in_range; fold D; lia). fold D.
    rewrite (ibin_div s D R) by lia. fold q.
    rewrite (ibin_add s q 1) by (unfold in_range; lia).
    rewrite (ibin_mul s R (q + 1)) by (unfold in_range; nia).
    assert (Hv : D < R * (q + 1) <= D + R) by nia.
    rewrite (ibin_add s x (R * (q + 1))) by (unfold in_range; unfold D, R in *; lia).
    rewrite (ibin_sub s (x + R * (q + 1)) lo) by (unfold in_range; unfold D, R in *; lia).
    set (y := x + R * (q + 1) - lo). assert (Hy : 0 <= y) by (unfold y, D in *; lia).
    rewrite (ibin_rem s y R) by lia.
    pose proof (Z.mod_pos_bound y R HR) as Hm.
    rewrite (ibin_add s lo (y mod R)) by (unfold in_range; unfold R in *; lia).
    eexists. split; [ reflexivity | ]. split; [ unfold R in *; lia | ].
    pose proof (Z.div_mod y R ltac:(lia)) as Hdm.
    replace (lo + y mod R - x) with ((q + 1 - y / R) * R) by (unfold y in *; lia).
    apply Z.mod_mul. lia.
  - rewrite (proj2 (Z.ltb_ge x lo)) by lia.
    rewrite (ibin_sub s x lo) by (unfold in_range; lia).
    rewrite (ibin_sub s hi lo) by (unfold in_range; fold R; lia). fold R.
    set (y := x - lo). assert (Hy : 0 <= y) by (unfold y; lia).
    rewrite (ibin_rem s y R) by lia.
    pose proof (Z.mod_pos_bound y R HR) as Hm.
    rewrite (ibin_add s lo (y mod R)) by (unfold in_range; unfold R in *; lia).
    eexists. split; [ reflexivity | ]. split; [ unfold R in *; lia | ].
    pose proof (Z.div_mod y R ltac:(lia)) as Hdm.
    replace (lo + y mod R - x) with ((- (y / R)) * R) by (unfold y in *; lia).
    apply Z.mod_mul. lia.
Qed.

Lemma C17_int_wrapped_between : C17_int_wrapped_between_stmt.
Proof.
  intros s x lo hi Hw Hx Hl Hh. split.
  - assert (E : p_s_wrapped_between = p_u_wrapped_between) by reflexivity.
    repeat (apply Forall_cons; [ | ]); try apply Forall_nil; rewrite ?E; split.
    1,3: intros Hb Hg; apply wb_core; assumption.
    all: intros Hn; isimp; destruct (lo <? hi) eqn:E1; [ | reflexivity ];
         destruct (lo <? 0) eqn:E2; [ reflexivity | ];
         apply Z.ltb_lt in E1; apply Z.ltb_ge in E2; exfalso; apply Hn; lia.
  - intros Hu Hb. destruct (range_facts s Hw) as (Hmin & Hmax & Hu0). specialize (Hu0 Hu).
    unfold in_range in *. destruct (Z_lt_ge_dec x lo) as [Hlt|Hge]; [ right | left; lia ].
    assert (HR : 0 < hi - lo) by lia.
    pose proof (Z.mul_div_le (lo - x) (hi - lo) HR). split; nia.
Qed.

Lemma tri_range u m : 0 <= m < 2 * u -> 0 <= tri u m <= u.
Proof. intros H. unfold tri. destruct (m <? u) eqn:E; [ apply Z.ltb_lt in E | apply Z.ltb_ge in E ]; lia. Qed.


Lemma spp s x u : wf s -> in_range s x -> in_range s u -> 0 < u -> 2 * u <= imax s -> wb_guard s x 0 (2 * u) ->
  irun s (ienv [x; u]) p_s_pingpong = Ret ([], [let m := x mod (2 * u) in if u <? m then 2 * u - m else m]).
Proof.
  intros Hw Hx Hu H0 H2 Hg. destruct (range_facts s Hw) as (Hmin & Hmax & _). unfold in_range in *.
  isimp. zdec.
  rewrite (ibin_add s u u) by (unfold in_range; lia).
  replace (u + u) with (2 * u) by lia. set (R := 2 * u) in *. assert (HR : 0 < R) by (unfold R; lia).
  zdec.
  rewrite (ibin_sub s R 0) by (unfold in_range; lia). rewrite Z.sub_0_r.
  destruct (Z_lt_ge_dec x 0) as [Hlt|Hge].
  - destruct Hg as [Hg|[Hg1 Hg2]]; [ lia | ]. rewrite Z.sub_0_r in Hg2.
    rewrite (proj2 (Z.ltb_lt x 0)) by lia.
    set (D := 0 - x) in *. assert (HD : 0 < D) by (unfold D; lia).
    pose proof (Z.mul_div_le D R HR) as Q1. pose proof (Z.mul_succ_div_gt D R HR) as Q2.
    set (q := D / R) in *. assert (Hq : 0 <= q) by (apply Z.div_pos; lia).
    assert (Hq1 : q + 1 <= R * (q + 1)) by nia.
    rewrite (ibin_sub s 0 x) by (unfold in_range; fold D; lia). fold D.
    rewrite (ibin_div s D R) by lia. fold q.
    rewrite (ibin_add s q 1) by (unfold in_range; lia).
    rewrite (ibin_mul s R (q + 1)) by (unfold in_range; nia).
    assert (Hv : D < R * (q + 1) <= D + R) by nia.
    rewrite (ibin_add s x (R * (q + 1))) by (unfold in_range; unfold D in *; lia).
    rewrite (ibin_sub s (x + R * (q + 1)) 0) by (unfold in_range; unfold D in *; lia). rewrite Z.sub_0_r.
    set (y := x + R * (q + 1)). assert (Hy : 0 <= y) by (unfold y, D in *; lia).
    rewrite (ibin_rem s y R) by lia.
    pose proof (Z.mod_pos_bound y R HR) as Hm.
    rewrite (ibin_add s 0 (y mod R)) by (unfold in_range; lia). rewrite Z.add_0_l.
    assert (E : y mod R = x mod R).
    { unfold y. rewrite Z.mul_comm. apply Z.mod_add. lia. }
    rewrite E in *. cbv zeta.
    destruct (u <? x mod R) eqn:E1; [ | reflexivity ].
    apply Z.ltb_lt in E1. rewrite (ibin_sub s R (x mod R)) by (unfold in_range; lia). reflexivity.
  - rewrite (proj2 (Z.ltb_ge x 0)) by lia.
    rewrite (ibin_sub s x 0) by (unfold in_range; lia). rewrite Z.sub_0_r.
    rewrite (ibin_rem s x R) by lia.
    pose proof (Z.mod_pos_bound x R HR) as Hm.
    rewrite (ibin_add s 0 (x mod R)) by (unfold in_range; lia). rewrite Z.add_0_l. cbv zeta.
    destruct (u <? x mod R) eqn:E1; [ | reflexivity ].
    apply Z.ltb_lt in E1. rewrite (ibin_sub s R (x mod R)) by (unfold in_range; lia). reflexivity.
Qed.

Lemma C17_int_wrap : C17_int_wrap_stmt.
Proof.
  intros s x u Hw Hx Hu. destruct (range_facts s Hw) as (Hmin & Hmax & Hu0). unfold in_range in *.
  split; [ | split ].
  - intros Hs. specialize (Hu0 Hs). split; [ | split; [ | split ] ].
    + intros H0. isimp. zdec. rewrite (ibin_rem s x u) by lia. reflexivity.
    + intros H0. isimp. zdec. reflexivity.
    + intros H0 H2. isimp. zdec.
      rewrite (ibin_add s u u) by (unfold in_range; lia).
      rewrite (ibin_rem s x (u + u)) by lia.
      replace (u + u) with (2 * u) by lia.
      pose proof (Z.mod_pos_bound x (2 * u) ltac:(lia)) as Hm.
      unfold tri. destruct (x mod (2 * u) <? u) eqn:E; [ reflexivity | ].
      apply Z.ltb_ge in E. rewrite (ibin_sub s (2 * u) (x mod (2 * u))) by (unfold in_range; lia). reflexivity.
    + intros H0. isimp. zdec. reflexivity.
  - intros Hs. split; [ | split; [ | split ] ].
    + intros H0 Hg.
      destruct (wb_core s x 0 u Hw ltac:(unfold in_range; lia) ltac:(unfold in_range; lia) ltac:(unfold in_range; lia) ltac:(lia) Hg)
        as (r & Hr & Hr1 & Hr2).
      assert (Hrx : r = x mod u).
      { rewrite Z.sub_0_r in Hr2. apply Z.mod_divide in Hr2; [ | lia ]. destruct Hr2 as [c Hc].
        apply Z.mod_unique_pos with (q := - c); lia. }
      subst r. revert Hr. isimp. zdec. intros Hr. exact Hr.
    + intros H0. isimp. zdec. reflexivity.
    + intros H0 H2 Hg. apply spp; assumption.
    + intros H0. isimp. zdec. reflexivity.
  - intros m Hm. apply tri_range. exact Hm.
Qed.

