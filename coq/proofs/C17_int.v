Require Import ZArith List Lia Bool.
From VekProofs Require Import C17_zl.
From VekLib Require Import Ops MachineInt.
From VekGen Require Import C17_gen.
From VekProofs Require Import C17_int_spec.
Import ListNotations.
Local Open Scope Z_scope.

Lemma norm_in s v : in_range s v -> norm s v = Some v.
Proof. unfold in_range, norm, in_rangeb. intros [H1 H2]. rewrite (proj2 (Z.leb_le _ _) H1), (proj2 (Z.leb_le _ _) H2). reflexivity. Qed.
Lemma ibin_add s x y : in_range s (x + y) -> ibin s OAdd x y = Some (x + y). Proof. apply norm_in. Qed.
Lemma ibin_sub s x y : in_range s (x - y) -> ibin s OSub x y = Some (x - y). Proof. apply norm_in. Qed.
Lemma ibin_mul s x y : in_range s (x * y) -> ibin s OMul x y = Some (x * y). Proof. apply norm_in. Qed.
Lemma ibin_div s x y : 0 <= x -> 0 < y -> ibin s ODiv x y = Some (x / y).
Proof.
  intros Hx Hy. unfold ibin. rewrite (proj2 (Z.eqb_neq y 0)) by lia. rewrite (proj2 (Z.eqb_neq y (-1))) by lia.
  rewrite andb_false_r. simpl. rewrite Z.quot_div_nonneg by lia. reflexivity.
Qed.
Lemma ibin_rem s x y : 0 <= x -> 0 < y -> ibin s ORem x y = Some (x mod y).
Proof.
  intros Hx Hy. unfold ibin. rewrite (proj2 (Z.eqb_neq y 0)) by lia. rewrite (proj2 (Z.eqb_neq y (-1))) by lia.
  rewrite andb_false_r. simpl. rewrite Z.rem_mod_nonneg by lia. reflexivity.
Qed.

Lemma range_facts s : wf s -> imin s <= 0 /\ 1 <= imax s /\ (signed s = false -> imin s = 0).
Proof.
  unfold wf, imin, imax. destruct (signed s); intros Hw.
  - assert (2 <= 2 ^ (width s - 1)) by (change 2 with (2 ^ 1) at 1; apply Z.pow_le_mono_r; lia).
    split; [ lia | split; [ lia | discriminate ] ].
  - assert (2 <= 2 ^ width s) by (change 2 with (2 ^ 1) at 1; apply Z.pow_le_mono_r; lia).
    split; [ lia | split; [ lia | reflexivity ] ].
Qed.

Ltac zdec :=
  repeat match goal with
  | |- context [?a <? ?b] => first [ rewrite (proj2 (Z.ltb_lt a b)) by lia | rewrite (proj2 (Z.ltb_ge a b)) by lia ]
  end.
Ltac isimp := irun_unfold; cbv [ienv nth itree all_some map iatom Pos.eqb].

Lemma C17_int_clamp : C17_int_clamp_stmt.
Proof.
  intros s x lo hi Hw Hx Hl Hh. repeat (apply Forall_cons; [ | ]); try apply Forall_nil.
  all: split; [ intros Hb; split | intros Hb; split ]; isimp; cbv [ibin]; zdec; try reflexivity.
  all: destruct (lo <=? x) eqn:E1; destruct (x <=? hi) eqn:E2; simpl;
       try (apply Z.leb_le in E1); try (apply Z.leb_le in E2); try (apply Z.leb_gt in E1); try (apply Z.leb_gt in E2); zdec; reflexivity.
Qed.

Lemma wb_core s x lo hi : wf s -> in_range s x -> in_range s lo -> in_range s hi -> 0 <= lo < hi -> wb_guard s x lo hi ->
  iret1 (irun s (ienv [x; lo; hi]) p_u_wrapped_between) (fun r => lo <= r < hi /\ (r - x) mod (hi - lo) = 0).
Proof.
  intros Hw Hx Hl Hh Hb Hg. destruct (range_facts s Hw) as (Hmin & Hmax & _).
  unfold in_range in *. unfold iret1. isimp. zdec.
  set (R := hi - lo) in *. assert (HR : 0 < R) by (unfold R; lia).
  destruct (Z_lt_ge_dec x lo) as [Hlt|Hge].
  - destruct Hg as [Hg|[Hg1 Hg2]]; [ lia | ]. fold R in Hg2.
    rewrite (proj2 (Z.ltb_lt x lo)) by lia.
    set (D := lo - x) in *. assert (HD : 0 < D) by (unfold D; lia).
    pose proof (Z.mul_div_le D R HR) as Q1. pose proof (Z.mul_succ_div_gt D R HR) as Q2.
    set (q := D / R) in *. assert (Hq : 0 <= q) by (apply Z.div_pos; lia).
    assert (Hq1 : q + 1 <= R * (q + 1)) by nia.
    rewrite (ibin_sub s hi lo) by (unfold in_range; fold R; lia). fold R.
    rewrite (ibin_sub s lo x) by (unfold in_range; fold D; lia). fold D.
    rewrite (ibin_div s D R) by lia. fold q.
    rewrite (ibin_add s q 1) by (unfold in_range; lia).
    rewrite (ibin_mul s R (q + 1)) by (unfold in_range; nia).
    assert (Hv : D < R * (q + 1) <= D + R) by nia.
    rewrite (ibin_add s x (R * (q + 1))) by (unfold in_range; unfold D, R in *; lia).
    rewrite (ibin_sub s (x + R * (q + 1)) lo) by (unfold in_range; unfold D, R in *; lia).
    set (y := x + R * (q + 1) - lo). assert (Hy : 0 <= y) by (unfold y, D in *; lia).
    rewrite (ibin_rem s y R) by lia.
    pose proof (Z.mod_pos_bound y R HR) as Hm.
    rewrite (ibin_add s lo (y mod R)) by (unfold in_range; unfold R in *; lia).
    eexists. split; [ reflexivity | ]. split; [ unfold R in *; lia | ].
    pose proof (Z.div_mod y R ltac:(lia)) as Hdm.
    replace (lo + y mod R - x) with ((q + 1 - y / R) * R) by (unfold y in *; lia).
    apply Z.mod_mul. lia.
  - rewrite (proj2 (Z.ltb_ge x lo)) by lia.
    rewrite (ibin_sub s x lo) by (unfold in_range; lia).
    rewrite (ibin_sub s hi lo) by (unfold in_range; fold R; lia). fold R.
    set (y := x - lo). assert (Hy : 0 <= y) by (unfold y; lia).
    rewrite (ibin_rem s y R) by lia.
    pose proof (Z.mod_pos_bound y R HR) as Hm.
    rewrite (ibin_add s lo (y mod R)) by (unfold in_range; unfold R in *; lia).
    eexists. split; [ reflexivity | ]. split; [ unfold R in *; lia | ].
    pose proof (Z.div_mod y R ltac:(lia)) as Hdm.
    replace (lo + y mod R - x) with ((- (y / R)) * R) by (unfold y in *; lia).
    apply Z.mod_mul. lia.
Qed.


Lemma ibin_quot s x y : 0 < y -> ibin s ODiv x y = Some (Z.quot x y).
Proof. intros Hy. unfold ibin. rewrite (proj2 (Z.eqb_neq y 0)) by lia. rewrite (proj2 (Z.eqb_neq y (-1))) by lia. rewrite andb_false_r. reflexivity. Qed.
Lemma ibin_remt s x y : 0 < y -> ibin s ORem x y = Some (Z.rem x y).
Proof. intros Hy. unfold ibin. rewrite (proj2 (Z.eqb_neq y 0)) by lia. rewrite (proj2 (Z.eqb_neq y (-1))) by lia. rewrite andb_false_r. reflexivity. Qed.

(** the repaired signed wrapped_between: correct for every in-range input *)
Lemma signed_min s : signed s = true -> imin s = - imax s - 1.
Proof. unfold imin, imax. intros ->. lia. Qed.
Lemma swb s x lo hi : wf s -> signed s = true -> in_range s x -> in_range s lo -> in_range s hi -> 0 <= lo < hi ->
  iret1 (irun s (ienv [x; lo; hi]) p_s_wrapped_between) (wb_post x lo hi).
Proof.
  intros Hw Hs Hx Hl Hh Hb. destruct (range_facts s Hw) as (Hmin & Hmax & _). pose proof (signed_min s Hs) as Hsm.
  unfold in_range in *. unfold iret1, wb_post. isimp. zdec.
  set (R := hi - lo) in *. assert (HR : 0 < R) by (unfold R; lia).
  rewrite (ibin_sub s hi lo) by (unfold in_range; fold R; lia). fold R.
  rewrite (ibin_remt s x R) by lia. rewrite (ibin_remt s lo R) by lia.
  destruct (quot_rem_floor x R HR) as (Ex & Bx & Fneg & Fpos). cbv zeta in *.
  rewrite (Z.rem_mod_nonneg lo R) by lia.
  pose proof (Z.mod_pos_bound lo R HR) as Bl. pose proof (Z.div_mod lo R ltac:(lia)) as El.
  set (mt := Z.rem x R) in *. set (qt := Z.quot x R) in *. set (b := lo mod R) in *. set (ql := lo / R) in *.
  destruct (mt <? 0) eqn:E1; [ apply Z.ltb_lt in E1 | apply Z.ltb_ge in E1 ].
  - rewrite (ibin_add s mt R) by (unfold in_range; lia).
    rewrite (ibin_sub s (mt + R) b) by (unfold in_range; lia).
    destruct (mt + R - b <? 0) eqn:E2; [ apply Z.ltb_lt in E2 | apply Z.ltb_ge in E2 ].
    + rewrite (ibin_add s (mt + R - b) R) by (unfold in_range; lia).
      rewrite (ibin_add s lo (mt + R - b + R)) by (unfold in_range; unfold R in *; lia).
      eexists. split; [ reflexivity | ]. split; [ unfold R in *; lia | ].
      replace (lo + (mt + R - b + R) - x) with ((ql + 2 - qt) * R) by (rewrite Ex, El; ring). apply Z.mod_mul. lia.
    + rewrite (ibin_add s lo (mt + R - b)) by (unfold in_range; unfold R in *; lia).
      eexists. split; [ reflexivity | ]. split; [ unfold R in *; lia | ].
      replace (lo + (mt + R - b) - x) with ((ql + 1 - qt) * R) by (rewrite Ex, El; ring). apply Z.mod_mul. lia.
  - rewrite (ibin_sub s mt b) by (unfold in_range; lia).
    destruct (mt - b <? 0) eqn:E2; [ apply Z.ltb_lt in E2 | apply Z.ltb_ge in E2 ].
    + rewrite (ibin_add s (mt - b) R) by (unfold in_range; lia).
      rewrite (ibin_add s lo (mt - b + R)) by (unfold in_range; unfold R in *; lia).
      eexists. split; [ reflexivity | ]. split; [ unfold R in *; lia | ].
      replace (lo + (mt - b + R) - x) with ((ql + 1 - qt) * R) by (rewrite Ex, El; ring). apply Z.mod_mul. lia.
    + rewrite (ibin_add s lo (mt - b)) by (unfold in_range; unfold R in *; lia).
      eexists. split; [ reflexivity | ]. split; [ unfold R in *; lia | ].
      replace (lo + (mt - b) - x) with ((ql - qt) * R) by (rewrite Ex, El; ring). apply Z.mod_mul. lia.
Qed.

Lemma C17_int_wrapped_between : C17_int_wrapped_between_stmt.
Proof.
  intros s x lo hi Hw Hx Hl Hh. split.
  - intros Hb. split; [ | split ].
    + intros Hg. apply wb_core; assumption.
    + intros Hu. destruct (range_facts s Hw) as (Hmin & Hmax & Hu0). specialize (Hu0 Hu).
      unfold in_range in *. destruct (Z_lt_ge_dec x lo) as [Hlt|Hge]; [ right | left; lia ].
      assert (HR : 0 < hi - lo) by lia.
      pose proof (Z.mul_div_le (lo - x) (hi - lo) HR). split; nia.
    + intros Hs. apply swb; assumption.
  - intros Hn. split; isimp; (destruct (lo <? hi) eqn:E1; [ | reflexivity ]);
      (destruct (lo <? 0) eqn:E2; [ reflexivity | ]);
      apply Z.ltb_lt in E1; apply Z.ltb_ge in E2;
      (destruct (0 <? hi) eqn:E3; [ | reflexivity ]); exfalso; apply Hn; lia.
Qed.

Lemma tri_range u m : 0 <= m < 2 * u -> 0 <= tri u m <= u.
Proof. intros H. unfold tri. destruct (m <? u) eqn:E; [ apply Z.ltb_lt in E | apply Z.ltb_ge in E ]; lia. Qed.

(** the repaired unsigned ping-pong: no 2*upper is formed *)
Lemma upp s x u : wf s -> 2 <= imax s -> signed s = false -> in_range s x -> in_range s u -> 0 < u ->
  irun s (ienv [x; u]) p_u_pingpong = Ret ([], [tri u (x mod (2 * u))]).
Proof.
  intros Hw H2 Hs Hx Hu H0. destruct (range_facts s Hw) as (Hmin & Hmax & Hu0). specialize (Hu0 Hs). unfold in_range in *.
  isimp. zdec.
  rewrite (ibin_rem s x u) by lia. rewrite (ibin_div s x u) by lia.
  rewrite (ibin_add s 1 1) by (unfold in_range; lia). change (1 + 1) with 2.
  assert (Hq : 0 <= x / u) by (apply Z.div_pos; lia).
  rewrite (ibin_rem s (x / u) 2) by lia.
  rewrite (mod_2u x u H0).
  pose proof (Z.mod_pos_bound (x / u) 2 ltac:(lia)) as Be. pose proof (Z.mod_pos_bound x u H0) as Br.
  set (e := (x / u) mod 2) in *. set (r := x mod u) in *.
  unfold tri.
  destruct (0 =? e) eqn:E; [ apply Z.eqb_eq in E | apply Z.eqb_neq in E ].
  - replace (u * e + r) with r by nia. rewrite (proj2 (Z.ltb_lt r u)) by lia. reflexivity.
  - assert (He : e = 1) by lia. rewrite He. replace (u * 1 + r) with (u + r) by lia.
    rewrite (proj2 (Z.ltb_ge (u + r) u)) by lia.
    rewrite (ibin_sub s u r) by (unfold in_range; lia). f_equal. f_equal. f_equal. lia.
Qed.

(** the repaired signed ping-pong *)
Lemma spp s x u : wf s -> 2 <= imax s -> signed s = true -> in_range s x -> in_range s u -> 0 < u ->
  irun s (ienv [x; u]) p_s_pingpong = Ret ([], [let m := x mod (2 * u) in if u <? m then 2 * u - m else m]).
Proof.
  intros Hw H2 Hs Hx Hu H0. destruct (range_facts s Hw) as (Hmin & Hmax & _). pose proof (signed_min s Hs) as Hsm. unfold in_range in *.
  isimp. zdec.
  rewrite (ibin_add s 1 1) by (unfold in_range; lia). change (1 + 1) with 2.
  rewrite (ibin_quot s x u) by lia. rewrite (ibin_remt s x u) by lia.
  destruct (quot_rem_floor x u H0) as (Ex & Bx & Fneg & Fpos). cbv zeta in *.
  set (mt := Z.rem x u) in *. set (qt := Z.quot x u) in *.
  rewrite (ibin_remt s qt 2) by lia.
  rewrite (mod_2u x u H0).
  pose proof (Z.mod_pos_bound (x / u) 2 ltac:(lia)) as Be. pose proof (Z.mod_pos_bound x u H0) as Br.
  pose proof (Z.rem_bound_abs qt 2 ltac:(lia)) as Bq. pose proof (Z.quot_rem' qt 2) as Eq.
  destruct (mt <? 0) eqn:E1; [ apply Z.ltb_lt in E1 | apply Z.ltb_ge in E1 ].
  - destruct (Fneg E1) as (Fq & Fr). rewrite Fq, Fr.
    pose proof (Z.div_mod (qt - 1) 2 ltac:(lia)) as Ed. pose proof (Z.mod_pos_bound (qt - 1) 2 ltac:(lia)) as Bd.
    set (e := (qt - 1) mod 2) in *.
    rewrite (ibin_add s mt u) by (unfold in_range; lia).
    destruct (0 =? Z.rem qt 2) eqn:E; [ apply Z.eqb_eq in E | apply Z.eqb_neq in E ].
    + assert (He : e = 1) by lia. rewrite He. replace (u * 1 + (mt + u)) with (u + (mt + u)) by lia.
      rewrite (ibin_sub s u (mt + u)) by (unfold in_range; lia).
      rewrite (proj2 (Z.ltb_lt u (u + (mt + u)))) by lia. f_equal. f_equal. f_equal. lia.
    + assert (He : e = 0) by lia. rewrite He. replace (u * 0 + (mt + u)) with (mt + u) by lia.
      rewrite (proj2 (Z.ltb_ge u (mt + u))) by lia. reflexivity.
  - destruct (Fpos E1) as (Fq & Fr). rewrite Fq, Fr.
    pose proof (Z.div_mod qt 2 ltac:(lia)) as Ed. pose proof (Z.mod_pos_bound qt 2 ltac:(lia)) as Bd.
    set (e := qt mod 2) in *.
    destruct (0 =? Z.rem qt 2) eqn:E; [ apply Z.eqb_eq in E | apply Z.eqb_neq in E ].
    + assert (He : e = 0) by lia. rewrite He. replace (u * 0 + mt) with mt by lia.
      rewrite (proj2 (Z.ltb_ge u mt)) by lia. reflexivity.
    + assert (He : e = 1) by lia. rewrite He. replace (u * 1 + mt) with (u + mt) by lia.
      rewrite (ibin_sub s u mt) by (unfold in_range; lia).
      destruct (Z.eq_dec mt 0) as [Z0|NZ].
      * rewrite Z0. rewrite Z.add_0_r, Z.sub_0_r. rewrite Z.ltb_irrefl. reflexivity.
      * rewrite (proj2 (Z.ltb_lt u (u + mt))) by lia. f_equal. f_equal. f_equal. lia.
Qed.

(** the repaired signed wrapped (= wrapped_between(0, u)) *)
Lemma swr s x u : wf s -> signed s = true -> in_range s x -> in_range s u -> 0 < u ->
  irun s (ienv [x; u]) p_s_wrapped = Ret ([], [x mod u]).
Proof.
  intros Hw Hs Hx Hu H0. destruct (range_facts s Hw) as (Hmin & Hmax & _). pose proof (signed_min s Hs) as Hsm. unfold in_range in *.
  isimp. zdec.
  rewrite (ibin_sub s u 0) by (unfold in_range; lia). rewrite Z.sub_0_r.
  rewrite (ibin_remt s x u) by lia. rewrite (ibin_remt s 0 u) by lia. rewrite Z.rem_0_l by lia.
  destruct (quot_rem_floor x u H0) as (Ex & Bx & Fneg & Fpos). cbv zeta in *.
  set (mt := Z.rem x u) in *.
  destruct (mt <? 0) eqn:E1; [ apply Z.ltb_lt in E1 | apply Z.ltb_ge in E1 ].
  - destruct (Fneg E1) as (_ & Fr). rewrite Fr.
    rewrite (ibin_add s mt u) by (unfold in_range; lia).
    rewrite (ibin_sub s (mt + u) 0) by (unfold in_range; lia). rewrite Z.sub_0_r.
    rewrite (proj2 (Z.ltb_ge (mt + u) 0)) by lia.
    rewrite (ibin_add s 0 (mt + u)) by (unfold in_range; lia). reflexivity.
  - destruct (Fpos E1) as (_ & Fr). rewrite Fr.
    rewrite (ibin_sub s mt 0) by (unfold in_range; lia). rewrite Z.sub_0_r.
    rewrite (proj2 (Z.ltb_ge mt 0)) by lia.
    rewrite (ibin_add s 0 mt) by (unfold in_range; lia). reflexivity.
Qed.

Lemma C17_int_wrap : C17_int_wrap_stmt.
Proof.
  intros s x u Hw H2 Hx Hu. destruct (range_facts s Hw) as (Hmin & Hmax & Hu0).
  split; [ | split ].
  - intros Hs. specialize (Hu0 Hs). split; [ | split; [ | split ] ].
    + intros H0. unfold in_range in *. isimp. zdec. rewrite (ibin_rem s x u) by lia. reflexivity.
    + intros H0. isimp. zdec. reflexivity.
    + intros H0. apply upp; assumption.
    + intros H0. isimp. zdec. reflexivity.
  - intros Hs. split; [ | split; [ | split ] ].
    + intros H0. apply swr; assumption.
    + intros H0. isimp. zdec. reflexivity.
    + intros H0. apply spp; assumption.
    + intros H0. isimp. zdec. reflexivity.
  - intros m Hm. apply tri_range. exact Hm.
Qed.

Lemma C17_repaired : C17_repaired_stmt.
Proof. intros d. destruct d; repeat split; vm_compute; reflexivity. Qed.
