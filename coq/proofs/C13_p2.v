Require Import Reals List ZArith Lra Lia.
From VekLib Require Import Ops ROps LinAlg RLin.
From VekGen Require Import C13_gen.
From VekProofs Require Import C13_spec C13_tac.
Import ListNotations.
Local Open Scope R_scope.
Lemma pred2 : S_predicates 2 p_aabr_is_valid p_aabr_contains_point p_aabr_contains_aab p_aabr_collides_with_aab.
Proof. prove_predicates 2%nat. Qed.
