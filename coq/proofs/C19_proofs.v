Require Import List ZArith Lia String Bool Ring.
From VekLib Require Import Ops RingOps LinAlg Index MachineInt.
From VekGen Require Import C19_gen.
From VekProofs Require Import C19_spec.
Import ListNotations.

Ltac table := repeat (apply Forall_cons; [ | ]); try apply Forall_nil.
Ltac has_by tac :=
  lazymatch goal with
  | |- has _ _ => eexists; split; [ vm_compute; reflexivity | tac ]
  | |- has_in _ _ _ => eexists; split; [ vm_compute; reflexivity | tac ]
  end.
Ltac by_compute := intros a; vm_compute; reflexivity.
Ltac splits := repeat match goal with |- _ /\ _ => split end.
Ltac ccompute := cbv -[cT c0 c1 cadd cmul csub copp jc jn j1 j2 jp jlt jeq cF].
Lemma cons_eq {A} (x y : A) l l' : x = y -> l = l' -> x :: l = y :: l'.
Proof. intros -> ->; reflexivity. Qed.

Section Proofs.
  Variable C : cring.
  Add Ring Cring : (cth C).

  Lemma C19_conv : C19_conv_stmt C.
  Proof. unfold C19_conv_stmt, conv_table, tuple_table, conv. splits; try (table; cbn [fst snd]); has_by by_compute. Qed.

  Ltac by_ring_ex := intros a; eexists; split; [ ccompute; reflexivity | ccompute; repeat (apply cons_eq; [ ring | ]); reflexivity ].
  Lemma C19_swizzle : C19_swizzle_stmt C.
  Proof. unfold C19_swizzle_stmt, swizzle_table, const_table. splits; try (table; cbn [fst snd]); has_by ltac:(first [ by_compute | by_ring_ex ]). Qed.

  Lemma C19_shuffle : C19_shuffle_stmt C.
  Proof.
    unfold C19_shuffle_stmt. split.
    - table; (split; [ cbn [seq]; table; splits; has_by by_compute | cbn [seq]; table; has_by by_compute ]).
    - cbn [seq]; table; has_by by_compute.
  Qed.

  Lemma C19_color : C19_color_stmt C.
  Proof. unfold C19_color_stmt. splits; has_by ltac:(first [ by_compute | by_ring_ex ]). Qed.

  Lemma C19_embed : C19_embed_stmt C.
  Proof.
    unfold C19_embed_stmt. table;
      (do 2 eexists; split; [ vm_compute; reflexivity | split; [ vm_compute; reflexivity | ] ];
       intros a; do 2 eexists; split; [ ccompute; reflexivity | split; [ ccompute; reflexivity | ] ];
       repeat (apply cons_eq; [ ring | ]); reflexivity).
  Qed.
End Proofs.

Local Open Scope Z_scope.
Lemma imax_nonneg s : 0 < width s -> imin s <= 0 <= imax s.
Proof.
  intros Hw. unfold imin, imax. destruct (signed s).
  - assert (0 < 2 ^ (width s - 1)) by (apply Z.pow_pos_nonneg; lia). lia.
  - assert (0 < 2 ^ width s) by (apply Z.pow_pos_nonneg; lia). lia.
Qed.
Lemma norm_in s x : in_range s x -> norm s x = Some x.
Proof. unfold norm, in_rangeb, in_range. intros [H1 H2]. apply Z.leb_le in H1. apply Z.leb_le in H2. rewrite H1, H2. reflexivity. Qed.

Lemma C19_int_invert : C19_int_invert_stmt.
Proof.
  intros s a Hw. pose proof (imax_nonneg s Hw) as [Hmin Hmax].
  assert (Hsub : forall x, 0 <= x <= imax s -> norm s (imax s - x) = Some (imax s - x)) by (intros x Hx; apply norm_in; unfold in_range; lia).
  assert (Hsub2 : forall x, 0 <= x <= imax s -> norm s (imax s - (imax s - x)) = Some x).
  { intros x Hx. replace (imax s - (imax s - x)) with x by lia. apply norm_in; unfold in_range; lia. }
  split.
  - intros Hc. pose proof (Hc 0%nat ltac:(lia)) as H0. pose proof (Hc 1%nat ltac:(lia)) as H1. pose proof (Hc 2%nat ltac:(lia)) as H2.
    repeat split; (eexists; split; [ vm_compute; reflexivity | intros _; cbv [irun inodes inode iatom p_nodes p_tree nth app ibin itree map all_some];
      repeat first [ rewrite Hsub by assumption | rewrite Hsub2 by assumption | progress cbv beta iota delta [nth app all_some map iatom] ]; reflexivity ]).
  - intros Hc H3. pose proof (Hc 0%nat ltac:(lia)) as H0. pose proof (Hc 1%nat ltac:(lia)) as H1. pose proof (Hc 2%nat ltac:(lia)) as H2.
    repeat split; (eexists; split; [ vm_compute; reflexivity | intros _; cbv [irun inodes inode iatom p_nodes p_tree nth app ibin itree map all_some];
      repeat first [ rewrite Hsub by assumption | progress cbv beta iota delta [nth app all_some map iatom] ]; reflexivity ]).
Qed.
