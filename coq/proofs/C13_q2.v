Require Import Reals List ZArith Lra Lia.
From VekLib Require Import Ops ROps LinAlg RLin.
From VekGen Require Import C13_gen.
From VekProofs Require Import C13_spec C13_tac.
Import ListNotations.
Local Open Scope R_scope.
Lemma union2 : S_union 2 p_aabr_union p_aabr_expand_to_contain. Proof. prove_union 2%nat p_aabr_union. Qed.
Lemma inter2 : S_intersection 2 p_aabr_intersection p_aabr_intersect. Proof. prove_intersection 2%nat p_aabr_intersection. Qed.
Lemma expt2 : S_expand_point 2 p_aabr_expanded_to_contain_point p_aabr_expand_to_contain_point. Proof. prove_expand_point 2%nat p_aabr_expanded_to_contain_point. Qed.
Lemma meas2 : S_measures 2 p_aabr_center p_aabr_size p_aabr_half_size p_aabr_made_valid p_aabr_make_valid p_aabr_new_empty.
Proof.
  intros k a; cbv zeta; split; [ | split; [ | split; [ | split; [ | split ] ] ] ].
  - ret_simple ltac:(cases_i; box_unfold; field).
  - ret_simple ltac:(cases_i; box_unfold; ring).
  - ret_simple ltac:(cases_i; box_unfold; field).
  - ret_simple ltac:(intros q; split; [ intros Hq; unf; inst_all; cases_i; box_unfold; lra | intros Hq; unf; inst_all; cases_i; box_unfold; lra ]).
  - ret_simple ltac:(split; [ unf; cases_i; box_unfold; lra | cases_i; box_unfold; rm; lra ]).
  - rrun_unfold; reflexivity.
Qed.
