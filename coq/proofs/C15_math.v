(** * C15 — mathematics used by the extrema proofs: a differentiable function on [0,1] attains its minimum
    at an end point or at an interior zero of its derivative, and the roots of a quadratic. *)
Require Import Reals Lra Psatz.
From Coquelicot Require Import Coquelicot.
Local Open Scope R_scope.

Lemma min_principle (f f' : R -> R) :
  (forall x, is_derive f x (f' x)) ->
  forall t, f t <= f 0 -> f t <= f 1 -> (forall m, 0 < m < 1 -> f' m = 0 -> f t <= f m) ->
  forall u, 0 <= u <= 1 -> f t <= f u.
Proof.
  intros Hd t H0 H1 Hm u Hu.
  assert (Hder : forall x, derivable_pt_lim f x (f' x)) by (intros x; apply is_derive_Reals, Hd).
  assert (Hdv : forall x, derivable_pt f x) by (intros x; exists (f' x); apply Hder).
  assert (Hc : forall c, 0 <= c <= 1 -> continuity_pt f c) by (intros c _; apply derivable_continuous_pt, Hdv).
  destruct (continuity_ab_min f 0 1 ltac:(lra) Hc) as [mx [Hmin Hmx]].
  apply Rle_trans with (f mx); [ | apply Hmin; exact Hu ].
  destruct (Req_dec mx 0) as [->|Hn0]; [ exact H0 | ].
  destruct (Req_dec mx 1) as [->|Hn1]; [ exact H1 | ].
  apply Hm; [ lra | ].
  rewrite <- (derive_pt_eq_0 f mx (f' mx) (Hdv mx) (Hder mx)).
  apply (deriv_minimum f 0 1 mx (Hdv mx)); [ lra | lra | ].
  intros x Hx0 Hx1. apply Hmin. lra.
Qed.

Lemma max_principle (f f' : R -> R) :
  (forall x, is_derive f x (f' x)) ->
  forall t, f 0 <= f t -> f 1 <= f t -> (forall m, 0 < m < 1 -> f' m = 0 -> f m <= f t) ->
  forall u, 0 <= u <= 1 -> f u <= f t.
Proof.
  intros Hd t H0 H1 Hm u Hu.
  assert (H : (fun x => - f x) t <= (fun x => - f x) u).
  { apply (min_principle (fun x => - f x) (fun x => - f' x)).
    - intros x. apply (is_derive_opp f x (f' x)), Hd.
    - cbv beta. lra.
    - cbv beta. lra.
    - intros m Hm01 Hz. cbv beta. assert (f' m = 0) by lra. specialize (Hm m Hm01 H). lra.
    - exact Hu. }
  cbv beta in H. lra.
Qed.

(** roots of a x^2 + b x + c *)
Lemma sq_identity a b c m : a * m * m + b * m + c = 0 -> (2 * a * m + b) * (2 * a * m + b) = b * b - 4 * a * c.
Proof. intros H. replace (b * b - 4 * a * c) with (b * b - 4 * a * c + 4 * a * (a * m * m + b * m + c)) by (rewrite H; ring). ring. Qed.
Lemma root_linear b c m : b <> 0 -> b * m + c = 0 -> m = - c / b.
Proof. intros Hb H. field_simplify_eq; [ lra | exact Hb ]. Qed.
Lemma root_none a b c m : a <> 0 -> b * b - 4 * a * c < 0 -> a * m * m + b * m + c <> 0.
Proof. intros Ha Hd H. pose proof (sq_identity a b c m H) as E. pose proof (Rle_0_sqr (2 * a * m + b)) as S. unfold Rsqr in S. lra. Qed.
Lemma root_double a b c m : a <> 0 -> b * b - 4 * a * c = 0 -> a * m * m + b * m + c = 0 -> m = - b / (a + a).
Proof.
  intros Ha Hd H. pose proof (sq_identity a b c m H) as E. rewrite Hd in E.
  assert (E2 : 2 * a * m + b = 0) by (apply Rsqr_0_uniq; unfold Rsqr; exact E). field_simplify_eq; [ lra | lra ].
Qed.
Lemma root_two a b c sq m : a <> 0 -> 0 <= sq -> sq * sq = b * b - 4 * a * c -> a * m * m + b * m + c = 0 ->
  m = (- b - sq) / (a + a) \/ m = (- b + sq) / (a + a).
Proof.
  intros Ha Hs Hd H. pose proof (sq_identity a b c m H) as E. rewrite <- Hd in E.
  assert (E2 : (2 * a * m + b - sq) * (2 * a * m + b + sq) = 0) by (ring_simplify; ring_simplify in E; lra).
  apply Rmult_integral in E2. destruct E2 as [E2|E2]; [ right | left ]; field_simplify_eq; lra.
Qed.
