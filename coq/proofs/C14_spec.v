(** * C14 — statements: Bezier evaluate, derivative, split and conversions obey the Bernstein identities.
    Carrier: the real numbers; all control points, all parameters (also outside [0,1]).
    A curve of degree n in dimension d is stored as its n+1 control points; P i k = coordinate k of point i. *)
Require Import Reals List ZArith Lia.
From Coquelicot Require Import Coquelicot.
From VekLib Require Import Ops ROps LinAlg RLin.
From VekGen Require Import C14_gen.
Import ListNotations.
Local Open Scope R_scope.

Definition off (a : nat -> R) (o : nat) : nat -> R := fun i => a (o + i)%nat.
Definition vecv (s : list R) : nat -> R := fun i => nth i s 0.
Definition pts (d : nat) (a : nat -> R) : nat -> nat -> R := fun i k => a (d * i + k)%nat.
Definition returns (r : res (out R)) (n : nat) (Q : (nat -> R) -> Prop) : Prop :=
  exists s, r = Ret ([], s) /\ length s = n /\ Q (vecv s).

(** Bernstein polynomials of degree 2 and 3, and their derivatives in t *)
Definition bern (deg : nat) (P : nat -> nat -> R) (t : R) (k : nat) : R :=
  match deg with
  | 2%nat => P 0%nat k * (1 - t) * (1 - t) + P 1%nat k * 2 * (1 - t) * t + P 2%nat k * t * t
  | _ => P 0%nat k * (1 - t) * (1 - t) * (1 - t) + P 1%nat k * 3 * (1 - t) * (1 - t) * t
         + P 2%nat k * 3 * (1 - t) * t * t + P 3%nat k * t * t * t
  end.
Definition bern' (deg : nat) (P : nat -> nat -> R) (t : R) (k : nat) : R :=
  match deg with
  | 2%nat => (P 1%nat k - P 0%nat k) * (1 - t) * 2 + (P 2%nat k - P 1%nat k) * t * 2
  | _ => (P 1%nat k - P 0%nat k) * (1 - t) * (1 - t) * 3 + (P 2%nat k - P 1%nat k) * 2 * (1 - t) * t * 3
         + (P 3%nat k - P 2%nat k) * t * t * 3
  end.

(** curves: (degree, dimension, programs) *)
Record curve := mk_curve { deg : nat; dim : nat; p_eval : prog; p_deriv : prog; p_split : prog; p_rev : prog; p_rev_inplace : prog;
                  p_flipx : prog; p_flipy : prog; p_flipx_in : prog; p_flipy_in : prog; p_from_seg : prog; p_from_range : prog;
                  p_into_array : prog; p_tangent : prog }.
Definition npts (c : curve) : nat := (dim c * S (deg c))%nat.
Definition curves : list curve :=
  [ mk_curve 2 2 p_quad2_evaluate p_quad2_evaluate_derivative p_quad2_split p_quad2_reversed p_quad2_reverse p_quad2_flipped_x p_quad2_flipped_y p_quad2_flip_x p_quad2_flip_y p_quad2_from_line_segment p_quad2_from_range p_quad2_into_array p_quad2_normalized_tangent;
    mk_curve 2 3 p_quad3_evaluate p_quad3_evaluate_derivative p_quad3_split p_quad3_reversed p_quad3_reverse p_quad3_flipped_x p_quad3_flipped_y p_quad3_flip_x p_quad3_flip_y p_quad3_from_line_segment p_quad3_from_range p_quad3_into_array p_quad3_normalized_tangent;
    mk_curve 3 2 p_cubic2_evaluate p_cubic2_evaluate_derivative p_cubic2_split p_cubic2_reversed p_cubic2_reverse p_cubic2_flipped_x p_cubic2_flipped_y p_cubic2_flip_x p_cubic2_flip_y p_cubic2_from_line_segment p_cubic2_from_range p_cubic2_into_array p_cubic2_normalized_tangent;
    mk_curve 3 3 p_cubic3_evaluate p_cubic3_evaluate_derivative p_cubic3_split p_cubic3_reversed p_cubic3_reverse p_cubic3_flipped_x p_cubic3_flipped_y p_cubic3_flip_x p_cubic3_flip_y p_cubic3_from_line_segment p_cubic3_from_range p_cubic3_into_array p_cubic3_normalized_tangent ]%nat.

(** ** evaluate is the Bernstein polynomial (start at 0, end at 1); evaluate_derivative is its exact derivative *)
Definition C14_evaluate_stmt : Prop :=
  List.Forall (fun c => forall k a, let P := pts (dim c) a in let t := a (npts c) in
      returns (rrun k a (p_eval c)) (dim c) (fun v => forall j, (j < dim c)%nat -> v j = bern (deg c) P t j) /\
      returns (rrun k a (p_deriv c)) (dim c) (fun v => forall j, (j < dim c)%nat -> v j = bern' (deg c) P t j)) curves /\
  (forall dg P j, (dg = 2 \/ dg = 3)%nat -> bern dg P 0 j = P 0%nat j /\ bern dg P 1 j = P dg j) /\
  (forall dg P j t, is_derive (fun x => bern dg P x j) t (bern' dg P t j)).

(** ** split(t): the halves re-parametrise the curve on [0,t] and [t,1] and meet at its point for t *)
Definition C14_split_stmt : Prop :=
  List.Forall (fun c => forall k a, let P := pts (dim c) a in let t := a (npts c) in
      returns (rrun k a (p_split c)) (2 * npts c) (fun s =>
        let A := pts (dim c) s in let B := pts (dim c) (off s (npts c)) in
        forall u j, (j < dim c)%nat ->
          bern (deg c) A u j = bern (deg c) P (t * u) j /\
          bern (deg c) B u j = bern (deg c) P (t + (1 - t) * u) j /\
          A (deg c) j = bern (deg c) P t j /\ B 0%nat j = bern (deg c) P t j)) curves.

(** ** reversal (evaluate at 1-t), axis flips, conversion from a segment/range, array form *)
Definition C14_conversions_stmt : Prop :=
  List.Forall (fun c => forall k a, let P := pts (dim c) a in let d := dim c in
      returns (rrun k a (p_rev c)) (npts c) (fun s => forall t j, (j < d)%nat -> bern (deg c) (pts d s) t j = bern (deg c) P (1 - t) j) /\
      rrun k a (p_rev_inplace c) = rrun k a (p_rev c) /\
      returns (rrun k a (p_flipx c)) (npts c) (fun s => forall t j, (j < d)%nat ->
         bern (deg c) (pts d s) t j = if Nat.eqb j 0 then - bern (deg c) P t j else bern (deg c) P t j) /\
      returns (rrun k a (p_flipy c)) (npts c) (fun s => forall t j, (j < d)%nat ->
         bern (deg c) (pts d s) t j = if Nat.eqb j 1 then - bern (deg c) P t j else bern (deg c) P t j) /\
      rrun k a (p_flipx_in c) = rrun k a (p_flipx c) /\ rrun k a (p_flipy_in c) = rrun k a (p_flipy c) /\
      (* a segment (start, end) becomes the curve t |-> start + t (end - start) *)
      returns (rrun k a (p_from_seg c)) (npts c) (fun s => forall t j, (j < d)%nat ->
         bern (deg c) (pts d s) t j = a j + t * (a (d + j)%nat - a j)) /\
      rrun k a (p_from_range c) = rrun k a (p_from_seg c) /\
      returns (rrun k a (p_into_array c)) (npts c) (fun s => forall i, (i < npts c)%nat -> s i = a i) /\
      (* normalized_tangent = derivative / |derivative| *)
      (forall dv, rrun k a (p_deriv c) = Ret ([], dv) ->
         returns (rrun k a (p_tangent c)) d (fun v => forall j, (j < d)%nat ->
            v j = vecv dv j / sqrt (fold_left Rplus (map (fun i => vecv dv i * vecv dv i) (seq 1 (d - 1))) (vecv dv 0%nat * vecv dv 0%nat))))) curves /\
  (* z flips, 3D only *)
  List.Forall (fun '(dg, pz, pz_in) => forall k a, let P := pts 3 a in
      returns (rrun k a pz) (3 * S dg) (fun s => forall t j, (j < 3)%nat ->
         bern dg (pts 3 s) t j = if Nat.eqb j 2 then - bern dg P t j else bern dg P t j) /\
      rrun k a pz_in = rrun k a pz)
    [ (2%nat, p_quad3_flipped_z, p_quad3_flip_z); (3%nat, p_cubic3_flipped_z, p_cubic3_flip_z) ].

(** ** degree elevation and vector conversions preserve the curve; 2D <-> 3D *)
Definition C14_elevation_stmt : Prop :=
  List.Forall (fun '(d, p) => forall k a, returns (rrun k a p) (d * 4) (fun s => forall t j, (j < d)%nat ->
      bern 3 (pts d s) t j = bern 2 (pts d a) t j))
    [ (2%nat, p_quad2_into_cubic); (3%nat, p_quad3_into_cubic); (2%nat, p_cubic2_from_quadratic); (3%nat, p_cubic3_from_quadratic) ] /\
  (forall k a, returns (rrun k a p_quad2_from_vec3) 6 (fun s => forall i, (i < 6)%nat -> s i = a i)) /\
  (forall k a, returns (rrun k a p_cubic3_from_vec4) 12 (fun s => forall i, (i < 12)%nat -> s i = a i)) /\
  List.Forall (fun '(np, p) => forall k a, returns (rrun k a p) (3 * np) (fun s => forall i, (i < np)%nat ->
      pts 3 s i 0%nat = pts 2 a i 0%nat /\ pts 3 s i 1%nat = pts 2 a i 1%nat /\ pts 3 s i 2%nat = 0))
    [ (3%nat, p_quad2_into_3d); (4%nat, p_cubic2_into_3d) ] /\
  List.Forall (fun '(np, p) => forall k a, returns (rrun k a p) (2 * np) (fun s => forall i, (i < np)%nat ->
      pts 2 s i 0%nat = pts 3 a i 0%nat /\ pts 2 s i 1%nat = pts 3 a i 1%nat))
    [ (3%nat, p_quad3_into_2d); (4%nat, p_cubic3_into_2d) ].

(** ** coefficient-matrix form: B(t) = [1 t t^2 (t^3)] M P with M = matrix() (a row-major matrix) *)
Definition powers (t : R) : nat -> R := fun i => nth i [1; t; t * t; t * t * t] 0.
Definition C14_matrix_stmt : Prop :=
  List.Forall (fun '(dg, p) => forall k a, exists m, rrun k a p = Ret ([], m) /\ length m = (S dg * S dg)%nat /\
      forall (P : nat -> nat -> R) t j,
        bern dg P t j = fold_right Rplus 0 (map (fun r => powers t r *
                          fold_right Rplus 0 (map (fun c => nth (S dg * r + c) m 0 * P c j) (seq 0 (S dg)))) (seq 0 (S dg))))
    [ (2%nat, p_quad2_matrix); (2%nat, p_quad3_matrix); (3%nat, p_cubic2_matrix); (3%nat, p_cubic3_matrix) ].

(** ** multiplication by matrices: the curve of transformed control points is the transformed curve.
    [lin]: M is d x d and acts linearly; otherwise M is (d+1)x(d+1) and acts on points (w = 1, no divide) *)
Definition Rlay (l : layout) := @absL R 0 l.
Definition transform (lin : bool) (d : nat) (M : nat -> nat -> R) (p : nat -> R) (j : nat) : R :=
  if lin then Rmv d M p j else Rmv (S d) M (fun i => if Nat.ltb i d then p i else 1) j.
Definition C14_matrix_mul_stmt : Prop :=
  List.Forall (fun '((lin, l, dg, d, p) : bool * layout * nat * nat * prog) => forall k a,
      let md := if lin then d else S d in let M := Rlay l md (map a (seq 0 (md * md))) in
      let P := pts d (off a (md * md)) in
      returns (rrun k a p) (d * S dg) (fun s => forall t j, (j < d)%nat ->
        bern dg (pts d s) t j = transform lin d M (fun i => bern dg P t i) j))
    [ (true, Lr, 2, 2, p_mat2r_mul_quad2); (true, Lc, 2, 2, p_mat2c_mul_quad2); (false, Lr, 2, 2, p_mat3r_mul_quad2); (false, Lc, 2, 2, p_mat3c_mul_quad2);
      (true, Lr, 3, 2, p_mat2r_mul_cubic2); (true, Lc, 3, 2, p_mat2c_mul_cubic2); (false, Lr, 3, 2, p_mat3r_mul_cubic2); (false, Lc, 3, 2, p_mat3c_mul_cubic2);
      (true, Lr, 2, 3, p_mat3r_mul_quad3); (true, Lc, 2, 3, p_mat3c_mul_quad3); (false, Lr, 2, 3, p_mat4r_mul_quad3); (false, Lc, 2, 3, p_mat4c_mul_quad3);
      (true, Lr, 3, 3, p_mat3r_mul_cubic3); (true, Lc, 3, 3, p_mat3c_mul_cubic3); (false, Lr, 3, 3, p_mat4r_mul_cubic3); (false, Lc, 3, 3, p_mat4c_mul_cubic3) ]%nat.

(** ** the unit quarter circle stays within 0.03% of radius 1; the unit circle is its four mirror images *)
Definition C14_circle_stmt : Prop :=
  (forall k a, exists s, rrun k a p_cubic2_unit_quarter_circle = Ret ([], s) /\ length s = 8%nat /\
     forall t, 0 <= t <= 1 ->
       Rabs (sqrt (bern 3 (pts 2 (vecv s)) t 0%nat * bern 3 (pts 2 (vecv s)) t 0%nat
                   + bern 3 (pts 2 (vecv s)) t 1%nat * bern 3 (pts 2 (vecv s)) t 1%nat) - 1) <= 3 / 10000) /\
  (forall k a, exists s3 s2, rrun k a p_cubic3_unit_quarter_circle = Ret ([], s3) /\ rrun k a p_cubic2_unit_quarter_circle = Ret ([], s2) /\
     forall i, (i < 4)%nat -> pts 3 (vecv s3) i 0%nat = pts 2 (vecv s2) i 0%nat /\ pts 3 (vecv s3) i 1%nat = pts 2 (vecv s2) i 1%nat /\ pts 3 (vecv s3) i 2%nat = 0) /\
  (forall k a, exists q c, rrun k a p_cubic2_unit_quarter_circle = Ret ([], q) /\ rrun k a p_cubic2_unit_circle = Ret ([], c) /\ length c = 32%nat /\
     forall i, (i < 4)%nat ->
       let Q := pts 2 (vecv q) in let C n := pts 2 (off (vecv c) (8 * n)) in
       (C 0%nat i 0%nat = Q i 0%nat /\ C 0%nat i 1%nat = Q i 1%nat) /\
       (C 1%nat i 0%nat = - Q i 0%nat /\ C 1%nat i 1%nat = Q i 1%nat) /\
       (C 2%nat i 0%nat = - Q i 0%nat /\ C 2%nat i 1%nat = - Q i 1%nat) /\
       (C 3%nat i 0%nat = Q i 0%nat /\ C 3%nat i 1%nat = - Q i 1%nat)).
