Require Import Reals List ZArith Lia Lra.
From VekLib Require Import Ops ROps LinAlg RLin.
From VekGen Require Import C13_gen.
From VekProofs Require Import C13_spec.
Import ListNotations.
Local Open Scope R_scope.
Lemma C13_misc : C13_misc_stmt.
Proof.
  unfold C13_misc_stmt.
  do 6 (split; [ intros k a; rrun_unfold; reflexivity | ]).
  split; [ | split; [ | split ] ].
  - intros k a. rrun_unfold. reflexivity.
  - intros k a. rrun_unfold. reflexivity.
  - intros k F a. unfold p_aabr_map. cbv [run den_nodes den_tree den_node den_atom p_nodes p_tree nth app map tab seq Nat.add]. reflexivity.
  - intros k F a. unfold p_aabb_map. cbv [run den_nodes den_tree den_node den_atom p_nodes p_tree nth app map tab seq Nat.add]. reflexivity.
Qed.
