Require Import Reals List ZArith Lra Lia.
From VekLib Require Import Ops ROps LinAlg RLin.
From VekGen Require Import C12_gen.
From VekProofs Require Import C12_spec.
Import ListNotations.
Local Open Scope R_scope.

Ltac u12 := cbv [off vecv env3 lerpR lerp4 dot4 clamp01 List.nth Nat.add Nat.mul Nat.eqb] in *.
Ltac rm := unfold Rmin, Rmax in *;
  repeat match goal with
  | |- context [Rle_dec ?x ?y] =>
      lazymatch x with context [Rle_dec _ _] => fail | _ => idtac end;
      lazymatch y with context [Rle_dec _ _] => fail | _ => idtac end;
      destruct (Rle_dec x y)
  end.
(** on the boundary of clamp01 the two sides pick different but equal expressions *)
Ltac fix_t :=
  try match goal with H : ?t <= 0 |- _ => let E := fresh "E" in assert (E : t = 0) by lra; rewrite E end;
  try match goal with H : ~ ?t <= 1 |- _ => let E := fresh "E" in assert (E : t = 1) by lra; rewrite E end;
  try match goal with H : ?t <= 1, H2 : ~ 1 < ?t |- _ => idtac end.
Ltac cases_i :=
  match goal with
  | |- forall i : nat, (i < _)%nat -> _ =>
      let i := fresh "i" in let Hi := fresh "Hi" in intros i Hi;
      repeat (destruct i as [|i]; [ | try (exfalso; lia) ]); try (exfalso; lia)
  end.
(** a program whose only decisions are the two of clamp01(t) *)
Ltac ret1c := unfold ret1; rrun_unfold; split_conds; try (exfalso; lra); (eexists; split; [ reflexivity | u12; rm; try lra; try ring; try (fix_t; ring) ]).
Ltac retn tac := unfold returns; rrun_unfold; split_conds; try (exfalso; lra);
                 (eexists; split; [ reflexivity | split; [ reflexivity | tac ] ]).

Lemma C12_scalar : C12_scalar_stmt.
Proof.
  intros k a. cbv zeta.
  split; [ ret1c | ]. split; [ ret1c | ]. split; [ ret1c | ]. split; [ ret1c | ].
  split; [ u12; ring | ]. split; [ u12; ring | ]. split; [ intros; u12; ring | ].
  repeat split; rrun_unfold; reflexivity.
Qed.

Ltac prove_vlerp :=
  intros k a; cbv zeta;
  repeat match goal with
  | |- returns _ _ _ /\ _ => split; [ retn ltac:(cases_i; u12; rm; try lra; try ring; try (fix_t; ring)) | ]
  | |- (_ = _) /\ _ => split; [ rrun_unfold; reflexivity | ]
  end; rrun_unfold; reflexivity.

Lemma C12_vector : C12_vector_stmt.
Proof.
  unfold C12_vector_stmt.
  repeat match goal with |- vlerp_ok _ _ _ _ _ _ _ _ _ _ _ _ /\ _ => split; [ prove_vlerp | ] end; prove_vlerp.
Qed.

Lemma C12_transition : C12_transition_stmt.
Proof.
  intros k F a. cbv zeta.
  repeat (apply Forall_cons; [ | ]); try apply Forall_nil;
    (split; unfold grun; run_R; u12; reflexivity).
Qed.
