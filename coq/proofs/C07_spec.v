(** * C07 — statements: affine builders and Transform act on points as defined and chain in call order.
    Carrier: an arbitrary commutative ring [C] (sin/cos of the rotation steps are arbitrary functions). *)
Require Import List ZArith Lia.
From VekLib Require Import Ops RingOps LinAlg.
From VekGen Require Import C07_gen.
Import ListNotations.

Section Spec.
  Variable C : cring.
  Notation "x + y" := (cadd C x y). Notation "x * y" := (cmul C x y). Notation "x - y" := (csub C x y).
  Notation "- x" := (copp C x). Notation "0" := (c0 C). Notation "1" := (c1 C).
  Definition two : C := 1 + 1.

  Definition aL := @absL C 0.
  Definition MM (n : nat) := @mm C 0 (cadd C) (cmul C) n.
  Definition MV (n : nat) := @mv C 0 (cadd C) (cmul C) n.
  Definition I4 := @ident C 0 1.
  Definition vec (s : list C) : nat -> C := abs_vec 0 s.

  (** textbook matrices *)
  Definition Ttrans3 (v : nat -> C) : nat -> nat -> C := fun i j =>
    match i, j with
    | 0, 0 => 1 | 1, 1 => 1 | 2, 2 => 1 | 3, 3 => 1
    | 0, 3 => v 0%nat | 1, 3 => v 1%nat | 2, 3 => v 2%nat
    | _, _ => 0 end.
  Definition Ttrans2_4 (v : nat -> C) : nat -> nat -> C := fun i j =>
    match i, j with
    | 0, 0 => 1 | 1, 1 => 1 | 2, 2 => 1 | 3, 3 => 1
    | 0, 3 => v 0%nat | 1, 3 => v 1%nat
    | _, _ => 0 end.
  Definition Tscale3 (v : nat -> C) : nat -> nat -> C := fun i j =>
    match i, j with
    | 0, 0 => v 0%nat | 1, 1 => v 1%nat | 2, 2 => v 2%nat | 3, 3 => 1
    | _, _ => 0 end.
  (** 3x3: 2D translation, 3-axis scale *)
  Definition Ttrans2_3 (v : nat -> C) : nat -> nat -> C := fun i j =>
    match i, j with
    | 0, 0 => 1 | 1, 1 => 1 | 2, 2 => 1
    | 0, 2 => v 0%nat | 1, 2 => v 1%nat
    | _, _ => 0 end.
  Definition Tscale3_3 (v : nat -> C) : nat -> nat -> C := fun i j =>
    match i, j with 0, 0 => v 0%nat | 1, 1 => v 1%nat | 2, 2 => v 2%nat | _, _ => 0 end.
  (** 2x2 *)
  Definition Tscale2 (v : nat -> C) : nat -> nat -> C := fun i j =>
    match i, j with 0, 0 => v 0%nat | 1, 1 => v 1%nat | _, _ => 0 end.
  Definition Tshearx (k : C) : nat -> nat -> C := fun i j =>
    match i, j with 0, 0 => 1 | 0, 1 => k | 1, 1 => 1 | _, _ => 0 end.
  Definition Tsheary (k : C) : nat -> nat -> C := fun i j =>
    match i, j with 0, 0 => 1 | 1, 0 => k | 1, 1 => 1 | _, _ => 0 end.

  (** homogeneous extension of a point (w = 1) / direction (w = 0) *)
  Definition ext (n : nat) (p : nat -> C) (w : C) : nat -> C := fun k => if Nat.ltb k n then p k else w.
  Definition off (a : nat -> C) (o : nat) : nat -> C := fun i => a (o + i)%nat.

  (** ** constructors denote the textbook matrices (any parameters) *)
  Definition is_ctor (n : nat) (l : layout) (M : (nat -> C) -> nat -> nat -> C) (p : prog) : Prop :=
    forall a, exists s, crun C a p = Ret ([], s) /\ length s = (n * n)%nat /\ meq n (aL l n s) (M a).
  Definition ctor_table : list (nat * layout * ((nat -> C) -> nat -> nat -> C) * prog) :=
    [ (4, Lr, Ttrans2_4, p_mat4r_translation_2d); (4, Lr, Ttrans3, p_mat4r_translation_3d); (4, Lr, Tscale3, p_mat4r_scaling_3d);
      (4, Lc, Ttrans2_4, p_mat4c_translation_2d); (4, Lc, Ttrans3, p_mat4c_translation_3d); (4, Lc, Tscale3, p_mat4c_scaling_3d);
      (3, Lr, Ttrans2_3, p_mat3r_translation_2d); (3, Lr, Tscale3_3, p_mat3r_scaling_3d);
      (3, Lc, Ttrans2_3, p_mat3c_translation_2d); (3, Lc, Tscale3_3, p_mat3c_scaling_3d);
      (2, Lr, Tscale2, p_mat2r_scaling_2d); (2, Lr, fun a => Tshearx (a 0%nat), p_mat2r_shearing_x); (2, Lr, fun a => Tsheary (a 0%nat), p_mat2r_shearing_y);
      (2, Lc, Tscale2, p_mat2c_scaling_2d); (2, Lc, fun a => Tshearx (a 0%nat), p_mat2c_shearing_x); (2, Lc, fun a => Tsheary (a 0%nat), p_mat2c_shearing_y) ].
  Definition C07_constructors_stmt : Prop := Forall (fun '(n, l, M, p) => is_ctor n l M p) ctor_table.

  (** ** how the textbook matrices act: translation moves points and leaves directions, scaling is per axis,
      shear adds k times the other coordinate *)
  Definition C07_actions_stmt : Prop :=
    forall v p : nat -> C, forall k : C,
      veq 3 (MV 4 (Ttrans3 v) (ext 3 p 1)) (fun i => p i + v i) /\
      veq 3 (MV 4 (Ttrans3 v) (ext 3 p 0)) p /\
      veq 3 (MV 4 (Tscale3 v) (ext 3 p 1)) (fun i => v i * p i) /\
      veq 3 (MV 4 (Tscale3 v) (ext 3 p 0)) (fun i => v i * p i) /\
      veq 2 (MV 3 (Ttrans2_3 v) (ext 2 p 1)) (fun i => p i + v i) /\
      veq 2 (MV 3 (Ttrans2_3 v) (ext 2 p 0)) p /\
      veq 2 (MV 2 (Tscale2 v) p) (fun i => v i * p i) /\
      veq 2 (MV 2 (Tshearx k) p) (fun i => match i with 0 => p 0%nat + k * p 1%nat | _ => p i end) /\
      veq 2 (MV 2 (Tsheary k) p) (fun i => match i with 1 => p 1%nat + k * p 0%nat | _ => p i end).

  (** ** mul_point / mul_direction use w = 1 / w = 0 (matrix at offset 0, vector after it) *)
  Definition is_mulp (n : nat) (l : layout) (w : C) (p : prog) : Prop :=
    forall a, exists s, crun C a p = Ret ([], s) /\ length s = (n - 1)%nat /\
      veq (n - 1) (vec s) (MV n (aL l n (tab (n * n) a 0)) (ext (n - 1) (off a (n * n)) w)).
  Definition mulp_table : list (nat * layout * C * prog) :=
    [ (4, Lr, 1, p_mat4r_mul_point); (4, Lr, 0, p_mat4r_mul_direction); (4, Lc, 1, p_mat4c_mul_point); (4, Lc, 0, p_mat4c_mul_direction);
      (3, Lr, 1, p_mat3r_mul_point_2d); (3, Lr, 0, p_mat3r_mul_direction_2d); (3, Lc, 1, p_mat3c_mul_point_2d); (3, Lc, 0, p_mat3c_mul_direction_2d) ].
  Definition C07_mul_point_stmt : Prop := Forall (fun '(n, l, w, p) => is_mulp n l w p) mulp_table.
  Definition is_mulv2 (l : layout) (p : prog) : Prop :=
    forall a, exists s, crun C a p = Ret ([], s) /\ veq 2 (vec s) (MV 2 (aL l 2 (tab 4 a 0)) (off a 4)).
  Definition C07_mulv2_stmt : Prop := is_mulv2 Lr p_mat2r_mulv /\ is_mulv2 Lc p_mat2c_mulv.

  (** ** every chained builder is pre-multiplication by its constructor: builder(m, params) = ctor(params) * m *)
  Definition is_builder (n : nat) (l : layout) (M : (nat -> C) -> nat -> nat -> C) (p : prog) : Prop :=
    forall a, exists s, crun C a p = Ret ([], s) /\ length s = (n * n)%nat /\
      meq n (aL l n s) (MM n (M (off a (n * n))) (aL l n (tab (n * n) a 0))).
  Definition builder_table : list (nat * layout * ((nat -> C) -> nat -> nat -> C) * prog) :=
    [ (4, Lr, Ttrans2_4, p_mat4r_translated_2d); (4, Lr, Ttrans3, p_mat4r_translated_3d); (4, Lr, Tscale3, p_mat4r_scaled_3d);
      (4, Lc, Ttrans2_4, p_mat4c_translated_2d); (4, Lc, Ttrans3, p_mat4c_translated_3d); (4, Lc, Tscale3, p_mat4c_scaled_3d);
      (3, Lr, Ttrans2_3, p_mat3r_translated_2d); (3, Lr, Tscale3_3, p_mat3r_scaled_3d);
      (3, Lc, Ttrans2_3, p_mat3c_translated_2d); (3, Lc, Tscale3_3, p_mat3c_scaled_3d);
      (2, Lr, Tscale2, p_mat2r_scaled_2d); (2, Lr, fun a => Tshearx (a 0%nat), p_mat2r_sheared_x); (2, Lr, fun a => Tsheary (a 0%nat), p_mat2r_sheared_y);
      (2, Lc, Tscale2, p_mat2c_scaled_2d); (2, Lc, fun a => Tshearx (a 0%nat), p_mat2c_sheared_x); (2, Lc, fun a => Tsheary (a 0%nat), p_mat2c_sheared_y) ].
  Definition C07_builders_stmt : Prop := Forall (fun '(n, l, M, p) => is_builder n l M p) builder_table.

  (** ** each in-place variant equals its returning variant *)
  Definition same (p q : prog) : Prop := forall a, crun C a p = crun C a q.
  Definition inplace_table : list (prog * prog) :=
    [ (p_mat4r_translate_2d, p_mat4r_translated_2d); (p_mat4r_translate_3d, p_mat4r_translated_3d); (p_mat4r_scale_3d, p_mat4r_scaled_3d);
      (p_mat4c_translate_2d, p_mat4c_translated_2d); (p_mat4c_translate_3d, p_mat4c_translated_3d); (p_mat4c_scale_3d, p_mat4c_scaled_3d);
      (p_mat3r_translate_2d, p_mat3r_translated_2d); (p_mat3r_scale_3d, p_mat3r_scaled_3d);
      (p_mat3c_translate_2d, p_mat3c_translated_2d); (p_mat3c_scale_3d, p_mat3c_scaled_3d);
      (p_mat2r_scale_2d, p_mat2r_scaled_2d); (p_mat2r_shear_x, p_mat2r_sheared_x); (p_mat2r_shear_y, p_mat2r_sheared_y);
      (p_mat2c_scale_2d, p_mat2c_scaled_2d); (p_mat2c_shear_x, p_mat2c_sheared_x); (p_mat2c_shear_y, p_mat2c_sheared_y) ].
  Definition C07_inplace_stmt : Prop := Forall (fun '(p, q) => same p q) inplace_table.

  (** ** chains: since every builder pre-multiplies, a chain of ANY length applies its steps to a point in
      call order.  [steps] are the constructor matrices in call order, starting from [M0]. *)
  Definition build (n : nat) (M0 : nat -> nat -> C) (steps : list (nat -> nat -> C)) : nat -> nat -> C :=
    fold_left (fun acc M => MM n M acc) steps M0.
  Definition apply_all (n : nat) (steps : list (nat -> nat -> C)) (p : nat -> C) : nat -> C :=
    fold_left (fun q M => MV n M q) steps p.
  Definition C07_chain_order_stmt : Prop :=
    forall (steps : list (nat -> nat -> C)) (M0 : nat -> nat -> C) (p : nat -> C),
      veq 4 (MV 4 (build 4 M0 steps) p) (apply_all 4 steps (MV 4 M0 p)) /\
      veq 3 (MV 3 (build 3 M0 steps) p) (apply_all 3 steps (MV 3 M0 p)) /\
      veq 2 (MV 2 (build 2 M0 steps) p) (apply_all 2 steps (MV 2 M0 p)).
  (** a chain through the real code: scaling_3d(s).rotated_z(rz).translated_3d(t) = T(t) * (Rz * S(s)) *)
  Definition Trotz (c s : C) : nat -> nat -> C := fun i j =>
    match i, j with
    | 0, 0 => c | 0, 1 => - s | 1, 0 => s | 1, 1 => c | 2, 2 => 1 | 3, 3 => 1 | _, _ => 0 end.
  Definition is_chain_srt (l : layout) (p : prog) : Prop :=
    forall a, exists s, crun C a p = Ret ([], s) /\
      meq 4 (aL l 4 s)
        (build 4 (Tscale3 a) [Trotz (op1_of (cops C) OCos (a 3%nat)) (op1_of (cops C) OSin (a 3%nat)); Ttrans3 (off a 4)]).
  Definition C07_chain_example_stmt : Prop := is_chain_srt Lr p_mat4r_chain_srt /\ is_chain_srt Lc p_mat4c_chain_srt.

  (** ** Transform -> matrix: p |-> position + Q(orientation) (scale . p); default Transform is the identity *)
  Definition Qmat (q : nat -> C) : nat -> nat -> C :=
    let x := q 0%nat in let y := q 1%nat in let z := q 2%nat in let w := q 3%nat in
    fun i j => match i, j with
    | 0, 0 => 1 - two * (y * y) - two * (z * z) | 0, 1 => two * x * y - two * z * w | 0, 2 => two * x * z + two * y * w
    | 1, 0 => two * x * y + two * z * w | 1, 1 => 1 - two * (x * x) - two * (z * z) | 1, 2 => two * y * z - two * x * w
    | 2, 0 => two * x * z - two * y * w | 2, 1 => two * y * z + two * x * w | 2, 2 => 1 - two * (x * x) - two * (y * y)
    | _, _ => 0 end.
  Definition transform_mat (pos q sc : nat -> C) : nat -> nat -> C := fun i j =>
    match i, j with
    | 3, 3 => 1 | 3, _ => 0
    | _, 3 => pos i
    | _, _ => Qmat q i j * sc j
    end.
  Definition is_from_transform (l : layout) (p : prog) : Prop :=
    forall a, exists s, crun C a p = Ret ([], s) /\ length s = 16%nat /\
      meq 4 (aL l 4 s) (transform_mat (off a 0) (off a 3) (off a 7)).
  Definition C07_transform_stmt : Prop :=
    is_from_transform Lr p_mat4r_from_transform /\ is_from_transform Lc p_mat4c_from_transform /\
    (* the matrix acts on points as position + Q (scale . p) *)
    (forall pos q sc p : nat -> C,
       veq 3 (MV 4 (transform_mat pos q sc) (ext 3 p 1))
             (fun i => pos i + MV 3 (Qmat q) (fun j => sc j * p j) i)) /\
    (* default Transform -> identity matrix *)
    (forall a, exists s, crun C a p_mat4r_from_default_transform = Ret ([], s) /\ meq 4 (aL Lr 4 s) I4) /\
    (forall a, exists s, crun C a p_mat4c_from_default_transform = Ret ([], s) /\ meq 4 (aL Lc 4 s) I4).
End Spec.
