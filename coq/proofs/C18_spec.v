(** * C18 — statements about the container model (tied to the code by the correspondence run). *)
Require Import List Arith Lia Bool Permutation.
From VekModel Require Import Containers.
Import ListNotations.

Definition wf (s : iter) : Prop := front s <= back s <= dim s.

(** every history from a fresh iterator over n elements: *)
Definition C18_iter_histories_stmt : Prop :=
  forall n ops, let (s, es) := run (init n) ops in
    wf s /\
    (* each element is yielded at most once or dropped at most once, never both *)
    NoDup (yielded es ++ dropped es) /\
    (forall x, In x (yielded es ++ dropped es) -> x < n) /\
    (* yielded and live elements partition the elements until the iterator is dropped; afterwards
       every element has been yielded or dropped exactly once *)
    (gone s = false -> Permutation (yielded es ++ live s) (seq 0 n) /\ dropped es = []) /\
    (gone s = true -> Permutation (yielded es ++ dropped es) (seq 0 n)).

(** reports and observations in any reachable state *)
Definition C18_iter_reports_stmt : Prop :=
  forall n ops o, let (s, es) := run (init n) ops in
    gone s = false ->
    (o = Len -> snd (step s o) = Report (n - length (yielded es))) /\
    (o = Observe -> exists l, snd (step s o) = Reads l /\ forall x, In x l -> ~ In x (yielded es)) /\
    (o = DropIt -> exists l, snd (step s o) = Drops l /\ Permutation (yielded es ++ l) (seq 0 n)) /\
    (* front pulls come in increasing order, back pulls in decreasing order, until exhausted *)
    (o = Next -> snd (step s o) = Yield (if Nat.ltb (front s) (back s) then Some (front s) else None)) /\
    (o = NextBack -> snd (step s o) = Yield (if Nat.ltb (front s) (back s) then Some (back s - 1) else None)).

(** conversions move every element exactly once *)
Definition C18_conversions_stmt : Prop :=
  (forall n m, NoDup (from_iter_stored n m ++ from_iter_surplus n m) /\
               Permutation (from_iter_stored n m ++ from_iter_surplus n m) (seq 0 m)) /\
  (forall n, n <= 4 -> Permutation (transpose_perm n) (seq 0 (n * n)) /\
             (forall i j, i < n -> j < n -> nth (n * i + j) (transpose_perm n) 0 = n * j + i)).
