Require Import Reals List ZArith Lra Lia.
From VekLib Require Import Ops ROps LinAlg RLin RSum.
From VekGen Require Import C11_gen.
From VekProofs Require Import C11_spec C11_pa C11_tac.
Import ListNotations.
Local Open Scope R_scope.
Lemma basic_vec2 : basic_ok 2 [p_vec2_dot; p_vec2_magnitude_squared; p_vec2_magnitude; p_vec2_distance_squared; p_vec2_distance; p_vec2_normalized; p_vec2_normalize; p_vec2_normalized_and_get_magnitude; p_vec2_normalize_and_get_magnitude; p_vec2_reflected; p_vec2_face_forward].
Proof. prove_basic 2%nat. Qed.
