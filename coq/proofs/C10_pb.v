Require Import Reals List ZArith Lra Lia.
From VekLib Require Import Ops ROps LinAlg RLin.
From VekGen Require Import C10_gen.
From VekProofs Require Import C10_spec C10_pa C10_math0 C10_math.
From VekProofs Require C10_drno C10_drzo C10_dcno C10_dczo C10_ir C10_ic.
Import ListNotations.
Local Open Scope R_scope.

Ltac norm_env := cbv [tab env_of app map seq nth Nat.add off].
Ltac norm_env_in H := cbv [tab env_of app map seq nth Nat.add off] in H.
Ltac destruct_list s H :=
  simpl in H; do 17 (try (destruct s as [|? s]; simpl in H; try discriminate H)).

Lemma meq_sym (A B : nat -> nat -> R) : meq 4 A B -> meq 4 B A.
Proof. intros H i j Hi Hj. symmetry. apply H; assumption. Qed.

Lemma proj_rno : is_project Lr true p_mat4r_world_to_viewport_no.
Proof. pose proof C10_project as H. unfold C10_project_stmt in H. repeat (apply Forall_cons_iff in H; destruct H as [? H]). assumption. Qed.
Lemma proj_rzo : is_project Lr false p_mat4r_world_to_viewport_zo.
Proof. pose proof C10_project as H. unfold C10_project_stmt in H. repeat (apply Forall_cons_iff in H; destruct H as [? H]). assumption. Qed.
Lemma proj_cno : is_project Lc true p_mat4c_world_to_viewport_no.
Proof. pose proof C10_project as H. unfold C10_project_stmt in H. repeat (apply Forall_cons_iff in H; destruct H as [? H]). assumption. Qed.
Lemma proj_czo : is_project Lc false p_mat4c_world_to_viewport_zo.
Proof. pose proof C10_project as H. unfold C10_project_stmt in H. repeat (apply Forall_cons_iff in H; destruct H as [? H]). assumption. Qed.

Lemma C10_roundtrip : C10_roundtrip_stmt.
Proof.
  unfold C10_roundtrip_stmt. repeat (apply Forall_cons; [ | ]); try apply Forall_nil.
  - intros k a; cbv zeta; intros Hdet Hw Hh Hc.
    destruct (proj_rno k a) as (s1 & Hr1 & Hl1 & Hv1).
    destruct_list s1 Hl1.
    match type of Hr1 with _ = Ret ([], ?s1) =>
      destruct (C10_drno.decomp k (env_of (s1 ++ tab 36 a 3))) as (sm & si & s2 & Hm & Hi & Hr2 & Hl2 & Hv2); exists s1, s2 end.
    split; [ exact Hr1 | split; [ exact Hr2 | split; [ exact Hl2 | ] ] ].
    destruct (C10_ir.mul_ok k (env_of (tab 16 a 19 ++ tab 16 a 3))) as (sm' & Hm' & Hlm & Hmm).
    norm_env_in Hm; norm_env_in Hm'; rewrite Hm in Hm'; injection Hm' as <-.
    destruct_list sm Hlm.
    match type of Hi with rrun _ ?E _ = _ =>
      assert (Hd' : Rdet 4 (aL Lr 4 (tab 16 E 0)) <> 0);
      [ norm_env; norm_env_in Hmm; rewrite (Rdet4_ext _ _ Hmm); exact Hdet | ];
      destruct (C10_ir.inv_ok k E Hd') as (si' & Hi' & Hinv & Hinv2) end.
    rewrite Hi in Hi'; injection Hi' as <-.
    norm_env_in Hinv2; norm_env_in Hmm.
    pose proof (meq_trans _ _ _ (meq_sym _ _ (mm_ext_r _ _ _ Hmm)) Hinv2) as HI.
    pose proof (roundtrip_math true _ _ _ (off a 35) (off a 0) HI Hw Hh Hc) as RT.
    intros i Hi3. rewrite (Hv2 i Hi3). rewrite <- (RT i Hi3).
    unfold unproject_spec. cbv [vec_of off env_of app tab map seq nth Nat.add].
    cbv [vec_of off env_of app tab map seq nth Nat.add] in Hv1.
    rewrite <- (Hv1 0%nat ltac:(lia)), <- (Hv1 1%nat ltac:(lia)), <- (Hv1 2%nat ltac:(lia)).
    cbv [Rvec abs_vec nth]. reflexivity.
  - intros k a; cbv zeta; intros Hdet Hw Hh Hc.
    destruct (proj_rzo k a) as (s1 & Hr1 & Hl1 & Hv1).
    destruct_list s1 Hl1.
    match type of Hr1 with _ = Ret ([], ?s1) =>
      destruct (C10_drzo.decomp k (env_of (s1 ++ tab 36 a 3))) as (sm & si & s2 & Hm & Hi & Hr2 & Hl2 & Hv2); exists s1, s2 end.
    split; [ exact Hr1 | split; [ exact Hr2 | split; [ exact Hl2 | ] ] ].
    destruct (C10_ir.mul_ok k (env_of (tab 16 a 19 ++ tab 16 a 3))) as (sm' & Hm' & Hlm & Hmm).
    norm_env_in Hm; norm_env_in Hm'; rewrite Hm in Hm'; injection Hm' as <-.
    destruct_list sm Hlm.
    match type of Hi with rrun _ ?E _ = _ =>
      assert (Hd' : Rdet 4 (aL Lr 4 (tab 16 E 0)) <> 0);
      [ norm_env; norm_env_in Hmm; rewrite (Rdet4_ext _ _ Hmm); exact Hdet | ];
      destruct (C10_ir.inv_ok k E Hd') as (si' & Hi' & Hinv & Hinv2) end.
    rewrite Hi in Hi'; injection Hi' as <-.
    norm_env_in Hinv2; norm_env_in Hmm.
    pose proof (meq_trans _ _ _ (meq_sym _ _ (mm_ext_r _ _ _ Hmm)) Hinv2) as HI.
    pose proof (roundtrip_math false _ _ _ (off a 35) (off a 0) HI Hw Hh Hc) as RT.
    intros i Hi3. rewrite (Hv2 i Hi3). rewrite <- (RT i Hi3).
    unfold unproject_spec. cbv [vec_of off env_of app tab map seq nth Nat.add].
    cbv [vec_of off env_of app tab map seq nth Nat.add] in Hv1.
    rewrite <- (Hv1 0%nat ltac:(lia)), <- (Hv1 1%nat ltac:(lia)), <- (Hv1 2%nat ltac:(lia)).
    cbv [Rvec abs_vec nth]. reflexivity.
  - intros k a; cbv zeta; intros Hdet Hw Hh Hc.
    destruct (proj_cno k a) as (s1 & Hr1 & Hl1 & Hv1).
    destruct_list s1 Hl1.
    match type of Hr1 with _ = Ret ([], ?s1) =>
      destruct (C10_dcno.decomp k (env_of (s1 ++ tab 36 a 3))) as (sm & si & s2 & Hm & Hi & Hr2 & Hl2 & Hv2); exists s1, s2 end.
    split; [ exact Hr1 | split; [ exact Hr2 | split; [ exact Hl2 | ] ] ].
    destruct (C10_ic.mul_ok k (env_of (tab 16 a 19 ++ tab 16 a 3))) as (sm' & Hm' & Hlm & Hmm).
    norm_env_in Hm; norm_env_in Hm'; rewrite Hm in Hm'; injection Hm' as <-.
    destruct_list sm Hlm.
    match type of Hi with rrun _ ?E _ = _ =>
      assert (Hd' : Rdet 4 (aL Lc 4 (tab 16 E 0)) <> 0);
      [ norm_env; norm_env_in Hmm; rewrite (Rdet4_ext _ _ Hmm); exact Hdet | ];
      destruct (C10_ic.inv_ok k E Hd') as (si' & Hi' & Hinv & Hinv2) end.
    rewrite Hi in Hi'; injection Hi' as <-.
    norm_env_in Hinv2; norm_env_in Hmm.
    pose proof (meq_trans _ _ _ (meq_sym _ _ (mm_ext_r _ _ _ Hmm)) Hinv2) as HI.
    pose proof (roundtrip_math true _ _ _ (off a 35) (off a 0) HI Hw Hh Hc) as RT.
    intros i Hi3. rewrite (Hv2 i Hi3). rewrite <- (RT i Hi3).
    unfold unproject_spec. cbv [vec_of off env_of app tab map seq nth Nat.add].
    cbv [vec_of off env_of app tab map seq nth Nat.add] in Hv1.
    rewrite <- (Hv1 0%nat ltac:(lia)), <- (Hv1 1%nat ltac:(lia)), <- (Hv1 2%nat ltac:(lia)).
    cbv [Rvec abs_vec nth]. reflexivity.
  - intros k a; cbv zeta; intros Hdet Hw Hh Hc.
    destruct (proj_czo k a) as (s1 & Hr1 & Hl1 & Hv1).
    destruct_list s1 Hl1.
    match type of Hr1 with _ = Ret ([], ?s1) =>
      destruct (C10_dczo.decomp k (env_of (s1 ++ tab 36 a 3))) as (sm & si & s2 & Hm & Hi & Hr2 & Hl2 & Hv2); exists s1, s2 end.
    split; [ exact Hr1 | split; [ exact Hr2 | split; [ exact Hl2 | ] ] ].
    destruct (C10_ic.mul_ok k (env_of (tab 16 a 19 ++ tab 16 a 3))) as (sm' & Hm' & Hlm & Hmm).
    norm_env_in Hm; norm_env_in Hm'; rewrite Hm in Hm'; injection Hm' as <-.
    destruct_list sm Hlm.
    match type of Hi with rrun _ ?E _ = _ =>
      assert (Hd' : Rdet 4 (aL Lc 4 (tab 16 E 0)) <> 0);
      [ norm_env; norm_env_in Hmm; rewrite (Rdet4_ext _ _ Hmm); exact Hdet | ];
      destruct (C10_ic.inv_ok k E Hd') as (si' & Hi' & Hinv & Hinv2) end.
    rewrite Hi in Hi'; injection Hi' as <-.
    norm_env_in Hinv2; norm_env_in Hmm.
    pose proof (meq_trans _ _ _ (meq_sym _ _ (mm_ext_r _ _ _ Hmm)) Hinv2) as HI.
    pose proof (roundtrip_math false _ _ _ (off a 35) (off a 0) HI Hw Hh Hc) as RT.
    intros i Hi3. rewrite (Hv2 i Hi3). rewrite <- (RT i Hi3).
    unfold unproject_spec. cbv [vec_of off env_of app tab map seq nth Nat.add].
    cbv [vec_of off env_of app tab map seq nth Nat.add] in Hv1.
    rewrite <- (Hv1 0%nat ltac:(lia)), <- (Hv1 1%nat ltac:(lia)), <- (Hv1 2%nat ltac:(lia)).
    cbv [Rvec abs_vec nth]. reflexivity.
Qed.
