Require Import Reals List ZArith Lra Lia.
From VekLib Require Import Ops ROps LinAlg RLin.
From VekGen Require Import C08_gen.
From VekProofs Require Import C08_spec C08_pa C08_pb.
Import ListNotations.
Local Open Scope R_scope.

(** both programs have the same guards; on the returning leaf the matrices are related entry by entry *)
Lemma C08_handedness : C08_handedness_stmt.
Proof.
  unfold C08_handedness_stmt.
  table; intros k a s1 s2; rrun_unfold; split_conds; intros H1 H2; try discriminate;
    injection H1 as <-; injection H2 as <-; meq_cases; c08_unfold; first [ ring | unfold Rdiv; ring ].
Qed.

Lemma div_lt_div p q p' q' : 0 < q -> 0 < q' -> p * q' < p' * q -> p / q < p' / q'.
Proof.
  intros Hq Hq' H. apply Rmult_lt_reg_r with (r := q * q'); [ nra | ].
  replace (p / q * (q * q')) with (p * q') by (field; lra).
  replace (p' / q' * (q * q')) with (p' * q) by (field; lra). exact H.
Qed.
Lemma div_lt_c p q c : 0 < q -> p < c * q -> p / q < c.
Proof.
  intros Hq H. apply Rmult_lt_reg_r with (r := q); [ lra | ].
  replace (p / q * q) with p by (field; lra). exact H.
Qed.

Lemma C08_infinite : C08_infinite_stmt.
Proof.
  unfold C08_infinite_stmt.
  table; intros k a Hf Ha Hn Htw; pose proof (tan_half_pos _ Hf) as Ht; destruct Hf as [Hf1 Hf2];
    try (specialize (Htw eq_refl));
    (eexists; split; [ rrun_unfold; decide_lt; reflexivity | split; [ reflexivity | ] ]);
    cbv zeta; c08_unfold; try replace (a 0%nat / 2) with (a 0%nat / (1 + 1)) by (f_equal; ring);
    set (T := tan (a 0%nat / (1 + 1))) in *; clearbody T;
    assert (0 < a 2%nat * T) by nra; assert (0 < a 2%nat * T * a 1%nat) by nra;
    (split;
     [ intros sx sy; destruct sx, sy; (split; [ lra | repeat split; field; repeat split; lra ])
     | intros x y d1 d2 Hd1 Hd2;
       first [ assert (Hk : 0 < (2 - a 3%nat) * a 2%nat * (d2 - d1)) by (apply Rmult_lt_0_compat; [ apply Rmult_lt_0_compat | ]; lra);
               assert (Hk2 : 0 < (2 - a 3%nat) * a 2%nat) by (apply Rmult_lt_0_compat; lra)
             | assert (Hk : 0 < 2 * a 2%nat * (d2 - d1)) by (apply Rmult_lt_0_compat; [ apply Rmult_lt_0_compat | ]; lra) ];
       split; [ lra | split; [ lra | split; [ apply div_lt_div; lra | apply div_lt_c; lra ] ] ] ]).
Qed.
