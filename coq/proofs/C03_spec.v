(** * C03 — statements. Element (i,j) means row i, column j in every matrix API, whatever the layout.
    Storage is read through [absL l n] (row-major: entry n*i+j, column-major: entry n*j+i, the
    order of the public [rows]/[cols] fields). Everything is quantified over an arbitrary
    commutative ring [C], whose abstract function symbols [cF C k] stand for the user closures
    passed to map/apply/map2/apply2/map_rows/map_cols. *)
Require Import List ZArith Lia.
From VekLib Require Import Ops RingOps LinAlg.
From VekGen Require Import C03_gen.
Import ListNotations.

Definition other (l : layout) : layout := match l with Lr => Lc | Lc => Lr end.
Definition tbl := list (nat * layout * prog).

Section Spec.
  Variable C : cring.
  Notation A := (absL (c0 C)).
  Definition env_of (l : list C) : nat -> C := fun i => nth i l (c0 C).
  Definition F1 (k : nat) (x : C) : C := cF C k [x].
  Definition F2 (k : nat) (x y : C) : C := cF C k [x; y].

  (** the result is a matrix in layout [lo] whose entry (i,j) is [spec a i j] *)
  Definition yields_mat (m : nat) (lo : layout) (p : prog) (spec : (nat -> C) -> nat -> nat -> C) : Prop :=
    forall a, exists s, crun C a p = Ret ([], s) /\ length s = m * m /\ meq m (A lo m s) (spec a).
  (** the result is a flat list of [len] scalars whose entry k is [spec a k] *)
  Definition yields_list (len : nat) (p : prog) (spec : (nat -> C) -> nat -> C) : Prop :=
    forall a, exists s, crun C a p = Ret ([], s) /\ length s = len /\ veq len (abs_vec (c0 C) s) (spec a).

  (** input matrix: n² scalars at offset [off] in layout [l] *)
  Definition inM (l : layout) (n off : nat) (a : nat -> C) : amat := A l n (tab (n * n) a off).

  (** [new(m00, m01, ...)] takes its arguments row by row *)
  Definition new_ok '(n, l, p) := yields_mat n l p (fun a i j => a (n * i + j)).
  (** m[(i,j)] for all (i,j), listed row by row *)
  Definition index_ok '(n, l, p) := yields_list (n * n) p (fun a k => inM l n 0 a (k / n) (k mod n)).
  (** m[(i,j)] = b(i,j) for all (i,j): afterwards the matrix is b *)
  Definition index_mut_ok '(n, l, p) := yields_mat n l p (fun a i j => a (n * n + (n * i + j))).
  Definition transposed_ok '(n, l, p) := yields_mat n l p (fun a => transp (inM l n 0 a)).
  Definition diagonal_ok '(n, l, p) := yields_list n p (fun a i => inM l n 0 a i i).
  Definition with_diagonal_ok '(n, l, p) := yields_mat n l p (fun a i j => if Nat.eqb i j then a i else c0 C).
  Definition broadcast_diagonal_ok '(n, l, p) := yields_mat n l p (fun a i j => if Nat.eqb i j then a 0 else c0 C).
  Definition trace_ok '(n, l, p) := yields_list 1 p (fun a _ => sigma (c0 C) (cadd C) n (fun i => inM l n 0 a i i)).
  Definition map_ok (k : nat) '(n, l, p) := yields_mat n l p (fun a i j => F1 k (inM l n 0 a i j)).
  Definition map2_ok (k : nat) '(n, l, p) := yields_mat n l p (fun a i j => F2 k (inM l n 0 a i j) (inM l n (n * n) a i j)).
  Definition same_ok '(n, l, p) := yields_mat n l p (fun a => inM l n 0 a).
  (** From<the other layout>: same abstract matrix *)
  Definition from_transpose_ok '(n, l, p) := yields_mat n l p (fun a => inM (other l) n 0 a).
  (** flat arrays: row arrays list entries row by row, column arrays column by column *)
  Definition into_row_ok '(n, l, p) := yields_list (n * n) p (fun a k => inM l n 0 a (k / n) (k mod n)).
  Definition into_col_ok '(n, l, p) := yields_list (n * n) p (fun a k => inM l n 0 a (k mod n) (k / n)).
  Definition from_row_ok '(n, l, p) := yields_mat n l p (fun a i j => a (n * i + j)).
  Definition from_col_ok '(n, l, p) := yields_mat n l p (fun a i j => a (n * j + i)).
  Definition default_ok '(n, l, p) := yields_mat n l p (fun _ => ident (c0 C) (c1 C)).
  (** row_count, col_count, ROW_COUNT, COL_COUNT = n; gl_should_transpose (method and constant) is
      true exactly for row-major storage *)
  Definition counts_ok '(n, l, p) :=
    forall a : nat -> C, let g := match l with Lr => 1%Z | Lc => 0%Z end in
      crun C a p = Ret ([Z.of_nat n; Z.of_nat n; Z.of_nat n; Z.of_nat n; g; g], []).
  (** Display prints n lines of n elements, row i on line i, whatever the layout *)
  Definition display_ok '(n, l, p) :=
    forall a, exists fl s, crun C a p = Ret (fl, s) /\ length s = n * n /\
      firstn (S n) fl = Z.of_nat n :: repeat (Z.of_nat n) n /\
      veq (n * n) (abs_vec (c0 C) s) (fun k => inM l n 0 a (k / n) (k mod n)).
  (** Display hands the caller's formatting parameters (sign, width, precision) down to every element: with "{:+9.2}"
      every element carries the 7-character marker, in both layouts; and the whole output skeleton (line structure
      and length) is the same for the row-major and the column-major matrix *)
  Definition display_fmt_ok '(n, l, p, pf) :=
    display_ok (n, l, pf) /\
    forall a, exists fl s fl' s', crun C a p = Ret (fl, s) /\ crun C a pf = Ret (fl', s') /\
      last fl' 0%Z = (last fl 0 + 7 * Z.of_nat (n * n))%Z.
  Definition display_layout_ok '(pr, pc) :=
    forall a b, exists fl s s', crun C a pr = Ret (fl, s) /\ crun C b pc = Ret (fl, s').
  (** as_row_slice on row-major / as_col_slice on column-major: the storage order itself *)
  Definition slice_ok '(n, l, p) :=
    yields_list (n * n) p (fun a k => match l with Lr => inM l n 0 a (k / n) (k mod n) | Lc => inM l n 0 a (k mod n) (k / n) end).
  (** size conversions keep entry (i,j) where both sizes have it and fill with the identity elsewhere *)
  Definition conv_ok '(m, n, l, p) :=
    yields_mat m l p (fun a i j => if andb (Nat.ltb i n) (Nat.ltb j n) then inM l n 0 a i j else ident (c0 C) (c1 C) i j).

  Definition t_new : tbl := [ (2, Lr, p_mat2r_new); (3, Lr, p_mat3r_new); (4, Lr, p_mat4r_new); (2, Lc, p_mat2c_new); (3, Lc, p_mat3c_new); (4, Lc, p_mat4c_new) ].
  Definition t_index : tbl := [ (2, Lr, p_mat2r_index_all); (3, Lr, p_mat3r_index_all); (4, Lr, p_mat4r_index_all); (2, Lc, p_mat2c_index_all); (3, Lc, p_mat3c_index_all); (4, Lc, p_mat4c_index_all) ].
  Definition t_index_mut : tbl := [ (2, Lr, p_mat2r_index_mut_all); (3, Lr, p_mat3r_index_mut_all); (4, Lr, p_mat4r_index_mut_all); (2, Lc, p_mat2c_index_mut_all); (3, Lc, p_mat3c_index_mut_all); (4, Lc, p_mat4c_index_mut_all) ].
  Definition t_transposed : tbl := [ (2, Lr, p_mat2r_transposed); (3, Lr, p_mat3r_transposed); (4, Lr, p_mat4r_transposed); (2, Lc, p_mat2c_transposed); (3, Lc, p_mat3c_transposed); (4, Lc, p_mat4c_transposed);
                                     (2, Lr, p_mat2r_transpose); (3, Lr, p_mat3r_transpose); (4, Lr, p_mat4r_transpose); (2, Lc, p_mat2c_transpose); (3, Lc, p_mat3c_transpose); (4, Lc, p_mat4c_transpose) ].
  Definition t_diagonal : tbl := [ (2, Lr, p_mat2r_diagonal); (3, Lr, p_mat3r_diagonal); (4, Lr, p_mat4r_diagonal); (2, Lc, p_mat2c_diagonal); (3, Lc, p_mat3c_diagonal); (4, Lc, p_mat4c_diagonal) ].
  Definition t_with_diagonal : tbl := [ (2, Lr, p_mat2r_with_diagonal); (3, Lr, p_mat3r_with_diagonal); (4, Lr, p_mat4r_with_diagonal); (2, Lc, p_mat2c_with_diagonal); (3, Lc, p_mat3c_with_diagonal); (4, Lc, p_mat4c_with_diagonal) ].
  Definition t_broadcast_diagonal : tbl := [ (2, Lr, p_mat2r_broadcast_diagonal); (3, Lr, p_mat3r_broadcast_diagonal); (4, Lr, p_mat4r_broadcast_diagonal); (2, Lc, p_mat2c_broadcast_diagonal); (3, Lc, p_mat3c_broadcast_diagonal); (4, Lc, p_mat4c_broadcast_diagonal) ].
  Definition t_trace : tbl := [ (2, Lr, p_mat2r_trace); (3, Lr, p_mat3r_trace); (4, Lr, p_mat4r_trace); (2, Lc, p_mat2c_trace); (3, Lc, p_mat3c_trace); (4, Lc, p_mat4c_trace) ].
  Definition t_map1 : tbl := [ (2, Lr, p_mat2r_map); (3, Lr, p_mat3r_map); (4, Lr, p_mat4r_map); (2, Lc, p_mat2c_map); (3, Lc, p_mat3c_map); (4, Lc, p_mat4c_map);
                               (2, Lr, p_mat2r_apply); (3, Lr, p_mat3r_apply); (4, Lr, p_mat4r_apply); (2, Lc, p_mat2c_apply); (3, Lc, p_mat3c_apply); (4, Lc, p_mat4c_apply) ].
  Definition t_map2 : tbl := [ (2, Lr, p_mat2r_map2); (3, Lr, p_mat3r_map2); (4, Lr, p_mat4r_map2); (2, Lc, p_mat2c_map2); (3, Lc, p_mat3c_map2); (4, Lc, p_mat4c_map2);
                               (2, Lr, p_mat2r_apply2); (3, Lr, p_mat3r_apply2); (4, Lr, p_mat4r_apply2); (2, Lc, p_mat2c_apply2); (3, Lc, p_mat3c_apply2); (4, Lc, p_mat4c_apply2) ].
  Definition t_as : tbl := [ (2, Lr, p_mat2r_as); (3, Lr, p_mat3r_as); (4, Lr, p_mat4r_as); (2, Lc, p_mat2c_as); (3, Lc, p_mat3c_as); (4, Lc, p_mat4c_as) ].
  Definition t_map_lines : tbl := [ (2, Lr, p_mat2r_map_lines); (3, Lr, p_mat3r_map_lines); (4, Lr, p_mat4r_map_lines); (2, Lc, p_mat2c_map_lines); (3, Lc, p_mat3c_map_lines); (4, Lc, p_mat4c_map_lines) ].
  Definition t_from_transpose : tbl := [ (2, Lr, p_mat2r_from_transpose); (3, Lr, p_mat3r_from_transpose); (4, Lr, p_mat4r_from_transpose); (2, Lc, p_mat2c_from_transpose); (3, Lc, p_mat3c_from_transpose); (4, Lc, p_mat4c_from_transpose) ].
  Definition t_into_row : tbl := [ (2, Lr, p_mat2r_into_row_array); (3, Lr, p_mat3r_into_row_array); (4, Lr, p_mat4r_into_row_array); (2, Lc, p_mat2c_into_row_array); (3, Lc, p_mat3c_into_row_array); (4, Lc, p_mat4c_into_row_array);
                                   (2, Lr, p_mat2r_into_row_arrays); (3, Lr, p_mat3r_into_row_arrays); (4, Lr, p_mat4r_into_row_arrays); (2, Lc, p_mat2c_into_row_arrays); (3, Lc, p_mat3c_into_row_arrays); (4, Lc, p_mat4c_into_row_arrays) ].
  Definition t_into_col : tbl := [ (2, Lr, p_mat2r_into_col_array); (3, Lr, p_mat3r_into_col_array); (4, Lr, p_mat4r_into_col_array); (2, Lc, p_mat2c_into_col_array); (3, Lc, p_mat3c_into_col_array); (4, Lc, p_mat4c_into_col_array);
                                   (2, Lr, p_mat2r_into_col_arrays); (3, Lr, p_mat3r_into_col_arrays); (4, Lr, p_mat4r_into_col_arrays); (2, Lc, p_mat2c_into_col_arrays); (3, Lc, p_mat3c_into_col_arrays); (4, Lc, p_mat4c_into_col_arrays) ].
  Definition t_from_row : tbl := [ (2, Lr, p_mat2r_from_row_array); (3, Lr, p_mat3r_from_row_array); (4, Lr, p_mat4r_from_row_array); (2, Lc, p_mat2c_from_row_array); (3, Lc, p_mat3c_from_row_array); (4, Lc, p_mat4c_from_row_array);
                                   (2, Lr, p_mat2r_from_row_arrays); (3, Lr, p_mat3r_from_row_arrays); (4, Lr, p_mat4r_from_row_arrays); (2, Lc, p_mat2c_from_row_arrays); (3, Lc, p_mat3c_from_row_arrays); (4, Lc, p_mat4c_from_row_arrays) ].
  Definition t_from_col : tbl := [ (2, Lr, p_mat2r_from_col_array); (3, Lr, p_mat3r_from_col_array); (4, Lr, p_mat4r_from_col_array); (2, Lc, p_mat2c_from_col_array); (3, Lc, p_mat3c_from_col_array); (4, Lc, p_mat4c_from_col_array);
                                   (2, Lr, p_mat2r_from_col_arrays); (3, Lr, p_mat3r_from_col_arrays); (4, Lr, p_mat4r_from_col_arrays); (2, Lc, p_mat2c_from_col_arrays); (3, Lc, p_mat3c_from_col_arrays); (4, Lc, p_mat4c_from_col_arrays) ].
  Definition t_default : tbl := [ (2, Lr, p_mat2r_default); (3, Lr, p_mat3r_default); (4, Lr, p_mat4r_default); (2, Lc, p_mat2c_default); (3, Lc, p_mat3c_default); (4, Lc, p_mat4c_default) ].
  Definition t_counts : tbl := [ (2, Lr, p_mat2r_counts); (3, Lr, p_mat3r_counts); (4, Lr, p_mat4r_counts); (2, Lc, p_mat2c_counts); (3, Lc, p_mat3c_counts); (4, Lc, p_mat4c_counts) ].
  Definition t_display : tbl := [ (2, Lr, p_mat2r_display); (3, Lr, p_mat3r_display); (4, Lr, p_mat4r_display); (2, Lc, p_mat2c_display); (3, Lc, p_mat3c_display); (4, Lc, p_mat4c_display) ].
  Definition t_display_fmt : list (nat * layout * prog * prog) :=
    [ (2, Lr, p_mat2r_display, p_mat2r_display_fmt); (3, Lr, p_mat3r_display, p_mat3r_display_fmt); (4, Lr, p_mat4r_display, p_mat4r_display_fmt);
      (2, Lc, p_mat2c_display, p_mat2c_display_fmt); (3, Lc, p_mat3c_display, p_mat3c_display_fmt); (4, Lc, p_mat4c_display, p_mat4c_display_fmt) ].
  Definition t_display_layout : list (prog * prog) :=
    [ (p_mat2r_display, p_mat2c_display); (p_mat3r_display, p_mat3c_display); (p_mat4r_display, p_mat4c_display);
      (p_mat2r_display_fmt, p_mat2c_display_fmt); (p_mat3r_display_fmt, p_mat3c_display_fmt); (p_mat4r_display_fmt, p_mat4c_display_fmt) ].
  Definition t_slice : tbl := [ (2, Lr, p_mat2r_as_row_slice); (3, Lr, p_mat3r_as_row_slice); (4, Lr, p_mat4r_as_row_slice); (4, Lr, p_mat4r_as_mut_row_slice);
                                (2, Lc, p_mat2c_as_col_slice); (3, Lc, p_mat3c_as_col_slice); (4, Lc, p_mat4c_as_col_slice); (4, Lc, p_mat4c_as_mut_col_slice) ].
  Definition t_conv : list (nat * nat * layout * prog) :=
    [ (3, 2, Lr, p_mat3r_from_mat2r); (4, 2, Lr, p_mat4r_from_mat2r); (4, 3, Lr, p_mat4r_from_mat3r);
      (3, 4, Lr, p_mat3r_from_mat4r); (2, 3, Lr, p_mat2r_from_mat3r); (2, 4, Lr, p_mat2r_from_mat4r);
      (3, 2, Lc, p_mat3c_from_mat2c); (4, 2, Lc, p_mat4c_from_mat2c); (4, 3, Lc, p_mat4c_from_mat3c);
      (3, 4, Lc, p_mat3c_from_mat4c); (2, 3, Lc, p_mat2c_from_mat3c); (2, 4, Lc, p_mat2c_from_mat4c) ].

  Definition C03_construct_stmt : Prop :=
    Forall new_ok t_new /\ Forall with_diagonal_ok t_with_diagonal /\ Forall broadcast_diagonal_ok t_broadcast_diagonal /\
    Forall default_ok t_default /\ Forall from_row_ok t_from_row /\ Forall from_col_ok t_from_col.
  Definition C03_access_stmt : Prop :=
    Forall index_ok t_index /\ Forall index_mut_ok t_index_mut /\ Forall diagonal_ok t_diagonal /\ Forall trace_ok t_trace /\
    Forall into_row_ok t_into_row /\ Forall into_col_ok t_into_col /\ Forall slice_ok t_slice /\
    Forall counts_ok t_counts /\ Forall display_ok t_display /\
    Forall display_fmt_ok t_display_fmt /\ Forall display_layout_ok t_display_layout.
  Definition C03_transform_stmt : Prop :=
    Forall transposed_ok t_transposed /\ Forall (map_ok 1) t_map1 /\ Forall (map2_ok 2) t_map2 /\ Forall same_ok t_as /\
    Forall (map_ok 3) t_map_lines /\ Forall from_transpose_ok t_from_transpose /\ Forall conv_ok t_conv.

  (** ** Any sequence of matrix -> matrix operations: a row-major and a column-major matrix that
      denote the same abstract matrix keep doing so, and both follow the abstract operation. *)
  Inductive mop := Transposed | TransposeInPlace | Map | Apply | AsCast | MapLines.
  Definition prog_of (n : nat) (l : layout) (o : mop) : prog :=
    match n, l, o with
    | 2, Lr, Transposed => p_mat2r_transposed | 2, Lr, TransposeInPlace => p_mat2r_transpose | 2, Lr, Map => p_mat2r_map
    | 2, Lr, Apply => p_mat2r_apply | 2, Lr, AsCast => p_mat2r_as | 2, Lr, MapLines => p_mat2r_map_lines
    | 2, Lc, Transposed => p_mat2c_transposed | 2, Lc, TransposeInPlace => p_mat2c_transpose | 2, Lc, Map => p_mat2c_map
    | 2, Lc, Apply => p_mat2c_apply | 2, Lc, AsCast => p_mat2c_as | 2, Lc, MapLines => p_mat2c_map_lines
    | 3, Lr, Transposed => p_mat3r_transposed | 3, Lr, TransposeInPlace => p_mat3r_transpose | 3, Lr, Map => p_mat3r_map
    | 3, Lr, Apply => p_mat3r_apply | 3, Lr, AsCast => p_mat3r_as | 3, Lr, MapLines => p_mat3r_map_lines
    | 3, Lc, Transposed => p_mat3c_transposed | 3, Lc, TransposeInPlace => p_mat3c_transpose | 3, Lc, Map => p_mat3c_map
    | 3, Lc, Apply => p_mat3c_apply | 3, Lc, AsCast => p_mat3c_as | 3, Lc, MapLines => p_mat3c_map_lines
    | _, Lr, Transposed => p_mat4r_transposed | _, Lr, TransposeInPlace => p_mat4r_transpose | _, Lr, Map => p_mat4r_map
    | _, Lr, Apply => p_mat4r_apply | _, Lr, AsCast => p_mat4r_as | _, Lr, MapLines => p_mat4r_map_lines
    | _, Lc, Transposed => p_mat4c_transposed | _, Lc, TransposeInPlace => p_mat4c_transpose | _, Lc, Map => p_mat4c_map
    | _, Lc, Apply => p_mat4c_apply | _, Lc, AsCast => p_mat4c_as | _, Lc, MapLines => p_mat4c_map_lines
    end.
  Definition aop (o : mop) (X : amat) : amat :=
    match o with
    | Transposed | TransposeInPlace => transp X
    | Map | Apply => fun i j => F1 1 (X i j)
    | AsCast => X
    | MapLines => fun i j => F1 3 (X i j)
    end.
  (** run the real code of [o] on a matrix stored as [s] *)
  Definition step (n : nat) (l : layout) (s : option (list C)) (o : mop) : option (list C) :=
    match s with
    | None => None
    | Some s => match crun C (env_of s) (prog_of n l o) with Ret ([], s') => Some s' | _ => None end
    end.
  Definition C03_sequence_stmt : Prop :=
    forall n, n = 2 \/ n = 3 \/ n = 4 ->
    forall (ops : list mop) (sr sc : list C), length sr = n * n -> length sc = n * n ->
      meq n (A Lr n sr) (A Lc n sc) ->
      exists sr' sc', fold_left (step n Lr) ops (Some sr) = Some sr' /\ fold_left (step n Lc) ops (Some sc) = Some sc' /\
        length sr' = n * n /\ length sc' = n * n /\
        meq n (A Lr n sr') (A Lc n sc') /\
        meq n (A Lr n sr') (fold_left (fun X o => aop o X) ops (A Lr n sr)).
End Spec.
