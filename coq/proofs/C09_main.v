Require Import Reals List ZArith Lra Lia Nsatz.
From VekLib Require Import Ops ROps LinAlg RLin.
From VekGen Require Import C09_gen.
From VekProofs Require Import C09_spec C09_proofs C09_frame.
Import ListNotations.
Local Open Scope R_scope.

Lemma norm3_pos v : 0 < dot3 v v -> 0 < norm3 v /\ norm3 v * norm3 v = dot3 v v.
Proof. intros H. unfold norm3. split; [ apply sqrt_lt_R0, H | apply sqrt_sqrt; lra ]. Qed.

Lemma unit3_dot v : 0 < dot3 v v -> dot3 (unit3 v) (unit3 v) = 1.
Proof.
  intros H. destruct (norm3_pos v H) as [H0 H1]. revert H1. unfold unit3, dot3.
  set (r := norm3 v) in *. clearbody r. intros H1. field_simplify_eq; [ | lra ]. cbv [Rpow_def.pow]. clear H H0. nsatz.
Qed.

Lemma unit3_scale v i : 0 < dot3 v v -> v i = norm3 v * unit3 v i.
Proof. intros H. destruct (norm3_pos v H) as [H0 _]. unfold unit3. field. lra. Qed.

Lemma cross_unit_pos (up d : nat -> R) : 0 < dot3 d d -> 0 < dot3 (cross up d) (cross up d) ->
  0 < dot3 (cross up (unit3 d)) (cross up (unit3 d)) /\ 0 < dot3 (cross (unit3 d) up) (cross (unit3 d) up).
Proof.
  intros Hd Hc. destruct (norm3_pos d Hd) as [H0 H1].
  assert (E : dot3 (cross up (unit3 d)) (cross up (unit3 d)) = dot3 (cross up d) (cross up d) / (norm3 d * norm3 d)).
  { unfold unit3. set (r := norm3 d) in *. clearbody r. c09_vec. field. lra. }
  assert (E2 : dot3 (cross (unit3 d) up) (cross (unit3 d) up) = dot3 (cross up (unit3 d)) (cross up (unit3 d))).
  { c09_vec. ring. }
  rewrite E2, E. split; apply Rdiv_lt_0_compat; nra.
Qed.

Lemma C09_look_at : C09_look_at_stmt.
Proof.
  intros e t up [Hd Hc]. cbv zeta.
  destruct (cross_unit_pos up (sub3 t e) Hd Hc) as [Hc1 Hc2].
  destruct (norm3_pos _ Hd) as [Hr1 _].
  destruct (norm3_pos _ Hc1) as [Hr2 _]. destruct (norm3_pos _ Hc2) as [Hr3 _].
  change (unit3 (sub3 t e)) with (fwd e t) in *.
  assert (Ht : forall i, (i < 3)%nat -> t i = e i + norm3 (sub3 t e) * fwd e t i).
  { intros i _. unfold fwd. rewrite <- (unit3_scale (sub3 t e) i Hd). unfold sub3. ring. }
  assert (Hsf1 : dot3 (side_lh e t up) (fwd e t) = 0).
  { unfold side_lh. set (f := fwd e t) in *. set (r := norm3 (cross up f)) in *. unfold unit3. fold r. clearbody r f.
    c09_vec. field. lra. }
  assert (Hsf2 : dot3 (side_rh e t up) (fwd e t) = 0).
  { unfold side_rh. set (f := fwd e t) in *. set (r := norm3 (cross f up)) in *. unfold unit3. fold r. clearbody r f.
    c09_vec. field. lra. }
  pose proof (frame_lh e t (fwd e t) (side_lh e t up) up _ _ (unit3_dot _ Hd) (unit3_dot _ Hc1) Hsf1 Hr1 Hr2
                (fun i _ => unit3_scale _ i Hc1) Ht) as L.
  pose proof (frame_rh e t (fwd e t) (side_rh e t up) up _ _ (unit3_dot _ Hd) (unit3_dot _ Hc2) Hsf2 Hr1 Hr3
                (fun i _ => unit3_scale _ i Hc2) Ht) as Rr.
  unfold frame_concl in L, Rr. unfold look_at_lh_mat, look_at_rh_mat, model_lh_mat, model_rh_mat, dist.
  tauto.
Qed.

Lemma C09_basis : C09_basis_stmt.
Proof.
  unfold C09_basis_stmt. split; [ | split ].
  - table; intros kk a; (eexists; split; [ rrun_unfold; reflexivity | split; [ reflexivity | ] ]);
      meq_cases; c09_unfold; first [ reflexivity | ring ].
  - intros o bi bj bk. repeat split; veq_cases; c09_unfold; ring.
  - intros o bi bj bk (H1 & H2 & H3 & H4 & H5 & H6). revert H1 H2 H3 H4 H5 H6. c09_vec. intros.
    meq_cases; c09_unfold; nsatz.
Qed.
