Require Import Reals List ZArith Lra Lia.
From VekLib Require Import Ops ROps LinAlg RLin.
From VekGen Require Import C10_gen.
From VekProofs Require Import C10_spec.
Import ListNotations.
Local Open Scope R_scope.

Ltac table := repeat (apply Forall_cons; [ | ]); try apply Forall_nil.
Ltac c10_unfold :=
  cbv [aL absL vec_of off pt clip_of project_spec unproject_spec win_to_clip]; rlin_unfold.

Ltac congr_ring := first [ reflexivity | ring | (f_equal; congr_ring) ].

Lemma C10_project : C10_project_stmt.
Proof.
  unfold C10_project_stmt.
  table; intros k a; (eexists; split; [ rrun_unfold; reflexivity | split; [ reflexivity | ] ]);
    veq_cases; c10_unfold; congr_ring.
Qed.

Lemma C10_picking : C10_picking_stmt.
Proof.
  split; intros k a; split.
  1,3: intros Hx Hy Hw Hh; (eexists; split; [ rrun_unfold;
         rewrite (proj2 (Rltb_true 0 (a 2%nat)) Hx), (proj2 (Rltb_true 0 (a 3%nat)) Hy); reflexivity | split; [ reflexivity | ] ]);
       intros sx sy z; destruct sx, sy; cbv zeta; veq_cases; c10_unfold; field; repeat split; lra.
  all: intros Hn; rrun_unfold; split_conds; try reflexivity; exfalso; apply Hn; split; assumption.
Qed.
