Require Import Reals List ZArith Lra Lia Nsatz.
From VekLib Require Import Ops ROps LinAlg RLin.
From VekGen Require Import C04_gen.
From VekProofs Require Import C04_spec C04_tac.
Import ListNotations.
Local Open Scope R_scope.

Lemma unit3_unit v : nonzero3 v ->
  unit3 v 0%nat * unit3 v 0%nat + unit3 v 1%nat * unit3 v 1%nat + unit3 v 2%nat * unit3 v 2%nat = 1.
Proof.
  intros H. destruct (norm3_facts v H) as [H0 H1]. unfold unit3. set (r := norm3 v) in *. clearbody r.
  field_simplify_eq; [ | lra ]. cbv [Rpow_def.pow]. clear H H0. nsatz.
Qed.

Lemma sqrt1 : sqrt (1 * 1 + 0 * 0 + 0 * 0) = 1.
Proof. replace (1 * 1 + 0 * 0 + 0 * 0) with 1 by ring. apply sqrt_1. Qed.
Lemma sqrt1b : sqrt (0 * 0 + 1 * 1 + 0 * 0) = 1.
Proof. replace (0 * 0 + 1 * 1 + 0 * 0) with 1 by ring. apply sqrt_1. Qed.
Lemma sqrt1c : sqrt (0 * 0 + 0 * 0 + 1 * 1) = 1.
Proof. replace (0 * 0 + 0 * 0 + 1 * 1) with 1 by ring. apply sqrt_1. Qed.

Lemma C04_rodrigues_proper : C04_rodrigues_proper_stmt.
Proof.
  intros a b v Hnz. cbv beta zeta.
  pose proof (unit3_unit v Hnz) as Hu.
  destruct (norm3_facts v Hnz) as [Hr0 Hrr].
  assert (Hv : forall i, v i = norm3 v * unit3 v i) by (intros i; unfold unit3; field; lra).
  repeat split.
  1-5: try meq_cases; try veq_cases; c04_unfold;
       try (rewrite (Hv 0%nat), (Hv 1%nat), (Hv 2%nat)); clear Hv;
       set (r := norm3 v) in *; set (x := unit3 v 0%nat) in *; set (y := unit3 v 1%nat) in *; set (z := unit3 v 2%nat) in *;
       clearbody r x y z;
       pose proof (cos_plus a b) as Hc; pose proof (sin_plus a b) as Hs;
       pose proof (sin2_cos2 a) as Ha; pose proof (sin2_cos2 b) as Hb; unfold Rsqr in Ha, Hb;
       set (sa := sin a) in *; set (ca := cos a) in *; set (sb := sin b) in *; set (cb := cos b) in *;
       set (sab := sin (a + b)) in *; set (cab := cos (a + b)) in *; clearbody sa ca sb cb sab cab;
       clear_noneq; nsatz.
  - (* axis length is irrelevant *)
    intros k Hk. assert (Hn : norm3 (fun i => k * v i) = k * norm3 v).
    { unfold norm3 at 1. replace (k * v 0%nat * (k * v 0%nat) + k * v 1%nat * (k * v 1%nat) + k * v 2%nat * (k * v 2%nat))
        with ((k * norm3 v) * (k * norm3 v))
        by (replace ((k * norm3 v) * (k * norm3 v)) with (k * k * (norm3 v * norm3 v)) by ring; rewrite Hrr; ring).
      apply sqrt_square. nra. }
    intros i Hi. unfold unit3. rewrite Hn. field. split; lra.
  - meq_cases; c04_unfold; cbv [unit3 norm3]; rewrite sqrt1; field.
  - meq_cases; c04_unfold; cbv [unit3 norm3]; rewrite sqrt1b; field.
  - meq_cases; c04_unfold; cbv [unit3 norm3]; rewrite sqrt1c; field.
Qed.
