Require Import Reals List ZArith Lia Lra Psatz.
From VekLib Require Import Ops ROps LinAlg RLin.
From VekGen Require Import C15_gen.
From VekProofs Require Import C15_spec C15_pa.
Import ListNotations.
Local Open Scope R_scope.

Ltac inflection i0 i1 i2 He :=
  rrun_unfold; split_conds; do 2 eexists; (split; [ reflexivity | ]); b_unfold;
  match goal with a : nat -> R |- _ =>
    let S := fresh "S" in let Cc := fresh "Cc" in let E := fresh "E" in
    set (S := a i0) in *; set (Cc := a i1) in *; set (E := a i2) in *; clearbody S Cc E;
    try name_quot; abs_cases He;
    (split; [ intros Hf; try discriminate Hf
            | split; [ intros Hf; try discriminate Hf; intros Hd u [? ?] Hz
                     | first [ left; reflexivity | right; reflexivity ] ] ]);
    try (exfalso; match goal with Hd : _ < Rabs _ |- _ => unfold Rabs in Hd; destruct (Rcase_abs _); lra end);
    to_poly S Cc E; first [ nra | (split; [ lra | nra ]) ]
  end.

Lemma C15_quad_inflection : C15_quad_inflection_stmt.
Proof.
  unfold C15_quad_inflection_stmt, qaxes. table; intros k a He; cbv [qd qj q_infl]; cbv zeta.
  - inflection 0%nat 2%nat 4%nat He.
  - inflection 1%nat 3%nat 5%nat He.
  - inflection 0%nat 3%nat 6%nat He.
  - inflection 1%nat 4%nat 7%nat He.
  - inflection 2%nat 5%nat 8%nat He.
Qed.
