(** * C14, floating-point clause for evaluation: the x coordinate of [QuadraticBezier2::evaluate] run under the rounded
    interpretation of lib/FlOps.v (every operation rounded to nearest, precision 53; overflow/underflow not modelled)
    is, for every factor in [0,1] and all real control points, within 8u(|P0| + |P1| + |P2|) of the Bernstein
    polynomial P0 (1-t)^2 + 2 P1 (1-t) t + P2 t^2, u = 2^-53. *)
Require Import Reals List ZArith Lra Psatz.
From Flocq Require Import Raux.
From VekLib Require Import Ops ROps FlOps.
From VekGen Require Import C14_gen.
Import ListNotations.
Local Open Scope R_scope.

Definition C14_float_evaluate_stmt : Prop :=
  forall k a, let p0 := a 0%nat in let p1 := a 2%nat in let p2 := a 4%nat in let t := a 6%nat in
    0 <= t <= 1 ->
    exists rx ry, run (Rfl_ops k) (noF 0) a p_quad2_evaluate = Ret ([], [rx; ry]) /\
      Rabs (rx - (p0 * ((1 - t) * (1 - t)) + 2 * p1 * ((1 - t) * t) + p2 * (t * t))) <= 8 * uu * (Rabs p0 + Rabs p1 + Rabs p2).

(** accumulating relative errors: |(1+q)(1+d) - 1| <= e' when |q| <= e, |d| <= u and e + u + e u <= e' *)
Lemma step_err q d e e' : Rabs q <= e -> Rabs d <= uu -> e + uu + e * uu <= e' -> Rabs ((1 + q) * (1 + d) - 1) <= e'.
Proof.
  intros Hq Hd He. replace ((1 + q) * (1 + d) - 1) with (q + d + q * d) by ring.
  eapply Rle_trans; [ apply Rabs_le_add; [ apply Rabs_le_add; [ exact Hq | exact Hd ] | apply Rabs_le_mul; [ exact Hq | exact Hd ] ] | exact He ].
Qed.

Lemma C14_float_evaluate : C14_float_evaluate_stmt.
Proof.
  intros k a p0 p1 p2 t Ht. pose proof uu_small as Hu.
  (* the rounded intermediates of both coordinates, in program order *)
  set (two := rnd (1 + 1)). set (u := rnd (1 - t)).
  set (q0 := a 1%nat). set (q1 := a 3%nat). set (q2 := a 5%nat).
  exists (rnd (rnd (rnd (rnd (p0 * u) * u) + rnd (rnd (rnd (p1 * two) * u) * t)) + rnd (rnd (p2 * t) * t))),
         (rnd (rnd (rnd (rnd (q0 * u) * u) + rnd (rnd (rnd (q1 * two) * u) * t)) + rnd (rnd (q2 * t) * t))).
  split; [ reflexivity | ].
  clearbody q0 q1 q2.
  destruct (rnd_rel (1 + 1)) as (d2 & H2 & E2). fold two in E2.
  destruct (rnd_rel (1 - t)) as (du & Hdu & Eu). fold u in Eu.
  destruct (rnd_rel (p0 * u)) as (a1 & Ha1 & Ea1). destruct (rnd_rel (rnd (p0 * u) * u)) as (a2 & Ha2 & Ea2).
  destruct (rnd_rel (p1 * two)) as (b1 & Hb1 & Eb1). destruct (rnd_rel (rnd (p1 * two) * u)) as (b2 & Hb2 & Eb2).
  destruct (rnd_rel (rnd (rnd (p1 * two) * u) * t)) as (b3 & Hb3 & Eb3).
  destruct (rnd_rel (rnd (rnd (p0 * u) * u) + rnd (rnd (rnd (p1 * two) * u) * t))) as (s1 & Hs1 & Es1).
  destruct (rnd_rel (p2 * t)) as (c1 & Hc1 & Ec1). destruct (rnd_rel (rnd (p2 * t) * t)) as (c2 & Hc2 & Ec2).
  destruct (rnd_rel (rnd (rnd (rnd (p0 * u) * u) + rnd (rnd (rnd (p1 * two) * u) * t)) + rnd (rnd (p2 * t) * t))) as (s2 & Hs2 & Es2).
  rewrite Es2, Es1, Ea2, Ea1, Eb3, Eb2, Eb1, Ec2, Ec1, E2, Eu.
  (* relative error of each of the three terms *)
  set (qa := (1 + du) * (1 + a1) * (1 + du) * (1 + a2) * (1 + s1) * (1 + s2) - 1).
  set (qb := (1 + d2) * (1 + b1) * (1 + du) * (1 + b2) * (1 + b3) * (1 + s1) * (1 + s2) - 1).
  set (qc := (1 + c1) * (1 + c2) * (1 + s2) - 1).
  assert (Qa : Rabs qa <= 6.1 * uu).
  { unfold qa.
    assert (S2 : Rabs ((1 + du) * (1 + a1) - 1) <= 2.01 * uu) by (apply (step_err du a1 uu); [ exact Hdu | exact Ha1 | nra ]).
    assert (S3 : Rabs ((1 + ((1 + du) * (1 + a1) - 1)) * (1 + du) - 1) <= 3.02 * uu) by (apply (step_err _ du (2.01 * uu)); [ exact S2 | exact Hdu | nra ]).
    assert (S4 : Rabs ((1 + ((1 + ((1 + du) * (1 + a1) - 1)) * (1 + du) - 1)) * (1 + a2) - 1) <= 4.04 * uu) by (apply (step_err _ a2 (3.02 * uu)); [ exact S3 | exact Ha2 | nra ]).
    assert (S5 : Rabs ((1 + ((1 + ((1 + ((1 + du) * (1 + a1) - 1)) * (1 + du) - 1)) * (1 + a2) - 1)) * (1 + s1) - 1) <= 5.06 * uu) by (apply (step_err _ s1 (4.04 * uu)); [ exact S4 | exact Hs1 | nra ]).
    assert (S6 : Rabs ((1 + ((1 + ((1 + ((1 + ((1 + du) * (1 + a1) - 1)) * (1 + du) - 1)) * (1 + a2) - 1)) * (1 + s1) - 1)) * (1 + s2) - 1) <= 6.1 * uu) by (apply (step_err _ s2 (5.06 * uu)); [ exact S5 | exact Hs2 | nra ]).
    replace ((1 + du) * (1 + a1) * (1 + du) * (1 + a2) * (1 + s1) * (1 + s2) - 1)
      with ((1 + ((1 + ((1 + ((1 + ((1 + du) * (1 + a1) - 1)) * (1 + du) - 1)) * (1 + a2) - 1)) * (1 + s1) - 1)) * (1 + s2) - 1) by ring.
    exact S6. }
  assert (Qb : Rabs qb <= 7.2 * uu).
  { unfold qb.
    assert (S2 : Rabs ((1 + d2) * (1 + b1) - 1) <= 2.01 * uu) by (apply (step_err d2 b1 uu); [ exact H2 | exact Hb1 | nra ]).
    assert (S3 : Rabs ((1 + ((1 + d2) * (1 + b1) - 1)) * (1 + du) - 1) <= 3.02 * uu) by (apply (step_err _ du (2.01 * uu)); [ exact S2 | exact Hdu | nra ]).
    assert (S4 : Rabs ((1 + ((1 + ((1 + d2) * (1 + b1) - 1)) * (1 + du) - 1)) * (1 + b2) - 1) <= 4.04 * uu) by (apply (step_err _ b2 (3.02 * uu)); [ exact S3 | exact Hb2 | nra ]).
    assert (S5 : Rabs ((1 + ((1 + ((1 + ((1 + d2) * (1 + b1) - 1)) * (1 + du) - 1)) * (1 + b2) - 1)) * (1 + b3) - 1) <= 5.06 * uu) by (apply (step_err _ b3 (4.04 * uu)); [ exact S4 | exact Hb3 | nra ]).
    assert (S6 : Rabs ((1 + ((1 + ((1 + ((1 + ((1 + d2) * (1 + b1) - 1)) * (1 + du) - 1)) * (1 + b2) - 1)) * (1 + b3) - 1)) * (1 + s1) - 1) <= 6.1 * uu) by (apply (step_err _ s1 (5.06 * uu)); [ exact S5 | exact Hs1 | nra ]).
    assert (S7 : Rabs ((1 + ((1 + ((1 + ((1 + ((1 + ((1 + d2) * (1 + b1) - 1)) * (1 + du) - 1)) * (1 + b2) - 1)) * (1 + b3) - 1)) * (1 + s1) - 1)) * (1 + s2) - 1) <= 7.2 * uu) by (apply (step_err _ s2 (6.1 * uu)); [ exact S6 | exact Hs2 | nra ]).
    replace ((1 + d2) * (1 + b1) * (1 + du) * (1 + b2) * (1 + b3) * (1 + s1) * (1 + s2) - 1)
      with ((1 + ((1 + ((1 + ((1 + ((1 + ((1 + d2) * (1 + b1) - 1)) * (1 + du) - 1)) * (1 + b2) - 1)) * (1 + b3) - 1)) * (1 + s1) - 1)) * (1 + s2) - 1) by ring.
    exact S7. }
  assert (Qc : Rabs qc <= 3.1 * uu).
  { unfold qc.
    assert (S2 : Rabs ((1 + c1) * (1 + c2) - 1) <= 2.01 * uu) by (apply (step_err c1 c2 uu); [ exact Hc1 | exact Hc2 | nra ]).
    assert (S3 : Rabs ((1 + ((1 + c1) * (1 + c2) - 1)) * (1 + s2) - 1) <= 3.1 * uu) by (apply (step_err _ s2 (2.01 * uu)); [ exact S2 | exact Hs2 | nra ]).
    replace ((1 + c1) * (1 + c2) * (1 + s2) - 1) with ((1 + ((1 + c1) * (1 + c2) - 1)) * (1 + s2) - 1) by ring. exact S3. }
  (* the result is the exact polynomial plus the three weighted relative errors *)
  match goal with |- Rabs (?r - ?B) <= _ =>
    replace (r - B) with (p0 * ((1 - t) * (1 - t)) * qa + p1 * (2 * ((1 - t) * t)) * qb + p2 * (t * t) * qc) by (unfold qa, qb, qc; ring) end.
  assert (W0 : 0 <= (1 - t) * (1 - t) <= 1) by nra. assert (W1 : 0 <= 2 * ((1 - t) * t) <= 1) by nra. assert (W2 : 0 <= t * t <= 1) by nra.
  assert (T0 : Rabs (p0 * ((1 - t) * (1 - t)) * qa) <= Rabs p0 * 1 * (6.1 * uu)).
  { apply Rabs_le_mul; [ apply Rabs_le_mul; [ lra | rewrite Rabs_pos_eq; lra ] | exact Qa ]. }
  assert (T1 : Rabs (p1 * (2 * ((1 - t) * t)) * qb) <= Rabs p1 * 1 * (7.2 * uu)).
  { apply Rabs_le_mul; [ apply Rabs_le_mul; [ lra | rewrite Rabs_pos_eq; lra ] | exact Qb ]. }
  assert (T2 : Rabs (p2 * (t * t) * qc) <= Rabs p2 * 1 * (3.1 * uu)).
  { apply Rabs_le_mul; [ apply Rabs_le_mul; [ lra | rewrite Rabs_pos_eq; lra ] | exact Qc ]. }
  pose proof (Rabs_pos p0). pose proof (Rabs_pos p1). pose proof (Rabs_pos p2).
  eapply Rle_trans; [ apply Rabs_le_add; [ apply Rabs_le_add; [ exact T0 | exact T1 ] | exact T2 ] | ].
  assert (0 <= Rabs p0 * uu) by nra. assert (0 <= Rabs p1 * uu) by nra. assert (0 <= Rabs p2 * uu) by nra. lra.
Qed.
