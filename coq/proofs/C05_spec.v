(** * C05 — statements: quaternions form the Hamilton algebra and rotate vectors like their matrix.
    Carrier: the real numbers. Quaternions are stored (x, y, z, w). *)
Require Import Reals List ZArith Lia.
From VekLib Require Import Ops ROps LinAlg RLin.
From VekGen Require Import C05_gen.
Import ListNotations.
Local Open Scope R_scope.

Definition aL := @absL R 0.
Definition vec_of (l : list R) : nat -> R := fun i => nth i l 0.
Definition mat_of (rows : list (list R)) : nat -> nat -> R := fun i j => nth j (nth i rows []) 0.
Definition off (a : nat -> R) (o : nat) : nat -> R := fun i => a (o + i)%nat.
Notation X := 0%nat. Notation Y := 1%nat. Notation Z := 2%nat. Notation W := 3%nat.

(** Hamilton product, conjugate, squared norm, inverse *)
Definition qmul (p q : nat -> R) : nat -> R :=
  vec_of [ q X * p W + p X * q W + (p Y * q Z - p Z * q Y);
           q Y * p W + p Y * q W + (p Z * q X - p X * q Z);
           q Z * p W + p Z * q W + (p X * q Y - p Y * q X);
           p W * q W - (p X * q X + p Y * q Y + p Z * q Z) ].
Definition qconj (q : nat -> R) : nat -> R := vec_of [ - q X; - q Y; - q Z; q W ].
Definition qn2 (q : nat -> R) : R := q X * q X + q Y * q Y + q Z * q Z + q W * q W.
Definition qinv (q : nat -> R) : nat -> R := fun i => qconj q i / qn2 q.
Definition qone : nat -> R := vec_of [0; 0; 0; 1].
Definition qeq (p q : nat -> R) : Prop := veq 4 p q.
(** q applied to a 3-vector: vector part of q (v,0) conj q *)
Definition pure (v : nat -> R) : nat -> R := vec_of [v X; v Y; v Z; 0].
Definition rotv (q v : nat -> R) : nat -> R := qmul (qmul q (pure v)) (qconj q).
(** the rotation matrix of a quaternion *)
Definition Qmat (q : nat -> R) : nat -> nat -> R :=
  let x := q X in let y := q Y in let z := q Z in let w := q W in
  mat_of [[1 - 2 * (y * y) - 2 * (z * z); 2 * x * y - 2 * z * w; 2 * x * z + 2 * y * w];
          [2 * x * y + 2 * z * w; 1 - 2 * (x * x) - 2 * (z * z); 2 * y * z - 2 * x * w];
          [2 * x * z - 2 * y * w; 2 * y * z + 2 * x * w; 1 - 2 * (x * x) - 2 * (y * y)]].
Definition emb (M : nat -> nat -> R) : nat -> nat -> R := fun i j =>
  if (Nat.ltb i 3 && Nat.ltb j 3)%bool then M i j else if Nat.eqb i j then 1 else 0.

(** ** the operators compute these functions (all inputs) *)
Definition computes (n : nat) (p : prog) (f : (nat -> R) -> nat -> R) : Prop :=
  forall k a, exists s, rrun k a p = Ret ([], s) /\ length s = n /\ veq n (Rvec s) (f a).
Definition C05_ops_stmt : Prop :=
  computes 4 p_quat_mul (fun a => qmul (off a 0) (off a 4)) /\
  computes 4 p_quat_add (fun a i => a i + a (4 + i)%nat) /\
  computes 4 p_quat_sub (fun a i => a i - a (4 + i)%nat) /\
  computes 4 p_quat_neg (fun a i => - a i) /\
  computes 4 p_quat_muls (fun a i => a i * a 4%nat) /\
  computes 4 p_quat_divs (fun a i => a i / a 4%nat) /\
  computes 4 p_quat_conjugate (fun a => qconj a) /\
  computes 4 p_quat_inverse (fun a => qinv a) /\
  computes 1 p_quat_dot (fun a _ => a 0%nat * a 4%nat + a 1%nat * a 5%nat + a 2%nat * a 6%nat + a 3%nat * a 7%nat) /\
  computes 1 p_quat_magnitude_squared (fun a _ => qn2 a) /\
  computes 1 p_quat_magnitude (fun a _ => sqrt (qn2 a)) /\
  computes 4 p_quat_normalized (fun a i => a i / sqrt (qn2 a)) /\
  computes 4 p_quat_identity (fun _ => qone) /\ computes 4 p_quat_default (fun _ => qone) /\
  computes 4 p_quat_zero (fun _ _ => 0) /\
  (* conversions keep components: (x,y,z,w) <-> Vec4, scalar+vector, Vec3 drops w *)
  computes 4 p_quat_from_xyzw (fun a => a) /\ computes 4 p_quat_into_vec4 (fun a => a) /\ computes 4 p_quat_from_vec4 (fun a => a) /\
  computes 4 p_vec4_from_quat (fun a => a) /\ computes 4 p_quat_from_vec4_trait (fun a => a) /\ computes 3 p_quat_into_vec3 (fun a => a) /\
  computes 4 p_quat_from_scalar_and_vec3 (fun a => vec_of [a 1%nat; a 2%nat; a 3%nat; a 0%nat]) /\
  computes 4 p_quat_into_scalar_and_vec3 (fun a => vec_of [a 3%nat; a 0%nat; a 1%nat; a 2%nat]).

(** ** the Hamilton algebra *)
Definition C05_algebra_stmt : Prop :=
  forall p q r : nat -> R,
    qeq (qmul (qmul p q) r) (qmul p (qmul q r)) /\
    qeq (qmul qone p) p /\ qeq (qmul p qone) p /\
    qn2 (qmul p q) = qn2 p * qn2 q /\
    qeq (qconj (qmul p q)) (qmul (qconj q) (qconj p)) /\
    (qn2 q <> 0 -> qeq (qmul q (qinv q)) qone /\ qeq (qmul (qinv q) q) qone).

(** ** applying a quaternion to vectors *)
Definition C05_apply_stmt : Prop :=
  computes 3 p_quat_mul_vec3 (fun a => rotv (off a 0) (off a 4)) /\
  computes 4 p_quat_mul_vec4 (fun a i => match i with 3%nat => a 7%nat | _ => rotv (off a 0) (off a 4) i end) /\
  (* the matrix converted from a quaternion *)
  Forall (fun '(n, l, p) => forall k a, exists s, rrun k a p = Ret ([], s) /\ length s = (n * n)%nat /\ meq n (aL l n s) (emb (Qmat a)))
    [ (3%nat, Lr, p_mat3r_from_quaternion); (3%nat, Lc, p_mat3c_from_quaternion);
      (4%nat, Lr, p_mat4r_from_quaternion); (4%nat, Lc, p_mat4c_from_quaternion) ] /\
  (* a unit quaternion acts like its matrix; application composes *)
  (forall q v : nat -> R, qn2 q = 1 -> veq 3 (rotv q v) (Rmv 3 (Qmat q) v)) /\
  (forall p q v : nat -> R, veq 3 (rotv (qmul p q) v) (rotv p (rotv q v))) /\
  (forall q v : nat -> R, rotv q v W = 0).

(** ** rotation from one direction to another *)
Definition dot3 (u v : nat -> R) : R := u X * v X + u Y * v Y + u Z * v Z.
Definition from_to_generic (p : prog) : Prop :=
  forall k a, let u := off a 0 in let v := off a 3 in
    let r := sqrt (dot3 u u * dot3 v v) in
    0 < k Neps -> 0 < dot3 u u -> 0 < dot3 v v -> ~ (r + dot3 u v < r * k Neps) ->
    exists s, rrun k a p = Ret ([], s) /\ length s = 4%nat /\ qn2 (Rvec s) = 1 /\
      veq 3 (rotv (Rvec s) u) (fun i => r / dot3 v v * v i).     (* = (|u|/|v|) v *)
Definition from_to_opposite (p : prog) : Prop :=
  forall k a c, let u := off a 0 in let v := off a 3 in
    0 < k Neps -> 0 < dot3 u u -> 0 < c -> (forall i, (i < 3)%nat -> v i = - c * u i) ->
    exists s, rrun k a p = Ret ([], s) /\ length s = 4%nat /\ qn2 (Rvec s) = 1 /\
      veq 3 (rotv (Rvec s) u) (fun i => - u i).
Definition C05_from_to_stmt : Prop :=
  from_to_generic p_quat_rotation_from_to_3d /\ from_to_opposite p_quat_rotation_from_to_3d /\
  (* the matrix forms are the matrix of that quaternion, whatever branch is taken *)
  Forall (fun '(n, l, p) => forall k a sq sm, rrun k a p_quat_rotation_from_to_3d = Ret ([], sq) -> rrun k a p = Ret ([], sm) ->
            meq n (aL l n sm) (emb (Qmat (Rvec sq))))
    [ (3%nat, Lr, p_mat3r_rotation_from_to_3d); (3%nat, Lc, p_mat3c_rotation_from_to_3d);
      (4%nat, Lr, p_mat4r_rotation_from_to_3d); (4%nat, Lc, p_mat4c_rotation_from_to_3d) ].

(** ** angle-axis extraction: a unit axis and an angle describing the same rotation *)
Definition C05_angle_axis_stmt : Prop :=
  forall k a, qn2 a = 1 -> 0 < k Neps -> ~ (sqrt (1 - a W * a W) < k Neps) ->
    exists s, rrun k a p_quat_into_angle_axis = Ret ([], s) /\ length s = 4%nat /\
      let ang := Rvec s 0%nat in let ax := off (Rvec s) 1 in
      dot3 ax ax = 1 /\ cos (ang / 2) = a W /\ (forall i, (i < 3)%nat -> ax i * sin (ang / 2) = a i).
