(** * C17 — statements: clamp, range test, wrap, ping-pong and angle difference obey their range laws.
    Part A: the float family over the real numbers (exact arithmetic; the "few ulps" clause of the property is
    about rounding and is not modelled). Part B: the integer families for every width and both overflow modes. *)
Require Import Reals List ZArith Lia.
From VekLib Require Import Ops ROps LinAlg RLin MachineInt.
From VekGen Require Import C17_gen.
Import ListNotations.
Local Open Scope R_scope.

Definition ret1 (r : res (out R)) (Q : R -> Prop) : Prop := exists v, r = Ret ([], [v]) /\ Q v.
Definition flag_iff (r : res (out R)) (P : Prop) : Prop :=
  (r = Ret ([1%Z], []) /\ P) \/ (r = Ret ([0%Z], []) /\ ~ P).
Definition env_of3 (x y z : R) : nat -> R := fun i => match i with 0 => x | 1 => y | _ => z end%nat.
Definition congruent (x r period : R) : Prop := exists k : Z, x - r = IZR k * period.

(** ** clamp / is_between (inputs: value, lower, upper) *)
Definition C17_clamp_stmt : Prop :=
  forall k a, let x := a 0%nat in let lo := a 1%nat in let hi := a 2%nat in
    (lo <= hi ->
       ret1 (rrun k a p_f_clamped) (fun c =>
         (lo <= x <= hi -> c = x) /\ (x < lo -> c = lo) /\ (hi < x -> c = hi) /\ lo <= c <= hi /\
         (* idempotent, through the code again *)
         rrun k (env_of3 c lo hi) p_f_clamped = Ret ([], [c])) /\
       flag_iff (rrun k a p_f_is_between) (lo <= x <= hi) /\
       (* clamped x = x exactly when x is within the bounds *)
       (rrun k a p_f_clamped = Ret ([], [x]) <-> rrun k a p_f_is_between = Ret ([1%Z], []))) /\
    (* panics exactly when the bounds are not ordered *)
    (hi < lo -> rrun k a p_f_clamped = Panic /\ rrun k a p_f_is_between = Panic) /\
    (* aliases and fixed-bound forms *)
    rrun k a p_f_clamp = rrun k a p_f_clamped /\ rrun k a p_f_clamped_range = rrun k a p_f_clamped /\
    rrun k a p_f_is_between_range = rrun k a p_f_is_between /\
    rrun k a p_f_clamped01 = rrun k (env_of3 x 0 1) p_f_clamped /\ rrun k a p_f_clamp01 = rrun k a p_f_clamped01 /\
    rrun k a p_f_clamped_minus1_1 = rrun k (env_of3 x (-1) 1) p_f_clamped /\
    rrun k a p_f_clamp_range = rrun k a p_f_clamped /\ rrun k a p_f_clamp_minus1_1 = rrun k a p_f_clamped_minus1_1 /\
    rrun k a p_f_is_between01 = rrun k (env_of3 x 0 1) p_f_is_between /\
    ret1 (rrun k a p_f_partial_min) (fun m => m = Rmin x lo) /\ ret1 (rrun k a p_f_partial_max) (fun m => m = Rmax x lo).

(** ** wrap, ping-pong, angle difference *)
Definition C17_wrap_stmt : Prop :=
  forall k a, let x := a 0%nat in
    (* wrapped(x, upper): in [0, upper) and congruent to x modulo upper; panics when upper <= 0 *)
    (let u := a 1%nat in
       (0 < u -> ret1 (rrun k a p_f_wrapped) (fun r => 0 <= r < u /\ congruent x r u)) /\
       (u <= 0 -> rrun k a p_f_wrapped = Panic) /\ rrun k a p_f_wrap = rrun k a p_f_wrapped) /\
    (* wrapped_between(x, lower, upper) *)
    (let lo := a 1%nat in let hi := a 2%nat in
       (0 <= lo < hi -> ret1 (rrun k a p_f_wrapped_between) (fun r => lo <= r < hi /\ congruent x r (hi - lo))) /\
       (~ (0 <= lo < hi) -> rrun k a p_f_wrapped_between = Panic) /\
       rrun k a p_f_wrap_between = rrun k a p_f_wrapped_between) /\
    (* pingpong(x, upper): the triangle wave of period 2*upper with values in [0, upper] *)
    (let u := a 1%nat in
       (0 < u -> ret1 (rrun k a p_f_pingpong) (fun r =>
          0 <= r <= u /\ exists w, 0 <= w < 2 * u /\ congruent x w (2 * u) /\ r = u - Rabs (w - u))) /\
       (u <= 0 -> rrun k a p_f_pingpong = Panic)) /\
    (* wrapped_2pi *)
    ret1 (rrun k a p_f_wrapped_2pi) (fun r => 0 <= r < 2 * PI /\ congruent x r (2 * PI)) /\
    rrun k a p_f_wrap_2pi = rrun k a p_f_wrapped_2pi /\
    (* delta_angle(self, target) in (-pi, pi], congruent to target - self; degrees likewise *)
    (let t := a 1%nat in
       ret1 (rrun k a p_f_delta_angle) (fun d => - PI < d <= PI /\ congruent (t - x) d (2 * PI)) /\
       ret1 (rrun k a p_f_delta_angle_degrees) (fun d => -180 < d <= 180 /\ congruent (t - x) d 360)).

(** ** vector forms: the scalar law per element (same closed forms), panic when some element's bounds are bad *)
Definition Rclamp (x lo hi : R) : R := Rmin (Rmax x lo) hi.
Definition Rwrap (x u : R) : R := x - Rfloor (x / u) * u.
Definition lanes (n : nat) (f : nat -> R) : list R := map f (seq 0 n).
Definition lanesb (n : nat) (f : nat -> bool) : list Z := map (fun i => if f i then 1%Z else 0%Z) (seq 0 n).
Definition Rbetween (x lo hi : R) : bool := negb (Rltb x lo) && negb (Rltb hi x).
Definition vlift_ok (n : nat) (pcv pcs pbv pbs pwv pws pwbv pwbs ppv pps : prog) : Prop :=
  forall k a,
    ((forall i, (i < n)%nat -> a (n + i)%nat <= a (2 * n + i)%nat) ->
       rrun k a pcv = Ret ([], lanes n (fun i => Rclamp (a i) (a (n + i)%nat) (a (2 * n + i)%nat))) /\
       rrun k a pbv = Ret (lanesb n (fun i => Rbetween (a i) (a (n + i)%nat) (a (2 * n + i)%nat)), [])) /\
    ((exists i, (i < n)%nat /\ a (2 * n + i)%nat < a (n + i)%nat) -> rrun k a pcv = Panic /\ rrun k a pbv = Panic) /\
    (a n <= a (S n) ->
       rrun k a pcs = Ret ([], lanes n (fun i => Rclamp (a i) (a n) (a (S n)))) /\
       rrun k a pbs = Ret (lanesb n (fun i => Rbetween (a i) (a n) (a (S n))), [])) /\
    (a (S n) < a n -> rrun k a pcs = Panic /\ rrun k a pbs = Panic) /\
    ((forall i, (i < n)%nat -> 0 < a (n + i)%nat) ->
       rrun k a pwv = Ret ([], lanes n (fun i => Rwrap (a i) (a (n + i)%nat))) /\
       rrun k a ppv = Ret ([], lanes n (fun i => a (n + i)%nat - Rabs (Rwrap (a i) (a (n + i)%nat + a (n + i)%nat) - a (n + i)%nat)))) /\
    (0 < a n ->
       rrun k a pws = Ret ([], lanes n (fun i => Rwrap (a i) (a n))) /\
       rrun k a pps = Ret ([], lanes n (fun i => a n - Rabs (Rwrap (a i) (a n + a n) - a n)))) /\
    ((forall i, (i < n)%nat -> 0 <= a (n + i)%nat < a (2 * n + i)%nat) ->
       rrun k a pwbv = Ret ([], lanes n (fun i => Rwrap (a i - a (n + i)%nat) (a (2 * n + i)%nat - a (n + i)%nat) + a (n + i)%nat))) /\
    (0 <= a n < a (S n) ->
       rrun k a pwbs = Ret ([], lanes n (fun i => Rwrap (a i - a n) (a (S n) - a n) + a n))).
Definition C17_vector_stmt : Prop :=
  (* the scalar programs have these closed forms *)
  (forall k a, (a 1%nat <= a 2%nat -> rrun k a p_f_clamped = Ret ([], [Rclamp (a 0%nat) (a 1%nat) (a 2%nat)])) /\
               (0 < a 1%nat -> rrun k a p_f_wrapped = Ret ([], [Rwrap (a 0%nat) (a 1%nat)]) /\
                               rrun k a p_f_pingpong = Ret ([], [a 1%nat - Rabs (Rwrap (a 0%nat) (a 1%nat + a 1%nat) - a 1%nat)])) /\
               (0 <= a 1%nat < a 2%nat -> rrun k a p_f_wrapped_between = Ret ([], [Rwrap (a 0%nat - a 1%nat) (a 2%nat - a 1%nat) + a 1%nat]))) /\
  vlift_ok 2 p_vec2_clamped_v p_vec2_clamped_s p_vec2_is_between_v p_vec2_is_between_s p_vec2_wrapped_v p_vec2_wrapped_s p_vec2_wrapped_between_v p_vec2_wrapped_between_s p_vec2_pingpong_v p_vec2_pingpong_s /\
  vlift_ok 3 p_vec3_clamped_v p_vec3_clamped_s p_vec3_is_between_v p_vec3_is_between_s p_vec3_wrapped_v p_vec3_wrapped_s p_vec3_wrapped_between_v p_vec3_wrapped_between_s p_vec3_pingpong_v p_vec3_pingpong_s /\
  vlift_ok 4 p_vec4_clamped_v p_vec4_clamped_s p_vec4_is_between_v p_vec4_is_between_s p_vec4_wrapped_v p_vec4_wrapped_s p_vec4_wrapped_between_v p_vec4_wrapped_between_s p_vec4_pingpong_v p_vec4_pingpong_s /\
  vlift_ok 2 p_extent2_clamped_v p_extent2_clamped_s p_extent2_is_between_v p_extent2_is_between_s p_extent2_wrapped_v p_extent2_wrapped_s p_extent2_wrapped_between_v p_extent2_wrapped_between_s p_extent2_pingpong_v p_extent2_pingpong_s /\
  vlift_ok 3 p_extent3_clamped_v p_extent3_clamped_s p_extent3_is_between_v p_extent3_is_between_s p_extent3_wrapped_v p_extent3_wrapped_s p_extent3_wrapped_between_v p_extent3_wrapped_between_s p_extent3_pingpong_v p_extent3_pingpong_s /\
  vlift_ok 3 p_rgb_clamped_v p_rgb_clamped_s p_rgb_is_between_v p_rgb_is_between_s p_rgb_wrapped_v p_rgb_wrapped_s p_rgb_wrapped_between_v p_rgb_wrapped_between_s p_rgb_pingpong_v p_rgb_pingpong_s /\
  vlift_ok 4 p_rgba_clamped_v p_rgba_clamped_s p_rgba_is_between_v p_rgba_is_between_s p_rgba_wrapped_v p_rgba_wrapped_s p_rgba_wrapped_between_v p_rgba_wrapped_between_s p_rgba_pingpong_v p_rgba_pingpong_s /\
  vlift_ok 2 p_uv_clamped_v p_uv_clamped_s p_uv_is_between_v p_uv_is_between_s p_uv_wrapped_v p_uv_wrapped_s p_uv_wrapped_between_v p_uv_wrapped_between_s p_uv_pingpong_v p_uv_pingpong_s /\
  vlift_ok 3 p_uvw_clamped_v p_uvw_clamped_s p_uvw_is_between_v p_uvw_is_between_s p_uvw_wrapped_v p_uvw_wrapped_s p_uvw_wrapped_between_v p_uvw_wrapped_between_s p_uvw_pingpong_v p_uvw_pingpong_s.
