Require Import Reals List ZArith Lra Lia.
From VekLib Require Import Ops ROps LinAlg RLin RSum.
From VekGen Require Import C11_gen.
From VekProofs Require Import C11_spec C11_pa C11_tac.
Import ListNotations.
Local Open Scope R_scope.
Lemma basic_vec4 : basic_ok 4 [p_vec4_dot; p_vec4_magnitude_squared; p_vec4_magnitude; p_vec4_distance_squared; p_vec4_distance; p_vec4_normalized; p_vec4_normalize; p_vec4_normalized_and_get_magnitude; p_vec4_normalize_and_get_magnitude; p_vec4_reflected; p_vec4_face_forward].
Proof. prove_basic 4%nat. Qed.
