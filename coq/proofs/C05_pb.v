Require Import Reals List ZArith Lra Lia Nsatz.
From VekLib Require Import Ops ROps LinAlg RLin.
From VekGen Require Import C05_gen.
From VekProofs Require Import C05_spec C05_pa.
Import ListNotations.
Local Open Scope R_scope.
Ltac clear_noneq :=
  repeat match goal with H : ?P |- _ =>
    lazymatch P with _ = _ => fail | _ => lazymatch type of P with Prop => clear H end end end.
Lemma from_to_generic_ok : from_to_generic p_quat_rotation_from_to_3d.
Proof.
  intros k a. cbv zeta. intros He Hu Hv Hband.
  eexists. split. { rrun_unfold. 
  revert Hband. cbv [dot3 off Nat.add]. intros Hband.
  match goal with |- context [Rltb ?x ?y] => rewrite (proj2 (Rltb_false x y)) by exact Hband end.
  reflexivity. }
  split; [reflexivity|].
  revert He Hu Hv Hband. cbv [dot3 off Nat.add]. intros.
  assert (Hr0 : 0 < sqrt ((a 0%nat * a 0%nat + a 1%nat * a 1%nat + a 2%nat * a 2%nat) * (a 3%nat * a 3%nat + a 4%nat * a 4%nat + a 5%nat * a 5%nat)))
    by (apply sqrt_lt_R0; nra).
  assert (Hrr := sqrt_sqrt ((a 0%nat * a 0%nat + a 1%nat * a 1%nat + a 2%nat * a 2%nat) * (a 3%nat * a 3%nat + a 4%nat * a 4%nat + a 5%nat * a 5%nat)) ltac:(nra)).
  set (r := sqrt _) in *. clearbody r.
  assert (Hw : 0 < r + (a 0%nat * a 3%nat + a 1%nat * a 4%nat + a 2%nat * a 5%nat)) by nra.
  match goal with |- context [sqrt ?e] => 
    assert (Hn0 : 0 < e) by nra; assert (Hm0 : 0 < sqrt e) by (apply sqrt_lt_R0; exact Hn0);
    assert (Hmm := sqrt_sqrt e ltac:(lra)); set (m := sqrt e) in * end. clearbody m.
  split.
  - c05_unfold. field_simplify_eq; [ | lra ]. cbv [Rpow_def.pow]. clear_noneq. nsatz.
  - veq_cases; c05_unfold. 
    all: field_simplify_eq; [ | split; lra ]. all: cbv [Rpow_def.pow]; clear_noneq. all: nsatz.
Qed.

Lemma from_to_opposite_ok : from_to_opposite p_quat_rotation_from_to_3d.
Proof.
  intros k a c. cbv zeta. intros He Hu Hc Hv.
  pose proof (Hv 0%nat ltac:(lia)) as V0. pose proof (Hv 1%nat ltac:(lia)) as V1. pose proof (Hv 2%nat ltac:(lia)) as V2. clear Hv.
  revert He Hu V0 V1 V2. cbv [dot3 off Nat.add]. intros.
  set (uu := a 0%nat * a 0%nat + a 1%nat * a 1%nat + a 2%nat * a 2%nat) in *.
  assert (Hr : sqrt (uu * (a 3%nat * a 3%nat + a 4%nat * a 4%nat + a 5%nat * a 5%nat)) = c * uu).
  { rewrite V0, V1, V2. replace (uu * _) with ((c * uu) * (c * uu)) by (unfold uu; ring). apply sqrt_square. nra. }
  assert (Hd : a 0%nat * a 3%nat + a 1%nat * a 4%nat + a 2%nat * a 5%nat = - (c * uu)) by (rewrite V0, V1, V2; unfold uu; ring).
  assert (Hcu : 0 < c * uu) by nra.
  destruct (Rlt_dec (Rabs (a 2%nat)) (Rabs (a 0%nat))) as [Hb|Hb].
  - (* |x| > |z|: axis (-y, x, 0) *)
    assert (Hx : a 0%nat <> 0) by (intro E; rewrite E, Rabs_R0 in Hb; pose proof (Rabs_pos (a 2%nat)); lra).
    assert (Hn0 : 0 < - a 1%nat * - a 1%nat + a 0%nat * a 0%nat + 0 * 0 + 0 * 0) by nra.
    eexists. split.
    { rrun_unfold. fold uu. rewrite Hr, Hd.
      match goal with |- context [Rltb ?x ?y] => rewrite (proj2 (Rltb_true x y)) by nra end.
      rewrite (proj2 (Rltb_true _ _) Hb). reflexivity. }
    split; [ reflexivity | ].
    assert (Hm0 := sqrt_lt_R0 _ Hn0). assert (Hmm := sqrt_sqrt _ (Rlt_le _ _ Hn0)).
    set (m := sqrt _) in *. clearbody m.
    split; [ c05_unfold | veq_cases; c05_unfold ]; (field_simplify_eq; [ | lra ]); cbv [Rpow_def.pow]; subst uu; clear_noneq; nsatz.
  - (* otherwise: axis (0, -z, y) *)
    assert (Hn0 : 0 < 0 * 0 + - a 2%nat * - a 2%nat + a 1%nat * a 1%nat + 0 * 0).
    { apply Rnot_lt_le in Hb. apply Rsqr_le_abs_1 in Hb. unfold Rsqr in Hb. unfold uu in Hu. nra. }
    eexists. split.
    { rrun_unfold. fold uu. rewrite Hr, Hd.
      match goal with |- context [Rltb ?x ?y] => rewrite (proj2 (Rltb_true x y)) by nra end.
      rewrite (proj2 (Rltb_false _ _) Hb). reflexivity. }
    split; [ reflexivity | ].
    assert (Hm0 := sqrt_lt_R0 _ Hn0). assert (Hmm := sqrt_sqrt _ (Rlt_le _ _ Hn0)).
    set (m := sqrt _) in *. clearbody m.
    split; [ c05_unfold | veq_cases; c05_unfold ]; (field_simplify_eq; [ | lra ]); cbv [Rpow_def.pow]; subst uu; clear_noneq; nsatz.
Qed.

Lemma C05_from_to : C05_from_to_stmt.
Proof.
  split; [ exact from_to_generic_ok | split; [ exact from_to_opposite_ok | ] ].
  table; intros k a sq sm; rrun_unfold; split_conds; intros H1 H2;
    injection H1 as <-; injection H2 as <-; meq_cases; c05_unfold; ring.
Qed.

Lemma C05_angle_axis : C05_angle_axis_stmt.
Proof.
  intros k a Hn He Hb. revert Hn. cbv [qn2]. intros Hn.
  assert (Hw : -1 <= a 3%nat <= 1) by (split; nra).
  assert (Hs0 : 0 < sqrt (1 - a 3%nat * a 3%nat)) by lra.
  assert (Hpos : 0 <= 1 - a 3%nat * a 3%nat) by nra.
  assert (Hss := sqrt_sqrt _ Hpos).
  eexists. split.
  { rrun_unfold. rewrite (proj2 (Rltb_false _ _) Hb). reflexivity. }
  split; [ reflexivity | ]. cbv zeta. c05_unfold.
  replace ((acos (a 3%nat) + acos (a 3%nat)) / 2) with (acos (a 3%nat)) by field.
  rewrite cos_acos by exact Hw. rewrite sin_acos by exact Hw.
  replace (1 - (a 3%nat)²) with (1 - a 3%nat * a 3%nat) by (unfold Rsqr; ring).
  set (s := sqrt (1 - a 3%nat * a 3%nat)) in *. clearbody s.
  split; [ | split; [ reflexivity | ] ].
  - field_simplify_eq; [ | lra ]. cbv [Rpow_def.pow]. clear He Hb Hw Hs0 Hpos. nsatz.
  - intros i Hi. destruct i as [|[|[|]]]; try lia; cbv [List.nth Nat.add]; field; lra.
Qed.
