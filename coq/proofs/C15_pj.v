(** C15 — the inscribed polyline is never longer than the control polygon (quadratic and cubic curves, dimension
    2 and 3, every partition of [0,1]): by induction over the partition, splitting the curve at its first
    node (de Casteljau): the chord of the left part is at most its control polygon, the rest of the polyline is
    inscribed in the right part, and splitting does not lengthen the control polygon. *)
Require Import Reals List ZArith Lia Lra Psatz.
From VekLib Require Import Ops ROps LinAlg RLin.
From VekGen Require Import C15_gen.
From VekProofs Require Import C15_spec C15_ph.
Import ListNotations.
Local Open Scope R_scope.

Definition lin2 (a : R) (u : V) (b : R) (v : V) : V := fun j => a * u j + b * v j.
Definition lin3 (a : R) (u : V) (b : R) (v : V) (c : R) (w : V) : V := fun j => a * u j + b * v j + c * w j.

Lemma seglen_nrm d f s t : seglen d f s t = nrm d (vsub (f t) (f s)).
Proof. reflexivity. Qed.
Lemma nrm_nonneg d v : 0 <= nrm d v. Proof. apply sqrt_pos. Qed.
Lemma nrm_ext d u v : (d = 2 \/ d = 3)%nat -> (forall j, (j < d)%nat -> u j = v j) -> nrm d u = nrm d v.
Proof. intros [-> | ->] H; unfold nrm; cbn [seq map fold_right]; rewrite ?(H 0%nat), ?(H 1%nat), ?(H 2%nat) by lia; reflexivity. Qed.
Lemma nrm_tri d u v : (d = 2 \/ d = 3)%nat -> nrm d (fun j => u j + v j) <= nrm d u + nrm d v.
Proof.
  intros [-> | ->]; unfold nrm; cbn [seq map fold_right]; rewrite !Rplus_0_r.
  - apply tri2.
  - rewrite <- !Rplus_assoc. apply tri3.
Qed.
Lemma nrm_scale d c v : (d = 2 \/ d = 3)%nat -> 0 <= c -> nrm d (fun j => c * v j) = c * nrm d v.
Proof.
  intros Hd Hc. unfold nrm.
  assert (E : fold_right Rplus 0 (map (fun j => c * v j * (c * v j)) (seq 0 d)) = (c * c) * fold_right Rplus 0 (map (fun j => v j * v j) (seq 0 d)))
    by (destruct Hd as [-> | ->]; cbn [seq map fold_right]; ring).
  rewrite E. rewrite sqrt_mult; [ | nra | ].
  - rewrite sqrt_square by exact Hc. reflexivity.
  - destruct Hd as [-> | ->]; cbn [seq map fold_right]; nra.
Qed.
Lemma nrm_lin2 d a u b v : (d = 2 \/ d = 3)%nat -> 0 <= a -> 0 <= b -> nrm d (lin2 a u b v) <= a * nrm d u + b * nrm d v.
Proof.
  intros Hd Ha Hb. unfold lin2. eapply Rle_trans; [ apply (nrm_tri d (fun j => a * u j) (fun j => b * v j) Hd) | ].
  rewrite (nrm_scale d a u Hd Ha), (nrm_scale d b v Hd Hb). lra.
Qed.
Lemma nrm_lin3 d a u b v c w : (d = 2 \/ d = 3)%nat -> 0 <= a -> 0 <= b -> 0 <= c ->
  nrm d (lin3 a u b v c w) <= a * nrm d u + b * nrm d v + c * nrm d w.
Proof.
  intros Hd Ha Hb Hc. unfold lin3.
  eapply Rle_trans; [ apply (nrm_tri d (fun j => a * u j + b * v j) (fun j => c * w j) Hd) | ].
  rewrite (nrm_scale d c w Hd Hc). pose proof (nrm_lin2 d a u b v Hd Ha Hb) as H. unfold lin2 in H. lra.
Qed.

(** de Casteljau: control points of the part after the parameter t, and the polygon of the part before it *)
Definition right_cp (deg : nat) (P : nat -> V) (t : R) : nat -> V :=
  match deg with
  | 2%nat => fun i => match i with
      | 0%nat => curve 2 P t | 1%nat => lin2 (1 - t) (P 1%nat) t (P 2%nat) | _ => P 2%nat end
  | _ => fun i => match i with
      | 0%nat => curve 3 P t | 1%nat => lin3 ((1 - t) * (1 - t)) (P 1%nat) (2 * t * (1 - t)) (P 2%nat) (t * t) (P 3%nat)
      | 2%nat => lin2 (1 - t) (P 2%nat) t (P 3%nat) | _ => P 3%nat end
  end.
Definition left_cp (deg : nat) (P : nat -> V) (t : R) : nat -> V :=
  match deg with
  | 2%nat => fun i => match i with
      | 0%nat => P 0%nat | 1%nat => lin2 (1 - t) (P 0%nat) t (P 1%nat) | _ => curve 2 P t end
  | _ => fun i => match i with
      | 0%nat => P 0%nat | 1%nat => lin2 (1 - t) (P 0%nat) t (P 1%nat)
      | 2%nat => lin3 ((1 - t) * (1 - t)) (P 0%nat) (2 * t * (1 - t)) (P 1%nat) (t * t) (P 2%nat) | _ => curve 3 P t end
  end.

Lemma right_reparam deg P t u j : (deg = 2 \/ deg = 3)%nat -> curve deg (right_cp deg P t) u j = curve deg P (t + (1 - t) * u) j.
Proof. intros [-> | ->]; cbv [curve bern right_cp lin2 lin3]; ring. Qed.
Lemma curve_0 deg P j : (deg = 2 \/ deg = 3)%nat -> curve deg P 0 j = P 0%nat j.
Proof. intros [-> | ->]; cbv [curve bern]; ring. Qed.

(** chord <= control polygon *)
Lemma chord_le deg d P : (deg = 2 \/ deg = 3)%nat -> (d = 2 \/ d = 3)%nat -> nrm d (vsub (P deg) (P 0%nat)) <= cpl deg d P.
Proof.
  intros [-> | ->] Hd; unfold cpl.
  - rewrite (nrm_ext d (vsub (P 2%nat) (P 0%nat)) (fun j => vsub (P 1%nat) (P 0%nat) j + vsub (P 2%nat) (P 1%nat) j) Hd) by (intros; unfold vsub; ring).
    apply nrm_tri; exact Hd.
  - rewrite (nrm_ext d (vsub (P 3%nat) (P 0%nat)) (fun j => (vsub (P 1%nat) (P 0%nat) j + vsub (P 2%nat) (P 1%nat) j) + vsub (P 3%nat) (P 2%nat) j) Hd) by (intros; unfold vsub; ring).
    eapply Rle_trans; [ apply nrm_tri; exact Hd | ]. apply Rplus_le_compat_r. apply nrm_tri; exact Hd.
Qed.

(** splitting does not lengthen the control polygon *)
Lemma split_le deg d P t : (deg = 2 \/ deg = 3)%nat -> (d = 2 \/ d = 3)%nat -> 0 <= t <= 1 ->
  cpl deg d (left_cp deg P t) + cpl deg d (right_cp deg P t) <= cpl deg d P.
Proof.
  intros Hdeg Hd [Ht0 Ht1].
  set (a := vsub (P 1%nat) (P 0%nat)). set (b := vsub (P 2%nat) (P 1%nat)). set (c := vsub (P 3%nat) (P 2%nat)).
  pose proof (nrm_nonneg d a) as Na. pose proof (nrm_nonneg d b) as Nb. pose proof (nrm_nonneg d c) as Nc.
  destruct Hdeg as [-> | ->]; unfold cpl; cbn [left_cp right_cp].
  - (* quadratic *)
    assert (E1 : nrm d (vsub (lin2 (1 - t) (P 0%nat) t (P 1%nat)) (P 0%nat)) = t * nrm d a).
    { rewrite <- (nrm_scale d t a Hd Ht0). apply nrm_ext; [ exact Hd | intros; unfold vsub, lin2, a, vsub; ring ]. }
    assert (E2 : nrm d (vsub (curve 2 P t) (lin2 (1 - t) (P 0%nat) t (P 1%nat))) <= t * ((1 - t) * nrm d a + t * nrm d b)).
    { rewrite (nrm_ext d _ (fun j => t * lin2 (1 - t) a t b j) Hd) by (intros; cbv [vsub curve bern lin2 a b]; ring).
      rewrite (nrm_scale d t _ Hd Ht0). apply Rmult_le_compat_l; [ exact Ht0 | apply nrm_lin2; [ exact Hd | lra | lra ] ]. }
    assert (E3 : nrm d (vsub (lin2 (1 - t) (P 1%nat) t (P 2%nat)) (curve 2 P t)) <= (1 - t) * ((1 - t) * nrm d a + t * nrm d b)).
    { rewrite (nrm_ext d _ (fun j => (1 - t) * lin2 (1 - t) a t b j) Hd) by (intros; cbv [vsub curve bern lin2 a b]; ring).
      rewrite (nrm_scale d (1 - t) _ Hd ltac:(lra)). apply Rmult_le_compat_l; [ lra | apply nrm_lin2; [ exact Hd | lra | lra ] ]. }
    assert (E4 : nrm d (vsub (P 2%nat) (lin2 (1 - t) (P 1%nat) t (P 2%nat))) = (1 - t) * nrm d b).
    { rewrite <- (nrm_scale d (1 - t) b Hd ltac:(lra)). apply nrm_ext; [ exact Hd | intros; unfold vsub, lin2, b, vsub; ring ]. }
    fold a b. rewrite E1, E4. nra.
  - (* cubic *)
    set (m := lin3 ((1 - t) * (1 - t)) a (2 * t * (1 - t)) b (t * t) c).
    assert (Hm : nrm d m <= (1 - t) * (1 - t) * nrm d a + 2 * t * (1 - t) * nrm d b + t * t * nrm d c)
      by (apply nrm_lin3; [ exact Hd | nra | nra | nra ]).
    assert (E1 : nrm d (vsub (lin2 (1 - t) (P 0%nat) t (P 1%nat)) (P 0%nat)) = t * nrm d a).
    { rewrite <- (nrm_scale d t a Hd Ht0). apply nrm_ext; [ exact Hd | intros; unfold vsub, lin2, a, vsub; ring ]. }
    assert (E2 : nrm d (vsub (lin3 ((1 - t) * (1 - t)) (P 0%nat) (2 * t * (1 - t)) (P 1%nat) (t * t) (P 2%nat)) (lin2 (1 - t) (P 0%nat) t (P 1%nat)))
                 <= t * ((1 - t) * nrm d a + t * nrm d b)).
    { rewrite (nrm_ext d _ (fun j => t * lin2 (1 - t) a t b j) Hd) by (intros; cbv [vsub lin2 lin3 a b]; ring).
      rewrite (nrm_scale d t _ Hd Ht0). apply Rmult_le_compat_l; [ exact Ht0 | apply nrm_lin2; [ exact Hd | lra | lra ] ]. }
    assert (E3 : nrm d (vsub (curve 3 P t) (lin3 ((1 - t) * (1 - t)) (P 0%nat) (2 * t * (1 - t)) (P 1%nat) (t * t) (P 2%nat))) = t * nrm d m).
    { rewrite <- (nrm_scale d t m Hd Ht0). apply nrm_ext; [ exact Hd | intros; cbv [vsub curve bern lin3 m a b c]; ring ]. }
    assert (E4 : nrm d (vsub (lin3 ((1 - t) * (1 - t)) (P 1%nat) (2 * t * (1 - t)) (P 2%nat) (t * t) (P 3%nat)) (curve 3 P t)) = (1 - t) * nrm d m).
    { rewrite <- (nrm_scale d (1 - t) m Hd ltac:(lra)). apply nrm_ext; [ exact Hd | intros; cbv [vsub curve bern lin3 m a b c]; ring ]. }
    assert (E5 : nrm d (vsub (lin2 (1 - t) (P 2%nat) t (P 3%nat)) (lin3 ((1 - t) * (1 - t)) (P 1%nat) (2 * t * (1 - t)) (P 2%nat) (t * t) (P 3%nat)))
                 <= (1 - t) * ((1 - t) * nrm d b + t * nrm d c)).
    { rewrite (nrm_ext d _ (fun j => (1 - t) * lin2 (1 - t) b t c j) Hd) by (intros; cbv [vsub lin2 lin3 b c]; ring).
      rewrite (nrm_scale d (1 - t) _ Hd ltac:(lra)). apply Rmult_le_compat_l; [ lra | apply nrm_lin2; [ exact Hd | lra | lra ] ]. }
    assert (E6 : nrm d (vsub (P 3%nat) (lin2 (1 - t) (P 2%nat) t (P 3%nat))) = (1 - t) * nrm d c).
    { rewrite <- (nrm_scale d (1 - t) c Hd ltac:(lra)). apply nrm_ext; [ exact Hd | intros; unfold vsub, lin2, c, vsub; ring ]. }
    fold a b c. rewrite E1, E3, E4, E6. nra.
Qed.

(** ** induction over partitions *)
Fixpoint pchain (d : nat) (f : R -> V) (x0 : R) (xs : list R) : R :=
  match xs with [] => 0 | x :: r => seglen d f x0 x + pchain d f x r end.
Fixpoint ok_part (x0 : R) (xs : list R) : Prop :=
  match xs with [] => True | x :: r => x0 < x <= 1 /\ ok_part x r end.

Lemma cpl_nonneg deg d P : 0 <= cpl deg d P.
Proof. unfold cpl. destruct deg as [|[|[|deg]]]; repeat apply Rplus_le_le_0_compat; apply nrm_nonneg. Qed.

Lemma pchain_reparam d f g (phi : R -> R) : (d = 2 \/ d = 3)%nat ->
  (forall y j, (j < d)%nat -> g (phi y) j = f y j) ->
  forall r y0, pchain d f y0 r = pchain d g (phi y0) (map phi r).
Proof.
  intros Hd Hg. induction r as [|y r IH]; intros y0; cbn [pchain map]; [ reflexivity | ].
  rewrite (IH y). f_equal. rewrite !seglen_nrm. apply nrm_ext; [ exact Hd | ].
  intros j Hj. unfold vsub. rewrite !Hg by exact Hj. reflexivity.
Qed.

Lemma ok_part_reparam x : x < 1 -> forall r y0, x <= y0 -> ok_part y0 r -> ok_part ((y0 - x) / (1 - x)) (map (fun y => (y - x) / (1 - x)) r).
Proof.
  intros Hx. induction r as [|y r IH]; intros y0 Hy0; cbn [ok_part map]; [ trivial | ].
  intros [[H1 H2] Hr]. split.
  - split.
    + unfold Rdiv. apply Rmult_lt_compat_r; [ apply Rinv_0_lt_compat; lra | lra ].
    + unfold Rdiv. apply Rmult_le_reg_r with (1 - x); [ lra | ]. rewrite Rmult_assoc, Rinv_l by lra. lra.
  - apply IH; [ lra | exact Hr ].
Qed.

Theorem polyline_le_control_polygon deg d : (deg = 2 \/ deg = 3)%nat -> (d = 2 \/ d = 3)%nat ->
  forall xs P, ok_part 0 xs -> pchain d (curve deg P) 0 xs <= cpl deg d P.
Proof.
  intros Hdeg Hd xs. remember (length xs) as n eqn:Hn. revert xs Hn.
  induction n as [|n IH]; intros xs Hn P Hok.
  - destruct xs; [ cbn [pchain]; apply cpl_nonneg | discriminate Hn ].
  - destruct xs as [|x r]; [ discriminate Hn | ]. injection Hn as Hn. cbn [pchain].
    destruct Hok as [[Hx0 Hx1] Hr].
    pose proof (split_le deg d P x Hdeg Hd ltac:(lra)) as Hs.
    (* the first segment is the chord of the left part *)
    assert (Hc : seglen d (curve deg P) 0 x <= cpl deg d (left_cp deg P x)).
    { rewrite seglen_nrm. eapply Rle_trans; [ | apply (chord_le deg d (left_cp deg P x) Hdeg Hd) ].
      right. apply nrm_ext; [ exact Hd | ]. intros j Hj. unfold vsub. rewrite (curve_0 deg P j Hdeg).
      destruct Hdeg as [-> | ->]; reflexivity. }
    destruct r as [|y r'].
    + cbn [pchain]. pose proof (cpl_nonneg deg d (right_cp deg P x)). lra.
    + (* x < 1 because a later node exists; the rest of the polyline is inscribed in the right part *)
      assert (Hlt : x < 1) by (destruct Hr as [[Hy0 Hy1] _]; lra).
      set (phi := fun y => (y - x) / (1 - x)).
      assert (Hg : forall y0 j, (j < d)%nat -> curve deg (right_cp deg P x) (phi y0) j = curve deg P y0 j).
      { intros y0 j _. rewrite (right_reparam deg P x (phi y0) j Hdeg). f_equal. unfold phi. field. lra. }
      rewrite (pchain_reparam d (curve deg P) (curve deg (right_cp deg P x)) phi Hd Hg (y :: r') x).
      replace (phi x) with 0 by (unfold phi; field; lra).
      assert (Hok' : ok_part 0 (map phi (y :: r'))).
      { replace 0 with ((x - x) / (1 - x)) by (field; lra). apply (ok_part_reparam x Hlt (y :: r') x); [ lra | exact Hr ]. }
      pose proof (IH (map phi (y :: r')) ltac:(rewrite map_length; exact Hn) (right_cp deg P x) Hok') as Hrest.
      lra.
Qed.

(** ** the discretized length is such a polyline *)
Lemma fold_sum (g : nat -> R) : forall l a, fold_left (fun acc i => acc + g i) l a = a + fold_right Rplus 0 (map g l).
Proof. induction l as [|i l IH]; intros a; cbn [fold_left map fold_right]; [ lra | rewrite IH; lra ]. Qed.
Lemma pchain_seq d f (x : nat -> R) : forall m k,
  pchain d f (x k) (map (fun i => x (S i)) (seq k m)) = fold_right Rplus 0 (map (fun i => seglen d f (x i) (x (S i))) (seq k m)).
Proof. induction m as [|m IH]; intros k; cbn [seq map pchain fold_right]; [ reflexivity | rewrite (IH (S k)); reflexivity ]. Qed.
Lemma ok_part_seq (x : nat -> R) : (forall i, x i < x (S i)) -> forall m k, x (k + m)%nat <= 1 -> ok_part (x k) (map (fun i => x (S i)) (seq k m)).
Proof.
  intros Hinc. assert (Hmono : forall a b, x a <= x (a + b)%nat).
  { intros a b. induction b as [|b IHb]; [ rewrite Nat.add_0_r; lra | replace (a + S b)%nat with (S (a + b)) by lia; pose proof (Hinc (a + b)%nat); lra ]. }
  induction m as [|m IH]; intros k Hk; cbn [seq map ok_part]; [ trivial | ].
  split.
  - split; [ apply Hinc | ]. replace (k + S m)%nat with (S k + m)%nat in Hk by lia. pose proof (Hmono (S k) m). lra.
  - apply IH. replace (S k + m)%nat with (k + S m)%nat by lia. exact Hk.
Qed.

Theorem polylen_le_control_polygon deg d : (deg = 2 \/ deg = 3)%nat -> (d = 2 \/ d = 3)%nat ->
  forall P n, polylen d (curve deg P) n <= cpl deg d P.
Proof.
  intros Hdeg Hd P n. unfold polylen. rewrite (fold_sum (fun i => seglen d (curve deg P) (INR i / INR (S n)) (INR (S i) / INR (S n)))).
  rewrite Rplus_0_l. set (x := fun i : nat => INR i / INR (S n)).
  change (fold_right Rplus 0 (map (fun i => seglen d (curve deg P) (x i) (x (S i))) (seq 0 (S n))) <= cpl deg d P).
  rewrite <- (pchain_seq d (curve deg P) x (S n) 0).
  assert (Hn : 0 < INR (S n)) by (apply lt_0_INR; lia).
  replace (x 0%nat) with 0 by (unfold x; cbn [INR]; unfold Rdiv; ring).
  apply (polyline_le_control_polygon deg d Hdeg Hd).
  replace 0 with (x 0%nat) by (unfold x; cbn [INR]; unfold Rdiv; ring).
  apply ok_part_seq.
  - intros i. unfold x, Rdiv. apply Rmult_lt_compat_r; [ apply Rinv_0_lt_compat; exact Hn | apply lt_INR; lia ].
  - unfold x. cbn [Nat.add]. right. field. lra.
Qed.
