Require Import ZArith List Lia Bool.
From VekLib Require Import Ops MachineInt.
From VekGen Require Import C17_gen.
From VekProofs Require Import C17_int_spec.
Import ListNotations.
Local Open Scope Z_scope.
Lemma C17_known_overflows : C17_known_overflows_stmt.
Proof. unfold C17_known_overflows_stmt. repeat split; vm_compute; try reflexivity; intro H; discriminate H. Qed.
