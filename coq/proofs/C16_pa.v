Require Import Reals List ZArith Lra Lia Nsatz.
From VekLib Require Import Ops ROps LinAlg RLin.
From VekGen Require Import C16_gen.
From VekProofs Require Import C16_spec.
Import ListNotations.
Local Open Scope R_scope.

Ltac g_unfold :=
  cbv [off vecv dist2 dot dot3 cross sub3 on_seg fold_right map seq List.nth Nat.add Nat.mul] in *.
Ltac cases_i :=
  match goal with
  | |- forall i : nat, (i < _)%nat -> _ =>
      let i := fresh "i" in let Hi := fresh "Hi" in intros i Hi;
      repeat (destruct i as [|i]; [ | try (exfalso; lia) ]); try (exfalso; lia)
  end.
Ltac pos := left; split; [ reflexivity | ].
Ltac neg := right; split; [ reflexivity | ].
Ltac ret_simple tac :=
  unfold returns; rrun_unfold; split_conds; eexists; (split; [ reflexivity | split; [ reflexivity | tac ] ]).
(** make the spec's sqrt argument syntactically equal to the program's *)
Ltac norm_sqrt :=
  repeat match goal with
  | H : context [sqrt ?e] |- context [sqrt ?x] => lazymatch x with e => fail | _ => replace x with e by ring end
  end.
Ltac clear_noneq :=
  repeat match goal with H : ?P |- _ =>
    lazymatch P with _ = _ => fail | _ => lazymatch type of P with Prop => clear H end end end.

Lemma sqrt_le_iff x r : 0 <= x -> 0 <= r -> (sqrt x <= r <-> x <= r * r).
Proof.
  intros Hx Hr. split; intros H.
  - rewrite <- (sqrt_sqrt x Hx). apply Rmult_le_compat; auto using sqrt_pos.
  - rewrite <- (sqrt_square r Hr). apply sqrt_le_1_alt. exact H.
Qed.

Ltac prove_ball :=
  intros k a; cbv zeta; split; [ | split; [ | split; [ | split; [ | split; [ | split; [ | split; [ | split; [ | split ] ] ] ] ] ] ] ].
