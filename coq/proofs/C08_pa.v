Require Import Reals List ZArith Lra Lia.
From VekLib Require Import Ops ROps LinAlg RLin.
From VekGen Require Import C08_gen.
From VekProofs Require Import C08_spec.
Import ListNotations.
Local Open Scope R_scope.

Ltac table := repeat (apply Forall_cons; [ | ]); try apply Forall_nil.
Ltac c08_unfold :=
  cbv [aL absL vec_of mat_of maps_to corners_ok zmirror implied_top]; rlin_unfold.

Ltac solve_corner :=
  c08_unfold; repeat split; try lra;
  try (field_simplify_eq; [ try lra; try nra | repeat split; lra ]);
  try (apply Rdiv_lt_0_compat; lra).

Lemma C08_planes : C08_planes_stmt.
Proof.
  unfold C08_planes_stmt, planes_table.
  table; intros k a (Hlr & Hbt & Hn & Hnf);
    (eexists; split; [ rrun_unfold; reflexivity | split; [ reflexivity | ] ]);
    intros sx sy sd; destruct sx, sy, sd; cbv zeta; c08_unfold;
    (split; [ try lra; try (field_simplify; lra) | repeat split; field; repeat split; lra ]).
Qed.
