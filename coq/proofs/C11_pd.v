Require Import Reals List ZArith Lra Lia.
From VekLib Require Import Ops ROps LinAlg RLin RSum.
From VekGen Require Import C11_gen.
From VekProofs Require Import C11_spec C11_pa C11_tac C11_pc C11_h_vec2 C11_h_vec3 C11_h_vec4 C11_h_extent2 C11_h_extent3 C11_h_vec8.
Import ListNotations.
Local Open Scope R_scope.


Lemma C11_heavy : C11_heavy_stmt.
Proof.
  unfold C11_heavy_stmt, heavy_table.
  repeat (apply Forall_cons; [ first [ exact heavy_vec2 | exact heavy_vec3 | exact heavy_vec4 | exact heavy_extent2 | exact heavy_extent3 | exact heavy_vec8 ] | ]).
  apply Forall_nil.
Qed.

Lemma C11_degrees : C11_degrees_stmt.
Proof.
  unfold C11_degrees_stmt.
  repeat split; intros k a; rrun_unfold; split_conds; try (exfalso; lra); eexists; (split; [ reflexivity | reflexivity ]).
Qed.
