Require Import Reals List ZArith Lra Lia Nsatz.
From VekLib Require Import Ops ROps LinAlg RLin.
From VekGen Require Import C10_gen.
From VekProofs Require Import C10_spec C10_pa.
Import ListNotations.
Local Open Scope R_scope.

Ltac clear_noneq :=
  repeat match goal with H : ?P |- _ =>
    lazymatch P with _ = _ => fail | _ => lazymatch type of P with Prop => clear H end end end.

(** Inv (P (MV p)) = p when Inv (P MV) = I *)
Lemma inv_apply (Inv P MV : nat -> nat -> R) (p : nat -> R) :
  meq 4 (Rmm 4 Inv (Rmm 4 P MV)) Rident -> veq 4 (Rmv 4 Inv (Rmv 4 P (Rmv 4 MV p))) p.
Proof.
  intros H. inst_meq4 H. clear H.
  repeat match goal with H : _ = _ |- _ => revert H end. rlin_unfold. intros.
  veq_cases; rlin_unfold; nsatz.
Qed.

Lemma mm_ext_r (X M M' : nat -> nat -> R) : meq 4 M M' -> meq 4 (Rmm 4 X M) (Rmm 4 X M').
Proof. intros H. meq_cases; rlin_unfold; rewrite !H by lia; reflexivity. Qed.
Lemma mm_ext_l (X M M' : nat -> nat -> R) : meq 4 M M' -> meq 4 (Rmm 4 M X) (Rmm 4 M' X).
Proof. intros H. meq_cases; rlin_unfold; rewrite !H by lia; reflexivity. Qed.
Lemma Rdet4_ext A B : meq 4 A B -> Rdet 4 A = Rdet 4 B.
Proof. intros H. rlin_unfold. rewrite !H by lia. reflexivity. Qed.
Lemma meq_trans (A B D : nat -> nat -> R) : meq 4 A B -> meq 4 B D -> meq 4 A D.
Proof. intros H1 H2 i j Hi Hj. rewrite H1, H2 by assumption. reflexivity. Qed.

