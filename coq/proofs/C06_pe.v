Require Import Reals List ZArith Lra Lia Nsatz.
From VekLib Require Import Ops ROps LinAlg RLin.
From VekGen Require Import C06_gen.
From VekProofs Require Import C06_spec C06_tac.
Import ListNotations.
Local Open Scope R_scope.
Lemma rigid_c k r t : orthogonal3 r -> inverts Lc p_mat4c_inverted_rigid k (env_of (storeL Lc 4 (affine_mat r t))).
Proof. intros [Ho1 Ho2]. intro_orth Ho1 Ho2. solve_rigid. Qed.
