Require Import Reals List ZArith Lra Lia.
From VekLib Require Import Ops ROps LinAlg RLin MachineInt.
From VekGen Require Import C17_gen.
From VekProofs Require Import C17_spec C17_pa C17_pb.
Import ListNotations.
Local Open Scope R_scope.

Ltac inst_all :=
  repeat match goal with
  | H : forall i : nat, (i < _)%nat -> _ |- _ =>
      try (let H0 := fresh "I" in pose proof (H 0%nat ltac:(lia)) as H0);
      try (let H1 := fresh "I" in pose proof (H 1%nat ltac:(lia)) as H1);
      try (let H2 := fresh "I" in pose proof (H 2%nat ltac:(lia)) as H2);
      try (let H3 := fresh "I" in pose proof (H 3%nat ltac:(lia)) as H3);
      clear H
  end; cbv [Nat.add Nat.mul] in *.
Ltac l_unfold := cbv [lanes lanesb Rbetween Rclamp Rwrap map seq Nat.add Nat.mul].
Ltac rm := unfold Rmin, Rmax in *;
  repeat match goal with
  | |- context [Rle_dec ?x ?y] =>
      lazymatch x with context [Rle_dec _ _] => fail | _ => idtac end;
      lazymatch y with context [Rle_dec _ _] => fail | _ => idtac end;
      destruct (Rle_dec x y)
  | H : context [Rle_dec ?x ?y] |- _ =>
      lazymatch x with context [Rle_dec _ _] => fail | _ => idtac end;
      lazymatch y with context [Rle_dec _ _] => fail | _ => idtac end;
      destruct (Rle_dec x y)
  end.
Ltac list_rm := repeat (apply (f_equal2 (@cons R)); [ try reflexivity; rm; lra | ]); try reflexivity.
Ltac closed := rrun_unfold; l_unfold; split_conds; try (exfalso; lra); cbv [negb andb]; try reflexivity;
               repeat f_equal; try (rm; lra).
Ltac decided := rrun_unfold; l_unfold; decide_lt; reflexivity.
Ltac panics := rrun_unfold; split_conds; try reflexivity; exfalso; lra.

Ltac prove_vlift :=
  intros k a; split; [ | split; [ | split; [ | split; [ | split; [ | split; [ | split ] ] ] ] ] ];
  [ intros Hb; inst_all; split; closed
  | intros (i & Hi & Hbad); repeat (destruct i as [|i]; [ | try (exfalso; lia) ]); try (exfalso; lia);
    cbv [Nat.add Nat.mul] in Hbad; split; panics
  | intros Hb; cbv [Nat.add Nat.mul] in *; split; closed
  | intros Hb; cbv [Nat.add Nat.mul] in *; split; panics
  | intros Hb; inst_all; split; decided
  | intros Hb; cbv [Nat.add Nat.mul] in *; split; decided
  | intros Hb; inst_all; decided
  | intros Hb; cbv [Nat.add Nat.mul] in *; decided ].

Lemma C17_vector : C17_vector_stmt.
Proof.
  unfold C17_vector_stmt. split.
  - intros k a. split; [ | split ].
    + intros Hb. closed.
    + intros Hb. split; decided.
    + intros Hb. decided.
  - repeat match goal with |- vlift_ok _ _ _ _ _ _ _ _ _ _ _ /\ _ => split; [ prove_vlift | ] end; prove_vlift.
Qed.
