Require Import Reals List ZArith Lia Lra Psatz.
From VekLib Require Import Ops ROps LinAlg RLin.
From VekGen Require Import C15_gen.
From VekProofs Require Import C15_spec C15_pa.
Import ListNotations.
Local Open Scope R_scope.

Ltac sp_unfold := cbv [spread pts bern Nat.eqb Nat.modulo Nat.div Nat.divmod fst snd Nat.sub Nat.mul Nat.add INR bdeg bd bax bdim_out map seq app] in *.
Lemma cons_eq {A} (x y : A) l l' : x = y -> l = l' -> x :: l = y :: l'.
Proof. intros -> ->; reflexivity. Qed.

Lemma C15_bbox_quad : C15_bbox_quad_stmt.
Proof.
  unfold C15_bbox_quad_stmt, bboxes_quad. table; intros k a He; cbv [bdeg bd bax b_prog b_min b_max bdim_out]; cbv zeta;
  assert (Hf : Rltb (k Neps) 0 = false) by (apply Rltb_false; lra);
  rrun_unfold; sp_unfold; rewrite ?Hf; cbv beta iota; split_conds;
  first [ (exfalso; lra)
        | (do 3 eexists; (split; [ reflexivity | ]); (split; [ reflexivity | ]); (split; [ reflexivity | ]);
           repeat (apply cons_eq; [ first [ reflexivity | field; lra | lra | ring ] | ]); reflexivity) ].
Qed.
