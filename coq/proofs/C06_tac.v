Require Import Reals List ZArith Lra Lia Nsatz.
From VekLib Require Import Ops ROps LinAlg RLin.
From VekGen Require Import C06_gen.
From VekProofs Require Import C06_spec.
Import ListNotations.
Local Open Scope R_scope.

Ltac table := repeat (apply Forall_cons; [ | ]); try apply Forall_nil.
Ltac c06_unfold := cbv [RabsL storeL store_rows store_cols affine_mat Nat.div Nat.modulo Nat.divmod Nat.sub fst snd]; rlin_unfold.
Ltac clear_noneq :=
  repeat match goal with H : ?P |- _ =>
    lazymatch P with _ = _ => fail | _ => lazymatch type of P with Prop => clear H end end end.

Ltac solve_general_inverse Hd :=
  eexists; split; [ rrun_unfold; reflexivity | split; [ reflexivity | ] ];
  revert Hd; c06_unfold; intros Hd;
  split; meq_cases; c06_unfold;
  (field; let Hc := fresh "Hc" in intro Hc; apply Hd; etransitivity; [ | exact Hc ]; ring).

Ltac intro_orth Ho1 Ho2 :=
  inst_meq3 Ho1; inst_meq3 Ho2; clear Ho1 Ho2;
  repeat match goal with H : _ = _ |- _ => revert H end; rlin_unfold; intros.

Ltac solve_rigid :=
  eexists; split; [ rrun_unfold; c06_unfold; reflexivity | split; [ reflexivity | ] ];
  split; meq_cases; c06_unfold; nsatz.

Ltac decide_conds k s Hs0 Hs1 Hs2 :=
  repeat match goal with
  | |- context [Rltb _ (Rabs ?e)] =>
     first [ replace e with 0 by ring; rewrite Rabs_R0; rewrite (proj2 (Rltb_false (k Neps) 0)) by lra
           | replace e with (s 0%nat * s 0%nat) by nsatz; rewrite (Rabs_pos_eq (s 0%nat * s 0%nat)) by nra; rewrite (proj2 (Rltb_true _ _) Hs0)
           | replace e with (s 1%nat * s 1%nat) by nsatz; rewrite (Rabs_pos_eq (s 1%nat * s 1%nat)) by nra; rewrite (proj2 (Rltb_true _ _) Hs1)
           | replace e with (s 2%nat * s 2%nat) by nsatz; rewrite (Rabs_pos_eq (s 2%nat * s 2%nat)) by nra; rewrite (proj2 (Rltb_true _ _) Hs2) ]
  end.

Ltac solve_affine k s Hs0 Hs1 Hs2 :=
  eexists; split; [ rrun_unfold; c06_unfold; decide_conds k s Hs0 Hs1 Hs2; reflexivity | split; [ reflexivity | ] ];
  assert (s 0%nat <> 0) by nra; assert (s 1%nat <> 0) by nra; assert (s 2%nat <> 0) by nra;
  split; meq_cases; c06_unfold;
  (field_simplify_eq; try (repeat split; assumption)); cbv [Rpow_def.pow]; clear_noneq; nsatz.
