Require Import Reals List ZArith Lra Lia.
From VekLib Require Import Ops ROps LinAlg RLin MachineInt.
From VekGen Require Import C17_gen.
From VekProofs Require Import C17_spec.
Import ListNotations.
Local Open Scope R_scope.

Ltac e_unfold := cbv [env_of3] in *.
Ltac pos := left; split; [ reflexivity | ].
Ltac neg := right; split; [ reflexivity | ].
Ltac lra' := first [ lra | (intro; lra) ].

Lemma C17_clamp : C17_clamp_stmt.
Proof.
  intros k a. cbv zeta.
  split; [ | split; [ | split; [ | split; [ | split; [ | split; [ | split; [ | split; [ | split; [ | split; [ | split; [ | split ] ] ] ] ] ] ] ] ] ] ].
  - intros Hb. split; [ | split ].
    + unfold ret1. rrun_unfold. split_conds; try lra;
        (eexists; split; [ reflexivity | ]); repeat split; try lra;
        rrun_unfold; e_unfold; split_conds; try lra; reflexivity.
    + unfold flag_iff. rrun_unfold. split_conds; try lra; first [ pos; lra | neg; lra' ].
    + rrun_unfold. split_conds; try lra; split; intros H; try reflexivity; try discriminate H;
        try (injection H as H; lra).
      all: try (exfalso; lra). all: try (f_equal; f_equal; f_equal; lra).
  - intros Hb. rrun_unfold. split_conds; try lra; split; reflexivity.
  - rrun_unfold; reflexivity.
  - rrun_unfold; reflexivity.
  - rrun_unfold; reflexivity.
  - rrun_unfold; e_unfold. split_conds; try lra; reflexivity.
  - rrun_unfold; reflexivity.
  - rrun_unfold; e_unfold. split_conds; try lra; reflexivity.
  - rrun_unfold; reflexivity.
  - rrun_unfold; reflexivity.
  - rrun_unfold; e_unfold. split_conds; try lra; reflexivity.
  - unfold ret1. rrun_unfold. split_conds; (eexists; split; [ reflexivity | unfold Rmin; destruct (Rle_dec _ _); lra ]).
  - unfold ret1. rrun_unfold. split_conds; (eexists; split; [ reflexivity | unfold Rmax; destruct (Rle_dec _ _); lra ]).
Qed.
