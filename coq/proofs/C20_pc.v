Require Import List ZArith Lia String Bool.
From VekLib Require Import Ops RingOps LinAlg Index Chain.
From VekGen Require Import C20_gen.
From VekProofs Require Import C20_spec C20_tac.
Import ListNotations.
Ltac auto_has := has_by ltac:(first [ by_compute | by_chain_none | by_chain_none_b | by_chain_all_b | by_cases ]).
Section Proofs.
  Variable C : cring.

  Lemma C20_vec_block : C20_vec_block_stmt C.
  Proof.
    unfold C20_vec_block_stmt, common_block, cast_plain_ops, opt_lift, plain_lift, all_lift. ty_table;
      splits; try (table; cbn [fst snd]); auto_has.
  Qed.
End Proofs.
