Require Import List ZArith Lia String Bool Ring.
From VekLib Require Import Ops RingOps LinAlg.
From VekGen Require Import C02_gen.
From VekProofs Require Import C02_spec C02_tac.
Import ListNotations.

Section Proofs.
  Variable C : cring.
  Add Ring Cring : (cth C).

  Lemma C02_unary_fma : C02_unary_fma_stmt C.
  Proof. unfold C02_unary_fma_stmt, fma3. ty_table; all_has by_compute. Qed.
End Proofs.
