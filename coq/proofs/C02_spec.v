(** * C02 — statements. Vector operators and reductions act element-wise on every vector type.

    Programs are looked up by name in the index emitted by the translator: entry
    ["<type>_<operation>_<form>"] is the real code of that operation for that vector type, run on
    free symbols and read back through the public fields. Every statement is quantified over an
    arbitrary commutative ring [C] — whose division, remainder, bit operations, shifts, min/max,
    rounding functions, comparisons and abstract function symbols (the user closures) are
    arbitrary — and over all inputs [a]. A vector operand is the list [tab n a off] of its
    elements in declaration order. *)
Require Import List ZArith Lia String Bool DecimalString.
From VekLib Require Import Ops RingOps LinAlg RedChain.
From VekGen Require Import C02_gen.
Import ListNotations.
Open Scope string_scope.

Fixpoint lookup (name : string) (l : list (string * prog)) : option prog :=
  match l with
  | [] => None
  | (k, p) :: r => if String.eqb name k then Some p else lookup name r
  end.
(** entry [name] exists and satisfies [Q] *)
Definition has (name : string) (Q : prog -> Prop) : Prop :=
  exists p, lookup name index_C02 = Some p /\ Q p.

(** the 13 vector types with their dimensions *)
Definition types : list (string * nat) :=
  [ ("vec2", 2); ("vec3", 3); ("vec4", 4); ("vec8", 8); ("vec16", 16); ("vec32", 32); ("vec64", 64);
    ("extent2", 2); ("extent3", 3); ("rgb", 3); ("rgba", 4); ("uv", 2); ("uvw", 3) ].
Definition spatial_types : list (string * nat) :=
  [ ("vec2", 2); ("vec3", 3); ("vec4", 4); ("vec8", 8); ("vec16", 16); ("vec32", 32); ("vec64", 64);
    ("extent2", 2); ("extent3", 3) ].
Definition small_types : list (string * nat) := filter (fun tn => Nat.leb (snd tn) 8) types.
Definition wide_types : list (string * nat) := filter (fun tn => negb (Nat.leb (snd tn) 8)) types.
Definition for_types (ts : list (string * nat)) (P : string -> nat -> Prop) : Prop :=
  Forall (fun tn => P (fst tn) (snd tn)) ts.
Definition nat_str (k : nat) : string := NilEmpty.string_of_uint (Nat.to_uint k).

Definition lanes2 {A B D} (f : A -> B -> D) (l1 : list A) (l2 : list B) : list D :=
  map (fun xy => f (fst xy) (snd xy)) (combine l1 l2).
Definition lanes3 {A} (f : A -> A -> A -> A) (l1 l2 l3 : list A) : list A :=
  map (fun xyz => f (fst (fst xyz)) (snd (fst xyz)) (snd xyz)) (combine (combine l1 l2) l3).
(** left-to-right reduction starting from the first element *)
Definition reduce1 {A} (f : A -> A -> A) (d : A) (l : list A) : A :=
  match l with [] => d | x :: r => fold_left f r x end.
Fixpoint pairs {A} (f : A -> A -> A) (l : list A) : list A :=
  match l with x :: y :: r => f x y :: pairs f r | _ => [] end.
Definition b2z (b : bool) : Z := if b then 1%Z else 0%Z.

Section Spec.
  Variable C : cring.
  Notation O := (cops C).
  Definition V (n off : nat) (a : nat -> C) : list C := tab n a off.
  Definition ret (p : prog) (f : (nat -> C) -> list C) : Prop := forall a, crun C a p = Ret ([], f a).
  Definition retf (p : prog) (f : (nat -> C) -> list Z) : Prop := forall a, crun C a p = Ret (f a, []).
  Definition cst (z : Z) : C := cstq O z 1.
  Definition F1 k (x : C) := cF C k [x].
  Definition F2 k (x y : C) := cF C k [x; y].
  Definition F3 k (x y z : C) := cF C k [x; y; z].

  (** ** constructors, conversions and views keep element order *)
  Definition iota_at (k : nat) : C := Nat.iter k (fun x => cadd C x (c1 C)) (c0 C).
  Definition C02_construct_stmt : Prop := for_types types (fun ty n =>
    has (ty ++ "_new") (fun p => ret p (V n 0)) /\
    has (ty ++ "_broadcast") (fun p => ret p (fun a => repeat (a 0) n)) /\
    has (ty ++ "_from_scalar") (fun p => ret p (fun a => repeat (a 0) n)) /\
    has (ty ++ "_zero") (fun p => ret p (fun _ => repeat (c0 C) n)) /\
    has (ty ++ "_one") (fun p => ret p (fun _ => repeat (c1 C) n)) /\
    has (ty ++ "_iota") (fun p => ret p (fun _ => map iota_at (seq 0 n))) /\
    has (ty ++ "_default") (fun p => ret p (fun _ => repeat (c0 C) n)) /\
    has (ty ++ "_from_tuple") (fun p => ret p (V n 0)) /\
    has (ty ++ "_into_tuple") (fun p => ret p (V n 0)) /\
    has (ty ++ "_from_array") (fun p => ret p (V n 0)) /\
    has (ty ++ "_into_array") (fun p => ret p (V n 0)) /\
    has (ty ++ "_as_slice") (fun p => forall a, crun C a p = Ret ([Z.of_nat n; Z.of_nat n; Z.of_nat n], V n 0 a)) /\
    has (ty ++ "_as_mut_slice") (fun p => ret p (V n n)) /\
    has (ty ++ "_from_slice") (fun p => ret p (V n 0)) /\
    has (ty ++ "_from_slice_short") (fun p => ret p (fun a => (V (n - 1) 0 a ++ [c0 C])%list)) /\
    has (ty ++ "_from_slice_long") (fun p => ret p (V n 0)) /\
    has (ty ++ "_from_iter") (fun p => ret p (V n 0)) /\
    has (ty ++ "_from_iter_short") (fun p => ret p (fun a => (V (n - 1) 0 a ++ [c0 C])%list)) /\
    has (ty ++ "_from_iter_long") (fun p => ret p (V n 0)) /\
    has (ty ++ "_into_iter") (fun p => ret p (V n 0)) /\
    has (ty ++ "_iter") (fun p => ret p (V n 0))).

  (** ** binary operators in all nine forms (+ scalar on the left for the commutative ones) *)
  Definition vec_vec (n : nat) (o : op2) (p : prog) : Prop :=
    ret p (fun a => lanes2 (op2_of O o) (V n 0 a) (V n n a)).
  Definition vec_scalar (n : nat) (o : op2) (p : prog) : Prop :=
    ret p (fun a => lanes2 (op2_of O o) (V n 0 a) (repeat (a n) n)).
  Definition scalar_vec (n : nat) (o : op2) (p : prog) : Prop :=
    ret p (fun a => lanes2 (op2_of O o) (repeat (a n) n) (V n 0 a)).
  Definition binop_forms (ty : string) (n : nat) (name : string) (o : op2) : Prop :=
    has (ty ++ "_" ++ name ++ "_vv") (vec_vec n o) /\ has (ty ++ "_" ++ name ++ "_vr") (vec_vec n o) /\
    has (ty ++ "_" ++ name ++ "_rv") (vec_vec n o) /\ has (ty ++ "_" ++ name ++ "_rr") (vec_vec n o) /\
    has (ty ++ "_" ++ name ++ "_av") (vec_vec n o) /\
    has (ty ++ "_" ++ name ++ "_vs") (vec_scalar n o) /\ has (ty ++ "_" ++ name ++ "_rs") (vec_scalar n o) /\
    has (ty ++ "_" ++ name ++ "_rrs") (vec_scalar n o) /\ has (ty ++ "_" ++ name ++ "_as") (vec_scalar n o).
  Definition arith_ops : list (string * op2) := [ ("add", OAdd); ("sub", OSub); ("mul", OMul); ("div", ODiv); ("rem", ORem) ].
  Definition bit_ops : list (string * op2) := [ ("shl", OShl); ("shr", OShr); ("bitand", OAnd); ("bitor", OOr); ("bitxor", OXor) ].
  Definition C02_arith_stmt : Prop := for_types types (fun ty n =>
    Forall (fun no => binop_forms ty n (fst no) (snd no)) arith_ops /\
    has (ty ++ "_add_sv") (scalar_vec n OAdd) /\ has (ty ++ "_mul_sv") (scalar_vec n OMul)).
  Definition C02_bits_stmt : Prop := for_types types (fun ty n =>
    Forall (fun no => binop_forms ty n (fst no) (snd no)) bit_ops).

  (** ** negation, not, fused multiply-add *)
  Definition fma3 (n : nat) (p : prog) : Prop :=
    ret p (fun a => lanes3 (fma O) (V n 0 a) (V n n a) (V n (2 * n) a)).
  Definition C02_unary_fma_stmt : Prop := for_types types (fun ty n =>
    has (ty ++ "_neg") (fun p => ret p (fun a => map (op1_of O ONeg) (V n 0 a))) /\
    has (ty ++ "_not") (fun p => ret p (fun a => map (op1_of O ONot) (V n 0 a))) /\
    has (ty ++ "_mul_add") (fma3 n) /\ has (ty ++ "_mul_add_free") (fma3 n) /\
    has (ty ++ "_mul_add_ss") (fun p => ret p (fun a => lanes3 (fma O) (V n 0 a) (repeat (a n) n) (repeat (a (n + 1)) n))) /\
    has (ty ++ "_mul_add_vs") (fun p => ret p (fun a => lanes3 (fma O) (V n 0 a) (V n n a) (repeat (a (2 * n)) n))) /\
    Forall (fun form => has (ty ++ "_muladd_" ++ form) (fma3 n)) ["vvv"; "rvv"; "vvr"; "rvr"; "vrv"; "rrv"; "vrr"; "rrr"]).

  (** ** reductions *)
  Definition pmin (x y : C) : C := if jlt C y x then y else x.   (* if x <= y { x } else { y } *)
  Definition pmax (x y : C) : C := if jlt C x y then y else x.   (* if x >= y { x } else { y } *)
  Definition red (n : nat) (f : C -> C -> C) (p : prog) : Prop := ret p (fun a => [reduce1 f (c0 C) (V n 0 a)]).
  Definition C02_reduce_stmt : Prop := for_types types (fun ty n =>
    has (ty ++ "_sum") (red n (cadd C)) /\
    has (ty ++ "_product") (red n (cmul C)) /\
    has (ty ++ "_average") (fun p => ret p (fun a => [op2_of O ODiv (reduce1 (cadd C) (c0 C) (V n 0 a)) (cst (Z.of_nat n))])) /\
    has (ty ++ "_reduce") (red n (F2 2)) /\
    has (ty ++ "_reduce_min") (red n (op2_of O OMin)) /\
    has (ty ++ "_reduce_max") (red n (op2_of O OMax)) /\
    has (ty ++ "_reduce_bitand") (red n (op2_of O OAnd)) /\
    has (ty ++ "_reduce_bitor") (red n (op2_of O OOr)) /\
    has (ty ++ "_reduce_bitxor") (red n (op2_of O OXor)) /\
    has (ty ++ "_iter_sum") (fun p => ret p (fun a =>
      fold_left (lanes2 (cadd C)) [V n 0 a; V n n a; V n (2 * n) a] (repeat (c0 C) n))) /\
    has (ty ++ "_iter_product") (fun p => ret p (fun a =>
      fold_left (lanes2 (cmul C)) [V n 0 a; V n n a; V n (2 * n) a] (repeat (c1 C) n))) /\
    has (ty ++ "_is_any_negative") (fun p => retf p (fun a => [b2z (existsb (fun x => jlt C x (c0 C)) (V n 0 a))])) /\
    has (ty ++ "_are_all_positive") (fun p => retf p (fun a => [b2z (forallb (fun x => jlt C (c0 C) x) (V n 0 a))]))).
  Definition C02_dot_stmt : Prop := for_types spatial_types (fun ty n =>
    has (ty ++ "_dot") (fun p => ret p (fun a => [reduce1 (cadd C) (c0 C) (lanes2 (cmul C) (V n 0 a) (V n n a))])) /\
    has (ty ++ "_magnitude_squared") (fun p => ret p (fun a => [reduce1 (cadd C) (c0 C) (lanes2 (cmul C) (V n 0 a) (V n 0 a))]))).
  Definition C02_reduce_partial_stmt : Prop := for_types small_types (fun ty n =>
    has (ty ++ "_reduce_partial_min") (red n pmin) /\ has (ty ++ "_reduce_partial_max") (red n pmax)).

  (** ** element-wise functions *)
  Definition C02_elementwise_stmt : Prop := for_types types (fun ty n =>
    has (ty ++ "_min") (vec_vec n OMin) /\ has (ty ++ "_max") (vec_vec n OMax) /\
    has (ty ++ "_min_s") (vec_scalar n OMin) /\ has (ty ++ "_max_s") (scalar_vec n OMax) /\
    has (ty ++ "_map") (fun p => ret p (fun a => map (F1 1) (V n 0 a))) /\
    has (ty ++ "_apply") (fun p => ret p (fun a => map (F1 1) (V n 0 a))) /\
    has (ty ++ "_map2") (fun p => ret p (fun a => lanes2 (F2 2) (V n 0 a) (V n n a))) /\
    has (ty ++ "_apply2") (fun p => ret p (fun a => lanes2 (F2 2) (V n 0 a) (V n n a))) /\
    has (ty ++ "_map3") (fun p => ret p (fun a => lanes3 (F3 3) (V n 0 a) (V n n a) (V n (2 * n) a))) /\
    has (ty ++ "_apply3") (fun p => ret p (fun a => lanes3 (F3 3) (V n 0 a) (V n n a) (V n (2 * n) a))) /\
    has (ty ++ "_zip") (fun p => ret p (fun a => flat_map (fun xy => [fst xy; snd xy]) (combine (V n 0 a) (V n n a)))) /\
    has (ty ++ "_hadd") (fun p => ret p (fun a => pairs (cadd C) (V n 0 a ++ V n n a)%list)) /\
    has (ty ++ "_sqrt") (fun p => ret p (fun a => map (op1_of O OSqrt) (V n 0 a))) /\
    has (ty ++ "_rsqrt") (fun p => ret p (fun a => map (fun x => op2_of O ODiv (c1 C) (op1_of O OSqrt x)) (V n 0 a))) /\
    has (ty ++ "_recip") (fun p => ret p (fun a => map (fun x => op2_of O ODiv (c1 C) x) (V n 0 a))) /\
    has (ty ++ "_ceil") (fun p => ret p (fun a => map (op1_of O OCeil) (V n 0 a))) /\
    has (ty ++ "_floor") (fun p => ret p (fun a => map (op1_of O OFloor) (V n 0 a))) /\
    has (ty ++ "_round") (fun p => ret p (fun a => map (op1_of O ORound) (V n 0 a)))).

  (** ** comparison masks and partial min/max: [<=] is "not [>]" and so on (total orders) *)
  Definition cmp_ops : list (string * (C -> C -> bool)) :=
    [ ("cmpeq", jeq C); ("cmpne", fun x y => negb (jeq C x y));
      ("cmpge", fun x y => negb (jlt C x y)); ("cmpgt", fun x y => jlt C y x);
      ("cmple", fun x y => negb (jlt C y x)); ("cmplt", jlt C) ].
  Definition cmp_opsZ : list (string * (Z -> Z -> bool)) :=
    [ ("cmpeq", Z.eqb); ("cmpne", fun x y => negb (Z.eqb x y));
      ("cmpge", Z.geb); ("cmpgt", Z.gtb); ("cmple", Z.leb); ("cmplt", Z.ltb) ].
  Definition C02_cmp_small_stmt : Prop := for_types small_types (fun ty n =>
    Forall (fun nc =>
      has (ty ++ "_" ++ fst nc) (fun p => retf p (fun a => map b2z (lanes2 (snd nc) (V n 0 a) (V n n a)))) /\
      has (ty ++ "_partial_" ++ fst nc) (fun p => retf p (fun a => map b2z (lanes2 (snd nc) (V n 0 a) (V n n a)))) /\
      (* the by-value `_simd` forms (scalar fallback without platform intrinsics) *)
      has (ty ++ "_" ++ fst nc ++ "_simd") (fun p => retf p (fun a => map b2z (lanes2 (snd nc) (V n 0 a) (V n n a)))) /\
      has (ty ++ "_partial_" ++ fst nc ++ "_simd") (fun p => retf p (fun a => map b2z (lanes2 (snd nc) (V n 0 a) (V n n a))))) cmp_ops /\
    has (ty ++ "_partial_min") (fun p => ret p (fun a => lanes2 pmin (V n 0 a) (V n n a))) /\
    has (ty ++ "_partial_max") (fun p => ret p (fun a => lanes2 pmax (V n 0 a) (V n n a)))).

  (** wide vectors (16, 32, 64 lanes): one lane at a time holds free operands [a 0], [a 1] while the
      other lanes hold the constants a_j = j+1, b_j = j + j mod 3; the result has the scalar
      comparison of the free operands at that lane and the comparison of the constants elsewhere *)
  Definition bgA (j : nat) : Z := Z.of_nat (j + 1).
  Definition bgB (j : nat) : Z := Z.of_nat (j + j mod 3).
  Definition lane_mask (n k : nat) (fc : C -> C -> bool) (fz : Z -> Z -> bool) (a : nat -> C) : list Z :=
    map (fun j => b2z (if Nat.eqb j k then fc (a 0) (a 1) else fz (bgA j) (bgB j))) (seq 0 n).
  Definition lane_sel (n k : nat) (fc : C -> C -> C) (fz : Z -> Z -> Z) (a : nat -> C) : list C :=
    map (fun j => if Nat.eqb j k then fc (a 0) (a 1) else cst (fz (bgA j) (bgB j))) (seq 0 n).
  Definition C02_cmp_wide_stmt : Prop := for_types wide_types (fun ty n =>
    Forall (fun k =>
      Forall (fun ncz => let nm := fst (fst ncz) in
        has (ty ++ "_" ++ nm ++ "_lane" ++ nat_str k) (fun p => retf p (lane_mask n k (snd (fst ncz)) (snd ncz))) /\
        has (ty ++ "_partial_" ++ nm ++ "_lane" ++ nat_str k) (fun p => retf p (lane_mask n k (snd (fst ncz)) (snd ncz))))
        (combine cmp_ops (map snd cmp_opsZ)) /\
      has (ty ++ "_partial_min_lane" ++ nat_str k) (fun p => ret p (lane_sel n k pmin Z.min)) /\
      has (ty ++ "_partial_max_lane" ++ nat_str k) (fun p => ret p (lane_sel n k pmax Z.max))) (seq 0 n)).

  (** wide vectors: [reduce_partial_min/max] with lane [k] free ([a 0]) and the constants a_j = j+1 elsewhere: the
      left-to-right reduction of lib/RedChain.v (two literals compare in Z, as the code does for literals; the free input
      compares with a literal through the ring's comparison) *)
  Definition lane_red (mx : bool) (n k : nat) (a : nat -> C) : list C :=
    [spec_red C mx (map bgA (seq 0 k)) (map bgA (seq (S k) (n - S k))) (a 0)].
  Definition C02_reduce_partial_wide_stmt : Prop := for_types wide_types (fun ty n =>
    Forall (fun k =>
      has (ty ++ "_reduce_partial_min_lane" ++ nat_str k) (fun p => ret p (lane_red false n k)) /\
      has (ty ++ "_reduce_partial_max_lane" ++ nat_str k) (fun p => ret p (lane_red true n k))) (seq 0 n)).
End Spec.
