Require Import Reals List ZArith Lra Lia.
From VekLib Require Import Ops ROps LinAlg RLin.
From VekGen Require Import C10_gen.
From VekProofs Require Import C10_spec C10_pa.
Import ListNotations.
Local Open Scope R_scope.

Lemma decomp : forall k a, exists sm si s,
  rrun k (env_of (tab 16 a 19 ++ tab 16 a 3)) p_mat4r_mul = Ret ([], sm) /\
  rrun k (env_of sm) p_mat4r_inverted = Ret ([], si) /\
  rrun k a p_mat4r_viewport_to_world_no = Ret ([], s) /\ length s = 3%nat /\
  veq 3 (Rvec s) (unproject_spec true (aL Lr 4 si) (off a 35) (off a 0)).
Proof.
  intros k a. do 3 eexists.
  split. { rrun_unfold. cbv [env_of tab map seq app nth Nat.add]. reflexivity. }
  split. { rrun_unfold. cbv [env_of nth]. reflexivity. }
  split. { rrun_unfold. reflexivity. }
  split. { reflexivity. }
  veq_cases; c10_unfold; first [ reflexivity | congr_ring ].
Qed.
