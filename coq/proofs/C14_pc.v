Require Import Reals List ZArith Lra Lia.
From Interval Require Import Tactic.
From VekLib Require Import Ops ROps LinAlg RLin.
From VekGen Require Import C14_gen.
From VekProofs Require Import C14_spec.
Import ListNotations.
Local Open Scope R_scope.

Ltac c_unfold :=
  cbv [off vecv pts bern fold_left fold_right map seq List.nth Nat.add Nat.mul Nat.sub Nat.eqb Nat.ltb Nat.leb] in *.
Ltac cases_i :=
  match goal with
  | |- forall i : nat, (i < _)%nat -> _ =>
      let i := fresh "i" in let Hi := fresh "Hi" in intros i Hi;
      repeat (destruct i as [|i]; [ | try (exfalso; lia) ]); try (exfalso; lia)
  end.

Lemma C14_circle : C14_circle_stmt.
Proof.
  split; [ | split ].
  - intros k a. eexists. split; [ rrun_unfold; reflexivity | split; [ reflexivity | ] ].
    intros t Ht. c_unfold.
    interval with (i_bisect t, i_taylor t, i_degree 8, i_prec 50).
  - intros k a. do 2 eexists. split; [ rrun_unfold; reflexivity | split; [ rrun_unfold; reflexivity | ] ].
    cases_i; c_unfold; repeat split; ring.
  - intros k a. do 2 eexists. split; [ rrun_unfold; reflexivity | split; [ rrun_unfold; reflexivity | split; [ reflexivity | ] ] ].
    cases_i; cbv zeta; c_unfold; repeat split; ring.
Qed.
