Require Import Reals List ZArith Lra Lia Nsatz.
From VekLib Require Import Ops ROps LinAlg RLin.
From VekGen Require Import C04_gen.
From VekProofs Require Import C04_spec.
Import ListNotations.
Local Open Scope R_scope.

Ltac table := repeat (apply Forall_cons; [ | ]); try apply Forall_nil.
Ltac c04_unfold :=
  cbv [aL absL off emb e3 Rx Ry Rz R2 Rod mat_of vec_of ex ey ez qvec orthogonal Nat.ltb Nat.leb andb]; rlin_unfold.
Ltac clear_noneq :=
  repeat match goal with H : ?P |- _ =>
    lazymatch P with _ = _ => fail | _ => lazymatch type of P with Prop => clear H end end end.
Ltac solve_exists :=
  intros k a; eexists; split; [ rrun_unfold; reflexivity | split; [ reflexivity | ] ].
(** abstract sin/cos of an angle by two reals with s^2 + c^2 = 1 *)
Ltac abstract_trig t :=
  let H := fresh "Hsc" in pose proof (sin2_cos2 t) as H; unfold Rsqr in H;
  let s := fresh "s" in let c := fresh "c" in
  set (s := sin t) in *; set (c := cos t) in *; clearbody s c.

(** |v| > 0, |v|^2 = v.v, and the normalised components have unit length *)
Lemma norm3_facts (v : nat -> R) : nonzero3 v ->
  0 < norm3 v /\ norm3 v * norm3 v = v 0%nat * v 0%nat + v 1%nat * v 1%nat + v 2%nat * v 2%nat.
Proof.
  intros H. unfold norm3. split; [ apply sqrt_lt_R0, H | apply sqrt_sqrt; unfold nonzero3 in H; lra ].
Qed.
