Require Import List ZArith Lia String Bool.
From VekLib Require Import Ops RingOps LinAlg Index Chain.
From VekGen Require Import C20_gen.
From VekProofs Require Import C20_spec C20_tac C20_w8 C20_w16 C20_w32a C20_w32b C20_w64a C20_w64b C20_w64c C20_w64d.
Ltac auto_has := has_by ltac:(first [ by_compute | by_chain_none | by_chain_none_b | by_chain_all_b | by_cases ]).
Import ListNotations.
Section Proofs.
  Variable C : cring.
  Lemma C20_overflowing_small : C20_overflowing_small_stmt C.
  Proof.
    unfold C20_overflowing_small_stmt, small_types, types, over2_ops, over_lift. cbn [filter snd Nat.leb]. ty_table;
      splits; try (table; cbn [fst snd]); auto_has.
  Qed.
  Lemma C20_overflowing_wide : C20_overflowing_wide_stmt C.
  Proof.
    unfold C20_overflowing_wide_stmt, wide_types, types, for_types. cbn [filter snd fst Nat.leb negb].
    apply Forall_cons; [ cbn [fst snd]; apply lanes_w8 | ].
    apply Forall_cons; [ cbn [fst snd]; apply lanes_w16 | ].
    apply Forall_cons; [ cbn [fst snd]; change (seq 0 32) with (seq 0 16 ++ seq 16 16)%list; apply Forall_app; split; [ apply lanes_w32a | apply lanes_w32b ] | ].
    apply Forall_cons; [ cbn [fst snd] | apply Forall_nil ].
    change (seq 0 64) with (seq 0 16 ++ (seq 16 16 ++ (seq 32 16 ++ seq 48 16)))%list.
    apply Forall_app; split; [ apply lanes_w64a | ]. apply Forall_app; split; [ apply lanes_w64b | ].
    apply Forall_app; split; [ apply lanes_w64c | apply lanes_w64d ].
  Qed.
End Proofs.
