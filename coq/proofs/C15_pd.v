(** the other axes of the cubic curves run the same programs on re-indexed inputs *)
Require Import Reals List ZArith Lia Lra.
From VekLib Require Import Ops ROps LinAlg RLin Rename.
From VekGen Require Import C15_gen.
From VekProofs Require Import C15_spec C15_pc C15_pe.
Import ListNotations.
Local Open Scope R_scope.

Ltac table := repeat (apply List.Forall_cons; [ | ]); try apply List.Forall_nil.
(** coordinate j of point i of a d-dimensional curve, seen as coordinate 0 of a 2D curve *)
Definition reidx (d j : nat) (a : nat -> R) : nat -> R := fun i => a (d * (i / 2) + j)%nat.

Lemma bern_reidx d j a u : bern 3 (pts d a) u j = bern 3 (pts 2 (reidx d j a)) u 0.
Proof. cbv [bern pts reidx]. cbn [Nat.mul Nat.add Nat.div Nat.divmod fst]. rewrite ?Nat.mul_0_r, ?Nat.add_0_r, ?Nat.mul_1_r. reflexivity. Qed.
Lemma bern'_reidx d j a u : bern' 3 (pts d a) u j = bern' 3 (pts 2 (reidx d j a)) u 0.
Proof. cbv [bern' pts reidx]. cbn [Nat.mul Nat.add Nat.div Nat.divmod fst]. rewrite ?Nat.mul_0_r, ?Nat.add_0_r, ?Nat.mul_1_r. reflexivity. Qed.
Lemma coef_reidx d j a : ca (pts d a) j = ca (pts 2 (reidx d j a)) 0 /\ cb (pts d a) j = cb (pts 2 (reidx d j a)) 0 /\ cc (pts d a) j = cc (pts 2 (reidx d j a)) 0.
Proof. cbv [ca cb cc pts reidx]. cbn [Nat.mul Nat.add Nat.div Nat.divmod fst]. rewrite ?Nat.mul_0_r, ?Nat.add_0_r, ?Nat.mul_1_r. repeat split; reflexivity. Qed.
Lemma cclean_reidx e d j a : cclean e (pts d a) j -> cclean e (pts 2 (reidx d j a)) 0.
Proof. unfold cclean, cdisc. destruct (coef_reidx d j a) as [-> [-> ->]]. tauto. Qed.

Definition same_prog (d j : nat) (p q : prog) : Prop := forall k a, rrun k a p = rrun k (reidx d j a) q.
(** syntactic check: p is q with input variable i renamed to d*(i/2)+j *)
Lemma same_by_syntax d j p q :
  let r := ren_prog (fun i => (d * (i / 2) + j)%nat) q in
  (p_nodes p = p_nodes r /\ p_tree p = p_tree r) -> same_prog d j p q.
Proof.
  intros r [Hn Ht] k a. unfold rrun.
  transitivity (run (R_ops k) (noF 0) a r).
  - unfold run. rewrite Hn, Ht. reflexivity.
  - unfold r. apply (ren_prog_ok (fun i => (d * (i / 2) + j)%nat) (R_ops k) (noF 0) a q).
Qed.
Lemma same_table : List.Forall (fun ax =>
    same_prog (cd ax) (cj ax) (c_infl ax) p_cubic2_x_inflections /\ same_prog (cd ax) (cj ax) (c_min ax) p_cubic2_min_x /\
    same_prog (cd ax) (cj ax) (c_max ax) p_cubic2_max_x /\ same_prog (cd ax) (cj ax) (c_bounds ax) p_cubic2_x_bounds) caxes.
Proof. unfold caxes. table; cbv [cd cj c_infl c_min c_max c_bounds]; (split; [ | split; [ | split ] ]); apply same_by_syntax; (split; vm_compute; reflexivity). Qed.

Lemma C15_cubic_extrema : C15_cubic_extrema_stmt.
Proof.
  unfold C15_cubic_extrema_stmt. pose proof same_table as T. rewrite List.Forall_forall in *. intros ax Hax.
  destruct (T ax Hax) as [_ [Smin [Smax Sb]]]. intros k a He. cbv zeta.
  split; [ | split ].
  - destruct (cubic_min_x k (reidx (cd ax) (cj ax) a) He) as [t [Hr [Hu Ho]]]. exists t. rewrite Smin. split; [ exact Hr | split; [ exact Hu | ] ].
    intros Hc u Hun. rewrite (bern_reidx (cd ax) (cj ax) a t), (bern_reidx (cd ax) (cj ax) a u). apply Ho; [ apply cclean_reidx; exact Hc | exact Hun ].
  - destruct (cubic_max_x k (reidx (cd ax) (cj ax) a) He) as [t [Hr [Hu Ho]]]. exists t. rewrite Smax. split; [ exact Hr | split; [ exact Hu | ] ].
    intros Hc u Hun. rewrite (bern_reidx (cd ax) (cj ax) a t), (bern_reidx (cd ax) (cj ax) a u). apply Ho; [ apply cclean_reidx; exact Hc | exact Hun ].
  - destruct (cubic_bounds_x k (reidx (cd ax) (cj ax) a)) as [t1 [t2 [H1 [H2 H3]]]]. exists t1, t2. rewrite Sb, Smin, Smax. repeat split; assumption.
Qed.

Lemma C15_cubic_inflections : C15_cubic_inflections_stmt.
Proof.
  unfold C15_cubic_inflections_stmt. pose proof same_table as T. rewrite List.Forall_forall in *. intros ax Hax.
  destruct (T ax Hax) as [Si _]. intros k a He. cbv zeta.
  destruct (cubic_infl_x k (reidx (cd ax) (cj ax) a) He) as [n [t1 [t2 [Hr [Hn Hc]]]]].
  exists n, t1, t2. rewrite Si. split; [ exact Hr | split; [ exact Hn | ] ].
  intros Hcl. destruct (Hc (cclean_reidx _ _ _ _ Hcl)) as [H1 [H2 H3]].
  destruct (coef_reidx (cd ax) (cj ax) a) as [Ea [Eb Ec]].
  split; [ | split ].
  - intros Hn1. rewrite (bern'_reidx (cd ax) (cj ax) a t1). apply H1; exact Hn1.
  - intros Hn2. rewrite (bern'_reidx (cd ax) (cj ax) a t2). apply H2; exact Hn2.
  - intros m Hm Hz Hnz. apply H3; [ exact Hm | rewrite <- (bern'_reidx (cd ax) (cj ax) a m); exact Hz | rewrite <- Ea, <- Eb, <- Ec; exact Hnz ].
Qed.
