Require Import Reals List ZArith Lra Lia.
From VekLib Require Import Ops ROps LinAlg RLin.
From VekGen Require Import C05_gen.
From VekProofs Require Import C05_spec.
Import ListNotations.
Local Open Scope R_scope.

Ltac table := repeat (apply Forall_cons; [ | ]); try apply Forall_nil.
Ltac c05_unfold :=
  cbv [aL absL vec_of mat_of off qmul qconj qn2 qinv qone qeq pure rotv Qmat emb dot3 Nat.ltb Nat.leb andb]; rlin_unfold.
Ltac congr_ring := first [ reflexivity | ring | (f_equal; congr_ring) ].
Ltac solve_computes :=
  intros k a; eexists; split; [ rrun_unfold; reflexivity | split; [ reflexivity | ] ];
  veq_cases; c05_unfold; congr_ring.

Lemma C05_ops : C05_ops_stmt.
Proof. unfold C05_ops_stmt. repeat split; solve_computes. Qed.

Lemma C05_algebra : C05_algebra_stmt.
Proof.
  intros p q r. split; [ | split; [ | split; [ | split; [ | split ] ] ] ].
  1-3,5: veq_cases; c05_unfold; ring.
  - c05_unfold; ring.
  - intros Hn; revert Hn; c05_unfold; intros Hn; split; veq_cases; c05_unfold; field; exact Hn.
Qed.

Lemma C05_apply : C05_apply_stmt.
Proof.
  unfold C05_apply_stmt. split; [ solve_computes | split; [ solve_computes | split; [ | split; [ | split ] ] ] ].
  - table; intros k a; (eexists; split; [ rrun_unfold; reflexivity | split; [ reflexivity | ] ]); meq_cases; c05_unfold; ring.
  - intros q v Hn. revert Hn. c05_unfold. intros Hn. veq_cases; c05_unfold.
    all: match goal with |- ?l = ?r => apply Rminus_diag_uniq end.
    + replace (_ - _) with (2 * v 0%nat * (q 0%nat * q 0%nat + q 1%nat * q 1%nat + q 2%nat * q 2%nat + q 3%nat * q 3%nat - 1) * / 2) by field. rewrite Hn. field.
    + replace (_ - _) with (2 * v 1%nat * (q 0%nat * q 0%nat + q 1%nat * q 1%nat + q 2%nat * q 2%nat + q 3%nat * q 3%nat - 1) * / 2) by field. rewrite Hn. field.
    + replace (_ - _) with (2 * v 2%nat * (q 0%nat * q 0%nat + q 1%nat * q 1%nat + q 2%nat * q 2%nat + q 3%nat * q 3%nat - 1) * / 2) by field. rewrite Hn. field.
  - intros p q v. veq_cases; c05_unfold; ring.
  - intros q v. c05_unfold. ring.
Qed.
