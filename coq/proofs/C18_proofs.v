Require Import List Arith Lia Bool Permutation.
From VekModel Require Import Containers.
From VekProofs Require Import C18_spec.
Import ListNotations.

Lemma live_cons s : front s < back s -> live s = front s :: seq (S (front s)) (back s - S (front s)).
Proof. intros H. unfold live. replace (back s - front s) with (S (back s - S (front s))) by lia. reflexivity. Qed.
Lemma live_snoc s : front s < back s -> live s = seq (front s) (back s - 1 - front s) ++ [back s - 1].
Proof.
  intros H. unfold live. replace (back s - front s) with ((back s - 1 - front s) + 1) by lia.
  rewrite seq_app. cbn [seq]. f_equal. f_equal. lia.
Qed.

(** once dropped, nothing happens any more *)
Lemma run_gone ops : forall s, gone s = true -> let (s', es) := run s ops in s' = s /\ yielded es = [] /\ dropped es = [].
Proof.
  induction ops as [|o ops IH]; intros s Hg; cbn [run]; [ repeat split; reflexivity | ].
  unfold step. rewrite Hg. specialize (IH s Hg). destruct (run s ops) as [s2 es]. destruct IH as [-> [Hy Hd]].
  repeat split; cbn [yielded dropped]; assumption.
Qed.

Lemma run_gen ops : forall s, wf s -> gone s = false ->
  let (s', es) := run s ops in
  wf s' /\ dim s' = dim s /\
  (gone s' = false -> Permutation (yielded es ++ live s') (live s) /\ dropped es = []) /\
  (gone s' = true -> Permutation (yielded es ++ dropped es) (live s)).
Proof.
  induction ops as [|o ops IH]; intros s Hwf Hg; cbn [run].
  - split; [ exact Hwf | split; [ reflexivity | split ] ].
    + intros _. split; [ apply Permutation_refl | reflexivity ].
    + intros Hg'; congruence.
  - (* an operation that leaves the state alone and neither yields nor drops *)
    assert (Same : forall e, yielded [e] = [] -> dropped [e] = [] ->
              let (s2, es) := run s ops in
              wf s2 /\ dim s2 = dim s /\
              (gone s2 = false -> Permutation (yielded (e :: es) ++ live s2) (live s) /\ dropped (e :: es) = []) /\
              (gone s2 = true -> Permutation (yielded (e :: es) ++ dropped (e :: es)) (live s))).
    { intros e Hy Hd. specialize (IH s Hwf Hg). destruct (run s ops) as [s2 es]. destruct IH as [W [D [A B]]].
      assert (Ey : yielded (e :: es) = yielded es) by (destruct e as [[x|] | | | | ]; cbn in *; congruence).
      assert (Ed : dropped (e :: es) = dropped es) by (destruct e as [[x|] | | l | l | ]; cbn in *; try reflexivity; rewrite app_nil_r in Hd; subst; reflexivity).
      rewrite Ey, Ed. split; [ exact W | split; [ exact D | split; assumption ] ]. }
    unfold step. rewrite Hg. destruct o.
    + (* Next *) destruct (Nat.ltb_spec (front s) (back s)) as [Hlt|Hge].
      * set (s1 := {| dim := dim s; front := S (front s); back := back s; gone := false |}).
        assert (Hwf1 : wf s1) by (unfold wf in *; cbn; lia).
        specialize (IH s1 Hwf1 eq_refl). destruct (run s1 ops) as [s2 es]. destruct IH as [W [D [A B]]].
        rewrite (live_cons s Hlt). change (seq (S (front s)) (back s - S (front s))) with (live s1).
        cbn [yielded dropped]. split; [ exact W | split; [ exact D | split ] ].
        -- intros G. destruct (A G) as [P Hd]. split; [ cbn [app]; apply perm_skip; exact P | exact Hd ].
        -- intros G. cbn [app]. apply perm_skip. exact (B G).
      * pose proof (Same (Yield None) eq_refl eq_refl) as S'; destruct (run s ops) as [s2 es]; exact S'.
    + (* NextBack *) destruct (Nat.ltb_spec (front s) (back s)) as [Hlt|Hge].
      * set (s1 := {| dim := dim s; front := front s; back := back s - 1; gone := false |}).
        assert (Hwf1 : wf s1) by (unfold wf in *; cbn; lia).
        specialize (IH s1 Hwf1 eq_refl). destruct (run s1 ops) as [s2 es]. destruct IH as [W [D [A B]]].
        rewrite (live_snoc s Hlt). change (seq (front s) (back s - 1 - front s)) with (live s1).
        cbn [yielded dropped]. split; [ exact W | split; [ exact D | split ] ].
        -- intros G. destruct (A G) as [P Hd]. split; [ | exact Hd ].
           cbn [app]. apply Permutation_cons_app. rewrite app_nil_r. exact P.
        -- intros G. cbn [app]. apply Permutation_cons_app. rewrite app_nil_r. exact (B G).
      * pose proof (Same (Yield None) eq_refl eq_refl) as S'; destruct (run s ops) as [s2 es]; exact S'.
    + pose proof (Same (Report (back s - front s)) eq_refl eq_refl) as S'; destruct (run s ops) as [s2 es]; exact S'.
    + pose proof (Same (Reads (live s)) eq_refl eq_refl) as S'; destruct (run s ops) as [s2 es]; exact S'.
    + (* DropIt *) set (s1 := {| dim := dim s; front := front s; back := back s; gone := true |}).
      pose proof (run_gone ops s1 eq_refl) as R. destruct (run s1 ops) as [s2 es]. destruct R as [-> [Hy Hd]].
      cbn [yielded dropped]. split; [ unfold wf in *; cbn; lia | split; [ reflexivity | split ] ].
      * intros G; cbn in G; discriminate.
      * intros _. rewrite Hy, Hd. cbn [app]. rewrite app_nil_r. apply Permutation_refl.
Qed.

Lemma NoDup_app_l {A} (l1 l2 : list A) : NoDup (l1 ++ l2) -> NoDup l1.
Proof.
  induction l1 as [|x l1 IH]; intros H; [ constructor | ].
  cbn in H. inversion H as [|? ? Hn H']; subst. constructor; [ | exact (IH H') ].
  intros Hin. apply Hn. apply in_or_app; left; exact Hin.
Qed.

Lemma live_init n : live (init n) = seq 0 n.
Proof. unfold live, init; cbn. rewrite Nat.sub_0_r. reflexivity. Qed.

Lemma C18_iter_histories : C18_iter_histories_stmt.
Proof.
  intros n ops. pose proof (run_gen ops (init n)) as H.
  assert (Hwf : wf (init n)) by (unfold wf, init; cbn; lia). specialize (H Hwf eq_refl).
  destruct (run (init n) ops) as [s es]. destruct H as [W [D [A B]]]. rewrite live_init in A, B.
  destruct (gone s) eqn:G.
  - specialize (B eq_refl).
    assert (ND : NoDup (yielded es ++ dropped es)) by (apply (Permutation_NoDup (Permutation_sym B)), seq_NoDup).
    split; [ exact W | split; [ exact ND | split; [ | split ] ] ].
    + intros x Hx. apply (Permutation_in _ B) in Hx. apply in_seq in Hx. lia.
    + intros Hf; discriminate.
    + intros _. exact B.
  - destruct (A eq_refl) as [P Hd].
    assert (ND : NoDup (yielded es ++ live s)) by (apply (Permutation_NoDup (Permutation_sym P)), seq_NoDup).
    split; [ exact W | split; [ | split; [ | split ] ] ].
    + rewrite Hd, app_nil_r. apply (NoDup_app_l _ _ ND).
    + intros x Hx. rewrite Hd, app_nil_r in Hx. assert (Hx' : In x (yielded es ++ live s)) by (apply in_or_app; left; exact Hx).
      apply (Permutation_in _ P) in Hx'. apply in_seq in Hx'. lia.
    + intros _. split; [ exact P | exact Hd ].
    + intros Hf; discriminate.
Qed.

Lemma NoDup_app_disjoint {A} (l1 l2 : list A) x : NoDup (l1 ++ l2) -> In x l2 -> ~ In x l1.
Proof.
  induction l1 as [|y l1 IH]; intros ND Hin; [ intros [] | ].
  cbn in ND. inversion ND as [|? ? Hn ND']; subst. intros [->|H].
  - apply Hn. apply in_or_app; right; exact Hin.
  - exact (IH ND' Hin H).
Qed.

Lemma C18_iter_reports : C18_iter_reports_stmt.
Proof.
  intros n ops o. pose proof (run_gen ops (init n)) as H.
  assert (Hwf : wf (init n)) by (unfold wf, init; cbn; lia). specialize (H Hwf eq_refl).
  destruct (run (init n) ops) as [s es]. destruct H as [W [D [A B]]]. rewrite live_init in A.
  intros G. destruct (A G) as [P Hd].
  assert (Hlen : length (yielded es) + (back s - front s) = n).
  { apply Permutation_length in P. rewrite app_length, seq_length in P. unfold live in P. rewrite seq_length in P. exact P. }
  assert (ND : NoDup (yielded es ++ live s)) by (apply (Permutation_NoDup (Permutation_sym P)), seq_NoDup).
  unfold step. rewrite G. split; [ | split; [ | split; [ | split ] ] ]; intros ->; cbn [snd].
  - f_equal. lia.
  - exists (live s). split; [ reflexivity | ]. intros x Hx. exact (NoDup_app_disjoint _ _ x ND Hx).
  - exists (live s). split; [ reflexivity | exact P ].
  - destruct (Nat.ltb (front s) (back s)); reflexivity.
  - destruct (Nat.ltb (front s) (back s)); reflexivity.
Qed.

(** a list of [m] distinct numbers below [m] is a permutation of [0..m-1]; decided by computation *)
Fixpoint nodupb (l : list nat) : bool :=
  match l with [] => true | x :: r => negb (existsb (Nat.eqb x) r) && nodupb r end.
Lemma nodupb_sound l : nodupb l = true -> NoDup l.
Proof.
  induction l as [|x l IH]; intros H; [ constructor | ].
  cbn in H. apply andb_true_iff in H. destruct H as [H1 H2]. constructor; [ | exact (IH H2) ].
  intros Hin. apply negb_true_iff in H1. assert (E : existsb (Nat.eqb x) l = true).
  { apply existsb_exists. exists x. split; [ exact Hin | apply Nat.eqb_refl ]. }
  congruence.
Qed.
Lemma perm_by_compute (l : list nat) (m : nat) :
  (nodupb l && Nat.eqb (length l) m && forallb (fun x => Nat.ltb x m) l) = true -> Permutation l (seq 0 m).
Proof.
  intros H. apply andb_true_iff in H. destruct H as [H H3]. apply andb_true_iff in H. destruct H as [H1 H2].
  apply Nat.eqb_eq in H2. apply NoDup_Permutation_bis.
  - exact (nodupb_sound l H1).
  - rewrite seq_length. lia.
  - intros x Hx. apply in_seq. rewrite forallb_forall in H3. specialize (H3 x Hx). apply Nat.ltb_lt in H3. lia.
Qed.

Lemma C18_conversions : C18_conversions_stmt.
Proof.
  split.
  - intros n m. unfold from_iter_stored, from_iter_surplus.
    assert (E : seq 0 (Nat.min n m) ++ seq n (m - n) = seq 0 m).
    { destruct (Nat.le_ge_cases n m) as [H|H].
      - rewrite Nat.min_l by assumption. transitivity (seq 0 (n + (m - n))); [ rewrite seq_app; reflexivity | f_equal; lia ].
      - rewrite Nat.min_r by assumption. replace (m - n) with 0 by lia. cbn [seq]. apply app_nil_r. }
    rewrite E. split; [ apply seq_NoDup | apply Permutation_refl ].
  - intros n Hn. assert (Hc : n = 0 \/ n = 1 \/ n = 2 \/ n = 3 \/ n = 4) by lia.
    destruct Hc as [-> | [-> | [-> | [-> | ->]]]]; (split; [ apply perm_by_compute; vm_compute; reflexivity | ]).
    all: intros i j Hi Hj;
      assert (Ei : i = 0 \/ i = 1 \/ i = 2 \/ i = 3) by lia; assert (Ej : j = 0 \/ j = 1 \/ j = 2 \/ j = 3) by lia;
      destruct Ei as [-> | [-> | [-> | ->]]]; destruct Ej as [-> | [-> | [-> | ->]]]; first [ exfalso; lia | reflexivity ].
Qed.
