(** * C19 — statements. Vector kind/size conversions, swizzles, shuffles, colour helpers keep elements.
    Entries are looked up by name in the index emitted by the translator; all statements hold for
    all element values in an arbitrary commutative ring [C] whose [full] (the colour component's
    maximum) is an arbitrary constant, unless stated for machine integers. *)
Require Import List ZArith Lia String Bool.
From VekLib Require Import Ops RingOps LinAlg Index MachineInt.
From VekGen Require Import C19_gen.
Import ListNotations.
Open Scope string_scope.

Definition has := has_in index_C19.

Section Spec.
  Variable C : cring.
  Notation O := (cops C).
  Definition ret (p : prog) (f : (nat -> C) -> list C) : Prop := forall a, crun C a p = Ret ([], f a).
  Definition retf (p : prog) (f : list Z) : Prop := forall a, crun C a p = Ret (f, []).
  Definition sel (a : nat -> C) (idx : list nat) : list C := map a idx.
  Definition full : C := jn C Nfull.
  Definition z0 : C := c0 C.
  Definition o1 : C := c1 C.
  Definition m1 : C := copp C (c1 C).

  (** ** conversions between kinds and sizes: keep the common prefix, fill the rest *)
  Definition conv (nf nt : nat) (fill : C) (p : prog) : Prop :=
    ret p (fun a => firstn nt (tab nf a 0) ++ repeat fill (nt - nf))%list.
  Definition conv_table : list (string * nat * nat) :=
    [ ("vec2_from_vec3", 3, 2); ("vec2_from_vec4", 4, 2); ("vec2_from_extent2", 2, 2);
      ("vec3_from_vec2", 2, 3); ("vec3_from_vec4", 4, 3); ("vec3_from_extent3", 3, 3); ("vec3_from_rgb", 3, 3); ("vec3_from_uvw", 3, 3);
      ("vec4_from_vec3", 3, 4); ("vec4_from_vec2", 2, 4); ("vec4_from_rgba", 4, 4);
      ("extent3_from_vec3", 3, 3); ("extent2_from_vec2", 2, 2); ("rgba_from_vec4", 4, 4);
      ("rgb_from_vec3", 3, 3); ("rgb_from_rgba", 4, 3); ("uvw_from_vec3", 3, 3); ("uv_from_vec2", 2, 2) ].
  Definition tuple_table : list (string * nat) :=
    [ ("vec3_from_vec2_and_scalar", 2); ("vec4_from_vec3_and_scalar", 3); ("extent3_from_extent2_and_scalar", 2);
      ("rgba_from_rgb_and_scalar", 3); ("uvw_from_uv_and_scalar", 2) ].
  Definition C19_conv_stmt : Prop :=
    Forall (fun e => has (fst (fst e)) (conv (snd (fst e)) (snd e) z0)) conv_table /\
    has "rgba_from_rgb" (conv 3 4 full) /\
    Forall (fun e => has (fst e) (fun p => ret p (fun a => tab (snd e + 1) a 0))) tuple_table /\
    (* points get w = 1, directions w = 0 *)
    has "vec3_new_point_2d" (fun p => ret p (fun a => [a 0; a 1; o1])) /\
    has "vec3_new_direction_2d" (fun p => ret p (fun a => [a 0; a 1; z0])) /\
    has "vec3_from_point_2d" (fun p => ret p (fun a => [a 0; a 1; o1])) /\
    has "vec3_from_direction_2d" (fun p => ret p (fun a => [a 0; a 1; z0])) /\
    has "vec4_new_point" (fun p => ret p (fun a => [a 0; a 1; a 2; o1])) /\
    has "vec4_new_direction" (fun p => ret p (fun a => [a 0; a 1; a 2; z0])) /\
    has "vec4_from_point" (fun p => ret p (fun a => [a 0; a 1; a 2; o1])) /\
    has "vec4_from_direction" (fun p => ret p (fun a => [a 0; a 1; a 2; z0])) /\
    has "vec4_from_point_of_vec2" (fun p => ret p (fun a => [a 0; a 1; z0; o1])) /\
    has "vec4_from_direction_of_vec4" (fun p => ret p (fun a => [a 0; a 1; a 2; z0])).

  (** ** swizzles and setters: the result is the listed selection of inputs (input n.. = the new value) *)
  Definition swizzle_table : list (string * list nat) :=
    [ ("vec2_yx", [1; 0]); ("vec2_with_x", [2; 1]); ("vec2_with_y", [0; 2]); ("vec2_with_z", [0; 1; 2]);
      ("vec3_zyx", [2; 1; 0]); ("vec3_xy", [0; 1]); ("vec3_with_x", [3; 1; 2]); ("vec3_with_y", [0; 3; 2]); ("vec3_with_z", [0; 1; 3]); ("vec3_with_w", [0; 1; 2; 3]);
      ("vec4_wxyz", [3; 0; 1; 2]); ("vec4_wzyx", [3; 2; 1; 0]); ("vec4_zyxw", [2; 1; 0; 3]); ("vec4_xyz", [0; 1; 2]); ("vec4_xy", [0; 1]);
      ("vec4_with_x", [4; 1; 2; 3]); ("vec4_with_y", [0; 4; 2; 3]); ("vec4_with_z", [0; 1; 4; 3]); ("vec4_with_w", [0; 1; 2; 4]);
      ("rgba_rgb", [0; 1; 2]);
      ("rgba_shuffled_argb", [3; 0; 1; 2]); ("rgba_shuffled_bgra", [2; 1; 0; 3]); ("rgb_shuffled_bgr", [2; 1; 0]);
      ("vec4_shuffled_0101", [0; 1; 0; 1]); ("vec4_shuffled_2323", [2; 3; 2; 3]); ("vec4_shuffled_0022", [0; 0; 2; 2]); ("vec4_shuffled_1133", [1; 1; 3; 3]);
      ("vec4_interleave_0011", [0; 4; 1; 5]); ("vec4_interleave_2233", [2; 6; 3; 7]); ("vec4_shuffle_lo_hi_0101", [0; 1; 4; 5]); ("vec4_shuffle_hi_lo_2323", [6; 7; 2; 3]);
      ("rgba_shuffled_0101", [0; 1; 0; 1]); ("rgba_shuffled_2323", [2; 3; 2; 3]); ("rgba_shuffled_0022", [0; 0; 2; 2]); ("rgba_shuffled_1133", [1; 1; 3; 3]);
      ("rgba_interleave_0011", [0; 4; 1; 5]); ("rgba_interleave_2233", [2; 6; 3; 7]); ("rgba_shuffle_lo_hi_0101", [0; 1; 4; 5]); ("rgba_shuffle_hi_lo_2323", [6; 7; 2; 3]) ].
  Definition const_table : list (string * list C) :=
    [ ("vec2_unit_x", [o1; z0]); ("vec2_unit_y", [z0; o1]); ("vec2_left", [m1; z0]); ("vec2_right", [o1; z0]); ("vec2_up", [z0; o1]); ("vec2_down", [z0; m1]);
      ("vec3_unit_x", [o1; z0; z0]); ("vec3_unit_y", [z0; o1; z0]); ("vec3_unit_z", [z0; z0; o1]);
      ("vec3_left", [m1; z0; z0]); ("vec3_right", [o1; z0; z0]); ("vec3_up", [z0; o1; z0]); ("vec3_down", [z0; m1; z0]);
      ("vec3_forward_lh", [z0; z0; o1]); ("vec3_forward_rh", [z0; z0; m1]); ("vec3_back_lh", [z0; z0; m1]); ("vec3_back_rh", [z0; z0; o1]);
      ("vec4_unit_x", [o1; z0; z0; z0]); ("vec4_unit_y", [z0; o1; z0; z0]); ("vec4_unit_z", [z0; z0; o1; z0]); ("vec4_unit_w", [z0; z0; z0; o1]);
      ("vec4_left", [m1; z0; z0; z0]); ("vec4_right", [o1; z0; z0; z0]); ("vec4_up", [z0; o1; z0; z0]); ("vec4_down", [z0; m1; z0; z0]);
      ("vec4_forward_lh", [z0; z0; o1; z0]); ("vec4_forward_rh", [z0; z0; m1; z0]); ("vec4_back_lh", [z0; z0; m1; z0]); ("vec4_back_rh", [z0; z0; o1; z0]);
      ("vec4_unit_x_point", [o1; z0; z0; o1]); ("vec4_unit_y_point", [z0; o1; z0; o1]); ("vec4_unit_z_point", [z0; z0; o1; o1]);
      ("vec4_left_point", [m1; z0; z0; o1]); ("vec4_right_point", [o1; z0; z0; o1]); ("vec4_up_point", [z0; o1; z0; o1]); ("vec4_down_point", [z0; m1; z0; o1]);
      ("vec4_forward_point_lh", [z0; z0; o1; o1]); ("vec4_forward_point_rh", [z0; z0; m1; o1]); ("vec4_back_point_lh", [z0; z0; m1; o1]); ("vec4_back_point_rh", [z0; z0; o1; o1]);
      (* named colours *)
      ("rgba_black", [z0; z0; z0; full]); ("rgba_white", [full; full; full; full]); ("rgba_red", [full; z0; z0; full]); ("rgba_green", [z0; full; z0; full]);
      ("rgba_blue", [z0; z0; full; full]); ("rgba_cyan", [z0; full; full; full]); ("rgba_magenta", [full; z0; full; full]); ("rgba_yellow", [full; full; z0; full]);
      ("rgb_black", [z0; z0; z0]); ("rgb_white", [full; full; full]); ("rgb_red", [full; z0; z0]); ("rgb_green", [z0; full; z0]);
      ("rgb_blue", [z0; z0; full]); ("rgb_cyan", [z0; full; full]); ("rgb_magenta", [full; z0; full]); ("rgb_yellow", [full; full; z0]) ].
  Definition C19_swizzle_stmt : Prop :=
    Forall (fun e => has (fst e) (fun p => ret p (fun a => sel a (snd e)))) swizzle_table /\
    has "vec2_with_w" (fun p => ret p (fun a => [a 0; a 1; z0; a 2])) /\
    Forall (fun e => has (fst e) (fun p => forall a, exists s, crun C a p = Ret ([], s) /\ s = snd e)) const_table.

  (** ** 4-lane shuffles: (lo[a], lo[b], hi[c], hi[d]) for every mask; indices are taken modulo 4 *)
  Definition lohi (m : nat) (a : nat -> C) : list C :=
    [a (m mod 4); a ((m / 4) mod 4); a (4 + (m / 16) mod 4); a (4 + (m / 64) mod 4)].
  Definition self4 (m : nat) (a : nat -> C) : list C :=
    [a (m mod 4); a ((m / 4) mod 4); a ((m / 16) mod 4); a ((m / 64) mod 4)].
  Definition zidx (m : nat) : list Z := map Z.of_nat [m mod 4; (m / 4) mod 4; (m / 16) mod 4; (m / 64) mod 4].
  Definition C19_shuffle_stmt : Prop :=
    Forall (fun ty =>
      Forall (fun m =>
        has (ty ++ "_shuffle_lo_hi_m" ++ nat_str m) (fun p => ret p (lohi m)) /\
        has (ty ++ "_shuffle_lo_hi_oor" ++ nat_str m) (fun p => ret p (lohi m)) /\
        has (ty ++ "_shuffled_m" ++ nat_str m) (fun p => ret p (self4 m))) (seq 0 256) /\
      Forall (fun m => has (ty ++ "_shuffled_bcast" ++ nat_str m) (fun p => ret p (fun a => repeat (a (m mod 4)) 4))) (seq 0 9))
      ["vec4"; "rgba"] /\
    (* ShuffleMask4::new / From<tuple> (with out-of-range indices) / From<array> / to_indices / == *)
    Forall (fun m => has ("mask_indices_m" ++ nat_str m) (fun p => retf p (zidx m ++ zidx m ++ zidx m ++ [1%Z])%list)) (seq 0 256).

  (** ** colour helpers *)
  Definition hl (z : Z) : list Z := [(z / 2 ^ 32)%Z; (z mod 2 ^ 32)%Z].
  Definition int_fulls : list Z := [2 ^ 8 - 1; 2 ^ 16 - 1; 2 ^ 32 - 1; 2 ^ 64 - 1; 2 ^ 7 - 1; 2 ^ 15 - 1; 2 ^ 31 - 1; 2 ^ 63 - 1]%Z.
  Definition C19_color_stmt : Prop :=
    has "rgba_new_opaque" (fun p => ret p (fun a => [a 0; a 1; a 2; full])) /\
    has "rgba_new_transparent" (fun p => ret p (fun a => [a 0; a 1; a 2; z0])) /\
    has "rgba_from_opaque" (fun p => ret p (fun a => [a 0; a 1; a 2; full])) /\
    has "rgba_from_transparent" (fun p => ret p (fun a => [a 0; a 1; a 2; z0])) /\
    has "rgba_from_translucent" (fun p => ret p (fun a => [a 0; a 1; a 2; a 3])) /\
    has "rgba_gray" (fun p => ret p (fun a => [a 0; a 0; a 0; full])) /\ has "rgba_grey" (fun p => ret p (fun a => [a 0; a 0; a 0; full])) /\
    has "rgb_gray" (fun p => ret p (fun a => [a 0; a 0; a 0])) /\ has "rgb_grey" (fun p => ret p (fun a => [a 0; a 0; a 0])) /\
    has "rgba_inverted_rgb" (fun p => ret p (fun a => [csub C full (a 0); csub C full (a 1); csub C full (a 2); a 3])) /\
    has "rgb_inverted_rgb" (fun p => ret p (fun a => [csub C full (a 0); csub C full (a 1); csub C full (a 2)])) /\
    (* an involution that keeps alpha *)
    has "rgba_inverted_twice" (fun p => forall a, exists s, crun C a p = Ret ([], s) /\ s = tab 4 a 0) /\
    has "rgb_inverted_twice" (fun p => forall a, exists s, crun C a p = Ret ([], s) /\ s = tab 3 a 0) /\
    has "rgba_average_rgb" (fun p => ret p (fun a => [op2_of O ODiv (cadd C (cadd C (a 0) (a 1)) (a 2)) (cstq O 3 1)])) /\
    has "rgb_average_rgb" (fun p => ret p (fun a => [op2_of O ODiv (cadd C (cadd C (a 0) (a 1)) (a 2)) (cstq O 3 1)])) /\
    (* ColorComponent::full is MAX for u8..u64, i8..i64 and their Wrapping forms, 1 for f32/f64 *)
    has "color_full_constants" (fun p => retf p (flat_map hl int_fulls ++ flat_map hl int_fulls ++ [1; 1]%Z)%list).

  (** ** embedding a smaller matrix and vector commutes with multiplication (zero fill, and w = 1 points) *)
  Definition agree (l r : prog) : Prop :=
    forall a, exists x y, crun C a l = Ret ([], x) /\ crun C a r = Ret ([], y) /\ x = y.
  Definition C19_embed_stmt : Prop :=
    Forall (fun nm => exists l r, lookup (nm ++ "_lhs") index_C19 = Some l /\ lookup (nm ++ "_rhs") index_C19 = Some r /\ agree l r)
      [ "embed23r"; "embed34r"; "embed24r"; "embed34r_point"; "embed23r_point"; "embed24r_point";
        "embed23c"; "embed34c"; "embed24c"; "embed34c_point"; "embed23c_point"; "embed24c_point";
        (* growing directly = growing through the intermediate size; the grown matrix acts block-wise on ANY vector
           (the smaller product on the leading components, the identity on the others) *)
        "grow24r"; "grow24c"; "embed24r_general"; "embed24c_general"; "embed34r_general"; "embed34c_general";
        "embed23r_general"; "embed23c_general" ].
End Spec.

(** ** machine-integer colour components of every width: within the component range [0, full]
    inversion never overflows, is [full - x] and is an involution *)
Local Open Scope Z_scope.
Definition comp_ok (s : isem) (n : nat) (a : nat -> Z) : Prop := forall i, (i < n)%nat -> 0 <= a i <= imax s.
Definition C19_int_invert_stmt : Prop :=
  forall s a, 0 < width s ->
    (comp_ok s 3 a ->
       has "s_rgb_inverted_rgb" (fun p => signed s = true -> irun s a p = Ret ([], [imax s - a 0%nat; imax s - a 1%nat; imax s - a 2%nat])) /\
       has "u_rgb_inverted_rgb" (fun p => signed s = false -> irun s a p = Ret ([], [imax s - a 0%nat; imax s - a 1%nat; imax s - a 2%nat])) /\
       has "s_rgb_inverted_twice" (fun p => signed s = true -> irun s a p = Ret ([], [a 0%nat; a 1%nat; a 2%nat])) /\
       has "u_rgb_inverted_twice" (fun p => signed s = false -> irun s a p = Ret ([], [a 0%nat; a 1%nat; a 2%nat]))) /\
    (comp_ok s 3 a -> in_range s (a 3%nat) ->
       has "s_rgba_inverted_rgb" (fun p => signed s = true -> irun s a p = Ret ([], [imax s - a 0%nat; imax s - a 1%nat; imax s - a 2%nat; a 3%nat])) /\
       has "u_rgba_inverted_rgb" (fun p => signed s = false -> irun s a p = Ret ([], [imax s - a 0%nat; imax s - a 1%nat; imax s - a 2%nat; a 3%nat]))).
(** known finding: a negative component of a signed type overflows (panics with overflow checks) *)
Definition C19_known_signed_invert_stmt : Prop :=
  has "s_rgb_inverted_rgb" (fun p =>
    irun {| signed := true; width := 8; dbg := true |} (fun i => match i with 0%nat => -1 | _ => 0 end) p = Panic).
