Require Import Reals List ZArith Lra Lia.
From VekLib Require Import Ops ROps LinAlg RLin.
From VekGen Require Import C06_gen.
From VekProofs Require Import C06_spec C06_tac C06_pa C06_pb C06_pc C06_pd C06_pe C06_pf C06_pg.
Import ListNotations.
Local Open Scope R_scope.

(** the in-place forms are the same programs as the returning forms *)
Lemma same_r1 : p_mat4r_invert = p_mat4r_inverted. Proof. reflexivity. Qed.
Lemma same_c1 : p_mat4c_invert = p_mat4c_inverted. Proof. reflexivity. Qed.
Lemma same_r2 : p_mat4r_invert_rigid = p_mat4r_inverted_rigid. Proof. reflexivity. Qed.
Lemma same_c2 : p_mat4c_invert_rigid = p_mat4c_inverted_rigid. Proof. reflexivity. Qed.
Lemma same_r3 : p_mat4r_invert_affine = p_mat4r_inverted_affine. Proof. reflexivity. Qed.
Lemma same_c3 : p_mat4c_invert_affine = p_mat4c_inverted_affine. Proof. reflexivity. Qed.

Lemma C06_inverse : C06_inverse_stmt.
Proof.
  intros k a. split; intros Hd; split; rewrite ?same_r1, ?same_c1; auto using inverse_r, inverse_c.
Qed.

Lemma C06_rigid_inverse : C06_rigid_inverse_stmt.
Proof.
  intros k r t Ho. table; rewrite ?same_r2, ?same_c2; auto using rigid_r, rigid_c.
Qed.

Lemma C06_affine_inverse : C06_affine_inverse_stmt.
Proof.
  intros k r s t Ho He H0 H1 H2. table; rewrite ?same_r3, ?same_c3; auto using affine_r, affine_c.
Qed.

Lemma C06_fast_agrees_general : C06_fast_agrees_general_stmt.
Proof.
  intros k l pfast pgen a Hin (s1 & Hr & Hl & Hinv).
  assert (Hd : Rdet 4 (RabsL l 4 (tab 16 a 0)) <> 0) by (eapply C06_invertible_det; exact Hinv).
  assert (Hg : inverts l pgen k a).
  { simpl in Hin. destruct Hin as [E|[E|[E|[E|[]]]]]; inversion E; subst; auto using inverse_r, inverse_c. }
  destruct Hg as (s2 & Hr2 & Hl2 & Hinv2).
  exists s1, s2. repeat split; auto.
  eapply C06_inverse_unique; eauto.
Qed.
