Require Import Reals List ZArith Lia Lra Psatz.
From VekLib Require Import Ops ROps LinAlg RLin.
From VekGen Require Import C15_gen.
From VekProofs Require Import C15_spec C15_pa.
Import ListNotations.
Local Open Scope R_scope.

(** triangle inequality for the Euclidean norm in dimension 2 and 3 *)
Lemma tri2 a b c e : sqrt ((a + c) * (a + c) + (b + e) * (b + e)) <= sqrt (a * a + b * b) + sqrt (c * c + e * e).
Proof.
  assert (H1 : 0 <= a * a + b * b) by nra. assert (H2 : 0 <= c * c + e * e) by nra.
  pose proof (sqrt_pos (a * a + b * b)) as P1. pose proof (sqrt_pos (c * c + e * e)) as P2.
  apply Rsqr_incr_0_var; [ | lra ]. unfold Rsqr.
  rewrite sqrt_sqrt by (pose proof (Rle_0_sqr (a + c)); pose proof (Rle_0_sqr (b + e)); unfold Rsqr in *; lra).
  assert (CS : a * c + b * e <= sqrt (a * a + b * b) * sqrt (c * c + e * e)).
  { destruct (Rle_lt_dec (a * c + b * e) 0) as [Hn|Hp]; [ apply Rle_trans with 0; [ exact Hn | apply Rmult_le_pos; assumption ] | ].
    rewrite <- sqrt_mult by assumption. apply Rsqr_incr_0_var; [ | apply sqrt_pos ]. unfold Rsqr. rewrite sqrt_sqrt by (apply Rmult_le_pos; assumption).
    pose proof (Rle_0_sqr (a * e - b * c)) as S1. unfold Rsqr in *.
    assert (E : (a * a + b * b) * (c * c + e * e) - (a * c + b * e) * (a * c + b * e) = (a * e - b * c) * (a * e - b * c)) by ring. lra. }
  pose proof (sqrt_sqrt _ H1). pose proof (sqrt_sqrt _ H2). nra.
Qed.
Lemma tri3 a b c x y z :
  sqrt ((a + x) * (a + x) + (b + y) * (b + y) + (c + z) * (c + z)) <= sqrt (a * a + b * b + c * c) + sqrt (x * x + y * y + z * z).
Proof.
  assert (H1 : 0 <= a * a + b * b + c * c) by nra. assert (H2 : 0 <= x * x + y * y + z * z) by nra.
  pose proof (sqrt_pos (a * a + b * b + c * c)) as P1. pose proof (sqrt_pos (x * x + y * y + z * z)) as P2.
  apply Rsqr_incr_0_var; [ | lra ]. unfold Rsqr.
  rewrite sqrt_sqrt by (pose proof (Rle_0_sqr (a + x)); pose proof (Rle_0_sqr (b + y)); pose proof (Rle_0_sqr (c + z)); unfold Rsqr in *; lra).
  assert (CS : a * x + b * y + c * z <= sqrt (a * a + b * b + c * c) * sqrt (x * x + y * y + z * z)).
  { destruct (Rle_lt_dec (a * x + b * y + c * z) 0) as [Hn|Hp]; [ apply Rle_trans with 0; [ exact Hn | apply Rmult_le_pos; assumption ] | ].
    rewrite <- sqrt_mult by assumption. apply Rsqr_incr_0_var; [ | apply sqrt_pos ]. unfold Rsqr. rewrite sqrt_sqrt by (apply Rmult_le_pos; assumption).
    pose proof (Rle_0_sqr (a * y - b * x)) as S1. pose proof (Rle_0_sqr (a * z - c * x)) as S2. pose proof (Rle_0_sqr (b * z - c * y)) as S3. unfold Rsqr in *.
    assert (E : (a * a + b * b + c * c) * (x * x + y * y + z * z) - (a * x + b * y + c * z) * (a * x + b * y + c * z)
                = (a * y - b * x) * (a * y - b * x) + (a * z - c * x) * (a * z - c * x) + (b * z - c * y) * (b * z - c * y)) by ring.
    lra. }
  pose proof (sqrt_sqrt _ H1). pose proof (sqrt_sqrt _ H2). nra.
Qed.

Lemma seg_tri d f r s t : (d = 2 \/ d = 3)%nat -> seglen d f r t <= seglen d f r s + seglen d f s t.
Proof.
  intros [-> | ->]; unfold seglen; cbn [seq map fold_right].
  - replace (f t 0%nat - f r 0%nat) with ((f s 0%nat - f r 0%nat) + (f t 0%nat - f s 0%nat)) by ring.
    replace (f t 1%nat - f r 1%nat) with ((f s 1%nat - f r 1%nat) + (f t 1%nat - f s 1%nat)) by ring.
    rewrite !Rplus_0_r. apply tri2.
  - replace (f t 0%nat - f r 0%nat) with ((f s 0%nat - f r 0%nat) + (f t 0%nat - f s 0%nat)) by ring.
    replace (f t 1%nat - f r 1%nat) with ((f s 1%nat - f r 1%nat) + (f t 1%nat - f s 1%nat)) by ring.
    replace (f t 2%nat - f r 2%nat) with ((f s 2%nat - f r 2%nat) + (f t 2%nat - f s 2%nat)) by ring.
    rewrite !Rplus_0_r. rewrite <- !Rplus_assoc. apply tri3.
Qed.

(** sums over consecutive nodes x_0 .. x_m of a partition *)
Definition chain (d : nat) (f : R -> nat -> R) (x : nat -> R) (m : nat) : R :=
  fold_left (fun acc i => acc + seglen d f (x i) (x (S i))) (seq 0 m) 0.
Lemma chain_S d f x m : chain d f x (S m) = chain d f x m + seglen d f (x m) (x (S m)).
Proof. unfold chain. rewrite seq_S, fold_left_app. reflexivity. Qed.
Lemma chain_chord d f x m : (d = 2 \/ d = 3)%nat -> seglen d f (x 0%nat) (x m) <= chain d f x m.
Proof.
  intros Hd. induction m as [|m IH].
  - unfold chain, seglen; cbn [seq fold_left]. replace (fold_right _ _ _) with 0.
    + rewrite sqrt_0. lra.
    + destruct Hd as [-> | ->]; cbn [seq map fold_right]; ring.
  - rewrite chain_S. eapply Rle_trans; [ apply (seg_tri d f (x 0%nat) (x m) (x (S m)) Hd) | lra ].
Qed.
(** refining every interval by one inner node does not decrease the sum *)
Lemma chain_refine d f x y m : (d = 2 \/ d = 3)%nat -> (forall i, y (2 * i)%nat = x i) -> chain d f x m <= chain d f y (2 * m).
Proof.
  intros Hd Hy. induction m as [|m IH]; [ unfold chain; cbn; lra | ].
  rewrite chain_S. replace (2 * S m)%nat with (S (S (2 * m))) by lia. rewrite !chain_S.
  pose proof (seg_tri d f (y (2 * m)%nat) (y (S (2 * m))) (y (S (S (2 * m)))) Hd) as T.
  rewrite <- (Hy m). replace (x (S m)) with (y (S (S (2 * m)))) by (rewrite <- Hy; f_equal; lia). lra.
Qed.

Lemma polylen_chain d f n : polylen d f n = chain d f (fun i => INR i / INR (S n)) (S n).
Proof. reflexivity. Qed.

Lemma C15_length_model : C15_length_model_stmt.
Proof.
  intros d f Hd n. rewrite !polylen_chain. split.
  - pose proof (chain_chord d f (fun i => INR i / INR (S n)) (S n) Hd) as H. cbv beta in H.
    replace (INR 0 / INR (S n)) with 0 in H by (cbn [INR]; unfold Rdiv; ring).
    replace (INR (S n) / INR (S n)) with 1 in H by (field; apply not_0_INR; lia). exact H.
  - replace (S (2 * n + 1)) with (2 * S n)%nat by lia.
    apply chain_refine; [ exact Hd | ]. intros i. rewrite mult_INR. replace (INR 2) with 2 by (cbn; ring).
    rewrite (mult_INR 2 (S n)). replace (INR 2) with 2 by (cbn; ring). field. apply not_0_INR; lia.
Qed.
