Require Import Reals List ZArith Lra Lia.
From VekLib Require Import Ops ROps LinAlg RLin.
From VekGen Require Import C13_gen.
From VekProofs Require Import C13_spec C13_tac.
Import ListNotations.
Local Open Scope R_scope.
Lemma pred3 : S_predicates 3 p_aabb_is_valid p_aabb_contains_point p_aabb_contains_aab p_aabb_collides_with_aab.
Proof. prove_predicates 3%nat. Qed.
