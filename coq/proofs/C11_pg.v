Require Import Reals List ZArith Lra Lia.
From VekLib Require Import Ops ROps LinAlg RLin RSum.
From VekGen Require Import C11_gen.
From VekProofs Require Import C11_spec.
Import ListNotations.
Local Open Scope R_scope.
Lemma C11_slerp_clamped : C11_slerp_clamped_stmt.
Proof.
  intros k a.
  assert (Hc : Rmin (Rmax (a 6%nat) 0) 1 = (if Rlt_dec (a 6%nat) 0 then 0 else if Rlt_dec 1 (a 6%nat) then 1 else a 6%nat)).
  { unfold Rmin, Rmax. destruct (Rlt_dec (a 6%nat) 0); destruct (Rlt_dec 1 (a 6%nat)); repeat destruct (Rle_dec _ _); lra. }
  rewrite Hc. clear Hc. rrun_unfold. cbv [upd Nat.eqb].
  destruct (Rlt_dec (a 6%nat) 0) as [H0|H0]; [ | destruct (Rlt_dec 1 (a 6%nat)) as [H1|H1] ];
    split_conds; first [ reflexivity | (exfalso; lra) ].
Qed.
