Require Import Reals List ZArith Lra Lia.
From VekLib Require Import Ops ROps LinAlg RLin.
From VekGen Require Import C13_gen.
From VekProofs Require Import C13_spec C13_tac.
Import ListNotations.
Local Open Scope R_scope.
Lemma proj3 : S_projection 3 p_aabb_projected_point p_aabb_distance_to_point.
Proof.
  intros k a; cbv zeta; split; [ | split ].
  - intros HvA; unfold returns; rrun_unfold; split_conds;
    try (exfalso; unf; inst_all; box_unfold; lra);
    eexists; (split; [ reflexivity | split; [ reflexivity | ] ]);
    (split;
    [ unf; inst_all; cases_i; box_unfold; lra
    | intros q Hq; unf; inst_all; box_unfold; repeat (apply Rplus_le_compat; [ axis_le | ]); lra ]).
  - intros Hnv; rrun_unfold; split_conds; try reflexivity; exfalso; apply Hnv; unf; cases_i; box_unfold; lra.
  - intros HvA; rrun_unfold; split_conds; try (exfalso; unf; inst_all; box_unfold; lra);
    do 2 eexists; (split; [ reflexivity | split; [ reflexivity | box_unfold; f_equal; ring ] ]).
Qed.
Lemma colv3 : S_collision_vector 3 p_aabb_collision_vector_with_aab. Proof. prove_colvec 3%nat. Qed.
Lemma splx3 : S_split 3 0 p_aabb_split_at_x.
Proof.
  intros k a; cbv zeta; split.
  - intros Hr; revert Hr; unfold lo, hi, off; cbv [Nat.add Nat.mul]; intros [Hr1 Hr2];
    rrun_unfold; split_conds; try (exfalso; lra);
    eexists; (split; [ reflexivity | split; [ reflexivity | ] ]); cbv zeta; (split; [ | split; box_unfold; reflexivity ]);
    intros q; (split;
    [ intros Hq; destruct (Rle_dec (q 0%nat) (a 6%nat)); [ left | right ]; unf; inst_all; cases_i; box_unfold; lra
    | intros [Hq|Hq]; unf; inst_all; cases_i; box_unfold; lra ]).
  - intros Hn; rrun_unfold; split_conds; try reflexivity; exfalso; apply Hn; unfold lo, hi, off; cbv [Nat.add Nat.mul]; lra.
Qed.
Lemma sply3 : S_split 3 1 p_aabb_split_at_y.
Proof.
  intros k a; cbv zeta; split.
  - intros Hr; revert Hr; unfold lo, hi, off; cbv [Nat.add Nat.mul]; intros [Hr1 Hr2];
    rrun_unfold; split_conds; try (exfalso; lra);
    eexists; (split; [ reflexivity | split; [ reflexivity | ] ]); cbv zeta; (split; [ | split; box_unfold; reflexivity ]);
    intros q; (split;
    [ intros Hq; destruct (Rle_dec (q 1%nat) (a 6%nat)); [ left | right ]; unf; inst_all; cases_i; box_unfold; lra
    | intros [Hq|Hq]; unf; inst_all; cases_i; box_unfold; lra ]).
  - intros Hn; rrun_unfold; split_conds; try reflexivity; exfalso; apply Hn; unfold lo, hi, off; cbv [Nat.add Nat.mul]; lra.
Qed.
Lemma splz3 : S_split 3 2 p_aabb_split_at_z.
Proof.
  intros k a; cbv zeta; split.
  - intros Hr; revert Hr; unfold lo, hi, off; cbv [Nat.add Nat.mul]; intros [Hr1 Hr2];
    rrun_unfold; split_conds; try (exfalso; lra);
    eexists; (split; [ reflexivity | split; [ reflexivity | ] ]); cbv zeta; (split; [ | split; box_unfold; reflexivity ]);
    intros q; (split;
    [ intros Hq; destruct (Rle_dec (q 2%nat) (a 6%nat)); [ left | right ]; unf; inst_all; cases_i; box_unfold; lra
    | intros [Hq|Hq]; unf; inst_all; cases_i; box_unfold; lra ]).
  - intros Hn; rrun_unfold; split_conds; try reflexivity; exfalso; apply Hn; unfold lo, hi, off; cbv [Nat.add Nat.mul]; lra.
Qed.
