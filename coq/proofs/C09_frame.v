Require Import Reals List ZArith Lra Lia Nsatz.
From VekLib Require Import Ops ROps LinAlg RLin.
From VekGen Require Import C09_gen.
From VekProofs Require Import C09_spec C09_proofs.
Import ListNotations.
Local Open Scope R_scope.

Definition frame_concl (V M : nat -> nat -> R) (e t up : nat -> R) (zt : R) : Prop :=
  rigid V /\ veq 4 (Rmv 4 V (pt e 1)) (vec_of [0; 0; 0; 1]) /\ veq 4 (Rmv 4 V (pt t 1)) (vec_of [0; 0; zt; 1]) /\
  Rmv 4 V (pt up 0) 0%nat = 0 /\ 0 < Rmv 4 V (pt up 0) 1%nat /\
  meq 4 (Rmm 4 M V) Rident /\ meq 4 (Rmm 4 V M) Rident /\ veq 4 (Rmv 4 M (vec_of [0; 0; 0; 1])) (pt e 1).

Ltac inst3 H := pose proof (H 0%nat ltac:(lia)); pose proof (H 1%nat ltac:(lia)); pose proof (H 2%nat ltac:(lia)); clear H.

Lemma frame_lh (e t f s up : nat -> R) (r1 r2 : R) :
  dot3 f f = 1 -> dot3 s s = 1 -> dot3 s f = 0 -> 0 < r1 -> 0 < r2 ->
  (forall i, (i < 3)%nat -> cross up f i = r2 * s i) ->
  (forall i, (i < 3)%nat -> t i = e i + r1 * f i) ->
  frame_concl (view_mat s (cross f s) f e) (model_mat s (cross f s) f e) e t up r1.
Proof.
  intros Hf Hs Hsf Hr1 Hr2 Hc Ht. inst3 Hc. inst3 Ht.
  unfold frame_concl.
  repeat match goal with H : _ = _ |- _ => revert H end. c09_unfold. intros.
  repeat split; try meq_cases; try veq_cases; c09_unfold; try (clear_noneq; nsatz).
  match goal with |- 0 < ?x => replace x with r2 by (clear_noneq; nsatz); assumption end.
Qed.

Lemma frame_rh (e t f s up : nat -> R) (r1 r2 : R) :
  dot3 f f = 1 -> dot3 s s = 1 -> dot3 s f = 0 -> 0 < r1 -> 0 < r2 ->
  (forall i, (i < 3)%nat -> cross f up i = r2 * s i) ->
  (forall i, (i < 3)%nat -> t i = e i + r1 * f i) ->
  frame_concl (view_mat s (cross s f) (neg3 f) e) (model_mat s (cross s f) (neg3 f) e) e t up (- r1).
Proof.
  intros Hf Hs Hsf Hr1 Hr2 Hc Ht. inst3 Hc. inst3 Ht.
  unfold frame_concl.
  repeat match goal with H : _ = _ |- _ => revert H end. c09_unfold. intros.
  repeat split; try meq_cases; try veq_cases; c09_unfold; try (clear_noneq; nsatz).
  match goal with |- 0 < ?x => replace x with r2 by (clear_noneq; nsatz); assumption end.
Qed.
