(** * C10 — statements: viewport projection, unprojection and the picking matrix are consistent.
    Carrier: the real numbers. Inputs of the (un)projection: point (3), model-view (16), projection (16),
    viewport x, y, w, h (4). *)
Require Import Reals List ZArith Lia.
From VekLib Require Import Ops ROps LinAlg RLin.
From VekGen Require Import C10_gen.
Import ListNotations.
Local Open Scope R_scope.

Definition aL := @absL R 0.
Definition vec_of (l : list R) : nat -> R := fun i => nth i l 0.
Definition off (a : nat -> R) (o : nat) : nat -> R := fun i => a (o + i)%nat.
Definition pt (p : nat -> R) (w : R) : nat -> R := fun i => match i with 3%nat => w | _ => p i end.

(** perspective-divided clip position mapped to the viewport rectangle
    ([no]: depth mapped from [-1,1] to [0,1]; zero-to-one flavour: depth unchanged) *)
Definition clip_of (MV P : nat -> nat -> R) (obj : nat -> R) : nat -> R := Rmv 4 P (Rmv 4 MV (pt obj 1)).
Definition project_spec (no : bool) (MV P : nat -> nat -> R) (vp obj : nat -> R) : nat -> R :=
  let c := clip_of MV P obj in
  let ndc := fun i => c i / c 3%nat in
  vec_of [ (ndc 0%nat / 2 + 1 / 2) * vp 2%nat + vp 0%nat;
           (ndc 1%nat / 2 + 1 / 2) * vp 3%nat + vp 1%nat;
           if no then ndc 2%nat / 2 + 1 / 2 else ndc 2%nat ].
Definition is_project (l : layout) (no : bool) (p : prog) : Prop :=
  forall k a, exists s, rrun k a p = Ret ([], s) /\ length s = 3%nat /\
    veq 3 (Rvec s) (project_spec no (aL l 4 (tab 16 a 3)) (aL l 4 (tab 16 a 19)) (off a 35) (off a 0)).
Definition C10_project_stmt : Prop :=
  Forall (fun '(l, no, p) => is_project l no p)
    [ (Lr, true, p_mat4r_world_to_viewport_no); (Lr, false, p_mat4r_world_to_viewport_zo);
      (Lc, true, p_mat4c_world_to_viewport_no); (Lc, false, p_mat4c_world_to_viewport_zo) ].

(** unprojection: window -> normalised device coordinates, multiply by the inverse of proj * modelview, divide *)
Definition unproject_spec (no : bool) (Inv : nat -> nat -> R) (vp ray : nat -> R) : nat -> R :=
  let t := vec_of [ (ray 0%nat - vp 0%nat) / vp 2%nat * 2 - 1; (ray 1%nat - vp 1%nat) / vp 3%nat * 2 - 1;
                    if no then ray 2%nat * 2 - 1 else ray 2%nat; 1 ] in
  let o := Rmv 4 Inv t in fun i => o i / o 3%nat.
Definition two_sided_inverse (M X : nat -> nat -> R) : Prop :=
  meq 4 (Rmm 4 M X) Rident /\ meq 4 (Rmm 4 X M) Rident.

(** ** unprojecting the projection returns the original point (through the real code of both functions) *)
Definition roundtrip (l : layout) (no : bool) (pproj punproj : prog) : Prop :=
  forall k a,
    let MV := aL l 4 (tab 16 a 3) in let P := aL l 4 (tab 16 a 19) in
    Rdet 4 (Rmm 4 P MV) <> 0 -> a 37%nat <> 0 -> a 38%nat <> 0 -> clip_of MV P (off a 0) 3%nat <> 0 ->
    exists s1 s2, rrun k a pproj = Ret ([], s1) /\
      rrun k (env_of (s1 ++ tab 36 a 3)) punproj = Ret ([], s2) /\ length s2 = 3%nat /\
      veq 3 (Rvec s2) (off a 0).
Definition C10_roundtrip_stmt : Prop :=
  Forall (fun '(l, no, pp, pu) => roundtrip l no pp pu)
    [ (Lr, true, p_mat4r_world_to_viewport_no, p_mat4r_viewport_to_world_no);
      (Lr, false, p_mat4r_world_to_viewport_zo, p_mat4r_viewport_to_world_zo);
      (Lc, true, p_mat4c_world_to_viewport_no, p_mat4c_viewport_to_world_no);
      (Lc, false, p_mat4c_world_to_viewport_zo, p_mat4c_viewport_to_world_zo) ].

(** ** picking matrix: the window rectangle centre +- size/2, expressed in clip coordinates, goes onto the clip square.
    Inputs: centre (2), size (2), viewport (4). Panics exactly when a size component is not positive. *)
Definition win_to_clip (vp0 vp2 xw : R) : R := (xw - vp0) / vp2 * 2 - 1.
Definition is_picking (l : layout) (p : prog) : Prop :=
  forall k a,
    (0 < a 2%nat -> 0 < a 3%nat -> a 6%nat <> 0 -> a 7%nat <> 0 ->
     exists s, rrun k a p = Ret ([], s) /\ length s = 16%nat /\
       forall (sx sy : bool) (z : R),
         let xw := a 0%nat + (if sx then 1 else -1) * a 2%nat / 2 in
         let yw := a 1%nat + (if sy then 1 else -1) * a 3%nat / 2 in
         veq 4 (Rmv 4 (aL l 4 s) (vec_of [win_to_clip (a 4%nat) (a 6%nat) xw; win_to_clip (a 5%nat) (a 7%nat) yw; z; 1]))
               (vec_of [if sx then 1 else -1; if sy then 1 else -1; z; 1])) /\
    (~ (0 < a 2%nat /\ 0 < a 3%nat) -> rrun k a p = Panic).
Definition C10_picking_stmt : Prop := is_picking Lr p_mat4r_picking_region /\ is_picking Lc p_mat4c_picking_region.
