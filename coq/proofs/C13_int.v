(** * C13, integer element types: centre and half size divide by two with the machine integer's
    truncating division. For every width and both overflow modes, as long as the sums/differences of the
    corners are representable, the results are the truncated halves, per axis. *)
Require Import ZArith List Lia Bool.
From VekLib Require Import Ops MachineInt.
From VekGen Require Import C13_gen.
Import ListNotations.
Local Open Scope Z_scope.

Definition q2 (x : Z) : Z := Z.quot x 2.
Definition ok2 (s : isem) : Prop := imin s <= 0 /\ 2 <= imax s.
Definition C13_int_stmt : Prop :=
  forall s (a : nat -> Z), ok2 s ->
    (* boxes: min at 0.., max after it; d = dimension *)
    (forall d p, In (d, p) [ (2%nat, p_s_aabr_center); (2%nat, p_u_aabr_center); (3%nat, p_s_aabb_center); (3%nat, p_u_aabb_center) ] ->
       (forall i, (i < d)%nat -> in_range s (a i + a (d + i)%nat)) ->
       irun s a p = Ret ([], map (fun i => q2 (a i + a (d + i)%nat)) (seq 0 d))) /\
    (forall d p, In (d, p) [ (2%nat, p_s_aabr_half_size); (2%nat, p_u_aabr_half_size); (3%nat, p_s_aabb_half_size); (3%nat, p_u_aabb_half_size) ] ->
       (forall i, (i < d)%nat -> in_range s (a (d + i)%nat - a i)) ->
       irun s a p = Ret ([], map (fun i => q2 (a (d + i)%nat - a i)) (seq 0 d))) /\
    (* rectangles: position then extent; centre of [x, x+w] *)
    (forall d p, In (d, p) [ (2%nat, p_s_rect_center); (3%nat, p_s_rect3_center) ] ->
       (forall i, (i < d)%nat -> in_range s (a i + a (d + i)%nat) /\ in_range s (a i + (a i + a (d + i)%nat))) ->
       irun s a p = Ret ([], map (fun i => q2 (a i + (a i + a (d + i)%nat))) (seq 0 d))).

Lemma norm_in s x : in_range s x -> norm s x = Some x.
Proof. unfold norm, in_rangeb, in_range. intros [H1 H2]. apply Z.leb_le in H1. apply Z.leb_le in H2. rewrite H1, H2. reflexivity. Qed.
Lemma div2 s x : ok2 s -> ibin s ODiv x 2 = Some (q2 x).
Proof.
  intros [H1 H2]. unfold ibin. replace (2 =? 0) with false by reflexivity. replace (2 =? -1) with false by reflexivity.
  rewrite !andb_false_r. reflexivity.
Qed.

Ltac cases_in H := repeat (destruct H as [H|H]; [ injection H as <- <- | ]); try contradiction.
Ltac step_nodes Hok :=
  repeat first [ rewrite norm_in by assumption | rewrite (norm_in _ (1 + 1)) by (destruct Hok; unfold in_range; lia)
               | progress cbv beta iota delta [nth app all_some map iatom inode ibin inodes itree irun p_nodes p_tree Pos.eqb seq Nat.add] ].

Lemma C13_int : C13_int_stmt.
Proof.
  intros s a Hok. pose proof Hok as [Hmin Hmax].
  assert (H2 : norm s (1 + 1) = Some 2) by (apply norm_in; unfold in_range; lia).
  split; [ | split ]; intros d p Hin Hr; cases_in Hin;
    repeat match goal with H : forall i, (i < _)%nat -> _ |- _ =>
      first [ pose proof (H 0%nat ltac:(lia)) as ?H0; pose proof (H 1%nat ltac:(lia)) as ?H1; try (pose proof (H 2%nat ltac:(lia)) as ?H2'); clear H ] end;
    repeat match goal with H : _ /\ _ |- _ => destruct H end;
    cbn [Nat.add] in *;
    cbv beta iota delta [irun inodes inode iatom p_nodes p_tree nth app Pos.eqb
      p_s_aabr_center p_u_aabr_center p_s_aabb_center p_u_aabb_center p_s_aabr_half_size p_u_aabr_half_size
      p_s_aabb_half_size p_u_aabb_half_size p_s_rect_center p_s_rect3_center];
    unfold ibin at 1; repeat (rewrite ?norm_in by assumption; rewrite ?H2; cbv beta iota delta [nth app]; unfold ibin at 1);
    rewrite ?norm_in by assumption; rewrite ?H2;
    cbv beta iota delta [nth app]; unfold ibin; change (2 =? 0) with false; change (2 =? -1) with false; rewrite ?andb_false_r; cbn [orb];
    cbv beta iota delta [nth app itree map iatom all_some seq Nat.add q2]; reflexivity.
Qed.
