Require Import Reals List ZArith Lia Lra Psatz.
From Coquelicot Require Import Coquelicot.
From VekLib Require Import Ops ROps LinAlg RLin.
From VekGen Require Import C15_gen.
From VekProofs Require Import C15_spec C15_pa C15_math.
Import ListNotations.
Local Open Scope R_scope.
Ltac c_unfold := cbv [bern bern' pts ca cb cc cdisc cd cj Nat.mul Nat.add unit clean cclean] in *.

Lemma bern3_derive P j x : is_derive (fun u => bern 3 P u j) x (bern' 3 P x j).
Proof. unfold bern, bern'. auto_derive; [ exact I | ring ]. Qed.

(** the x axis of the 2D cubic; the other axes are the same program on re-indexed inputs (C15_pd) *)
Lemma cubic_min_x : forall k a, 0 < k Neps ->
    (exists t, rrun k a p_cubic2_min_x = Ret ([], [t]) /\ unit t /\
       (cclean (k Neps) (pts 2 a) 0 -> forall u, unit u -> bern 3 (pts 2 a) t 0 <= bern 3 (pts 2 a) u 0)).
Proof.
  intros k a He; cbv zeta. rrun_unfold.
  set (p0 := a 0%nat) in *; set (p1 := a 2%nat) in *; set (p2 := a 4%nat) in *; set (p3 := a 6%nat) in *.
  set (A := (1 + 1 + 1) * (p3 - (1 + 1 + 1) * p2 + (1 + 1 + 1) * p1 - p0)) in *.
  set (B := (1 + 1 + 1 + (1 + 1 + 1)) * (p2 - (1 + 1) * p1 + p0)) in *.
  set (Cq := (1 + 1 + 1) * (p1 - p0)) in *.
  set (Dq := B * B - (1 + 1 + 1 + 1) * A * Cq) in *.
  set (sq := sqrt Dq) in *.
  set (t1 := (- B - sq) / (A + A)) in *. set (t2 := (- B + sq) / (A + A)) in *.
  set (td := - B / (A + A)) in *. set (tl := - Cq / B) in *.
  (* the spec's coefficients are these *)
  assert (EA : ca (pts 2 a) 0 = A) by (c_unfold; unfold A, p0, p1, p2, p3; ring).
  assert (EB : cb (pts 2 a) 0 = B) by (c_unfold; unfold B, p0, p1, p2, p3; ring).
  assert (EC : cc (pts 2 a) 0 = Cq) by (c_unfold; unfold Cq, p0, p1, p2, p3; ring).
  assert (ED : cdisc (pts 2 a) 0 = Dq) by (unfold cdisc; rewrite EA, EB, EC; unfold Dq; ring).
  assert (Ef : forall u, bern 3 (pts 2 a) u 0 = p0 * (1 - u) * (1 - u) * (1 - u) + p1 * 3 * (1 - u) * (1 - u) * u + p2 * 3 * (1 - u) * u * u + p3 * u * u * u) by (intros; c_unfold; reflexivity).
  assert (Ef' : forall u, bern' 3 (pts 2 a) u 0 = A * u * u + B * u + Cq) by (intros; c_unfold; unfold A, B, Cq, p0, p1, p2, p3; ring).
  assert (Hsq0 : 0 <= sq) by apply sqrt_pos.
  assert (Hsq : 0 <= Dq -> sq * sq = Dq) by (intros; apply sqrt_sqrt; assumption).
  assert (Ht1 : A <> 0 -> (A + A) * t1 = - B - sq) by (intros; unfold t1; field; lra).
  assert (Ht2 : A <> 0 -> (A + A) * t2 = - B + sq) by (intros; unfold t2; field; lra).
  assert (Htd : A <> 0 -> (A + A) * td = - B) by (intros; unfold td; field; lra).
  assert (Htl : B <> 0 -> B * tl = - Cq) by (intros; unfold tl; field; lra).
  assert (HA3 : A = 3 * (p3 - 3 * p2 + 3 * p1 - p0)) by (unfold A; ring).
  assert (HB3 : B = 6 * (p2 - 2 * p1 + p0)) by (unfold B; ring).
  assert (HC3 : Cq = 3 * (p1 - p0)) by (unfold Cq; ring).
  assert (HD3 : Dq = B * B - 4 * A * Cq) by (unfold Dq; ring).
  (split_conds; eexists; (split; [ reflexivity | ]);
  (split; [ unfold unit; try lra | ]);
  intros [HcA [HcB [HcC HcD]]] u Hu; rewrite ?EA, ?EB, ?EC, ?ED in *;
  (apply (min_principle (fun u => bern 3 (pts 2 a) u 0) (fun u => bern' 3 (pts 2 a) u 0) (bern3_derive _ _)); [ | | | exact Hu ]);
  try (intros m [Hm0 Hm1] Hz; rewrite Ef' in Hz);
  rewrite ?Ef;
  try match goal with H : _ < Rabs A |- _ => assert (HAn : A <> 0) by (intro HA0; rewrite HA0, Rabs_R0 in H; lra) end;
  try match goal with H : ~ _ < Rabs A |- _ => assert (HA0 : A = 0) by (destruct HcA as [?|Hx]; [assumption | contradiction]) end;
  try match goal with H : _ < Rabs B |- _ => assert (HBn : B <> 0) by (intro HB0; rewrite HB0, Rabs_R0 in H; lra) end;
  try match goal with H : ~ _ < Rabs B |- _ => assert (HB0 : B = 0) by (destruct HcB as [?|Hx]; [assumption | contradiction]) end;
  try match goal with H : _ < Rabs Cq |- _ => assert (HCn : Cq <> 0) by (intro HC0; rewrite HC0, Rabs_R0 in H; lra) end;
  try match goal with H : ~ _ < Rabs Cq |- _ => assert (HC0 : Cq = 0) by (destruct HcC as [?|Hx]; [assumption | contradiction]) end;
  try match goal with H : ~ _ < Rabs Dq, H' : ~ Dq < 0 |- _ => assert (HD0 : Dq = 0) by (destruct HcD as [?|Hx]; [assumption | contradiction]) end;
  try match goal with H : _ < Rabs Dq, H' : ~ Dq < 0 |- _ => assert (HDp : 0 < Dq) by (unfold Rabs in H; destruct (Rcase_abs Dq); lra) end;
  try match goal with
    | Hz : A * ?m * ?m + B * ?m + Cq = 0, HAn : A <> 0, Hneg : Dq < 0 |- _ => exfalso; apply (root_none A B Cq m HAn); [ lra | exact Hz ]
    | Hz : A * ?m * ?m + B * ?m + Cq = 0, HAn : A <> 0, HD0 : Dq = 0 |- _ =>
        let Hm := fresh "Hm" in pose proof (root_double A B Cq m HAn ltac:(lra) Hz) as Hm; change (- B / (A + A)) with td in Hm; subst m
    | Hz : A * ?m * ?m + B * ?m + Cq = 0, HAn : A <> 0, HDp : 0 < Dq |- _ =>
        let Hm := fresh "Hm" in destruct (root_two A B Cq sq m HAn Hsq0 ltac:(rewrite Hsq; lra) Hz) as [Hm|Hm];
        [ change ((- B - sq) / (A + A)) with t1 in Hm | change ((- B + sq) / (A + A)) with t2 in Hm ]; subst m
    | Hz : A * ?m * ?m + B * ?m + Cq = 0, HA0 : A = 0, HBn : B <> 0 |- _ =>
        let Hm := fresh "Hm" in assert (Hm : m = - Cq / B) by (apply root_linear; [ exact HBn | rewrite HA0 in Hz; lra ]); change (- Cq / B) with tl in Hm; subst m
    | Hz : A * ?m * ?m + B * ?m + Cq = 0, HA0 : A = 0, HB0 : B = 0, HCn : Cq <> 0 |- _ => exfalso; rewrite HA0, HB0 in Hz; lra
    end;
  try (specialize (Ht1 HAn); specialize (Ht2 HAn); specialize (Htd HAn));
  try (specialize (Htl HBn));
  try (specialize (Hsq ltac:(lra)));
  clear Ef Ef' EA EB EC ED HcA HcB HcC HcD;
  repeat match goal with H : _ < Rabs _ |- _ => clear H | H : ~ _ < Rabs _ |- _ => clear H end;
  clearbody t1 t2 td tl sq; clearbody Dq; clearbody A B Cq; clearbody p0 p1 p2 p3;
  unfold unit in *;
  try lra; try (timeout 20 nra)).
Qed.

Lemma cubic_max_x : forall k a, 0 < k Neps ->
    (exists t, rrun k a p_cubic2_max_x = Ret ([], [t]) /\ unit t /\
       (cclean (k Neps) (pts 2 a) 0 -> forall u, unit u -> bern 3 (pts 2 a) u 0 <= bern 3 (pts 2 a) t 0)).
Proof.
  intros k a He; cbv zeta. rrun_unfold.
  set (p0 := a 0%nat) in *; set (p1 := a 2%nat) in *; set (p2 := a 4%nat) in *; set (p3 := a 6%nat) in *.
  set (A := (1 + 1 + 1) * (p3 - (1 + 1 + 1) * p2 + (1 + 1 + 1) * p1 - p0)) in *.
  set (B := (1 + 1 + 1 + (1 + 1 + 1)) * (p2 - (1 + 1) * p1 + p0)) in *.
  set (Cq := (1 + 1 + 1) * (p1 - p0)) in *.
  set (Dq := B * B - (1 + 1 + 1 + 1) * A * Cq) in *.
  set (sq := sqrt Dq) in *.
  set (t1 := (- B - sq) / (A + A)) in *. set (t2 := (- B + sq) / (A + A)) in *.
  set (td := - B / (A + A)) in *. set (tl := - Cq / B) in *.
  (* the spec's coefficients are these *)
  assert (EA : ca (pts 2 a) 0 = A) by (c_unfold; unfold A, p0, p1, p2, p3; ring).
  assert (EB : cb (pts 2 a) 0 = B) by (c_unfold; unfold B, p0, p1, p2, p3; ring).
  assert (EC : cc (pts 2 a) 0 = Cq) by (c_unfold; unfold Cq, p0, p1, p2, p3; ring).
  assert (ED : cdisc (pts 2 a) 0 = Dq) by (unfold cdisc; rewrite EA, EB, EC; unfold Dq; ring).
  assert (Ef : forall u, bern 3 (pts 2 a) u 0 = p0 * (1 - u) * (1 - u) * (1 - u) + p1 * 3 * (1 - u) * (1 - u) * u + p2 * 3 * (1 - u) * u * u + p3 * u * u * u) by (intros; c_unfold; reflexivity).
  assert (Ef' : forall u, bern' 3 (pts 2 a) u 0 = A * u * u + B * u + Cq) by (intros; c_unfold; unfold A, B, Cq, p0, p1, p2, p3; ring).
  assert (Hsq0 : 0 <= sq) by apply sqrt_pos.
  assert (Hsq : 0 <= Dq -> sq * sq = Dq) by (intros; apply sqrt_sqrt; assumption).
  assert (Ht1 : A <> 0 -> (A + A) * t1 = - B - sq) by (intros; unfold t1; field; lra).
  assert (Ht2 : A <> 0 -> (A + A) * t2 = - B + sq) by (intros; unfold t2; field; lra).
  assert (Htd : A <> 0 -> (A + A) * td = - B) by (intros; unfold td; field; lra).
  assert (Htl : B <> 0 -> B * tl = - Cq) by (intros; unfold tl; field; lra).
  assert (HA3 : A = 3 * (p3 - 3 * p2 + 3 * p1 - p0)) by (unfold A; ring).
  assert (HB3 : B = 6 * (p2 - 2 * p1 + p0)) by (unfold B; ring).
  assert (HC3 : Cq = 3 * (p1 - p0)) by (unfold Cq; ring).
  assert (HD3 : Dq = B * B - 4 * A * Cq) by (unfold Dq; ring).
  (split_conds; eexists; (split; [ reflexivity | ]);
  (split; [ unfold unit; try lra | ]);
  intros [HcA [HcB [HcC HcD]]] u Hu; rewrite ?EA, ?EB, ?EC, ?ED in *;
  (apply (max_principle (fun u => bern 3 (pts 2 a) u 0) (fun u => bern' 3 (pts 2 a) u 0) (bern3_derive _ _)); [ | | | exact Hu ]);
  try (intros m [Hm0 Hm1] Hz; rewrite Ef' in Hz);
  rewrite ?Ef;
  try match goal with H : _ < Rabs A |- _ => assert (HAn : A <> 0) by (intro HA0; rewrite HA0, Rabs_R0 in H; lra) end;
  try match goal with H : ~ _ < Rabs A |- _ => assert (HA0 : A = 0) by (destruct HcA as [?|Hx]; [assumption | contradiction]) end;
  try match goal with H : _ < Rabs B |- _ => assert (HBn : B <> 0) by (intro HB0; rewrite HB0, Rabs_R0 in H; lra) end;
  try match goal with H : ~ _ < Rabs B |- _ => assert (HB0 : B = 0) by (destruct HcB as [?|Hx]; [assumption | contradiction]) end;
  try match goal with H : _ < Rabs Cq |- _ => assert (HCn : Cq <> 0) by (intro HC0; rewrite HC0, Rabs_R0 in H; lra) end;
  try match goal with H : ~ _ < Rabs Cq |- _ => assert (HC0 : Cq = 0) by (destruct HcC as [?|Hx]; [assumption | contradiction]) end;
  try match goal with H : ~ _ < Rabs Dq, H' : ~ Dq < 0 |- _ => assert (HD0 : Dq = 0) by (destruct HcD as [?|Hx]; [assumption | contradiction]) end;
  try match goal with H : _ < Rabs Dq, H' : ~ Dq < 0 |- _ => assert (HDp : 0 < Dq) by (unfold Rabs in H; destruct (Rcase_abs Dq); lra) end;
  try match goal with
    | Hz : A * ?m * ?m + B * ?m + Cq = 0, HAn : A <> 0, Hneg : Dq < 0 |- _ => exfalso; apply (root_none A B Cq m HAn); [ lra | exact Hz ]
    | Hz : A * ?m * ?m + B * ?m + Cq = 0, HAn : A <> 0, HD0 : Dq = 0 |- _ =>
        let Hm := fresh "Hm" in pose proof (root_double A B Cq m HAn ltac:(lra) Hz) as Hm; change (- B / (A + A)) with td in Hm; subst m
    | Hz : A * ?m * ?m + B * ?m + Cq = 0, HAn : A <> 0, HDp : 0 < Dq |- _ =>
        let Hm := fresh "Hm" in destruct (root_two A B Cq sq m HAn Hsq0 ltac:(rewrite Hsq; lra) Hz) as [Hm|Hm];
        [ change ((- B - sq) / (A + A)) with t1 in Hm | change ((- B + sq) / (A + A)) with t2 in Hm ]; subst m
    | Hz : A * ?m * ?m + B * ?m + Cq = 0, HA0 : A = 0, HBn : B <> 0 |- _ =>
        let Hm := fresh "Hm" in assert (Hm : m = - Cq / B) by (apply root_linear; [ exact HBn | rewrite HA0 in Hz; lra ]); change (- Cq / B) with tl in Hm; subst m
    | Hz : A * ?m * ?m + B * ?m + Cq = 0, HA0 : A = 0, HB0 : B = 0, HCn : Cq <> 0 |- _ => exfalso; rewrite HA0, HB0 in Hz; lra
    end;
  try (specialize (Ht1 HAn); specialize (Ht2 HAn); specialize (Htd HAn));
  try (specialize (Htl HBn));
  try (specialize (Hsq ltac:(lra)));
  clear Ef Ef' EA EB EC ED HcA HcB HcC HcD;
  repeat match goal with H : _ < Rabs _ |- _ => clear H | H : ~ _ < Rabs _ |- _ => clear H end;
  clearbody t1 t2 td tl sq; clearbody Dq; clearbody A B Cq; clearbody p0 p1 p2 p3;
  unfold unit in *;
  try lra; try (timeout 20 nra)).
Qed.

