(** * C09 — statements: view and change-of-basis matrices are rigid and place eye, target, axes right.
    Carrier: the real numbers. *)
Require Import Reals List ZArith Lia.
From VekLib Require Import Ops ROps LinAlg RLin.
From VekGen Require Import C09_gen.
Import ListNotations.
Local Open Scope R_scope.

Definition aL := @absL R 0.
Definition off (a : nat -> R) (o : nat) : nat -> R := fun i => a (o + i)%nat.
Definition mat_of (rows : list (list R)) : nat -> nat -> R := fun i j => nth j (nth i rows []) 0.
Definition vec_of (l : list R) : nat -> R := fun i => nth i l 0.

Definition dot3 (u v : nat -> R) : R := u 0%nat * v 0%nat + u 1%nat * v 1%nat + u 2%nat * v 2%nat.
Definition cross (u v : nat -> R) : nat -> R :=
  vec_of [u 1%nat * v 2%nat - u 2%nat * v 1%nat; u 2%nat * v 0%nat - u 0%nat * v 2%nat; u 0%nat * v 1%nat - u 1%nat * v 0%nat].
Definition sub3 (u v : nat -> R) : nat -> R := fun i => u i - v i.
Definition norm3 (v : nat -> R) : R := sqrt (dot3 v v).
Definition unit3 (v : nat -> R) : nat -> R := fun i => v i / norm3 v.
Definition pt (p : nat -> R) (w : R) : nat -> R := fun i => match i with 3%nat => w | _ => p i end.

(** the camera frame: forward, side, up (GLM construction) *)
Definition fwd (e t : nat -> R) := unit3 (sub3 t e).
Definition side_lh (e t up : nat -> R) := unit3 (cross up (fwd e t)).
Definition side_rh (e t up : nat -> R) := unit3 (cross (fwd e t) up).
Definition view_mat (s u w e : nat -> R) : nat -> nat -> R :=
  mat_of [[s 0%nat; s 1%nat; s 2%nat; - dot3 s e];
          [u 0%nat; u 1%nat; u 2%nat; - dot3 u e];
          [w 0%nat; w 1%nat; w 2%nat; - dot3 w e];
          [0; 0; 0; 1]].
Definition model_mat (s u w e : nat -> R) : nat -> nat -> R :=
  mat_of [[s 0%nat; u 0%nat; w 0%nat; e 0%nat];
          [s 1%nat; u 1%nat; w 1%nat; e 1%nat];
          [s 2%nat; u 2%nat; w 2%nat; e 2%nat];
          [0; 0; 0; 1]].
Definition neg3 (v : nat -> R) : nat -> R := fun i => - v i.
Definition look_at_lh_mat (e t up : nat -> R) :=
  let f := fwd e t in let s := side_lh e t up in view_mat s (cross f s) f e.
Definition look_at_rh_mat (e t up : nat -> R) :=
  let f := fwd e t in let s := side_rh e t up in view_mat s (cross s f) (neg3 f) e.
Definition model_lh_mat (e t up : nat -> R) :=
  let f := fwd e t in let s := side_lh e t up in model_mat s (cross f s) f e.
Definition model_rh_mat (e t up : nat -> R) :=
  let f := fwd e t in let s := side_rh e t up in model_mat s (cross s f) (neg3 f) e.

(** ** the constructors compute exactly these matrices (all inputs) *)
Definition is_view (l : layout) (M : (nat -> R) -> (nat -> R) -> (nat -> R) -> nat -> nat -> R) (p : prog) : Prop :=
  forall k a, exists s, rrun k a p = Ret ([], s) /\ length s = 16%nat /\
    meq 4 (aL l 4 s) (M (off a 0) (off a 3) (off a 6)).
Definition view_table :=
  [ (Lr, look_at_lh_mat, p_mat4r_look_at_lh); (Lr, look_at_rh_mat, p_mat4r_look_at_rh);
    (Lr, model_lh_mat, p_mat4r_model_look_at_lh); (Lr, model_rh_mat, p_mat4r_model_look_at_rh);
    (Lr, look_at_lh_mat, p_mat4r_look_at); (Lr, model_lh_mat, p_mat4r_model_look_at);
    (Lc, look_at_lh_mat, p_mat4c_look_at_lh); (Lc, look_at_rh_mat, p_mat4c_look_at_rh);
    (Lc, model_lh_mat, p_mat4c_model_look_at_lh); (Lc, model_rh_mat, p_mat4c_model_look_at_rh);
    (Lc, look_at_lh_mat, p_mat4c_look_at); (Lc, model_lh_mat, p_mat4c_model_look_at) ].
Definition C09_constructors_stmt : Prop := Forall (fun '(l, M, p) => is_view l M p) view_table.

(** ** ... and these matrices are what the property demands, for every non-degenerate eye/target/up *)
Definition nondegenerate (e t up : nat -> R) : Prop :=
  0 < dot3 (sub3 t e) (sub3 t e) /\ 0 < dot3 (cross up (sub3 t e)) (cross up (sub3 t e)).
Definition block3 (M : nat -> nat -> R) : nat -> nat -> R := M.
Definition rigid (M : nat -> nat -> R) : Prop :=
  meq 3 (Rmm 3 M (transp M)) Rident /\ meq 3 (Rmm 3 (transp M) M) Rident /\ Rdet 3 M = 1 /\
  M 3%nat 0%nat = 0 /\ M 3%nat 1%nat = 0 /\ M 3%nat 2%nat = 0 /\ M 3%nat 3%nat = 1.
Definition dist (e t : nat -> R) : R := norm3 (sub3 t e).
Definition C09_look_at_stmt : Prop :=
  forall e t up : nat -> R, nondegenerate e t up ->
    let Vl := look_at_lh_mat e t up in let Vr := look_at_rh_mat e t up in
    let Ml := model_lh_mat e t up in let Mr := model_rh_mat e t up in
    rigid Vl /\ rigid Vr /\
    (* eye -> origin *)
    veq 4 (Rmv 4 Vl (pt e 1)) (vec_of [0; 0; 0; 1]) /\ veq 4 (Rmv 4 Vr (pt e 1)) (vec_of [0; 0; 0; 1]) /\
    (* target -> forward axis (+z left-handed, -z right-handed) at the eye-target distance *)
    veq 4 (Rmv 4 Vl (pt t 1)) (vec_of [0; 0; dist e t; 1]) /\ veq 4 (Rmv 4 Vr (pt t 1)) (vec_of [0; 0; - dist e t; 1]) /\
    (* the up direction stays in the upper vertical half-plane: x = 0, y > 0 *)
    Rmv 4 Vl (pt up 0) 0%nat = 0 /\ 0 < Rmv 4 Vl (pt up 0) 1%nat /\
    Rmv 4 Vr (pt up 0) 0%nat = 0 /\ 0 < Rmv 4 Vr (pt up 0) 1%nat /\
    (* the model matrix is the inverse and sends the origin to the eye *)
    meq 4 (Rmm 4 Ml Vl) Rident /\ meq 4 (Rmm 4 Vl Ml) Rident /\
    meq 4 (Rmm 4 Mr Vr) Rident /\ meq 4 (Rmm 4 Vr Mr) Rident /\
    veq 4 (Rmv 4 Ml (vec_of [0; 0; 0; 1])) (pt e 1) /\ veq 4 (Rmv 4 Mr (vec_of [0; 0; 0; 1])) (pt e 1).

(** ** change of basis *)
Definition l2b_mat (o i j k : nat -> R) := model_mat i j k o.
Definition b2l_mat (o i j k : nat -> R) := view_mat i j k o.
Definition is_basis (l : layout) (M : (nat -> R) -> (nat -> R) -> (nat -> R) -> (nat -> R) -> nat -> nat -> R) (p : prog) : Prop :=
  forall kk a, exists s, rrun kk a p = Ret ([], s) /\ length s = 16%nat /\
    meq 4 (aL l 4 s) (M (off a 0) (off a 3) (off a 6) (off a 9)).
Definition orthonormal3 (i j k : nat -> R) : Prop :=
  dot3 i i = 1 /\ dot3 j j = 1 /\ dot3 k k = 1 /\ dot3 i j = 0 /\ dot3 i k = 0 /\ dot3 j k = 0.
Definition add3 (u v : nat -> R) : nat -> R := fun n => u n + v n.
Definition C09_basis_stmt : Prop :=
  Forall (fun '(l, M, p) => is_basis l M p)
    [ (Lr, l2b_mat, p_mat4r_local_to_basis); (Lc, l2b_mat, p_mat4c_local_to_basis);
      (Lr, b2l_mat, p_mat4r_basis_to_local); (Lc, b2l_mat, p_mat4c_basis_to_local) ] /\
  (forall o i j k : nat -> R,
     veq 4 (Rmv 4 (l2b_mat o i j k) (vec_of [0; 0; 0; 1])) (pt o 1) /\
     veq 4 (Rmv 4 (l2b_mat o i j k) (vec_of [1; 0; 0; 1])) (pt (add3 o i) 1) /\
     veq 4 (Rmv 4 (l2b_mat o i j k) (vec_of [0; 1; 0; 1])) (pt (add3 o j) 1) /\
     veq 4 (Rmv 4 (l2b_mat o i j k) (vec_of [0; 0; 1; 1])) (pt (add3 o k) 1)) /\
  (forall o i j k : nat -> R, orthonormal3 i j k ->
     meq 4 (Rmm 4 (b2l_mat o i j k) (l2b_mat o i j k)) Rident).
