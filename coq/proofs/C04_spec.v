(** * C04 — statements: rotation builders yield proper right-handed rotations, consistent across types.
    Carrier: the real numbers; all angles, all non-zero axes. *)
Require Import Reals List ZArith Lia.
From VekLib Require Import Ops ROps LinAlg RLin.
From VekGen Require Import C04_gen.
Import ListNotations.
Local Open Scope R_scope.

Definition aL := @absL R 0.
Definition off (a : nat -> R) (o : nat) : nat -> R := fun i => a (o + i)%nat.

(** ** textbook rotation matrices (3x3 core; [emb] pads to any size with the identity) *)
Definition mat_of (rows : list (list R)) : nat -> nat -> R := fun i j => nth j (nth i rows []) 0.
Definition vec_of (l : list R) : nat -> R := fun i => nth i l 0.
Definition Rx (c s : R) := mat_of [[1; 0; 0]; [0; c; - s]; [0; s; c]].
Definition Ry (c s : R) := mat_of [[c; 0; s]; [0; 1; 0]; [- s; 0; c]].
Definition Rz (c s : R) := mat_of [[c; - s; 0]; [s; c; 0]; [0; 0; 1]].
(** Rodrigues: rotation by (c,s) = (cos,sin) about the unit axis n *)
Definition Rod (c s : R) (n : nat -> R) : nat -> nat -> R :=
  let x := n 0%nat in let y := n 1%nat in let z := n 2%nat in let oc := 1 - c in
  mat_of [[oc*x*x + c;   oc*x*y - z*s; oc*z*x + y*s];
          [oc*x*y + z*s; oc*y*y + c;   oc*y*z - x*s];
          [oc*z*x - y*s; oc*y*z + x*s; oc*z*z + c]].
Definition emb (M : nat -> nat -> R) : nat -> nat -> R := fun i j =>
  if (Nat.ltb i 3 && Nat.ltb j 3)%bool then M i j else if Nat.eqb i j then 1 else 0.
Definition R2 (c s : R) := mat_of [[c; - s]; [s; c]].
Definition norm3 (v : nat -> R) : R := sqrt (v 0%nat * v 0%nat + v 1%nat * v 1%nat + v 2%nat * v 2%nat).
Definition unit3 (v : nat -> R) : nat -> R := fun i => v i / norm3 v.
Definition nonzero3 (v : nat -> R) : Prop := 0 < v 0%nat * v 0%nat + v 1%nat * v 1%nat + v 2%nat * v 2%nat.
Definition ex := vec_of [1; 0; 0].
Definition ey := vec_of [0; 1; 0].
Definition ez := vec_of [0; 0; 1].

(** ** axis constructors denote the textbook matrices of (cos a, sin a) *)
Definition is_axis_rot (n : nat) (l : layout) (M : R -> R -> nat -> nat -> R) (p : prog) : Prop :=
  forall k a, exists s, rrun k a p = Ret ([], s) /\ length s = (n * n)%nat /\
    meq n (aL l n s) (M (cos (a 0%nat)) (sin (a 0%nat))).
Definition e3 (M : R -> R -> nat -> nat -> R) : R -> R -> nat -> nat -> R := fun c s => emb (M c s).
Definition axis_table : list (nat * layout * (R -> R -> nat -> nat -> R) * prog) :=
  [ (4, Lr, e3 Rx, p_mat4r_rotation_x); (4, Lr, e3 Ry, p_mat4r_rotation_y); (4, Lr, e3 Rz, p_mat4r_rotation_z);
    (4, Lc, e3 Rx, p_mat4c_rotation_x); (4, Lc, e3 Ry, p_mat4c_rotation_y); (4, Lc, e3 Rz, p_mat4c_rotation_z);
    (3, Lr, Rx, p_mat3r_rotation_x); (3, Lr, Ry, p_mat3r_rotation_y); (3, Lr, Rz, p_mat3r_rotation_z);
    (3, Lc, Rx, p_mat3c_rotation_x); (3, Lc, Ry, p_mat3c_rotation_y); (3, Lc, Rz, p_mat3c_rotation_z);
    (2, Lr, R2, p_mat2r_rotation_z); (2, Lc, R2, p_mat2c_rotation_z) ]%nat.
Definition C04_axis_constructors_stmt : Prop := Forall (fun '(n, l, M, p) => is_axis_rot n l M p) axis_table.

(** ** the textbook axis rotations are proper, right-handed (counter-clockwise) and additive *)
Definition orthogonal (n : nat) (M : nat -> nat -> R) : Prop :=
  meq n (Rmm n (transp M) M) Rident /\ meq n (Rmm n M (transp M)) Rident.
Definition C04_axis_rotations_proper_stmt : Prop :=
  forall a b : R,
    let R1 := fun (M : R -> R -> nat -> nat -> R) t => M (cos t) (sin t) in
    Forall (fun M => orthogonal 3 (R1 M a) /\ Rdet 3 (R1 M a) = 1 /\
                     meq 3 (Rmm 3 (R1 M a) (R1 M b)) (R1 M (a + b))) [Rx; Ry; Rz] /\
    orthogonal 2 (R2 (cos a) (sin a)) /\ Rdet 2 (R2 (cos a) (sin a)) = 1 /\
    meq 2 (Rmm 2 (R2 (cos a) (sin a)) (R2 (cos b) (sin b))) (R2 (cos (a + b)) (sin (a + b))) /\
    (* each fixes its axis *)
    veq 3 (Rmv 3 (R1 Rx a) ex) ex /\ veq 3 (Rmv 3 (R1 Ry a) ey) ey /\ veq 3 (Rmv 3 (R1 Rz a) ez) ez /\
    (* right-handed, counter-clockwise for positive angles *)
    veq 3 (Rmv 3 (R1 Rz a) ex) (vec_of [cos a; sin a; 0]) /\
    veq 3 (Rmv 3 (R1 Rx a) ey) (vec_of [0; cos a; sin a]) /\
    veq 3 (Rmv 3 (R1 Ry a) ez) (vec_of [sin a; 0; cos a]) /\
    veq 2 (Rmv 2 (R2 (cos a) (sin a)) ex) (vec_of [cos a; sin a]).

(** ** arbitrary axis: the constructor is the Rodrigues matrix of the normalised axis (axis need not be unit) *)
Definition is_rot3d (n : nat) (l : layout) (p : prog) : Prop :=
  forall k a, nonzero3 (off a 1) -> exists s, rrun k a p = Ret ([], s) /\ length s = (n * n)%nat /\
    meq n (aL l n s) (emb (Rod (cos (a 0%nat)) (sin (a 0%nat)) (unit3 (off a 1)))).
Definition rot3d_table : list (nat * layout * prog) :=
  [ (4, Lr, p_mat4r_rotation_3d); (4, Lc, p_mat4c_rotation_3d); (3, Lr, p_mat3r_rotation_3d); (3, Lc, p_mat3c_rotation_3d);
    (* the matrix converted from the quaternion for (angle, axis) is the same matrix *)
    (4, Lr, p_mat4r_from_quat_rotation_3d); (4, Lc, p_mat4c_from_quat_rotation_3d);
    (3, Lr, p_mat3r_from_quat_rotation_3d); (3, Lc, p_mat3c_from_quat_rotation_3d) ]%nat.
Definition C04_rotation_3d_stmt : Prop := Forall (fun '(n, l, p) => is_rot3d n l p) rot3d_table.

Definition C04_rodrigues_proper_stmt : Prop :=
  forall (a b : R) (v : nat -> R), nonzero3 v ->
    let n := unit3 v in
    let M t := Rod (cos t) (sin t) n in
    orthogonal 3 (M a) /\ Rdet 3 (M a) = 1 /\
    veq 3 (Rmv 3 (M a) v) v /\                                   (* fixes its axis *)
    meq 3 (Rmm 3 (M a) (M b)) (M (a + b)) /\                     (* additive for a common axis *)
    (forall k, 0 < k -> veq 3 (unit3 (fun i => k * v i)) n) /\   (* axis length is irrelevant *)
    meq 3 (Rod (cos a) (sin a) (unit3 ex)) (Rx (cos a) (sin a)) /\
    meq 3 (Rod (cos a) (sin a) (unit3 ey)) (Ry (cos a) (sin a)) /\
    meq 3 (Rod (cos a) (sin a) (unit3 ez)) (Rz (cos a) (sin a)).

(** ** chained / in-place variants are pre-multiplication by the constructor *)
Definition is_rotated_axis (n : nat) (l : layout) (M : R -> R -> nat -> nat -> R) (p : prog) : Prop :=
  forall k a, exists s, rrun k a p = Ret ([], s) /\ length s = (n * n)%nat /\
    meq n (aL l n s) (Rmm n (M (cos (a (n * n)%nat)) (sin (a (n * n)%nat))) (aL l n (tab (n * n) a 0))).
Definition rotated_table : list (nat * layout * (R -> R -> nat -> nat -> R) * prog) :=
  [ (4, Lr, e3 Rx, p_mat4r_rotated_x); (4, Lr, e3 Ry, p_mat4r_rotated_y); (4, Lr, e3 Rz, p_mat4r_rotated_z);
    (4, Lc, e3 Rx, p_mat4c_rotated_x); (4, Lc, e3 Ry, p_mat4c_rotated_y); (4, Lc, e3 Rz, p_mat4c_rotated_z);
    (3, Lr, Rx, p_mat3r_rotated_x); (3, Lr, Ry, p_mat3r_rotated_y); (3, Lr, Rz, p_mat3r_rotated_z);
    (3, Lc, Rx, p_mat3c_rotated_x); (3, Lc, Ry, p_mat3c_rotated_y); (3, Lc, Rz, p_mat3c_rotated_z);
    (2, Lr, R2, p_mat2r_rotated_z); (2, Lc, R2, p_mat2c_rotated_z) ]%nat.
Definition is_rotated_3d (n : nat) (l : layout) (p : prog) : Prop :=
  forall k a, nonzero3 (off a (n * n + 1)) -> exists s, rrun k a p = Ret ([], s) /\ length s = (n * n)%nat /\
    meq n (aL l n s) (Rmm n (emb (Rod (cos (a (n * n)%nat)) (sin (a (n * n)%nat)) (unit3 (off a (n * n + 1))))) (aL l n (tab (n * n) a 0))).
Definition same (p q : prog) : Prop := forall k a, rrun k a p = rrun k a q.
Definition inplace_table : list (prog * prog) :=
  [ (p_mat4r_rotate_x, p_mat4r_rotated_x); (p_mat4r_rotate_y, p_mat4r_rotated_y); (p_mat4r_rotate_z, p_mat4r_rotated_z); (p_mat4r_rotate_3d, p_mat4r_rotated_3d);
    (p_mat4c_rotate_x, p_mat4c_rotated_x); (p_mat4c_rotate_y, p_mat4c_rotated_y); (p_mat4c_rotate_z, p_mat4c_rotated_z); (p_mat4c_rotate_3d, p_mat4c_rotated_3d);
    (p_mat3r_rotate_x, p_mat3r_rotated_x); (p_mat3r_rotate_y, p_mat3r_rotated_y); (p_mat3r_rotate_z, p_mat3r_rotated_z); (p_mat3r_rotate_3d, p_mat3r_rotated_3d);
    (p_mat3c_rotate_x, p_mat3c_rotated_x); (p_mat3c_rotate_y, p_mat3c_rotated_y); (p_mat3c_rotate_z, p_mat3c_rotated_z); (p_mat3c_rotate_3d, p_mat3c_rotated_3d);
    (p_mat2r_rotate_z, p_mat2r_rotated_z); (p_mat2c_rotate_z, p_mat2c_rotated_z);
    (p_quat_rotate_x, p_quat_rotated_x); (p_quat_rotate_y, p_quat_rotated_y); (p_quat_rotate_z, p_quat_rotated_z); (p_quat_rotate_3d, p_quat_rotated_3d);
    (p_vec2_rotate_z, p_vec2_rotated_z) ].
Definition C04_chained_stmt : Prop :=
  Forall (fun '(n, l, M, p) => is_rotated_axis n l M p) rotated_table /\
  Forall (fun '(n, l, p) => is_rotated_3d n l p)
    [ (4, Lr, p_mat4r_rotated_3d); (4, Lc, p_mat4c_rotated_3d); (3, Lr, p_mat3r_rotated_3d); (3, Lc, p_mat3c_rotated_3d) ]%nat /\
  Forall (fun '(p, q) => same p q) inplace_table.

(** ** the 3x3 result is the upper-left block of the 4x4 one *)
Definition block_of (l : layout) (p3 p4 : prog) : Prop :=
  forall k a, exists s3 s4, rrun k a p3 = Ret ([], s3) /\ rrun k a p4 = Ret ([], s4) /\ meq 3 (aL l 3 s3) (aL l 4 s4).
Definition C04_block_stmt : Prop :=
  Forall (fun '(l, p3, p4) => block_of l p3 p4)
    [ (Lr, p_mat3r_rotation_x, p_mat4r_rotation_x); (Lr, p_mat3r_rotation_y, p_mat4r_rotation_y); (Lr, p_mat3r_rotation_z, p_mat4r_rotation_z);
      (Lr, p_mat3r_rotation_3d, p_mat4r_rotation_3d); (Lr, p_mat3r_from_quaternion, p_mat4r_from_quaternion);
      (Lc, p_mat3c_rotation_x, p_mat4c_rotation_x); (Lc, p_mat3c_rotation_y, p_mat4c_rotation_y); (Lc, p_mat3c_rotation_z, p_mat4c_rotation_z);
      (Lc, p_mat3c_rotation_3d, p_mat4c_rotation_3d); (Lc, p_mat3c_from_quaternion, p_mat4c_from_quaternion) ] /\
  (forall k a, exists s, rrun k a p_mat3r_from_mat4r = Ret ([], s) /\ meq 3 (aL Lr 3 s) (aL Lr 4 (tab 16 a 0))) /\
  (forall k a, exists s, rrun k a p_mat3c_from_mat4c = Ret ([], s) /\ meq 3 (aL Lc 3 s) (aL Lc 4 (tab 16 a 0))).

(** ** quaternions: half-angle form; axis constructors; chained forms are Hamilton pre-multiplication *)
Definition qvec (s : list R) : nat -> R := Rvec s.
Definition C04_quaternion_stmt : Prop :=
  (forall k a, nonzero3 (off a 1) -> exists s, rrun k a p_quat_rotation_3d = Ret ([], s) /\ length s = 4%nat /\
     veq 4 (qvec s) (fun i => match i with 3%nat => cos (a 0%nat / 2) | _ => unit3 (off a 1) i * sin (a 0%nat / 2) end)) /\
  Forall (fun '(p, e) => forall k a, exists s, rrun k a p = Ret ([], s) /\ length s = 4%nat /\
     veq 4 (qvec s) (fun i => match i with 3%nat => cos (a 0%nat / 2) | _ => e i * sin (a 0%nat / 2) end))
    [ (p_quat_rotation_x, ex); (p_quat_rotation_y, ey); (p_quat_rotation_z, ez) ] /\
  (* rotated_k(q, angle) = rotation_k(angle) * q, through the real product code *)
  Forall (fun '(prot, pctor) => forall k a, exists r, rrun k (off a 4) pctor = Ret ([], r) /\
            rrun k a prot = rrun k (env_of (r ++ tab 4 a 0)) p_quat_mul)
    [ (p_quat_rotated_x, p_quat_rotation_x); (p_quat_rotated_y, p_quat_rotation_y); (p_quat_rotated_z, p_quat_rotation_z);
      (p_quat_rotated_3d, p_quat_rotation_3d) ].

(** ** 2D vector rotation = the 2x2 rotation matrix applied to it *)
Definition C04_vec2_stmt : Prop :=
  forall k a, exists s, rrun k a p_vec2_rotated_z = Ret ([], s) /\ length s = 2%nat /\
    veq 2 (Rvec s) (Rmv 2 (R2 (cos (a 2%nat)) (sin (a 2%nat))) (off a 0)).
