Require Import Reals List ZArith Lra Lia Nsatz.
From VekLib Require Import Ops ROps LinAlg RLin RSum.
From VekGen Require Import C11_gen.
From VekProofs Require Import C11_spec C11_pa C11_tac C11_pc.
Import ListNotations.
Local Open Scope R_scope.

Ltac x_unfold := cbv [crossv cross2 near dotn Rsum sigma sum_from off vecv List.nth Nat.add Nat.mul] in *.

Lemma C11_2d : C11_2d_stmt.
Proof.
  intros k a. split; [ | split ].
  - ret1_refl. x_unfold. ring.
  - ret1_refl. x_unfold. field.
  - unfold ret1. rrun_unfold. split_conds; (eexists; split; [ reflexivity | x_unfold; rabs; lra ]).
Qed.

Lemma C11_cross : C11_cross_stmt.
Proof.
  split.
  - intros k a. unfold returns. rrun_unfold. eexists. split; [ reflexivity | split; [ reflexivity | cases_i; x_unfold; reflexivity ] ].
  - intros u v w s. repeat split; try (veq_cases; x_unfold; ring); x_unfold; ring.
Qed.

Lemma C11_4d : C11_4d_stmt.
Proof.
  intros k a He. split; [ | split; [ | split; [ | split ] ] ].
  - intros Hw. unfold returns. rrun_unfold. eexists. split; [ reflexivity | split; [ reflexivity | ] ].
    split; [ x_unfold; field; exact Hw | cases_i; x_unfold; reflexivity ].
  - rrun_unfold. reflexivity.
  - unfold flag_iff, near. rrun_unfold. rewrite Rabs_R1. split_conds;
      first [ pos; rm; rabs; lra' | neg; rm; rabs; intros [H|H]; revert H; rabs; lra' ].
  - unfold flag_iff, near. rrun_unfold. rewrite Rabs_R0. split_conds;
      first [ pos; rm; rabs; lra' | neg; rm; rabs; intros [H|H]; revert H; rabs; lra' ].
  - unfold flag_iff, near. rrun_unfold. rewrite Rabs_R0, Rabs_R1. split_conds;
      first [ pos; first [ left; rm; rabs; lra' | right; rm; rabs; lra' ]
            | neg; rm; rabs; intros [[H|H]|[H|H]]; revert H; rabs; lra' ].
Qed.
