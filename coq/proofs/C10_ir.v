Require Import Reals List ZArith Lra Lia.
From VekLib Require Import Ops ROps LinAlg RLin.
From VekGen Require Import C10_gen.
From VekProofs Require Import C10_spec C10_pa.
Import ListNotations.
Local Open Scope R_scope.

Lemma mul_ok : forall k a, exists s, rrun k a p_mat4r_mul = Ret ([], s) /\ length s = 16%nat /\
  meq 4 (aL Lr 4 s) (Rmm 4 (aL Lr 4 (tab 16 a 0)) (aL Lr 4 (tab 16 a 16))).
Proof. intros k a. eexists. split; [ rrun_unfold; reflexivity | split; [ reflexivity | ] ]. meq_cases; c10_unfold; ring. Qed.

Lemma inv_ok : forall k a, Rdet 4 (aL Lr 4 (tab 16 a 0)) <> 0 -> exists s, rrun k a p_mat4r_inverted = Ret ([], s) /\
  two_sided_inverse (aL Lr 4 (tab 16 a 0)) (aL Lr 4 s).
Proof.
  intros k a Hd. eexists. split; [ rrun_unfold; reflexivity | ].
  revert Hd; c10_unfold; intros Hd.
  split; meq_cases; c10_unfold;
    (field; let Hc := fresh "Hc" in intro Hc; apply Hd; etransitivity; [ | exact Hc ]; ring).
Qed.
