Require Import List ZArith Lia String Bool Ring.
From VekLib Require Import Ops RingOps LinAlg.
From VekGen Require Import C02_gen.
From VekProofs Require Import C02_spec C02_tac.
Import ListNotations.

Section Proofs.
  Variable C : cring.

  Lemma C02_reduce_partial : C02_reduce_partial_stmt C.
  Proof. unfold C02_reduce_partial_stmt, red, small_types, types. cbn [filter snd Nat.leb]. ty_table; all_has by_cases. Qed.
  Lemma C02_cmp_small : C02_cmp_small_stmt C.
  Proof.
    unfold C02_cmp_small_stmt, small_types, types, cmp_ops. cbn [filter snd Nat.leb]. ty_table;
    (split; [ table; cbn [fst snd]; all_has by_cases | all_has by_cases ]).
  Qed.
End Proofs.
