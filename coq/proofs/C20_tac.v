Require Import List ZArith Lia String Bool.
From VekLib Require Import Ops RingOps LinAlg Index Chain.
From VekGen Require Import C20_gen.
From VekProofs Require Import C20_spec.
Import ListNotations.

Ltac table := repeat (apply Forall_cons; [ | ]); try apply Forall_nil.
Ltac splits := repeat match goal with |- _ /\ _ => split end.
Ltac ccompute := cbv -[cT c0 c1 cadd cmul csub copp jc jn j1 j2 jp jlt jeq cF].
(** case analysis on the comparisons, simplifying after each so that dead branches disappear *)
Ltac split_cmps :=
  repeat match goal with
  | |- context [jeq ?C ?x ?y] => destruct (jeq C x y); try reflexivity
  end.
Ltac by_cases := intros a; ccompute; split_cmps; reflexivity.
Ltac has_by tac :=
  lazymatch goal with
  | |- has _ _ => eexists; split; [ vm_compute; reflexivity | tac ]
  end.
Ltac ty_table := unfold for_types, types, mat_types; table; cbn [fst snd].

(** [?]-chains and [&&]-chains: rewrite the tree into one [forallb], then compare by computation *)
Ltac by_chain_none := intros a; unfold crun; rewrite run_chain_none; ccompute; reflexivity.
Ltac by_chain_all := intros a; unfold crun; rewrite run_chain_all; ccompute; reflexivity.
Ltac by_chain_none_b := intros a; unfold crun, b2z; rewrite ret_b2z, run_chain_none; ccompute; reflexivity.
Ltac by_chain_all_b := intros a; unfold crun, b2z; rewrite ret_b2z, run_chain_all; ccompute; reflexivity.
Ltac by_compute := intros a; vm_compute; reflexivity.
