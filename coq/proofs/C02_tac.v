Require Import List ZArith Lia String Bool.
From VekLib Require Import Ops RingOps LinAlg.
From VekGen Require Import C02_gen.
From VekProofs Require Import C02_spec.
Import ListNotations.

Ltac table := repeat (apply Forall_cons; [ | ]); try apply Forall_nil.
Ltac ty_table := unfold for_types, types, spatial_types; table; cbn [fst snd].
(** find the entry by name (computation on strings), then prove its statement with [tac] *)
Ltac has_by tac :=
  lazymatch goal with
  | |- has _ _ => eexists; split; [ vm_compute; reflexivity | tac ]
  end.
Ltac by_compute := intros a; vm_compute; reflexivity.
Ltac all_has tac := repeat match goal with |- _ /\ _ => split end; try (table; cbn [fst snd]); repeat match goal with |- _ /\ _ => split end; has_by tac.

(** computation that keeps the ring's components folded *)
Ltac ccompute := cbv -[cT c0 c1 cadd cmul csub copp jc jn j1 j2 jp jlt jeq cF].
Lemma cons_eq {A} (x y : A) l l' : x = y -> l = l' -> x :: l = y :: l'.
Proof. intros -> ->; reflexivity. Qed.
(** case analysis on every comparison outcome *)
Ltac split_cmps :=
  repeat match goal with
  | |- context [jlt ?C ?x ?y] => destruct (jlt C x y)
  | |- context [jeq ?C ?x ?y] => destruct (jeq C x y)
  end.
Ltac by_cases := intros a; ccompute; split_cmps; reflexivity.
