Require Import Reals List ZArith Lra Lia Nsatz.
From VekLib Require Import Ops ROps LinAlg RLin.
From VekGen Require Import C16_gen.
From VekProofs Require Import C16_spec C16_pa.
Import ListNotations.
Local Open Scope R_scope.
Ltac lra' := first [ lra | (intro; lra) ].
Lemma ball2 : S_ball 2 p_disk_new p_disk_unit p_disk_point p_disk_diameter p_disk_rect p_disk_aab p_disk_contains_point p_disk_collides p_disk_collision_vector.
Proof.
  prove_ball.
  - unfold flag_iff; rrun_unfold; split_conds; [ neg | pos ]; g_unfold; norm_sqrt; lra'.
  - intros Hr. apply sqrt_le_iff; [ g_unfold; repeat apply Rplus_le_le_0_compat; try apply Rle_0_sqr; lra | exact Hr ].
  - unfold flag_iff; rrun_unfold; split_conds; [ neg | pos ]; g_unfold; norm_sqrt; lra'.
  - ret_simple ltac:(cases_i; g_unfold; split; ring).
  - ret_simple ltac:(cases_i; g_unfold; split; ring).
  - ret_simple ltac:(g_unfold; ring).
  - ret_simple ltac:(cases_i; g_unfold; reflexivity).
  - ret_simple ltac:(split; [ cases_i; g_unfold; reflexivity | g_unfold; reflexivity ]).
  - ret_simple ltac:(split; [ cases_i; g_unfold; reflexivity | g_unfold; reflexivity ]).
  - intros Hd Hr. unfold returns. rrun_unfold. eexists. split; [ reflexivity | split; [ reflexivity | ] ].
    g_unfold.
    match goal with |- context [sqrt ?e] =>
      assert (Hp : 0 < e) by nra; assert (Hm0 := sqrt_lt_R0 _ Hp); assert (Hmm := sqrt_sqrt _ (Rlt_le _ _ Hp));
      set (m := sqrt e) in * end. clearbody m.
    field_simplify_eq; [ | lra ]. cbv [Rpow_def.pow]. clear_noneq. nsatz.
Qed.

Lemma ball3 : S_ball 3 p_sphere_new p_sphere_unit p_sphere_point p_sphere_diameter p_sphere_rect p_sphere_aab p_sphere_contains_point p_sphere_collides p_sphere_collision_vector.
Proof.
  prove_ball.
  - unfold flag_iff; rrun_unfold; split_conds; [ neg | pos ]; g_unfold; norm_sqrt; lra'.
  - intros Hr. apply sqrt_le_iff; [ g_unfold; repeat apply Rplus_le_le_0_compat; try apply Rle_0_sqr; lra | exact Hr ].
  - unfold flag_iff; rrun_unfold; split_conds; [ neg | pos ]; g_unfold; norm_sqrt; lra'.
  - ret_simple ltac:(cases_i; g_unfold; split; ring).
  - ret_simple ltac:(cases_i; g_unfold; split; ring).
  - ret_simple ltac:(g_unfold; ring).
  - ret_simple ltac:(cases_i; g_unfold; reflexivity).
  - ret_simple ltac:(split; [ cases_i; g_unfold; reflexivity | g_unfold; reflexivity ]).
  - ret_simple ltac:(split; [ cases_i; g_unfold; reflexivity | g_unfold; reflexivity ]).
  - intros Hd Hr. unfold returns. rrun_unfold. eexists. split; [ reflexivity | split; [ reflexivity | ] ].
    g_unfold.
    match goal with |- context [sqrt ?e] =>
      assert (Hp : 0 < e) by nra; assert (Hm0 := sqrt_lt_R0 _ Hp); assert (Hmm := sqrt_sqrt _ (Rlt_le _ _ Hp));
      set (m := sqrt e) in * end. clearbody m.
    field_simplify_eq; [ | lra ]. cbv [Rpow_def.pow]. clear_noneq. nsatz.
Qed.

Lemma C16_disk_sphere : C16_disk_sphere_stmt.
Proof.
  split; [ exact ball2 | split; [ exact ball3 | ] ].
  intros k a. repeat split; ret_simple ltac:(g_unfold; field).
Qed.
