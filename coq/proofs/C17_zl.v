Require Import ZArith List Lia Bool.
Local Open Scope Z_scope.

(** truncating vs. flooring division by a positive number *)
Lemma quot_rem_floor x u : 0 < u ->
  let qt := Z.quot x u in let mt := Z.rem x u in
  x = u * qt + mt /\ - u < mt < u /\
  (mt < 0 -> x / u = qt - 1 /\ x mod u = mt + u) /\ (0 <= mt -> x / u = qt /\ x mod u = mt).
Proof.
  intros Hu qt mt. pose proof (Z.quot_rem' x u) as E. fold qt mt in E.
  pose proof (Z.rem_bound_abs x u ltac:(lia)) as B. fold mt in B.
  assert (Hb : - u < mt < u) by lia.
  split; [ exact E | split; [ exact Hb | split ] ].
  - intros Hm. split.
    + symmetry. apply Z.div_unique_pos with (r := mt + u); lia.
    + symmetry. apply Z.mod_unique_pos with (q := qt - 1); lia.
  - intros Hm. split.
    + symmetry. apply Z.div_unique_pos with (r := mt); lia.
    + symmetry. apply Z.mod_unique_pos with (q := qt); lia.
Qed.

(** a value modulo 2u from its floor quotient and remainder modulo u *)
Lemma mod_2u x u : 0 < u -> x mod (2 * u) = u * ((x / u) mod 2) + x mod u.
Proof.
  intros Hu. set (q := x / u). set (r := x mod u).
  pose proof (Z.div_mod x u ltac:(lia)) as E. fold q r in E.
  pose proof (Z.mod_pos_bound x u Hu) as Br. fold r in Br.
  pose proof (Z.div_mod q 2 ltac:(lia)) as E2. pose proof (Z.mod_pos_bound q 2 ltac:(lia)) as B2.
  set (e := q mod 2) in *. set (k := q / 2) in *.
  symmetry. apply Z.mod_unique_pos with (q := k); [ nia | ].
  rewrite E, E2. ring.
Qed.
