Require Import Reals List ZArith Lra Lia Nsatz.
From VekLib Require Import Ops ROps LinAlg RLin.
From VekGen Require Import C16_gen.
From VekProofs Require Import C16_spec C16_pa.
Import ListNotations.
Local Open Scope R_scope.

Lemma C16_ray : C16_ray_stmt.
Proof.
  intros k a. cbv zeta. intros He. split.
  - intros [H1 H2]. revert H1 H2. rrun_unfold. g_unfold. intros H1 H2.
    split_conds; first [ reflexivity | exfalso; lra ].
  - intros Hn. split; [ | split; [ | split ] ].
    + intros (Hu & Hv & Huv). revert Hn Hu Hv Huv. rrun_unfold. g_unfold. intros Hn Hu Hv Huv.
      split_conds; first [ reflexivity | exfalso; lra ].
    + intros Hnot. revert Hn Hnot. rrun_unfold. g_unfold. intros Hn Hnot.
      split_conds; first [ reflexivity | exfalso; first [ lra | apply Hnot; repeat split; lra ] ].
    + assert (Hd : dot3 (sub3 (off a 9) (off a 6)) (cross (off a 3) (sub3 (off a 12) (off a 6))) <> 0).
      { intro E. apply Hn. rewrite E. lra. }
      revert Hd. clear Hn. g_unfold. intros Hd. cases_i; g_unfold; field; exact Hd.
    + intros t' u' v' Hsol.
      assert (Hd : dot3 (sub3 (off a 9) (off a 6)) (cross (off a 3) (sub3 (off a 12) (off a 6))) <> 0).
      { intro E. apply Hn. rewrite E. lra. }
      pose proof (Hsol 0%nat ltac:(lia)) as S0. pose proof (Hsol 1%nat ltac:(lia)) as S1. pose proof (Hsol 2%nat ltac:(lia)) as S2.
      clear Hsol Hn He. revert Hd S0 S1 S2. g_unfold. intros Hd S0 S1 S2.
      repeat split; (apply Rmult_eq_reg_r with (2 := Hd); field_simplify_eq; [ | exact Hd ]); clear Hd; nsatz.
Qed.
