Require Import Reals List ZArith Lra Lia.
From VekLib Require Import Ops ROps LinAlg RLin RSum.
From VekGen Require Import C11_gen.
From VekProofs Require Import C11_spec C11_pa C11_tac C11_pc.
Import ListNotations.
Local Open Scope R_scope.

Lemma heavy_vec4 : heavy_ok 4 [p_vec4_try_normalized; p_vec4_is_normalized; p_vec4_is_approx_zero; p_vec4_is_magnitude_close_to; p_vec4_angle_between; p_vec4_refracted].
Proof.
  intros k a. cbv zeta. u11. intros He He4.
  pose proof (dotn_self_nonneg 4 (fun i => a i)) as Hnn.
  split; [ | split; [ | split; [ | split; [ | split; [ | split ] ] ] ] ].
  - intros Hz. revert Hz Hnn. rrun_unfold. s_unfold. intros Hz Hnn.
    replace (0 * 0) with 0 by ring.
    match goal with |- context [Rabs (?E - 0)] => set (EE := E) in * end.
    replace (EE - 0) with EE by ring. rewrite (Rabs_pos_eq EE) by lra. rewrite Rabs_R0.
    split_conds; first [ reflexivity | exfalso; lra' ].
  - intros Hz.
    assert (Hm0 : 0 < sqrt (dotn 4 (fun i => a i) (fun i => a i))) by (apply sqrt_lt_R0; lra).
    assert (Hmm := sqrt_sqrt _ Hnn).
    eexists. split.
    { revert Hz Hnn. rrun_unfold. s_unfold. intros Hz Hnn.
      replace (0 * 0) with 0 by ring.
      match goal with |- context [Rabs (?E - 0)] => set (EE := E) in * end.
      replace (EE - 0) with EE by ring. rewrite (Rabs_pos_eq EE) by lra. rewrite Rabs_R0.
      split_conds; first [ reflexivity | exfalso; lra' ]. }
    split; [ reflexivity | apply (unit_of_scaled 4 _ (fun i => a i) _ Hmm (Rgt_not_eq _ _ Hm0)); cases_i; s_unfold; congr_ring ].
  - revert Hnn. unfold flag_iff. rrun_unfold. s_unfold. intros Hnn.
    replace (0 * 0) with 0 by ring.
    match goal with |- context [Rabs (?E - 0)] => set (EE := E) in * end.
    replace (EE - 0) with EE by ring. rewrite (Rabs_pos_eq EE) by lra. rewrite Rabs_R0.
    split_conds; first [ pos; lra' | neg; lra' ].
  - revert Hnn. unfold flag_iff. rrun_unfold. s_unfold. intros Hnn.
    replace (1 * 1) with 1 by ring.
    match goal with |- context [Rabs (?E - 1)] => set (EE := E) in * end.
    rewrite (Rabs_pos_eq EE) by lra. rewrite Rabs_R1.
    split_conds; first [ pos; rm; rabs; lra' | neg; rm; rabs; lra' ].
  - revert Hnn. unfold flag_iff. rrun_unfold. s_unfold. intros Hnn.
    match goal with |- context [Rabs (?E - ?X)] => set (EE := E) in *; set (XX := X) in * end.
    assert (Hx : 0 <= XX) by (unfold XX; nra).
    rewrite (Rabs_pos_eq EE) by lra. rewrite (Rabs_pos_eq XX) by lra.
    split_conds; first [ pos; first [ left; rm; rabs; lra' | right; rm; rabs; lra' ] | neg; intros [Hd|Hd]; revert Hd; rm; rabs; lra' ].
  - clear Hnn. unfold ret1. rrun_unfold. s_unfold.
    rewrite (proj2 (Rltb_false 1 (Ropp 1))) by lra.
    split_conds; (eexists; split; [ reflexivity | ]);
      (split; [ apply acos_bound | rewrite cos_acos by lra; rm; lra ]).
  - clear Hnn. intros Hu Hv. split.
    + intros Hk. revert Hu Hv Hk. unfold returns. rrun_unfold. s_unfold. intros Hu Hv Hk.
      match goal with |- context [Rltb ?x 0] => rewrite (proj2 (Rltb_true x 0)) by lra end.
      eexists. split; [ reflexivity | split; [ reflexivity | cases_i; s_unfold; reflexivity ] ].
    + intros Hk. unfold returns. rrun_unfold.
      match goal with |- context [Rltb ?x 0] => rewrite (proj2 (Rltb_false x 0)) by (revert Hk; s_unfold; lra) end.
      eexists. split; [ reflexivity | split; [ reflexivity | ] ].
      apply (refract_facts 4 _ (fun i => a i) (fun i => a (4 + i)%nat) (a 8%nat) _ _); [ | exact Hu | exact Hv | reflexivity | ].
      * cases_i; s_unfold; ring.
      * rewrite sqrt_sqrt by exact Hk. reflexivity.
Qed.
