Require Import Reals List ZArith Lra Lia Nsatz.
From VekLib Require Import Ops ROps LinAlg RLin.
From VekGen Require Import C12_gen.
From VekProofs Require Import C12_spec C12_pa.
Import ListNotations.
Local Open Scope R_scope.

Ltac clear_noneq :=
  repeat match goal with H : ?P |- _ =>
    lazymatch P with _ = _ => fail | _ => lazymatch type of P with Prop => clear H end end end.

Lemma C12_nlerp : C12_nlerp_stmt.
Proof.
  intros k a. cbv zeta. split; [ | split ].
  - repeat (apply Forall_cons; [ | ]); try apply Forall_nil;
      retn ltac:(cases_i; u12; rm; try lra; try ring; try (fix_t; ring)).
  - repeat (apply Forall_cons; [ | ]); try apply Forall_nil; intros Hpos;
      unfold returns; rrun_unfold; split_conds; try (exfalso; lra);
      (eexists; split; [ reflexivity | split; [ reflexivity | ] ]);
      revert Hpos; u12; rm; try (exfalso; lra); intros Hpos;
      try (match goal with H : ?t <= 0 |- _ => assert (Et : t = 0) by lra; rewrite Et in * end);
      try (match goal with H : ~ ?t <= 1 |- _ => assert (Et1 : t = 1) by lra; rewrite Et1 in * end);
      repeat (match goal with |- context [sqrt ?e1] => match goal with |- context [sqrt ?e2] => lazymatch e2 with e1 => fail | _ => replace e2 with e1 by ring end end end);
      (match goal with |- context [sqrt ?e] =>
         assert (Hn0 : 0 < e) by (try lra; nra); assert (Hm0 := sqrt_lt_R0 _ Hn0); assert (Hmm := sqrt_sqrt _ (Rlt_le _ _ Hn0));
         set (m := sqrt e) in * end); clearbody m;
      (split; [ field_simplify_eq; [ | lra ]; cbv [Rpow_def.pow]; clear_noneq; nsatz
              | cases_i; u12; field; lra ]).
  - rrun_unfold. reflexivity.
Qed.
