Require Import List ZArith Lia String Bool Ring.
From VekLib Require Import Ops RingOps LinAlg.
From VekGen Require Import C02_gen.
From VekProofs Require Import C02_spec C02_tac.
Import ListNotations.

Section Proofs.
  Variable C : cring.

  Lemma C02_cmp_wide : C02_cmp_wide_stmt C.
  Proof.
    unfold C02_cmp_wide_stmt, wide_types, types, cmp_ops, cmp_opsZ. cbn [filter snd Nat.leb negb combine map seq]. ty_table; table;
    (split; [ table; cbn [fst snd]; all_has by_cases | all_has by_cases ]).
  Qed.
End Proofs.
