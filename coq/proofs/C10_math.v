Require Import Reals List ZArith Lra Lia.
From VekLib Require Import Ops ROps LinAlg RLin.
From VekGen Require Import C10_gen.
From VekProofs Require Import C10_spec C10_pa C10_math0.
Import ListNotations.
Local Open Scope R_scope.

(** the heart of the round trip, on abstract matrices *)
Lemma roundtrip_math (no : bool) (MV P Inv : nat -> nat -> R) (vp obj : nat -> R) :
  meq 4 (Rmm 4 Inv (Rmm 4 P MV)) Rident -> vp 2%nat <> 0 -> vp 3%nat <> 0 -> clip_of MV P obj 3%nat <> 0 ->
  veq 3 (unproject_spec no Inv vp (project_spec no MV P vp obj)) obj.
Proof.
  intros HI Hw Hh Hc.
  pose proof (inv_apply Inv P MV (pt obj 1) HI) as Ha.
  pose proof (Ha 0%nat ltac:(lia)) as A0. pose proof (Ha 1%nat ltac:(lia)) as A1.
  pose proof (Ha 2%nat ltac:(lia)) as A2. pose proof (Ha 3%nat ltac:(lia)) as A3. clear Ha HI.
  unfold clip_of in Hc.
  revert A0 A1 A2 A3 Hc. unfold unproject_spec, project_spec, clip_of.
  set (c := Rmv 4 P (Rmv 4 MV (pt obj 1))). clearbody c.
  cbv [pt vec_of List.nth]. rlin_unfold. intros A0 A1 A2 A3 Hc.
  set (c0 := c 0%nat) in *; set (c1 := c 1%nat) in *; set (c2 := c 2%nat) in *; set (c3 := c 3%nat) in *.
  clearbody c0 c1 c2 c3.
  assert (Hd : forall n l r, l = r -> n = l / c3 -> n = r / c3) by (intros; subst; reflexivity).
  destruct no; veq_cases; cbv [List.nth];
    match goal with |- ?n / ?d = ?o =>
      let Ed := fresh "Ed" in
      assert (Ed : d = 1 / c3) by (eapply Hd; [ exact A3 | field; repeat split; assumption ]);
      rewrite Ed;
      let En := fresh "En" in
      first [ assert (En : n = obj 0%nat / c3) by (eapply Hd; [ exact A0 | field; repeat split; assumption ])
            | assert (En : n = obj 1%nat / c3) by (eapply Hd; [ exact A1 | field; repeat split; assumption ])
            | assert (En : n = obj 2%nat / c3) by (eapply Hd; [ exact A2 | field; repeat split; assumption ]) ];
      rewrite En
    end; field; exact Hc.
Qed.
