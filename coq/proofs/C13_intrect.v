(** * C13, rectangle predicates on machine integers (signed family), every width.
    [Rect::contains_point / contains_rect / collides_with_rect] convert the rectangles to boxes first (x + w, y + h), then
    compare. When those corner sums are representable the answers are the closed-interval / open-interval predicates
    over Z; with overflow checks on, an unrepresentable corner sum panics even when an earlier comparison would already
    decide the answer (Rust evaluates eagerly; the translated programs carry that through [n == n] guards). *)
Require Import ZArith List Lia Bool.
From VekLib Require Import Ops MachineInt.
From VekGen Require Import C13_gen.
Import ListNotations.
Local Open Scope Z_scope.

Definition b2z (b : bool) : Z := if b then 1 else 0.
Definition env8 (l : list Z) : nat -> Z := fun i => nth i l 0.
Definition C13_int_rect_stmt : Prop :=
  forall s x y w h x' y' w' h', in_range s 0 -> in_range s 1 ->
    let e8 := env8 [x; y; w; h; x'; y'; w'; h'] in
    (* rectangle (x, y, w, h) against rectangle (x', y', w', h') *)
    (in_range s (x + w) -> in_range s (y + h) -> in_range s (x' + w') -> in_range s (y' + h') ->
       irun s e8 p_s_rect_contains_rect = Ret ([], [b2z ((x <=? x') && (x' + w' <=? x + w) && (y <=? y') && (y' + h' <=? y + h))]) /\
       irun s e8 p_s_rect_collides_with_rect = Ret ([], [b2z ((x' <? x + w) && (x <? x' + w') && (y' <? y + h) && (y <? y' + h'))])) /\
    (dbg s = true -> ~ (in_range s (x + w) /\ in_range s (y + h) /\ in_range s (x' + w') /\ in_range s (y' + h')) ->
       irun s e8 p_s_rect_contains_rect = Panic /\ irun s e8 p_s_rect_collides_with_rect = Panic) /\
    (* rectangle (x, y, w, h) against the point (x', y') *)
    (in_range s (x + w) -> in_range s (y + h) ->
       irun s (env8 [x; y; w; h; x'; y']) p_s_rect_contains_point = Ret ([], [b2z ((x <=? x') && (x' <=? x + w) && (y <=? y') && (y' <=? y + h))])) /\
    (dbg s = true -> ~ (in_range s (x + w) /\ in_range s (y + h)) -> irun s (env8 [x; y; w; h; x'; y']) p_s_rect_contains_point = Panic).

Lemma norm_in s v : in_range s v -> norm s v = Some v.
Proof. unfold in_range, norm, in_rangeb. intros [H1 H2]. rewrite (proj2 (Z.leb_le _ _) H1), (proj2 (Z.leb_le _ _) H2). reflexivity. Qed.
Lemma norm_out s v : dbg s = true -> ~ in_range s v -> norm s v = None.
Proof.
  unfold in_range, norm, in_rangeb. intros Hd H. rewrite Hd.
  destruct (imin s <=? v) eqn:E1; destruct (v <=? imax s) eqn:E2; try reflexivity.
  exfalso. apply H. split; [ apply Z.leb_le; exact E1 | apply Z.leb_le; exact E2 ].
Qed.
Lemma in_range_dec s v : in_range s v \/ ~ in_range s v.
Proof. unfold in_range. destruct (Z_le_dec (imin s) v); destruct (Z_le_dec v (imax s)); intuition lia. Qed.

Ltac cmps :=
  repeat match goal with
  | |- context [?a <? ?b] => let E := fresh "E" in destruct (a <? b) eqn:E; [ apply Z.ltb_lt in E | apply Z.ltb_ge in E ]
  | |- context [?a <=? ?b] => let E := fresh "E" in destruct (a <=? b) eqn:E; [ apply Z.leb_le in E | apply Z.leb_gt in E ]
  end.
Ltac iunf := cbv beta iota zeta delta [irun inodes inode iatom itree all_some map p_nodes p_tree p_nin nth app Pos.eqb env8 ibin
  p_s_rect_contains_rect p_s_rect_collides_with_rect p_s_rect_contains_point].

Lemma C13_int_rect : C13_int_rect_stmt.
Proof.
  intros s x y w h x' y' w' h' H0 H1 e8. unfold e8.
  split; [ | split; [ | split ] ].
  - intros A B C D. split; iunf; rewrite ?(norm_in s _ A), ?(norm_in s _ B), ?(norm_in s _ C), ?(norm_in s _ D);
      cbv beta iota zeta; rewrite ?Z.eqb_refl; cmps; cbv beta iota zeta; rewrite ?Z.eqb_refl; try reflexivity; try (exfalso; lia).
  - intros Hd Hn.
    destruct (in_range_dec s (x + w)) as [A|A]; destruct (in_range_dec s (y + h)) as [B|B];
    destruct (in_range_dec s (x' + w')) as [C|C]; destruct (in_range_dec s (y' + h')) as [D|D];
    try (exfalso; apply Hn; tauto);
    split; iunf;
    rewrite ?(norm_in s _ A), ?(norm_in s _ B), ?(norm_in s _ C), ?(norm_in s _ D),
            ?(norm_out s _ Hd A), ?(norm_out s _ Hd B), ?(norm_out s _ Hd C), ?(norm_out s _ Hd D);
    cbv beta iota zeta; rewrite ?Z.eqb_refl; cmps; cbv beta iota zeta; rewrite ?Z.eqb_refl; reflexivity.
  - intros A B. iunf. rewrite ?(norm_in s _ A), ?(norm_in s _ B). cbv beta iota zeta. rewrite ?Z.eqb_refl.
    cmps; cbv beta iota zeta; rewrite ?Z.eqb_refl; try reflexivity; try (exfalso; lia).
  - intros Hd Hn.
    destruct (in_range_dec s (x + w)) as [A|A]; destruct (in_range_dec s (y + h)) as [B|B]; try (exfalso; apply Hn; tauto);
    iunf; rewrite ?(norm_in s _ A), ?(norm_in s _ B), ?(norm_out s _ Hd A), ?(norm_out s _ Hd B);
    cbv beta iota zeta; rewrite ?Z.eqb_refl; cmps; cbv beta iota zeta; rewrite ?Z.eqb_refl; reflexivity.
Qed.
