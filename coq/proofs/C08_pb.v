Require Import Reals List ZArith Lra Lia.
From VekLib Require Import Ops ROps LinAlg RLin.
From VekGen Require Import C08_gen.
From VekProofs Require Import C08_spec C08_pa.
Import ListNotations.
Local Open Scope R_scope.

Lemma tan_half_pos fov : fov_ok fov -> 0 < tan (fov / (1 + 1)).
Proof. intros [H1 H2]. apply tan_gt_0; lra. Qed.
Lemma half_eq fov : fov / 2 = fov / (1 + 1).
Proof. f_equal; ring. Qed.
Lemma sin_cos_half_pos fov : fov_ok fov -> 0 < sin (fov / (1 + 1)) /\ 0 < cos (fov / (1 + 1)).
Proof. intros [H1 H2]. split; [ apply sin_gt_0 | apply cos_gt_0 ]; lra. Qed.

(** decide the debug assertions of the constructors from the hypotheses *)
Ltac decide_lt :=
  repeat match goal with
  | |- context [Rltb ?x ?y] =>
      first [ rewrite (proj2 (Rltb_true x y)) by (pose proof PI_RGT_0; lra)
            | rewrite (proj2 (Rltb_false x y)) by (pose proof PI_RGT_0; lra) ]
  end.

Lemma C08_perspective : C08_perspective_stmt.
Proof.
  unfold C08_perspective_stmt, persp_table.
  table; intros k a Hargs; destruct Hargs as (Hf & Ha & Hn & Hnf); pose proof (tan_half_pos _ Hf) as Ht; destruct Hf as [Hf1 Hf2];
    (eexists; split; [ rrun_unfold; decide_lt; reflexivity | split; [ reflexivity | ] ]);
    cbv zeta; intros sx sy sd; destruct sx, sy, sd; c08_unfold; try replace (a 0%nat / 2) with (a 0%nat / (1 + 1)) by (f_equal; ring);
    set (T := tan (a 0%nat / (1 + 1))) in *; clearbody T;
    (split; [ try lra; try (field_simplify; lra) | repeat split; field; repeat split; lra ]).
Qed.

Lemma C08_perspective_is_frustum : C08_perspective_is_frustum_stmt.
Proof.
  unfold C08_perspective_is_frustum_stmt.
  table; intros k a Hargs; destruct Hargs as (Hf & Ha & Hn & Hnf); pose proof (tan_half_pos _ Hf) as Ht; destruct Hf as [Hf1 Hf2]; cbv zeta;
    (do 2 eexists; split; [ rrun_unfold; decide_lt; reflexivity | split; [ rrun_unfold; cbv [env_of nth]; reflexivity | ] ]);
    meq_cases; c08_unfold; try replace (a 0%nat / 2) with (a 0%nat / (1 + 1)) by (f_equal; ring);
    set (T := tan (a 0%nat / (1 + 1))) in *; clearbody T;
    assert (0 < a 2%nat * T) by nra; assert (0 < a 2%nat * T * a 1%nat) by nra;
    field; repeat split; lra.
Qed.

Lemma C08_perspective_fov : C08_perspective_fov_stmt.
Proof.
  unfold C08_perspective_fov_stmt.
  table; intros k a Hf Hw Hh Hn Hnf; destruct (sin_cos_half_pos _ Hf) as [Hs Hc]; pose proof (tan_half_pos _ Hf) as Ht;
    destruct Hf as [Hf1 Hf2];
    assert (Hwh : 0 < a 1%nat / a 2%nat) by (apply Rdiv_lt_0_compat; lra);
    (do 2 eexists; split; [ rrun_unfold; decide_lt; reflexivity | split; [ rrun_unfold; cbv [env_of nth]; decide_lt; reflexivity | ] ]);
    meq_cases; c08_unfold; unfold tan;
    set (S := sin (a 0%nat / (1 + 1))) in *; set (C := cos (a 0%nat / (1 + 1))) in *; clearbody S C;
    field; repeat split; lra.
Qed.

Lemma C08_ortho_nodepth : C08_ortho_nodepth_stmt.
Proof.
  unfold C08_ortho_nodepth_stmt.
  table; intros k a Hlr Hbt; (eexists; split; [ rrun_unfold; reflexivity | ]);
    intros sx sy z; destruct sx, sy; c08_unfold; (split; [ lra | repeat split; field; lra ]).
Qed.
