Require Import Reals List ZArith Lra Lia.
From VekLib Require Import Ops ROps LinAlg RLin RSum.
From VekGen Require Import C11_gen.
From VekProofs Require Import C11_spec C11_pa C11_tac.
Import ListNotations.
Local Open Scope R_scope.
Lemma basic_vec8 : basic_ok 8 [p_vec8_dot; p_vec8_magnitude_squared; p_vec8_magnitude; p_vec8_distance_squared; p_vec8_distance; p_vec8_normalized; p_vec8_normalize; p_vec8_normalized_and_get_magnitude; p_vec8_normalize_and_get_magnitude; p_vec8_reflected; p_vec8_face_forward].
Proof. prove_basic 8%nat. Qed.
