Require Import Reals List ZArith Lra Lia.
From VekLib Require Import Ops ROps LinAlg RLin MachineInt.
From VekGen Require Import C17_gen.
From VekProofs Require Import C17_spec C17_pa.
Import ListNotations.
Local Open Scope R_scope.

Lemma floor_spec x : Rfloor x <= x < Rfloor x + 1.
Proof. unfold Rfloor. destruct (base_Int_part x) as [H1 H2]. lra. Qed.

(** x - floor(x/u) u lies in [0,u) and differs from x by an integer multiple of u *)
Lemma wrap_spec x u : 0 < u -> 0 <= x - Rfloor (x / u) * u < u /\ congruent x (x - Rfloor (x / u) * u) u.
Proof.
  intros Hu. destruct (floor_spec (x / u)) as [H1 H2].
  assert (E : x = x / u * u) by (field; lra).
  split.
  - split.
    + apply Rmult_le_compat_r with (r := u) in H1; lra.
    + apply Rmult_lt_compat_r with (r := u) in H2; lra.
  - exists (Int_part (x / u)). unfold Rfloor. ring.
Qed.

Lemma congruent_shift x r p c : congruent (x - c) (r - c) p -> congruent x r p.
Proof. intros [k Hk]. exists k. lra. Qed.

Ltac decide_lt :=
  repeat match goal with
  | |- context [Rltb ?x ?y] =>
      first [ rewrite (proj2 (Rltb_true x y)) by (pose proof PI_RGT_0; lra)
            | rewrite (proj2 (Rltb_false x y)) by (pose proof PI_RGT_0; lra) ]
  end.

Lemma C17_wrap : C17_wrap_stmt.
Proof.
  intros k a. cbv zeta. split; [ | split; [ | split; [ | split; [ | split ] ] ] ].
  - split; [ | split ].
    + intros Hu. unfold ret1. rrun_unfold. decide_lt. eexists. split; [ reflexivity | ]. apply wrap_spec; exact Hu.
    + intros Hu. rrun_unfold. decide_lt. reflexivity.
    + rrun_unfold. reflexivity.
  - split; [ | split ].
    + intros [H0 Hl]. unfold ret1. rrun_unfold. decide_lt. eexists. split; [ reflexivity | ].
      destruct (wrap_spec (a 0%nat - a 1%nat) (a 2%nat - a 1%nat) ltac:(lra)) as [[W1 W2] W3]. split; [ lra | ].
      apply congruent_shift with (c := a 1%nat).
      match goal with |- congruent _ ?r _ => replace r with (a 0%nat - a 1%nat - Rfloor ((a 0%nat - a 1%nat) / (a 2%nat - a 1%nat)) * (a 2%nat - a 1%nat)) by ring end.
      exact W3.
    + intros Hn. rrun_unfold. split_conds; try reflexivity; exfalso; apply Hn; lra.
    + rrun_unfold. reflexivity.
  - split.
    + intros Hu. unfold ret1. rrun_unfold. decide_lt. eexists. split; [ reflexivity | ].
      destruct (wrap_spec (a 0%nat) (a 1%nat + a 1%nat) ltac:(lra)) as [[W1 W2] W3].
      set (w := a 0%nat - Rfloor (a 0%nat / (a 1%nat + a 1%nat)) * (a 1%nat + a 1%nat)) in *.
      split.
      * unfold Rabs. destruct (Rcase_abs _); lra.
      * exists w. split; [ lra | split; [ | reflexivity ] ].
        destruct W3 as [q Hq]. exists q. lra.
    + intros Hu. rrun_unfold. decide_lt. reflexivity.
  - unfold ret1. rrun_unfold. pose proof PI_RGT_0. decide_lt. eexists. split; [ reflexivity | ].
    destruct (wrap_spec (a 0%nat) (PI + PI) ltac:(lra)) as [[W1 W2] [q Hq]].
    split; [ lra | exists q; lra ].
  - rrun_unfold. reflexivity.
  - pose proof PI_RGT_0 as Hpi. split.
    + unfold ret1. rrun_unfold.
      destruct (wrap_spec (a 1%nat - a 0%nat) (PI + PI) ltac:(lra)) as [[W1 W2] [q Hq]].
      set (w := a 1%nat - a 0%nat - Rfloor ((a 1%nat - a 0%nat) / (PI + PI)) * (PI + PI)) in *.
      decide_lt. split_conds; (eexists; split; [ reflexivity | ]).
      * split; [ lra | exists (q + 1)%Z; rewrite plus_IZR; lra ].
      * split; [ lra | exists q; lra ].
    + unfold ret1. rrun_unfold.
      destruct (wrap_spec (a 1%nat - a 0%nat) 360 ltac:(lra)) as [[W1 W2] [q Hq]].
      set (w := a 1%nat - a 0%nat - Rfloor ((a 1%nat - a 0%nat) / 360) * 360) in *.
      decide_lt. split_conds; (eexists; split; [ reflexivity | ]).
      * split; [ lra | exists (q + 1)%Z; rewrite plus_IZR; lra ].
      * split; [ lra | exists q; lra ].
Qed.
