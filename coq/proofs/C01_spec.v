(** * C01 — statements. Matrix products are the linear-algebra product in both storage layouts.
    Every statement is quantified over an arbitrary commutative ring [C] (hence holds over the
    reals, the integers and the wrapping machine integers Z/2^N) and over all inputs [a]. *)
Require Import List ZArith Lia.
From VekLib Require Import Ops RingOps LinAlg.
From VekGen Require Import C01_gen.
Import ListNotations.

Inductive layout := Lr | Lc.

Definition lanes2 {A B D} (f : A -> B -> D) (l1 : list A) (l2 : list B) : list D :=
  map (fun xy => f (fst xy) (snd xy)) (combine l1 l2).

Section Spec.
  Variable C : cring.

  Definition absL (l : layout) (n : nat) (s : list C) : amat :=
    match l with Lr => abs_rows (c0 C) n s | Lc => abs_cols (c0 C) n s end.
  Definition MM (n : nat) : amat -> amat -> amat := mm (c0 C) (cadd C) (cmul C) n.
  Definition MV (n : nat) : amat -> avec -> avec := mv (c0 C) (cadd C) (cmul C) n.
  Definition VM (n : nat) : avec -> amat -> avec := vm (c0 C) (cadd C) (cmul C) n.
  Definition env_of (l : list C) : nat -> C := fun i => nth i l (c0 C).

  (** ** matrix * matrix: A (layout la) at offset 0, B (layout lb) at offset n², result in layout lo *)
  Definition is_mul (n : nat) (la lb lo : layout) (p : prog) : Prop :=
    forall a, exists s, crun C a p = Ret ([], s) /\ length s = n * n /\
      meq n (absL lo n s) (MM n (absL la n (tab (n * n) a 0)) (absL lb n (tab (n * n) a (n * n)))).

  Definition mul_table : list (nat * layout * layout * layout * prog) :=
    [ (2, Lr, Lr, Lr, p_mat2r_mul); (3, Lr, Lr, Lr, p_mat3r_mul); (4, Lr, Lr, Lr, p_mat4r_mul);
      (2, Lc, Lc, Lc, p_mat2c_mul); (3, Lc, Lc, Lc, p_mat3c_mul); (4, Lc, Lc, Lc, p_mat4c_mul);
      (* mixed layouts: rows * cols -> cols ; cols * rows -> rows *)
      (2, Lr, Lc, Lc, p_mat2r_mul_mixed); (3, Lr, Lc, Lc, p_mat3r_mul_mixed); (4, Lr, Lc, Lc, p_mat4r_mul_mixed);
      (2, Lc, Lr, Lr, p_mat2c_mul_mixed); (3, Lc, Lr, Lr, p_mat3c_mul_mixed); (4, Lc, Lr, Lr, p_mat4c_mul_mixed) ].
  Definition C01_mul_stmt : Prop :=
    Forall (fun '(n, la, lb, lo, p) => is_mul n la lb lo p) mul_table.

  (** ** matrix * column vector and row vector * matrix: M at offset 0, v at offset n² *)
  Definition is_mulv (n : nat) (l : layout) (p : prog) : Prop :=
    forall a, exists s, crun C a p = Ret ([], s) /\ length s = n /\
      veq n (abs_vec (c0 C) s) (MV n (absL l n (tab (n * n) a 0)) (abs_vec (c0 C) (tab n a (n * n)))).
  Definition is_vmul (n : nat) (l : layout) (p : prog) : Prop :=
    forall a, exists s, crun C a p = Ret ([], s) /\ length s = n /\
      veq n (abs_vec (c0 C) s) (VM n (abs_vec (c0 C) (tab n a (n * n))) (absL l n (tab (n * n) a 0))).
  Definition mulv_table : list (nat * layout * prog) :=
    [ (2, Lr, p_mat2r_mulv); (3, Lr, p_mat3r_mulv); (4, Lr, p_mat4r_mulv);
      (2, Lc, p_mat2c_mulv); (3, Lc, p_mat3c_mulv); (4, Lc, p_mat4c_mulv) ].
  Definition vmul_table : list (nat * layout * prog) :=
    [ (2, Lr, p_mat2r_vmul); (3, Lr, p_mat3r_vmul); (4, Lr, p_mat4r_vmul);
      (2, Lc, p_mat2c_vmul); (3, Lc, p_mat3c_vmul); (4, Lc, p_mat4c_vmul) ].
  Definition C01_mulv_stmt : Prop := Forall (fun '(n, l, p) => is_mulv n l p) mulv_table.
  Definition C01_vmul_stmt : Prop := Forall (fun '(n, l, p) => is_vmul n l p) vmul_table.

  (** ** identity: denotes the unit matrix and is neutral on both sides of the real product code *)
  Definition is_identity (n : nat) (l : layout) (p : prog) : Prop :=
    forall a, exists s, crun C a p = Ret ([], s) /\ length s = n * n /\
      meq n (absL l n s) (ident (c0 C) (c1 C)).
  Definition identity_table : list (nat * layout * prog) :=
    [ (2, Lr, p_mat2r_identity); (3, Lr, p_mat3r_identity); (4, Lr, p_mat4r_identity);
      (2, Lc, p_mat2c_identity); (3, Lc, p_mat3c_identity); (4, Lc, p_mat4c_identity) ].
  Definition C01_identity_stmt : Prop := Forall (fun '(n, l, p) => is_identity n l p) identity_table.

  Definition identity_neutral (n : nat) (la lb lo : layout) (pida pidb pmul : prog) : Prop :=
    forall sa sb, crun C (fun _ => c0 C) pida = Ret ([], sa) -> crun C (fun _ => c0 C) pidb = Ret ([], sb) ->
    forall s, length s = n * n ->
      (exists r, crun C (env_of (sa ++ s)) pmul = Ret ([], r) /\ meq n (absL lo n r) (absL lb n s)) /\
      (exists r, crun C (env_of (s ++ sb)) pmul = Ret ([], r) /\ meq n (absL lo n r) (absL la n s)).
  Definition neutral_table : list (nat * layout * layout * layout * prog * prog * prog) :=
    [ (2, Lr, Lr, Lr, p_mat2r_identity, p_mat2r_identity, p_mat2r_mul);
      (3, Lr, Lr, Lr, p_mat3r_identity, p_mat3r_identity, p_mat3r_mul);
      (4, Lr, Lr, Lr, p_mat4r_identity, p_mat4r_identity, p_mat4r_mul);
      (2, Lc, Lc, Lc, p_mat2c_identity, p_mat2c_identity, p_mat2c_mul);
      (3, Lc, Lc, Lc, p_mat3c_identity, p_mat3c_identity, p_mat3c_mul);
      (4, Lc, Lc, Lc, p_mat4c_identity, p_mat4c_identity, p_mat4c_mul);
      (2, Lr, Lc, Lc, p_mat2r_identity, p_mat2c_identity, p_mat2r_mul_mixed);
      (3, Lr, Lc, Lc, p_mat3r_identity, p_mat3c_identity, p_mat3r_mul_mixed);
      (4, Lr, Lc, Lc, p_mat4r_identity, p_mat4c_identity, p_mat4r_mul_mixed);
      (2, Lc, Lr, Lr, p_mat2c_identity, p_mat2r_identity, p_mat2c_mul_mixed);
      (3, Lc, Lr, Lr, p_mat3c_identity, p_mat3r_identity, p_mat3c_mul_mixed);
      (4, Lc, Lr, Lr, p_mat4c_identity, p_mat4r_identity, p_mat4c_mul_mixed) ].
  Definition C01_neutral_stmt : Prop :=
    Forall (fun '(n, la, lb, lo, pa, pb, pm) => identity_neutral n la lb lo pa pb pm) neutral_table.

  (** ** element-wise operators (storage order, hence layout independent), scalar broadcast, negation *)
  Definition is_ew2 (nn : nat) (o : op2) (p : prog) : Prop :=
    forall a, crun C a p = Ret ([], lanes2 (op2_of (cops C) o) (tab nn a 0) (tab nn a nn)).
  Definition is_ews (nn : nat) (o : op2) (p : prog) : Prop :=
    forall a, crun C a p = Ret ([], map (fun x => op2_of (cops C) o x (a nn)) (tab nn a 0)).
  Definition is_ew1 (nn : nat) (o : op1) (p : prog) : Prop :=
    forall a, crun C a p = Ret ([], map (op1_of (cops C) o) (tab nn a 0)).
  Definition ew2_table : list (nat * op2 * prog) :=
    [ (4, OMul, p_mat2r_mul_memberwise); (4, OAdd, p_mat2r_add); (4, OSub, p_mat2r_sub); (4, ODiv, p_mat2r_div); (4, ORem, p_mat2r_rem);
      (9, OMul, p_mat3r_mul_memberwise); (9, OAdd, p_mat3r_add); (9, OSub, p_mat3r_sub); (9, ODiv, p_mat3r_div); (9, ORem, p_mat3r_rem);
      (16, OMul, p_mat4r_mul_memberwise); (16, OAdd, p_mat4r_add); (16, OSub, p_mat4r_sub); (16, ODiv, p_mat4r_div); (16, ORem, p_mat4r_rem);
      (4, OMul, p_mat2c_mul_memberwise); (4, OAdd, p_mat2c_add); (4, OSub, p_mat2c_sub); (4, ODiv, p_mat2c_div); (4, ORem, p_mat2c_rem);
      (9, OMul, p_mat3c_mul_memberwise); (9, OAdd, p_mat3c_add); (9, OSub, p_mat3c_sub); (9, ODiv, p_mat3c_div); (9, ORem, p_mat3c_rem);
      (16, OMul, p_mat4c_mul_memberwise); (16, OAdd, p_mat4c_add); (16, OSub, p_mat4c_sub); (16, ODiv, p_mat4c_div); (16, ORem, p_mat4c_rem) ].
  Definition ews_table : list (nat * op2 * prog) :=
    [ (4, OMul, p_mat2r_muls); (4, OAdd, p_mat2r_adds); (4, OSub, p_mat2r_subs); (4, ODiv, p_mat2r_divs); (4, ORem, p_mat2r_rems);
      (9, OMul, p_mat3r_muls); (9, OAdd, p_mat3r_adds); (9, OSub, p_mat3r_subs); (9, ODiv, p_mat3r_divs); (9, ORem, p_mat3r_rems);
      (16, OMul, p_mat4r_muls); (16, OAdd, p_mat4r_adds); (16, OSub, p_mat4r_subs); (16, ODiv, p_mat4r_divs); (16, ORem, p_mat4r_rems);
      (4, OMul, p_mat2c_muls); (4, OAdd, p_mat2c_adds); (4, OSub, p_mat2c_subs); (4, ODiv, p_mat2c_divs); (4, ORem, p_mat2c_rems);
      (9, OMul, p_mat3c_muls); (9, OAdd, p_mat3c_adds); (9, OSub, p_mat3c_subs); (9, ODiv, p_mat3c_divs); (9, ORem, p_mat3c_rems);
      (16, OMul, p_mat4c_muls); (16, OAdd, p_mat4c_adds); (16, OSub, p_mat4c_subs); (16, ODiv, p_mat4c_divs); (16, ORem, p_mat4c_rems) ].
  Definition ew1_table : list (nat * op1 * prog) :=
    [ (4, ONeg, p_mat2r_neg); (9, ONeg, p_mat3r_neg); (16, ONeg, p_mat4r_neg);
      (4, ONeg, p_mat2c_neg); (9, ONeg, p_mat3c_neg); (16, ONeg, p_mat4c_neg) ].
  Definition C01_elementwise_stmt : Prop :=
    Forall (fun '(nn, o, p) => is_ew2 nn o p) ew2_table /\
    Forall (fun '(nn, o, p) => is_ews nn o p) ews_table /\
    Forall (fun '(nn, o, p) => is_ew1 nn o p) ew1_table.

  (** ** compound assignment = the returning operator; Default/One = identity; Zero = zero *)
  Definition same (p q : prog) : Prop := forall a, crun C a p = crun C a q.
  Definition same_table : list (prog * prog) :=
    [ (p_mat2r_mul_assign, p_mat2r_mul); (p_mat2r_muls_assign, p_mat2r_muls); (p_mat2r_add_assign, p_mat2r_add); (p_mat2r_sub_assign, p_mat2r_sub);
      (p_mat2r_div_assign, p_mat2r_div); (p_mat2r_rem_assign, p_mat2r_rem); (p_mat2r_adds_assign, p_mat2r_adds); (p_mat2r_subs_assign, p_mat2r_subs);
      (p_mat2r_divs_assign, p_mat2r_divs); (p_mat2r_rems_assign, p_mat2r_rems);
      (p_mat3r_mul_assign, p_mat3r_mul); (p_mat3r_muls_assign, p_mat3r_muls); (p_mat3r_add_assign, p_mat3r_add); (p_mat3r_sub_assign, p_mat3r_sub);
      (p_mat3r_div_assign, p_mat3r_div); (p_mat3r_rem_assign, p_mat3r_rem); (p_mat3r_adds_assign, p_mat3r_adds); (p_mat3r_subs_assign, p_mat3r_subs);
      (p_mat3r_divs_assign, p_mat3r_divs); (p_mat3r_rems_assign, p_mat3r_rems);
      (p_mat4r_mul_assign, p_mat4r_mul); (p_mat4r_muls_assign, p_mat4r_muls); (p_mat4r_add_assign, p_mat4r_add); (p_mat4r_sub_assign, p_mat4r_sub);
      (p_mat4r_div_assign, p_mat4r_div); (p_mat4r_rem_assign, p_mat4r_rem); (p_mat4r_adds_assign, p_mat4r_adds); (p_mat4r_subs_assign, p_mat4r_subs);
      (p_mat4r_divs_assign, p_mat4r_divs); (p_mat4r_rems_assign, p_mat4r_rems);
      (p_mat2c_mul_assign, p_mat2c_mul); (p_mat2c_muls_assign, p_mat2c_muls); (p_mat2c_add_assign, p_mat2c_add); (p_mat2c_sub_assign, p_mat2c_sub);
      (p_mat2c_div_assign, p_mat2c_div); (p_mat2c_rem_assign, p_mat2c_rem); (p_mat2c_adds_assign, p_mat2c_adds); (p_mat2c_subs_assign, p_mat2c_subs);
      (p_mat2c_divs_assign, p_mat2c_divs); (p_mat2c_rems_assign, p_mat2c_rems);
      (p_mat3c_mul_assign, p_mat3c_mul); (p_mat3c_muls_assign, p_mat3c_muls); (p_mat3c_add_assign, p_mat3c_add); (p_mat3c_sub_assign, p_mat3c_sub);
      (p_mat3c_div_assign, p_mat3c_div); (p_mat3c_rem_assign, p_mat3c_rem); (p_mat3c_adds_assign, p_mat3c_adds); (p_mat3c_subs_assign, p_mat3c_subs);
      (p_mat3c_divs_assign, p_mat3c_divs); (p_mat3c_rems_assign, p_mat3c_rems);
      (p_mat4c_mul_assign, p_mat4c_mul); (p_mat4c_muls_assign, p_mat4c_muls); (p_mat4c_add_assign, p_mat4c_add); (p_mat4c_sub_assign, p_mat4c_sub);
      (p_mat4c_div_assign, p_mat4c_div); (p_mat4c_rem_assign, p_mat4c_rem); (p_mat4c_adds_assign, p_mat4c_adds); (p_mat4c_subs_assign, p_mat4c_subs);
      (p_mat4c_divs_assign, p_mat4c_divs); (p_mat4c_rems_assign, p_mat4c_rems);
      (p_mat2r_default, p_mat2r_identity); (p_mat2r_one_trait, p_mat2r_identity); (p_mat2r_zero_trait, p_mat2r_zero);
      (p_mat3r_default, p_mat3r_identity); (p_mat3r_one_trait, p_mat3r_identity); (p_mat3r_zero_trait, p_mat3r_zero);
      (p_mat4r_default, p_mat4r_identity); (p_mat4r_one_trait, p_mat4r_identity); (p_mat4r_zero_trait, p_mat4r_zero);
      (p_mat2c_default, p_mat2c_identity); (p_mat2c_one_trait, p_mat2c_identity); (p_mat2c_zero_trait, p_mat2c_zero);
      (p_mat3c_default, p_mat3c_identity); (p_mat3c_one_trait, p_mat3c_identity); (p_mat3c_zero_trait, p_mat3c_zero);
      (p_mat4c_default, p_mat4c_identity); (p_mat4c_one_trait, p_mat4c_identity); (p_mat4c_zero_trait, p_mat4c_zero) ].
  Definition is_zero (nn : nat) (p : prog) : Prop := forall a, crun C a p = Ret ([], repeat (c0 C) nn).
  Definition zero_table : list (nat * prog) :=
    [ (4, p_mat2r_zero); (9, p_mat3r_zero); (16, p_mat4r_zero); (4, p_mat2c_zero); (9, p_mat3c_zero); (16, p_mat4c_zero) ].
  Definition C01_forms_stmt : Prop :=
    Forall (fun '(p, q) => same p q) same_table /\ Forall (fun '(nn, p) => is_zero nn p) zero_table.

  (** ** Vec4-as-2x2 helpers: plain, adjugate-times, times-adjugate, in row and column flavours *)
  Definition adj2 (M : @amat C) : @amat C := fun i j =>
    match i, j with
    | 0, 0 => M 1 1 | 0, 1 => copp C (M 0 1) | 1, 0 => copp C (M 1 0) | 1, 1 => M 0 0
    | _, _ => c0 C end.
  Definition is_m2 (l : layout) (fa fb : @amat C -> @amat C) (p : prog) : Prop :=
    forall a, exists s, crun C a p = Ret ([], s) /\ length s = 4 /\
      meq 2 (absL l 2 s) (MM 2 (fa (absL l 2 (tab 4 a 0))) (fb (absL l 2 (tab 4 a 4)))).
  Definition idm (M : @amat C) : @amat C := M.
  Definition m2_table : list (layout * (@amat C -> @amat C) * (@amat C -> @amat C) * prog) :=
    [ (Lr, idm, idm, p_vec4_mat2_rows_mul); (Lr, adj2, idm, p_vec4_mat2_rows_adj_mul); (Lr, idm, adj2, p_vec4_mat2_rows_mul_adj);
      (Lc, idm, idm, p_vec4_mat2_cols_mul); (Lc, adj2, idm, p_vec4_mat2_cols_adj_mul); (Lc, idm, adj2, p_vec4_mat2_cols_mul_adj) ].
  Definition C01_mat2_helpers_stmt : Prop :=
    Forall (fun '(l, fa, fb, p) => is_m2 l fa fb p) m2_table.
End Spec.

(** Non-vacuity: the integers form such a ring. *)
Definition Z_cring : cring := {|
  cT := Z; c0 := 0%Z; c1 := 1%Z; cadd := Z.add; cmul := Z.mul; csub := Z.sub; copp := Z.opp;
  cth := Zth;
  jc := fun p q => Z.quot p (Zpos q); jn := fun _ => 0%Z; j1 := fun _ x => x;
  j2 := fun o => match o with ODiv => Z.quot | ORem => Z.rem | _ => fun x _ => x end;
  jp := fun x n => Z.pow x n; jlt := Z.ltb; jeq := Z.eqb; cF := fun _ _ => 0%Z |}.
