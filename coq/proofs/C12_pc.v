Require Import Reals List ZArith Lra Lia Nsatz.
From VekLib Require Import Ops ROps LinAlg RLin.
From VekGen Require Import C12_gen.
From VekProofs Require Import C12_spec C12_pa.
Import ListNotations.
Local Open Scope R_scope.

Ltac clear_noneq :=
  repeat match goal with H : ?P |- _ =>
    lazymatch P with _ = _ => fail | _ => lazymatch type of P with Prop => clear H end end end.

(** the heart of slerp: with A + B = theta, cos theta = p.q, |p| = |q| = 1 *)
Lemma slerp_core (p0 p1 p2 p3 q0 q1 q2 q3 A B : R) :
  p0 * p0 + p1 * p1 + p2 * p2 + p3 * p3 = 1 -> q0 * q0 + q1 * q1 + q2 * q2 + q3 * q3 = 1 ->
  p0 * q0 + p1 * q1 + p2 * q2 + p3 * q3 = cos (A + B) -> sin (A + B) <> 0 ->
  let r := fun p q => (p * sin A + q * sin B) / sin (A + B) in
  r p0 q0 * r p0 q0 + r p1 q1 * r p1 q1 + r p2 q2 * r p2 q2 + r p3 q3 * r p3 q3 = 1 /\
  p0 * r p0 q0 + p1 * r p1 q1 + p2 * r p2 q2 + p3 * r p3 q3 = cos B.
Proof.
  intros Hp Hq Hpq Hs r. unfold r. clear r.
  rewrite cos_plus in Hpq. rewrite sin_plus in *.
  pose proof (sin2_cos2 A) as HA. pose proof (sin2_cos2 B) as HB. unfold Rsqr in HA, HB.
  set (sA := sin A) in *; set (cA := cos A) in *; set (sB := sin B) in *; set (cB := cos B) in *. clearbody sA cA sB cB.
  split; (field_simplify_eq; [ | exact Hs ]); cbv [Rpow_def.pow]; clear Hs; nsatz.
Qed.

Lemma acos_facts c : 0 <= c -> c < 1 -> cos (acos c) = c /\ 0 < sin (acos c).
Proof.
  intros H0 H1. split; [ apply cos_acos; lra | ].
  rewrite sin_acos by lra. apply sqrt_lt_R0. unfold Rsqr. nra.
Qed.

Lemma C12_slerp : C12_slerp_stmt.
Proof.
  intros k a. cbv zeta. intros [He0 He1] Hp Hq Hband.
  split; [ | split; [ | split ] ]; try (rrun_unfold; u12; reflexivity).
  2: { cbv zeta. repeat split; intros Ht; rrun_unfold; u12;
       repeat match goal with
       | |- context [Rltb (a 8%nat) 0] => first [ rewrite (proj2 (Rltb_true (a 8%nat) 0)) by lra | rewrite (proj2 (Rltb_false (a 8%nat) 0)) by lra ]
       | |- context [Rltb 1 (a 8%nat)] => first [ rewrite (proj2 (Rltb_true 1 (a 8%nat))) by lra | rewrite (proj2 (Rltb_false 1 (a 8%nat))) by lra ]
       end; reflexivity. }
  revert Hp Hq Hband. u12. intros Hp Hq Hband.
  set (d := a 0%nat * a 4%nat + a 1%nat * a 5%nat + a 2%nat * a 6%nat + a 3%nat * a 7%nat) in *.
  unfold returns. rrun_unfold. fold d.
  destruct (Rlt_dec d 0) as [Hd|Hd].
  - rewrite (proj2 (Rltb_true d 0) Hd).
    assert (Ha : Rabs d = - d) by (apply Rabs_left; lra). rewrite Ha in *.
    rewrite (proj2 (Rltb_false (1 - k Neps) (- d))) by lra.
    eexists. split; [ reflexivity | split; [ reflexivity | ] ].
    destruct (acos_facts (- d) ltac:(lra) ltac:(lra)) as [Hc Hs].
    set (th := acos (- d)) in *.
    assert (Eth : th = (1 - a 8%nat) * th + a 8%nat * th) by ring.
    pose proof (slerp_core (a 0%nat) (a 1%nat) (a 2%nat) (a 3%nat) (- a 4%nat) (- a 5%nat) (- a 6%nat) (- a 7%nat)
                  ((1 - a 8%nat) * th) (a 8%nat * th)) as SC.
    rewrite <- Eth in SC. cbv zeta in SC.
    destruct SC as [S1 S2]; try lra; try (rewrite Hc; unfold d; ring); try (rewrite <- Hq; ring).
    u12. split; [ | split; [ | split ] ].
    + first [ exact S1 | (etransitivity; [ | exact S1 ]; ring) ].
    + first [ exact S2 | (etransitivity; [ | exact S2 ]; ring) ].
    + intros Ht. rewrite Ht. cases_i; u12;
        replace ((1 - 0) * th) with th by ring; replace (0 * th) with 0 by ring; rewrite sin_0; field; lra.
    + intros Ht. rewrite Ht. cases_i; u12;
        replace ((1 - 1) * th) with 0 by ring; replace (1 * th) with th by ring; rewrite sin_0; field; lra.
  - rewrite (proj2 (Rltb_false d 0) Hd).
    assert (Ha : Rabs d = d) by (apply Rabs_pos_eq; lra). rewrite Ha in *.
    rewrite (proj2 (Rltb_false (1 - k Neps) d)) by lra.
    eexists. split; [ reflexivity | split; [ reflexivity | ] ].
    destruct (acos_facts d ltac:(lra) ltac:(lra)) as [Hc Hs].
    set (th := acos d) in *.
    assert (Eth : th = (1 - a 8%nat) * th + a 8%nat * th) by ring.
    pose proof (slerp_core (a 0%nat) (a 1%nat) (a 2%nat) (a 3%nat) (a 4%nat) (a 5%nat) (a 6%nat) (a 7%nat)
                  ((1 - a 8%nat) * th) (a 8%nat * th)) as SC.
    rewrite <- Eth in SC. cbv zeta in SC.
    destruct SC as [S1 S2]; try lra; try (rewrite Hc; unfold d; ring); try (rewrite <- Hq; ring).
    u12. split; [ | split; [ | split ] ].
    + first [ exact S1 | (etransitivity; [ | exact S1 ]; ring) ].
    + first [ exact S2 | (etransitivity; [ | exact S2 ]; ring) ].
    + intros Ht. rewrite Ht. cases_i; u12;
        replace ((1 - 0) * th) with th by ring; replace (0 * th) with 0 by ring; rewrite sin_0; field; lra.
    + intros Ht. rewrite Ht. cases_i; u12;
        replace ((1 - 1) * th) with 0 by ring; replace (1 * th) with th by ring; rewrite sin_0; field; lra.
Qed.
