(** * C15 — statements: Bezier extrema, bounding boxes, closest-point search (coarse phase), discretized length.
    Carrier: the real numbers; [k Neps] (T::epsilon()) is an arbitrary positive real. A coefficient that the
    code compares with epsilon is called *clean* when it is exactly zero or larger than epsilon in absolute
    value: optimality is stated for clean curves (a coefficient in (0, eps] is treated as zero by the code,
    which then misses an extremum by an amount of the order of eps). *)
Require Import Reals List ZArith Lia Lra.
From VekLib Require Import Ops ROps LinAlg RLin.
From VekGen Require Import C15_gen.
Import ListNotations.
Local Open Scope R_scope.

Definition pts (d : nat) (a : nat -> R) : nat -> nat -> R := fun i j => a (d * i + j)%nat.
Definition bern (deg : nat) (P : nat -> nat -> R) (t : R) (j : nat) : R :=
  match deg with
  | 2%nat => P 0%nat j * (1 - t) * (1 - t) + P 1%nat j * 2 * (1 - t) * t + P 2%nat j * t * t
  | _ => P 0%nat j * (1 - t) * (1 - t) * (1 - t) + P 1%nat j * 3 * (1 - t) * (1 - t) * t
         + P 2%nat j * 3 * (1 - t) * t * t + P 3%nat j * t * t * t
  end.
Definition bern' (deg : nat) (P : nat -> nat -> R) (t : R) (j : nat) : R :=
  match deg with
  | 2%nat => (P 1%nat j - P 0%nat j) * (1 - t) * 2 + (P 2%nat j - P 1%nat j) * t * 2
  | _ => (P 1%nat j - P 0%nat j) * (1 - t) * (1 - t) * 3 + (P 2%nat j - P 1%nat j) * 2 * (1 - t) * t * 3
         + (P 3%nat j - P 2%nat j) * t * t * 3
  end.
Definition unit (t : R) : Prop := 0 <= t <= 1.
Definition clean (eps x : R) : Prop := x = 0 \/ eps < Rabs x.

(** ** quadratic curves, per axis *)
(** second difference: the leading coefficient of the coordinate polynomial *)
Definition qdiv (P : nat -> nat -> R) (j : nat) : R := P 0%nat j - (P 1%nat j + P 1%nat j) + P 2%nat j.
Record qaxis := mk_qaxis { qd : nat; qj : nat; q_infl : prog; q_min : prog; q_max : prog; q_bounds : prog }.
Definition qaxes : list qaxis :=
  [ mk_qaxis 2 0 p_quad2_x_inflection p_quad2_min_x p_quad2_max_x p_quad2_x_bounds;
    mk_qaxis 2 1 p_quad2_y_inflection p_quad2_min_y p_quad2_max_y p_quad2_y_bounds;
    mk_qaxis 3 0 p_quad3_x_inflection p_quad3_min_x p_quad3_max_x p_quad3_x_bounds;
    mk_qaxis 3 1 p_quad3_y_inflection p_quad3_min_y p_quad3_max_y p_quad3_y_bounds;
    mk_qaxis 3 2 p_quad3_z_inflection p_quad3_min_z p_quad3_max_z p_quad3_z_bounds ]%nat.

(** the reported inflection is a zero of the derivative inside the unit interval; none is reported only if
    there is none (for a non-degenerate leading coefficient) *)
Definition C15_quad_inflection_stmt : Prop :=
  List.Forall (fun ax => forall k a, 0 < k Neps -> let P := pts (qd ax) a in let j := qj ax in
    exists f t, rrun k a (q_infl ax) = Ret ([f], [t]) /\
      (f = 1%Z -> unit t /\ bern' 2 P t j = 0) /\
      (f = 0%Z -> k Neps < Rabs (qdiv P j) -> forall u, unit u -> bern' 2 P u j <> 0) /\
      (f = 1%Z \/ f = 0%Z)) qaxes.
(** min/max parameters lie in [0,1] and, for clean curves, no point of the curve on [0,1] is lower / higher *)
Definition C15_quad_extrema_stmt : Prop :=
  List.Forall (fun ax => forall k a, 0 < k Neps -> let P := pts (qd ax) a in let j := qj ax in
    (exists t, rrun k a (q_min ax) = Ret ([], [t]) /\ unit t /\
       (clean (k Neps) (qdiv P j) -> forall u, unit u -> bern 2 P t j <= bern 2 P u j)) /\
    (exists t, rrun k a (q_max ax) = Ret ([], [t]) /\ unit t /\
       (clean (k Neps) (qdiv P j) -> forall u, unit u -> bern 2 P u j <= bern 2 P t j)) /\
    (exists t1 t2, rrun k a (q_bounds ax) = Ret ([], [t1; t2]) /\
       rrun k a (q_min ax) = Ret ([], [t1]) /\ rrun k a (q_max ax) = Ret ([], [t2]))) qaxes.

(** ** cubic curves, per axis: derivative a t^2 + b t + c *)
Definition ca (P : nat -> nat -> R) (j : nat) : R := 3 * (P 3%nat j - 3 * P 2%nat j + 3 * P 1%nat j - P 0%nat j).
Definition cb (P : nat -> nat -> R) (j : nat) : R := 6 * (P 2%nat j - 2 * P 1%nat j + P 0%nat j).
Definition cc (P : nat -> nat -> R) (j : nat) : R := 3 * (P 1%nat j - P 0%nat j).
Definition cdisc (P : nat -> nat -> R) (j : nat) : R := cb P j * cb P j - 4 * ca P j * cc P j.
(** every coefficient the code compares with epsilon is exactly zero or larger than epsilon *)
Definition cclean (eps : R) (P : nat -> nat -> R) (j : nat) : Prop :=
  clean eps (ca P j) /\ clean eps (cb P j) /\ clean eps (cc P j) /\ clean eps (cdisc P j).
Record caxis := mk_caxis { cd : nat; cj : nat; c_infl : prog; c_min : prog; c_max : prog; c_bounds : prog }.
Definition caxes : list caxis :=
  [ mk_caxis 2 0 p_cubic2_x_inflections p_cubic2_min_x p_cubic2_max_x p_cubic2_x_bounds;
    mk_caxis 2 1 p_cubic2_y_inflections p_cubic2_min_y p_cubic2_max_y p_cubic2_y_bounds;
    mk_caxis 3 0 p_cubic3_x_inflections p_cubic3_min_x p_cubic3_max_x p_cubic3_x_bounds;
    mk_caxis 3 1 p_cubic3_y_inflections p_cubic3_min_y p_cubic3_max_y p_cubic3_y_bounds;
    mk_caxis 3 2 p_cubic3_z_inflections p_cubic3_min_z p_cubic3_max_z p_cubic3_z_bounds ]%nat.

(** reported inflections are zeros of the derivative in the unit interval, and every zero of a derivative
    that is not identically zero inside (0,1) is reported *)
Definition C15_cubic_inflections_stmt : Prop :=
  List.Forall (fun ax => forall k a, 0 < k Neps -> let P := pts (cd ax) a in let j := cj ax in
    exists n t1 t2, rrun k a (c_infl ax) = Ret ([n], [t1; t2]) /\ (n = 0 \/ n = 1 \/ n = 2)%Z /\
      (cclean (k Neps) P j ->
         ((1 <= n)%Z -> unit t1 /\ bern' 3 P t1 j = 0) /\ (n = 2%Z -> unit t2 /\ bern' 3 P t2 j = 0) /\
         (forall m, 0 < m < 1 -> bern' 3 P m j = 0 -> ~ (ca P j = 0 /\ cb P j = 0 /\ cc P j = 0) ->
            ((1 <= n)%Z /\ m = t1) \/ (n = 2%Z /\ m = t2)))) caxes.
Definition C15_cubic_extrema_stmt : Prop :=
  List.Forall (fun ax => forall k a, 0 < k Neps -> let P := pts (cd ax) a in let j := cj ax in
    (exists t, rrun k a (c_min ax) = Ret ([], [t]) /\ unit t /\
       (cclean (k Neps) P j -> forall u, unit u -> bern 3 P t j <= bern 3 P u j)) /\
    (exists t, rrun k a (c_max ax) = Ret ([], [t]) /\ unit t /\
       (cclean (k Neps) P j -> forall u, unit u -> bern 3 P u j <= bern 3 P t j)) /\
    (exists t1 t2, rrun k a (c_bounds ax) = Ret ([], [t1; t2]) /\
       rrun k a (c_min ax) = Ret ([], [t1]) /\ rrun k a (c_max ax) = Ret ([], [t2]))) caxes.

(** ** closest-point search, coarse phase (the refinement loop is disabled: half interval 1/4 < epsilon 1/2) *)
Definition dist2 (d : nat) (v q : nat -> R) : R := fold_right Rplus 0 (map (fun j => (v j - q j) * (v j - q j)) (seq 0 d)).
Definition offv (a : nat -> R) (o : nat) : nat -> R := fun i => a (o + i)%nat.
Definition listv (l : list R) : nat -> R := fun i => nth i l 0.
Record scurve := mk_scurve { sdeg : nat; sdim : nat; s_coarse : prog; s_steps : prog }.
Definition scurves : list scurve :=
  [ mk_scurve 2 2 p_quad2_search_coarse p_quad2_search_by_steps2; mk_scurve 2 3 p_quad3_search_coarse p_quad3_search_by_steps2;
    mk_scurve 3 2 p_cubic2_search_coarse p_cubic2_search_by_steps2; mk_scurve 3 3 p_cubic3_search_coarse p_cubic3_search_by_steps2 ]%nat.
(** inputs: control points, query point q, then three samples (t_i, point_i) *)
Definition C15_search_stmt : Prop :=
  List.Forall (fun c => forall k a, let d := sdim c in let n := (d * S (sdeg c))%nat in
    let P := pts d a in let q := offv a n in
    let st (i : nat) := a (n + d + i * (1 + d))%nat in let sp (i : nat) := offv a (n + d + i * (1 + d) + 1)%nat in
    let endp := fun j => P (sdeg c) j in
    (~ k Neps < 1 / 2 -> rrun k a (s_coarse c) = Panic /\ rrun k a (s_steps c) = Panic) /\
    (k Neps < 1 / 2 ->
      (exists t pt, rrun k a (s_coarse c) = Ret ([], t :: pt) /\ length pt = d /\
         (* the result is the end point or one of the samples ... *)
         ((t = 1 /\ forall j, (j < d)%nat -> listv pt j = endp j) \/ exists i, (i < 3)%nat /\ t = st i /\ forall j, (j < d)%nat -> listv pt j = sp i j) /\
         (* ... and none of them is nearer to the query *)
         dist2 d (listv pt) q <= dist2 d endp q /\ (forall i, (i < 3)%nat -> dist2 d (listv pt) q <= dist2 d (sp i) q)) /\
      (exists t pt, rrun k a (s_steps c) = Ret ([], t :: pt) /\ length pt = d /\
         (t = 0 \/ t = 1 / 2 \/ t = 1) /\ (forall j, (j < d)%nat -> listv pt j = bern (sdeg c) P t j) /\
         (forall s, s = 0 \/ s = 1 / 2 \/ s = 1 -> dist2 d (listv pt) q <= dist2 d (fun j => bern (sdeg c) P s j) q)))) scurves.

(** ** bounding rectangle / box: one axis free, the others pinned to the control values 0, 1, 2(, 3):
    the box is given in curve coordinates: on the free axis its sides are the curve's coordinates at the
    parameters returned by the min/max functions (so, by the extrema theorems, it contains the curve and
    touches it on both sides for clean curves); on a pinned axis the curve is deg*t and the sides are 0 and deg *)
Definition spread (d ax : nat) (npt : nat) (a : nat -> R) : nat -> R :=
  fun k => if Nat.eqb (k mod d) ax then a (k / d)%nat else INR (k / d).
Record bbox := mk_bbox { bdeg : nat; bd : nat; bax : nat; b_prog : prog; b_min : prog; b_max : prog; bdim_out : nat }.
Definition bboxes_quad : list bbox :=
  [ mk_bbox 2 2 0 p_quad2_aabr_axis0 p_quad2_min_x p_quad2_max_x 2; mk_bbox 2 2 1 p_quad2_aabr_axis1 p_quad2_min_y p_quad2_max_y 2;
    mk_bbox 2 3 0 p_quad3_aabr_axis0 p_quad3_min_x p_quad3_max_x 2; mk_bbox 2 3 1 p_quad3_aabr_axis1 p_quad3_min_y p_quad3_max_y 2;
    mk_bbox 2 3 0 p_quad3_aabb_axis0 p_quad3_min_x p_quad3_max_x 3; mk_bbox 2 3 1 p_quad3_aabb_axis1 p_quad3_min_y p_quad3_max_y 3;
    mk_bbox 2 3 2 p_quad3_aabb_axis2 p_quad3_min_z p_quad3_max_z 3 ]%nat.
Definition bbox_ok (b : bbox) : Prop := forall k a, 0 < k Neps ->
  let full := spread (bd b) (bax b) (S (bdeg b)) a in let P := pts (bd b) full in
  exists t1 t2 s, rrun k full (b_min b) = Ret ([], [t1]) /\ rrun k full (b_max b) = Ret ([], [t2]) /\
    rrun k a (b_prog b) = Ret ([], s) /\
    (* min corner then max corner *)
    s = (map (fun j => if Nat.eqb j (bax b) then bern (bdeg b) P t1 j else 0) (seq 0 (bdim_out b)) ++
         map (fun j => if Nat.eqb j (bax b) then bern (bdeg b) P t2 j else INR (bdeg b)) (seq 0 (bdim_out b)))%list.
Definition C15_bbox_quad_stmt : Prop := List.Forall bbox_ok bboxes_quad.

(** ** discretized length: the inscribed polyline through the points at i/(n+1) *)
Definition seglen (d : nat) (f : R -> nat -> R) (s t : R) : R :=
  sqrt (fold_right Rplus 0 (map (fun j => (f t j - f s j) * (f t j - f s j)) (seq 0 d))).
Definition polylen (d : nat) (f : R -> nat -> R) (n : nat) : R :=
  fold_left (fun acc i => acc + seglen d f (INR i / INR (S n)) (INR (S i) / INR (S n))) (seq 0 (S n)) 0.
Record lcurve := mk_lcurve { ldeg : nat; ldim : nat; l_progs : list prog }.
Definition lcurves : list lcurve :=
  [ mk_lcurve 2 2 [p_quad2_length_0; p_quad2_length_1; p_quad2_length_2; p_quad2_length_3];
    mk_lcurve 2 3 [p_quad3_length_0; p_quad3_length_1; p_quad3_length_2; p_quad3_length_3];
    mk_lcurve 3 2 [p_cubic2_length_0; p_cubic2_length_1; p_cubic2_length_2; p_cubic2_length_3];
    mk_lcurve 3 3 [p_cubic3_length_0; p_cubic3_length_1; p_cubic3_length_2; p_cubic3_length_3] ]%nat.
(** length_by_discretization(n) is the polyline length, for the step counts 0..3 of each curve type *)
Definition C15_length_code_stmt : Prop :=
  List.Forall (fun c => forall k a, let P := pts (ldim c) a in
    forall n p, nth_error (l_progs c) n = Some p ->
      rrun k a p = Ret ([], [polylen (ldim c) (fun t j => bern (ldeg c) P t j) n])) lcurves.
(** for every curve (any function of the parameter), in dimension 2 and 3, and EVERY step count:
    at least the chord, and not decreased by doubling the number of segments *)
Definition C15_length_model_stmt : Prop :=
  forall d f, (d = 2 \/ d = 3)%nat -> forall n,
    seglen d f 0 1 <= polylen d f n /\ polylen d f n <= polylen d f (2 * n + 1).

(** the control polygon bounds the discretized length, for every step count *)
Definition V := nat -> R.
Definition nrm (d : nat) (v : V) : R := sqrt (fold_right Rplus 0 (map (fun j => v j * v j) (seq 0 d))).
Definition vsub (u v : V) : V := fun j => u j - v j.
(** control polygon length of a curve of degree 2 or 3 with control points [P i] *)
Definition cpl (deg d : nat) (P : nat -> V) : R :=
  match deg with
  | 2%nat => nrm d (vsub (P 1%nat) (P 0%nat)) + nrm d (vsub (P 2%nat) (P 1%nat))
  | _ => nrm d (vsub (P 1%nat) (P 0%nat)) + nrm d (vsub (P 2%nat) (P 1%nat)) + nrm d (vsub (P 3%nat) (P 2%nat))
  end.
Definition curve (deg : nat) (P : nat -> V) : R -> V := fun t j => bern deg (fun i k => P i k) t j.

Definition C15_length_polygon_stmt : Prop :=
  forall deg d, (deg = 2 \/ deg = 3)%nat -> (d = 2 \/ d = 3)%nat -> forall (P : nat -> V) n,
    polylen d (curve deg P) n <= cpl deg d P.
