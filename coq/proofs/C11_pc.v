Require Import Reals List ZArith Lra Lia.
From VekLib Require Import Ops ROps LinAlg RLin RSum.
From VekGen Require Import C11_gen.
From VekProofs Require Import C11_spec C11_pa C11_tac.
Import ListNotations.
Local Open Scope R_scope.

Lemma refract_facts n (t u v : nat -> R) eta c s :
  (forall i, (i < n)%nat -> t i = eta * u i - (eta * c + s) * v i) ->
  dotn n u u = 1 -> dotn n v v = 1 -> dotn n v u = c -> s * s = 1 - eta * eta * (1 - c * c) ->
  dotn n t t = 1 /\ (forall i, (i < n)%nat -> t i - dotn n t v * v i = eta * (u i - c * v i)) /\ dotn n t v = - s.
Proof.
  intros Ht Hu Hv Hc Hs. set (m := - (eta * c + s)). set (x := fun j : nat => eta * u j).
  assert (E : forall i, (i < n)%nat -> t i = x i + m * v i) by (intros i Hi; rewrite Ht by exact Hi; unfold m, x; ring).
  assert (Xv : dotn n x v = eta * c) by (unfold x; rewrite dotn_scale_l, (dotn_comm n u v), Hc; reflexivity).
  assert (Xx : dotn n x x = eta * eta) by (unfold x; rewrite dotn_scale_l, dotn_comm, dotn_scale_l, Hu; ring).
  assert (Dtv : dotn n t v = - s).
  { rewrite (dotn_ext n t _ v v E (fun _ _ => eq_refl)), dotn_lin_l, Xv, Hv. unfold m. ring. }
  split; [ | split; [ | exact Dtv ] ].
  - rewrite (dotn_ext n t _ t _ E E), dotn_lin_l, !dotn_lin_r, (dotn_comm n v x), Xv, Xx, Hv. unfold m. nra.
  - intros i Hi. rewrite Dtv, Ht by exact Hi. ring.
Qed.

Ltac rabs := unfold Rabs in *; repeat match goal with |- context [Rcase_abs ?x] => destruct (Rcase_abs x) end.
Ltac rm := unfold Rmin, Rmax in *;
  repeat match goal with
  | |- context [Rle_dec ?x ?y] =>
      lazymatch x with context [Rle_dec _ _] => fail | _ => idtac end;
      lazymatch y with context [Rle_dec _ _] => fail | _ => idtac end;
      destruct (Rle_dec x y)
  end.
Ltac pos := left; split; [ reflexivity | ].
Ltac neg := right; split; [ reflexivity | ].
Ltac lra' := first [ lra | nra | (intro; first [ lra | nra ]) ].
