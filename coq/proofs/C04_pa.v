Require Import Reals List ZArith Lra Lia Nsatz.
From VekLib Require Import Ops ROps LinAlg RLin.
From VekGen Require Import C04_gen.
From VekProofs Require Import C04_spec C04_tac.
Import ListNotations.
Local Open Scope R_scope.

Lemma C04_axis_constructors : C04_axis_constructors_stmt.
Proof. unfold C04_axis_constructors_stmt, axis_table. table; solve_exists; meq_cases; c04_unfold; ring. Qed.

Lemma C04_axis_rotations_proper : C04_axis_rotations_proper_stmt.
Proof.
  intros a b. cbv beta zeta.
  pose proof (cos_plus a b) as Hc. pose proof (sin_plus a b) as Hs.
  pose proof (sin2_cos2 a) as Ha. pose proof (sin2_cos2 b) as Hb. unfold Rsqr in Ha, Hb.
  set (sa := sin a) in *; set (ca := cos a) in *; set (sb := sin b) in *; set (cb := cos b) in *.
  set (sab := sin (a + b)) in *; set (cab := cos (a + b)) in *. clearbody sa ca sb cb sab cab.
  unfold orthogonal. split; [ table | ]; repeat split; try meq_cases; try veq_cases; c04_unfold; nsatz.
Qed.
