(** * C06 — statements: determinants are correct and the inverse functions really invert.
    Carrier: the real numbers (exact arithmetic). Inputs are all 16 entries / all rigid / all TRS matrices. *)
Require Import Reals List ZArith Lia.
From VekLib Require Import Ops ROps LinAlg RLin.
From VekGen Require Import C06_gen.
Import ListNotations.
Local Open Scope R_scope.

Inductive layout := Lr | Lc.
Definition RabsL (l : layout) (n : nat) (s : list R) : nat -> nat -> R :=
  match l with Lr => Rrows n s | Lc => Rcols n s end.
Definition storeL (l : layout) (n : nat) (A : nat -> nat -> R) : list R :=
  match l with Lr => store_rows n A | Lc => store_cols n A end.

(** ** determinant = Leibniz expansion of the abstract matrix, for every size and layout *)
Definition is_det (n : nat) (l : layout) (p : prog) : Prop :=
  forall k a, rrun k a p = Ret ([], [Rdet n (RabsL l n (tab (n * n)%nat a 0))]).
Definition det_table : list (nat * layout * prog) :=
  [ (2, Lr, p_mat2r_det); (3, Lr, p_mat3r_det); (4, Lr, p_mat4r_det);
    (2, Lc, p_mat2c_det); (3, Lc, p_mat3c_det); (4, Lc, p_mat4c_det) ]%nat.
Definition C06_det_leibniz_stmt : Prop := Forall (fun '(n, l, p) => is_det n l p) det_table.

(** invariant under transposition (hence under layout change of the same storage) and multiplicative *)
Definition C06_det_transpose_stmt : Prop :=
  forall A : nat -> nat -> R, Rdet 2 (transp A) = Rdet 2 A /\ Rdet 3 (transp A) = Rdet 3 A /\ Rdet 4 (transp A) = Rdet 4 A.
Definition C06_det_mul_stmt : Prop :=
  forall A B : nat -> nat -> R,
    Rdet 2 (Rmm 2 A B) = Rdet 2 A * Rdet 2 B /\ Rdet 3 (Rmm 3 A B) = Rdet 3 A * Rdet 3 B /\
    Rdet 4 (Rmm 4 A B) = Rdet 4 A * Rdet 4 B.

(** ** general 4x4 inverse: a two-sided inverse of every matrix with non-zero determinant *)
Definition two_sided_inverse (M X : nat -> nat -> R) : Prop :=
  meq 4 (Rmm 4 M X) Rident /\ meq 4 (Rmm 4 X M) Rident.
Definition inverts (l : layout) (p : prog) (k : named -> R) (a : nat -> R) : Prop :=
  exists s, rrun k a p = Ret ([], s) /\ length s = 16%nat /\
    two_sided_inverse (RabsL l 4 (tab 16 a 0)) (RabsL l 4 s).
Definition C06_inverse_stmt : Prop :=
  forall k a,
    (Rdet 4 (Rrows 4 (tab 16 a 0)) <> 0 -> inverts Lr p_mat4r_inverted k a /\ inverts Lr p_mat4r_invert k a) /\
    (Rdet 4 (Rcols 4 (tab 16 a 0)) <> 0 -> inverts Lc p_mat4c_inverted k a /\ inverts Lc p_mat4c_invert k a).

(** ** rigid transforms: rotation (orthogonal 3x3 block) plus translation *)
Definition orthogonal3 (r : nat -> nat -> R) : Prop :=
  meq 3 (Rmm 3 (transp r) r) Rident /\ meq 3 (Rmm 3 r (transp r)) Rident.
Definition affine_mat (m : nat -> nat -> R) (t : nat -> R) : nat -> nat -> R := fun i j =>
  match i, j with
  | 3%nat, 3%nat => 1 | 3%nat, _ => 0
  | _, 3%nat => t i
  | _, _ => m i j
  end.
Definition C06_rigid_inverse_stmt : Prop :=
  forall k (r : nat -> nat -> R) (t : nat -> R), orthogonal3 r ->
    Forall (fun '(l, p) => inverts l p k (env_of (storeL l 4 (affine_mat r t))))
      [ (Lr, p_mat4r_inverted_rigid); (Lr, p_mat4r_invert_rigid); (Lc, p_mat4c_inverted_rigid); (Lc, p_mat4c_invert_rigid) ].

(** ** translation * rotation * scale, scales not negligibly small (s_j^2 > eps) *)
Definition C06_affine_inverse_stmt : Prop :=
  forall k (r : nat -> nat -> R) (s t : nat -> R), orthogonal3 r ->
    0 < k Neps -> k Neps < s 0%nat * s 0%nat -> k Neps < s 1%nat * s 1%nat -> k Neps < s 2%nat * s 2%nat ->
    Forall (fun '(l, p) => inverts l p k (env_of (storeL l 4 (affine_mat (fun i j => r i j * s j) t))))
      [ (Lr, p_mat4r_inverted_affine); (Lr, p_mat4r_invert_affine); (Lc, p_mat4c_inverted_affine); (Lc, p_mat4c_invert_affine) ].

(** ** agreement with the general inverse: two-sided inverses are unique, and a matrix that has one has
    non-zero determinant, so the general inverse applies and returns the same matrix *)
Definition C06_inverse_unique_stmt : Prop :=
  forall M X Y : nat -> nat -> R, two_sided_inverse M X -> two_sided_inverse M Y -> meq 4 X Y.
Definition C06_invertible_det_stmt : Prop :=
  forall M X : nat -> nat -> R, two_sided_inverse M X -> Rdet 4 M <> 0.
Definition C06_fast_agrees_general_stmt : Prop :=
  forall k l pfast pgen a, In (l, pfast, pgen)
      [ (Lr, p_mat4r_inverted_rigid, p_mat4r_inverted); (Lc, p_mat4c_inverted_rigid, p_mat4c_inverted);
        (Lr, p_mat4r_inverted_affine, p_mat4r_inverted); (Lc, p_mat4c_inverted_affine, p_mat4c_inverted) ] ->
    inverts l pfast k a ->
    exists s1 s2, rrun k a pfast = Ret ([], s1) /\ rrun k a pgen = Ret ([], s2) /\
                  meq 4 (RabsL l 4 s1) (RabsL l 4 s2).
