Require Import List ZArith Lia String Bool.
From VekLib Require Import Ops RingOps LinAlg.
From VekGen Require Import C02_gen.
From VekProofs Require Import C02_spec C02_tac.
Import ListNotations.

Section Proofs.
  Variable C : cring.
  Lemma C02_construct : C02_construct_stmt C.
  Proof. unfold C02_construct_stmt. ty_table; all_has by_compute. Qed.
End Proofs.
