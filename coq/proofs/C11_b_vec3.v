Require Import Reals List ZArith Lra Lia.
From VekLib Require Import Ops ROps LinAlg RLin RSum.
From VekGen Require Import C11_gen.
From VekProofs Require Import C11_spec C11_pa C11_tac.
Import ListNotations.
Local Open Scope R_scope.
Lemma basic_vec3 : basic_ok 3 [p_vec3_dot; p_vec3_magnitude_squared; p_vec3_magnitude; p_vec3_distance_squared; p_vec3_distance; p_vec3_normalized; p_vec3_normalize; p_vec3_normalized_and_get_magnitude; p_vec3_normalize_and_get_magnitude; p_vec3_reflected; p_vec3_face_forward].
Proof. prove_basic 3%nat. Qed.
