(** * C16 — statements: disks, spheres, segments, rays: containment, distance and hit queries are exact.
    Carrier: the real numbers. A disk/sphere is stored (centre, radius); a segment (start, end);
    the ray query takes origin(3), direction(3), triangle v0 v1 v2 (9). *)
Require Import Reals List ZArith Lia.
From VekLib Require Import Ops ROps LinAlg RLin.
From VekGen Require Import C16_gen.
Import ListNotations.
Local Open Scope R_scope.

Definition off (a : nat -> R) (o : nat) : nat -> R := fun i => a (o + i)%nat.
Definition vecv (s : list R) : nat -> R := fun i => nth i s 0.
Definition flag_iff (r : res (out R)) (P : Prop) : Prop :=
  (r = Ret ([1%Z], []) /\ P) \/ (r = Ret ([0%Z], []) /\ ~ P).
Definition returns (r : res (out R)) (n : nat) (Q : (nat -> R) -> Prop) : Prop :=
  exists s, r = Ret ([], s) /\ length s = n /\ Q (vecv s).
Definition dist2 (d : nat) (p q : nat -> R) : R :=
  fold_right Rplus 0 (map (fun i => (p i - q i) * (p i - q i)) (seq 0 d)).
Definition dot (d : nat) (p q : nat -> R) : R := fold_right Rplus 0 (map (fun i => p i * q i) (seq 0 d)).

Section Ball.
  Variable d : nat.
  Variables (p_new p_unit p_point p_diameter p_rect p_aab p_contains p_collides p_colvec : prog).
  Let n := S d.
  (** containment / collision by centre distance; bounds = centre -+ radius per axis; constructors *)
  Definition S_ball : Prop :=
    forall k a, let c := off a 0 in let r := a d in let c2 := off a n in let r2 := a (n + d)%nat in let p := off a n in
      flag_iff (rrun k a p_contains) (sqrt (dist2 d c p) <= r) /\
      (0 <= r -> (sqrt (dist2 d c p) <= r <-> dist2 d c p <= r * r)) /\
      flag_iff (rrun k a p_collides) (sqrt (dist2 d c c2) <= r + r2) /\
      returns (rrun k a p_aab) (2 * d) (fun b => forall i, (i < d)%nat -> b i = c i - r /\ b (d + i)%nat = c i + r) /\
      returns (rrun k a p_rect) (2 * d) (fun b => forall i, (i < d)%nat -> b i = c i - r /\ b (d + i)%nat = r + r) /\
      returns (rrun k a p_diameter) 1 (fun v => v 0%nat = r + r) /\
      returns (rrun k a p_new) n (fun s => forall i, (i < n)%nat -> s i = a i) /\
      returns (rrun k a p_unit) n (fun s => (forall i, (i < d)%nat -> s i = a i) /\ s d = 1) /\
      returns (rrun k a p_point) n (fun s => (forall i, (i < d)%nat -> s i = a i) /\ s d = 0) /\
      (* moving the other shape by the collision vector leaves the two exactly tangent *)
      (0 < dist2 d c c2 -> 0 <= r + r2 ->
         returns (rrun k a p_colvec) d (fun v => dist2 d c (fun i => c2 i + v i) = (r + r2) * (r + r2))).
End Ball.

Definition C16_disk_sphere_stmt : Prop :=
  S_ball 2 p_disk_new p_disk_unit p_disk_point p_disk_diameter p_disk_rect p_disk_aab p_disk_contains_point p_disk_collides p_disk_collision_vector /\
  S_ball 3 p_sphere_new p_sphere_unit p_sphere_point p_sphere_diameter p_sphere_rect p_sphere_aab p_sphere_contains_point p_sphere_collides p_sphere_collision_vector /\
  (forall k a, returns (rrun k a p_disk_circumference) 1 (fun v => v 0%nat = 2 * PI * a 2%nat) /\
               returns (rrun k a p_disk_area) 1 (fun v => v 0%nat = PI * a 2%nat * a 2%nat) /\
               returns (rrun k a p_sphere_surface_area) 1 (fun v => v 0%nat = 4 * PI * a 3%nat * a 3%nat) /\
               returns (rrun k a p_sphere_volume) 1 (fun v => v 0%nat = 4 / 3 * PI * a 3%nat * a 3%nat * a 3%nat)).

(** ** segments: the projection is the nearest point of the segment *)
Definition on_seg (d : nat) (s e : nat -> R) (t : R) : nat -> R := fun i => s i + (e i - s i) * t.
Definition S_segment (d : nat) (p_proj p_dist p_into_range p_from_range : prog) : Prop :=
  forall k a, let s := off a 0 in let e := off a d in let p := off a (2 * d) in
    (0 < k Neps < 1 -> k Neps < dist2 d s e ->
       returns (rrun k a p_proj) d (fun c =>
         (exists t, 0 <= t <= 1 /\ forall i, (i < d)%nat -> c i = on_seg d s e t i) /\
         (forall u, 0 <= u <= 1 -> dist2 d p c <= dist2 d p (on_seg d s e u)))) /\
    (* a segment reduced to a point projects onto that point *)
    (dist2 d s e = 0 -> returns (rrun k a p_proj) d (fun c => forall i, (i < d)%nat -> c i = s i)) /\
    (* the distance function is the distance to the projection *)
    (forall c, rrun k a p_proj = Ret ([], c) -> returns (rrun k a p_dist) 1 (fun v => v 0%nat = sqrt (dist2 d (vecv c) p))) /\
    returns (rrun k a p_into_range) (2 * d) (fun r => forall i, (i < 2 * d)%nat -> r i = a i) /\
    returns (rrun k a p_from_range) (2 * d) (fun r => forall i, (i < 2 * d)%nat -> r i = a i).
Definition C16_segment_stmt : Prop :=
  S_segment 2 p_seg2_projected_point p_seg2_distance_to_point p_seg2_into_range p_seg2_from_range /\
  S_segment 3 p_seg3_projected_point p_seg3_distance_to_point p_seg3_into_range p_seg3_from_range.

(** ** ray / triangle (Moller-Trumbore): the Cramer solution of origin + t dir = v0 + u e1 + v e2 *)
Definition cross (u v : nat -> R) : nat -> R :=
  vecv [u 1%nat * v 2%nat - u 2%nat * v 1%nat; u 2%nat * v 0%nat - u 0%nat * v 2%nat; u 0%nat * v 1%nat - u 1%nat * v 0%nat].
Definition sub3 (u v : nat -> R) : nat -> R := fun i => u i - v i.
Definition dot3 (u v : nat -> R) : R := u 0%nat * v 0%nat + u 1%nat * v 1%nat + u 2%nat * v 2%nat.
Definition C16_ray_stmt : Prop :=
  forall k a,
    let o := off a 0 in let dir := off a 3 in let v0 := off a 6 in let v1 := off a 9 in let v2 := off a 12 in
    let e1 := sub3 v1 v0 in let e2 := sub3 v2 v0 in
    let h := cross dir e2 in let det := dot3 e1 h in
    let s := sub3 o v0 in let q := cross s e1 in
    let u := 1 / det * dot3 s h in let v := 1 / det * dot3 dir q in let t := 1 / det * dot3 e2 q in
    0 < k Neps ->
    (* (nearly) parallel: no hit *)
    (- k Neps < det < k Neps -> rrun k a p_ray_triangle_intersection = Ret ([0%Z], [])) /\
    (~ (- k Neps < det < k Neps) ->
       (* Some(t) exactly when the barycentric coordinates of the crossing point are inside the triangle *)
       ((0 <= u /\ 0 <= v /\ u + v <= 1) -> rrun k a p_ray_triangle_intersection = Ret ([1%Z], [t])) /\
       (~ (0 <= u /\ 0 <= v /\ u + v <= 1) -> rrun k a p_ray_triangle_intersection = Ret ([0%Z], [])) /\
       (* (t,u,v) is a solution: origin + t dir is the point v0 + u e1 + v e2 ... *)
       (forall i, (i < 3)%nat -> o i + t * dir i = v0 i + u * e1 i + v * e2 i) /\
       (* ... and the only one: any crossing of the line with the triangle's plane has these coordinates *)
       (forall t' u' v', (forall i, (i < 3)%nat -> o i + t' * dir i = v0 i + u' * e1 i + v' * e2 i) ->
                         t' = t /\ u' = u /\ v' = v)).

(** Ray::new(origin, direction) stores its arguments *)
Definition C16_ray_new_stmt : Prop := forall k a, rrun k a p_ray_new = Ret ([], [a 0%nat; a 1%nat; a 2%nat; a 3%nat; a 4%nat; a 5%nat]).
