(** * C20 — statements. Numeric lifts, casts and approximate equality are per-element.

    The element type is fully abstract: each lifted scalar operation is an uninterpreted function
    symbol [cF C id] of the ring [C], and each scalar-level boolean outcome ("is Some", "overflowed",
    "approximately equal") is the test [cF C flag args <> 0]. Function-symbol numbers are those of
    symx/src/syma.rs. Statements hold for all element values and every interpretation of the symbols,
    with [jeq C] the (arbitrary) equality test of [C]. *)
Require Import List ZArith Lia String Bool.
From VekLib Require Import Ops RingOps LinAlg Index.
From VekGen Require Import C20_gen.
Import ListNotations.
Open Scope string_scope.

Definition has := has_in index_C20.
Definition types : list (string * nat) :=
  [ ("vec2", 2); ("vec3", 3); ("vec4", 4); ("vec8", 8); ("vec16", 16); ("vec32", 32); ("vec64", 64);
    ("extent2", 2); ("extent3", 3); ("rgb", 3); ("rgba", 4); ("uv", 2); ("uvw", 3) ].
(** the overflowing lifts accumulate the flag with [|=] (2^n outcome combinations): all lanes at once up to
    4 lanes, one free lane at a time from 8 lanes on *)
Definition small_types := filter (fun tn : string * nat => Nat.leb (snd tn) 4) types.
Definition wide_types := filter (fun tn : string * nat => negb (Nat.leb (snd tn) 4)) types.
Definition mat_types : list (string * nat) :=
  [ ("mat2r", 4); ("mat3r", 9); ("mat4r", 16); ("mat2c", 4); ("mat3c", 9); ("mat4c", 16) ].
Definition for_types (ts : list (string * nat)) (P : string -> nat -> Prop) : Prop :=
  Forall (fun tn => P (fst tn) (snd tn)) ts.
Definition b2z (b : bool) : Z := if b then 1%Z else 0%Z.

Section Spec.
  Variable C : cring.
  Definition X (n off : nat) (a : nat -> C) : list C := tab n a off.
  Definition F (id : nat) (args : list C) : C := cF C id args.
  (** the scalar-level boolean carried by symbol [id] *)
  Definition holds (id : nat) (args : list C) : bool := negb (jeq C (c0 C) (F id args)).
  Definition cst (z : Z) : C := cstq (cops C) z 1.
  Definition pairs2 (n : nat) (a : nat -> C) : list (list C) := map (fun xy => [fst xy; snd xy]) (combine (X n 0 a) (X n n a)).
  Definition singles (n : nat) (a : nat -> C) : list (list C) := map (fun x => [x]) (X n 0 a).

  (** Option-returning lift: None exactly when some element is None, else every element's value *)
  Definition opt_lift (args : (nat -> C) -> list (list C)) (fl vl : nat) (p : prog) : Prop :=
    forall a, crun C a p = if forallb (holds fl) (args a) then Ret ([1%Z], map (F vl) (args a)) else Ret ([0%Z], []).
  Definition plain_lift (args : (nat -> C) -> list (list C)) (vl : nat) (p : prog) : Prop :=
    forall a, crun C a p = Ret ([], map (F vl) (args a)).
  (** overflowing lift: every element's wrapped value, flag set exactly when some element overflows *)
  Definition over_lift (args : (nat -> C) -> list (list C)) (vl : nat) (p : prog) : Prop :=
    forall a, crun C a p = Ret ([b2z (existsb (holds (vl + 1)) (args a))], map (F vl) (args a)).
  (** boolean lift: holds exactly when it holds for every element *)
  Definition all_lift (args : (nat -> C) -> list (list C)) (fl : nat) (p : prog) : Prop :=
    forall a, crun C a p = Ret ([b2z (forallb (holds fl) (args a))], []).

  Definition checked2_ops : list (string * nat) :=
    [ ("checked_add", 100); ("checked_sub", 102); ("checked_mul", 104); ("checked_div", 106); ("checked_rem", 108);
      ("checked_div_euclid", 112); ("checked_rem_euclid", 114) ].
  Definition plain2_ops : list (string * nat) :=
    [ ("wrapping_add", 200); ("wrapping_sub", 201); ("wrapping_mul", 202); ("saturating_add", 210); ("saturating_sub", 211);
      ("saturating_mul", 212); ("div_euclid", 231); ("rem_euclid", 232) ].
  Definition over2_ops : list (string * nat) := [ ("overflowing_add", 220); ("overflowing_sub", 222); ("overflowing_mul", 224) ].
  Definition cast_plain_ops : list (string * nat) := [ ("as", 250); ("az", 260); ("saturating_as", 263); ("wrapping_as", 264); ("unwrapped_as", 267) ].

  Definition C20_lifts_stmt : Prop := for_types types (fun ty n =>
    Forall (fun e => has (ty ++ "_" ++ fst e) (opt_lift (pairs2 n) (snd e) (snd e + 1))) checked2_ops /\
    has (ty ++ "_checked_neg") (opt_lift (singles n) 110 111) /\
    Forall (fun e => has (ty ++ "_" ++ fst e) (plain_lift (pairs2 n) (snd e))) plain2_ops /\
    has (ty ++ "_wrapping_neg") (plain_lift (singles n) 203) /\
    has (ty ++ "_inv") (plain_lift (singles n) 230)).

  Definition C20_overflowing_small_stmt : Prop := for_types small_types (fun ty n =>
    Forall (fun e => has (ty ++ "_" ++ fst e) (over_lift (pairs2 n) (snd e))) over2_ops /\
    has (ty ++ "_overflowing_as") (over_lift (singles n) 265)).
  (** wide vectors, one free lane [k] (operands [a 0], [a 1]) against literal constants elsewhere:
      the flag is 0 exactly when the scalar flag symbol of the free lane is 0 *)
  Definition lane_args2 (n k : nat) (a : nat -> C) : list (list C) :=
    map (fun j => if Nat.eqb j k then [a 0; a 1] else [cst (Z.of_nat (j + 1)); cst (Z.of_nat (j + 2))]) (seq 0 n).
  Definition lane_args1 (n k : nat) (a : nat -> C) : list (list C) :=
    map (fun j => if Nat.eqb j k then [a 0] else [cst (Z.of_nat (j + 1))]) (seq 0 n).
  Definition lane_ok (ty : string) (n k : nat) : Prop :=
    Forall (fun e => has (ty ++ "_" ++ fst e ++ "_lane" ++ nat_str k) (fun p =>
      forall a, crun C a p = if jeq C (c0 C) (F (snd e + 1) [a 0; a 1]) then Ret ([0%Z], map (F (snd e)) (lane_args2 n k a))
                             else Ret ([1%Z], map (F (snd e)) (lane_args2 n k a)))) over2_ops /\
    has (ty ++ "_overflowing_as_lane" ++ nat_str k) (fun p =>
      forall a, crun C a p = if jeq C (c0 C) (F 266 [a 0]) then Ret ([0%Z], map (F 265) (lane_args1 n k a))
                             else Ret ([1%Z], map (F 265) (lane_args1 n k a))).
  Definition C20_overflowing_wide_stmt : Prop := for_types wide_types (fun ty n => Forall (lane_ok ty n) (seq 0 n)).

  (** Zero / One / is_zero, approximate equality and casts, for vectors and matrices *)
  Definition approx_args (n : nat) (extra : (nat -> C) -> list C) (a : nat -> C) : list (list C) :=
    map (fun xy => fst xy :: snd xy :: extra a) (combine (X n 0 a) (X n n a)).
  Definition common_block (ty : string) (n : nat) : Prop :=
    has (ty ++ "_zero_trait") (fun p => forall a, crun C a p = Ret ([], repeat (c0 C) n)) /\
    has (ty ++ "_is_zero") (fun p => forall a, crun C a p = Ret ([b2z (forallb (fun x => jeq C x (c0 C)) (X n 0 a))], [])) /\
    has (ty ++ "_abs_diff_eq") (all_lift (approx_args n (fun a => [a (2 * n)])) 240) /\
    has (ty ++ "_relative_eq") (all_lift (approx_args n (fun a => [a (2 * n); a (2 * n + 1)])) 241) /\
    has (ty ++ "_ulps_eq") (all_lift (approx_args n (fun a => [a (2 * n); cst 7])) 242) /\
    has (ty ++ "_as") (plain_lift (singles n) 250) /\
    has (ty ++ "_numcast") (opt_lift (singles n) 251 252).
  Definition C20_vec_block_stmt : Prop := for_types types (fun ty n =>
    common_block ty n /\
    has (ty ++ "_one_trait") (fun p => forall a, crun C a p = Ret ([], repeat (c1 C) n)) /\
    Forall (fun e => has (ty ++ "_" ++ fst e) (plain_lift (singles n) (snd e))) cast_plain_ops /\
    has (ty ++ "_checked_as") (opt_lift (singles n) 261 262)).
  Definition ident_flat (m : nat) : list C := flat_map (fun i => map (fun j => if Nat.eqb i j then c1 C else c0 C) (seq 0 m)) (seq 0 m).
  Definition C20_mat_block_stmt : Prop := 
    for_types mat_types (fun ty nn => common_block ty nn) /\
    Forall (fun e => has (fst e ++ "_one_trait") (fun p => forall a, crun C a p = Ret ([], ident_flat (snd e))))
      [ ("mat2r", 2); ("mat3r", 3); ("mat4r", 4); ("mat2c", 2); ("mat3c", 3); ("mat4c", 4) ] /\
    has "quat_abs_diff_eq" (all_lift (approx_args 4 (fun a => [a 8])) 240) /\
    has "quat_relative_eq" (all_lift (approx_args 4 (fun a => [a 8; a 9])) 241) /\
    has "quat_ulps_eq" (all_lift (approx_args 4 (fun a => [a 8; cst 7])) 242) /\
    Forall (fun e => has (fst e) (plain_lift (singles (snd e)) 250))
      [ ("lineseg2_as", 4); ("lineseg3_as", 6); ("aabr_as", 4); ("aabb_as", 6); ("rect_as", 4); ("rect3_as", 6) ].
End Spec.
