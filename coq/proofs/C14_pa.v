Require Import Reals List ZArith Lra Lia.
From Coquelicot Require Import Coquelicot.
From VekLib Require Import Ops ROps LinAlg RLin.
From VekGen Require Import C14_gen.
From VekProofs Require Import C14_spec.
Import ListNotations.
Local Open Scope R_scope.

Ltac table := repeat (apply List.Forall_cons; [ | ]); try apply List.Forall_nil.
Ltac b_unfold :=
  cbv [deg dim p_eval p_deriv p_split p_rev p_rev_inplace p_flipx p_flipy p_flipx_in p_flipy_in p_from_seg p_from_range
       p_into_array p_tangent npts off vecv pts bern bern' powers transform Rlay absL
       fold_left fold_right map seq List.nth Nat.add Nat.mul Nat.sub Nat.eqb Nat.ltb Nat.leb] in *.
Ltac cases_j :=
  match goal with
  | |- forall j : nat, (j < _)%nat -> _ =>
      let j := fresh "j" in let Hj := fresh "Hj" in intros j Hj;
      repeat (destruct j as [|j]; [ | try (exfalso; lia) ]); try (exfalso; lia)
  end.
Ltac ret_with tac :=
  unfold returns; rrun_unfold; eexists; (split; [ reflexivity | split; [ reflexivity | tac ] ]).

Lemma C14_evaluate : C14_evaluate_stmt.
Proof.
  split; [ | split ].
  - table; intros k a; b_unfold; cbv zeta; (split; ret_with ltac:(cases_j; b_unfold; ring)).
  - intros dg P j [->| ->]; b_unfold; split; ring.
  - intros dg P j t. unfold bern, bern'. destruct dg as [|[|[|dg]]]; auto_derive; auto; ring.
Qed.

Lemma C14_split : C14_split_stmt.
Proof.
  table; intros k a; b_unfold; cbv zeta; ret_with ltac:(intros u; cases_j; b_unfold; repeat split; ring).
Qed.
