(** * C17, part B — the integer families, for every width [w] and both overflow modes.
    Inputs are arbitrary in-range machine integers. The guards are the exact no-overflow conditions of the
    current code; outside them the code overflows (see the [known_*] witnesses), which the property does not allow:
    these are recorded as known findings. *)
Require Import ZArith List Lia Bool.
From VekLib Require Import Ops MachineInt.
From VekGen Require Import C17_gen.
Import ListNotations.
Local Open Scope Z_scope.

Definition ienv (l : list Z) : nat -> Z := fun i => nth i l 0.
Definition iret1 (r : res (list Z * list Z)) (Q : Z -> Prop) : Prop := exists v, r = Ret ([], [v]) /\ Q v.
Definition wf (s : isem) : Prop := if signed s then 1 < width s else 0 < width s.
Definition tri (u m : Z) : Z := if m <? u then m else 2 * u - m.   (* triangle wave on [0, 2u) *)

(** clamp / is_between: any signedness *)
Definition C17_int_clamp_stmt : Prop :=
  forall s x lo hi, wf s -> in_range s x -> in_range s lo -> in_range s hi ->
    Forall (fun '(pc, pb) =>
      (lo <= hi -> irun s (ienv [x; lo; hi]) pc = Ret ([], [Z.min (Z.max x lo) hi]) /\
                   irun s (ienv [x; lo; hi]) pb = Ret ([], [if (lo <=? x) && (x <=? hi) then 1 else 0])) /\
      (hi < lo -> irun s (ienv [x; lo; hi]) pc = Panic /\ irun s (ienv [x; lo; hi]) pb = Panic))
    [ (p_s_clamped, p_s_is_between); (p_u_clamped, p_u_is_between) ].

(** wrapped_between (same code for both families): the unique value in [lo, hi) congruent to x *)
Definition wb_guard (s : isem) (x lo hi : Z) : Prop :=
  lo <= x \/ (lo - x <= imax s /\ (hi - lo) * ((lo - x) / (hi - lo) + 1) <= imax s).
Definition C17_int_wrapped_between_stmt : Prop :=
  forall s x lo hi, wf s -> in_range s x -> in_range s lo -> in_range s hi ->
    Forall (fun p =>
      (0 <= lo < hi -> wb_guard s x lo hi ->
         iret1 (irun s (ienv [x; lo; hi]) p) (fun r => lo <= r < hi /\ (r - x) mod (hi - lo) = 0)) /\
      (~ (0 <= lo < hi) -> irun s (ienv [x; lo; hi]) p = Panic))
    [ p_s_wrapped_between; p_u_wrapped_between ] /\
    (* for unsigned types the guard always holds: the result is correct for EVERY input *)
    (signed s = false -> 0 <= lo < hi -> wb_guard s x lo hi).

(** wrapped / pingpong *)
Definition C17_int_wrap_stmt : Prop :=
  forall s x u, wf s -> in_range s x -> in_range s u ->
    (* unsigned *)
    (signed s = false ->
       (0 < u -> irun s (ienv [x; u]) p_u_wrapped = Ret ([], [x mod u])) /\
       (u <= 0 -> irun s (ienv [x; u]) p_u_wrapped = Panic) /\
       (0 < u -> 2 * u <= imax s -> irun s (ienv [x; u]) p_u_pingpong = Ret ([], [tri u (x mod (2 * u))])) /\
       (u <= 0 -> irun s (ienv [x; u]) p_u_pingpong = Panic)) /\
    (* signed: wrapped(x,u) = wrapped_between(x,0,u); pingpong = triangle of wrapped(x, 2u) *)
    (signed s = true ->
       (0 < u -> wb_guard s x 0 u -> irun s (ienv [x; u]) p_s_wrapped = Ret ([], [x mod u])) /\
       (u <= 0 -> irun s (ienv [x; u]) p_s_wrapped = Panic) /\
       (0 < u -> 2 * u <= imax s -> wb_guard s x 0 (2 * u) ->
          irun s (ienv [x; u]) p_s_pingpong = Ret ([], [let m := x mod (2 * u) in if u <? m then 2 * u - m else m])) /\
       (u <= 0 -> irun s (ienv [x; u]) p_s_pingpong = Panic)) /\
    (forall m, 0 <= m < 2 * u -> 0 <= tri u m <= u).

(** known findings: outside the guards the code overflows although the result is representable *)
Definition i8 (d : bool) : isem := {| signed := true; width := 8; dbg := d |}.
Definition u8 (d : bool) : isem := {| signed := false; width := 8; dbg := d |}.
Definition C17_known_overflows_stmt : Prop :=
  (* (-100i8).wrapped_between(100, 120): panics with overflow checks, 116 without; the property demands 100 *)
  irun (i8 true) (ienv [-100; 100; 120]) p_s_wrapped_between = Panic /\
  irun (i8 false) (ienv [-100; 100; 120]) p_s_wrapped_between = Ret ([], [116]) /\
  (100 <= 100 < 120 /\ (100 - -100) mod (120 - 100) = 0) /\
  (* 5i8.pingpong(100) and 5u8.pingpong(200): upper + upper overflows; the property demands 5 *)
  irun (i8 true) (ienv [5; 100]) p_s_pingpong = Panic /\
  irun (i8 false) (ienv [5; 100]) p_s_pingpong = Panic /\
  irun (u8 true) (ienv [5; 200]) p_u_pingpong = Panic /\
  irun (u8 false) (ienv [5; 200]) p_u_pingpong = Ret ([], [5]).
