(** * C17, part B — the integer families, for every width [w] and both overflow modes.
    Inputs are arbitrary in-range machine integers. After the repairs recorded in known_findings.json no guard is left:
    every function is correct for every in-range input (the unsigned wrapped_between always was).
    *)
Require Import ZArith List Lia Bool.
From VekLib Require Import Ops MachineInt.
From VekGen Require Import C17_gen.
Import ListNotations.
Local Open Scope Z_scope.

Definition ienv (l : list Z) : nat -> Z := fun i => nth i l 0.
Definition iret1 (r : res (list Z * list Z)) (Q : Z -> Prop) : Prop := exists v, r = Ret ([], [v]) /\ Q v.
Definition wf (s : isem) : Prop := if signed s then 1 < width s else 0 < width s.
Definition tri (u m : Z) : Z := if m <? u then m else 2 * u - m.   (* triangle wave on [0, 2u) *)

(** clamp / is_between: any signedness *)
Definition C17_int_clamp_stmt : Prop :=
  forall s x lo hi, wf s -> in_range s x -> in_range s lo -> in_range s hi ->
    Forall (fun '(pc, pb) =>
      (lo <= hi -> irun s (ienv [x; lo; hi]) pc = Ret ([], [Z.min (Z.max x lo) hi]) /\
                   irun s (ienv [x; lo; hi]) pb = Ret ([], [if (lo <=? x) && (x <=? hi) then 1 else 0])) /\
      (hi < lo -> irun s (ienv [x; lo; hi]) pc = Panic /\ irun s (ienv [x; lo; hi]) pb = Panic))
    [ (p_s_clamped, p_s_is_between); (p_u_clamped, p_u_is_between) ].

(** wrapped_between: the unique value in [lo, hi) congruent to x.
    Unsigned family: the subtract-free-of-overflow form is correct for EVERY input (the guard below always holds there).
    Signed family (after the repair): offsets within a period, correct for EVERY input, no guard. *)
Definition wb_guard (s : isem) (x lo hi : Z) : Prop :=
  lo <= x \/ (lo - x <= imax s /\ (hi - lo) * ((lo - x) / (hi - lo) + 1) <= imax s).
Definition wb_post (x lo hi r : Z) : Prop := lo <= r < hi /\ (r - x) mod (hi - lo) = 0.
Definition C17_int_wrapped_between_stmt : Prop :=
  forall s x lo hi, wf s -> in_range s x -> in_range s lo -> in_range s hi ->
    (0 <= lo < hi ->
       (wb_guard s x lo hi -> iret1 (irun s (ienv [x; lo; hi]) p_u_wrapped_between) (wb_post x lo hi)) /\
       (signed s = false -> wb_guard s x lo hi) /\
       (signed s = true -> iret1 (irun s (ienv [x; lo; hi]) p_s_wrapped_between) (wb_post x lo hi))) /\
    (~ (0 <= lo < hi) -> irun s (ienv [x; lo; hi]) p_u_wrapped_between = Panic /\ irun s (ienv [x; lo; hi]) p_s_wrapped_between = Panic).

(** wrapped / pingpong: for EVERY in-range input (2 must be representable: true of every Rust integer type) *)
Definition C17_int_wrap_stmt : Prop :=
  forall s x u, wf s -> 2 <= imax s -> in_range s x -> in_range s u ->
    (signed s = false ->
       (0 < u -> irun s (ienv [x; u]) p_u_wrapped = Ret ([], [x mod u])) /\
       (u <= 0 -> irun s (ienv [x; u]) p_u_wrapped = Panic) /\
       (0 < u -> irun s (ienv [x; u]) p_u_pingpong = Ret ([], [tri u (x mod (2 * u))])) /\
       (u <= 0 -> irun s (ienv [x; u]) p_u_pingpong = Panic)) /\
    (signed s = true ->
       (0 < u -> irun s (ienv [x; u]) p_s_wrapped = Ret ([], [x mod u])) /\
       (u <= 0 -> irun s (ienv [x; u]) p_s_wrapped = Panic) /\
       (0 < u -> irun s (ienv [x; u]) p_s_pingpong = Ret ([], [let m := x mod (2 * u) in if u <? m then 2 * u - m else m])) /\
       (u <= 0 -> irun s (ienv [x; u]) p_s_pingpong = Panic)) /\
    (forall m, 0 <= m < 2 * u -> 0 <= tri u m <= u).

(** the inputs that overflowed before the repairs (commits recorded in known_findings.json) now give the demanded value,
    with and without overflow checks *)
Definition i8 (d : bool) : isem := {| signed := true; width := 8; dbg := d |}.
Definition u8 (d : bool) : isem := {| signed := false; width := 8; dbg := d |}.
Definition C17_repaired_stmt : Prop :=
  forall d, irun (i8 d) (ienv [-100; 100; 120]) p_s_wrapped_between = Ret ([], [100]) /\
            irun (i8 d) (ienv [5; 100]) p_s_pingpong = Ret ([], [5]) /\
            irun (u8 d) (ienv [5; 200]) p_u_pingpong = Ret ([], [5]) /\
            irun (i8 d) (ienv [-128; 127]) p_s_pingpong = Ret ([], [126]) /\
            irun (u8 d) (ienv [255; 255]) p_u_pingpong = Ret ([], [255]).
