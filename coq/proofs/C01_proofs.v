Require Import List ZArith Lia Ring.
From VekLib Require Import Ops RingOps LinAlg.
From VekGen Require Import C01_gen.
From VekProofs Require Import C01_spec.
Import ListNotations.

Ltac table := repeat (apply Forall_cons; [ | ]); try apply Forall_nil.
Ltac lin_unfold :=
  cbv [absL MM MV VM abs_rows abs_cols abs_vec mm mv vm sigma sum_from ident transp nth tab map seq
       Nat.add Nat.mul Nat.eqb adj2 idm env_of app].

Section Proofs.
  Variable C : cring.
  Add Ring Cring : (cth C).

  Ltac solve_exists :=
    intros a; eexists; split; [ crun_unfold; reflexivity | split; [ reflexivity | ] ].

  Lemma C01_mul : C01_mul_stmt C.
  Proof. unfold C01_mul_stmt, mul_table. table; solve_exists; meq_cases; lin_unfold; ring. Qed.

  Lemma C01_mulv : C01_mulv_stmt C.
  Proof. unfold C01_mulv_stmt, mulv_table. table; solve_exists; veq_cases; lin_unfold; ring. Qed.

  Lemma C01_vmul : C01_vmul_stmt C.
  Proof. unfold C01_vmul_stmt, vmul_table. table; solve_exists; veq_cases; lin_unfold; ring. Qed.

  Lemma C01_identity : C01_identity_stmt C.
  Proof. unfold C01_identity_stmt, identity_table. table; solve_exists; meq_cases; lin_unfold; reflexivity. Qed.

  Ltac destruct_list s H :=
    simpl in H; do 17 (try (destruct s as [|? s]; simpl in H; try discriminate H)).

  Lemma C01_neutral : C01_neutral_stmt C.
  Proof.
    unfold C01_neutral_stmt, neutral_table.
    table; intros sa sb Ha Hb s Hs;
      revert Ha Hb; crun_unfold; intros Ha Hb; injection Ha as <-; injection Hb as <-;
      destruct_list s Hs;
      (split; (eexists; split; [ crun_unfold; cbv [env_of app nth]; reflexivity | ]; meq_cases; lin_unfold; ring)).
  Qed.

  Lemma C01_elementwise : C01_elementwise_stmt C.
  Proof.
    unfold C01_elementwise_stmt, ew2_table, ews_table, ew1_table.
    repeat split; table; intros a; crun_unfold; reflexivity.
  Qed.

  Lemma C01_forms : C01_forms_stmt C.
  Proof.
    unfold C01_forms_stmt, same_table, zero_table.
    split; table; intros a; crun_unfold; reflexivity.
  Qed.

  Lemma C01_mat2_helpers : C01_mat2_helpers_stmt C.
  Proof. unfold C01_mat2_helpers_stmt, m2_table. table; solve_exists; meq_cases; lin_unfold; ring. Qed.
End Proofs.
