Require Import Reals List ZArith Lra Lia.
From VekLib Require Import Ops ROps LinAlg RLin.
From VekGen Require Import C12_gen.
From VekProofs Require Import C12_spec C12_pa.
Import ListNotations.
Local Open Scope R_scope.

Lemma C12_transform : C12_transform_stmt.
Proof.
  intros k a. cbv zeta.
  repeat (apply Forall_cons; [ | ]); try apply Forall_nil;
    intros so; unfold returns; rrun_unfold; cbv [List.nth]; split_conds; intros Hso; injection Hso as <-;
    (eexists; split; [ reflexivity | split; [ reflexivity | ] ]);
    (split; [ cases_i; u12; ring | split; [ cases_i; u12; reflexivity | cases_i; u12; ring ] ]).
Qed.
