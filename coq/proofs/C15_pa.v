Require Import Reals List ZArith Lia Lra Psatz.
From VekLib Require Import Ops ROps LinAlg RLin.
From VekGen Require Import C15_gen.
From VekProofs Require Import C15_spec.
Import ListNotations.
Local Open Scope R_scope.

Ltac table := repeat (apply List.Forall_cons; [ | ]); try apply List.Forall_nil.
Ltac b_unfold := cbv [bern bern' pts qdiv qd qj Nat.mul Nat.add unit clean] in *.

Lemma Rabs_gt_cases e x : e < Rabs x -> 0 < e -> (e < x \/ x < - e).
Proof. intros H He. unfold Rabs in H. destruct (Rcase_abs x); [ right | left ]; lra. Qed.
Lemma Rabs_le_cases e x : ~ e < Rabs x -> - e <= x <= e.
Proof. intros H. unfold Rabs in H. destruct (Rcase_abs x); lra. Qed.

(** name the quotient t0 = n / d by its defining equation *)
Ltac name_quot :=
  match goal with
  | |- context [?n / ?d] =>
      let t := fresh "t0" in let H := fresh "Ht0" in
      assert (H : d <> 0 -> d * (n / d) = n) by (intros; field; assumption);
      set (t := n / d) in *; clearbody t
  | H0 : context [?n / ?d] |- _ =>
      let t := fresh "t0" in let H := fresh "Ht0" in
      assert (H : d <> 0 -> d * (n / d) = n) by (intros; field; assumption);
      set (t := n / d) in *; clearbody t
  end.
Ltac abs_cases He :=
  repeat match goal with H : ?e < Rabs ?x |- _ => destruct (Rabs_gt_cases _ _ H He); clear H
                       | H : ~ ?e < Rabs ?x |- _ => apply Rabs_le_cases in H end.
(** rewrite everything as polynomials in S, D (second difference) and t0 (critical parameter) *)
Ltac to_poly S Cc E :=
  try (match goal with Ht0 : _ <> 0 -> _ * ?t = _ |- _ =>
         let Hq := fresh "Hq" in assert (Hq := Ht0 ltac:(lra)); clear Ht0 end);
  let D := fresh "D" in let HE := fresh "HE" in
  set (D := S - (Cc + Cc) + E) in *; assert (HE : E = D - S + Cc + Cc) by (unfold D; ring); clearbody D; subst E;
  try (match goal with Hq : D * ?t = S - Cc |- _ => let HC := fresh "HC" in assert (HC : Cc = S - D * t) by lra; subst Cc end);
  (* product hints for nra *)
  try (match goal with u : R, Hu : 0 <= ?u |- _ =>
    try (assert (0 <= D * u) by nra); try (assert (0 <= D * (1 - u)) by nra);
    try (assert (D * u <= 0) by nra); try (assert (D * (1 - u) <= 0) by nra);
    try (match goal with Hq : D * ?t0 = _ |- _ =>
      pose proof (Rle_0_sqr (u - t0)); pose proof (Rle_0_sqr t0); pose proof (Rle_0_sqr (1 - t0)); unfold Rsqr in * end) end).
Ltac clean_zero Hc := destruct Hc as [Hc|Hc]; [ | exfalso; unfold Rabs in Hc; destruct (Rcase_abs _); lra ].

Ltac extremum i0 i1 i2 He :=
  rrun_unfold; split_conds; eexists; (split; [ reflexivity | ]); b_unfold;
  match goal with a : nat -> R |- _ =>
    let S := fresh "S" in let Cc := fresh "Cc" in let E := fresh "E" in
    set (S := a i0) in *; set (Cc := a i1) in *; set (E := a i2) in *; clearbody S Cc E;
    try name_quot; abs_cases He;
    (split; [ try lra; try nra | ]);
    let Hc := fresh "Hc" in let u := fresh "u" in intros Hc u [? ?];
    try clean_zero Hc; to_poly S Cc E; nra
  end.

Lemma C15_quad_extrema : C15_quad_extrema_stmt.
Proof.
  unfold C15_quad_extrema_stmt, qaxes. table; intros k a He; cbv [qd qj q_min q_max q_bounds]; cbv zeta.
  - split; [ extremum 0%nat 2%nat 4%nat He | split; [ extremum 0%nat 2%nat 4%nat He | ] ].
    rrun_unfold; split_conds; first [ (do 2 eexists; repeat split; reflexivity) | (exfalso; lra) ].
  - split; [ extremum 1%nat 3%nat 5%nat He | split; [ extremum 1%nat 3%nat 5%nat He | ] ].
    rrun_unfold; split_conds; first [ (do 2 eexists; repeat split; reflexivity) | (exfalso; lra) ].
  - split; [ extremum 0%nat 3%nat 6%nat He | split; [ extremum 0%nat 3%nat 6%nat He | ] ].
    rrun_unfold; split_conds; first [ (do 2 eexists; repeat split; reflexivity) | (exfalso; lra) ].
  - split; [ extremum 1%nat 4%nat 7%nat He | split; [ extremum 1%nat 4%nat 7%nat He | ] ].
    rrun_unfold; split_conds; first [ (do 2 eexists; repeat split; reflexivity) | (exfalso; lra) ].
  - split; [ extremum 2%nat 5%nat 8%nat He | split; [ extremum 2%nat 5%nat 8%nat He | ] ].
    rrun_unfold; split_conds; first [ (do 2 eexists; repeat split; reflexivity) | (exfalso; lra) ].
Qed.

