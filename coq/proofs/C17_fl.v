(** * C17, floating-point clause for [wrapped]: "for floats lies in [0,upper] and is congruent to the input, both up to
    a few units in the last place of the input's magnitude". The translated program is run under the rounded
    interpretation of lib/FlOps.v (round to nearest, precision 53, unbounded exponent): for every real x and every
    upper > 0 the result differs from x - k*upper, for an integer k, by at most 3u(|x| + upper), and lies in
    [0, upper] up to 4u(|x| + upper), u = 2^-53. *)
Require Import Reals List ZArith Lra Psatz.
From Flocq Require Import Raux.
From VekLib Require Import Ops ROps FlOps.
From VekGen Require Import C17_gen.
Import ListNotations.
Local Open Scope R_scope.

Definition C17_float_wrapped_stmt : Prop :=
  forall k a, let x := a 0%nat in let u := a 1%nat in 0 < u ->
    exists r (kz : Z),
      run (Rfl_ops k) (noF 0) a p_f_wrapped = Ret ([], [r]) /\
      Rabs (r - (x - IZR kz * u)) <= 3 * uu * (Rabs x + u) /\
      - (4 * uu * (Rabs x + u)) <= r <= u + 4 * uu * (Rabs x + u).

Lemma Rabs_bounds v m : Rabs v <= m -> - m <= v <= m.
Proof. intros H. apply Rabs_le_inv. exact H. Qed.

Lemma C17_float_wrapped : C17_float_wrapped_stmt.
Proof.
  intros k a x u Hu. pose proof uu_small as Hs. pose proof (Rabs_pos x) as Px.
  destruct (rnd_rel (x / u)) as (d0 & H0 & E0).
  set (kz := Int_part (rnd (x / u))). set (K := IZR kz).
  destruct (rnd_rel (K * u)) as (d1 & H1 & E1).
  destruct (rnd_rel (x - rnd (K * u))) as (d2 & H2 & E2).
  exists (rnd (x - rnd (K * u))), kz.
  split.
  { unfold p_f_wrapped. cbv [run den_nodes den_tree den_cond den_node den_atom p_nodes p_tree nth app map Rfl_ops R_ops cstq named_of op1_of op2_of ltb].
    rewrite (proj2 (Rltb_true 0 (a 1%nat))) by exact Hu. reflexivity. }
  (* k <= q < k + 1 with q = (x/u)(1+d0), hence k u <= x (1+d0) < (k+1) u *)
  destruct (base_Int_part (rnd (x / u))) as (Hk1 & Hk2). fold kz in Hk1, Hk2. fold K in Hk1, Hk2.
  rewrite E0 in Hk1, Hk2.
  assert (Hq : x / u * (1 + d0) * u = x * (1 + d0)) by (field; lra).
  assert (L1 : K * u <= x * (1 + d0)) by (rewrite <- Hq; apply Rmult_le_compat_r; lra).
  assert (L2 : x * (1 + d0) < (K + 1) * u) by (rewrite <- Hq; apply Rmult_lt_compat_r; lra).
  destruct (Rabs_bounds _ _ H0) as (B0a & B0b). 
  assert (Xd : Rabs (x * d0) <= Rabs x * uu) by (apply Rabs_le_mul; [ lra | exact H0 ]).
  destruct (Rabs_bounds _ _ Xd) as (Xa & Xb).
  (* the exact remainder and the multiple *)
  set (R0 := x - K * u). assert (R0a : - (Rabs x * uu) <= R0) by (unfold R0; nra). assert (R0b : R0 <= u + Rabs x * uu) by (unfold R0; nra).
  assert (AR0 : Rabs R0 <= u + Rabs x * uu) by (apply Rabs_le; nra).
  assert (AKu : Rabs (K * u) <= Rabs x + (u + Rabs x * uu)).
  { replace (K * u) with (x - R0) by (unfold R0; ring). apply Rabs_le_sub; [ lra | exact AR0 ]. }
  rewrite E2, E1.
  assert (Err : Rabs ((x - K * u * (1 + d1)) * (1 + d2) - R0) <= 3 * uu * (Rabs x + u)).
  { replace ((x - K * u * (1 + d1)) * (1 + d2) - R0) with (R0 * d2 - K * u * d1 * (1 + d2)) by (unfold R0; ring).
    assert (T1 : Rabs (R0 * d2) <= (u + Rabs x * uu) * uu) by (apply Rabs_le_mul; assumption).
    assert (T2 : Rabs (K * u * d1 * (1 + d2)) <= (Rabs x + (u + Rabs x * uu)) * uu * (1 + uu)).
    { apply Rabs_le_mul; [ apply Rabs_le_mul; assumption | apply Rabs_le_1p; assumption ]. }
    eapply Rle_trans; [ apply Rabs_le_sub; [ exact T1 | exact T2 ] | ].
    assert (U2 : uu * uu <= uu * / 1000) by (apply Rmult_le_compat_l; lra).
    assert (Xu : 0 <= Rabs x * uu) by nra. assert (Xuu : Rabs x * uu * uu <= Rabs x * uu * / 1000) by nra.
    assert (Xuuu : Rabs x * uu * uu * uu <= Rabs x * uu * / 1000) by nra.
    assert (Uu : 0 <= u * uu) by nra. assert (Uuu : u * uu * uu <= u * uu * / 1000) by nra.
    nra. }
  split; [ exact Err | ].
  destruct (Rabs_bounds _ _ Err) as (Ea & Eb).
  assert (Xu : 0 <= Rabs x * uu) by nra.
  split; nra.
Qed.
