(** * C17, floating-point clause for [wrapped]: "for floats lies in [0,upper] and is congruent to the input, both up to
    a few units in the last place of the input's magnitude". The translated program is run under the rounded
    interpretation of lib/FlOps.v (round to nearest, precision 53, unbounded exponent): for every real x and every
    upper > 0 the result differs from x - k*upper, for an integer k, by at most 3u(|x| + upper), and lies in
    [0, upper] up to 4u(|x| + upper), u = 2^-53. *)
Require Import Reals List ZArith Lra Psatz.
From Flocq Require Import Raux.
From VekLib Require Import Ops ROps FlOps.
From VekGen Require Import C17_gen.
Import ListNotations.
Local Open Scope R_scope.

Definition C17_float_wrapped_stmt : Prop :=
  forall k a, let x := a 0%nat in let u := a 1%nat in 0 < u ->
    exists r (kz : Z),
      run (Rfl_ops k) (noF 0) a p_f_wrapped = Ret ([], [r]) /\
      Rabs (r - (x - IZR kz * u)) <= 3 * uu * (Rabs x + u) /\
      - (4 * uu * (Rabs x + u)) <= r <= u + 4 * uu * (Rabs x + u).

Lemma Rabs_bounds v m : Rabs v <= m -> - m <= v <= m.
Proof. intros H. apply Rabs_le_inv. exact H. Qed.

(** the rounded wrap computation on arbitrary reals: q = rnd(x/u), K = floor q, r = rnd(x - rnd(K u)) *)
Definition wrap_fl (x u : R) : R := rnd (x - rnd (IZR (Int_part (rnd (x / u))) * u)).
Definition wrap_k (x u : R) : Z := Int_part (rnd (x / u)).
Lemma wrap_core x u : 0 < u ->
  let K := IZR (wrap_k x u) in let R0 := x - K * u in
  - (Rabs x * uu) <= R0 <= u + Rabs x * uu /\
  Rabs (wrap_fl x u - R0) <= 3 * uu * (Rabs x + u) /\
  - (4 * uu * (Rabs x + u)) <= wrap_fl x u <= u + 4 * uu * (Rabs x + u).
Proof.
  intros Hu. pose proof uu_small as Hs. pose proof (Rabs_pos x) as Px.
  unfold wrap_fl, wrap_k. cbv zeta.
  destruct (rnd_rel (x / u)) as (d0 & H0 & E0).
  set (kz := Int_part (rnd (x / u))). set (K := IZR kz).
  destruct (rnd_rel (K * u)) as (d1 & H1 & E1).
  destruct (rnd_rel (x - rnd (K * u))) as (d2 & H2 & E2).
  destruct (base_Int_part (rnd (x / u))) as (Hk1 & Hk2). fold kz in Hk1, Hk2. fold K in Hk1, Hk2.
  rewrite E0 in Hk1, Hk2.
  assert (Hq : x / u * (1 + d0) * u = x * (1 + d0)) by (field; lra).
  assert (L1 : K * u <= x * (1 + d0)) by (rewrite <- Hq; apply Rmult_le_compat_r; lra).
  assert (L2 : x * (1 + d0) < (K + 1) * u) by (rewrite <- Hq; apply Rmult_lt_compat_r; lra).
  destruct (Rabs_bounds _ _ H0) as (B0a & B0b).
  assert (Xd : Rabs (x * d0) <= Rabs x * uu) by (apply Rabs_le_mul; [ lra | exact H0 ]).
  destruct (Rabs_bounds _ _ Xd) as (Xa & Xb).
  set (R0 := x - K * u). assert (R0a : - (Rabs x * uu) <= R0) by (unfold R0; nra). assert (R0b : R0 <= u + Rabs x * uu) by (unfold R0; nra).
  assert (AR0 : Rabs R0 <= u + Rabs x * uu) by (apply Rabs_le; nra).
  assert (AKu : Rabs (K * u) <= Rabs x + (u + Rabs x * uu)).
  { replace (K * u) with (x - R0) by (unfold R0; ring). apply Rabs_le_sub; [ lra | exact AR0 ]. }
  rewrite E2, E1.
  assert (Err : Rabs ((x - K * u * (1 + d1)) * (1 + d2) - R0) <= 3 * uu * (Rabs x + u)).
  { replace ((x - K * u * (1 + d1)) * (1 + d2) - R0) with (R0 * d2 - K * u * d1 * (1 + d2)) by (unfold R0; ring).
    assert (T1 : Rabs (R0 * d2) <= (u + Rabs x * uu) * uu) by (apply Rabs_le_mul; assumption).
    assert (T2 : Rabs (K * u * d1 * (1 + d2)) <= (Rabs x + (u + Rabs x * uu)) * uu * (1 + uu)).
    { apply Rabs_le_mul; [ apply Rabs_le_mul; assumption | apply Rabs_le_1p; assumption ]. }
    eapply Rle_trans; [ apply Rabs_le_sub; [ exact T1 | exact T2 ] | ].
    assert (U2 : uu * uu <= uu * / 1000) by (apply Rmult_le_compat_l; lra).
    assert (Xu : 0 <= Rabs x * uu) by nra. assert (Xuu : Rabs x * uu * uu <= Rabs x * uu * / 1000) by nra.
    assert (Xuuu : Rabs x * uu * uu * uu <= Rabs x * uu * / 1000) by nra.
    assert (Uu : 0 <= u * uu) by nra. assert (Uuu : u * uu * uu <= u * uu * / 1000) by nra.
    nra. }
  split; [ split; assumption | ]. split; [ exact Err | ].
  destruct (Rabs_bounds _ _ Err) as (Ea & Eb).
  assert (Xu : 0 <= Rabs x * uu) by nra.
  split; nra.
Qed.

Lemma C17_float_wrapped : C17_float_wrapped_stmt.
Proof.
  intros k a x u Hu.
  exists (wrap_fl x u), (wrap_k x u).
  split.
  { unfold p_f_wrapped, wrap_fl. cbv [run den_nodes den_tree den_cond den_node den_atom p_nodes p_tree nth app map Rfl_ops R_ops cstq named_of op1_of op2_of ltb].
    rewrite (proj2 (Rltb_true 0 (a 1%nat))) by exact Hu. reflexivity. }
  destruct (wrap_core x u Hu) as (_ & Err & Rng). split; [ exact Err | exact Rng ].
Qed.

(** ** wrapped_between under rounding: (x - lo) wrapped by (hi - lo), plus lo — every step rounded *)
Definition C17_float_wrapped_between_stmt : Prop :=
  forall k a, let x := a 0%nat in let lo := a 1%nat in let hi := a 2%nat in 0 <= lo < hi ->
    let M := Rabs x + 2 * lo + hi in
    exists r (kz : Z),
      run (Rfl_ops k) (noF 0) a p_f_wrapped_between = Ret ([], [r]) /\
      Rabs (r - (x - IZR kz * (hi - lo))) <= 10 * uu * M /\
      lo - 10 * uu * M <= r <= hi + 10 * uu * M.

Lemma rnd_pos x : 0 < x -> 0 < rnd x.
Proof.
  intros Hx. destruct (rnd_rel x) as (d & H & E). rewrite E. pose proof uu_small. apply Rabs_le_inv in H.
  apply Rmult_lt_0_compat; lra.
Qed.

Lemma C17_float_wrapped_between : C17_float_wrapped_between_stmt.
Proof.
  intros k a x lo hi Hb M. pose proof uu_small as Hs. pose proof (Rabs_pos x) as Px.
  set (P := hi - lo). assert (HP : 0 < P) by (unfold P; lra).
  set (x0 := rnd (x - lo)). set (Rr := rnd P). assert (HR : 0 < Rr) by (apply rnd_pos; exact HP).
  exists (rnd (wrap_fl x0 Rr + lo)), (wrap_k x0 Rr).
  split.
  { unfold p_f_wrapped_between, wrap_fl, x0, Rr, P.
    cbv [run den_nodes den_tree den_cond den_node den_atom p_nodes p_tree nth app map Rfl_ops R_ops cstq named_of op1_of op2_of ltb].
    rewrite (proj2 (Rltb_true (a 1%nat) (a 2%nat))) by (fold lo hi; lra).
    rewrite (proj2 (Rltb_false (a 1%nat) 0)) by (fold lo; lra).
    rewrite (proj2 (Rltb_true 0 (a 2%nat))) by (fold hi; lra).
    rewrite (proj2 (Rltb_true 0 (rnd (a 2%nat - a 1%nat)))) by (fold lo hi P Rr; exact HR).
    reflexivity. }
  assert (HM : 0 <= M) by (unfold M; lra).
  destruct (rnd_rel (x - lo)) as (da & Ha & Ea). fold x0 in Ea.
  destruct (rnd_rel P) as (db & Hb' & Eb). fold Rr in Eb.
  destruct (wrap_core x0 Rr HR) as ((R0a & R0b) & E1 & (Wa & Wb)). cbv zeta in *.
  set (K := IZR (wrap_k x0 Rr)) in *. set (w := wrap_fl x0 Rr) in *. set (R0 := x0 - K * Rr) in *.
  destruct (rnd_rel (w + lo)) as (dc & Hc & Ec). rewrite Ec.
  destruct (Rabs_bounds _ _ Ha) as (A1 & A2). destruct (Rabs_bounds _ _ Hb') as (B1 & B2). destruct (Rabs_bounds _ _ Hc) as (C1 & C2).
  (* sizes *)
  assert (Xl : Rabs (x - lo) <= Rabs x + lo) by (eapply Rle_trans; [ apply Rabs_le_sub; [ apply Rle_refl | apply Rle_refl ] | rewrite (Rabs_pos_eq lo) by lra; lra ]).
  assert (X0 : Rabs x0 <= (Rabs x + lo) * (1 + uu)) by (rewrite Ea; apply Rabs_le_mul; [ exact Xl | apply Rabs_le_1p; exact Ha ]).
  assert (RP : P * (1 - uu) <= Rr <= P * (1 + uu)) by (rewrite Eb; split; apply Rmult_le_compat_l; lra).
  assert (Pm : P <= hi) by (unfold P; lra).
  assert (S1 : Rabs x0 + Rr <= 1.002 * M) by (unfold M; nra).
  assert (S1' : 0 <= Rabs x0) by apply Rabs_pos.
  (* the wrap error and the size of the wrapped value *)
  assert (E1' : Rabs (w - R0) <= 3.01 * uu * M) by (eapply Rle_trans; [ exact E1 | nra ]).
  assert (AR0 : Rabs R0 <= 1.003 * M) by (apply Rabs_le; split; nra).
  assert (Aw : Rabs w <= 1.01 * M) by (apply Rabs_le; split; nra).
  (* K P from K R *)
  set (KP := K * P). assert (EKR : K * Rr = KP * (1 + db)) by (unfold KP; rewrite Eb; ring).
  assert (AKR : Rabs (K * Rr) <= 2.01 * M).
  { replace (K * Rr) with (x0 - R0) by (unfold R0; ring). eapply Rle_trans; [ apply Rabs_le_sub; [ apply Rle_refl | exact AR0 ] | nra ]. }
  assert (AKP : Rabs KP <= 2.02 * M).
  { assert (H1 : Rabs (K * Rr) = Rabs KP * Rabs (1 + db)) by (rewrite EKR; apply Rabs_mult).
    assert (H2 : 0.999 <= Rabs (1 + db)) by (rewrite Rabs_pos_eq; lra).
    pose proof (Rabs_pos KP). nra. }
  assert (AKPb : Rabs (KP * db) <= 2.02 * M * uu) by (apply Rabs_le_mul; assumption).
  assert (Axa : Rabs ((x - lo) * da) <= (Rabs x + lo) * uu) by (apply Rabs_le_mul; assumption).
  (* the result against the exact congruent value *)
  set (T := x - KP).
  assert (Dec : w + lo - T = (w - R0) + ((x - lo) * da - KP * db)).
  { unfold T, R0. rewrite Ea, EKR. ring. }
  assert (Mid : Rabs (w + lo - T) <= 6.1 * uu * M).
  { rewrite Dec. eapply Rle_trans; [ apply Rabs_le_add; [ exact E1' | apply Rabs_le_sub; [ exact Axa | exact AKPb ] ] | unfold M; nra ]. }
  assert (Awl : Rabs (w + lo) <= 2.01 * M).
  { eapply Rle_trans; [ apply Rabs_le_add; [ exact Aw | apply Rle_refl ] | rewrite (Rabs_pos_eq lo) by lra; unfold M; nra ]. }
  assert (Last : Rabs ((w + lo) * dc) <= 2.01 * M * uu) by (apply Rabs_le_mul; assumption).
  assert (Tot : Rabs ((w + lo) * (1 + dc) - T) <= 10 * uu * M).
  { replace ((w + lo) * (1 + dc) - T) with ((w + lo - T) + (w + lo) * dc) by ring.
    eapply Rle_trans; [ apply Rabs_le_add; [ exact Mid | exact Last ] | nra ]. }
  split; [ unfold T, KP in Tot; unfold K in Tot; unfold P in Tot; exact Tot | ].
  (* range *)
  destruct (Rabs_bounds _ _ E1') as (G1 & G2). destruct (Rabs_bounds _ _ Last) as (L1 & L2).
  assert (Rhi : Rr + lo <= hi + uu * M) by (unfold M, P in *; nra).
  assert (X0u : Rabs x0 * uu <= 1.002 * M * uu) by nra.
  split; nra.
Qed.

(** ** pingpong under rounding: upper - |wrapped(x, upper + upper) - upper|, every step rounded:
    within 20u(|x| + upper) of the triangle wave of period 2*upper at x, and in [0, upper] up to the same error *)
Definition C17_float_pingpong_stmt : Prop :=
  forall k a, let x := a 0%nat in let u := a 1%nat in 0 < u ->
    let S := Rabs x + u in
    exists r (kz : Z),
      run (Rfl_ops k) (noF 0) a p_f_pingpong = Ret ([], [r]) /\
      Rabs (r - (u - Rabs (x - IZR kz * (2 * u) - u))) <= 20 * uu * S /\
      - (30 * uu * S) <= r <= u + 30 * uu * S.

Lemma C17_float_pingpong : C17_float_pingpong_stmt.
Proof.
  intros k a x u Hu S. pose proof uu_small as Hs. pose proof (Rabs_pos x) as Px.
  set (U2 := rnd (u + u)). assert (HU2 : 0 < U2) by (apply rnd_pos; lra).
  set (w := wrap_fl x U2). set (t := rnd (w - u)).
  exists (rnd (u - Rabs t)), (wrap_k x U2).
  split.
  { unfold p_f_pingpong, t, w, wrap_fl, U2.
    cbv [run den_nodes den_tree den_cond den_node den_atom p_nodes p_tree nth app map Rfl_ops R_ops cstq named_of op1_of op2_of ltb].
    rewrite (proj2 (Rltb_true 0 (a 1%nat))) by (fold u; lra).
    rewrite (proj2 (Rltb_true 0 (rnd (a 1%nat + a 1%nat)))) by (fold u U2; exact HU2).
    reflexivity. }
  assert (HS : 0 < S) by (unfold S; lra).
  destruct (rnd_rel (u + u)) as (db & Hb & Eb). fold U2 in Eb.
  destruct (wrap_core x U2 HU2) as ((R0a & R0b) & E1 & (Wa & Wb)). cbv zeta in *.
  set (K := IZR (wrap_k x U2)) in *. fold w in E1, Wa, Wb. set (R0 := x - K * U2) in *.
  destruct (rnd_rel (w - u)) as (dc & Hc & Ec). fold t in Ec.
  destruct (rnd_rel (u - Rabs t)) as (dd & Hd & Ed). rewrite Ed.
  destruct (Rabs_bounds _ _ Hb) as (B1 & B2). destruct (Rabs_bounds _ _ Hc) as (C1 & C2). destruct (Rabs_bounds _ _ Hd) as (D1 & D2).
  assert (UU : 2 * u * (1 - uu) <= U2 <= 2 * u * (1 + uu)) by (rewrite Eb; split; nra).
  assert (S1 : Rabs x + U2 <= 2.01 * S) by (unfold S; nra).
  assert (E1' : Rabs (w - R0) <= 6.03 * uu * S) by (eapply Rle_trans; [ exact E1 | nra ]).
  assert (AR0 : Rabs R0 <= 2.02 * S) by (apply Rabs_le; unfold S; split; nra).
  assert (Aw : Rabs w <= 2.03 * S) by (apply Rabs_le; unfold S; split; nra).
  (* K*2u from K*U2 *)
  set (KP := K * (2 * u)). assert (EKR : K * U2 = KP * (1 + db)) by (unfold KP; rewrite Eb; ring).
  assert (AKR : Rabs (K * U2) <= 3.03 * S).
  { replace (K * U2) with (x - R0) by (unfold R0; ring). eapply Rle_trans; [ apply Rabs_le_sub; [ apply Rle_refl | exact AR0 ] | unfold S; nra ]. }
  assert (AKP : Rabs KP <= 3.04 * S).
  { assert (H1 : Rabs (K * U2) = Rabs KP * Rabs (1 + db)) by (rewrite EKR; apply Rabs_mult).
    assert (H2 : 0.999 <= Rabs (1 + db)) by (rewrite Rabs_pos_eq; lra).
    pose proof (Rabs_pos KP). nra. }
  assert (AKPb : Rabs (KP * db) <= 3.04 * S * uu) by (apply Rabs_le_mul; assumption).
  set (T := x - KP).
  assert (Dw : w - T = (w - R0) - KP * db) by (unfold T, R0; rewrite EKR; ring).
  assert (Mw : Rabs (w - T) <= 9.1 * uu * S).
  { rewrite Dw. eapply Rle_trans; [ apply Rabs_le_sub; [ exact E1' | exact AKPb ] | nra ]. }
  (* t against T - u *)
  assert (Awu : Rabs (w - u) <= 3.03 * S) by (eapply Rle_trans; [ apply Rabs_le_sub; [ exact Aw | apply Rle_refl ] | rewrite (Rabs_pos_eq u) by lra; unfold S; nra ]).
  assert (Mt : Rabs (t - (T - u)) <= 12.2 * uu * S).
  { rewrite Ec. replace ((w - u) * (1 + dc) - (T - u)) with ((w - T) + (w - u) * dc) by ring.
    eapply Rle_trans; [ apply Rabs_le_add; [ exact Mw | apply Rabs_le_mul; [ exact Awu | exact Hc ] ] | nra ]. }
  assert (Mabs : Rabs (Rabs t - Rabs (T - u)) <= 12.2 * uu * S) by (eapply Rle_trans; [ apply Rabs_triang_inv2 | exact Mt ]).
  assert (At : Rabs t <= 3.04 * S).
  { rewrite Ec. eapply Rle_trans; [ apply Rabs_le_mul; [ exact Awu | apply Rabs_le_1p; exact Hc ] | nra ]. }
  assert (Aut : Rabs (u - Rabs t) <= 4.04 * S).
  { eapply Rle_trans; [ apply Rabs_le_sub; [ apply Rle_refl | rewrite Rabs_Rabsolu; exact At ] | rewrite (Rabs_pos_eq u) by lra; unfold S; nra ]. }
  set (V := u - Rabs (T - u)).
  assert (Tot : Rabs ((u - Rabs t) * (1 + dd) - V) <= 20 * uu * S).
  { replace ((u - Rabs t) * (1 + dd) - V) with (- (Rabs t - Rabs (T - u)) + (u - Rabs t) * dd) by (unfold V; ring).
    eapply Rle_trans; [ apply Rabs_le_add; [ rewrite Rabs_Ropp; exact Mabs | apply Rabs_le_mul; [ exact Aut | exact Hd ] ] | nra ]. }
  split; [ unfold V, T, KP, K in Tot; exact Tot | ].
  (* range of the exact triangle value: T is within a few ulps of [0, 2u] *)
  assert (Tr : - (4.1 * uu * S) <= T <= 2 * u + 6.1 * uu * S).
  { destruct (Rabs_bounds _ _ AKPb) as (Q1 & Q2).
    assert (T = R0 + KP * db) by (unfold T, R0; rewrite EKR; ring).
    assert (Rabs x * uu <= S * uu) by (unfold S; nra).
    assert (U2 <= 2 * u + 2 * (S * uu)) by (unfold S; nra).
    assert (0 <= S * uu) by nra.
    split; lra. }
  assert (Vr : - (6.1 * uu * S) <= V <= u).
  { unfold V. pose proof (Rabs_pos (T - u)). assert (0 <= uu * S) by nra. split; [ | lra ].
    assert (Rabs (T - u) <= u + 6.1 * uu * S) by (apply Rabs_le; split; lra). lra. }
  destruct (Rabs_bounds _ _ Tot) as (G1 & G2).
  assert (0 <= uu * S) by nra.
  split; lra.
Qed.
