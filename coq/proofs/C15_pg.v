Require Import Reals List ZArith Lia Lra Psatz.
From VekLib Require Import Ops ROps LinAlg RLin.
From VekGen Require Import C15_gen.
From VekProofs Require Import C15_spec C15_pa.
Import ListNotations.
Local Open Scope R_scope.

Ltac s_unfold := cbv [dist2 offv listv pts bern fold_right map seq nth Nat.add Nat.mul sdeg sdim s_coarse s_steps length] in *.

Lemma C15_search : C15_search_stmt.
Proof.
  unfold C15_search_stmt, scurves. table; intros k a; cbv [sdeg sdim s_coarse s_steps]; cbv zeta; (split; [ intros Hn | intros Hp ]).
  all: rrun_unfold.
  all: try (rewrite (proj2 (Rltb_false (k Neps) (1 / 2)) Hn); split; reflexivity).
  all: rewrite (proj2 (Rltb_true (k Neps) (1 / 2)) Hp).
  all: split; split_conds; do 2 eexists; (split; [ reflexivity | ]); (split; [ reflexivity | ]); s_unfold.
  (* coarse: which candidate, then the distance comparisons *)
  all: try (split; [ first [ (left; split; [ reflexivity | intros j Hj; repeat (destruct j as [|j]; [ reflexivity | ]); exfalso; lia ])
                           | (right; exists 0%nat; split; [ lia | split; [ reflexivity | intros j Hj; repeat (destruct j as [|j]; [ reflexivity | ]); exfalso; lia ] ])
                           | (right; exists 1%nat; split; [ lia | split; [ reflexivity | intros j Hj; repeat (destruct j as [|j]; [ reflexivity | ]); exfalso; lia ] ])
                           | (right; exists 2%nat; split; [ lia | split; [ reflexivity | intros j Hj; repeat (destruct j as [|j]; [ reflexivity | ]); exfalso; lia ] ]) ]
                   | split; [ nra | intros i Hi; destruct i as [|[|[|i]]]; try (exfalso; lia); s_unfold; nra ] ]).
  (* by steps *)
  all: try (split; [ first [ left; reflexivity | right; left; reflexivity | right; right; reflexivity ]
                   | split; [ intros j Hj; repeat (destruct j as [|j]; [ s_unfold; field | ]); exfalso; lia
                            | intros s [-> | [-> | ->]]; s_unfold; nra ] ]).
Qed.
