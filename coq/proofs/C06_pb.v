Require Import Reals List ZArith Lra Lia.
From VekLib Require Import Ops ROps LinAlg RLin.
From VekGen Require Import C06_gen.
From VekProofs Require Import C06_spec C06_tac.
Import ListNotations.
Local Open Scope R_scope.
Lemma inverse_r k a : Rdet 4 (Rrows 4 (tab 16 a 0)) <> 0 -> inverts Lr p_mat4r_inverted k a.
Proof. intros Hd. solve_general_inverse Hd. Qed.
