Require Import Reals List ZArith Lra Lia.
From VekLib Require Import Ops ROps LinAlg RLin RSum.
From VekGen Require Import C11_gen.
From VekProofs Require Import C11_spec C11_pa C11_tac.
Import ListNotations.
Local Open Scope R_scope.
Lemma basic_extent2 : basic_ok 2 [p_extent2_dot; p_extent2_magnitude_squared; p_extent2_magnitude; p_extent2_distance_squared; p_extent2_distance; p_extent2_normalized; p_extent2_normalize; p_extent2_normalized_and_get_magnitude; p_extent2_normalize_and_get_magnitude; p_extent2_reflected; p_extent2_face_forward].
Proof. prove_basic 2%nat. Qed.
