Require Import Reals List ZArith Lra Lia.
From VekLib Require Import Ops ROps LinAlg RLin RSum.
From VekGen Require Import C11_gen.
From VekProofs Require Import C11_spec C11_pa.
Import ListNotations.
Local Open Scope R_scope.

Ltac ret1_refl := unfold ret1; rrun_unfold; eexists; split; [ reflexivity | ].

Ltac mag_part n uu :=
  ret1_refl; split; [ s_unfold; congr_ring
  | etransitivity; [ apply sqrt_sqrt; match goal with |- 0 <= ?e => replace e with (dotn n uu uu) by (s_unfold; congr_ring) end; apply dotn_self_nonneg | s_unfold; congr_ring ] ].

Ltac prove_basic n :=
  intros k a; cbv zeta; u11;
  split; [ ret1_refl; s_unfold; congr_ring | ];
  split; [ ret1_refl; s_unfold; congr_ring | ];
  split; [ mag_part n (fun i : nat => a i) | ];
  split; [ ret1_refl; s_unfold; congr_ring | ];
  split; [ mag_part n (fun i : nat => a i - a (n + i)%nat) | ];
  split; [ let Hpos := fresh "Hpos" in intros Hpos; unfold returns; rrun_unfold; eexists; (split; [ reflexivity | split; [ reflexivity | ] ]);
           apply (unit_of_scaled n _ (fun i : nat => a i) (sqrt (dotn n (fun i : nat => a i) (fun i : nat => a i))));
           [ apply sqrt_sqrt; apply dotn_self_nonneg
           | apply Rgt_not_eq; apply sqrt_lt_R0; exact Hpos
           | cases_i; s_unfold; congr_ring ] | ];
  split; [ rrun_unfold; reflexivity | ];
  split; [ let s := fresh "s" in let Hs := fresh "Hs" in intros s; rrun_unfold; intros Hs; injection Hs as <-; cbv [app]; s_unfold; congr_ring | ];
  split; [ rrun_unfold; reflexivity | ];
  split; [ unfold returns; rrun_unfold; eexists; (split; [ reflexivity | split; [ reflexivity | ] ]);
           (split; [ cases_i; s_unfold; ring
                   | let Hv := fresh "Hv" in intros Hv;
                     apply (reflect_facts n _ (fun i : nat => a i) (fun i : nat => a (n + i)%nat)); [ cases_i; s_unfold; ring | exact Hv ] ]) | ];
  unfold returns; rrun_unfold; split_conds; eexists; (split; [ reflexivity | split; [ reflexivity | ] ]);
  (split; let Hd := fresh "Hd" in intros Hd; try (exfalso; revert Hd; s_unfold; lra); cases_i; s_unfold; reflexivity).


