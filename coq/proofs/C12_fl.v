(** * C12, floating-point clause: "the fast and the precise formula agree ... to rounding error in floats".
    The translated scalar lerp programs are run under the ROUNDED interpretation of lib/FlOps.v (every operation rounded
    to nearest in precision 53, unbounded exponent; overflow/underflow/NaN not modelled). For every real from, to and
    every factor in [0,1] both results are within 4 u (|from| + |to|) of the exact value, hence within 8 u (|from| + |to|)
    of each other, u = 2^-53. *)
Require Import Reals List ZArith Lra Psatz.
From VekLib Require Import Ops ROps FlOps.
From VekGen Require Import C12_gen.
Import ListNotations.
Local Open Scope R_scope.

Definition flrun (k : named -> R) (a : nat -> R) (p : prog) : res (out R) := run (Rfl_ops k) (noF 0) a p.

Definition C12_float_lerp_stmt : Prop :=
  forall k a, let f := a 0%nat in let t := a 1%nat in let x := a 2%nat in
    0 <= x <= 1 ->
    let exact := f + x * (t - f) in let B := Rabs f + Rabs t in
    exists r1 r2,
      flrun k a p_s_lerp_unclamped = Ret ([], [r1]) /\ flrun k a p_s_lerp_unclamped_precise = Ret ([], [r2]) /\
      Rabs (r1 - exact) <= 4 * uu * B /\ Rabs (r2 - exact) <= 4 * uu * B /\ Rabs (r1 - r2) <= 8 * uu * B.

Lemma one_plus_two d e a b : Rabs d <= a -> Rabs e <= b -> Rabs ((1 + d) * (1 + e) - 1) <= a + b + a * b.
Proof.
  intros Hd He. replace ((1 + d) * (1 + e) - 1) with (d + e + d * e) by ring.
  apply Rabs_le_add; [ apply Rabs_le_add; assumption | apply Rabs_le_mul; assumption ].
Qed.

Lemma fast_bound f t x d1 d2 : 0 <= x <= 1 -> Rabs d1 <= uu -> Rabs d2 <= uu ->
  Rabs ((x * ((t - f) * (1 + d1)) + f) * (1 + d2) - (f + x * (t - f))) <= 4 * uu * (Rabs f + Rabs t).
Proof.
  intros Hx H1 H2. pose proof uu_small as Hu. pose proof (Rabs_pos f) as Pf. pose proof (Rabs_pos t) as Pt.
  set (B := Rabs f + Rabs t) in *.
  assert (HA : Rabs (x * (t - f)) <= 1 * B).
  { apply Rabs_le_mul; [ rewrite Rabs_pos_eq; lra | unfold B; rewrite Rplus_comm; apply Rabs_le_sub; lra ]. }
  replace ((x * ((t - f) * (1 + d1)) + f) * (1 + d2) - (f + x * (t - f)))
    with (x * (t - f) * d1 * (1 + d2) + (x * (t - f) + f) * d2) by ring.
  assert (T1 : Rabs (x * (t - f) * d1 * (1 + d2)) <= 1 * B * uu * (1 + uu)).
  { apply Rabs_le_mul; [ apply Rabs_le_mul; assumption | apply Rabs_le_1p; assumption ]. }
  assert (T2 : Rabs ((x * (t - f) + f) * d2) <= (1 * B + Rabs f) * uu).
  { apply Rabs_le_mul; [ apply Rabs_le_add; [ assumption | lra ] | assumption ]. }
  eapply Rle_trans; [ apply Rabs_triang | ].
  assert (Hf : Rabs f <= B) by (unfold B; lra). assert (HB : 0 <= B) by (unfold B; lra).
  assert (Huu : B * uu * uu <= B * uu * 1) by (apply Rmult_le_compat_l; [ nra | lra ]).
  assert (Hfu : Rabs f * uu <= B * uu) by (apply Rmult_le_compat_r; lra).
  assert (HBu : 0 <= B * uu) by nra.
  lra.
Qed.

Lemma precise_bound f t x d3 d4 d5 d6 : 0 <= x <= 1 -> Rabs d3 <= uu -> Rabs d4 <= uu -> Rabs d5 <= uu -> Rabs d6 <= uu ->
  Rabs ((f * ((1 - x) * (1 + d3)) * (1 + d4) + t * x * (1 + d5)) * (1 + d6) - (f + x * (t - f))) <= 4 * uu * (Rabs f + Rabs t).
Proof.
  intros Hx H3 H4 H5 H6. pose proof uu_small as Hu. pose proof (Rabs_pos f) as Pf. pose proof (Rabs_pos t) as Pt.
  replace ((f * ((1 - x) * (1 + d3)) * (1 + d4) + t * x * (1 + d5)) * (1 + d6) - (f + x * (t - f)))
    with (f * (1 - x) * ((1 + ((1 + d3) * (1 + d4) - 1)) * (1 + d6) - 1) + t * x * ((1 + d5) * (1 + d6) - 1)) by ring.
  pose proof (one_plus_two d3 d4 uu uu H3 H4) as Q1.
  pose proof (one_plus_two _ d6 _ uu Q1 H6) as P1.
  pose proof (one_plus_two d5 d6 uu uu H5 H6) as P2.
  assert (A1 : Rabs (f * (1 - x)) <= Rabs f * 1) by (apply Rabs_le_mul; [ lra | rewrite Rabs_pos_eq; lra ]).
  assert (A2 : Rabs (t * x) <= Rabs t * 1) by (apply Rabs_le_mul; [ lra | rewrite Rabs_pos_eq; lra ]).
  pose proof (Rabs_le_mul _ _ _ _ A1 P1) as T1. pose proof (Rabs_le_mul _ _ _ _ A2 P2) as T2.
  eapply Rle_trans; [ apply Rabs_triang | ].
  assert (U2 : uu * uu <= uu * / 1000) by (apply Rmult_le_compat_l; lra).
  assert (U3 : uu * uu * uu <= uu * / 1000) by nra.
  assert (G1 : uu + uu + uu * uu + uu + (uu + uu + uu * uu) * uu <= 4 * uu) by nra.
  assert (G2 : uu + uu + uu * uu <= 4 * uu) by nra.
  assert (S1 : Rabs f * 1 * (uu + uu + uu * uu + uu + (uu + uu + uu * uu) * uu) <= Rabs f * (4 * uu)) by (rewrite Rmult_1_r; apply Rmult_le_compat_l; lra).
  assert (S2 : Rabs t * 1 * (uu + uu + uu * uu) <= Rabs t * (4 * uu)) by (rewrite Rmult_1_r; apply Rmult_le_compat_l; lra).
  lra.
Qed.

Lemma C12_float_lerp : C12_float_lerp_stmt.
Proof.
  intros k a f t x Hx exact B.
  exists (rnd (x * rnd (t - f) + f)), (rnd (rnd (f * rnd (1 - x)) + rnd (t * x))).
  split; [ reflexivity | split; [ reflexivity | ] ].
  destruct (rnd_rel (t - f)) as (d1 & H1 & E1). rewrite E1.
  destruct (rnd_rel (x * ((t - f) * (1 + d1)) + f)) as (d2 & H2 & E2). rewrite E2.
  destruct (rnd_rel (1 - x)) as (d3 & H3 & E3). rewrite E3.
  destruct (rnd_rel (f * ((1 - x) * (1 + d3)))) as (d4 & H4 & E4). rewrite E4.
  destruct (rnd_rel (t * x)) as (d5 & H5 & E5). rewrite E5.
  destruct (rnd_rel (f * ((1 - x) * (1 + d3)) * (1 + d4) + t * x * (1 + d5))) as (d6 & H6 & E6). rewrite E6.
  pose proof (fast_bound f t x d1 d2 Hx H1 H2) as F1.
  pose proof (precise_bound f t x d3 d4 d5 d6 Hx H3 H4 H5 H6) as F2.
  fold exact in F1, F2. fold B in F1, F2.
  split; [ exact F1 | split; [ exact F2 | ] ].
  match goal with |- Rabs (?r1 - ?r2) <= _ => replace (r1 - r2) with ((r1 - exact) - (r2 - exact)) by ring end.
  eapply Rle_trans; [ apply Rabs_le_sub; [ exact F1 | exact F2 ] | lra ].
Qed.
