#!/usr/bin/env python3
"""Regenerate MANIFEST.json from bin/propinfo.py."""
import json, os, sys
ROOT = os.path.dirname(os.path.dirname(os.path.abspath(__file__)))
sys.path.insert(0, os.path.join(ROOT, "bin"))
import propinfo
ids = [json.loads(l)["id"] for l in open(os.path.join(ROOT, "properties.jsonl"))]
checks = []; na = []
for i in ids:
    p = propinfo.PROPS.get(i)
    if p and p.get("claimed"):
        checks.append({
            "property_id": i,
            "quick_cmd": "./check %s --tier quick" % i,
            "thorough_cmd": "./check %s --tier thorough" % i,
            "evidence_file": "/verif/evidence/%s.json" % i,
            "replay_cmd_template": "./check %s --replay {path}" % i,
            "engine": ("coq model + extracted-model correspondence" if p.get("engine") == "B" else "symx+coq"),
            "level_claimed": {"category": "proof", "text": p["level_text"], "design_ref": p.get("design_ref", "DESIGN.md section 7")},
            "level_note": p["level_note"],
            "technique": p["technique"],
        })
    else:
        na.append({"property_id": i, "reason": (p or {}).get("na_reason", "check not built yet in this round (planned, see DESIGN.md section 7); not claimed until its theorems and tie are committed")})
m = {
    "version": 1,
    "setup_cmd": "bin/setup",
    "hooks": {"guard": "vek_verif", "enable": "RUSTFLAGS='--cfg vek_verif' (no hook is needed so far: symx uses only vek's public API, public fields and the source text of src/ops.rs)",
              "baseline_off_cmd": "cd /repo && cargo nextest run --workspace --no-fail-fast --offline || cargo test --workspace --no-fail-fast --offline",
              "source_commits": [], "add_only": True},
    "engines": [
        {"name": "symx+coq", "path": "/verif/symx, /verif/coq", "serves_properties": [c["property_id"] for c in checks],
         "kind_free_text": "translator (real compiled vek code run on symbolic scalars -> deep-embedded Gallina programs, regenerated and self-checked every run) + hand-written Coq theorems about those programs"}],
    "checks": checks,
    "not_applicable": na,
    "notes": "See DESIGN.md. ./check <id> rebuilds the translator against /repo's working tree, regenerates the model, re-checks the theorems, and on failure searches for a concrete failing input.",
}
json.dump(m, open(os.path.join(ROOT, "MANIFEST.json"), "w"), indent=1)
print("MANIFEST.json: %d checks, %d not claimed" % (len(checks), len(na)))
