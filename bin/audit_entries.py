#!/usr/bin/env python3
"""List translated entry points that no statement mentions (table-based specs) and record fields never used.
Name-indexed specs (C02, C19, C20) look entries up by string and fail on a missing one, so they are skipped."""
import re, glob, os
ROOT = os.path.dirname(os.path.dirname(os.path.abspath(__file__)))
for gen in sorted(glob.glob(os.path.join(ROOT, "build/gen/C*_gen.v"))):
    prop = os.path.basename(gen)[:3]
    names = re.findall(r'^Definition (p_\w+) : prog', open(gen).read(), flags=re.M)
    specs = ''.join(open(f).read() for f in glob.glob(os.path.join(ROOT, 'coq/proofs/%s_*.v' % prop)) + glob.glob(os.path.join(ROOT, 'coq/Properties/%s*.v' % prop)))
    if 'has_in index_' in specs or 'Definition has ' in specs:
        print(prop, "name-indexed,", len(names), "entries"); continue
    un = [n for n in names if not re.search(r'\b' + re.escape(n) + r'\b', specs)]
    print(prop, len(names), "entries, not mentioned by any statement:", un)
for f in sorted(glob.glob(os.path.join(ROOT, 'coq/proofs/*_spec.v'))):
    s = open(f).read()
    for m in re.finditer(r'Record (\w+) := (\w+) \{([^}]*)\}', s):
        for fl in [x.strip().split(':')[0].strip() for x in m.group(3).split(';') if ': prog' in x]:
            if len(re.findall(r'\b' + re.escape(fl) + r'\b', s)) <= 1: print(os.path.basename(f), m.group(1), "field never used:", fl)
