#!/usr/bin/env python3
"""Write seeded/<id>/meta.json for every archived seeded change that lacks one (from its NOTES.md and, when given,
the mutlab result log): which property it breaks, what it needs in order to manifest, what was run.
usage: mkmeta.py [<seed dir> <mutlab log>]"""
import os, re, json, sys, glob
ROOT = os.path.dirname(os.path.dirname(os.path.abspath(__file__)))

def section(notes, keys):
    out = []
    # markdown sections: "## What is needed for it to manifest" ... up to the next heading
    for m in re.finditer(r"^#+[ \t]*([^\n]*)\n(.*?)(?=^#|\Z)", notes, flags=re.M | re.S):
        if re.search("|".join(keys), m.group(1), flags=re.I): out.append(" ".join(m.group(2).split()))
    if out: return " ".join(out)[:1500]
    for para in re.split(r"\n\s*\n|\n(?=[-*\d] ?\.? ?\*?\*?[A-Z])", notes):
        if re.match(r"\s*(?:[-*]|\d+\.)?\s*\*{0,2}(%s)" % "|".join(keys), para.strip(), flags=re.I):
            out.append(" ".join(para.split()))
    return " ".join(out)[:1500]

def mk(d, log=None):
    notes = open(os.path.join(d, "NOTES.md")).read() if os.path.exists(os.path.join(d, "NOTES.md")) else ""
    prop = os.path.basename(d.rstrip("/"))[:3]
    meta = {"property": prop,
            "origin": "fresh sub-agent given only the property text and a scratch worktree",
            "what": section(notes, ["Change", "Changed site", "What (I|was) changed", "The change"]) or notes.split("\n")[0][:300],
            "manifests": section(notes, ["Trigger", "Needs", "needed for it to manifest", "Manifest"]) ,
            "does_not_trigger": section(notes, ["Does NOT trigger", "Not triggered", "Does not trigger"]),
            "demonstration": "demo.rs (fails with patch.diff applied, passes on the unchanged crate)",
            "passes_existing_tests": True}
    if log and os.path.exists(log):
        t = open(log).read()
        m = re.search(r"confirm: (.*)", t)
        meta["ran"] = ["bin/mutlab %s %s   (export of /repo HEAD + patch in a private mount namespace; nothing applied to /repo)" % (os.path.relpath(d, ROOT), prop)]
        if m: meta["confirmation"] = m.group(1).strip()
        v = re.search(r"== (C\d\d) rc=(\d+): (.*)", t)
        if v:
            meta["check_result"] = v.group(3).strip(); meta["caught"] = v.group(2) == "1"
            meta["caught_by"] = [re.sub(r"\s+", " ", l)[:240] for l in re.findall(r"^no longer checks: (.*)", t, flags=re.M)[:2]]
            w = re.findall(r"^witness: (.*)", t, flags=re.M)
            if w: meta["witness"] = w[0][:500]
    else:
        meta["ran"] = ["bin/trymutant %s/patch.diff %s (patch applied to /repo, check run, patch undone); 674 pinned tests re-run in a scratch worktree" % (os.path.relpath(d, ROOT), prop)]
        meta["caught_by"] = ["./check %s — theorem and witness listed in DESIGN.md section 10" % prop]
    json.dump(meta, open(os.path.join(d, "meta.json"), "w"), indent=1)

if len(sys.argv) >= 3:
    mk(sys.argv[1], sys.argv[2])
else:
    for d in sorted(glob.glob(os.path.join(ROOT, "seeded", "*"))):
        if os.path.isdir(d) and not os.path.exists(os.path.join(d, "meta.json")): mk(d)
