"""Per-property texts used by ./check (evidence) and bin/mkmanifest.py (MANIFEST.json)."""

TRUSTED_BASE = [
    "Coq 8.16.1 kernel (coqc, full .vo build; vm_compute only inside proofs by computation; no native_compute)",
    "translator symx (verif/symx): symbolic scalar Sym, DFS path explorer with total-order pruning, Gallina printer; validated on every run by the self-check against the same compiled code on f64, but trusted",
    "Rust parametricity: vek's generic code can act on the scalar type only through the trait methods Sym implements (no specialisation on stable Rust)",
    "rustc/cargo as installed; primitive scalar arithmetic is modelled as exact ring/field operations (float rounding, NaN, overflow inside generic code are not modelled)",
]

PROPS = {
    "C01": {
        "claimed": True,
        "technique": "Coq proof (ring) over programs translated from the compiled generic code by symbolic execution",
        "level_text": "Every Mul/operator impl of Mat2/3/4 in both layouts (186 entry points) is translated from the real compiled code into a closed formula, and Coq proves for ALL inputs in ANY commutative ring that it equals the textbook sum-of-products / per-element definition (12 layout pairings of matrix*matrix, 12 matrix-vector forms, identity neutrality through the real product code, 66 element-wise forms, 60 compound-assignment forms, 6 Vec4-as-2x2 helpers). Unit tests sample one integer 2x2 product.",
        "level_note": "Trusted: Coq kernel; the symx translator (re-run from /repo on every check and self-checked against the same code on f64); Rust parametricity in the scalar type. Scalar arithmetic is exact ring arithmetic (float rounding not modelled). Theorems print 'Closed under the global context'.",
        "design_ref": "DESIGN.md section 7, C01",
        "assumptions": ["scalar operations are exact commutative-ring operations (rounding/overflow not modelled)", "division and remainder are uninterpreted per-element operations"],
    },
    "C02": {
        "claimed": True,
        "technique": "Coq proof (computation, ring, case analysis on comparisons) over programs translated from the compiled generic code by symbolic execution",
        "level_text": "3787 entry points: for each of the 13 vector types (dimensions 2..64) every arithmetic/bitwise/shift operator in its 9 owned/borrowed/scalar/compound-assignment forms (plus scalar-on-the-left add/mul, whose macro body is lifted verbatim from src/vec.rs), Neg/Not, the 8 MulAdd forms and the inherent mul_add with broadcast, sum/product/average/reduce/reduce_min/max/bit reductions/dot/magnitude_squared/iterator Sum and Product/sign tests, min/max/map/apply/zip families/hadd/sqrt..round, and 21 constructors, conversions and views are translated from the real code and proved in Coq, for ALL element values in ANY commutative ring with arbitrary division, remainder, bit, shift, min/max and comparison operations, to equal the dimension-generic per-element definition in element order. Comparison masks, partial_min/max and reduce_partial_min/max are proved on free symbols for all lanes at once up to 8 lanes (every one of the up to 256 outcome combinations) and one free lane at a time against a constant background for 16/32/64 lanes. Unit tests never compute a binary operator on distinct elements.",
        "level_note": "Partial cells: for Vec16/32/64 the comparison-mask family is decided per lane (2^64 joint outcomes cannot be enumerated); reduce_partial_min/max are not translated for those three types; reduce_and/reduce_or/reduce_ne on the concrete bool/integer/float instantiations are not generic code: they are modelled by hand (model/BoolReduce.v, theorems C02_bool_reduce_*) and tied to the code by running the extracted model against the real methods (70k patterns quick), which is testing, not proof. Trusted: Coq kernel; symx translator (re-run from /repo on every check, self-checked against the same code on f64 where f64 has the trait); Rust parametricity in the scalar type. Theorems print 'Closed under the global context'.",
        "design_ref": "DESIGN.md section 7, C02",
        "assumptions": ["scalar operations are exact commutative-ring operations; division, remainder, bit operations, shifts, min/max, rounding functions are uninterpreted per-element operations", "comparisons are an arbitrary pair of boolean relations lt/eq with <=, >=, >, != derived as for a total order (no NaN)", "user closures are arbitrary pure functions"],
        "trusted_extra": ["Coq extraction to OCaml of model/BoolReduce.v (Require Import ExtrOcamlBasic only: bool, list, prod, option, unit, sumbool mapped to OCaml's; no Extract Constant) plus extract/driver_boolred.ml and the harness symx/src/corr_boolred.rs, which decides 'element is not zero' for each generated element"],
        "selfcheck": {"quick": 20, "thorough": 300},
    },
    "C19": {
        "claimed": True,
        "technique": "Coq proof (computation, ring) over programs translated from the compiled generic code by symbolic execution; machine-integer semantics for integer colour components",
        "level_text": "1982 entry points: every From impl between the 13 vector types (19 kind/size conversions, 5 (smaller, scalar) forms), the homogeneous point/direction constructors, every named swizzle and with_* setter, 57 unit/direction constants, shuffle_lo_hi and shuffled for ALL 256 masks on Vec4 and Rgba plus 256 out-of-range index tuples and the usize-broadcast masks, the eight fixed interleave/move shuffles, ShuffleMask4::new/from/to_indices/== for all 256 masks, all colour constructors, named colours, gray, inverted_rgb (an involution keeping alpha, by ring), average_rgb, ARGB/BGRA/BGR reorderings, ColorComponent::full for the 18 concrete component types, and the law Mat(n+1)::from(m) * Vec(n+1)::from(v) = Vec(n+1)::from(m*v) (zero fill and w=1 points, both layouts) are translated from the real code and proved for ALL element values in ANY commutative ring. For integer components of EVERY width inverted_rgb is proved overflow-free and involutive on the component range [0, full]. No unit test converts, shuffles or builds a colour.",
        "level_note": "Out-of-range shuffle indices are covered by 256 concrete tuples per type (up to usize::MAX), not by a theorem over all usize. Known finding: signed component types with a negative component overflow in inverted_rgb (outside [0, full]). Trusted: Coq kernel; symx translator (re-run on every check, self-checked against f64 and, for the integer entries, against the same code on every i8/u8 input); Rust parametricity.",
        "design_ref": "DESIGN.md section 7, C19",
        "assumptions": ["scalar operations are exact commutative-ring operations", "ColorComponent::full() of the abstract component type is an arbitrary constant", "integer components: Rust fixed-width semantics of MachineInt.v (overflow panics with checks, wraps without)"],
    },
    "C20": {
        "claimed": True,
        "technique": "Coq proof (chain-tree lemmas by induction + computation) over programs translated from the compiled generic code by symbolic execution with a fully abstract element type; auxiliary cargo feature-matrix build",
        "level_text": "976 entry points: for each of the 13 vector types the 8 checked_*, 4 wrapping_*, 3 saturating_*, 3 overflowing_*, Euclidean and Inv lifts, Zero/One/is_zero, abs_diff_eq/relative_eq/ulps_eq, as_, numcast and the six az casts; for the 6 matrix types Zero/One/is_zero, the three approx lifts, as_, numcast; quaternion approx; as_ on segments, boxes and rectangles. The element type is an abstract scalar whose lifted operations are uninterpreted function symbols and whose boolean outcomes (is-Some, overflowed, approximately-equal) are arbitrary predicates; Coq proves for ALL element values and ALL interpretations that each lift returns the per-element values, is None exactly when some element is None (lib/Chain.v: any ?-chain / &&-chain decision tree equals one forallb, proved by induction over trees), and sets the overflow flag exactly when some element overflows. The only test of any of this (test_az) is not in the pinned run.",
        "level_note": "Partial cells: overflowing_* and overflowing_as accumulate the flag with |= (2^n outcome combinations): all lanes at once up to 4 lanes, one free lane at a time against literal constants for 8..64 lanes. The clause 'every feature combination builds on stable and enabling a feature only adds items' is not a statement about a program's input/output behaviour and cannot be a Coq theorem; the check runs a cargo-check matrix over the feature sets as an auxiliary, non-proof leg (quick: every single feature and the vecN x {az, serde, mint, bytemuck} pairs and the full set, with std; thorough: {std, libm} x all singles, all pairs and the full set) and reports a failing combination as a violation; additivity of the public API is not checked. Trusted: Coq kernel; symx translator and symx/src/syma.rs (the abstract scalar; ToPrimitive carries the node identity through NumCast::from); Rust parametricity.",
        "design_ref": "DESIGN.md section 7, C20",
        "assumptions": ["each lifted scalar operation is a pure function of its operands (uninterpreted symbol); scalar-level boolean outcomes are arbitrary predicates of the operands", "feature-matrix leg: cargo check with the pinned offline registry, stable toolchain"],
        "selfcheck": {"quick": 10, "thorough": 50},
        "extra_without_symx": True,
    },
    "C18": {
        "claimed": True,
        "engine": "B",
        "technique": "Coq proof by induction over operation histories on a hand-written state-machine model, tied to the code by running the extracted model against the real containers on the same histories",
        "level_text": "The consuming iterator is modelled as a state machine over its two cursors; Coq proves by induction over ALL histories of next/next_back/len/observe/drop, for every dimension, that each element is yielded at most once or dropped at most once and never both, that yielded and live elements partition the elements (so after the drop every element was yielded or dropped exactly once), that len reports the remaining count, and that formatting/comparing/hashing reads live elements only; conversions are proved to be permutations (FromIterator with too few/many items; row/column arrays of matrices as the transposition permutation). The real containers are run with an ownership-tracking element type (not Copy, not Clone, every drop and every read logged) on every reachable (front,back) state x every operation for each of the 13 vector types (dimension 2..64), seeded random histories, 13 x 12 vector conversions, 6 x 8 matrix array conversions and the slice views, and must produce the model's event trace exactly (41850 cases quick). Unit tests pull one element and drop.",
        "level_note": "Model + correspondence, not a translation: the theorems are about model/Containers.v; the correspondence run is differential testing of the real code against the extracted model (complete over the iterator's reachable states and operations for each type, not over all histories, which the induction covers on the model side). Memory safety itself (reads of freed memory) is observed through the tracking element type, not proved. Trusted: Coq kernel; extraction (ExtrOcamlBasic only); extract/driver_c18.ml; the harness symx/src/corr_c18.rs.",
        "design_ref": "DESIGN.md section 7, C18",
        "assumptions": ["the iterator's behaviour depends only on its cursor state (checked on every reachable state per type, by two different paths)", "element identity is carried by the tracking element type; reading a moved-out slot is observed as a read of a yielded identity"],
        "trusted_extra": ["Coq extraction to OCaml of model/Containers.v (Require Import ExtrOcamlBasic only; nat stays Peano; no Extract Constant / Extract Inductive of our own) plus extract/driver_c18.ml and the harness symx/src/corr_c18.rs (ownership-tracking element type Tok)"],
    },
    "C15": {
        "claimed": True,
        "technique": "Coq proof over R (case analysis over every decision path, nra/lra, extreme-value principle via Coquelicot/Ranalysis, induction over partitions) over programs translated from the compiled code; one re-indexing lemma transfers the cubic proofs to all axes",
        "level_text": "78 entry points. Quadratic (5 axes) and cubic (5 axes) *_inflection(s), min_*, max_*, *_bounds are translated (up to 188 control-flow paths each) and proved for ALL control points: reported inflections are zeros of the derivative in the unit interval and (cubic) every interior zero is reported; the min/max parameters lie in [0,1] and, whenever the coefficients the code compares with epsilon are exactly zero or exceed epsilon, NO point of the curve on [0,1] is lower/higher (via: a differentiable function on [0,1] attains its extrema at an end point or an interior critical point; quadratic-formula root lemmas). aabr/aabb (quadratic instances of the shared generic code, one free axis at a time) are proved to be the curve's coordinates at those parameters. The coarse phase of binary_search_point(_by_steps) returns a sample or the end point that is no farther than every other candidate (and the curve point of its parameter). length_by_discretization(n) equals the inscribed polyline length for n = 0..3 on all four curve types, and the polyline length is proved for EVERY n (induction over partitions, de Casteljau subdivision) to be at least the chord, at most the control-polygon length, and not to decrease when the segment count is doubled. None of these functions is executed by any unit test.",
        "level_note": "Partial cells: optimality needs 'clean' coefficients (a coefficient in (0, eps] is treated as zero by the code and an extremum can then be missed by O(eps)); the refinement loop of binary_search_point (unbounded data-dependent iteration) is not translated: its coarse phase is proved on the translated code, and the whole search (coarse phase + loop) is a hand-written model over exact rationals (model/BezierSearch.v, theorem C15_search_loop by induction over the fuel: the result is on the curve and no farther than the end point and every coarse sample) tied to the code by running the real generic code on exact dyadic rationals against the extracted model; cubic aabr/aabb instances (11468 paths) are not proved separately: they are the same generic code as the quadratic ones, composed with the cubic bounds proved above; for general step counts the loop shape (one segment per i = 0..step_count, up to the u16 maximum) is a hand-written model (model/PolyLen.v, theorems C15_loop_*) tied to the code by an extracted-model correspondence on step counts up to 65535. Trusted: Coq kernel; stdlib real-number axioms as printed; symx translator (self-checked each run, constant folding of literal sub-expressions in the pinned-axis entries); Rust parametricity. Exact real arithmetic.",
        "design_ref": "DESIGN.md section 7, C15",
        "assumptions": ["scalars are exact real numbers; T::epsilon() is an arbitrary positive real", "optimality statements assume the epsilon-compared coefficients are exactly zero or larger than epsilon in absolute value"],
        "trusted_extra": ["Coq extraction to OCaml of model/PolyLen.v (Require Import ExtrOcamlBasic only; N, positive stay the extracted Coq datatypes) plus extract/driver_len.ml and the harness symx/src/corr_len.rs", "Coq extraction to OCaml of model/BezierSearch.v (ExtrOcamlBasic only; Q, Z, positive stay the extracted Coq datatypes; results normalised with the extracted Qred) plus extract/driver_bsearch.ml, the exact dyadic scalar symx/src/dyadic.rs and the harness symx/src/corr_bsearch.rs"],
        "coq_timeout": 1700,
    },
    "C03": {
        "claimed": True,
        "technique": "Coq proof (computation + induction over operation sequences) over programs translated from the compiled generic code by symbolic execution",
        "level_text": "182 entry points (Mat2/3/4 x row-/column-major): new, Index/IndexMut at every (i,j), transposed/transpose, diagonal/with_diagonal/broadcast_diagonal/trace, map/apply/map2/apply2/as_/map_rows/map_cols with abstract closures, From<other layout>, into/from row/col array(s), as_row_slice/as_col_slice, Default, row/col counts, gl_should_transpose, Display line structure, and all Mat2<->Mat3<->Mat4 conversions are translated from the real code with storage read only through the public rows/cols fields; Coq proves for ALL element values that each denotes the same abstract (row i, column j) operation in both layouts, and by induction that ANY finite sequence of matrix->matrix operations keeps a row-major and a column-major matrix denoting the same abstract matrix. Unit tests check one 4x4 transpose.",
        "level_note": "Trusted: Coq kernel; symx translator (re-run from /repo on every check, self-checked against the same code on f64); Rust parametricity in the scalar type. Display is translated by formatting a matrix of symbols and parsing the element order and line structure. Theorems print 'Closed under the global context'.",
        "design_ref": "DESIGN.md section 7, C03",
        "assumptions": ["user closures are arbitrary pure functions (abstract function symbols)", "Display of the element type is injective on the symbols used (n<id>)"],
    },
    "C06": {
        "claimed": True,
        "technique": "Coq proof (ring/field/nsatz over R) over programs translated from the compiled generic code by symbolic execution",
        "level_text": "determinant (3 sizes x 2 layouts) is proved equal to the Leibniz permutation expansion for ALL entries, transposition-invariant and multiplicative; the general 4x4 inverse (SIMD 2x2-block algorithm with 24 shuffles, translated from the compiled code) is proved to be a two-sided inverse of EVERY matrix with non-zero determinant in both layouts; the rigid fast inverse for every orthogonal 3x3 block + translation; the affine fast inverse (16 control-flow paths) for every T*R*S with s_j^2 > eps; uniqueness of two-sided inverses gives agreement with the general inverse. No unit test calls any of these functions.",
        "level_note": "Trusted: Coq kernel; stdlib real-number axioms (sig_forall_dec, sig_not_dec, functional_extensionality_dep, classic) as printed by Print Assumptions; symx translator (self-checked each run); Rust parametricity. Float rounding is not modelled: scalars are exact reals; T::epsilon() is an arbitrary positive real.",
        "design_ref": "DESIGN.md section 7, C06",
        "assumptions": ["scalars are exact real numbers", "T::epsilon() is an arbitrary real eps > 0"],
        "coq_timeout": 1500,
    },
    "C07": {
        "claimed": True,
        "technique": "Coq proof (ring, induction over chains) over programs translated from the compiled generic code by symbolic execution",
        "level_text": "translation/scaling/shear constructors of Mat2/3/4 in both layouts are proved (for all parameters, over any commutative ring) to denote the textbook matrices, whose action on points (w=1) and directions (w=0) is proved to be the defining one; every *_ed builder is proved to be pre-multiplication by its constructor and every in-place variant to equal the returning one; by induction over chains of ANY length the built matrix applies its steps to a point in call order; Mat4::from(Transform) is proved to be p -> position + Q(orientation)(scale . p) (this failed on the pinned tree and was repaired by a fix: commit) and the default Transform the identity.",
        "level_note": "Trusted: Coq kernel; symx translator (self-checked each run); Rust parametricity. Exact ring arithmetic; sin/cos of rotation steps are arbitrary functions here (their trigonometric meaning is C04). Theorems are closed under the global context.",
        "design_ref": "DESIGN.md section 7, C07",
        "assumptions": ["scalars are elements of an arbitrary commutative ring (exact arithmetic)"],
    },
    "C04": {
        "claimed": True,
        "technique": "Coq proof (ring/field/nsatz with sin^2+cos^2=1, angle-sum and half-angle identities over R) over programs translated from the compiled code",
        "level_text": "every rotation constructor of Mat2/3/4 (both layouts), Quaternion and Vec2 (79 entry points) is translated from the compiled code and proved, for ALL angles and ALL non-zero axes, to equal the textbook matrix (axis rotations) or the Rodrigues matrix of the normalised axis; those are proved orthogonal (both sides), of determinant +1, axis-fixing, counter-clockwise in a right-handed frame, additive for a common axis and independent of the axis length; chained/in-place forms are pre-multiplication; Mat3 = upper-left block of Mat4; the matrix from the (angle,axis) quaternion equals the matrix built directly (half-angle identities); Vec2::rotated_z = Mat2 rotation. No unit test builds a rotation matrix.",
        "level_note": "Trusted: Coq kernel; stdlib real-number axioms as printed by Print Assumptions (sig_forall_dec, sig_not_dec, functional_extensionality_dep, classic); symx translator (self-checked each run); Rust parametricity. sin/cos/sqrt are the real functions; float rounding is not modelled.",
        "design_ref": "DESIGN.md section 7, C04",
        "assumptions": ["scalars are exact real numbers; sin, cos, sqrt are the real functions"],
    },
    "C09": {
        "claimed": True,
        "technique": "Coq proof (field/nsatz over R, compositional: unit forward/side vectors abstracted) over programs translated from the compiled code",
        "level_text": "look_at_{lh,rh}, the deprecated aliases, model_look_at_{lh,rh}, basis_to_local and local_to_basis (both layouts) are translated from the compiled code and proved equal, for ALL inputs, to the GLM frame construction; for EVERY eye/target/up with eye != target and up not parallel to the view direction the view matrix is proved rigid (orthonormal both ways, det +1, last row 0001), sends the eye to the origin, the target to (0,0,+-|target-eye|), up into the half-plane x=0,y>0, and the model matrix is its two-sided inverse sending the origin to the eye; local_to_basis maps origin and unit axes as stated and basis_to_local undoes it for every orthonormal basis. The 4 look-at unit tests check one configuration each.",
        "level_note": "Trusted: Coq kernel; stdlib real-number axioms as printed (sig_forall_dec, sig_not_dec, functional_extensionality_dep, classic); symx translator (self-checked each run); Rust parametricity. sqrt is the real function; float rounding not modelled.",
        "design_ref": "DESIGN.md section 7, C09",
        "assumptions": ["scalars are exact real numbers"],
    },
    "C08": {
        "claimed": True,
        "technique": "Coq proof (field/lra/nra over R, tan>0 on (0,pi/2)) over programs translated from the compiled code, debug assertions as panic leaves",
        "level_text": "all 21 projection constructors x 2 layouts are translated (178 control-flow paths incl. every debug_assert) and proved, for ALL plane values with l!=r, b!=t, 0<n<f (off-centre volumes included), ALL fields of view in (0,pi), aspects and sizes: the eight view-volume corners go to x,y=-1/+1, near to depth 0 (zo) / -1 (no), far to 1, with w>0 in front; perspective = frustum of the implied symmetric planes; perspective_fov = perspective(width/height); every left-handed variant = right-handed one composed with a z mirror; infinite perspective: near -> -1, depth strictly increasing and below 1-epsilon. The off-centre frustum_lh sign defect of the pinned tree made C08_planes and C08_handedness fail and was repaired by a fix: commit. No unit test reaches a projection constructor.",
        "level_note": "Trusted: Coq kernel; stdlib real-number axioms as printed; symx translator (self-checked each run); Rust parametricity. tan/sin/cos are the real functions; float rounding not modelled; hypotheses 0<fov<pi (the code asserts only 0<fov<2pi).",
        "design_ref": "DESIGN.md section 7, C08",
        "assumptions": ["scalars are exact real numbers", "documented preconditions: l!=r, b!=t, 0<near<far, 0<fov<pi, aspect>0"],
    },
    "C10": {
        "claimed": True,
        "technique": "Coq proof over R: structural decomposition of the translated unprojection into product, general inverse and tail (by conversion), then C06-style inverse theorem + linear algebra (field/nsatz)",
        "level_text": "world_to_viewport_{no,zo} (both layouts) are proved, for ALL inputs, to be the viewport map of the perspective-divided clip position (depth remapped only in _no); for EVERY model-view/projection pair with det(proj*mv) != 0, viewport of non-zero size and clip w != 0, viewport_to_world of the projected point is proved to return the original point THROUGH the real code of both functions (the unprojection program is shown by conversion to be product -> general inverse -> tail, the inverse is proved two-sided, then the algebra closes); the picking matrix maps the four corners (at any depth) of every window rectangle onto the clip square, and panics exactly on non-positive size (failed for off-centre regions on the pinned tree; repaired by a fix: commit).",
        "level_note": "Trusted: Coq kernel; stdlib real-number axioms as printed; symx translator (self-checked each run); Rust parametricity. Exact real arithmetic.",
        "design_ref": "DESIGN.md section 7, C10",
        "assumptions": ["scalars are exact real numbers"],
        "coq_timeout": 1500,
    },
    "C05": {
        "claimed": True,
        "technique": "Coq proof (ring/field/nsatz, cos_acos/sin_acos over R) over programs translated from the compiled code incl. the branchy rotation_from_to_3d",
        "level_text": "all quaternion operators/conversions (35 entry points) are proved equal to the Hamilton-algebra definitions for ALL components; the algebra laws (associativity, neutral identity, multiplicative norm, conjugate reverses products, two-sided inverse of every non-zero quaternion) are proved; q*Vec3 is q(v,0)q^-, Vec4 keeps w, a unit quaternion acts exactly like the matrix converted from it, application composes; rotation_from_to_3d returns a unit quaternion mapping u onto (|u|/|v|)v for EVERY pair outside the documented epsilon band and onto -u for EVERY exactly opposite pair (both axis sub-branches); the matrix forms equal the matrix of that quaternion in every branch; into_angle_axis of a unit quaternion returns a unit axis and an angle with cos(angle/2)=w, axis*sin(angle/2)=xyz. The 4 quaternion unit tests check |q|=1 on single inputs.",
        "level_note": "Trusted: Coq kernel; stdlib real-number axioms as printed; symx translator (self-checked each run); Rust parametricity. Exact real arithmetic; the open band 0 < |u||v|+u.v < |u||v|eps of rotation_from_to_3d and sqrt(1-w^2) < eps of into_angle_axis are excluded (documented degenerate bands).",
        "design_ref": "DESIGN.md section 7, C05",
        "assumptions": ["scalars are exact real numbers", "T::epsilon() is an arbitrary real eps > 0"],
    },
    "C13": {
        "claimed": True,
        "technique": "Coq proof (case analysis over every decision path + lra over R, closed min/max forms, witnesses for existential clauses) over programs translated from the compiled code",
        "level_text": "all Aabr/Aabb/Rect/Rect3 methods (85 entry points, 1253 control-flow paths) are translated from the compiled code and proved against point-set semantics over the reals for ALL boxes (valid and invalid unless stated) and ALL points in 2D and 3D: containment = closed-interval membership; union = smallest box containing both; intersection = exactly the common points (invalid iff none); box containment; collision iff interiors meet (touching faces do not collide); expansion, split (cover + meet on the plane, panics outside), centre/size/half-size, validity repair; projected_point is in the box and no box point is nearer, panics exactly on invalid boxes; distance; collision-vector touching law; every Rect/Rect3 method equals the box method on the converted value; conversions both ways. For integer element types of EVERY width the dividing methods (center, half_size; Rect centre) are proved to return the truncated halves per axis under Rust's machine-integer semantics whenever the corner sums/differences are representable (and the 8-bit instances are run exhaustively against the real i8/u8 code). The 4 geometry unit tests sample single values.",
        "level_note": "Trusted: Coq kernel; stdlib real-number axioms as printed; symx translator incl. the textual lift of the scalar Clamp impl from src/ops.rs (self-checked each run); Rust parametricity. Exact real arithmetic (a total order without NaN).",
        "design_ref": "DESIGN.md section 7, C13",
        "assumptions": ["scalars are exact real numbers (total order, no NaN)"],
    },
    "C16": {
        "claimed": True,
        "technique": "Coq proof (decision-path case analysis, lra/field/nsatz over R; convex-quadratic argument for the clamped projection; Cramer uniqueness for the ray) over programs translated from the compiled code",
        "level_text": "Disk/Sphere containment and collision are proved to be exactly the centre-distance comparisons for ALL inputs (and the squared form for r>=0), bounds = centre -+ radius, the area/volume formulas, and moving the other shape by the collision vector leaves the centres exactly r1+r2 apart; LineSegment2/3::projected_point is proved to return a point s+t(e-s), t in [0,1], with NO point of the segment nearer (all u in [0,1]), for every segment with |e-s|^2 > eps, and the start point for degenerate ones; distance_to_point is the distance to it; Ray::triangle_intersection returns None whenever |det| < eps and otherwise Some(t) EXACTLY when the unique Cramer solution (t,u,v) of origin+t*dir = v0+u*e1+v*e2 has u,v>=0, u+v<=1 (existence and uniqueness proved). Unit tests sample two values.",
        "level_note": "Trusted: Coq kernel; stdlib real-number axioms as printed; symx translator incl. its exact-arithmetic restatement of approx::RelativeEq for the degenerate-segment test (self-checked each run); Rust parametricity. Exact real arithmetic; 0 < eps < 1.",
        "design_ref": "DESIGN.md section 7, C16",
        "assumptions": ["scalars are exact real numbers", "approx::relative_eq is restated on exact reals (no infinities/NaN)"],
    },
    "C14": {
        "claimed": True,
        "technique": "Coq proof (ring/field; Coquelicot is_derive by auto_derive; Interval tactic for the quarter-circle bound) over programs translated from the compiled code",
        "level_text": "for Quadratic/Cubic x 2D/3D (89 entry points) and ALL control points and parameters (incl. t outside [0,1]): evaluate is the Bernstein polynomial with exact endpoints; evaluate_derivative is proved to be its derivative (Coquelicot is_derive, every t); split(t) halves re-parametrise the curve on [0,t], [t,1] and meet at B(t); degree elevation, segment/range conversion, reversal (1-t), flips, 2D<->3D, the coefficient-matrix form and multiplication by Mat2/3/4 in both layouts (linear and point-affine) commute with evaluation; the unit quarter circle (its control points come from the code, incl. 4(sqrt 2 - 1)/3) stays within 0.03% of radius 1 for every t in [0,1] (interval arithmetic with bisection inside Coq); unit_circle = its four mirror images.",
        "level_note": "Trusted: Coq kernel; stdlib real-number axioms as printed; for C14_circle additionally the standard library's primitive 63-bit integer interface (PrimInt63.*, Uint63.*_spec axioms) used by the Interval tactic's big-integer arithmetic, evaluated with vm_compute; symx translator incl. the textual lift of the float Lerp impl (self-checked); Rust parametricity.",
        "design_ref": "DESIGN.md section 7, C14",
        "assumptions": ["scalars are exact real numbers"],
        "trusted_extra": ["Interval 4.x tactic (C14_circle): reflexive interval arithmetic evaluated by vm_compute over the stdlib primitive-integer interface (PrimInt63/Uint63 axioms listed by Print Assumptions)"],
    },
    "C17": {
        "claimed": True,
        "technique": "Coq proof over programs obtained by instantiating the macro bodies lifted verbatim from src/ops.rs on symbolic reals and symbolic machine integers; Int_part lemmas over R; Z div/mod reasoning for every width and both overflow modes",
        "level_text": "float family over R: clamp returns the value inside the bounds and the nearer bound outside, is idempotent, agrees with is_between, panics exactly when upper<lower; wrapped/wrapped_between land in [0,u) / [lo,hi) and are congruent to the input (integer multiple of the period), pingpong is the triangle of the wrapped value in [0,u], delta_angle lies in (-pi,pi] (degrees (-180,180]) congruent to target-self; documented panics occur; 10 vector types apply the same closed forms per element. Integer families (any width w, overflow checks on or off): clamp/is_between; wrapped_between returns the unique r in [lo,hi) with r = x (mod hi-lo), for EVERY unsigned input, and for signed inputs under the exact no-overflow guard of the current code; wrapped = x mod u; pingpong = triangle wave under 2u<=MAX. The translated integer semantics is cross-checked against real i8/u8 on all 2^24 triples (thorough) / 2^16 (quick). Three overflow defects outside the guards are recorded as known findings with machine-checked witnesses.",
        "level_note": "Trusted: Coq kernel; stdlib real-number axioms as printed (integer theorems are closed under the global context); symx translator incl. build.rs macro lifting and the MachineInt interpretation (exhaustively cross-checked against i8/u8); Rust parametricity. The 'few ulps' float clause is about rounding and is not modelled (partial).",
        "design_ref": "DESIGN.md section 7, C17",
        "assumptions": ["float family: exact real arithmetic", "integer family: Rust semantics of + - * / % as modelled in coq/lib/MachineInt.v"],
        "partial": ["float rounding ('few ulps') clause not modelled", "a value computed but never used on the taken path is not checked for overflow"],
        "selfcheck": {"quick": 200, "thorough": 1000},
    },
    "C11": {
        "claimed": True,
        "technique": "Coq proof over translated programs; dimension-generic dot-product algebra (induction over the left-associated sum), nsatz/field, acos/sin lemmas",
        "level_text": "for Vec2/3/4/8/16 and Extent2/3 (all inputs): dot, magnitude(_squared), distance(_squared) are the textbook sums, magnitude^2 = magnitude_squared; normalized returns a parallel vector of unit length for every non-zero vector, with the in-place and magnitude-returning forms consistent; try_normalized refuses exactly |v|^2 <= 4 eps; is_normalized / is_approx_zero decide the stated relative tests; reflected is v - 2(v.n)n and for unit n preserves length and flips the normal component; refracted of unit vectors returns zero exactly on total internal reflection and otherwise a unit vector whose tangential part is eta times the incident one (Snell) pointing into the surface; angle_between lies in [0,pi] with the clamped cosine; face_forward; Vec2 determine_side / areas = 2D cross (halved, absolute); Vec3 cross is bilinear, anticommutative, orthogonal, with the Lagrange identity; Vec4 homogenized makes w=1, point/direction tests; Vec3 slerp hits both endpoints and interpolates lengths linearly for every non-parallel pair. Vec32/Vec64: the polynomial functions only (partial).",
        "level_note": "Trusted: Coq kernel; stdlib real-number axioms as printed; symx translator incl. its exact-arithmetic restatement of approx::RelativeEq (self-checked each run); Rust parametricity. Exact real arithmetic; float rounding not modelled.",
        "design_ref": "DESIGN.md section 7, C11",
        "assumptions": ["scalars are exact real numbers", "0 < 4 eps < 1"],
        "partial": ["Vec32/Vec64: only dot/magnitude/distance families are proved (normalisation, reflection etc. are generated by the same macro arm as the fully proved Vec8/Vec16)"],
    },
    "C12": {
        "claimed": True,
        "technique": "Coq proof over translated programs (ring/field/nsatz, sin/cos addition formulas, acos) for the generic code; hand-written Gallina model of the non-generic integer impls with theorems, extracted to OCaml and run against the real code on the same inputs",
        "level_text": "scalar/vector/quaternion/Transform Lerp (109 entry points): from at 0, to at 1, affine in the factor, fast = precise, clamped = unclamped o clamp01, range/reference/per-element-factor forms, for ALL inputs; quaternion Lerp returns a unit quaternion parallel to the component lerp; slerp of unit quaternions outside the near-parallel band stays unit, has p.r = cos(t*theta) with theta = acos|p.q| (shorter arc, constant angular speed) and reaches p and +-q; Transform lerp = (lerp, slerp, lerp); all 8 Transition accessors (identity and arbitrary mapper g) equal lerp*(start,end,g(progress)). Integer Lerp: model IntLerp.ilerp = saturate(round-half-away((from*2^sh + num*(to-from))/2^sh)) with theorems (exact endpoints incl. range limits, result between the endpoints also for to<from, nearest-rounding bound); the extracted model agrees with the real u8/i8 code on every endpoint pair and with sampled 16..64-bit types, both formulas (1.8M cases quick). The fast formula subtracted in the integer type on the pinned tree (u8 to<from panicked / wrapped): repaired by a fix: commit.",
        "level_note": "Trusted: Coq kernel; stdlib real-number axioms as printed; symx translator; extraction (ExtrOcamlBasic only, Z kept as Coq's binary Z, decimal IO through two extracted helpers zpush/zdigits, no Extract Constant) + OCaml 4.13 + the line-parsing driver coq/extract/driver_c12.ml; float arithmetic is exact on the correspondence inputs by construction (dyadic factors, small endpoints). Float rounding of the real-valued formulas is not modelled.",
        "trusted_extra": ["Coq extraction to OCaml of model/IntLerp.v (Require Import ExtrOcamlBasic only; Z, positive stay the extracted Coq datatypes; no Extract Constant / Extract Inductive of our own) plus extract/driver_c12.ml (decimal IO through the extracted zpush/zdigits) and the harness symx/src/corr12.rs"],
        "design_ref": "DESIGN.md section 7, C12",
        "assumptions": ["exact real arithmetic for float Lerp/slerp", "integer impls: model tied to the code by differential execution, not by translation"],
        "partial": ["integer Lerp impls are modelled by hand (Engine B): theorem about the model + exhaustive 8-bit / sampled wider correspondence, not a proof about the code"],
    },
}

def extra_C12(tier, seed, ROOT, SYMX, sh):
    """Engine B leg: extracted Coq model of the integer Lerp impls vs. the real code on the same inputs."""
    import os, re
    rc, out, dt = sh([os.path.join(ROOT, "bin", "corr12"), tier, str(seed)], timeout=1800)
    m = re.search(r"CORR12 cases=(\d+) disagreements=(\d+)", out)
    cases = int(m.group(1)) if m else 0; dis = int(m.group(2)) if m else -1
    extra = {"traces_validated_against_impl": cases, "int_lerp_correspondence": {"cases": cases, "disagreements": dis, "wall_s": round(dt, 1),
             "rule": "every (from,to) pair of u8 and i8 (quick: all pairs x 2 factors + a 1/3 sub-lattice x 6 factors; thorough: all pairs x 13 factors) and seeded samples of the 16/32/64-bit and pointer-sized types, factor = num/2^sh so that f32/f64 arithmetic is exact; both formulas, by value and by reference",
             "samples": [l[7:] for l in out.split("\n") if l.startswith("SAMPLE ")]}}
    problems = []; wit = []
    if rc != 0 or dis != 0:
        lines = [l for l in out.split("\n") if l.startswith("DISAGREE")]
        problems.append({"kind": "correspondence", "what": "integer Lerp: the real code disagrees with the extracted Coq model IntLerp.ilerp (for which C12_int_* are proved), i.e. the result is not the real value rounded to nearest", "detail": (lines[:5] or [out[-800:]])})
        for l in lines[:5]:
            mm = re.match(r"DISAGREE impl=\[(\S+) (\S+) (\S+) (\S+) (\S+) (\S+) (\S+) (\S+)\] model=\[.* (\S+)\]", l)
            if mm: wit.append({"entry": "corr12:" + mm.group(1), "status": "differs", "input": {"from": mm.group(4), "to": mm.group(5), "factor": "%s/2^%s" % (mm.group(6), mm.group(7))},
                               "expected_by_verified_model": mm.group(9), "implementation": mm.group(8)})
    return problems, extra, wit

def run_corr(name, model, tier, seed, ROOT, sh, what, rule):
    """Generic Engine B leg: bin/corr <name> <Model> runs the extracted Coq model and the real code on the same inputs."""
    import os, re
    rc, out, dt = sh([os.path.join(ROOT, "bin", "corr"), name, model, tier, str(seed)], timeout=3000)
    m = re.search(r"CORR name=\S+ cases=(\d+) disagreements=(\d+)", out)
    cases = int(m.group(1)) if m else 0; dis = int(m.group(2)) if m else -1
    dist = {}
    try:
        for l in open(os.path.join(ROOT, "build", "corr_" + name, "dist.txt")):
            if l.startswith("DIST "): k, v = l[5:].strip().split("="); dist[k] = int(v)
    except Exception: pass
    extra = {"cases": cases, "disagreements": dis, "wall_s": round(dt, 1), "rule": rule, "input_distribution": dist,
             "samples": [l[7:] for l in out.split("\n") if l.startswith("SAMPLE ")]}
    problems = []; wit = []
    if rc != 0 or dis != 0:
        lines = [l for l in out.split("\n") if l.startswith("DISAGREE")]
        problems.append({"kind": "correspondence", "what": what, "detail": (lines[:5] or [out[-800:]])})
        for l in lines[:5]:
            mm = re.match(r"DISAGREE impl=\[(.*) => (.*)\] model=\[.* => (.*)\]", l)
            if mm: wit.append({"entry": "corr:" + name, "status": "differs", "input": mm.group(1), "expected_by_verified_model": mm.group(3), "implementation": mm.group(2)})
    return problems, extra, wit

def extra_C02(tier, seed, ROOT, SYMX, sh):
    problems, extra, wit = run_corr("boolred", "BoolReduce", tier, seed, ROOT, sh,
        "reduce_and/reduce_or/reduce_ne on a concrete bool/integer/float vector disagree with the extracted Coq model BoolReduce (all / any element non-zero)",
        "every vector type x {bool, i8, u16, i32, u64, Wrapping<i16>, f32, f64}: all 2^n zero/non-zero patterns up to n=10 (quick) or n=16 (thorough); for wider vectors every pattern within 2 flips of all-zero / all-non-zero plus seeded random patterns; non-zero values cycle through extremes (MIN, MAX, -1, NaN, infinities, subnormals)")
    return problems, {"traces_validated_against_impl": extra["cases"], "bool_reduce_correspondence": extra}, wit

def extra_C19(tier, seed, ROOT, SYMX, sh):
    problems, extra, wit = run_corr("shufmask", "ShuffleMask", tier, seed, ROOT, sh,
        "ShuffleMask4 built from machine words (new / From<usize> / From<tuple> / From<[usize;4]>), to_indices, ==, or the lanes picked by shuffle_lo_hi / shuffled on Vec4 / Rgba disagree with the extracted Coq model ShuffleMask, for which C19_mask_* are proved for every word",
        "all 4-tuples over a pool of edge words (0..8, 255, 256, usize::MAX and neighbours, 2^63, alternating bit patterns, seeded random words) cycled over the three constructors, plus 20000 (thorough 400000) seeded tuples mixing small, near-MAX, power-of-two and random words; each case: indices, shuffle_lo_hi and shuffled lanes on integer vectors, the broadcast mask, and equality with a tuple that differs only in high bits")
    return problems, {"shuffle_mask_correspondence": extra, "traces_validated_against_impl": extra["cases"]}, wit

def extra_C15(tier, seed, ROOT, SYMX, sh):
    problems, extra, wit = run_corr("len", "PolyLen", tier, seed, ROOT, sh,
        "length_by_discretization(step_count) does not sum one segment per parameter (i+1)/(step_count+1), i = 0..step_count, ending at 1 (extracted Coq model PolyLen)",
        "step counts 0, 1, 2, 3, 7, 100, 255, 256, 1000, 65533, 65534, 65535 (thorough: more) on the quadratic and cubic 2D curves: the real code is run on the symbolic scalar, the number of distinct square roots and the largest parameter numerator are read from the recorded DAG; a panic (u16 overflow with overflow checks) is an outcome")
    p2, e2, w2 = run_corr("bsearch", "BezierSearch", tier, seed, ROOT, sh,
        "binary_search_point / binary_search_point_by_steps returned a different (parameter, point) than the extracted Coq model BezierSearch (coarse phase + refinement loop), for which C15_search_loop is proved",
        "the real generic code instantiated on exact dyadic rationals (symx/src/dyadic.rs): 1500 (thorough 20000) seeded cases per curve type (quadratic/cubic x 2D/3D): control points and query on a 1/4 grid in [-16,16], half interval in {1/2,1/4,1/8,3/16,1/16}, epsilon in {1/4..1/64}, 0-3 coarse samples at multiples of 1/8 in [-1/4,5/4] (one in six off the curve), one case in four through _by_steps with 1, 2, 4 or 8 steps; results compared as reduced fractions")
    return problems + p2, {"length_loop_correspondence": extra, "search_loop_correspondence": e2, "traces_validated_against_impl": extra["cases"] + e2["cases"]}, wit + w2

def extra_C18(tier, seed, ROOT, SYMX, sh):
    problems, extra, wit = run_corr("c18", "Containers", tier, seed, ROOT, sh,
        "a container of the real code produced a different ownership trace (element yielded/read/dropped/reported) than the extracted Coq model Containers for which C18_* are proved",
        "per vector type (13, dimension 2..64): every reachable (front, back) cursor state reached by a front-first and by an alternating path x {nothing, next, next_back, len+size_hint, Debug, ==, Hash} then drop, pulls on an exhausted iterator, seeded random histories; 12 conversions per vector type incl. FromIterator with 0, 1, n-1, n, n+1, n+3 items; 8 array conversions per matrix type (6); 5 slice views per vector type compared by address")
    extra2 = {"traces_validated_against_impl": extra["cases"], "evaluations": extra["cases"], "distinct_nontrivial": len(extra.get("input_distribution", {})),
              "rule": extra["rule"], "container_correspondence": extra}
    return problems, extra2, wit

def extra_C20(tier, seed, ROOT, SYMX, sh):
    """Auxiliary, non-proof leg: cargo check of the working tree over the feature matrix."""
    import os, re
    rc, out, dt = sh([os.path.join(ROOT, "bin", "featmatrix"), tier], timeout=7000)
    m = re.search(r"FEATMATRIX tier=\S+ cases=(\d+) failures=(\d+)", out)
    cases = int(m.group(1)) if m else 0; fails = int(m.group(2)) if m else -1
    extra = {"feature_matrix": {"cases": cases, "failures": fails, "wall_s": round(dt, 1), "kind": "auxiliary build matrix (not a proof)",
             "rule": "cargo check --lib --no-default-features --features <set> on a scratch copy of the working tree; quick: std x (each single feature, vecN x {az,serde,mint,bytemuck}, full set); thorough: {std, libm} x (singles, all pairs, full set)"}}
    problems = []; wit = []
    if rc != 0 or fails != 0:
        lines = [l for l in out.split("\n") if l.startswith("FEAT-FAIL")]
        problems.append({"kind": "feature-matrix", "what": "a cargo feature combination no longer builds on the stable toolchain", "detail": lines[:5] or [out[-800:]]})
        for l in lines[:5]:
            mm = re.match(r"FEAT-FAIL features=(\S+) (.*)", l)
            if mm: wit.append({"entry": "featmatrix", "status": "differs", "input": {"features": mm.group(1)}, "expected_by_verified_model": "builds", "implementation": mm.group(2)[:300]})
    return problems, extra, wit

for _k in PROPS: PROPS[_k].setdefault("selfcheck", {"quick": 200, "thorough": 5000})
