"""Per-property texts used by ./check (evidence) and bin/mkmanifest.py (MANIFEST.json)."""

TRUSTED_BASE = [
    "Coq 8.16.1 kernel (coqc, full .vo build; vm_compute only inside proofs by computation; no native_compute)",
    "translator symx (verif/symx): symbolic scalar Sym, DFS path explorer with total-order pruning, Gallina printer; validated on every run by the self-check against the same compiled code on f64, but trusted",
    "Rust parametricity: vek's generic code can act on the scalar type only through the trait methods Sym implements (no specialisation on stable Rust)",
    "rustc/cargo as installed; primitive scalar arithmetic is modelled as exact ring/field operations (float rounding, NaN, overflow inside generic code are not modelled)",
]

PROPS = {
    "C01": {
        "claimed": True,
        "technique": "Coq proof (ring) over programs translated from the compiled generic code by symbolic execution",
        "level_text": "Every Mul/operator impl of Mat2/3/4 in both layouts (186 entry points) is translated from the real compiled code into a closed formula, and Coq proves for ALL inputs in ANY commutative ring that it equals the textbook sum-of-products / per-element definition (12 layout pairings of matrix*matrix, 12 matrix-vector forms, identity neutrality through the real product code, 66 element-wise forms, 60 compound-assignment forms, 6 Vec4-as-2x2 helpers). Unit tests sample one integer 2x2 product.",
        "level_note": "Trusted: Coq kernel; the symx translator (re-run from /repo on every check and self-checked against the same code on f64); Rust parametricity in the scalar type. Scalar arithmetic is exact ring arithmetic (float rounding not modelled). Theorems print 'Closed under the global context'.",
        "design_ref": "DESIGN.md section 7, C01",
        "assumptions": ["scalar operations are exact commutative-ring operations (rounding/overflow not modelled)", "division and remainder are uninterpreted per-element operations"],
    },
}

for _k in PROPS: PROPS[_k].setdefault("selfcheck", {"quick": 200, "thorough": 5000})
